import KafVerif.Model.OpSnapshot
import KafVerif.Model.OpBucket
/-!
C39 — Operator metadata matches deployed brokers and names are valid.

Statement (properties.jsonl): the metadata the operator publishes lists one broker for each broker
replica in the cluster spec, with that pod's stable address.  Every partition leader is one of
those brokers, and partitions are numbered from 0 with no gaps.  Every bucket name the operator
derives for etcd snapshots is a valid S3 bucket name.

Quantifier: every cluster spec (replicas, advertised host/port, names, namespaces) and topic set.
Interpretation fixed in DESIGN §5: CRD-valid specs (`replicas ≥ 1` — the CRD has `minimum: 1,
default: 3` — and `partitions ≥ 0`; the CRD says `minimum: 1`).
-/

/-! ## Part A — BuildClusterMetadata -/
namespace KafVerif.OpSnapshot
open KafVerif.GoStr

theorem brokersFrom_eq (c : ClusterSpec) (i k : Nat) :
    brokersFrom c i k = (List.range k).map fun j =>
      ({ nodeId := ((i + j : Nat) : Int), host := brokerHost c (i + j), port := effPort c } : Broker) := by
  induction k generalizing i with
  | zero => simp [brokersFrom]
  | succ k ih =>
    rw [brokersFrom, ih, List.range_succ_eq_map]
    simp only [List.map_cons, List.map_map, Nat.add_zero, List.cons.injEq, true_and]
    apply List.map_congr_left
    intro j _
    simp [Nat.add_assoc, Nat.add_comm 1 j]

theorem replicaIDsFrom_eq (i k : Nat) :
    replicaIDsFrom i k = (List.range k).map fun j => ((i + j : Nat) : Int) := by
  induction k generalizing i with
  | zero => simp [replicaIDsFrom]
  | succ k ih =>
    rw [replicaIDsFrom, ih, List.range_succ_eq_map]
    simp only [List.map_cons, List.map_map, Nat.add_zero, List.cons.injEq, true_and]
    apply List.map_congr_left
    intro j _
    simp [Nat.add_assoc, Nat.add_comm 1 j]

theorem replicaIDs_eq (n : Nat) : replicaIDs n = (List.range n).map fun (j : Nat) => (j : Int) := by
  simp [replicaIDs, replicaIDsFrom_eq]

theorem replicaIDs_length (n : Nat) : (replicaIDs n).length = n := by simp [replicaIDs_eq]

theorem replicaIDs_getD (n j : Nat) (h : j < n) : (replicaIDs n).getD j 0 = (j : Int) := by
  simp [replicaIDs_eq, List.getD, h]

theorem partitionsFrom_eq (n : Nat) (hn : 0 < n) (i k : Nat) :
    partitionsFrom (replicaIDs n) i k = (List.range k).map fun j =>
      ({ id := ((i + j : Nat) : Int), leader := (((i + j) % n : Nat) : Int),
         replicas := replicaIDs n, isr := replicaIDs n } : Partition) := by
  induction k generalizing i with
  | zero => simp [partitionsFrom]
  | succ k ih =>
    rw [partitionsFrom, ih, List.range_succ_eq_map]
    simp only [List.map_cons, List.map_map, Nat.add_zero, replicaIDs_length, hn, if_true]
    rw [replicaIDs_getD n (i % n) (Nat.mod_lt _ hn)]
    simp only [List.cons.injEq, true_and]
    apply List.map_congr_left
    intro j _
    simp [Nat.add_assoc, Nat.add_comm 1 j]

/-- The metadata the property prescribes for `r` replicas. -/
def specMetadata (c : ClusterSpec) (r : Nat) (topics : List TopicSpec) : Metadata :=
  { brokers := (List.range r).map fun (i : Nat) => { nodeId := (i : Int), host := brokerHost c i, port := effPort c }
    controllerId := 0
    topics := topics.map fun t =>
      { name := t.name
        partitions := (List.range t.partitions.toNat).map fun (j : Nat) =>
          { id := (j : Int), leader := ((j % r : Nat) : Int),
            replicas := (List.range r).map (fun (i : Nat) => (i : Int)), isr := (List.range r).map (fun (i : Nat) => (i : Int)) } } }

/-- a CRD-valid input: `replicas = r ≥ 1`, no negative partition count -/
def CrdValid (c : ClusterSpec) (r : Nat) (topics : List TopicSpec) : Prop :=
  c.replicas = some (r : Int) ∧ 1 ≤ r ∧ ∀ t ∈ topics, 0 ≤ t.partitions

theorem effReplicas_valid {c : ClusterSpec} {r : Nat} (h : c.replicas = some (r : Int)) (h1 : 1 ≤ r) :
    effReplicas c = r := by
  simp only [effReplicas, h]
  have : (r : Int) > 0 := by omega
  simp [this] <;> omega

/-- **Refinement**: on every CRD-valid spec and topic set `BuildClusterMetadata` does not panic and
returns exactly the prescribed metadata. -/
theorem _root_.KafVerif.C39.build_eq_spec (c : ClusterSpec) (r : Nat) (topics : List TopicSpec)
    (h : CrdValid c r topics) : build c topics = .ok (specMetadata c r topics) := by
  obtain ⟨hr, h1, hp⟩ := h
  have hneg : topics.any (fun t => decide (t.partitions < 0)) = false := by
    rw [List.any_eq_false]; intro t ht; have := hp t ht; simp; omega
  unfold build
  simp only [effReplicas_valid hr h1, hneg, Bool.false_eq_true, if_false, specMetadata]
  congr 2
  · simp [brokersFrom_eq]
  · apply List.map_congr_left
    intro t _
    rw [partitionsFrom_eq r (by omega)]
    simp [replicaIDs_eq]

/-- **One broker per replica, with the pod's stable address.**  Broker `i` has node id `i`, and
for a multi-replica cluster (or no advertised host) its host is the StatefulSet pod DNS name
`<name>-broker-<i>.<name>-broker-headless.<namespace>.svc.cluster.local`. -/
theorem _root_.KafVerif.C39.brokers_match (c : ClusterSpec) (r : Nat) (topics : List TopicSpec)
    (h : CrdValid c r topics) :
    ∃ md, build c topics = .ok md ∧ md.brokers.length = r ∧
      ∀ i (hi : i < md.brokers.length), md.brokers[i].nodeId = (i : Int) ∧ md.brokers[i].port = effPort c ∧
        md.brokers[i].host = brokerHost c i ∧
        ((1 < r ∨ trimSpace c.advertisedHost = []) → md.brokers[i].host = podHost c i) := by
  refine ⟨_, KafVerif.C39.build_eq_spec c r topics h, by simp [specMetadata], ?_⟩
  intro i hi
  have hr := effReplicas_valid h.1 h.2.1
  simp only [specMetadata, List.getElem_map, List.getElem_range, true_and]
  intro hh
  simp only [brokerHost, hr]
  simp [hh]

/-- The host published for broker `i` IS the Kubernetes pod DNS name of pod `i` of the StatefulSet
`reconcileBrokerDeployment` creates, under the headless Service `reconcileBrokerHeadlessService` creates. -/
theorem _root_.KafVerif.C39.pod_host_is_statefulset_dns (c : ClusterSpec) (i : Nat) :
    podHost c i = k8sPodDNS (stsName c) i (headlessName c) c.namespace_ := by
  simp [podHost, k8sPodDNS, stsName, headlessName, s_broker, List.append_assoc]

/-- for CRD-valid specs the StatefulSet runs exactly as many pods as the metadata lists brokers -/
theorem _root_.KafVerif.C39.statefulset_replicas_match (c : ClusterSpec) (r : Nat) (topics : List TopicSpec)
    (h : CrdValid c r topics) : stsReplicas c = (r : Int) ∧ ∃ md, build c topics = .ok md ∧ md.brokers.length = r := by
  refine ⟨by simp [stsReplicas, h.1], _, KafVerif.C39.build_eq_spec c r topics h, by simp [specMetadata]⟩

/-- **Every partition leader is one of the listed brokers** (and leaders are dealt round-robin). -/
theorem _root_.KafVerif.C39.leaders_valid (c : ClusterSpec) (r : Nat) (topics : List TopicSpec)
    (h : CrdValid c r topics) :
    ∃ md, build c topics = .ok md ∧
      ∀ t ∈ md.topics, ∀ p ∈ t.partitions,
        (∃ b ∈ md.brokers, b.nodeId = p.leader) ∧ p.leader = p.id % (r : Int) ∧
        p.replicas = md.brokers.map (·.nodeId) ∧ p.isr = md.brokers.map (·.nodeId) := by
  refine ⟨_, KafVerif.C39.build_eq_spec c r topics h, ?_⟩
  intro t ht p hp
  simp only [specMetadata, List.mem_map] at ht
  obtain ⟨ts, _, rfl⟩ := ht
  simp only [List.mem_map, List.mem_range] at hp
  obtain ⟨j, _, rfl⟩ := hp
  have hr : 0 < r := h.2.1
  refine ⟨?_, ?_, ?_, ?_⟩
  · refine ⟨{ nodeId := ((j % r : Nat) : Int), host := brokerHost c (j % r), port := effPort c }, ?_, rfl⟩
    simp only [specMetadata, List.mem_map, List.mem_range]
    exact ⟨j % r, Nat.mod_lt _ hr, rfl⟩
  · simp
  · simp [specMetadata, List.map_map, Function.comp_def]
  · simp [specMetadata, List.map_map, Function.comp_def]

/-- **Partitions are numbered 0,1,…,n-1 without gaps**, topics keep their names and order. -/
theorem _root_.KafVerif.C39.partitions_dense (c : ClusterSpec) (r : Nat) (topics : List TopicSpec)
    (h : CrdValid c r topics) :
    ∃ md, build c topics = .ok md ∧ md.topics.map (·.name) = topics.map (·.name) ∧
      md.topics.map (fun t => t.partitions.map (·.id)) =
        topics.map (fun t => (List.range t.partitions.toNat).map (fun (j : Nat) => (j : Int))) := by
  refine ⟨_, KafVerif.C39.build_eq_spec c r topics h, ?_, ?_⟩ <;>
    simp [specMetadata, List.map_map, Function.comp_def]

/-- never a panic on CRD-valid input; a panic needs a negative partition count -/
theorem _root_.KafVerif.C39.build_panics_iff (c : ClusterSpec) (topics : List TopicSpec) :
    build c topics = .panic ↔ ∃ t ∈ topics, t.partitions < 0 := by
  unfold build
  by_cases hh : topics.any (fun t => decide (t.partitions < 0)) = true
  · simp only [hh, if_true, true_iff]
    obtain ⟨t, ht, hlt⟩ := List.any_eq_true.mp hh
    exact ⟨t, ht, by simpa using hlt⟩
  · simp only [hh, Bool.false_eq_true, if_false]
    constructor
    · intro h; cases h
    · rintro ⟨t, ht, hlt⟩
      exact absurd (List.any_eq_true.mpr ⟨t, ht, by simpa using hlt⟩) hh

/-! non-vacuity -/
def exSpec : ClusterSpec := { name := ['d'], namespace_ := ['n'], replicas := some 3, advertisedHost := ['h'], advertisedPort := none }
example : CrdValid exSpec 3 [{ name := ['t'], partitions := 4 }] := ⟨rfl, by decide, by decide⟩
example : (match build exSpec [{ name := ['t'], partitions := 4 }] with
    | .ok md => md.topics.map (fun t => t.partitions.map (·.leader)) | _ => []) = [[0, 1, 2, 0]] := by decide

end KafVerif.OpSnapshot

/-! ## Part B — bucket names -/
namespace KafVerif.OpBucket
open KafVerif.GoStr

theorem alnum_not_dash {c : Char} (h : isLowerAlnum c = true) : isDash c = false := by
  simp only [isDash, beq_eq_false_iff_ne, ne_eq]
  intro hc; subst hc; revert h; decide

theorem okChar_not_dash {c : Char} (h : okChar c = true) (hd : isDash c = false) : isLowerAlnum c = true := by
  simpa [okChar, hd] using h

/-! ### generic list facts about `trimRightBy`, `dropWhile`, `take` -/

theorem trimRightBy_prefix (p : Char → Bool) (s : List Char) : trimRightBy p s <+: s := by
  unfold trimRightBy
  have := List.dropWhile_suffix (l := s.reverse) p
  rw [← List.reverse_prefix] at this
  simpa using this

theorem trimRightBy_last (p : Char → Bool) (s : List Char) (c : Char)
    (h : (trimRightBy p s).getLast? = some c) : p c = false := by
  unfold trimRightBy at h
  rw [List.getLast?_reverse] at h
  cases hd : s.reverse.dropWhile p with
  | nil => simp [hd] at h
  | cons x t =>
    have hne : s.reverse.dropWhile p ≠ [] := by simp [hd]
    have := List.head_dropWhile_not p hne
    simp only [hd, List.head?_cons, Option.some.injEq] at h
    subst h
    simpa [hd] using this

theorem suffix_dropWhile_append (p : Char → Bool) (l r : List Char) (c : Char)
    (hr : r.head? = some c) (hc : p c = false) : r <:+ (l ++ r).dropWhile p := by
  induction l with
  | nil =>
    cases r with
    | nil => simp at hr
    | cons x t =>
      simp only [List.head?_cons, Option.some.injEq] at hr
      subst hr
      simp [List.dropWhile_cons, hc]
  | cons x l ih =>
    simp only [List.cons_append, List.dropWhile_cons]
    split
    · exact ih
    · show r <:+ (x :: l) ++ r
      exact List.suffix_append _ _

theorem prefix_trimRightBy (p : Char → Bool) (a s : List Char) (c : Char)
    (ha : a <+: s) (hl : a.getLast? = some c) (hc : p c = false) : a <+: trimRightBy p s := by
  obtain ⟨t, rfl⟩ := ha
  unfold trimRightBy
  rw [List.reverse_append]
  have h1 : a.reverse.head? = some c := by rw [List.head?_reverse]; exact hl
  have := suffix_dropWhile_append p t.reverse a.reverse c h1 hc
  rw [← List.reverse_prefix] at this
  simpa using this

theorem prefix_take (a s : List Char) (n : Nat) (ha : a <+: s) (hn : a.length ≤ n) : a <+: s.take n := by
  obtain ⟨t, rfl⟩ := ha
  rw [List.take_append]
  have : List.take n a = a := List.take_of_length_le hn
  rw [this]
  exact List.prefix_append _ _

theorem prefix_dropWhile (p : Char → Bool) (a s : List Char) (c : Char)
    (ha : a <+: s) (hh : a.head? = some c) (hc : p c = false) : a <+: s.dropWhile p := by
  obtain ⟨t, rfl⟩ := ha
  cases a with
  | nil => simp at hh
  | cons x a =>
    simp only [List.head?_cons, Option.some.injEq] at hh
    subst hh
    simp [List.dropWhile_cons, hc]

theorem all_of_prefix {p : Char → Bool} {a s : List Char} (h : a <+: s) (hs : s.all p = true) : a.all p = true := by
  rw [List.all_eq_true] at hs ⊢
  exact fun x hx => hs x (h.subset hx)

theorem all_of_suffix {p : Char → Bool} {a s : List Char} (h : a <:+ s) (hs : s.all p = true) : a.all p = true := by
  rw [List.all_eq_true] at hs ⊢
  exact fun x hx => hs x (h.subset hx)

/-! ### `noDoubleDash` is inherited by prefixes and suffixes -/

theorem nodd_of_append (a b : List Char) (h : noDoubleDash (a ++ b) = true) :
    noDoubleDash a = true ∧ noDoubleDash b = true := by
  induction a with
  | nil => exact ⟨rfl, h⟩
  | cons x a ih =>
    cases a with
    | nil =>
      refine ⟨rfl, ?_⟩
      cases b with
      | nil => rfl
      | cons y b' =>
        simp only [List.cons_append, List.nil_append, noDoubleDash, Bool.and_eq_true] at h
        exact h.2
    | cons x' a' =>
      simp only [List.cons_append, noDoubleDash, Bool.and_eq_true] at h ⊢
      have := ih h.2
      exact ⟨⟨h.1, this.1⟩, this.2⟩

theorem nodd_of_prefix {a s : List Char} (h : a <+: s) (hs : noDoubleDash s = true) : noDoubleDash a = true := by
  obtain ⟨t, rfl⟩ := h; exact (nodd_of_append a t hs).1

theorem nodd_of_suffix {a s : List Char} (h : a <:+ s) (hs : noDoubleDash s = true) : noDoubleDash a = true := by
  obtain ⟨t, rfl⟩ := h; exact (nodd_of_append t a hs).2

/-! ### the sanitising loop -/

theorem sanLoop_all (raw : List Char) (b : Bool) : (sanLoop raw b).all okChar = true := by
  induction raw generalizing b with
  | nil => simp [sanLoop]
  | cons r rest ih =>
    unfold sanLoop
    split
    · rename_i h; simp [okChar, h, ih]
    · split
      · simp [okChar, isDash, ih]
      · exact ih _

theorem sanLoop_nodd (raw : List Char) (b : Bool) :
    noDoubleDash (sanLoop raw b) = true ∧ (b = true → ∀ c, (sanLoop raw b).head? = some c → isDash c = false) := by
  induction raw generalizing b with
  | nil => simp [sanLoop, noDoubleDash]
  | cons r rest ih =>
    unfold sanLoop
    split
    · rename_i h
      have hnd := alnum_not_dash h
      refine ⟨?_, ?_⟩
      · cases hs : sanLoop rest false with
        | nil => rfl
        | cons y t =>
          have := (ih false).1
          rw [hs] at this
          simp [noDoubleDash, hnd, this]
      · intro _ c hc
        simp only [List.head?_cons, Option.some.injEq] at hc
        subst hc; exact hnd
    · split
      · rename_i _ hb
        have hb' : b = false := by simpa using hb
        subst hb'
        refine ⟨?_, by intro h; cases h⟩
        cases hs : sanLoop rest true with
        | nil => rfl
        | cons y t =>
          have h2 := (ih true)
          rw [hs] at h2
          have hy : isDash y = false := h2.2 rfl y rfl
          simp [noDoubleDash, hy, h2.1]
      · rename_i _ hb
        have hb' : b = true := by simpa using hb
        subst hb'
        exact ih true

theorem sanLoop_pfx (rest : List Char) : sanLoop (pfx ++ rest) false = pfx ++ sanLoop rest false := by
  simp [pfx, sanLoop, isLowerAlnum]

/-! ### the sanitiser -/

/-- what every output of `sanitize` satisfies when the lowered, trimmed input starts with the prefix -/
structure Good (s : List Char) : Prop where
  pre : pfx <+: s
  le : s.length ≤ 63
  chars : s.all okChar = true
  last : ∀ c, s.getLast? = some c → isDash c = false
  nodd : noDoubleDash s = true

theorem pfx_last : pfx.getLast? = some 'd' := by decide
theorem pfx_head : pfx.head? = some 'k' := by decide

theorem good_valid {s : List Char} (g : Good s) : validBucket s = true := by
  obtain ⟨t, rfl⟩ := g.pre
  have hlen : 3 ≤ (pfx ++ t).length := by simp [pfx]
  have hlast : (match (pfx ++ t).getLast? with | some c => isLowerAlnum c | none => false) = true := by
    cases hl : (pfx ++ t).getLast? with
    | none => simp [pfx] at hl
    | some c =>
      have hd := g.last c hl
      have hc : okChar c = true := by
        have := List.all_eq_true.mp g.chars c (List.mem_of_getLast? hl)
        exact this
      simpa using okChar_not_dash hc hd
  have hhead : (match (pfx ++ t).head? with | some c => isLowerAlnum c | none => false) = true := by
    simp [pfx, isLowerAlnum]
  have hpre : pfx.isPrefixOf (pfx ++ t) = true := by
    rw [List.isPrefixOf_iff_prefix]; exact List.prefix_append _ _
  have hle := g.le
  simp only [validBucket, Bool.and_eq_true, decide_eq_true_eq]
  exact ⟨⟨⟨⟨⟨⟨hlen, hle⟩, g.chars⟩, hhead⟩, hlast⟩, hpre⟩, g.nodd⟩

theorem good_pfx : Good pfx :=
  ⟨List.prefix_refl _, by decide, by decide, by intro c h; rw [pfx_last] at h; injection h with h; subst h; decide, by decide⟩

theorem trimSpace_pfx (x : List Char) : pfx <+: trimSpace (pfx ++ x) := by
  have h1 : trimLeft (pfx ++ x) = pfx ++ x := by simp [trimLeft, pfx, List.dropWhile, isSpace]
  unfold trimSpace
  rw [h1]
  exact prefix_trimRightBy isSpace pfx (pfx ++ x) 'd' (List.prefix_append _ _) pfx_last (by decide)

/-- `sanitize` of anything that starts with the prefix is `Good` (for every rune-wise `ToLower`
that leaves `[a-z0-9-]` alone). -/
theorem sanitize_good (lower : Char → Char) (hl : ∀ c, okChar c = true → lower c = c) (x : List Char) :
    Good (sanitize lower (pfx ++ x)) := by
  have hp0 : pfx <+: (trimSpace (pfx ++ x)).map lower := by
    have := (trimSpace_pfx x).map lower
    have hm : pfx.map lower = pfx := by
      have hfix : ∀ c ∈ pfx, lower c = id c :=
        fun c hc => hl c (List.all_eq_true.mp (by decide : pfx.all okChar = true) c hc)
      rw [List.map_congr_left hfix, List.map_id]
    rwa [hm] at this
  obtain ⟨rest, hrest⟩ := hp0
  unfold sanitize
  simp only [← hrest]
  have hne : pfx ++ rest ≠ [] := by simp [pfx]
  simp only [hne, if_false]
  -- the trimmed loop output
  have hloop : pfx <+: sanLoop (pfx ++ rest) false := by rw [sanLoop_pfx]; exact List.prefix_append _ _
  have hall := sanLoop_all (pfx ++ rest) false
  have hnd := (sanLoop_nodd (pfx ++ rest) false).1
  have hdw : (sanLoop (pfx ++ rest) false).dropWhile isDash <:+ sanLoop (pfx ++ rest) false :=
    List.dropWhile_suffix _
  have h1 : pfx <+: trimDash (sanLoop (pfx ++ rest) false) :=
    prefix_trimRightBy isDash pfx _ 'd'
      (prefix_dropWhile isDash pfx _ 'k' hloop pfx_head (by decide)) pfx_last (by decide)
  have htp : trimDash (sanLoop (pfx ++ rest) false) <+: (sanLoop (pfx ++ rest) false).dropWhile isDash :=
    trimRightBy_prefix _ _
  have hall1 : (trimDash (sanLoop (pfx ++ rest) false)).all okChar = true :=
    all_of_prefix htp (all_of_suffix hdw hall)
  have hnd1 : noDoubleDash (trimDash (sanLoop (pfx ++ rest) false)) = true :=
    nodd_of_prefix htp (nodd_of_suffix hdw hnd)
  have hlast1 : ∀ c, (trimDash (sanLoop (pfx ++ rest) false)).getLast? = some c → isDash c = false :=
    fun c hc => trimRightBy_last isDash _ c hc
  generalize trimDash (sanLoop (pfx ++ rest) false) = out at h1 hall1 hnd1 htp hlast1
  by_cases hlen : out.length > maxBucketLen
  · simp only [hlen, if_true]
    have h2 : pfx <+: trimRightBy isDash (out.take maxBucketLen) :=
      prefix_trimRightBy isDash pfx _ 'd' (prefix_take pfx out _ h1 (by decide)) pfx_last (by decide)
    have hp2 : trimRightBy isDash (out.take maxBucketLen) <+: out :=
      (trimRightBy_prefix _ _).trans (List.take_prefix _ _)
    have hne2 : trimRightBy isDash (out.take maxBucketLen) ≠ [] := by
      intro h; rw [h] at h2; simp [pfx] at h2
    simp only [hne2, if_false]
    refine ⟨h2, ?_, all_of_prefix hp2 hall1, fun c hc => trimRightBy_last _ _ c hc, nodd_of_prefix hp2 hnd1⟩
    have := (trimRightBy_prefix isDash (out.take maxBucketLen)).length_le
    simp only [List.length_take, maxBucketLen] at this ⊢
    omega
  · simp only [hlen, if_false]
    have hne2 : out ≠ [] := by intro h; rw [h] at h1; simp [pfx] at h1
    simp only [hne2, if_false]
    exact ⟨h1, by simp only [maxBucketLen] at hlen; omega, hall1, hlast1, hnd1⟩

/-- **Every derived snapshot bucket name is a valid S3 bucket name** — for every cluster name and
namespace (any runes, any length, blank or not) and every rune-wise `ToLower` that fixes `[a-z0-9-]`. -/
theorem _root_.KafVerif.C39.bucket_valid (lower : Char → Char) (hl : ∀ c, okChar c = true → lower c = c)
    (namespace_ name : List Char) : validBucket (defaultBucket lower namespace_ name) = true := by
  unfold defaultBucket defaultBucketWith
  simp only
  split
  · exact good_valid good_pfx
  · split
    · exact good_valid (sanitize_good lower hl _)
    · split
      · exact good_valid (sanitize_good lower hl _)
      · have := sanitize_good lower hl ('-' :: trimSpace namespace_ ++ '-' :: trimSpace name)
        simpa using good_valid this

/-- the concrete lowering used by the driver satisfies the hypothesis of `bucket_valid` -/
theorem _root_.KafVerif.C39.lowerLatin1_fixes (c : Char) (h : okChar c = true) : lowerLatin1 c = c := by
  simp only [okChar, isLowerAlnum, isDash, Bool.or_eq_true, Bool.and_eq_true, decide_eq_true_eq, beq_iff_eq] at h
  unfold lowerLatin1
  simp only
  split
  · rename_i hh
    rcases h with (h | h) | h
    · omega
    · omega
    · subst h; revert hh; decide
  · rfl

/-- The code as found has no length cap: a 60-character cluster name in namespace `default`
yields an 82-character "bucket name". -/
theorem _root_.KafVerif.C39.bucket_old_violates :
    ∃ namespace_ name, validBucket (defaultBucketOld id namespace_ name) = false :=
  ⟨"default".toList, List.replicate 60 'a', by decide⟩

/-! non-vacuity -/
example : defaultBucket lowerLatin1 " Prod ".toList "My_Cluster!!".toList = "kafscale-etcd-prod-my-cluster".toList := by decide
example : (defaultBucket id "default".toList (List.replicate 60 'a')).length = 63 := by decide
example : (defaultBucket id "ns".toList ((List.replicate 46 'a') ++ "-b".toList)) =
    "kafscale-etcd-ns-".toList ++ List.replicate 46 'a' := by decide

end KafVerif.OpBucket

/-! ## Part C — the published host vs the deployed Service, for names of ANY length (follow-up r3)

`<name>-broker-headless` is 16 characters longer than the cluster name, so it stops being a valid
DNS label (63) for names longer than 47.  The code as it is does NOT shorten anything — neither in
`brokerHeadlessServiceName` nor in `BuildClusterMetadata` — and that is exactly what keeps the two
sites in agreement.  A change that shortens one site only breaks the stable-address property for
every name longer than 47 and for no shorter name (`cut_service_*` below). -/
namespace KafVerif.OpSnapshot
open KafVerif.GoStr
open KafVerif.OpBucket (trimRightBy trimRightBy_prefix)

theorem s_headless_eq : s_headless = "-broker-headless".toList := by decide
theorem s_brokerSfx_eq : s_brokerSfx = "-broker".toList := by decide

/-- **No truncation, whatever the length**: the deployed StatefulSet / Service names are the cluster
name followed by a fixed suffix; the name is a prefix, the length grows by exactly 7 / 16. -/
theorem _root_.KafVerif.C39.headless_name_any_length (c : ClusterSpec) :
    headlessName c = c.name ++ "-broker-headless".toList ∧ stsName c = c.name ++ "-broker".toList ∧
    (headlessName c).length = c.name.length + 16 ∧ (stsName c).length = c.name.length + 7 ∧
    c.name <+: headlessName c ∧ c.name <+: stsName c := by
  refine ⟨by rw [headlessName, s_headless_eq], by rw [stsName, s_brokerSfx_eq], ?_, ?_, ?_, ?_⟩
  · simp [headlessName, s_headless, s_brokerSfx]
  · simp [stsName, s_brokerSfx]
  · exact List.prefix_append _ _
  · exact List.prefix_append _ _

/-- **The service label of the published host is the deployed `serviceName` — and nothing else.**
For every spec (name of any length, any characters) and every candidate service name `svc`: the
host `BuildClusterMetadata` publishes for pod `i` is the pod's DNS name under `svc` iff `svc` is
literally `brokerHeadlessServiceName(cluster)`. -/
theorem _root_.KafVerif.C39.published_host_service_is_deployed_service (c : ClusterSpec) (i : Nat) (svc : List Char) :
    podHost c i = k8sPodDNS (stsName c) i svc c.namespace_ ↔ svc = headlessName c := by
  rw [KafVerif.C39.pod_host_is_statefulset_dns]
  constructor
  · intro h
    simp only [k8sPodDNS] at h
    have h1 := List.append_cancel_right h
    have h2 := List.append_cancel_right h1
    have h3 := List.append_cancel_right h2
    exact (List.append_cancel_left h3).symm
  · rintro rfl; rfl

/-- every broker of a CRD-valid multi-replica (or host-less) cluster is published under the deployed Service -/
theorem _root_.KafVerif.C39.brokers_published_under_deployed_service (c : ClusterSpec) (r : Nat) (topics : List TopicSpec)
    (h : CrdValid c r topics) (hm : 1 < r ∨ trimSpace c.advertisedHost = []) :
    ∃ md, build c topics = .ok md ∧ md.brokers.length = r ∧ r = (stsReplicas c).toNat ∧
      ∀ i (hi : i < md.brokers.length),
        md.brokers[i].host = k8sPodDNS (stsName c) i (headlessName c) c.namespace_ := by
  obtain ⟨md, hb, hl, hh⟩ := KafVerif.C39.brokers_match c r topics h
  refine ⟨md, hb, hl, by simp [stsReplicas, h.1], fun i hi => ?_⟩
  rw [← KafVerif.C39.pod_host_is_statefulset_dns]
  exact (hh i hi).2.2.2 hm

/-- residual of the code as it is: the Service name is a DNS label (≤ 63) exactly for names of at most 47 characters -/
theorem _root_.KafVerif.C39.headless_label_fits_iff (c : ClusterSpec) :
    (headlessName c).length ≤ 63 ↔ c.name.length ≤ 47 := by
  rw [(KafVerif.C39.headless_name_any_length c).2.2.1]; omega

/-- The one-sided shortening (seeded change C39-r3-1): `name[:47]`, `TrimRight "-."`, then the suffix
(runes for bytes: cluster names are ASCII). -/
def headlessNameCut (c : ClusterSpec) : List Char :=
  (if 47 < c.name.length then trimRightBy (fun ch => ch == '-' || ch == '.') (c.name.take 47) else c.name) ++ s_headless

/-- short names cannot tell the difference … -/
theorem _root_.KafVerif.C39.cut_service_same_for_short_names (c : ClusterSpec) (h : c.name.length ≤ 47) :
    headlessNameCut c = headlessName c := by
  simp [headlessNameCut, headlessName, Nat.not_lt.mpr h]

/-- … and EVERY longer name does: with the shortened Service no published host is a pod address. -/
theorem _root_.KafVerif.C39.cut_service_breaks_every_long_name (c : ClusterSpec) (h : 47 < c.name.length) (i : Nat) :
    podHost c i ≠ k8sPodDNS (stsName c) i (headlessNameCut c) c.namespace_ := by
  intro heq
  have hc := (KafVerif.C39.published_host_service_is_deployed_service c i _).mp heq
  have hl := congrArg List.length hc
  have hp := (trimRightBy_prefix (fun ch => ch == '-' || ch == '.') (c.name.take 47)).length_le
  simp only [headlessNameCut, headlessName, h, if_true, List.length_append, List.length_take] at hl hp
  omega

/-! non-vacuity with a 52-character name (Service name of 68 characters) -/
def exLong : ClusterSpec :=
  { name := List.replicate 46 'a' ++ "-bbbbb".toList, namespace_ := "ns".toList, replicas := some 3, advertisedHost := [], advertisedPort := none }
example : exLong.name.length = 52 ∧ (headlessName exLong).length = 68 := by decide
example : CrdValid exLong 3 [] := ⟨rfl, by decide, by decide⟩
set_option maxRecDepth 8000 in
example : podHost exLong 2 = (List.replicate 46 'a' ++ "-bbbbb-broker-2.".toList ++ List.replicate 46 'a' ++
    "-bbbbb-broker-headless.ns.svc.cluster.local".toList) := by decide
example : headlessNameCut exLong = List.replicate 46 'a' ++ "-broker-headless".toList := by decide
example : (headlessNameCut exLong).length = 62 := by decide

end KafVerif.OpSnapshot
