import KafVerif.Lemmas.GroupEffect
/-!
C13 — Stale or unknown group members are fenced.

Statement (properties.jsonl): an offset commit, heartbeat or sync from a member that is not in the
group's current generation is rejected with an error and changes no committed offset; generation
numbers a group reports to its members never decrease while the group exists.

Model: `commit` / `heartbeat` / `sync` of `KafVerif.Group`; "the group's current generation" is what
`loadGroupIfMissing` hands the request: the loaded group, or the one restored from the store.
-/
namespace KafVerif.Group
open Group

/-- the request's member is not a member of the current generation of the group the coordinator
sees (`none` = no such group) -/
def NotCurrent (ost : Option Group) (mid : Nat) (gen : Int) : Prop :=
  ∀ st, ost = some st → (lookup st.members mid).isNone = true ∨ gen ≠ (st.gen : Int)

theorem commitCheck_notCurrent {ost : Option Group} {mid : Nat} {gen : Int} (h : NotCurrent ost mid gen) :
    commitCheck ost mid gen = UNKNOWN_MEMBER_ID ∨ commitCheck ost mid gen = ILLEGAL_GENERATION := by
  unfold commitCheck
  cases ost with
  | none => exact Or.inl rfl
  | some st =>
    simp only
    rcases h st rfl with h | h
    · left; rw [if_pos h]
    · split
      · exact Or.inl rfl
      · right; first | rfl | rw [if_pos h]

/-- **C13 (commit).** In every state, with every store-fault setting: an OffsetCommit whose member is
unknown to the group or whose generation is not the group's is answered with an error code for
every partition, and the committed offsets are unchanged. -/
theorem _root_.KafVerif.C13.commit_fenced (v : Variant) (s s1 : State) (g mid : Nat) (gen : Int) (parts : List (Nat × Int × Int × Nat))
    (ost : Option Group) (hl : loadGroup v s g = some (s1, ost)) (hn : NotCurrent ost mid gen) :
    (commit v s g mid gen parts).1.offsets = s.offsets ∧
    ∃ code, (code = UNKNOWN_MEMBER_ID ∨ code = ILLEGAL_GENERATION) ∧
      (commit v s g mid gen parts).2 = .commit (parts.map fun e => (e.1, e.2.1, code)) := by
  unfold commit
  rw [hl]
  simp only
  have hc := commitCheck_notCurrent hn
  have hne : ¬ commitCheck ost mid gen = NONE := by
    rcases hc with h | h <;> rw [h] <;> decide
  simp only [hne, if_false]
  exact ⟨(loadGroup_frame hl).offsets, _, hc, rfl⟩

/-- **C13 ("standalone" commits are fenced too).** An OffsetCommit with a negative generation (−1 = "no
generation", what a caller outside group management sends, usually with an empty member id) never
matches a group's generation: whatever the member id, whatever the group's phase and members, it is
answered with an error and changes no committed offset. -/
theorem _root_.KafVerif.C13.negative_generation_commit_fenced (v : Variant) (s s1 : State) (g mid : Nat) (gen : Int)
    (parts : List (Nat × Int × Int × Nat)) (ost : Option Group) (hl : loadGroup v s g = some (s1, ost)) (hneg : gen < 0) :
    (commit v s g mid gen parts).1.offsets = s.offsets ∧
    ∃ code, (code = UNKNOWN_MEMBER_ID ∨ code = ILLEGAL_GENERATION) ∧
      (commit v s g mid gen parts).2 = .commit (parts.map fun e => (e.1, e.2.1, code)) :=
  KafVerif.C13.commit_fenced v s s1 g mid gen parts ost hl (fun st _ => Or.inr (by omega))

/-- a request that cannot even load the group (store error) changes nothing either -/
theorem commit_load_error (v : Variant) (s : State) (g mid : Nat) (gen : Int) (parts : List (Nat × Int × Int × Nat))
    (hl : loadGroup v s g = none) :
    (commit v s g mid gen parts).1.offsets = s.offsets ∧ (commit v s g mid gen parts).2 = .goErr := by
  unfold commit; rw [hl]; exact ⟨rfl, rfl⟩

/-- **C13 (heartbeat).** A heartbeat from an unknown member or with a stale generation is answered
UNKNOWN_MEMBER_ID / ILLEGAL_GENERATION and changes nothing but loading the group. -/
theorem _root_.KafVerif.C13.heartbeat_fenced (v : Variant) (s s1 : State) (g mid : Nat) (gen : Int) (ost : Option Group)
    (hl : loadGroup v s g = some (s1, ost)) (hn : NotCurrent ost mid gen) :
    ∃ code, (code = UNKNOWN_MEMBER_ID ∨ code = ILLEGAL_GENERATION) ∧ heartbeat v s g mid gen = (s1, .code code) := by
  unfold heartbeat
  rw [hl]
  cases ost with
  | none => exact ⟨_, Or.inl rfl, rfl⟩
  | some st =>
    simp only
    cases hm : lookup st.members mid with
    | none => exact ⟨_, Or.inl rfl, rfl⟩
    | some m =>
      simp only
      rcases hn st rfl with h | h
      · rw [hm] at h; simp at h
      · simp only [h, ne_eq, not_false_eq_true, if_true]
        exact ⟨_, Or.inr rfl, rfl⟩

/-- **C13 (sync).** A sync from an unknown member or with a stale generation is answered
UNKNOWN_MEMBER_ID / ILLEGAL_GENERATION with an empty assignment and changes nothing but loading the group. -/
theorem _root_.KafVerif.C13.sync_fenced (v : Variant) (s s1 : State) (g mid : Nat) (gen : Int) (ost : Option Group)
    (hl : loadGroup v s g = some (s1, ost)) (hn : NotCurrent ost mid gen) :
    ∃ code, (code = UNKNOWN_MEMBER_ID ∨ code = ILLEGAL_GENERATION) ∧ sync v s g mid gen = (s1, .sync code []) := by
  unfold sync
  rw [hl]
  cases ost with
  | none => exact ⟨_, Or.inl rfl, rfl⟩
  | some st =>
    simp only
    by_cases hg : gen ≠ (st.gen : Int)
    · simp only [hg, ne_eq, not_false_eq_true, if_true]
      exact ⟨_, Or.inr rfl, rfl⟩
    · rcases hn st rfl with h | h
      · simp only [hg, if_false, h, if_true]
        exact ⟨_, Or.inl rfl, rfl⟩
      · exact absurd h hg

/-- a fenced request leaves the committed offsets alone (heartbeat and sync never touch them) -/
theorem heartbeat_sync_offsets (v : Variant) (s : State) (g mid : Nat) (gen : Int) :
    (heartbeat v s g mid gen).1.offsets = s.offsets ∧ (sync v s g mid gen).1.offsets = s.offsets :=
  ⟨(heartbeat_frame v s g mid gen).offsets, (sync_frame v s g mid gen).offsets⟩

/-- **C13 (the persisted generation is current).** When `persistGroupLocked` succeeds the stored group
carries the generation of the in-memory group, and `restoreGroupState` reads it back unchanged: a
failover cannot make a group report a smaller generation than the last one persisted. -/
theorem _root_.KafVerif.C13.persisted_generation_current (v : Variant) (s s' : State) (g : Nat) (st : Group) (now : Nat)
    (hne : st.members ≠ []) (h : persist v s g (some st) = (s', true)) :
    ∃ p, lookup s'.persisted g = some p ∧ p.gen = st.gen ∧ (restore v (cloneGroup v p) now).gen = st.gen := by
  unfold persist at h
  have hemp : st.members.isEmpty = false := by cases hm : st.members <;> simp_all
  simp only [hemp, Bool.false_eq_true, if_false] at h
  split at h
  · simp at h
  · simp only [Prod.mk.injEq, and_true] at h
    subst h
    have hcg : ∀ p : PGroup, (cloneGroup v p).gen = p.gen := by
      intro p; unfold cloneGroup; split <;> rfl
    refine ⟨cloneGroup v (build st), by simp [lookup_insert], ?_, ?_⟩
    · rw [hcg]; rfl
    · unfold restore
      simp only [ensureLeader_gen, hcg]
      rfl

/-- **C13 (generations never decrease).** In every reachable state `run init ops` and for every
next step `op` (any request, tick, cleanup pass, store fault, metadata change): a group that is
loaded in the coordinator before and after the step does not report a smaller generation after it.
(A failover empties the table; what the new coordinator restores is the last persisted generation —
`persisted_generation_current`.) -/
theorem _root_.KafVerif.C13.generation_mono (ops : List Op) (op : Op) (g : Nat) (st st' : Group)
    (h : lookup (run init ops).groups g = some st) (h' : lookup (step (run init ops) op).1.groups g = some st') :
    st.gen ≤ st'.gen := by
  obtain ⟨st0, hb, hd⟩ := step_groups (run init ops) (sorted_run ops) op g st' h'
  have : st0 = st := by
    cases hb with
    | loaded hl => rw [h] at hl; cases hl; rfl
    | restored hn _ => rw [h] at hn; cases hn
    | fresh hn _ => rw [h] at hn; cases hn
  subst this
  exact derived_gen_le hd

/-- a group restored from the store reports the persisted generation, and everything a request then
does to it can only increase it -/
theorem generation_mono_restored (ops : List Op) (op : Op) (g : Nat) (p : PGroup) (st' : Group)
    (hn : lookup (run init ops).groups g = none) (hp : lookup (run init ops).persisted g = some p)
    (h' : lookup (step (run init ops) op).1.groups g = some st') : p.gen ≤ st'.gen := by
  obtain ⟨st0, hb, hd⟩ := step_groups (run init ops) (sorted_run ops) op g st' h'
  have hle := derived_gen_le hd
  cases hb with
  | loaded hl => rw [hn] at hl; cases hl
  | restored _ hp' =>
    rw [hp] at hp'; cases hp'
    have : (restore fixed p (run init ops).clock).gen = p.gen := by unfold restore; simp
    omega
  | fresh _ hp' => rw [hp] at hp'; cases hp'

/-- **C13 (the commit is one critical section).** In the fixed code a request issued while an
OffsetCommit is in flight waits for it: the outcome is the commit followed by the other request,
never "check, other request, writes". -/
theorem _root_.KafVerif.C13.race_commit_atomic (s : State) (g mid : Nat) (gen : Int) (parts : List (Nat × Int × Int × Nat)) (other : Op) :
    raceV fixed s g mid gen parts other =
      ((stepV fixed (commit fixed s g mid gen parts).1 other).1, (commit fixed s g mid gen parts).2,
       (stepV fixed (commit fixed s g mid gen parts).1 other).2, false) := by
  unfold raceV
  simp [fixed]

/-- **C13 (pre-fix defect, witness).** With the lock released between check and writes: member 5 joins,
its commit passes the check, its LeaveGroup runs (the group is gone), then the offset is written —
a committed offset from a member that is in no generation of any group.  The fixed code orders the
two requests: the commit completes first (while the member is current), then the leave. -/
theorem _root_.KafVerif.C13.raceOld_violates :
    let s := (stepV fixed init (.join 1 0 10000 10000 1 (some (1, [0])) 5)).1
    let old := raceV { c13Old := true } s 1 5 1 [(0, 0, 42, 1)] (.leave 1 5)
    let new := raceV fixed s 1 5 1 [(0, 0, 42, 1)] (.leave 1 5)
    (old.2.2.2 = true ∧ old.1.groups = [] ∧ getOffset old.1.offsets (1, 0, 0) = some (42, 1))
    ∧ new.2.2.2 = false := by
  decide

-- non-vacuity of `NotCurrent` with a loaded group: member 7 is unknown to the group member 5 formed
example : ∃ st, lookup (run init [.join 1 0 0 0 1 (some (1, [0])) 5]).groups 1 = some st ∧ NotCurrent (some st) 7 1 := by
  refine ⟨_, rfl, ?_⟩
  intro st h; cases h; left; decide

end KafVerif.Group
