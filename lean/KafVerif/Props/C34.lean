import KafVerif.Lemmas.KafkaAlloc
/-!
C34 — Segment decoders never crash on any bytes.

Statement (properties.jsonl): the processors' segment decoders and the restore scanner return
records or an error for any segment bytes, never a crash or an unbounded allocation.
Quantifier: every byte string.

Theorems (all for EVERY byte string `bs` and every allocator limit `lim ≥ 112·|bs|`; `goMakeLim lim`
panics on a negative size and on any single allocation above `lim` bytes, so "≠ panic" also says
that no allocation request exceeds 112 bytes per input byte):

* `decodeSegment_iceberg_total`, `decodeSegment_sql_total` — the fixed decoders
  (`decodeSegment → decodeRecordBatches → decodeBatchRecords → decodeRecord → readNullableBytes`);
* `decodeSegment_alloc_bounded` — the same with the limit instantiated to exactly `112·|bs|`;
* `parseIndex_total` — `ParseIndex` of pkg/storage and `parseIndex` of both decoders;
* `pitr_collect_total`, `pitr_plan_total` — `collectRecoverableBatches` (with
  `truncateRecordBatchToTimestamp`, `scanRecord`) and `buildRestorePlan`;
* witnesses that the code before fix C34 violates the property (`…Old…`), by evaluation;
* `varint_overflow_is_error`, `scanRecord_total` — the hand-written varint readers answer an over-long varint with an
  error and otherwise a value with a byte count in 1..10; `scanRecord` on any bytes returns an error or in-range values.
-/
namespace KafVerif.Kafka


variable {lim : Nat} {c : Cfg}

theorem readNullable_spec (hg : c.guard = true) (len : Int) (r : Bytes) (hl : r.length ≤ lim) :
    readNullable (goMakeLim lim) c len r ≠ .panic ∧
    ∀ v rest, readNullable (goMakeLim lim) c len r = .ok (v, rest) → rest.length ≤ r.length := by
  unfold readNullable
  by_cases h1 : len < 0
  · simp [h1]
  · by_cases h2 : len = 0
    · simp [h2]
    · by_cases h3 : len > (r.length : Int)
      · simp [h1, h2, hg, h3]
      · have hmk : goMakeLim lim len 1 = .ok () := goMakeLim_ok (by omega) (by omega)
        simp only [h1, h2, hg, h3, if_false, Bool.true_and, decide_false, Bool.false_eq_true, hmk, bind_ok]
        constructor
        · exact bind_ne_panic (ofOpt_ne_panic _) (fun a _ => by simp)
        · intro v rest h
          cases hr : readN len.toNat r with
          | none => simp [hr] at h
          | some p =>
            obtain ⟨a, b⟩ := p
            simp only [hr, ofOpt_some, bind_ok, GoResult.ok.injEq, Prod.mk.injEq] at h
            have := readN_eq hr
            rw [← h.2, this.2.1]; simp


theorem readHeader_spec (hg : c.guard = true) (hs : c.Shrinks) (r : Bytes) (hl : r.length ≤ lim) :
    readHeader (goMakeLim lim) c r ≠ .panic ∧
    ∀ h rest, readHeader (goMakeLim lim) c r = .ok (h, rest) → rest.length < r.length := by
  unfold readHeader
  cases hk : c.rdInt r with
  | none => simp
  | some k =>
    have hk1 := hs.1 r k.1 k.2 hk
    have hA := readNullable_spec (lim := lim) hg k.1 k.2 (by omega)
    simp only [ofOpt_some, bind_ok]
    cases hkb : readNullable (goMakeLim lim) c k.1 k.2 with
    | err => simp
    | panic => exact absurd hkb hA.1
    | ok kb =>
      have hkb1 := hA.2 kb.1 kb.2 hkb
      simp only [bind_ok]
      cases hv : c.rdInt kb.2 with
      | none => simp
      | some v =>
        have hv1 := hs.1 kb.2 v.1 v.2 hv
        have hB := readNullable_spec (lim := lim) hg v.1 v.2 (by omega)
        simp only [ofOpt_some, bind_ok]
        cases hvb : readNullable (goMakeLim lim) c v.1 v.2 with
        | err => simp
        | panic => exact absurd hvb hB.1
        | ok vb =>
          have hvb1 := hB.2 vb.1 vb.2 hvb
          simp only [bind_ok]
          refine ⟨by simp, ?_⟩
          intro h rest he
          simp only [GoResult.ok.injEq, Prod.mk.injEq] at he
          rw [← he.2]; omega

theorem readHeaders_ne_panic (hg : c.guard = true) (hs : c.Shrinks) (n : Nat) : ∀ (r : Bytes), r.length ≤ lim →
    readHeaders (goMakeLim lim) c n r ≠ .panic := by
  induction n with
  | zero => intro r _; simp [readHeaders]
  | succ n ih =>
    intro r hl
    unfold readHeaders
    have hA := readHeader_spec (lim := lim) hg hs r hl
    refine bind_ne_panic hA.1 (fun h hh => ?_)
    have := hA.2 h.1 h.2 hh
    refine bind_ne_panic (ih h.2 (by omega)) (fun t _ => by simp)


theorem decodeRecordBody_ne_panic (hg : c.guard = true) (hs : c.Shrinks) (base firstTs : Int) (data : Bytes)
    (hl : recSize * data.length ≤ lim) : decodeRecordBody (goMakeLim lim) c base firstTs data ≠ .panic := by
  have hrs : recSize = 112 := rfl
  have hhs : hdrSize = 40 := rfl
  unfold decodeRecordBody
  cases data with
  | nil => simp
  | cons a0 b1 =>
    simp only [List.length_cons] at hl
    rw [hrs] at hl
    simp only
    cases hts : c.rdTs b1 with
    | none => simp
    | some ts =>
      have h1 := hs.2 b1 ts.1 ts.2 hts
      simp only [ofOpt_some, bind_ok]
      cases hod : c.rdInt ts.2 with
      | none => simp
      | some od =>
        have h2 := hs.1 ts.2 od.1 od.2 hod
        simp only [ofOpt_some, bind_ok]
        cases hkl : c.rdInt od.2 with
        | none => simp
        | some kl =>
          have h3 := hs.1 od.2 kl.1 kl.2 hkl
          have hA := readNullable_spec (lim := lim) hg kl.1 kl.2 (by omega)
          simp only [ofOpt_some, bind_ok]
          cases hkey : readNullable (goMakeLim lim) c kl.1 kl.2 with
          | err => simp
          | panic => exact absurd hkey hA.1
          | ok key =>
            have h4 := hA.2 key.1 key.2 hkey
            simp only [bind_ok]
            cases hvl : c.rdInt key.2 with
            | none => simp
            | some vl =>
              have h5 := hs.1 key.2 vl.1 vl.2 hvl
              have hB := readNullable_spec (lim := lim) hg vl.1 vl.2 (by omega)
              simp only [ofOpt_some, bind_ok]
              cases hval : readNullable (goMakeLim lim) c vl.1 vl.2 with
              | err => simp
              | panic => exact absurd hval hB.1
              | ok val =>
                have h6 := hB.2 val.1 val.2 hval
                simp only [bind_ok]
                cases hhc : c.rdInt val.2 with
                | none => simp
                | some hc =>
                  have h7 := hs.1 val.2 hc.1 hc.2 hhc
                  simp only [ofOpt_some, bind_ok, hg, Bool.true_and]
                  by_cases hbad : (decide (hc.1 < 0) || decide (hc.1 > (hc.2.length : Int))) = true
                  · simp [hbad]
                  · have hb' : ¬ hc.1 < 0 ∧ ¬ hc.1 > (hc.2.length : Int) := by
                      simpa [Bool.or_eq_true, not_or] using hbad
                    have hmk : goMakeLim lim hc.1 hdrSize = .ok () :=
                      goMakeLim_ok (by omega) (by rw [hhs]; omega)
                    simp only [hbad, Bool.false_eq_true, if_false, hmk, bind_ok]
                    exact bind_ne_panic (readHeaders_ne_panic hg hs _ _ (by omega)) (fun _ _ => by simp)


theorem decodeRecord_spec (hg : c.guard = true) (hs : c.Shrinks) (base firstTs : Int) (r : Bytes)
    (hl : recSize * r.length ≤ lim) :
    decodeRecord (goMakeLim lim) c base firstTs r ≠ .panic ∧
    ∀ d rest, decodeRecord (goMakeLim lim) c base firstTs r = .ok (d, rest) → rest.length < r.length := by
  have hrs : recSize = 112 := rfl
  rw [hrs] at hl
  unfold decodeRecord
  cases hlen : c.rdInt r with
  | none => simp
  | some len =>
    have h1 := hs.1 r len.1 len.2 hlen
    simp only [ofOpt_some, bind_ok, hg, Bool.true_and]
    by_cases hneg : len.1 < 0
    · simp [hneg]
    · by_cases hbig : len.1 > (len.2.length : Int)
      · simp [hneg, hbig]
      · have hmk : goMakeLim lim len.1 1 = .ok () := goMakeLim_ok (by omega) (by omega)
        simp only [hneg, hbig, if_false, decide_false, Bool.false_eq_true, hmk, bind_ok]
        cases hp : readN len.1.toNat len.2 with
        | none => simp
        | some p =>
          have hq := readN_eq (a := p.1) (b := p.2) hp
          simp only [ofOpt_some, bind_ok]
          have hbody := decodeRecordBody_ne_panic (lim := lim) hg hs base firstTs p.1
            (by rw [hrs, hq.1, List.length_take]; omega)
          cases hb : decodeRecordBody (goMakeLim lim) c base firstTs p.1 with
          | panic => exact absurd hb hbody
          | err => simp
          | ok d =>
            simp only [bind_ok]
            refine ⟨by simp, ?_⟩
            intro d' rest he
            simp only [GoResult.ok.injEq, Prod.mk.injEq] at he
            rw [← he.2, hq.2.1, List.length_drop]; omega

theorem decodeRecords_ne_panic (hg : c.guard = true) (hs : c.Shrinks) (base firstTs : Int) (n : Nat) :
    ∀ (r : Bytes), recSize * r.length ≤ lim → decodeRecords (goMakeLim lim) c base firstTs n r ≠ .panic := by
  induction n with
  | zero => intro r _; simp [decodeRecords]
  | succ n ih =>
    intro r hl
    unfold decodeRecords
    have hA := decodeRecord_spec (lim := lim) hg hs base firstTs r hl
    refine bind_ne_panic hA.1 (fun d hd => ?_)
    have := hA.2 d.1 d.2 hd
    have hrs : recSize = 112 := rfl
    rw [hrs] at hl
    refine bind_ne_panic (ih d.2 (by rw [hrs]; omega)) (fun t _ => by simp)

theorem decodeBatchRecords_ne_panic (hg : c.guard = true) (hc0 : c.cnt32 = 0) (hs : c.Shrinks) (batch : Bytes)
    (hl : recSize * batch.length ≤ lim) : decodeBatchRecords (goMakeLim lim) c batch ≠ .panic := by
  have hrs : recSize = 112 := rfl
  unfold decodeBatchRecords
  by_cases h61 : batch.length < 61
  · simp [h61]
  · simp only [h61, if_false]
    rw [goSlice_ok (b := batch) (i := 21) (j := 23) (by omega) (by omega) (by omega)]
    simp only [bind_ok]
    split
    · simp
    · rw [goSlice_ok (b := batch) (i := 0) (j := 8) (by omega) (by omega) (by omega),
          goSlice_ok (b := batch) (i := 27) (j := 35) (by omega) (by omega) (by omega),
          goSlice_ok (b := batch) (i := 57) (j := 61) (by omega) (by omega) (by omega)]
      simp only [bind_ok]
      split
      · simp
      · rename_i hpos
        rw [goSlice_ok (b := batch) (i := 61) (j := (batch.length : Int)) (by omega) (by omega) (by omega)]
        simp only [bind_ok, hg, Bool.true_and, countExceeds_std hc0 (toS32_in _)]
        have hlen : ((batch.drop (61 : Int).toNat).take ((batch.length : Int) - 61).toNat).length = batch.length - 61 := by
          simp [List.length_take, List.length_drop]; omega
        split
        · simp
        · rename_i hcnt
          rw [hlen] at hcnt
          generalize toS32 (beDec ((batch.drop (57 : Int).toNat).take ((61 : Int) - 57).toNat)) = cnt at *
          have hcnt' : ¬ cnt > ((batch.length - 61 : Nat) : Int) := by simpa using hcnt
          have hmk : goMakeLim lim cnt recSize = .ok () :=
            goMakeLim_ok (by omega) (by rw [hrs] at hl ⊢; omega)
          simp only [hmk, bind_ok]
          exact decodeRecords_ne_panic hg hs _ _ _ _ (by rw [hlen]; rw [hrs] at hl ⊢; omega)

theorem decodeBatches_ne_panic (hg : c.guard = true) (hc0 : c.cnt32 = 0) (hs : c.Shrinks) (fuel : Nat) : ∀ (rem : Bytes),
    recSize * rem.length ≤ lim → decodeBatches (goMakeLim lim) c fuel rem ≠ .panic := by
  have hrs : recSize = 112 := rfl
  induction fuel with
  | zero => intro rem _; simp [decodeBatches]
  | succ fuel ih =>
    intro rem hl
    unfold decodeBatches
    by_cases h12 : rem.length < 12
    · simp [h12]
    · simp only [h12, if_false]
      rw [goSlice_ok (b := rem) (i := 8) (j := 12) (by omega) (by omega) (by omega)]
      simp only [bind_ok]
      generalize beDec ((rem.drop (8 : Int).toNat).take ((12 : Int) - 8).toNat) = batchLen
      split
      · simp
      · split
        · simp
        · rename_i hfl
          rw [goSlice_ok (b := rem) (i := 0) (j := ((12 + batchLen : Nat) : Int)) (by omega) (by omega) (by omega)]
          simp only [bind_ok]
          refine bind_ne_panic (decodeBatchRecords_ne_panic hg hc0 hs _ ?_) (fun rs _ => ?_)
          · simp only [List.length_take, List.length_drop]
            rw [hrs] at hl ⊢; omega
          · refine bind_ne_panic (ih _ ?_) (fun m _ => by simp)
            rw [List.length_drop]; rw [hrs] at hl ⊢; omega

/-- `decodeSegment` of a guarded decoder never panics when the allocator admits 112 bytes per input byte -/
theorem decodeSegment_ne_panic (hg : c.guard = true) (hc0 : c.cnt32 = 0) (hs : c.Shrinks) (seg : Bytes)
    (hl : recSize * seg.length ≤ lim) : decodeSegment (goMakeLim lim) c seg ≠ .panic := by
  have hrs : recSize = 112 := rfl
  unfold decodeSegment
  by_cases h48 : seg.length < 32 + 16
  · simp [h48]
  · simp only [h48, if_false]
    rw [goSlice_ok (b := seg) (i := 0) (j := 4) (by omega) (by omega) (by omega)]
    simp only [bind_ok]
    split
    · simp
    · rw [goSlice_ok (b := seg) (i := 32) (j := ((seg.length - 16 : Nat) : Int)) (by omega) (by omega) (by omega)]
      simp only [bind_ok]
      exact decodeBatches_ne_panic hg hc0 hs _ _ (by
        simp only [List.length_take, List.length_drop]
        rw [hrs] at hl ⊢; omega)


/-! ### index parsers -/

theorem parseIndexRoot_ne_panic (data : Bytes) (hl : data.length ≤ lim) :
    parseIndexRoot (goMakeLim lim) data ≠ .panic := by
  unfold parseIndexRoot
  by_cases h16 : data.length < 16
  · simp [h16]
  · simp only [h16, if_false]
    rw [goSlice_ok (b := data) (i := 0) (j := 4) (by omega) (by omega) (by omega)]
    simp only [bind_ok]
    split
    · simp
    · split
      · simp
      · generalize toS32 (beDec (sl data 6 10)) = count
        split
        · simp
        · split
          · simp
          · rename_i h0 hbig
            have hmk : goMakeLim lim count 8 = .ok () := goMakeLim_ok (by omega) (by omega)
            simp only [hmk, bind_ok]
            exact bind_ne_panic (ofOpt_ne_panic _) (fun _ _ => by simp)

theorem parseIndexIceberg_ne_panic (data : Bytes) (hl : 2 * data.length ≤ lim) :
    parseIndexIceberg (goMakeLim lim) true data ≠ .panic := by
  unfold parseIndexIceberg
  by_cases h16 : data.length < 16
  · simp [h16]
  · simp only [h16, if_false]
    rw [goSlice_ok (b := data) (i := 0) (j := 4) (by omega) (by omega) (by omega)]
    simp only [bind_ok]
    split
    · simp
    · split
      · simp
      · generalize toS32 (beDec (sl data 6 10)) = count
        simp only [Bool.true_and]
        split
        · simp
        · rename_i hbad
          have hb' : ¬ count < 0 ∧ ¬ count * 12 > ((data.length - 16 : Nat) : Int) := by
            simpa [Bool.or_eq_true, not_or] using hbad
          have hmk : goMakeLim lim count 16 = .ok () := goMakeLim_ok (by omega) (by omega)
          simp only [hmk, bind_ok]
          exact ofOpt_ne_panic _

theorem parseIndexSql_ne_panic (data : Bytes) (hl : 2 * data.length ≤ lim) :
    parseIndexSql (goMakeLim lim) true data ≠ .panic := by
  unfold parseIndexSql
  by_cases h16 : data.length < 16
  · simp [h16]
  · simp only [h16, if_false]
    rw [goSlice_ok (b := data) (i := 0) (j := 4) (by omega) (by omega) (by omega)]
    simp only [bind_ok]
    split
    · simp
    · generalize beDec (sl data 6 10) = count
      simp only [Bool.true_and]
      split
      · simp
      · rename_i hbad
        have hb' : ¬ count > (data.length - 16) / 12 := by simpa using hbad
        have hmk : goMakeLim lim (count : Int) 16 = .ok () := goMakeLim_ok (by omega) (by
          simp only [Int.toNat_natCast]; omega)
        simp only [hmk, bind_ok]
        exact ofOpt_ne_panic _

/-! ### PITR scanner -/

theorem scanRecord_spec (r : Bytes) (hl : r.length ≤ lim) :
    scanRecord (goMakeLim lim) r ≠ .panic ∧
    ∀ v rest, scanRecord (goMakeLim lim) r = .ok (v, rest) → rest.length < r.length := by
  unfold scanRecord
  cases hlen : readVarint64 r with
  | none => simp
  | some len =>
    have h1 := readVarint64_rest_lt (r := r) (v := len.1) (rest := len.2) hlen
    simp only [ofOpt_some, bind_ok]
    by_cases hneg : len.1 < 0
    · simp [hneg]
    · by_cases hbig : len.1 > (len.2.length : Int)
      · simp [hneg, hbig]
      · have hmk : goMakeLim lim len.1 1 = .ok () := goMakeLim_ok (by omega) (by omega)
        simp only [hneg, hbig, if_false, hmk, bind_ok]
        cases hp : readN len.1.toNat len.2 with
        | none => simp
        | some p =>
          have hq := readN_eq (a := p.1) (b := p.2) hp
          simp only [ofOpt_some, bind_ok]
          cases hd : p.1 with
          | nil => simp
          | cons a0 b1 =>
            simp only
            cases hts : readVarint64 b1 with
            | none => simp
            | some ts =>
              simp only [ofOpt_some, bind_ok]
              cases hod : readVarint64 ts.2 with
              | none => simp
              | some od =>
                simp only [ofOpt_some, bind_ok]
                refine ⟨by simp, ?_⟩
                intro v rest he
                simp only [GoResult.ok.injEq, Prod.mk.injEq] at he
                rw [← he.2, hq.2.1, List.length_drop]; omega

theorem scanLoop_ne_panic (firstTs cutoff : Int) (total : Nat) (n : Nat) : ∀ (r : Bytes) (st : ScanSt),
    r.length ≤ lim → scanLoop (goMakeLim lim) firstTs cutoff total n r st ≠ .panic := by
  induction n with
  | zero => intro r st _; simp [scanLoop]
  | succ n ih =>
    intro r st hl
    unfold scanLoop
    have hA := scanRecord_spec (lim := lim) r hl
    refine bind_ne_panic hA.1 (fun s hs => ?_)
    have := hA.2 s.1 s.2 hs
    simp only
    split
    · simp
    · exact ih _ _ (by omega)

theorem truncateBatch_ne_panic (crc : Bytes → Nat) (batch : Bytes) (cutoff : Int) (hl : batch.length ≤ lim) :
    truncateBatch crc (goMakeLim lim) batch cutoff ≠ .panic := by
  unfold truncateBatch
  split
  · simp
  · simp only
    split
    · exact bind_ne_panic (ofOpt_ne_panic _) (fun _ _ => by simp)
    · split
      · simp
      · split
        · simp
        · refine bind_ne_panic (scanLoop_ne_panic _ _ _ _ _ _ (by rw [List.length_drop]; omega)) (fun st _ => ?_)
          split
          · simp
          · split
            · exact bind_ne_panic (ofOpt_ne_panic _) (fun _ _ => by simp)
            · exact bind_ne_panic (ofOpt_ne_panic _) (fun _ _ => by simp)

theorem collectLoop_ne_panic (crc : Bytes → Nat) (cutoff : Int) (fuel : Nat) : ∀ (rem : Bytes),
    rem.length ≤ lim → collectLoop crc (goMakeLim lim) cutoff fuel rem ≠ .panic := by
  induction fuel with
  | zero => intro rem _; simp [collectLoop]
  | succ fuel ih =>
    intro rem hl
    unfold collectLoop
    split
    · simp
    · simp only
      split
      · simp
      · split
        · simp
        · rename_i h12 h0 hfl
          generalize beDec (sl rem 8 12) = batchLen at *
          have hmk : goMakeLim lim ((12 + batchLen : Nat) : Int) 1 = .ok () :=
            goMakeLim_ok (by omega) (by simp only [Int.toNat_natCast]; omega)
          simp only [hmk, bind_ok]
          refine bind_ne_panic (truncateBatch_ne_panic crc _ cutoff (by rw [List.length_take]; omega)) (fun t _ => ?_)
          split
          · simp
          · exact bind_ne_panic (ih _ (by rw [List.length_drop]; omega)) (fun _ _ => by simp)

theorem collectRecoverable_ne_panic (crc : Bytes → Nat) (seg : Bytes) (cutoff : Int) (hl : seg.length ≤ lim) :
    collectRecoverable crc (goMakeLim lim) seg cutoff ≠ .panic := by
  unfold collectRecoverable
  split
  · simp
  · split
    · simp
    · exact collectLoop_ne_panic crc cutoff _ _ (by
        simp only [sl, List.length_take, List.length_drop]; omega)

theorem buildRestorePlan_ne_panic (crc : Bytes → Nat) (seg idx : Bytes) (restoreMs createdMs : Int)
    (hs : seg.length ≤ lim) (hi : idx.length ≤ lim) :
    buildRestorePlan crc (goMakeLim lim) seg idx restoreMs createdMs ≠ .panic := by
  unfold buildRestorePlan
  refine bind_ne_panic (parseIndexRoot_ne_panic idx hi) (fun pi _ => ?_)
  refine bind_ne_panic (collectRecoverable_ne_panic crc seg restoreMs hs) (fun bs _ => ?_)
  split
  · simp
  · exact bind_ne_panic (ofOpt_ne_panic _) (fun _ _ => by simp)


/-! ### witnesses: the decoders before fix C34 (`guard := false`) -/

def wHdrCountNeg : Bytes := [75, 65, 70, 83, 0, 1, 0, 0, 0, 0, 0, 0, 0, 0, 0, 0, 0, 0, 0, 0, 0, 0, 0, 0, 0, 0, 0, 0, 0, 0, 0, 0, 0, 0, 0, 0, 0, 0, 0, 0, 0, 0, 0, 56, 0, 0, 0, 0, 2, 10, 52, 131, 134, 0, 0, 0, 0, 0, 0, 0, 0, 0, 0, 0, 0, 0, 0, 64, 0, 0, 0, 0, 0, 0, 0, 255, 255, 255, 255, 255, 255, 255, 255, 255, 255, 255, 255, 255, 255, 0, 0, 0, 1, 12, 0, 0, 0, 1, 1, 1, 230, 179, 227, 104, 0, 0, 0, 0, 0, 0, 0, 0, 69, 78, 68, 33]  -- 116 bytes
def wRecordLen40 : Bytes := [75, 65, 70, 83, 0, 1, 0, 0, 0, 0, 0, 0, 0, 0, 0, 0, 0, 0, 0, 0, 0, 0, 0, 0, 0, 0, 0, 0, 0, 0, 0, 0, 0, 0, 0, 0, 0, 0, 0, 0, 0, 0, 0, 63, 0, 0, 0, 0, 2, 161, 64, 67, 191, 0, 0, 0, 0, 0, 0, 0, 0, 0, 0, 0, 0, 0, 0, 64, 0, 0, 0, 0, 0, 0, 0, 255, 255, 255, 255, 255, 255, 255, 255, 255, 255, 255, 255, 255, 255, 0, 0, 0, 1, 128, 128, 128, 128, 128, 64, 0, 0, 0, 0, 0, 0, 0, 0, 25, 127, 52, 34, 0, 0, 0, 0, 0, 0, 0, 0, 69, 78, 68, 33]  -- 123 bytes
def wKeyLen40 : Bytes := [75, 65, 70, 83, 0, 1, 0, 0, 0, 0, 0, 0, 0, 0, 0, 0, 0, 0, 0, 0, 0, 0, 0, 0, 0, 0, 0, 0, 0, 0, 0, 0, 0, 0, 0, 0, 0, 0, 0, 0, 0, 0, 0, 66, 0, 0, 0, 0, 2, 149, 43, 17, 157, 0, 0, 0, 0, 0, 0, 0, 0, 0, 0, 0, 0, 0, 0, 64, 0, 0, 0, 0, 0, 0, 0, 255, 255, 255, 255, 255, 255, 255, 255, 255, 255, 255, 255, 255, 255, 0, 0, 0, 1, 32, 0, 0, 0, 128, 128, 128, 128, 128, 64, 0, 0, 0, 0, 0, 0, 0, 230, 255, 250, 89, 0, 0, 0, 0, 0, 0, 0, 0, 69, 78, 68, 33]  -- 126 bytes
def wRecordCount31 : Bytes := [75, 65, 70, 83, 0, 1, 0, 0, 0, 0, 0, 0, 0, 0, 0, 0, 0, 0, 0, 0, 0, 0, 0, 0, 0, 0, 0, 0, 0, 0, 0, 0, 0, 0, 0, 0, 0, 0, 0, 0, 0, 0, 0, 49, 0, 0, 0, 0, 2, 68, 46, 80, 95, 0, 0, 0, 0, 0, 0, 0, 0, 0, 0, 0, 0, 0, 0, 64, 0, 0, 0, 0, 0, 0, 0, 255, 255, 255, 255, 255, 255, 255, 255, 255, 255, 255, 255, 255, 255, 127, 255, 255, 255, 77, 158, 214, 243, 0, 0, 0, 0, 0, 0, 0, 0, 69, 78, 68, 33]  -- 109 bytes
def wIndexNeg : Bytes := [73, 68, 88, 0, 0, 1, 255, 255, 255, 255, 0, 0, 0, 1, 0, 0]
def wIndexHuge : Bytes := [73, 68, 88, 0, 0, 1, 255, 255, 255, 255, 0, 0, 0, 1, 0, 0]

/-- one minimal record, batch header claiming 306783379 (= ⌈2^31/7⌉) records: 7·count wraps negative in int32 -/
def wCountWrap7 : Bytes := [75, 65, 70, 83, 0, 1, 0, 0, 0, 0, 0, 0, 0, 0, 0, 0, 0, 0, 0, 0, 0, 0, 0, 0, 0, 0, 0, 0, 0, 0, 0, 0, 0, 0, 0, 0, 0, 0, 0, 0, 0, 0, 0, 56, 0, 0, 0, 0, 2, 40, 148, 129, 181, 0, 0, 0, 0, 0, 0, 0, 0, 0, 0, 0, 0, 0, 0, 64, 0, 0, 0, 0, 0, 0, 0, 255, 255, 255, 255, 255, 255, 255, 255, 255, 255, 255, 255, 255, 255, 18, 73, 36, 147, 12, 0, 0, 0, 1, 1, 0, 82, 121, 161, 230, 0, 0, 0, 0, 0, 0, 0, 0, 69, 78, 68, 33]  -- 116 bytes

/-! ### the property theorems -/

/-- **C34 (iceberg).** For every byte string the iceberg `decodeSegment` returns records or an
error — no slice expression, `make` with a negative size, or allocation above 112 bytes per input
byte is reachable. -/
theorem _root_.KafVerif.C34.decodeSegment_iceberg_total (bs : Bytes) (lim : Nat) (h : 112 * bs.length ≤ lim) :
    decodeSegment (goMakeLim lim) cfgIceberg bs ≠ .panic :=
  decodeSegment_ne_panic rfl rfl cfgIceberg_shrinks bs h

/-- **C34 (sql).** Same for the sql decoder (32-bit varint reader, `readVarlong` for timestamps). -/
theorem _root_.KafVerif.C34.decodeSegment_sql_total (bs : Bytes) (lim : Nat) (h : 112 * bs.length ≤ lim) :
    decodeSegment (goMakeLim lim) cfgSql bs ≠ .panic :=
  decodeSegment_ne_panic rfl rfl cfgSql_shrinks bs h

/-- **C34 (bounded allocation).** With an allocator that refuses every request above
`112·|bs|` bytes both decoders still never panic: no single `make` asks for more. -/
theorem _root_.KafVerif.C34.decodeSegment_alloc_bounded (bs : Bytes) :
    decodeSegment (goMakeLim (112 * bs.length)) cfgIceberg bs ≠ .panic ∧
    decodeSegment (goMakeLim (112 * bs.length)) cfgSql bs ≠ .panic :=
  ⟨decodeSegment_ne_panic rfl rfl cfgIceberg_shrinks bs (Nat.le_refl _),
   decodeSegment_ne_panic rfl rfl cfgSql_shrinks bs (Nat.le_refl _)⟩

/-- **C34 (index parsers).** `ParseIndex` of the broker and `parseIndex` of both decoders. -/
theorem _root_.KafVerif.C34.parseIndex_total (bs : Bytes) (lim : Nat) (h : 2 * bs.length ≤ lim) :
    parseIndexRoot (goMakeLim lim) bs ≠ .panic ∧
    parseIndexIceberg (goMakeLim lim) true bs ≠ .panic ∧
    parseIndexSql (goMakeLim lim) true bs ≠ .panic :=
  ⟨parseIndexRoot_ne_panic bs (by omega), parseIndexIceberg_ne_panic bs h, parseIndexSql_ne_panic bs h⟩

/-- **C34 (restore scanner).** `collectRecoverableBatches` (frame loop, `truncateRecordBatchToTimestamp`,
`scanRecord`) for every segment, cutoff and checksum function. -/
theorem _root_.KafVerif.C34.pitr_collect_total (crc : Bytes → Nat) (bs : Bytes) (cutoff : Int) (lim : Nat)
    (h : bs.length ≤ lim) : collectRecoverable crc (goMakeLim lim) bs cutoff ≠ .panic :=
  collectRecoverable_ne_panic crc bs cutoff h

theorem _root_.KafVerif.C34.pitr_plan_total (crc : Bytes → Nat) (seg idx : Bytes) (restoreMs createdMs : Int) (lim : Nat)
    (hs : seg.length ≤ lim) (hi : idx.length ≤ lim) :
    buildRestorePlan crc (goMakeLim lim) seg idx restoreMs createdMs ≠ .panic :=
  buildRestorePlan_ne_panic crc seg idx restoreMs createdMs hs hi

/-! ### total allocation of one call

`decodeSegmentA`, `parseIndex…A`, `collectRecoverableA`, `buildRestorePlanA` (`Model/KafkaAlloc.lean`) are
the model functions with a byte counter: every `make` adds its size.  Each theorem says (i) the
instrumented function returns exactly what the model function returns, for every allocator — so the
counter is the sum over the `make` calls the model really executes on that input — and (ii) the sum is
at most `a·|input| + b` with the constants `alloc…A/B` that the allocation monitor of the check reads
from the driver. -/

/-- **C34 (total allocation, decoders).** For every byte string and every allocator, the `make`s of one
`decodeSegment` call (record slice, record buffers, keys, values, header slices, header keys/values)
request at most 154 bytes per input byte in total — iceberg and sql decoder. -/
theorem _root_.KafVerif.C34.decodeSegment_total_alloc (mk : Alloc) (bs : Bytes) :
    (decodeSegmentA mk cfgIceberg bs).res = decodeSegment mk cfgIceberg bs ∧
    (decodeSegmentA mk cfgSql bs).res = decodeSegment mk cfgSql bs ∧
    (decodeSegmentA mk cfgIceberg bs).cost ≤ allocDecodeA * bs.length + allocDecodeB ∧
    (decodeSegmentA mk cfgSql bs).cost ≤ allocDecodeA * bs.length + allocDecodeB :=
  ⟨decodeSegmentA_res mk cfgIceberg bs, decodeSegmentA_res mk cfgSql bs,
   decodeSegmentA_spends rfl rfl cfgIceberg_shrinks bs, decodeSegmentA_spends rfl rfl cfgSql_shrinks bs⟩

/-- **C34 (total allocation, index parsers).** `ParseIndex` of the broker: at most 1 byte per input byte;
`parseIndex` of both processors: at most 2. -/
theorem _root_.KafVerif.C34.parseIndex_total_alloc (mk : Alloc) (bs : Bytes) :
    ((parseIndexRootA mk bs).res = parseIndexRoot mk bs ∧
     (parseIndexIcebergA mk true bs).res = parseIndexIceberg mk true bs ∧
     (parseIndexSqlA mk true bs).res = parseIndexSql mk true bs) ∧
    (parseIndexRootA mk bs).cost ≤ allocIndexRootA * bs.length + allocIndexB ∧
    (parseIndexIcebergA mk true bs).cost ≤ allocIndexProcA * bs.length + allocIndexB ∧
    (parseIndexSqlA mk true bs).cost ≤ allocIndexProcA * bs.length + allocIndexB :=
  ⟨⟨parseIndexRootA_res mk bs, parseIndexIcebergA_res mk true bs, parseIndexSqlA_res mk true bs⟩,
   parseIndexRootA_spends bs, parseIndexIcebergA_spends bs, parseIndexSqlA_spends bs⟩

/-- **C34 (total allocation, restore scanner).** `collectRecoverableBatches` (frame copies, `scanRecord`
buffers, the truncated copy): at most 3 bytes per segment byte; `buildRestorePlan` adds `ParseIndex` of the
index object (the output buffers of `BuildSegment`, which are not longer than the input, are not counted). -/
theorem _root_.KafVerif.C34.pitr_total_alloc (crc : Bytes → Nat) (mk : Alloc) (seg idx : Bytes) (cutoff created : Int) :
    (collectRecoverableA crc mk seg cutoff).res = collectRecoverable crc mk seg cutoff ∧
    (buildRestorePlanA crc mk seg idx cutoff created).res = buildRestorePlan crc mk seg idx cutoff created ∧
    (collectRecoverableA crc mk seg cutoff).cost ≤ allocCollectA * seg.length + allocCollectB ∧
    (buildRestorePlanA crc mk seg idx cutoff created).cost ≤
      allocCollectA * seg.length + allocIndexRootA * idx.length + (allocCollectB + allocIndexB) :=
  ⟨collectRecoverableA_res mk crc seg cutoff, buildRestorePlanA_res crc seg idx cutoff created,
   (collectRecoverableA_spends crc seg cutoff).1, buildRestorePlanA_spends crc seg idx cutoff created⟩

/-- the bound is about the *guarded* decoders: before fix C34 a 109-byte segment announcing 2^31−1 records
makes the same accounting reach 240 GB (with an allocator that never refuses) -/
theorem _root_.KafVerif.C34.icebergOld_total_alloc_unbounded :
    (decodeSegmentA mkOk cfgIcebergOld wRecordCount31).cost > allocDecodeA * wRecordCount31.length + allocDecodeB ∧
    (decodeSegmentA mkOk cfgIceberg wRecordCount31).cost = 0 := by decide

/-- pre-fix iceberg decoder: `headerCount = -1` → `makeslice: cap out of range` -/
theorem _root_.KafVerif.C34.icebergOld_headerCount_panics :
    decodeSegment (goMakeLim AllocMax) cfgIcebergOld wHdrCountNeg = .panic := by decide

/-- pre-fix sql decoder: same input, same panic -/
theorem _root_.KafVerif.C34.sqlOld_headerCount_panics :
    decodeSegment (goMakeLim AllocMax) cfgSqlOld wHdrCountNeg = .panic := by decide

set_option maxRecDepth 8000 in
/-- pre-fix iceberg decoder: a record length / key length varint of 2^40 or a record count of
2^31-1 asks for more than the allocator has (fatal out-of-memory in Go) on a ~110-byte segment -/
theorem _root_.KafVerif.C34.icebergOld_recordLength_unbounded :
    decodeSegment (goMakeLim AllocMax) cfgIcebergOld wRecordLen40 = .panic ∧
    decodeSegment (goMakeLim AllocMax) cfgIcebergOld wKeyLen40 = .panic ∧
    decodeSegment (goMakeLim AllocMax) cfgIcebergOld wRecordCount31 = .panic :=
  ⟨by decide, by decide, by decide⟩

/-- pre-fix index parsers: entry count -1 (iceberg: `makeslice: len out of range`) / 0xffffffff (sql: 64 GiB) -/
theorem _root_.KafVerif.C34.parseIndexOld_negative_count_panics :
    parseIndexIceberg (goMakeLim AllocMax) false wIndexNeg = .panic ∧
    parseIndexSql (goMakeLim AllocMax) false wIndexHuge = .panic := by decide

/-- **The count check as coded cannot wrap.**  `int(recordCount) > len(recordsData)` widens the int32
header field to the 64-bit `int`; for every int32 count and every length the model's check (stated
with `wrap64`) is the mathematical comparison. -/
theorem _root_.KafVerif.C34.count_guard_is_widened (rc : Int) (h : InI32 rc) (len : Nat) :
    countExceeds cfgSql rc len = decide (rc > (len : Int)) ∧ countExceeds cfgIceberg rc len = decide (rc > (len : Int)) :=
  ⟨countExceeds_std rfl h len, countExceeds_std rfl h len⟩

/-- **The int32-product variant of the check admits unbounded counts.**  With
`recordCount*7 > int32(len(recordsData))` computed in int32, every count in the band
[⌈2^31/7⌉, ⌊(2^32−1)/7⌋] = [306783379, 613566756] makes the product wrap negative, so the check passes for
every length; on the 116-byte witness the decoder then asks for 306783379·112 bytes (≈ 34 GB) and dies,
while the decoder as coded answers `err`. -/
theorem _root_.KafVerif.C34.int32_product_guard_admits_unbounded_count :
    (∀ (rc : Int) (len : Nat), 306783379 ≤ rc → rc ≤ 613566756 → len < 2 ^ 31 → countExceeds cfgSqlCntMul7 rc len = false) ∧
    decodeSegment (goMakeLim AllocMax) cfgSqlCntMul7 wCountWrap7 = .panic ∧
    decodeSegment (goMakeLim AllocMax) cfgSql wCountWrap7 = .err := by
  refine ⟨?_, by decide, by decide⟩
  intro rc len h1 h2 h3
  unfold countExceeds
  have hk : cfgSqlCntMul7.cnt32 = 7 := rfl
  simp only [hk, Nat.succ_ne_zero, if_false, decide_eq_false_iff_not, Int.not_lt]
  have h7 : ((7 : Nat) : Int) = 7 := rfl
  rw [h7]
  have e1 : toU32 (rc * 7) = (rc * 7).toNat := by
    unfold toU32; rw [Int.emod_eq_of_lt (by omega) (by omega)]
  have e2 : toU32 (len : Int) = len := by
    unfold toU32; rw [Int.emod_eq_of_lt (by omega) (by omega)]; simp
  have e3 : (rc * 7).toNat % 2 ^ 32 = (rc * 7).toNat := Nat.mod_eq_of_lt (by omega)
  have e4 : len % 2 ^ 32 = len := Nat.mod_eq_of_lt (by omega)
  unfold wrap32 toS32
  rw [e1, e2, e3, e4]
  have h5 : ¬ (rc * 7).toNat < 2 ^ 31 := by omega
  have h6 : len < 2 ^ 31 := h3
  simp only [h5, h6, if_false, if_true]
  omega

/-! ### non-vacuity: the hypotheses are satisfiable and the fixed decoders answer `err` (not a
vacuous `ok`) on the witnesses -/

example : 112 * wHdrCountNeg.length ≤ AllocMax := by decide
example : decodeSegment (goMakeLim AllocMax) cfgIceberg wHdrCountNeg = .err := by decide
example : decodeSegment (goMakeLim AllocMax) cfgSql wRecordCount31 = .err := by decide
set_option maxRecDepth 8000 in
example : decodeSegment (goMakeLim AllocMax) cfgIceberg wKeyLen40 = .err := by decide
example : parseIndexIceberg (goMakeLim AllocMax) true wIndexNeg = .err ∧
    parseIndexSql (goMakeLim AllocMax) true wIndexHuge = .err ∧ parseIndexRoot (goMakeLim AllocMax) wIndexNeg = .err := by decide
example : (collectRecoverable (fun _ => 0) (goMakeLim AllocMax) wHdrCountNeg 5).tag = "ok" := by decide
-- the counter is not vacuous: the sql decoder allocates the record slice, a record buffer and more on a valid segment
set_option maxRecDepth 16000 in
example : (decodeSegmentA (goMakeLim AllocMax) cfgSql wCountWrap7).cost = 0 ∧
    (decodeSegmentA (goMakeLim AllocMax) cfgSql wHdrCountNeg).cost = 118 ∧
    (collectRecoverableA (fun _ => 0) (goMakeLim AllocMax) wHdrCountNeg 5).cost = 74 := by decide
set_option maxRecDepth 8000 in
example : (collectRecoverable (fun _ => 0) (goMakeLim AllocMax) wRecordLen40 5).tag = "err" := by decide

/-! ### over-long / overflowing varints (seeded change C34-r3-2) -/

/-- every byte of `pre` has the continuation bit (`b & 0x80 != 0`) -/
def AllCont (pre : Bytes) : Prop := ∀ b ∈ pre, 128 ≤ b.toNat

instance (pre : Bytes) : Decidable (AllCont pre) := by unfold AllCont; exact inferInstance

/-- The reader loop gives up (`none` = returned error) as soon as the continuation bytes carry the shift past
the loop bound — whatever bytes follow. -/
theorem readUvarintW_overlong (W lim : Nat) : ∀ (pre rest : Bytes) (shift value : Nat),
    AllCont pre → shift ≤ lim → lim < shift + 7 * pre.length →
    readUvarintW W lim shift value (pre ++ rest) = none := by
  intro pre
  induction pre with
  | nil => intro rest shift value _ h1 h2; simp at h2; omega
  | cons b t ih =>
    intro rest shift value hc h1 h2
    have hb : 128 ≤ b.toNat := hc b (by simp)
    have hnb : ¬ b.toNat < 128 := by omega
    simp only [List.cons_append, readUvarintW, hnb, if_false]
    split
    · rfl
    · apply ih
      · intro x hx; exact hc x (by simp [hx])
      · omega
      · simp only [List.length_cons] at h2; omega

/-- A value returned by the loop fits the `W`-bit accumulator. -/
theorem readUvarintW_lt_pow {W lim : Nat} : ∀ (r : Bytes) (shift value u : Nat) (rest : Bytes),
    value < 2 ^ W → readUvarintW W lim shift value r = some (u, rest) → u < 2 ^ W := by
  intro r
  induction r with
  | nil => intro shift value u rest _ h; simp [readUvarintW] at h
  | cons b t ih =>
    intro shift value u rest hv h
    have hv' : value ||| ((b.toNat % 128) * 2 ^ shift % 2 ^ W) < 2 ^ W :=
      Nat.or_lt_two_pow hv (Nat.mod_lt _ (Nat.two_pow_pos W))
    simp only [readUvarintW] at h
    split at h
    · simp only [Option.some.injEq, Prod.mk.injEq] at h; rw [← h.1]; exact hv'
    · split at h
      · simp at h
      · exact ih _ _ _ _ hv' h

/-- A value returned by the loop consumed a non-empty prefix of at most `(lim - shift)/7 + 1` bytes:
the byte count is never zero, never negative, never above the loop bound. -/
theorem readUvarintW_consumed {W lim : Nat} : ∀ (r : Bytes) (shift value u : Nat) (rest : Bytes),
    shift ≤ lim → readUvarintW W lim shift value r = some (u, rest) →
    ∃ pre, r = pre ++ rest ∧ 1 ≤ pre.length ∧ shift + 7 * pre.length ≤ lim + 7 := by
  intro r
  induction r with
  | nil => intro shift value u rest _ h; simp [readUvarintW] at h
  | cons b t ih =>
    intro shift value u rest hs h
    simp only [readUvarintW] at h
    split at h
    · simp only [Option.some.injEq, Prod.mk.injEq] at h
      exact ⟨[b], by simp [h.2], by simp, by simp; omega⟩
    · split at h
      · simp at h
      · obtain ⟨pre, h1, h2, h3⟩ := ih _ _ _ _ (by omega) h
        exact ⟨b :: pre, by simp [h1], by simp, by simp only [List.length_cons]; omega⟩

theorem readVarint64_inv {r : Bytes} {v : Int} {rest : Bytes} (h : readVarint64 r = some (v, rest)) :
    InI64 v ∧ ∃ pre, r = pre ++ rest ∧ 1 ≤ pre.length ∧ pre.length ≤ 10 := by
  unfold readVarint64 at h
  cases hh : readUvarint64 0 0 r with
  | none => simp [hh] at h
  | some p =>
    obtain ⟨u, rr⟩ := p
    simp only [hh, Option.map_some, Option.some.injEq, Prod.mk.injEq] at h
    have hu : u < 2 ^ 64 := readUvarintW_lt_pow r 0 0 u rr (Nat.two_pow_pos 64) hh
    obtain ⟨pre, h1, h2, h3⟩ := readUvarintW_consumed r 0 0 u rr (Nat.zero_le _) hh
    refine ⟨by rw [← h.1]; exact unzig_in64 hu, pre, by rw [← h.2]; exact h1, h2, by omega⟩

theorem unzig32Sql_in32 (p : Nat) : InI32 (unzig32Sql (toS32 p)) := by
  unfold InI32 unzig32Sql toS32
  split <;> split <;> omega

theorem readVarint32Sql_inv {r : Bytes} {v : Int} {rest : Bytes} (h : readVarint32Sql r = some (v, rest)) :
    InI32 v ∧ ∃ pre, r = pre ++ rest ∧ 1 ≤ pre.length ∧ pre.length ≤ 5 := by
  unfold readVarint32Sql at h
  cases hh : readUvarint32 0 0 r with
  | none => simp [hh] at h
  | some p =>
    obtain ⟨u, rr⟩ := p
    simp only [hh, Option.map_some, Option.some.injEq, Prod.mk.injEq] at h
    obtain ⟨pre, h1, h2, h3⟩ := readUvarintW_consumed r 0 0 u rr (Nat.zero_le _) hh
    refine ⟨by rw [← h.1]; exact unzig32Sql_in32 u, pre, by rw [← h.2]; exact h1, h2, by omega⟩

/-- **C34 (over-long varints are errors, never a negative count).**  For the hand-written readers of the
repository (`readVarint` of the iceberg decoder and of `pkg/storage/recovery_exact.go`, `readVarlong`/`readVarint`
of the sql decoder):
1. a varint whose continuation bytes run past 10 bytes (sql int32 reader: past 5) decodes to an ERROR, whatever follows;
2. every other outcome is an error or a value inside the integer range together with a consumed byte count between
   1 and 10 (sql: 1 and 5) — a count that is zero, negative or larger than the input does not exist, so no slice
   expression `fields[n:]` after a varint can go out of range.
(What the code does when the 10th byte is a final byte > 1: it returns a value, the bits above 2^64 are dropped —
see the `example`s below; it is covered by 2.) -/
theorem _root_.KafVerif.C34.varint_overflow_is_error :
    (∀ pre rest : Bytes, pre.length = 10 → AllCont pre → readVarint64 (pre ++ rest) = none) ∧
    (∀ pre rest : Bytes, pre.length = 5 → AllCont pre → readVarint32Sql (pre ++ rest) = none) ∧
    (∀ r : Bytes, readVarint64 r = none ∨
      ∃ v pre rest, readVarint64 r = some (v, rest) ∧ r = pre ++ rest ∧ 1 ≤ pre.length ∧ pre.length ≤ 10 ∧ InI64 v) ∧
    (∀ r : Bytes, readVarint32Sql r = none ∨
      ∃ v pre rest, readVarint32Sql r = some (v, rest) ∧ r = pre ++ rest ∧ 1 ≤ pre.length ∧ pre.length ≤ 5 ∧ InI32 v) := by
  refine ⟨?_, ?_, ?_, ?_⟩
  · intro pre rest hl hc
    have := readUvarintW_overlong 64 63 pre rest 0 0 hc (by omega) (by omega)
    simp [readVarint64, readUvarint64, this]
  · intro pre rest hl hc
    have := readUvarintW_overlong 32 28 pre rest 0 0 hc (by omega) (by omega)
    simp [readVarint32Sql, readUvarint32, this]
  · intro r
    cases h : readVarint64 r with
    | none => exact Or.inl rfl
    | some p =>
      obtain ⟨v, rest⟩ := p
      obtain ⟨hv, pre, h1, h2, h3⟩ := readVarint64_inv h
      exact Or.inr ⟨v, pre, rest, rfl, h1, h2, h3, hv⟩
  · intro r
    cases h : readVarint32Sql r with
    | none => exact Or.inl rfl
    | some p =>
      obtain ⟨v, rest⟩ := p
      obtain ⟨hv, pre, h1, h2, h3⟩ := readVarint32Sql_inv h
      exact Or.inr ⟨v, pre, rest, rfl, h1, h2, h3, hv⟩

theorem wrap32_in32 (i : Int) : InI32 (wrap32 i) := by
  unfold InI32 wrap32 toS32
  split <;> omega

/-- **C34 (`scanRecord` is total).**  For ANY bytes left in the batch reader and any allocator that grants one byte
per input byte, `scanRecord` returns an error, or a timestamp delta inside int64, an offset delta inside int32 and
strictly fewer unread bytes (a suffix of the input) — nothing else (no panic, no other value). -/
theorem _root_.KafVerif.C34.scanRecord_total (r : Bytes) (lim : Nat) (hl : r.length ≤ lim) :
    scanRecord (goMakeLim lim) r = .err ∨
    ∃ ts od rest, scanRecord (goMakeLim lim) r = .ok ((ts, od), rest) ∧ InI64 ts ∧ InI32 od ∧
      rest.length < r.length ∧ ∃ pre, r = pre ++ rest := by
  unfold scanRecord
  cases hlen : readVarint64 r with
  | none => simp
  | some len =>
    obtain ⟨_, pre0, hpre0, _, _⟩ := readVarint64_inv (r := r) (v := len.1) (rest := len.2) hlen
    have h1 := readVarint64_rest_lt (r := r) (v := len.1) (rest := len.2) hlen
    simp only [ofOpt_some, bind_ok]
    by_cases hneg : len.1 < 0
    · simp [hneg]
    · by_cases hbig : len.1 > (len.2.length : Int)
      · simp [hneg, hbig]
      · have hmk : goMakeLim lim len.1 1 = .ok () := goMakeLim_ok (by omega) (by omega)
        simp only [hneg, hbig, if_false, hmk, bind_ok]
        cases hp : readN len.1.toNat len.2 with
        | none => simp
        | some p =>
          have hq := readN_eq (a := p.1) (b := p.2) hp
          simp only [ofOpt_some, bind_ok]
          cases hd : p.1 with
          | nil => simp
          | cons a0 b1 =>
            simp only
            cases hts : readVarint64 b1 with
            | none => simp
            | some ts =>
              simp only [ofOpt_some, bind_ok]
              cases hod : readVarint64 ts.2 with
              | none => simp
              | some od =>
                simp only [ofOpt_some, bind_ok]
                refine Or.inr ⟨ts.1, wrap32 od.1, p.2, rfl, (readVarint64_inv (r := b1) (v := ts.1) (rest := ts.2) hts).1,
                  wrap32_in32 _, ?_, pre0 ++ len.2.take len.1.toNat, ?_⟩
                · rw [hq.2.1, List.length_drop]; omega
                · rw [hq.2.1, List.append_assoc, List.take_append_drop]; exact hpre0

/-- the loop of `truncateRecordBatchToTimestamp` over it, the frame loop and the plan builder are total by
`pitr_collect_total` / `pitr_plan_total`; this restates them for the crafted inputs of the seeded change. -/
def ff9 : Bytes := [255, 255, 255, 255, 255, 255, 255, 255, 255]

example : AllCont (ff9 ++ [255]) ∧ (ff9 ++ [255]).length = 10 := by decide
example : readVarint64 (ff9 ++ [255, 1]) = none := by decide                       -- 11 bytes: error
example : readVarint64 (ff9 ++ [1, 7]) = some (-(2:Int) ^ 63, [7]) := by decide     -- legal boundary: 2^64-1
example : readVarint64 (ff9 ++ [0, 7]) = some (-(2:Int) ^ 62, [7]) := by decide     -- legal, non-canonical
-- 10th byte 0x7f (> 1, final): the code keeps bit 0 of it and drops the rest; a value and a count of 10, not a crash
example : readVarint64 (ff9 ++ [127, 7]) = some (-(2:Int) ^ 63, [7]) := by decide
example : readVarint32Sql [255, 255, 255, 255, 255, 0] = none := by decide
-- the record of the seeded change's demo (attributes 0, timestamp delta = nine 0xff + 0x7f, offset delta 1, null key,
-- null value, no headers): scanned to a value by the code as it is
example : scanRecord (goMakeLim 64) ([30, 0] ++ ff9 ++ [127, 2, 1, 1, 0]) = .ok ((-(2:Int) ^ 63, 1), []) := by decide
-- eleven continuation bytes in the timestamp delta: an error
example : scanRecord (goMakeLim 64) ([34, 0] ++ ff9 ++ [255, 255, 1, 2, 1, 1, 0]) = .err := by decide
example : ([30, 0] ++ ff9 ++ [127, 2, 1, 1, 0] : Bytes).length ≤ 64 := by decide

end KafVerif.Kafka
