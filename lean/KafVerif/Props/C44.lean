import KafVerif.Model.DualS3
/-!
C44 — Reads through an S3 read replica match the primary.

Statement (properties.jsonl): with a read replica configured, segment and index reads return the
same bytes as the primary bucket would, whether the replica copy is missing, lagging or failing.
Writes and listings always go to the primary.  Quantifier: every replica state per object and
every read.

What is proved.  `Consistent s` = every object version the replica holds is the version the
primary holds now.  (1) pointwise and for EVERY replica fault set and EVERY byte range:
`Consistent` ⇒ dual read = primary read, and the hypothesis is necessary (`reads_match_iff`).
(2) history level: for EVERY interleaving of uploads/deletes through the dual client with
replication events (arbitrary lag, arbitrary order, never) and replica faults, as long as the
primary never CHANGES or DELETES an object the replica already holds (`SafeRun`: objects are
write-once from the replica's point of view), `Consistent` is invariant ⇒ all reads match.
(3) `_partial`: the unrestricted statement is false — a replica that lags behind an OVERWRITE or a
DELETE is served (`stale_overwrite_violates`, `stale_delete_violates`).
-/
namespace KafVerif.DualS3

def Consistent (s : State) : Prop :=
  (∀ k d, s.rep.seg k = some d → s.pri.seg k = some d) ∧ (∀ k d, s.rep.idx k = some d → s.pri.idx k = some d)

/-- the operation does not change or delete an object the replica already holds -/
def Safe (s : State) : Op → Prop
  | .upSeg k b => s.rep.seg k = none ∨ s.rep.seg k = some b
  | .upIdx k b => s.rep.idx k = none ∨ s.rep.idx k = some b
  | .delSeg k => s.rep.seg k = none
  | .delIdx k => s.rep.idx k = none
  | _ => True

def SafeRun : State → List Op → Prop
  | _, [] => True
  | s, op :: ops => Safe s op ∧ SafeRun (step s op) ops

def PrimaryHealthy (s : State) : Prop := ∀ k, s.pri.failing k = false

/-! ### (1) pointwise -/

/-- **Reads match (segments)** — replica copy missing, failing, equal, or an invalid range on the
replica: the dual client returns exactly what the primary returns, for every range. -/
theorem _root_.KafVerif.C44.read_seg_match (s : State) (hc : Consistent s) (hp : PrimaryHealthy s)
    (k : Nat) (r : Option Rng) : dualReadSeg s k r = s.pri.readSeg k r := by
  unfold dualReadSeg
  cases hrd : s.rep.readSeg k r with
  | err => rfl
  | panic => rfl
  | ok d =>
    simp only
    unfold Bucket.readSeg at hrd ⊢
    by_cases hf : s.rep.failing k = true
    · simp [hf] at hrd
    · simp only [hf, Bool.false_eq_true, if_false] at hrd
      cases hs : s.rep.seg k with
      | none => simp [hs] at hrd
      | some d0 =>
        simp only [hs] at hrd
        simp [hp k, hc.1 k d0 hs, hrd]

/-- **Reads match (indexes).** -/
theorem _root_.KafVerif.C44.read_idx_match (s : State) (hc : Consistent s) (hp : PrimaryHealthy s)
    (k : Nat) : dualReadIdx s k = s.pri.readIdx k := by
  unfold dualReadIdx
  cases hrd : s.rep.readIdx k with
  | err => rfl
  | panic => rfl
  | ok d =>
    simp only
    unfold Bucket.readIdx at hrd ⊢
    by_cases hf : s.rep.failing k = true
    · simp [hf] at hrd
    · simp only [hf, Bool.false_eq_true, if_false] at hrd
      cases hs : s.rep.idx k with
      | none => simp [hs] at hrd
      | some d0 =>
        simp only [hs, GoResult.ok.injEq] at hrd
        subst hrd
        simp [hp k, hc.2 k d0 hs]

/-- The hypothesis is exactly what is needed: a dual read equals the primary read iff whatever the
replica answers successfully is what the primary answers. -/
theorem _root_.KafVerif.C44.reads_match_iff (s : State) (k : Nat) (r : Option Rng) :
    dualReadSeg s k r = s.pri.readSeg k r ↔ ∀ d, s.rep.readSeg k r = .ok d → s.pri.readSeg k r = .ok d := by
  unfold dualReadSeg
  cases hrd : s.rep.readSeg k r with
  | err => simp
  | panic => simp
  | ok d =>
    constructor
    · intro h d' hd'
      cases hd'
      exact h.symm
    · intro h
      exact (h d rfl).symm

/-- replica copy missing ⇒ primary's answer -/
theorem _root_.KafVerif.C44.read_seg_replica_missing (s : State) (k : Nat) (r : Option Rng)
    (h : s.rep.seg k = none) : dualReadSeg s k r = s.pri.readSeg k r := by
  unfold dualReadSeg Bucket.readSeg
  by_cases hf : s.rep.failing k = true <;> simp [hf, h]

/-- replica failing ⇒ primary's answer -/
theorem _root_.KafVerif.C44.read_seg_replica_failing (s : State) (k : Nat) (r : Option Rng)
    (h : s.rep.failing k = true) : dualReadSeg s k r = s.pri.readSeg k r := by
  unfold dualReadSeg Bucket.readSeg
  simp [h]

/-! ### reads carry no cross-request state -/

/-- **A read depends only on its own request**: the result of a dual read of `(k, r)` is determined by
what the two buckets answer for exactly that key and range — no other key, no other range, no other
(earlier or concurrent) request enters.  (The code keeps no state between reads; the concurrent run of
the check validates that assumption on the implementation.) -/
theorem _root_.KafVerif.C44.read_depends_only_on_own_request (s s' : State) (k : Nat) (r : Option Rng)
    (hrep : s.rep.readSeg k r = s'.rep.readSeg k r) (hpri : s.pri.readSeg k r = s'.pri.readSeg k r) :
    dualReadSeg s k r = dualReadSeg s' k r := by
  unfold dualReadSeg; rw [hrep, hpri]

/-- … and those answers depend only on the object stored under `k` and the fault flag of `k`. -/
theorem _root_.KafVerif.C44.read_depends_only_on_own_key (s s' : State) (k : Nat) (r : Option Rng)
    (h1 : s.rep.seg k = s'.rep.seg k) (h2 : s.rep.failing k = s'.rep.failing k)
    (h3 : s.pri.seg k = s'.pri.seg k) (h4 : s.pri.failing k = s'.pri.failing k) :
    dualReadSeg s k r = dualReadSeg s' k r := by
  apply KafVerif.C44.read_depends_only_on_own_request <;> simp [Bucket.readSeg, h1, h2, h3, h4]

/-- a batch of (concurrent) reads of one state: every read is answered independently -/
def dualReadBatch (s : State) (reqs : List (Nat × Option Rng)) : List (GoResult Bytes) :=
  reqs.map fun q => dualReadSeg s q.1 q.2

/-- **Every read of a concurrent batch gets the primary's bytes for ITS OWN range** (same key, same
start, different end included). -/
theorem _root_.KafVerif.C44.batch_reads_match (s : State) (hc : Consistent s) (hp : PrimaryHealthy s)
    (reqs : List (Nat × Option Rng)) :
    dualReadBatch s reqs = reqs.map fun q => s.pri.readSeg q.1 q.2 := by
  unfold dualReadBatch
  apply List.map_congr_left
  intro q _
  exact KafVerif.C44.read_seg_match s hc hp q.1 q.2

/-! ### (2) history level -/

theorem consistent_step (s : State) (op : Op) (hc : Consistent s) (hs : Safe s op) : Consistent (step s op) := by
  obtain ⟨h1, h2⟩ := hc
  cases op with
  | upSeg k b =>
    refine ⟨?_, h2⟩
    intro k' d hd
    simp only [step, upd] at hd ⊢
    by_cases hk : k' = k
    · subst hk
      rcases hs with hs | hs
      · rw [hs] at hd; cases hd
      · rw [hs] at hd; simp at hd; simp [hd]
    · simp [hk]; exact h1 k' d hd
  | upIdx k b =>
    refine ⟨h1, ?_⟩
    intro k' d hd
    simp only [step, upd] at hd ⊢
    by_cases hk : k' = k
    · subst hk
      rcases hs with hs | hs
      · rw [hs] at hd; cases hd
      · rw [hs] at hd; simp at hd; simp [hd]
    · simp [hk]; exact h2 k' d hd
  | delSeg k =>
    refine ⟨?_, h2⟩
    intro k' d hd
    simp only [step, upd] at hd ⊢
    by_cases hk : k' = k
    · subst hk; rw [hs] at hd; cases hd
    · simp [hk]; exact h1 k' d hd
  | delIdx k =>
    refine ⟨h1, ?_⟩
    intro k' d hd
    simp only [step, upd] at hd ⊢
    by_cases hk : k' = k
    · subst hk; rw [hs] at hd; cases hd
    · simp [hk]; exact h2 k' d hd
  | replSeg k =>
    refine ⟨?_, h2⟩
    intro k' d hd
    simp only [step, upd] at hd ⊢
    by_cases hk : k' = k
    · subst hk; simpa using hd
    · simp [hk] at hd; exact h1 k' d hd
  | replIdx k =>
    refine ⟨h1, ?_⟩
    intro k' d hd
    simp only [step, upd] at hd ⊢
    by_cases hk : k' = k
    · subst hk; simpa using hd
    · simp [hk] at hd; exact h2 k' d hd
  | rFail k on => exact ⟨h1, h2⟩
  | pFail k on => exact ⟨h1, h2⟩

theorem consistent_run (s : State) (ops : List Op) (hc : Consistent s) (hs : SafeRun s ops) :
    Consistent (ops.foldl step s) := by
  induction ops generalizing s with
  | nil => exact hc
  | cons op ops ih => exact ih _ (consistent_step s op hc hs.1) hs.2

theorem consistent_init : Consistent State.init := by
  constructor <;> intro k d h <;> simp [State.init, Bucket.empty] at h

/-- **Reads match after every replication-safe history**: any interleaving of uploads, deletes,
replication events (any lag/order) and replica faults in which the primary never changes or
deletes an object the replica already holds; every key, every range. -/
theorem _root_.KafVerif.C44.reads_match_safe_history (ops : List Op) (hs : SafeRun State.init ops)
    (hp : PrimaryHealthy (run ops)) (k : Nat) (r : Option Rng) :
    dualReadSeg (run ops) k r = (run ops).pri.readSeg k r ∧ dualReadIdx (run ops) k = (run ops).pri.readIdx k :=
  have hc := consistent_run State.init ops consistent_init hs
  ⟨KafVerif.C44.read_seg_match _ hc hp k r, KafVerif.C44.read_idx_match _ hc hp k⟩

/-- FULL statement the property asks for (false, see the two witnesses below):
`∀ ops k r, PrimaryHealthy (run ops) → dualReadSeg (run ops) k r = (run ops).pri.readSeg k r`. -/
def FullStatement : Prop :=
  ∀ ops k r, PrimaryHealthy (run ops) → dualReadSeg (run ops) k r = (run ops).pri.readSeg k r

/-- the proved part, named as the guide asks -/
theorem _root_.KafVerif.C44.reads_match_partial (ops : List Op) (hs : SafeRun State.init ops)
    (hp : PrimaryHealthy (run ops)) (k : Nat) (r : Option Rng) :
    dualReadSeg (run ops) k r = (run ops).pri.readSeg k r :=
  (KafVerif.C44.reads_match_safe_history ops hs hp k r).1

/-- **Writes and listings go to the primary only**: no dual-client operation touches the replica
bucket, an upload/delete changes the primary exactly like a direct call, listing is the primary's. -/
theorem _root_.KafVerif.C44.writes_primary (s : State) (k : Nat) (b : Bytes) :
    (step s (.upSeg k b)).rep = s.rep ∧ (step s (.upIdx k b)).rep = s.rep ∧
    (step s (.delSeg k)).rep = s.rep ∧ (step s (.delIdx k)).rep = s.rep ∧
    (step s (.upSeg k b)).pri.seg k = some b ∧ (step s (.upIdx k b)).pri.idx k = some b ∧
    (step s (.delSeg k)).pri.seg k = none ∧ (step s (.delIdx k)).pri.idx k = none ∧
    dualList s = s.pri.list := by
  simp [step, upd, dualList]

/-- **The replica is only ever asked to download**: whatever the state and the call, every backend
call that reaches the replica is `DownloadSegment` or `DownloadIndex`. -/
theorem _root_.KafVerif.C44.replica_read_only (s : State) (c : Call) :
    ∀ bc ∈ backendCalls s c, bc.1 = true → bc.2 = .downloadSegment ∨ bc.2 = .downloadIndex := by
  intro bc hbc hrep
  cases c <;> simp only [backendCalls] at hbc
  case rdSeg k r =>
    split at hbc <;> simp at hbc <;> rcases hbc with rfl | rfl <;> simp_all
  case rdIdx k =>
    split at hbc <;> simp at hbc <;> rcases hbc with rfl | rfl <;> simp_all
  all_goals (simp at hbc; subst hbc; simp at hrep)

/-- **Read your write**: right after a replication-safe upload the dual client serves the new
bytes, whatever the replica's lag and faults. -/
theorem _root_.KafVerif.C44.read_your_write (ops : List Op) (k : Nat) (b : Bytes)
    (hs : SafeRun State.init (ops ++ [.upSeg k b])) (hp : PrimaryHealthy (run (ops ++ [.upSeg k b]))) :
    dualReadSeg (run (ops ++ [.upSeg k b])) k none = .ok b := by
  rw [(KafVerif.C44.reads_match_safe_history _ hs hp k none).1]
  have hp' := hp k
  simp only [run, List.foldl_append, List.foldl_cons, List.foldl_nil] at hp' ⊢
  simp only [step] at hp'
  simp [Bucket.readSeg, step, upd, rangeRead, hp']

/-! ### (3) the unrestricted statement fails: lagging behind an overwrite or a delete -/

theorem _root_.KafVerif.C44.stale_overwrite_violates :
    ∃ ops k, PrimaryHealthy (run ops) ∧ dualReadSeg (run ops) k none ≠ (run ops).pri.readSeg k none := by
  refine ⟨[.upSeg 1 [1], .replSeg 1, .upSeg 1 [2]], 1, ?_, by decide⟩
  intro k; simp [run, step, State.init, Bucket.empty]

theorem _root_.KafVerif.C44.stale_delete_violates :
    ∃ ops k, PrimaryHealthy (run ops) ∧ dualReadSeg (run ops) k none ≠ (run ops).pri.readSeg k none := by
  refine ⟨[.upSeg 1 [1], .replSeg 1, .delSeg 1], 1, ?_, by decide⟩
  intro k; simp [run, step, State.init, Bucket.empty]

theorem _root_.KafVerif.C44.full_statement_false : ¬ FullStatement := by
  intro h
  obtain ⟨ops, k, hp, hne⟩ := KafVerif.C44.stale_overwrite_violates
  exact hne (h ops k none hp)

/-! non-vacuity: a safe history with lag, a fault and a fallback -/
example : SafeRun State.init [.upSeg 1 [1, 2, 3], .upSeg 2 [9], .replSeg 1, .rFail 1 true, .upIdx 1 [7]] := by
  simp [SafeRun, Safe, step, upd, State.init, Bucket.empty]
example : dualReadSeg (run [.upSeg 1 [1, 2, 3], .upSeg 2 [9], .replSeg 1, .rFail 1 true]) 1 (some ⟨1, 5⟩) = .ok [2, 3] := by decide
example : dualReadSeg (run [.upSeg 1 [1, 2, 3], .replSeg 1]) 1 (some ⟨3, 5⟩) = .err := by decide
example : dualReadBatch (run [.upSeg 1 [1, 2, 3, 4, 5, 6]]) [(1, some ⟨0, 2⟩), (1, some ⟨0, 4⟩), (1, none)] =
    [.ok [1, 2, 3], .ok [1, 2, 3, 4, 5], .ok [1, 2, 3, 4, 5, 6]] := by decide

end KafVerif.DualS3
