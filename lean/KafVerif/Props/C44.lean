import KafVerif.Model.DualS3
/-!
C44 — Reads through an S3 read replica match the primary.

Statement (properties.jsonl): with a read replica configured, segment and index reads return the
same bytes as the primary bucket would, whether the replica copy is missing, lagging or failing.
Writes and listings always go to the primary.  Quantifier: every replica state per object and
every read.

What is proved.  `Consistent s` = every object version the replica holds is the version the
primary holds now.  (1) pointwise and for EVERY replica fault set and EVERY byte range:
`Consistent` ⇒ dual read = primary read, and the hypothesis is necessary (`reads_match_iff`).
(2) history level: for EVERY interleaving of uploads/deletes through the dual client with
replication events (arbitrary lag, arbitrary order, never) and replica faults, as long as the
primary never CHANGES or DELETES an object the replica already holds (`SafeRun`: objects are
write-once from the replica's point of view), `Consistent` is invariant ⇒ all reads match.
(3) `_partial`: the unrestricted statement is false — a replica that lags behind an OVERWRITE or a
DELETE is served (`stale_overwrite_violates`, `stale_delete_violates`).
-/
namespace KafVerif.DualS3

def Consistent (s : State) : Prop :=
  (∀ k d, s.rep.seg k = some d → s.pri.seg k = some d) ∧ (∀ k d, s.rep.idx k = some d → s.pri.idx k = some d)

/-- the operation does not change or delete an object the replica already holds -/
def Safe (s : State) : Op → Prop
  | .upSeg k b => s.rep.seg k = none ∨ s.rep.seg k = some b
  | .upIdx k b => s.rep.idx k = none ∨ s.rep.idx k = some b
  | .delSeg k => s.rep.seg k = none
  | .delIdx k => s.rep.idx k = none
  | _ => True

def SafeRun : State → List Op → Prop
  | _, [] => True
  | s, op :: ops => Safe s op ∧ SafeRun (step s op) ops

def PrimaryHealthy (s : State) : Prop := ∀ k, s.pri.failing k = false

/-! ### (1) pointwise -/

/-- **Reads match (segments)** — replica copy missing, failing, equal, or an invalid range on the
replica: the dual client returns exactly what the primary returns, for every range. -/
theorem _root_.KafVerif.C44.read_seg_match (s : State) (hc : Consistent s) (hp : PrimaryHealthy s)
    (k : Nat) (r : Option Rng) : dualReadSeg s k r = s.pri.readSeg k r := by
  unfold dualReadSeg
  cases hrd : s.rep.readSeg k r with
  | err => rfl
  | panic => rfl
  | ok d =>
    simp only
    unfold Bucket.readSeg at hrd ⊢
    by_cases hf : s.rep.failing k = true
    · simp [hf] at hrd
    · simp only [hf, Bool.false_eq_true, if_false] at hrd
      cases hs : s.rep.seg k with
      | none => simp [hs] at hrd
      | some d0 =>
        simp only [hs] at hrd
        simp [hp k, hc.1 k d0 hs, hrd]

/-- **Reads match (indexes).** -/
theorem _root_.KafVerif.C44.read_idx_match (s : State) (hc : Consistent s) (hp : PrimaryHealthy s)
    (k : Nat) : dualReadIdx s k = s.pri.readIdx k := by
  unfold dualReadIdx
  cases hrd : s.rep.readIdx k with
  | err => rfl
  | panic => rfl
  | ok d =>
    simp only
    unfold Bucket.readIdx at hrd ⊢
    by_cases hf : s.rep.failing k = true
    · simp [hf] at hrd
    · simp only [hf, Bool.false_eq_true, if_false] at hrd
      cases hs : s.rep.idx k with
      | none => simp [hs] at hrd
      | some d0 =>
        simp only [hs, GoResult.ok.injEq] at hrd
        subst hrd
        simp [hp k, hc.2 k d0 hs]

/-- The hypothesis is exactly what is needed: a dual read equals the primary read iff whatever the
replica answers successfully is what the primary answers. -/
theorem _root_.KafVerif.C44.reads_match_iff (s : State) (k : Nat) (r : Option Rng) :
    dualReadSeg s k r = s.pri.readSeg k r ↔ ∀ d, s.rep.readSeg k r = .ok d → s.pri.readSeg k r = .ok d := by
  unfold dualReadSeg
  cases hrd : s.rep.readSeg k r with
  | err => simp
  | panic => simp
  | ok d =>
    constructor
    · intro h d' hd'
      cases hd'
      exact h.symm
    · intro h
      exact (h d rfl).symm

/-- replica copy missing ⇒ primary's answer -/
theorem _root_.KafVerif.C44.read_seg_replica_missing (s : State) (k : Nat) (r : Option Rng)
    (h : s.rep.seg k = none) : dualReadSeg s k r = s.pri.readSeg k r := by
  unfold dualReadSeg Bucket.readSeg
  by_cases hf : s.rep.failing k = true <;> simp [hf, h]

/-- replica failing ⇒ primary's answer -/
theorem _root_.KafVerif.C44.read_seg_replica_failing (s : State) (k : Nat) (r : Option Rng)
    (h : s.rep.failing k = true) : dualReadSeg s k r = s.pri.readSeg k r := by
  unfold dualReadSeg Bucket.readSeg
  simp [h]

/-! ### reads carry no cross-request state -/

/-- **A read depends only on its own request**: the result of a dual read of `(k, r)` is determined by
what the two buckets answer for exactly that key and range — no other key, no other range, no other
(earlier or concurrent) request enters.  (The code keeps no state between reads; the concurrent run of
the check validates that assumption on the implementation.) -/
theorem _root_.KafVerif.C44.read_depends_only_on_own_request (s s' : State) (k : Nat) (r : Option Rng)
    (hrep : s.rep.readSeg k r = s'.rep.readSeg k r) (hpri : s.pri.readSeg k r = s'.pri.readSeg k r) :
    dualReadSeg s k r = dualReadSeg s' k r := by
  unfold dualReadSeg; rw [hrep, hpri]

/-- … and those answers depend only on the object stored under `k` and the fault flag of `k`. -/
theorem _root_.KafVerif.C44.read_depends_only_on_own_key (s s' : State) (k : Nat) (r : Option Rng)
    (h1 : s.rep.seg k = s'.rep.seg k) (h2 : s.rep.failing k = s'.rep.failing k)
    (h3 : s.pri.seg k = s'.pri.seg k) (h4 : s.pri.failing k = s'.pri.failing k) :
    dualReadSeg s k r = dualReadSeg s' k r := by
  apply KafVerif.C44.read_depends_only_on_own_request <;> simp [Bucket.readSeg, h1, h2, h3, h4]

/-- a batch of (concurrent) reads of one state: every read is answered independently -/
def dualReadBatch (s : State) (reqs : List (Nat × Option Rng)) : List (GoResult Bytes) :=
  reqs.map fun q => dualReadSeg s q.1 q.2

/-- **Every read of a concurrent batch gets the primary's bytes for ITS OWN range** (same key, same
start, different end included). -/
theorem _root_.KafVerif.C44.batch_reads_match (s : State) (hc : Consistent s) (hp : PrimaryHealthy s)
    (reqs : List (Nat × Option Rng)) :
    dualReadBatch s reqs = reqs.map fun q => s.pri.readSeg q.1 q.2 := by
  unfold dualReadBatch
  apply List.map_congr_left
  intro q _
  exact KafVerif.C44.read_seg_match s hc hp q.1 q.2

/-! ### (2) history level -/

/-- a failing primary call (fault used up or not) leaves both buckets' contents as they were -/
theorem consistent_of_same_content (s t : State) (hc : Consistent s)
    (h1 : t.rep.seg = s.rep.seg) (h2 : t.rep.idx = s.rep.idx) (h3 : t.pri.seg = s.pri.seg) (h4 : t.pri.idx = s.pri.idx) :
    Consistent t := by
  unfold Consistent; rw [h1, h2, h3, h4]; exact hc

theorem consistent_step (s : State) (op : Op) (hc : Consistent s) (hs : Safe s op) : Consistent (step s op) := by
  have hc0 := hc
  obtain ⟨h1, h2⟩ := hc
  cases op with
  | upSeg k b =>
    by_cases hf : (s.pri.opFault .uploadSegment).fires = true
    · exact consistent_of_same_content s _ hc0 rfl rfl
        (by simp [step, stepOut, dualUploadSegment, onPrimary, Bucket.uploadSegment, Bucket.call, hf])
        (by simp [step, stepOut, dualUploadSegment, onPrimary, Bucket.uploadSegment, Bucket.call, hf])
    · refine ⟨?_, ?_⟩
      · intro k' d hd
        simp only [step, stepOut, dualUploadSegment, onPrimary, Bucket.uploadSegment, Bucket.call, hf, Bool.false_eq_true, if_false] at hd ⊢
        simp only [upd] at hd ⊢
        by_cases hk : k' = k
        · subst hk
          rcases hs with hs | hs
          · rw [hs] at hd; cases hd
          · rw [hs] at hd; simp at hd; simp [hd]
        · simp [hk]; exact h1 k' d hd
      · intro k' d hd
        simp only [step, stepOut, dualUploadSegment, onPrimary, Bucket.uploadSegment, Bucket.call, hf, Bool.false_eq_true, if_false] at hd ⊢
        exact h2 k' d hd
  | upIdx k b =>
    by_cases hf : (s.pri.opFault .uploadIndex).fires = true
    · exact consistent_of_same_content s _ hc0 rfl rfl
        (by simp [step, stepOut, dualUploadIndex, onPrimary, Bucket.uploadIndex, Bucket.call, hf])
        (by simp [step, stepOut, dualUploadIndex, onPrimary, Bucket.uploadIndex, Bucket.call, hf])
    · refine ⟨?_, ?_⟩
      · intro k' d hd
        simp only [step, stepOut, dualUploadIndex, onPrimary, Bucket.uploadIndex, Bucket.call, hf, Bool.false_eq_true, if_false] at hd ⊢
        exact h1 k' d hd
      · intro k' d hd
        simp only [step, stepOut, dualUploadIndex, onPrimary, Bucket.uploadIndex, Bucket.call, hf, Bool.false_eq_true, if_false] at hd ⊢
        simp only [upd] at hd ⊢
        by_cases hk : k' = k
        · subst hk
          rcases hs with hs | hs
          · rw [hs] at hd; cases hd
          · rw [hs] at hd; simp at hd; simp [hd]
        · simp [hk]; exact h2 k' d hd
  | delSeg k =>
    by_cases hf : (s.pri.opFault .deleteSegment).fires = true
    · exact consistent_of_same_content s _ hc0 rfl rfl
        (by simp [step, stepOut, dualDeleteSegment, onPrimary, Bucket.deleteSegment, Bucket.call, hf])
        (by simp [step, stepOut, dualDeleteSegment, onPrimary, Bucket.deleteSegment, Bucket.call, hf])
    · refine ⟨?_, ?_⟩
      · intro k' d hd
        simp only [step, stepOut, dualDeleteSegment, onPrimary, Bucket.deleteSegment, Bucket.call, hf, Bool.false_eq_true, if_false] at hd ⊢
        simp only [upd] at hd ⊢
        by_cases hk : k' = k
        · subst hk; rw [hs] at hd; cases hd
        · simp [hk]; exact h1 k' d hd
      · intro k' d hd
        simp only [step, stepOut, dualDeleteSegment, onPrimary, Bucket.deleteSegment, Bucket.call, hf, Bool.false_eq_true, if_false] at hd ⊢
        exact h2 k' d hd
  | delIdx k =>
    by_cases hf : (s.pri.opFault .deleteIndex).fires = true
    · exact consistent_of_same_content s _ hc0 rfl rfl
        (by simp [step, stepOut, dualDeleteIndex, onPrimary, Bucket.deleteIndex, Bucket.call, hf])
        (by simp [step, stepOut, dualDeleteIndex, onPrimary, Bucket.deleteIndex, Bucket.call, hf])
    · refine ⟨?_, ?_⟩
      · intro k' d hd
        simp only [step, stepOut, dualDeleteIndex, onPrimary, Bucket.deleteIndex, Bucket.call, hf, Bool.false_eq_true, if_false] at hd ⊢
        exact h1 k' d hd
      · intro k' d hd
        simp only [step, stepOut, dualDeleteIndex, onPrimary, Bucket.deleteIndex, Bucket.call, hf, Bool.false_eq_true, if_false] at hd ⊢
        simp only [upd] at hd ⊢
        by_cases hk : k' = k
        · subst hk; rw [hs] at hd; cases hd
        · simp [hk]; exact h2 k' d hd
  | list =>
    refine consistent_of_same_content s _ hc0 rfl rfl ?_ ?_ <;>
      (simp only [step, stepOut, dualListSegments, onPrimary, Bucket.listSegments, Bucket.call]; split <;> rfl)
  | ensure =>
    refine consistent_of_same_content s _ hc0 rfl rfl ?_ ?_ <;>
      (simp only [step, stepOut, dualEnsureBucket, onPrimary, Bucket.ensureBucket, Bucket.call]; split <;> rfl)
  | replSeg k =>
    refine ⟨?_, h2⟩
    intro k' d hd
    simp only [step, stepOut, upd] at hd ⊢
    by_cases hk : k' = k
    · subst hk; simpa using hd
    · simp [hk] at hd; exact h1 k' d hd
  | replIdx k =>
    refine ⟨h1, ?_⟩
    intro k' d hd
    simp only [step, stepOut, upd] at hd ⊢
    by_cases hk : k' = k
    · subst hk; simpa using hd
    · simp [hk] at hd; exact h2 k' d hd
  | rFail k on => exact ⟨h1, h2⟩
  | pFail k on => exact ⟨h1, h2⟩
  | pOpFail m f => exact ⟨h1, h2⟩
  | rOpFail m f => exact ⟨h1, h2⟩

theorem consistent_run (s : State) (ops : List Op) (hc : Consistent s) (hs : SafeRun s ops) :
    Consistent (ops.foldl step s) := by
  induction ops generalizing s with
  | nil => exact hc
  | cons op ops ih => exact ih _ (consistent_step s op hc hs.1) hs.2

theorem consistent_init : Consistent State.init := by
  constructor <;> intro k d h <;> simp [State.init, Bucket.empty] at h

/-- **Reads match after every replication-safe history**: any interleaving of uploads, deletes,
replication events (any lag/order) and replica faults in which the primary never changes or
deletes an object the replica already holds; every key, every range. -/
theorem _root_.KafVerif.C44.reads_match_safe_history (ops : List Op) (hs : SafeRun State.init ops)
    (hp : PrimaryHealthy (run ops)) (k : Nat) (r : Option Rng) :
    dualReadSeg (run ops) k r = (run ops).pri.readSeg k r ∧ dualReadIdx (run ops) k = (run ops).pri.readIdx k :=
  have hc := consistent_run State.init ops consistent_init hs
  ⟨KafVerif.C44.read_seg_match _ hc hp k r, KafVerif.C44.read_idx_match _ hc hp k⟩

/-- FULL statement the property asks for (false, see the two witnesses below):
`∀ ops k r, PrimaryHealthy (run ops) → dualReadSeg (run ops) k r = (run ops).pri.readSeg k r`. -/
def FullStatement : Prop :=
  ∀ ops k r, PrimaryHealthy (run ops) → dualReadSeg (run ops) k r = (run ops).pri.readSeg k r

/-- the proved part, named as the guide asks -/
theorem _root_.KafVerif.C44.reads_match_partial (ops : List Op) (hs : SafeRun State.init ops)
    (hp : PrimaryHealthy (run ops)) (k : Nat) (r : Option Rng) :
    dualReadSeg (run ops) k r = (run ops).pri.readSeg k r :=
  (KafVerif.C44.reads_match_safe_history ops hs hp k r).1

/-! ### writes and listings: the primary's answer — value OR error — whatever the replica holds -/

/-- **Writes and listings go to the primary only**: for EVERY state (any lag, any faults on either side) no
dual-client write/list/ensure call touches the replica bucket; when the primary's method is healthy an
upload/delete changes the primary exactly like a direct call and the listing is the primary's listing. -/
theorem _root_.KafVerif.C44.writes_primary (s : State) (k : Nat) (b : Bytes) :
    (step s (.upSeg k b)).rep = s.rep ∧ (step s (.upIdx k b)).rep = s.rep ∧
    (step s (.delSeg k)).rep = s.rep ∧ (step s (.delIdx k)).rep = s.rep ∧
    (step s .list).rep = s.rep ∧ (step s .ensure).rep = s.rep ∧
    ((s.pri.opFault .uploadSegment).fires = false → (step s (.upSeg k b)).pri.seg k = some b) ∧
    ((s.pri.opFault .uploadIndex).fires = false → (step s (.upIdx k b)).pri.idx k = some b) ∧
    ((s.pri.opFault .deleteSegment).fires = false → (step s (.delSeg k)).pri.seg k = none) ∧
    ((s.pri.opFault .deleteIndex).fires = false → (step s (.delIdx k)).pri.idx k = none) ∧
    ((s.pri.opFault .listSegments).fires = false → (dualListSegments s).2 = .ok s.pri.list) := by
  refine ⟨rfl, rfl, rfl, rfl, rfl, rfl, ?_, ?_, ?_, ?_, ?_⟩ <;> intro h <;>
    simp [step, stepOut, dualUploadSegment, dualUploadIndex, dualDeleteSegment, dualDeleteIndex, dualListSegments, onPrimary,
      Bucket.uploadSegment, Bucket.uploadIndex, Bucket.deleteSegment, Bucket.deleteIndex, Bucket.listSegments, Bucket.call, upd, h]

/-- **Listing = the primary's answer, including its error** (faulty primary, arbitrary replica): the result is what
`d.write.ListSegments` returned, the primary moves as under a direct call, the replica is not involved. -/
theorem _root_.KafVerif.C44.list_primary (s : State) :
    (dualListSegments s).2 = s.pri.listSegments.2 ∧ (dualListSegments s).1.pri = s.pri.listSegments.1 ∧
    (dualListSegments s).1.rep = s.rep := ⟨rfl, rfl, rfl⟩

/-- a listing through the dual client is the primary's listing or an error — nothing else -/
theorem _root_.KafVerif.C44.list_primary_or_error (s : State) :
    (dualListSegments s).2 = .err ∨ (dualListSegments s).2 = .ok s.pri.list := by
  simp only [dualListSegments, onPrimary, Bucket.listSegments, Bucket.call]
  split
  · exact Or.inl rfl
  · exact Or.inr rfl

/-- **A failing primary List fails the dual List** (transient or persistent fault), whatever the replica holds or
would answer; bucket contents do not move. -/
theorem _root_.KafVerif.C44.list_error_propagates (s : State) (h : (s.pri.opFault .listSegments).fires = true) :
    (dualListSegments s).2 = .err ∧ (dualListSegments s).1.rep = s.rep ∧
    (dualListSegments s).1.pri.seg = s.pri.seg ∧ (dualListSegments s).1.pri.idx = s.pri.idx ∧
    (dualListSegments s).1.pri.keys = s.pri.keys := by
  simp [dualListSegments, onPrimary, Bucket.listSegments, Bucket.call, h]

/-- **Never the replica's listing**: while the replica lags (its listing differs from the primary's), no dual
listing — with or without a primary fault — equals the replica's listing. -/
theorem _root_.KafVerif.C44.list_never_replica (s : State) (hlag : s.rep.list ≠ s.pri.list) :
    (dualListSegments s).2 ≠ .ok s.rep.list := by
  rcases KafVerif.C44.list_primary_or_error s with h | h <;> rw [h]
  · intro hh; cases hh
  · intro hh; injection hh with hh; exact hlag hh.symm

/-- a transient (`once`) primary List fault: the first call fails, the caller's retry gets the primary's listing -/
theorem _root_.KafVerif.C44.list_retry_after_transient_fault (s : State) (h : s.pri.opFault .listSegments = .once) :
    (dualListSegments s).2 = .err ∧ (dualListSegments (dualListSegments s).1).2 = .ok s.pri.list := by
  simp [dualListSegments, onPrimary, Bucket.listSegments, Bucket.call, h, Fault.fires, Fault.next, updM, Bucket.list]

/-- a persistent (`always`) primary List fault: every retry fails -/
theorem _root_.KafVerif.C44.list_persistent_fault (s : State) (h : s.pri.opFault .listSegments = .always) :
    (dualListSegments s).2 = .err ∧ (dualListSegments (dualListSegments s).1).2 = .err := by
  simp [dualListSegments, onPrimary, Bucket.listSegments, Bucket.call, h, Fault.fires, Fault.next, updM]

/-- **Every write/ensure call returns the primary's answer, including its error**, the primary moves as under a
direct call and the replica is not involved. -/
theorem _root_.KafVerif.C44.write_result_is_primary_answer (s : State) (k : Nat) (b : Bytes) :
    (dualUploadSegment s k b = ({ s with pri := (s.pri.uploadSegment k b).1 }, (s.pri.uploadSegment k b).2)) ∧
    (dualUploadIndex s k b = ({ s with pri := (s.pri.uploadIndex k b).1 }, (s.pri.uploadIndex k b).2)) ∧
    (dualDeleteSegment s k = ({ s with pri := (s.pri.deleteSegment k).1 }, (s.pri.deleteSegment k).2)) ∧
    (dualDeleteIndex s k = ({ s with pri := (s.pri.deleteIndex k).1 }, (s.pri.deleteIndex k).2)) ∧
    (dualEnsureBucket s = ({ s with pri := s.pri.ensureBucket.1 }, s.pri.ensureBucket.2)) := ⟨rfl, rfl, rfl, rfl, rfl⟩

/-- what a failed call leaves behind: same objects in both buckets -/
def SameContent (t s : State) : Prop :=
  t.rep = s.rep ∧ t.pri.seg = s.pri.seg ∧ t.pri.idx = s.pri.idx ∧ t.pri.keys = s.pri.keys ∧ t.pri.failing = s.pri.failing

/-- **A failing primary write fails the dual write and changes no object** (upload not stored anywhere, delete not
applied, nothing sent to the replica). -/
theorem _root_.KafVerif.C44.write_error_propagates (s : State) (k : Nat) (b : Bytes) :
    ((s.pri.opFault .uploadSegment).fires = true → (dualUploadSegment s k b).2 = .err ∧ SameContent (dualUploadSegment s k b).1 s) ∧
    ((s.pri.opFault .uploadIndex).fires = true → (dualUploadIndex s k b).2 = .err ∧ SameContent (dualUploadIndex s k b).1 s) ∧
    ((s.pri.opFault .deleteSegment).fires = true → (dualDeleteSegment s k).2 = .err ∧ SameContent (dualDeleteSegment s k).1 s) ∧
    ((s.pri.opFault .deleteIndex).fires = true → (dualDeleteIndex s k).2 = .err ∧ SameContent (dualDeleteIndex s k).1 s) ∧
    ((s.pri.opFault .ensureBucket).fires = true → (dualEnsureBucket s).2 = .err ∧ SameContent (dualEnsureBucket s).1 s) := by
  refine ⟨?_, ?_, ?_, ?_, ?_⟩ <;> intro h <;>
    simp [SameContent, dualUploadSegment, dualUploadIndex, dualDeleteSegment, dualDeleteIndex, dualEnsureBucket, onPrimary,
      Bucket.uploadSegment, Bucket.uploadIndex, Bucket.deleteSegment, Bucket.deleteIndex, Bucket.ensureBucket, Bucket.call, h]

/-! ### history level: what writers and listers see never depends on the replica -/

/-- environment events that concern the replica only: replication catching up, replica read faults, replica method faults -/
def Op.isReplicaEnv : Op → Bool
  | .replSeg _ | .replIdx _ | .rFail _ _ | .rOpFail _ _ => true
  | _ => false

theorem stepOut_pri_congr (s s' : State) (h : s.pri = s'.pri) (op : Op) :
    (stepOut s op).1.pri = (stepOut s' op).1.pri ∧ (stepOut s op).2 = (stepOut s' op).2 := by
  cases op <;>
    simp [stepOut, dualUploadSegment, dualUploadIndex, dualDeleteSegment, dualDeleteIndex, dualListSegments, dualEnsureBucket,
      onPrimary, h]

theorem stepOut_replicaEnv (s : State) (op : Op) (h : op.isReplicaEnv = true) :
    (stepOut s op).1.pri = s.pri ∧ (stepOut s op).2 = .env := by
  cases op <;> simp [Op.isReplicaEnv] at h <;> simp [stepOut]

/-- the answers callers got (environment events removed) -/
def answers (o : List Out) : List Out := o.filter fun x => decide (x ≠ .env)

/-- **Writes and listings never depend on the replica** — for EVERY history (uploads, deletes, lists, ensures,
primary faults of every method, replication events in any order/lag, replica read faults, replica method
faults) and any two start states with the same primary: removing all replica events from the history changes
neither any answer a writer/lister got (value or error) nor the primary bucket. -/
theorem writes_lists_independent_of_replica_from (ops : List Op) (s s' : State) (h : s.pri = s'.pri) :
    answers (trace s ops) = answers (trace s' (ops.filter fun o => !o.isReplicaEnv)) ∧
    (ops.foldl step s).pri = ((ops.filter fun o => !o.isReplicaEnv).foldl step s').pri := by
  induction ops generalizing s s' with
  | nil => exact ⟨rfl, h⟩
  | cons op ops ih =>
    by_cases he : op.isReplicaEnv = true
    · have h1 := stepOut_replicaEnv s op he
      have ih' := ih (step s op) s' (by rw [← h]; exact h1.1)
      simp only [List.filter_cons, he, Bool.not_true, Bool.false_eq_true, if_false, trace, List.foldl_cons]
      refine ⟨?_, ih'.2⟩
      rw [← ih'.1, h1.2]
      simp [answers]
    · have h1 := stepOut_pri_congr s s' h op
      have ih' := ih (step s op) (step s' op) h1.1
      simp only [List.filter_cons, he, Bool.not_false, if_true, trace, List.foldl_cons]
      refine ⟨?_, ih'.2⟩
      simp only [answers, List.filter_cons] at ih' ⊢
      rw [h1.2, ih'.1]

theorem _root_.KafVerif.C44.writes_lists_independent_of_replica (ops : List Op) :
    answers (trace State.init ops) = answers (trace State.init (ops.filter fun o => !o.isReplicaEnv)) ∧
    (run ops).pri = (run (ops.filter fun o => !o.isReplicaEnv)).pri :=
  writes_lists_independent_of_replica_from ops State.init State.init rfl

/-- **The replica is only ever asked to download**: whatever the state and the call, every backend
call that reaches the replica is `DownloadSegment` or `DownloadIndex`. -/
theorem _root_.KafVerif.C44.replica_read_only (s : State) (c : Call) :
    ∀ bc ∈ backendCalls s c, bc.1 = true → bc.2 = .downloadSegment ∨ bc.2 = .downloadIndex := by
  intro bc hbc hrep
  cases c <;> simp only [backendCalls] at hbc
  case rdSeg k r =>
    split at hbc <;> simp at hbc <;> rcases hbc with rfl | rfl <;> simp_all
  case rdIdx k =>
    split at hbc <;> simp at hbc <;> rcases hbc with rfl | rfl <;> simp_all
  all_goals (simp at hbc; subst hbc; simp at hrep)

/-- **Read your write**: right after a replication-safe upload that the primary accepted the dual client serves
the new bytes, whatever the replica's lag and faults. -/
theorem _root_.KafVerif.C44.read_your_write (ops : List Op) (k : Nat) (b : Bytes)
    (hs : SafeRun State.init (ops ++ [.upSeg k b])) (hp : PrimaryHealthy (run (ops ++ [.upSeg k b])))
    (hu : ((run ops).pri.opFault .uploadSegment).fires = false) :
    dualReadSeg (run (ops ++ [.upSeg k b])) k none = .ok b := by
  rw [(KafVerif.C44.reads_match_safe_history _ hs hp k none).1]
  have hp' := hp k
  simp only [run, List.foldl_append, List.foldl_cons, List.foldl_nil] at hp' hu ⊢
  simp only [step, stepOut, dualUploadSegment, onPrimary, Bucket.uploadSegment, Bucket.call, hu] at hp' ⊢
  simp at hp'
  simp [Bucket.readSeg, upd, rangeRead, hp']

/-! ### (3) the unrestricted statement fails: lagging behind an overwrite or a delete -/

theorem healthy_of_no_fail_ops (ops : List Op) (h : ∀ op ∈ ops, ∀ k on, op ≠ .pFail k on) (s : State)
    (hs : PrimaryHealthy s) : PrimaryHealthy (ops.foldl step s) := by
  induction ops generalizing s with
  | nil => exact hs
  | cons op ops ih =>
    apply ih (fun o ho => h o (List.mem_cons_of_mem _ ho))
    intro k
    have hop := h op (List.mem_cons_self ..)
    cases op <;>
      simp only [step, stepOut, dualUploadSegment, dualUploadIndex, dualDeleteSegment, dualDeleteIndex, dualListSegments,
        dualEnsureBucket, onPrimary, Bucket.uploadSegment, Bucket.uploadIndex, Bucket.deleteSegment, Bucket.deleteIndex,
        Bucket.listSegments, Bucket.ensureBucket, Bucket.call] <;> try (split <;> exact hs k)
    all_goals first | exact hs k | (exfalso; exact hop _ _ rfl)

theorem _root_.KafVerif.C44.stale_overwrite_violates :
    ∃ ops k, PrimaryHealthy (run ops) ∧ dualReadSeg (run ops) k none ≠ (run ops).pri.readSeg k none := by
  refine ⟨[.upSeg 1 [1], .replSeg 1, .upSeg 1 [2]], 1, ?_, by decide⟩
  exact healthy_of_no_fail_ops _ (by simp) _ (fun _ => rfl)

theorem _root_.KafVerif.C44.stale_delete_violates :
    ∃ ops k, PrimaryHealthy (run ops) ∧ dualReadSeg (run ops) k none ≠ (run ops).pri.readSeg k none := by
  refine ⟨[.upSeg 1 [1], .replSeg 1, .delSeg 1], 1, ?_, by decide⟩
  exact healthy_of_no_fail_ops _ (by simp) _ (fun _ => rfl)

theorem _root_.KafVerif.C44.full_statement_false : ¬ FullStatement := by
  intro h
  obtain ⟨ops, k, hp, hne⟩ := KafVerif.C44.stale_overwrite_violates
  exact hne (h ops k none hp)

/-! non-vacuity: a safe history with lag, a fault and a fallback -/
example : SafeRun State.init [.upSeg 1 [1, 2, 3], .upSeg 2 [9], .replSeg 1, .rFail 1 true, .upIdx 1 [7]] := by
  simp [SafeRun, Safe, step, stepOut, dualUploadSegment, onPrimary, Bucket.uploadSegment, Bucket.call, Fault.fires, upd,
    State.init, Bucket.empty]
example : dualReadSeg (run [.upSeg 1 [1, 2, 3], .upSeg 2 [9], .replSeg 1, .rFail 1 true]) 1 (some ⟨1, 5⟩) = .ok [2, 3] := by decide
example : dualReadSeg (run [.upSeg 1 [1, 2, 3], .replSeg 1]) 1 (some ⟨3, 5⟩) = .err := by decide
example : dualReadBatch (run [.upSeg 1 [1, 2, 3, 4, 5, 6]]) [(1, some ⟨0, 2⟩), (1, some ⟨0, 4⟩), (1, none)] =
    [.ok [1, 2, 3], .ok [1, 2, 3, 4, 5], .ok [1, 2, 3, 4, 5, 6]] := by decide

/-! non-vacuity of the faulty-primary theorems: the seeded situation — the replica lags (holds segment 1 only), the
primary holds 1 and 2, the primary's List fails once: the dual List fails (it does NOT return the replica's `[(1,3)]`),
the retry returns the primary's listing; with a persistent fault the retry fails too; a failed upload stores nothing. -/
def lagging : List Op := [.upSeg 1 [1, 2, 3], .replSeg 1, .upSeg 2 [4, 5]]
example : (run lagging).rep.list = [(1, 3)] ∧ (run lagging).pri.list = [(2, 2), (1, 3)] := by decide
example : (run lagging).rep.list ≠ (run lagging).pri.list := by decide
example : ((run (lagging ++ [.pOpFail .listSegments .once])).pri.opFault .listSegments).fires = true := by decide
example : trace State.init (lagging ++ [.pOpFail .listSegments .once, .list, .list]) =
    [.unit (.ok ()), .env, .unit (.ok ()), .env, .listing .err, .listing (.ok [(2, 2), (1, 3)])] := by decide
example : trace State.init (lagging ++ [.pOpFail .listSegments .always, .list, .list, .pOpFail .listSegments .none, .list]) =
    [.unit (.ok ()), .env, .unit (.ok ()), .env, .listing .err, .listing .err, .env, .listing (.ok [(2, 2), (1, 3)])] := by decide
example : trace State.init [.pOpFail .uploadSegment .once, .upSeg 1 [1], .list, .upSeg 1 [1], .list,
      .pOpFail .deleteSegment .always, .delSeg 1, .delSeg 1, .list, .pOpFail .ensureBucket .once, .ensure, .ensure] =
    [.env, .unit .err, .listing (.ok []), .unit (.ok ()), .listing (.ok [(1, 1)]),
     .env, .unit .err, .unit .err, .listing (.ok [(1, 1)]), .env, .unit .err, .unit (.ok ())] := by decide
example : answers (trace State.init (lagging ++ [.rOpFail .listSegments .always, .list])) =
    answers (trace State.init [.upSeg 1 [1, 2, 3], .upSeg 2 [4, 5], .list]) := by decide

/-! ### error classes of reads (what `errors.Is(err, storage.ErrNotFound)` sees) -/

theorem ite_err_ok_cases (c : Prop) [Decidable c] (y : Bytes) :
    (∃ x, (if c then GoResult.err else GoResult.ok y) = .ok x) ∨ (if c then GoResult.err else GoResult.ok y) = .err := by
  by_cases h : c
  · exact .inr (by simp [h])
  · exact .inl ⟨y, by simp [h]⟩

theorem rangeRead_cases (d : Bytes) (r : Option Rng) : (∃ x, rangeRead d r = .ok x) ∨ rangeRead d r = .err := by
  cases r with
  | none => exact .inl ⟨_, rfl⟩
  | some r => exact ite_err_ok_cases _ _

/-- the classified backend reads are the reads of the model above with the class forgotten -/
theorem readSegC_toGo (b : Bucket) (k : Nat) (r : Option Rng) : (b.readSegC k r).toGo = b.readSeg k r := by
  unfold Bucket.readSegC Bucket.readSeg
  by_cases hf : b.failing k = true
  · simp [hf, RRes.toGo]
  · simp only [hf, Bool.false_eq_true, if_false]
    cases hs : b.seg k with
    | none => rfl
    | some d =>
      rcases rangeRead_cases d r with ⟨x, hx⟩ | hx <;> simp [hx, RRes.toGo]

theorem readIdxC_toGo (b : Bucket) (k : Nat) : (b.readIdxC k).toGo = b.readIdx k := by
  unfold Bucket.readIdxC Bucket.readIdx
  by_cases hf : b.failing k = true
  · simp [hf, RRes.toGo]
  · simp only [hf, Bool.false_eq_true, if_false]
    cases hs : b.idx k <;> rfl

/-- **The classified dual reads refine the dual reads**: forgetting the class gives exactly `dualReadSeg`/`dualReadIdx`,
so every theorem above is about the same function. -/
theorem _root_.KafVerif.C44.classified_reads_refine (s : State) (k : Nat) (r : Option Rng) :
    (dualReadSegC s k r).toGo = dualReadSeg s k r ∧ (dualReadIdxC s k).toGo = dualReadIdx s k := by
  constructor
  · unfold dualReadSegC dualReadSeg
    rw [← readSegC_toGo s.rep, ← readSegC_toGo s.pri]
    cases s.rep.readSegC k r <;> rfl
  · unfold dualReadIdxC dualReadIdx
    rw [← readIdxC_toGo s.rep, ← readIdxC_toGo s.pri]
    cases s.rep.readIdxC k <;> rfl

/-- **The error class of a dual read is the primary's** — every state (lagging, stale, failing replica; failing
primary), every key and range: whenever the replica does not deliver, the dual client's answer INCLUDING the class of its
error (`notFound` vs `failed`) is the primary's own answer to that read.  In particular replica not-found + primary
transient failure is `failed`, never `notFound`. -/
theorem _root_.KafVerif.C44.read_error_class_is_primarys (s : State) (k : Nat) (r : Option Rng) :
    ((s.rep.readSegC k r).isOk = false → dualReadSegC s k r = s.pri.readSegC k r) ∧
    ((s.rep.readIdxC k).isOk = false → dualReadIdxC s k = s.pri.readIdxC k) := by
  constructor
  · intro h; unfold dualReadSegC
    cases hr : s.rep.readSegC k r with
    | ok d => simp [hr, RRes.isOk] at h
    | notFound => rfl
    | failed => rfl
  · intro h; unfold dualReadIdxC
    cases hr : s.rep.readIdxC k with
    | ok d => simp [hr, RRes.isOk] at h
    | notFound => rfl
    | failed => rfl

/-- **A failed dual read is classified like the primary's failure** (no hypothesis at all): a dual read that errs has
the primary's error, class included. -/
theorem _root_.KafVerif.C44.failed_dual_read_has_primarys_class (s : State) (k : Nat) (r : Option Rng) :
    ((dualReadSegC s k r).isOk = false → dualReadSegC s k r = s.pri.readSegC k r) ∧
    ((dualReadIdxC s k).isOk = false → dualReadIdxC s k = s.pri.readIdxC k) := by
  constructor
  · unfold dualReadSegC
    cases hr : s.rep.readSegC k r with
    | ok d => simp [RRes.isOk]
    | notFound => simp
    | failed => simp
  · unfold dualReadIdxC
    cases hr : s.rep.readIdxC k with
    | ok d => simp [RRes.isOk]
    | notFound => simp
    | failed => simp

/-- **Restore decides like on the primary**: `RestoreFromS3` skips a segment as orphaned only when the PRIMARY says its
index does not exist, and aborts (to be retried) exactly when the primary's index read fails — whatever the replica
holds or answers, as long as it does not deliver an index itself. -/
theorem _root_.KafVerif.C44.restore_decision_is_primarys (s : State) (k : Nat) (h : (s.rep.readIdxC k).isOk = false) :
    restoreDecision (dualReadIdxC s k) = restoreDecision (s.pri.readIdxC k) := by
  rw [(KafVerif.C44.read_error_class_is_primarys s k none).2 h]

/-- the state of the seeded situation: the primary holds index 1 but its read fails transiently; the replica lags (no copy) -/
def laggingIdxPrimaryFailing : State := run [.upIdx 1 [10, 11], .pFail 1 true]

/-- **Witness: joining both errors breaks the class.**  With the replica not-found and the primary failing transiently
the joined error IS not-found (`errors.Is` finds the replica's wrapped error), the primary's own answer is `failed`:
the restore would skip a segment the primary still holds instead of aborting. -/
theorem _root_.KafVerif.C44.joined_error_violates :
    dualReadIdxJoined laggingIdxPrimaryFailing 1 = .notFound ∧ laggingIdxPrimaryFailing.pri.readIdxC 1 = .failed ∧
    dualReadIdxC laggingIdxPrimaryFailing 1 = .failed ∧
    restoreDecision (dualReadIdxJoined laggingIdxPrimaryFailing 1) = some false ∧
    restoreDecision (dualReadIdxC laggingIdxPrimaryFailing 1) = none := by decide

-- non-vacuity: hypotheses of read_error_class_is_primarys are satisfiable with each class on the primary's side
example : (laggingIdxPrimaryFailing.rep.readIdxC 1).isOk = false ∧ laggingIdxPrimaryFailing.rep.readIdxC 1 = .notFound := by decide
example : dualReadIdxC (run [.upIdx 1 [10, 11]]) 1 = .ok [10, 11] ∧ dualReadIdxC (run [.upIdx 1 [10, 11]]) 2 = .notFound := by decide
example : dualReadSegC (run [.upSeg 1 [1, 2], .rFail 2 true]) 2 none = .notFound ∧
    dualReadSegC (run [.upSeg 1 [1, 2]]) 1 (some ⟨5, 9⟩) = .failed := by decide

end KafVerif.DualS3
