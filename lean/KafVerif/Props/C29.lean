import KafVerif.Model.LfsEnvelope
/-!
C29 — LFS envelopes round-trip and are recognised by every SDK.

Statement (properties.jsonl): every envelope the proxy produces decodes back to the same fields
and is recognised as an envelope by the Go, Python and JavaScript client libraries.  All three
libraries agree on whether ANY byte string is an envelope, so a non-envelope value is passed
through unchanged by each.

Proved here, for every byte string / every field assignment:
* `agree`               the three marker checks (Go, fixed Python, fixed JS) are the same function;
* `encoded_recognised`  whatever `EncodeEnvelope` returns is recognised by all three, for EVERY
                        JSON string encoder (so independent of `encoding/json`'s escaping);
* `passthrough_agree`   the three resolvers take the pass-through branch on the same inputs;
* `jsOld_disagrees`, `pyOld_disagrees`   the code before the fixes violates `agree`.
"decodes back to the same fields" needs `encoding/json` / `json.loads` / `JSON.parse` as
parameters; it is checked by the cross-language monitor of checks/C29.py (testing, not proof).
-/
namespace KafVerif.LfsEnvelope

/-! ### `containsB` does not see through the token abstraction -/

theorem tok_beq (a b : UInt8) (ha : a < 0x80) : (some a == tok b) = (a == b) := by
  unfold tok
  split
  · simp
  · rename_i h
    have : a ≠ b := by intro e; subst e; exact h ha
    simp [this]

theorem isPrefixOf_map_tok (m l : Bytes) (hm : ∀ a ∈ m, a < 0x80) :
    (m.map some).isPrefixOf (l.map tok) = m.isPrefixOf l := by
  induction m generalizing l with
  | nil => simp [List.isPrefixOf]
  | cons a m ih =>
    cases l with
    | nil => simp [List.isPrefixOf]
    | cons b l =>
      simp only [List.map_cons, List.isPrefixOf]
      rw [tok_beq a b (hm a (by simp)), ih l (fun x hx => hm x (by simp [hx]))]

theorem containsB_map_tok (m l : Bytes) (hm : ∀ a ∈ m, a < 0x80) :
    containsB (m.map some) (l.map tok) = containsB m l := by
  induction l with
  | nil =>
    simp only [List.map_nil, containsB]
    have := isPrefixOf_map_tok m [] hm
    simpa using this
  | cons b l ih =>
    have h := isPrefixOf_map_tok m (b :: l) hm
    simp only [List.map_cons] at h
    simp only [List.map_cons, containsB, h, ih]

theorem marker_ascii : ∀ a ∈ marker, a < 0x80 := by decide

theorem js_contains (l : Bytes) : containsB markerS (jsDecode l) = containsB marker l :=
  containsB_map_tok marker l marker_ascii

/-! ### agreement -/

theorem take_min_50 (v : Bytes) :
    v.take (if v.length < 50 then v.length else 50) = v.take 50 := by
  split
  · rename_i h
    rw [List.take_of_length_le (Nat.le_refl _), List.take_of_length_le (by omega)]
  · rfl

theorem head_take1 (v : Bytes) : (v.take 1 != [0x7b]) = (v.head? != some 0x7b) := by
  cases v with
  | nil => decide
  | cons a t => by_cases h : a = 123 <;> simp [h, bne]

theorem isEnvPy_eq_go (v : Bytes) : isEnvPy v = isEnvGo v := by
  unfold isEnvPy isEnvGo
  by_cases hl : v.length < 15
  · simp [hl]
  · have hne : v.isEmpty = false := by
      cases v with
      | nil => simp at hl
      | cons a t => rfl
    simp only [hne, hl, Bool.false_or, decide_false, if_false, Bool.false_eq_true]
    rw [head_take1, take_min_50]

theorem isEnvJs_eq_go (v : Bytes) : isEnvJs v = isEnvGo v := by
  unfold isEnvJs isEnvGo
  by_cases hl : v.length < 15
  · simp [hl]
  · have hne : v.isEmpty = false := by
      cases v with
      | nil => simp at hl
      | cons a t => rfl
    simp only [hne, hl, Bool.false_or, decide_false, if_false, Bool.false_eq_true]
    rw [js_contains, take_min_50]
    have : min 50 v.length = if v.length < 50 then v.length else 50 := by
      split <;> omega
    rw [this, take_min_50]

/-- **C29 (agreement).** For EVERY byte string the Go, Python and JavaScript marker checks
return the same answer. -/
theorem _root_.KafVerif.C29.agree (v : Bytes) : isEnvGo v = isEnvPy v ∧ isEnvGo v = isEnvJs v :=
  ⟨(isEnvPy_eq_go v).symm, (isEnvJs_eq_go v).symm⟩

/-- What each library's resolver does with a record value: the pass-through branch returns the
value itself (`Resolver.Resolve`, `Consumer.Unwrap`, `LfsResolver.resolve` ×2). -/
inductive Routed where
  | passthrough (v : Bytes)
  | envelope (v : Bytes)
deriving DecidableEq

def route (isEnv : Bytes → Bool) (v : Bytes) : Routed := if isEnv v then .envelope v else .passthrough v

/-- **C29 (pass-through).** All three libraries route every value the same way; a value that is
not an envelope is handed back unchanged by each of them. -/
theorem _root_.KafVerif.C29.passthrough_agree (v : Bytes) :
    route isEnvPy v = route isEnvGo v ∧ route isEnvJs v = route isEnvGo v ∧
    (isEnvGo v = false → route isEnvGo v = .passthrough v ∧ route isEnvPy v = .passthrough v ∧
      route isEnvJs v = .passthrough v) := by
  have h1 := isEnvPy_eq_go v
  have h2 := isEnvJs_eq_go v
  refine ⟨by simp [route, h1], by simp [route, h2], ?_⟩
  intro h
  simp [route, h1, h2, h]

/-! ### every encoded envelope is recognised -/

theorem containsB_self_append {α : Type} [BEq α] [LawfulBEq α] (a : α) (m t : List α) :
    containsB m (a :: (m ++ t)) = true := by
  have h : m.isPrefixOf (m ++ t) = true := List.isPrefixOf_iff_prefix.mpr (List.prefix_append m t)
  cases hmt : m ++ t with
  | nil =>
    rw [hmt] at h
    simp [containsB, h]
  | cons b r =>
    rw [hmt] at h
    simp [containsB, h]

theorem take50_marker (a : UInt8) (t : Bytes) :
    (a :: (marker ++ t)).take 50 = a :: (marker ++ t.take 40) := by
  simp [marker]

/-- **C29 (encoded envelopes are recognised).** Whatever `EncodeEnvelope` returns (its own guard:
version ≠ 0, non-empty bucket/key/sha256) is recognised as an envelope by the Go, Python and
JavaScript libraries — for every field assignment (unicode, arbitrarily long bucket/key, any
header map) and for EVERY JSON string encoder `str`. -/
theorem _root_.KafVerif.C29.encoded_recognised (str : Bytes → Bytes) (e : Envelope) (out : Bytes)
    (h : encodeWith str e = some out) :
    isEnvGo out = true ∧ isEnvPy out = true ∧ isEnvJs out = true := by
  have hgo : isEnvGo out = true := by
    unfold encodeWith at h
    split at h
    · simp at h
    · simp only [Option.some.injEq] at h
      subst h
      unfold isEnvGo
      have hlen : ¬ (marshalWith str e).length < 15 := by
        simp [marshalWith, encodeTail, marker, ascii]
        omega
      rw [if_neg hlen]
      have hhead : ((marshalWith str e).head? != some 0x7b) = false := by
        simp [marshalWith]
      simp only [hhead, Bool.false_eq_true, if_false]
      rw [take_min_50]
      have : marshalWith str e = 0x7b :: (marker ++ ([0x3a] ++ intBytes e.version ++ encodeTail str e)) := by
        simp [marshalWith]
      rw [this, take50_marker]
      exact containsB_self_append _ _ _
  exact ⟨hgo, by rw [isEnvPy_eq_go]; exact hgo, by rw [isEnvJs_eq_go]; exact hgo⟩

/-! ### purity of `EncodeEnvelope` (explicit assumption, validated by the hand-out stability run)

The model's `encode` is a function on immutable values, so an envelope that was handed to a caller
cannot change when a later envelope is encoded.  For the Go code this is an ASSUMPTION about
`EncodeEnvelope` (its result must be a fresh slice, not a view of a reused buffer); it is listed in
`checks/C29.py` ASSUMPTIONS and validated on every run: the harness keeps every returned slice and
re-checks all of them after each later call, serially and from several goroutines.  The statement
below is what that run validates: the i-th result of any sequence of encodes is `encode` of the
i-th envelope, whatever was encoded before or after it. -/

/-- the results a caller holds after encoding `es` in order -/
def encodeAll (es : List Envelope) : List (Option Bytes) := es.foldl (fun acc e => acc ++ [encode e]) []

theorem encodeAll_eq_map (es : List Envelope) : encodeAll es = es.map encode := by
  have : ∀ acc, es.foldl (fun acc e => acc ++ [encode e]) acc = acc ++ es.map encode := by
    induction es with
    | nil => intro acc; simp
    | cons e t ih => intro acc; simp [ih]
  simpa [encodeAll] using this []

/-- **C29 (hand-out stability, model side).** In every sequence of encodes, the i-th returned value
is the encoding of the i-th envelope — later (or earlier) encodes never alter it. -/
theorem _root_.KafVerif.C29.handout_stable (es later : List Envelope) (i : Nat) :
    (encodeAll (es ++ later))[i]? = if i < es.length then (encodeAll es)[i]? else (encodeAll (es ++ later))[i]? := by
  split
  · rename_i h
    rw [encodeAll_eq_map, encodeAll_eq_map, List.map_append, List.getElem?_append_left (by simpa using h)]
  · rfl

/-! ### the code before the fixes violates agreement (kept so a regression is recognised) -/

/-- `{"kfs_lfs":1}` (13 bytes): JS had no 15-byte minimum. -/
theorem _root_.KafVerif.C29.jsOld_disagrees : ∃ v : Bytes, isEnvJsOld v ≠ isEnvGo v :=
  ⟨ascii "{\"kfs_lfs\":1}", by decide⟩

/-- `{"kfs_\xfflfs":1,"bucket":"b"}`: `errors="ignore"` deleted the 0xff and the marker appeared. -/
theorem _root_.KafVerif.C29.pyOld_disagrees : ∃ v : Bytes, isEnvPyOld v ≠ isEnvGo v :=
  ⟨ascii "{\"kfs_" ++ [0xff] ++ ascii "lfs\":1,\"bucket\":\"b\"}", by decide⟩

/-! ### non-vacuity -/

def sampleEnv : Envelope :=
  { version := 1, bucket := ascii "bkt", key := ascii "ns/t/lfs/2026/01/01/obj-1", size := 3,
    sha256 := ascii "ab", checksum := [], checksumAlg := ascii "sha256", contentType := [],
    originalHeaders := [(ascii "x-request-id", ascii "<1>")], createdAt := [], proxyId := [] }

example : (encode sampleEnv).isSome = true := by decide
set_option maxRecDepth 8000 in
example : (encode sampleEnv).map isEnvGo = some true := by decide
example : isEnvGo (ascii "{\"version\":1,\"bucket\":\"b\"}") = false := by decide
-- a value on which the old Python and the old JS differed from Go, and the fixed ones do not
example : isEnvJs (ascii "{\"kfs_lfs\":1}") = false := by decide

end KafVerif.LfsEnvelope
