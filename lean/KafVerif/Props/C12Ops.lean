import KafVerif.Gen.C12CoordOps
import KafVerif.Model.Group.CoordOpsSpec
import KafVerif.Model.Group.Coordinator
/-!
C12 / C13 / C15, static tie.  `Gen/C12CoordOps.lean` is regenerated from the CURRENT
`pkg/broker/coordinator.go` by `checks/C12_common.py` (go/ast) before this file is built.

The model (`Model/Group/Coordinator.lean`) runs every request as ONE atomic step that ends with `persist`;
the dynamic tie can only confirm that on the schedules it happens to run.  The obligations here confirm the
shape of the code that makes it true for every schedule:

* `coord_ops_match`                  the regenerated lock / persist skeleton IS the table the model assumes
                                     (`Model/Group/CoordOpsSpec.lean`, one section per function);
* `store_writes_under_lock`, `state_writes_under_lock`, `no_unlock_between_check_and_use`,
  `persist_before_reply`, `reply_bytes_fresh`, `lock_balanced`
                                     refactoring-tolerant consequences, each naming one thing the atomic-step
                                     reading depends on (they tell WHAT broke);
* `sections_cover_model`             every request `Op` of the model has its entry function in the table;
* `store_writes_locked_sound`, `one_region_sound`
                                     what the Boolean predicates mean (for every table, not only this one);
* `mutex_serialises`                 why that shape gives atomic steps: when every shared effect of a request lies
                                     between its `Lock` and its `Unlock`, every interleaving of any number of
                                     requests produces the effects of whole requests, one after the other, in
                                     the order in which they released the lock.
-/
namespace KafVerif.C12
open KafVerif.CoordOps

set_option maxRecDepth 100000 in
/-- the lock / persist skeleton of the current source equals the one the model was written against -/
theorem coord_ops_match : KafVerif.Gen.C12.rows = expected := by rfl

/-- every PutConsumerGroup / DeleteConsumerGroup / CommitConsumerOffset happens with `c.mu` held, on every
call chain from a request entry -/
theorem store_writes_under_lock : storeWritesLocked KafVerif.Gen.C12.rows = true := by decide +kernel

/-- every write of shared group / member state happens with `c.mu` held -/
theorem state_writes_under_lock : stateWritesLocked KafVerif.Gen.C12.rows = true := by decide +kernel

/-- each locking request is ONE critical section: no `Unlock` between its generation / member checks and the
state writes, store calls, helper calls and reply fields that follow them -/
theorem no_unlock_between_check_and_use : oneRegion KafVerif.Gen.C12.rows = true := by decide +kernel

/-- a success reply is only returned after the state it reports was handed to the store, synchronously -/
theorem persist_before_reply : persistBeforeReply KafVerif.Gen.C12.rows = true := by decide +kernel

/-- reply bytes are freshly built; the coordinator keeps no per-request scratch field -/
theorem reply_bytes_fresh : replyBytesFresh KafVerif.Gen.C12.rows = true := by decide +kernel

theorem lock_balanced : lockBalanced KafVerif.Gen.C12.rows = true := by decide +kernel

/-! ### the table covers the model -/

/-- the entry function that implements a request op of the model (`none`: harness-only ops) -/
def entryOf : KafVerif.Group.Op → Option String
  | .join .. => some "JoinGroup"
  | .sync .. => some "SyncGroup"
  | .heartbeat .. => some "Heartbeat"
  | .leave .. => some "LeaveGroup"
  | .commit .. => some "OffsetCommit"
  | .fetch .. => some "OffsetFetch"
  | .cleanup => some "cleanupGroups"
  | .load _ => some "loadGroupIfMissing"
  | .tick _ | .failover | .fail _ | .setMeta _ => none

def hasSection (f : String) : Bool := sections.any fun sec => sec.1 == f && !sec.2.isEmpty

/-- every request op of the model has a non-empty section, and the table is exactly the sections -/
theorem sections_cover_model :
    (∀ op f, entryOf op = some f → hasSection f = true) ∧ expected = sections.flatMap (·.2) := by
  refine ⟨?_, rfl⟩
  intro op f h
  cases op <;> simp [entryOf] at h <;> subst h <;> decide +kernel

/-! ### what the predicates mean -/

/-- `c.mu` is held at a row on every call chain from an entry -/
inductive Held (rows : List Row) : Row → Prop where
  | direct (r : Row) : r.lk = .held → Held rows r
  | via (r : Row) : r.lk = .inherit → callersOf rows r.fid ≠ [] →
      (∀ c ∈ callersOf rows r.fid, Held rows c) → Held rows r

theorem effHeld_sound (rows : List Row) (n : Nat) (r : Row) (h : effHeld rows n r = true) : Held rows r := by
  induction n generalizing r with
  | zero => simp [effHeld] at h
  | succ n ih =>
    unfold effHeld at h
    cases hl : r.lk with
    | held => exact .direct r hl
    | free => simp [hl] at h
    | inherit =>
      simp only [hl, Bool.and_eq_true, Bool.not_eq_true', List.all_eq_true] at h
      refine .via r hl ?_ (fun c hc => ih c (h.2 c hc))
      intro he
      simp [he] at h

/-- `storeWritesLocked` / `stateWritesLocked`: every persisting store call and every shared-state write of the
table is `Held` -/
theorem store_writes_locked_sound (rows : List Row)
    (h1 : storeWritesLocked rows = true) (h2 : stateWritesLocked rows = true) :
    ∀ r ∈ rows, (r.ev.isStoreWrite = true ∨ r.ev.isStateWrite = true) → Held rows r := by
  intro r hr hw
  simp only [storeWritesLocked, stateWritesLocked, List.all_eq_true, Bool.or_eq_true, Bool.not_eq_true'] at h1 h2
  rcases hw with hw | hw
  · rcases h1 r hr with h | h
    · simp [hw] at h
    · exact effHeld_sound rows _ r h
  · rcases h2 r hr with h | h
    · simp [hw] at h
    · exact effHeld_sound rows _ r h

/-- `oneRegion`: any two critical rows (check, write, store call, helper call, reply field) of one locking
entry are both under the lock and in the SAME lock region — no `Unlock` separates a check from a use -/
theorem one_region_sound (rows : List Row) (h : oneRegion rows = true) (f : String) (hf : f ∈ lockedEntries)
    (r1 r2 : Row) (h1 : r1 ∈ rows) (h2 : r2 ∈ rows) (e1 : r1.entry = true ∧ r1.fn = f) (e2 : r2.entry = true ∧ r2.fn = f)
    (c1 : r1.ev.inCritical = true) (c2 : r2.ev.inCritical = true) :
    r1.lk = .held ∧ r2.lk = .held ∧ r1.region = r2.region := by
  simp only [oneRegion, Bool.and_eq_true, List.all_eq_true] at h
  have hh := (h.2 f hf).2
  have k : ∀ r ∈ rows, (r.entry = true ∧ r.fn = f) → r.ev.inCritical = true → r.lk = .held ∧ r.region = 1 := by
    intro r hr he hc
    have := hh r (by simp [List.mem_filter, hr, he.1, he.2])
    simpa [hc] using this
  have a := k r1 h1 e1 c1
  have b := k r2 h2 e2 c2
  exact ⟨a.1, b.1, by rw [a.2, b.2]⟩

/-! ### why one critical section per request gives atomic steps -/

/-- Any number of requests run concurrently; request `t` has the shape `Lock; crit t; Unlock`, `crit t` being
the list of its shared effects (what the obligations above establish: every state write, persisting store
call and reply construction of a request sits in its single lock region).  `holder = some (t, k)`: `t` holds
the mutex and has executed `k` of its effects; `finished`: the requests that released the mutex, in that
order; `trace`: every shared effect executed so far, tagged with its request. -/
structure MSys (α : Type) where
  holder : Option (Nat × Nat) := none
  finished : List Nat := []
  trace : List (Nat × α) := []

/-- the scheduler lets request `t` take one step: `Lock` succeeds only when the mutex is free; the holder
executes its next effect or unlocks; everybody else is blocked in `Lock` (or outside its critical section,
where it has no shared effect) -/
def mstep {α : Type} (crit : Nat → List α) (s : MSys α) (t : Nat) : MSys α :=
  match s.holder with
  | none => { s with holder := some (t, 0) }
  | some (h, k) =>
    if h ≠ t then s
    else match (crit t)[k]? with
      | some e => { s with holder := some (t, k + 1), trace := s.trace ++ [(t, e)] }
      | none => { s with holder := none, finished := s.finished ++ [t] }

def mrun {α : Type} (crit : Nat → List α) (sched : List Nat) : MSys α := sched.foldl (mstep crit) {}

/-- the effects of request `t` executed as one atomic step -/
def whole {α : Type} (crit : Nat → List α) (t : Nat) : List (Nat × α) := (crit t).map fun e => (t, e)

def inProgress {α : Type} (crit : Nat → List α) (s : MSys α) : List (Nat × α) :=
  match s.holder with
  | some (h, k) => ((crit h).take k).map fun e => (h, e)
  | none => []

theorem mstep_inv {α : Type} (crit : Nat → List α) (s : MSys α) (t : Nat)
    (h : s.trace = s.finished.flatMap (whole crit) ++ inProgress crit s) :
    (mstep crit s t).trace = (mstep crit s t).finished.flatMap (whole crit) ++ inProgress crit (mstep crit s t) := by
  cases hh : s.holder with
  | none =>
    have e : mstep crit s t = { s with holder := some (t, 0) } := by simp [mstep, hh]
    rw [e]
    simpa [inProgress, hh] using h
  | some p =>
    obtain ⟨hd, k⟩ := p
    by_cases ht : hd = t
    · subst ht
      cases hg : (crit hd)[k]? with
      | some e =>
        have e' : mstep crit s hd = { s with holder := some (hd, k + 1), trace := s.trace ++ [(hd, e)] } := by
          simp [mstep, hh, hg]
        rcases List.getElem?_eq_some_iff.mp hg with ⟨hk, he⟩
        rw [e', h]
        simp only [inProgress, hh, List.append_assoc]
        rw [← List.take_append_getElem hk, he]
        simp
      | none =>
        have e' : mstep crit s hd = { s with holder := none, finished := s.finished ++ [hd] } := by
          simp [mstep, hh, hg]
        have hk : (crit hd).length ≤ k := by
          rcases Nat.lt_or_ge k (crit hd).length with hlt | hge
          · have := List.getElem?_eq_getElem hlt
            rw [hg] at this
            cases this
          · exact hge
        rw [e', h]
        simp [inProgress, hh, whole, List.take_of_length_le hk]
    · have e : mstep crit s t = s := by simp [mstep, hh, ht]
      rw [e]
      exact h

/-- MUTUAL EXCLUSION ⇒ ATOMIC REQUESTS.  For every schedule of every number of concurrent requests, the shared
effects executed so far are exactly those of the finished requests, each WHOLE and uninterrupted, in the
order in which they released the lock, followed by the prefix of the one request that holds the lock now. -/
theorem mutex_serialises {α : Type} (crit : Nat → List α) (sched : List Nat) :
    (mrun crit sched).trace =
      (mrun crit sched).finished.flatMap (whole crit) ++ inProgress crit (mrun crit sched) := by
  unfold mrun
  suffices ∀ (s : MSys α), s.trace = s.finished.flatMap (whole crit) ++ inProgress crit s →
      (sched.foldl (mstep crit) s).trace =
        (sched.foldl (mstep crit) s).finished.flatMap (whole crit) ++ inProgress crit (sched.foldl (mstep crit) s) by
    exact this {} (by simp [inProgress])
  induction sched with
  | nil => intro s h; exact h
  | cons t ts ih => intro s h; exact ih _ (mstep_inv crit s t h)

/-- when nobody holds the lock the trace is a serial execution of whole requests -/
theorem mutex_serialises_quiescent {α : Type} (crit : Nat → List α) (sched : List Nat)
    (h : (mrun crit sched).holder = none) :
    (mrun crit sched).trace = (mrun crit sched).finished.flatMap (whole crit) := by
  have := mutex_serialises crit sched
  simpa [inProgress, h] using this

-- non-vacuity
example : storeWritesLocked [⟨"Heartbeat", 0, true, .free, 1, .store "PutConsumerGroup"⟩] = false := by decide +kernel
example : storeWritesLocked [⟨"persistGroupLocked", 1, false, .inherit, 0, .store "PutConsumerGroup"⟩,
    ⟨"Heartbeat", 0, true, .free, 1, .call "persistGroupLocked" 1 false⟩] = false := by decide +kernel
example : storeWritesLocked [⟨"persistGroupLocked", 1, false, .inherit, 0, .store "PutConsumerGroup"⟩,
    ⟨"Heartbeat", 0, true, .held, 1, .call "persistGroupLocked" 1 false⟩] = true := by decide +kernel
example : oneRegion (expected ++ [⟨"SyncGroup", 1, true, .held, 2, .write "state.assignments" "x" false "state"⟩]) = false := by
  decide +kernel
example : persistBeforeReply (expected ++ [⟨"Heartbeat", 2, true, .free, 1, .ret ["resp"] true false⟩]) = false := by decide +kernel
example : replyBytesFresh [⟨"SyncGroup", 1, true, .held, 1, .reply "resp.MemberAssignment" "c.assignBuf" "field"⟩] = false := by
  decide +kernel
example : (mrun (fun t => [t * 10, t * 10 + 1]) [1, 2, 1, 2, 1, 1, 2, 2, 2, 2]).trace = [(1, 10), (1, 11), (2, 20), (2, 21)] := by
  decide +kernel

end KafVerif.C12
