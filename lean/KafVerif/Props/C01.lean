import KafVerif.Lemmas.StorageLog
/-!
C01 — Acknowledged produce is durable in S3.

Statement (properties.jsonl): with synchronous flush-on-ack, when a produce request with acks ≠ 0
gets a success code for a partition, every record of that batch is already stored in an S3 segment
(with its index); also when other producers write to the same partition concurrently and when any
S3 upload fails; it also survives a broker restart.
Quantifier: every interleaving of concurrent produce/flush calls on one partition, every sequence
of S3 upload successes/failures (segment or index), every batch shape.

The theorems are about EVERY reachable state of the transition system `StorageLog.step fixed`
(any number of producer goroutines, any interleaving of their critical sections, any outcome of
every upload and of every UpdateOffsets call, crashes and restarts anywhere, any flush thresholds)
— by induction over the step relation with the invariant `Inv` of `Lemmas/StorageLog.lean`.
`acked` grows exactly where `handleProduce` answers error code 0 (`Flush` returned nil).
-/
namespace KafVerif.StorageLog

/-- **C01.** In every reachable state, every batch that was ever acknowledged is contained in an
S3 segment object whose index object is present. -/
theorem _root_.KafVerif.C01.ack_durable {cfg : Cfg} {s : State} (h : Reachable fixed cfg s)
    {b : Batch} (hb : b ∈ s.acked) : Durable s b := by
  obtain ⟨L, hc, _⟩ := core_of_inv (reachable_inv h)
  exact Comm_durable (hc.acked b hb)

/-- …and every one of its offsets is covered by that object (`b ∈ o` is the whole batch). -/
theorem _root_.KafVerif.C01.ack_offsets_durable {cfg : Cfg} {s : State} (h : Reachable fixed cfg s)
    {b : Batch} (hb : b ∈ s.acked) {o : Nat} (h1 : b.base ≤ o) (h2 : o < b.endOff) : DurableOff s o := by
  obtain ⟨k, obj, hs, hm, hi⟩ := KafVerif.C01.ack_durable h hb
  exact ⟨k, obj, b, hs, hi, hm, h1, h2⟩

/-- While the broker is up, the acknowledged batch is served by a *registered* segment covering its
base offset (so a fetch finds it without the write-buffer fallbacks). -/
theorem _root_.KafVerif.C01.ack_readable {cfg : Cfg} {s : State} {m : Mem} (h : Reachable fixed cfg s)
    (hm : s.mem = some m) {b : Batch} (hb : b ∈ s.acked) : Readable s m b := by
  have mi := memInv_of (reachable_inv h) hm
  exact mi.core.acked b hb

/-- The step that acknowledges: when `Flush` returns nil (`pub t _` of a thread inside `Flush`, any
outcome of the store update) the batch is durable in the resulting state — and, by `ack_durable`,
stays so. -/
theorem _root_.KafVerif.C01.ack_step_durable {cfg : Cfg} {s s' : State} {t : Nat} {ok : Bool} {b : Batch} {hh : Nat}
    (h : Reachable fixed cfg s) (hpc : s.pcs t = .pub false b hh) (hs : step fixed s (.pub t ok) = some s') :
    s'.pcs t = .acked b ∧ Durable s' b := by
  have hr : Reachable fixed cfg s' := Reachable.step _ h hs
  have hacked : s'.pcs t = .acked b ∧ b ∈ s'.acked := by
    simp only [step, hpc] at hs
    simp only [Bool.false_eq_true, if_false, Option.some.injEq] at hs
    subst hs
    simp
  exact ⟨hacked.1, KafVerif.C01.ack_durable hr hacked.2⟩

/-! ### non-vacuity: reachable states with acknowledged batches, failures and waiters exist -/

/-- B appends, A appends; A's Flush drains both and its index upload fails; B, waiting in Flush,
wakes up — pre-fix: finds nothing to flush and is acknowledged. -/
def lostAckEvs : List Ev :=
  [.restore, .append 0 1, .append 1 1, .flush 0, .flush 1, .seg 0 true, .idx 0 false, .finish 0,
   .wake 1, .readNext 1, .pub 1 true]

/-- the same schedule on the repaired code: the waiter re-uploads the re-queued batches -/
def lostAckEvsFixed : List Ev :=
  [.restore, .append 0 1, .append 1 1, .flush 0, .flush 1, .seg 0 true, .idx 0 false, .finish 0,
   .wake 1, .seg 1 true, .idx 1 true, .finish 1, .pub 1 true]

def ackedNotDurable (v : Variant) (evs : List Ev) : Bool :=
  match run v (init ⟨0, 0⟩) evs with
  | some s => s.acked.any fun b => !durableB s b
  | none => false

/-- **pre-fix witness**: an acknowledged batch that is in no S3 segment. -/
theorem _root_.KafVerif.C01.old_violates : ackedNotDurable old lostAckEvs = true := by decide

theorem _root_.KafVerif.C01.fixed_same_schedule :
    ackedNotDurable fixed lostAckEvsFixed = false ∧
    ((run fixed (init ⟨0, 0⟩) lostAckEvsFixed).map fun s => s.acked.length) = some 1 := by decide

example : ∃ s, Reachable fixed ⟨0, 0⟩ s ∧ s.acked ≠ [] := by
  have h : (run fixed (init ⟨0, 0⟩) lostAckEvsFixed).isSome = true := by decide
  obtain ⟨s, hs⟩ := Option.isSome_iff_exists.mp h
  refine ⟨s, reachable_run Reachable.init hs, ?_⟩
  have : ((run fixed (init ⟨0, 0⟩) lostAckEvsFixed).map fun s => s.acked.length) = some 1 := by decide
  rw [hs] at this
  intro hn; simp [hn] at this

end KafVerif.StorageLog
