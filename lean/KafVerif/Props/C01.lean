import KafVerif.Lemmas.StorageLog
import KafVerif.Lemmas.StorageLogS3
/-!
C01 — Acknowledged produce is durable in S3.

Statement (properties.jsonl): with synchronous flush-on-ack, when a produce request with acks ≠ 0
gets a success code for a partition, every record of that batch is already stored in an S3 segment
(with its index); also when other producers write to the same partition concurrently and when any
S3 upload fails; it also survives a broker restart.
Quantifier: every interleaving of concurrent produce/flush calls on one partition, every sequence
of S3 upload successes/failures (segment or index), every batch shape.

The theorems are about EVERY reachable state of the transition system `StorageLog.step fixed`
(any number of producer goroutines, any interleaving of their critical sections, any outcome of
every upload and of every UpdateOffsets call, crashes and restarts anywhere, any flush thresholds)
— by induction over the step relation with the invariant `Inv` of `Lemmas/StorageLog.lean`.
`acked` grows exactly where `handleProduce` answers error code 0 (`Flush` returned nil).
-/
namespace KafVerif.StorageLog

/-- **C01.** In every reachable state, every batch that was ever acknowledged is contained in an
S3 segment object whose index object is present. -/
theorem _root_.KafVerif.C01.ack_durable {cfg : Cfg} {s : State} (h : Reachable fixed cfg s)
    {b : Batch} (hb : b ∈ s.acked) : Durable s b := by
  obtain ⟨L, hc, _⟩ := core_of_inv (reachable_inv h)
  exact Comm_durable (hc.acked b hb)

/-- …and every one of its offsets is covered by that object (`b ∈ o` is the whole batch). -/
theorem _root_.KafVerif.C01.ack_offsets_durable {cfg : Cfg} {s : State} (h : Reachable fixed cfg s)
    {b : Batch} (hb : b ∈ s.acked) {o : Nat} (h1 : b.base ≤ o) (h2 : o < b.endOff) : DurableOff s o := by
  obtain ⟨k, obj, hs, hm, hi⟩ := KafVerif.C01.ack_durable h hb
  exact ⟨k, obj, b, hs, hi, hm, h1, h2⟩

/-- While the broker is up, the acknowledged batch is served by a *registered* segment covering its
base offset (so a fetch finds it without the write-buffer fallbacks). -/
theorem _root_.KafVerif.C01.ack_readable {cfg : Cfg} {s : State} {m : Mem} (h : Reachable fixed cfg s)
    (hm : s.mem = some m) {b : Batch} (hb : b ∈ s.acked) : Readable s m b := by
  have mi := memInv_of (reachable_inv h) hm
  exact mi.core.acked b hb

/-- The step that acknowledges: when `Flush` returns nil (`pub t _` of a thread inside `Flush`, any
outcome of the store update) the batch is durable in the resulting state — and, by `ack_durable`,
stays so. -/
theorem _root_.KafVerif.C01.ack_step_durable {cfg : Cfg} {s s' : State} {t : Nat} {ok : Bool} {b : Batch} {hh : Nat}
    (h : Reachable fixed cfg s) (hpc : s.pcs t = .pub false b hh) (hs : step fixed s (.pub t ok) = some s') :
    s'.pcs t = .acked b ∧ Durable s' b := by
  have hr : Reachable fixed cfg s' := Reachable.step _ h hs
  have hacked : s'.pcs t = .acked b ∧ b ∈ s'.acked := by
    simp only [step, hpc] at hs
    simp only [Bool.false_eq_true, if_false, Option.some.injEq] at hs
    subst hs
    simp
  exact ⟨hacked.1, KafVerif.C01.ack_durable hr hacked.2⟩

def ackedNotDurable (v : Variant) (evs : List Ev) : Bool :=
  match run v (init ⟨0, 0⟩) evs with
  | some s => s.acked.any fun b => !durableB s b
  | none => false

/-! ### `BuildSegment` as a step that may fail (the error exit of `prepareFlush` sits AFTER `Drain`) -/

/-- **`BuildSegment` is total on what `AppendBatch` accepts.**  The source's `BuildSegment` returns an error for an empty
batch list and for a batch with an empty payload (its writes into a `bytes.Buffer` do not fail); `prepareFlush` calls it
only with a non-empty list, and `AppendBatch` accepts a batch only when `PatchRecordBatchBaseOffset` can write its
first 8 bytes — whatever record count (negative, zero, huge) and lengths the header declares. -/
theorem _root_.KafVerif.C01.build_total_on_accepted (bs : List Batch) (hne : bs ≠ []) (hl : ∀ b ∈ bs, 8 ≤ b.len) :
    buildOk false bs = true :=
  buildOk_of_lens hne (fun b hb => Nat.le_trans (by decide) (hl b hb))

/-- …so in every reachable state of the code as it is, the `BuildSegment` call of the next `prepareFlush` succeeds, and
`prepareFlush` never takes the error exit that drops the drained batches. -/
theorem _root_.KafVerif.C01.build_never_fails_reachable {cfg : Cfg} {s : State} {m : Mem} (h : Reachable fixed cfg s)
    (hm : s.mem = some m) : (prepareFlush fixed s.fault m).2 ≠ .err := by
  have mi := memInv_of (reachable_inv h) hm
  rcases prepareFlush_cases fixed s.fault m with ⟨hp, _⟩ | ⟨_, b0, bs, _, _, hp⟩ | ⟨hf, b0, bs, hbuf, hbf, _⟩
  · rw [hp]; simp
  · rw [hp]; simp
  · have hinf := mi.infl hf
    have hcb : Contig (b0 :: bs) (segEnd m.segments) m.next := by
      have := mi.contig; rw [hinf, hbuf] at this; simpa using this
    have := requeue_of_buildFails sound_fixed (by simp) hcb hbf
    simp [fixed] at this

/-- **C01 for every sound shape.**  `ack_durable` with `BuildSegment` failing in ANY way — by a stricter input rule
(`strictBuild`) and by the fault oracle (event `buildFault`) — provided the error exit of `prepareFlush` re-queues
what it drained (`requeueBuild`); or with the source's rule and the source's error exit (`fixed`, by
`build_total_on_accepted`). -/
theorem _root_.KafVerif.C01.ack_durable_sound {v : Variant} (hv : Sound v) {cfg : Cfg} {s : State} (h : Reachable v cfg s)
    {b : Batch} (hb : b ∈ s.acked) : Durable s b := by
  obtain ⟨L, hc, _⟩ := core_of_inv (reachable_inv_of hv h)
  exact Comm_durable (hc.acked b hb)

/-- the hardening change: `BuildSegment` rejects a negative declared record count; `prepareFlush` unchanged -/
def hardened : Variant := { fixed with strictBuild := true }
/-- the same with the error exit re-queueing the drained batches, and the fault oracle enabled -/
def hardenedRequeue : Variant := { fixed with strictBuild := true, requeueBuild := true }

theorem sound_hardenedRequeue : Sound hardenedRequeue := ⟨rfl, rfl, rfl, Or.inr rfl⟩

/-- A appends an ordinary batch, B appends a batch whose header declares -1 records; B's Flush drains both, the build
fails, both are dropped; A's Flush finds an empty buffer, publishes and A is acknowledged. -/
def buildDropEvs : List Ev :=
  [.restore, .wf 0 1, .append 1 1 (-1) 72, .flush 1, .flush 0, .pub 0 true]

/-- **witness for the hardening change**: an acknowledged batch that is in no S3 segment. -/
theorem _root_.KafVerif.C01.strict_build_drops_violates : ackedNotDurable hardened buildDropEvs = true := by decide

/-- the same schedule: the code as it is stores both batches; the re-queueing shape acknowledges nobody (the poisoned
buffer fails every flush — safe, not live), also with the oracle failing a build of ordinary batches -/
theorem _root_.KafVerif.C01.strict_build_same_schedule :
    ackedNotDurable fixed (buildDropEvs.take 4 ++ [.seg 1 true, .idx 1 true, .finish 1, .pub 1 true, .flush 0, .pub 0 true]) = false ∧
    ((run fixed (init ⟨0, 0⟩) (buildDropEvs.take 4 ++ [.seg 1 true, .idx 1 true, .finish 1, .pub 1 true, .flush 0, .pub 0 true])).map
      fun s => s.acked.length) = some 2 ∧
    ((run hardenedRequeue (init ⟨0, 0⟩) (buildDropEvs.take 5)).map fun s => (s.acked.length, s.pcs 0, s.pcs 1)) =
      some (0, .failed ⟨0, 0, 1, 1, 72⟩, .failed ⟨1, 1, 1, -1, 72⟩) ∧
    ((run hardenedRequeue (init ⟨0, 0⟩) [.restore, .wf 0 1, .buildFault true, .flush 0, .buildFault false, .wf 1 2, .flush 1]).map
      fun s => (s.pcs 0, (s.mem.map (·.inflight.length)))) = some (.failed ⟨0, 0, 1, 1, 72⟩, some 2) := by decide

/-! ### non-vacuity: reachable states with acknowledged batches, failures and waiters exist -/

/-- B appends, A appends; A's Flush drains both and its index upload fails; B, waiting in Flush,
wakes up — pre-fix: finds nothing to flush and is acknowledged. -/
def lostAckEvs : List Ev :=
  [.restore, .wf 0 1, .wf 1 1, .flush 0, .flush 1, .seg 0 true, .idx 0 false, .finish 0,
   .wake 1, .readNext 1, .pub 1 true]

/-- the same schedule on the repaired code: the waiter re-uploads the re-queued batches -/
def lostAckEvsFixed : List Ev :=
  [.restore, .wf 0 1, .wf 1 1, .flush 0, .flush 1, .seg 0 true, .idx 0 false, .finish 0,
   .wake 1, .seg 1 true, .idx 1 true, .finish 1, .pub 1 true]

/-- **pre-fix witness**: an acknowledged batch that is in no S3 segment. -/
theorem _root_.KafVerif.C01.old_violates : ackedNotDurable old lostAckEvs = true := by decide

theorem _root_.KafVerif.C01.fixed_same_schedule :
    ackedNotDurable fixed lostAckEvsFixed = false ∧
    ((run fixed (init ⟨0, 0⟩) lostAckEvsFixed).map fun s => s.acked.length) = some 1 := by decide

example : ∃ s, Reachable fixed ⟨0, 0⟩ s ∧ s.acked ≠ [] := by
  have h : (run fixed (init ⟨0, 0⟩) lostAckEvsFixed).isSome = true := by decide
  obtain ⟨s, hs⟩ := Option.isSome_iff_exists.mp h
  refine ⟨s, reachable_run Reachable.init hs, ?_⟩
  have : ((run fixed (init ⟨0, 0⟩) lostAckEvsFixed).map fun s => s.acked.length) = some 1 := by decide
  rw [hs] at this
  intro hn; simp [hn] at this

end KafVerif.StorageLog

/-!
### Lower seam: the real S3 client (`awsS3Client`, pkg/storage/s3_aws.go)

The transition system above takes "`UploadSegment` / `UploadIndex` returned nil" (`seg t true`, `idx t true`) to mean
"the object is in S3".  For the AWS client that is a property of `putObject`'s retry wrapper (first PUT; on a
bucket-missing error `EnsureBucket` and one retry), proved here for EVERY outcome the S3 API can give to each
call (script of injected failures of any length, any endpoint state), under the API assumption that a PutObject
answering success has stored the request body (`apiPut`).
-/
namespace KafVerif.S3Aws
open KafVerif

/-- **C01 (S3 client).** For every endpoint state, every script of API outcomes, key and body: if `putObject`
(`UploadSegment` / `UploadIndex`) returns nil, the endpoint holds exactly `body` under `key`. -/
theorem _root_.KafVerif.C01.put_ok_implies_stored (s : St) (key : String) (body : Bytes)
    (h : (putObject s key body).2 = true) : lookup (putObject s key body).1.api.objs key = some body := by
  rw [(putObject_spec s key body).1 h]
  exact lookup_store_same _ _ _

/-- a failed upload leaves the old object (or none) or the new one, nothing else -/
theorem _root_.KafVerif.C01.put_err_keeps_or_stores (s : St) (key : String) (body : Bytes)
    (h : (putObject s key body).2 = false) :
    lookup (putObject s key body).1.api.objs key = lookup s.api.objs key ∨
    lookup (putObject s key body).1.api.objs key = some body := by
  rcases (putObject_spec s key body).2 h with e | e
  · left; rw [e]
  · right; rw [e]; exact lookup_store_same _ _ _

/-- an upload never touches another key -/
theorem _root_.KafVerif.C01.put_other_keys_untouched (s : St) (key k : String) (body : Bytes) (hk : k ≠ key) :
    lookup (putObject s key body).1.api.objs k = lookup s.api.objs k := by
  cases hr : (putObject s key body).2 with
  | true => rw [(putObject_spec s key body).1 hr]; exact lookup_store_other _ _ _ _ hk
  | false =>
    rcases (putObject_spec s key body).2 hr with e | e
    · rw [e]
    · rw [e]; exact lookup_store_other _ _ _ _ hk

/-- **Witness for the shadowed-error variant (seeded change C01-r2-2).** Bucket missing, first PUT answers
NoSuchBucket, `EnsureBucket` creates the bucket, the retried PUT is throttled: the rewritten `putObject` reports
success and the bucket holds no object; the real `putObject` reports the error. -/
theorem _root_.KafVerif.C01.put_shadow_violates :
    let s : St := { api := { bucket := false, objs := [] }, script := [.nat, .nat, .nat, .fail .slow] }
    (putObjectShadow s "k" [1]).2 = true ∧ lookup (putObjectShadow s "k" [1]).1.api.objs "k" = none ∧
    (putObject s "k" [1]).2 = false := by
  decide

/-- **C01 (S3 client, read side).** What `DownloadSegment` / `DownloadIndex` return without error is the stored
object (whole object when no range is given; a contiguous slice of it otherwise). -/
theorem _root_.KafVerif.C01.download_ok_is_stored (s : St) (key : String) (rng : Option (Int × Int)) (d : Bytes) :
    ((downloadSegment s key rng).2 = .data d →
      ∃ obj, lookup s.api.objs key = some obj ∧ (rng = none → d = obj) ∧ ∃ i n, d = (obj.drop i).take n) ∧
    ((downloadIndex s key).2 = .data d → lookup s.api.objs key = some d) := by
  constructor
  · intro h
    unfold downloadSegment at h
    cases hg : apiGet s key rng with
    | mk s' r =>
      rw [hg] at h
      cases r with
      | error e => simp at h
      | ok d' =>
        simp only [Ret.data.injEq] at h
        subst h
        exact apiGet_spec s key rng s' d' hg
  · intro h
    unfold downloadIndex at h
    cases hg : apiGet s key none with
    | mk s' r =>
      rw [hg] at h
      cases r with
      | error e => simp only at h; split at h <;> simp at h
      | ok d' =>
        simp only [Ret.data.injEq] at h
        subst h
        obtain ⟨obj, h1, h2, _⟩ := apiGet_spec s key none s' d' hg
        rw [h1, h2 rfl]

/-- `EnsureBucket` returning nil means the bucket exists afterwards (and no object changed) -/
theorem _root_.KafVerif.C01.ensure_ok_bucket_exists (s : St) (h : (ensureBucket s).2 = true) :
    (ensureBucket s).1.api.bucket = true ∧ (ensureBucket s).1.api.objs = s.api.objs :=
  ⟨(ensureBucket_spec s).2 h, (ensureBucket_spec s).1⟩

/-- **C01 (the two uploads of a flush).** `uploadFlush` acknowledges when BOTH uploads returned nil; then, whatever
the API answered to any call of either upload (scripts `sc1`, `sc2`, any endpoint state), the segment object AND the
index object are stored with their bytes. -/
theorem _root_.KafVerif.C01.flush_uploads_ok_implies_both_stored (a : Api) (sc1 sc2 : List Tok)
    (segKey idxKey : String) (segBody idxBody : Bytes) (hk : segKey ≠ idxKey) :
    let t1 := putObject { api := a, script := sc1 } segKey segBody
    let t2 := putObject { api := t1.1.api, script := sc2 } idxKey idxBody
    t1.2 = true → t2.2 = true →
    lookup t2.1.api.objs segKey = some segBody ∧ lookup t2.1.api.objs idxKey = some idxBody := by
  intro t1 t2 h1 h2
  refine ⟨?_, KafVerif.C01.put_ok_implies_stored _ _ _ h2⟩
  rw [KafVerif.C01.put_other_keys_untouched _ idxKey segKey idxBody hk]
  exact KafVerif.C01.put_ok_implies_stored _ _ _ h1

/-- non-vacuity: a run in which the retry succeeds (nil, stored) and one in which the first PUT succeeds -/
example : (putObject { api := { bucket := false, objs := [] }, script := [] } "k" [7]).2 = true ∧
    (putObject { api := { bucket := true, objs := [("k", [1])] }, script := [.fail .nsb, .fail .nf, .fail .owned] } "k" [7]).2 = true ∧
    lookup (putObject { api := { bucket := true, objs := [("k", [1])] }, script := [.fail .slow] } "k" [7]).1.api.objs "k" = some [1] := by
  decide

end KafVerif.S3Aws
