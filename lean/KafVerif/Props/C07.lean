import KafVerif.Lemmas.Kafka
/-!
C07 — Segment files written by the broker decode identically everywhere.

Statement (properties.jsonl): every segment and index the broker writes has a valid header, an
end-offset footer and a CRC over the body; its index entries point at batch starts in increasing
offset order; the record decoders of the Iceberg, SQL and skeleton processors and the
point-in-time-restore scanner all recover exactly the records the producers sent (offsets,
timestamps, keys, values, headers).  Quantifier: every sequence of well-formed record batches.

What is proved (for ALL batches / records / byte strings in the stated ranges; no size bound):

* format: `beDec_beEnc`, `varint64_roundtrip`, `varint32_sql_roundtrip`;
* (b) records: `decodeRecord_encRec_iceberg`, `decodeRecord_encRec_sql`, `scanRecord_encRec`,
  `decodeRecords_encRecs`, `decodeBatchRecords_encBatch`, and the end-to-end
  `decodeSegment_buildSegment` (iceberg and fixed sql decoder on the segment `BuildSegment`
  produces from the batches);
* (a) segment: `buildSegment_wf` (header, body, CRC footer, last offset; header/footer parse back),
  `index_entries_sound` (first entry (base, 32); every entry is the start of a batch with that base
  offset, in order; strictly increasing), `parseIndex_indexBytes`, `parseFooter_segment`;
* findings: `sql_varint32_loses_timestamp` / `sqlOld_loses_timestamp` (the sql decoder before fix C07),
  `skeleton_recovers_nothing` (the skeleton decoder is a placeholder).

Ranges (hypotheses): uncompressed batches (`attrs % 8 = 0`); key/value/header lengths, header
count, record length and offset delta below 2^30 (`Rec.Wf`); timestamps any int64; segment body
shorter than 2^31 bytes; the checksum `crc` is arbitrary.
-/
set_option linter.unusedSimpArgs false
set_option linter.unusedVariables false
namespace KafVerif.Kafka


/-- an allocator that grants every non-negative request of at most `L` bytes
(`goMakeLim lim` for `lim ≥ L`, and `mkOk`) -/
def Adm (mk : Alloc) (L : Nat) : Prop := ∀ (n : Int) (e : Nat), 0 ≤ n → n.toNat * e ≤ L → mk n e = .ok ()

theorem adm_goMakeLim {lim L : Nat} (h : L ≤ lim) : Adm (goMakeLim lim) L := by
  intro n e h0 h1
  unfold goMakeLim
  have h2 : ¬ n < 0 := by omega
  have h3 : ¬ n.toNat * e > lim := by omega
  simp [h2, h3]

theorem adm_mkOk (L : Nat) : Adm mkOk L := fun _ _ _ _ => rfl

theorem adm_mono {mk : Alloc} {L L' : Nat} (h : Adm mk L) (hle : L' ≤ L) : Adm mk L' :=
  fun n e h0 h1 => h n e h0 (by omega)

/-- what a decoder variant must get right on well-formed input: its varint readers invert the
encoder on the ranges that occur -/
structure Cfg.Reads (c : Cfg) : Prop where
  int : ∀ (v : Int) (rest : Bytes), -(2:Int) ^ 30 ≤ v → v < 2 ^ 30 → c.rdInt (varint v ++ rest) = some (v, rest)
  ts : ∀ (v : Int) (rest : Bytes), InI64 v → c.rdTs (varint v ++ rest) = some (v, rest)

theorem cfgIceberg_reads : cfgIceberg.Reads :=
  ⟨fun _ rest h1 h2 => readVarint64_varint (by unfold InI64; omega) rest,
   fun _ rest h => readVarint64_varint h rest⟩

theorem cfgSql_reads : cfgSql.Reads :=
  ⟨fun _ rest h1 h2 => readVarint32Sql_varint ⟨h1, h2⟩ rest,
   fun _ rest h => readVarint64_varint h rest⟩

/-- size limits of a well-formed record: every length and the offset delta below 2^30 -/
def optLen : Option Bytes → Int
  | none => -1
  | some b => b.length

def optData : Option Bytes → Bytes
  | none => []
  | some b => b

theorem encOptBytes_eq (o : Option Bytes) : encOptBytes o = varint (optLen o) ++ optData o := by
  cases o <;> simp [encOptBytes, optLen, optData]

def Hdr.Wf (h : Hdr) : Prop := h.key.length < 2 ^ 30 ∧ (optData h.val).length < 2 ^ 30

def Rec.Wf (r : Rec) : Prop :=
  InI64 r.tsDelta ∧ (-(2:Int) ^ 30 ≤ r.offDelta ∧ r.offDelta < 2 ^ 30) ∧
  (optData r.key).length < 2 ^ 30 ∧ (optData r.val).length < 2 ^ 30 ∧
  r.hdrs.length < 2 ^ 30 ∧ (∀ h ∈ r.hdrs, h.Wf) ∧ (recBody r).length < 2 ^ 30

def toDRec (base firstTs : Int) (r : Rec) : DRec :=
  ⟨wrap64 (base + r.offDelta), wrap64 (firstTs + r.tsDelta), r.key, r.val, r.hdrs⟩

variable {mk : Alloc} {c : Cfg} {L : Nat}

theorem readNullable_enc (hg : c.guard = true) (hmk : Adm mk L) (o : Option Bytes) (rest : Bytes)
    (hL : (optData o).length ≤ L) :
    readNullable mk c (optLen o) (optData o ++ rest) = .ok (o, rest) := by
  unfold readNullable
  cases o with
  | none => simp [optLen, optData]
  | some b =>
    simp only [optLen, optData] at *
    by_cases hb : b.length = 0
    · have : b = [] := List.length_eq_zero_iff.mp hb
      subst this; simp
    · have h1 : ¬ ((b.length : Int) < 0) := by omega
      have h2 : ¬ ((b.length : Int) = 0) := by omega
      have h3 : ¬ ((b.length : Int) > ((b ++ rest).length : Int)) := by simp; omega
      have h4 : mk (b.length : Int) 1 = .ok () := hmk _ _ (by omega) (by simp; omega)
      simp only [h1, h2, h3, hg, if_false, decide_false, Bool.and_false, Bool.false_eq_true, h4, bind_ok,
        Int.toNat_natCast, readN_append, ofOpt_some]

theorem varint_length_pos (v : Int) : 0 < (varint v).length := by
  unfold varint uvarint uvarintF
  split <;> simp

theorem readHeader_enc (hg : c.guard = true) (hr : c.Reads) (hmk : Adm mk L) (h : Hdr) (hw : h.Wf) (rest : Bytes)
    (hL : (encHdr h).length ≤ L) :
    readHeader mk c (encHdr h ++ rest) = .ok (h, rest) := by
  unfold readHeader encHdr
  obtain ⟨hk, hv⟩ := hw
  rw [encOptBytes_eq]
  simp only [List.append_assoc]
  rw [hr.int _ _ (by omega) (by omega)]
  simp only [ofOpt_some, bind_ok]
  have hlen : (encHdr h).length = (varint h.key.length).length + h.key.length +
      ((varint (optLen h.val)).length + (optData h.val).length) := by
    simp [encHdr, encOptBytes_eq, Nat.add_assoc]
  have : readNullable mk c (h.key.length : Int) (h.key ++ (varint (optLen h.val) ++ (optData h.val ++ rest))) =
      .ok (some h.key, varint (optLen h.val) ++ (optData h.val ++ rest)) :=
    readNullable_enc (mk := mk) (c := c) (L := L) hg hmk (some h.key)
      (varint (optLen h.val) ++ (optData h.val ++ rest)) (by simp [optData]; omega)
  rw [this]
  simp only [bind_ok]
  have hvl : -(2:Int) ^ 30 ≤ optLen h.val ∧ optLen h.val < 2 ^ 30 := by
    cases hval : h.val with
    | none => simp [optLen]
    | some b => simp only [optLen, hval, optData] at *; omega
  rw [hr.int _ _ hvl.1 hvl.2]
  simp only [ofOpt_some, bind_ok]
  rw [readNullable_enc hg hmk h.val rest (by omega)]
  simp


theorem encHdr_length_ge (h : Hdr) : 2 ≤ (encHdr h).length := by
  have h1 := varint_length_pos h.key.length
  have h2 := varint_length_pos (optLen h.val)
  simp only [encHdr, encOptBytes_eq, List.length_append]
  omega

theorem encHdrs_length_ge (hs : List Hdr) : 2 * hs.length ≤ (encHdrs hs).length := by
  induction hs with
  | nil => simp [encHdrs]
  | cons h t ih =>
    have := encHdr_length_ge h
    simp only [encHdrs, List.length_append, List.length_cons]; omega

/-- the header-count check (`headerCount > buf.Len()`) admits every record, even tightened to `len/2` -/
theorem header_count_check_admits (hs : List Hdr) (d : Nat) (hd : 1 ≤ d) (hd2 : d ≤ 2) :
    ¬ ((hs.length : Int) > (((encHdrs hs).length / d : Nat) : Int)) := by
  have h2 := encHdrs_length_ge hs
  have : hs.length ≤ (encHdrs hs).length / d := by
    rw [Nat.le_div_iff_mul_le (by omega)]
    calc hs.length * d ≤ hs.length * 2 := Nat.mul_le_mul_left _ hd2
      _ ≤ (encHdrs hs).length := by omega
  omega

theorem readHeaders_enc (hg : c.guard = true) (hr : c.Reads) (hmk : Adm mk L) (hs : List Hdr)
    (hw : ∀ h ∈ hs, h.Wf) (rest : Bytes) (hL : (encHdrs hs).length ≤ L) :
    readHeaders mk c hs.length (encHdrs hs ++ rest) = .ok hs := by
  induction hs with
  | nil => simp [readHeaders]
  | cons h t ih =>
    simp only [encHdrs, List.length_append] at hL
    simp only [List.length_cons, readHeaders, encHdrs, List.append_assoc]
    rw [readHeader_enc hg hr hmk h (hw h (by simp)) _ (by omega)]
    simp only [bind_ok]
    rw [ih (fun x hx => hw x (by simp [hx])) (by omega)]
    simp

theorem decodeRecordBody_enc (hg : c.guard = true) (hr : c.Reads) (hmk : Adm mk L) (base firstTs : Int) (r : Rec)
    (hw : r.Wf) (hL : hdrSize * (recBody r).length ≤ L) :
    decodeRecordBody mk c base firstTs (recBody r) = .ok (toDRec base firstTs r) := by
  have hhs : hdrSize = 40 := rfl
  obtain ⟨hts, hod, hkl, hvl, hhl, hhw, hbl⟩ := hw
  have hlen : (recBody r).length = 1 + ((varint r.tsDelta).length + ((varint r.offDelta).length +
      (((varint (optLen r.key)).length + (optData r.key).length) + (((varint (optLen r.val)).length + (optData r.val).length) +
        ((varint r.hdrs.length).length + (encHdrs r.hdrs).length))))) := by
    simp [recBody, encOptBytes_eq]; omega
  rw [hhs] at hL
  unfold decodeRecordBody recBody
  simp only [encOptBytes_eq, List.append_assoc]
  rw [hr.ts _ _ hts]
  simp only [ofOpt_some, bind_ok]
  rw [hr.int _ _ hod.1 hod.2]
  simp only [ofOpt_some, bind_ok]
  have hk : -(2:Int) ^ 30 ≤ optLen r.key ∧ optLen r.key < 2 ^ 30 := by
    cases hkey : r.key with
    | none => simp [optLen]
    | some b => simp only [optLen, hkey, optData] at *; omega
  have hv : -(2:Int) ^ 30 ≤ optLen r.val ∧ optLen r.val < 2 ^ 30 := by
    cases hval : r.val with
    | none => simp [optLen]
    | some b => simp only [optLen, hval, optData] at *; omega
  rw [hr.int _ _ hk.1 hk.2]
  simp only [ofOpt_some, bind_ok]
  rw [readNullable_enc hg hmk r.key _ (by omega)]
  simp only [bind_ok]
  rw [hr.int _ _ hv.1 hv.2]
  simp only [ofOpt_some, bind_ok]
  rw [readNullable_enc hg hmk r.val _ (by omega)]
  simp only [bind_ok]
  rw [hr.int _ _ (by omega) (by omega)]
  simp only [ofOpt_some, bind_ok, hg, Bool.true_and]
  have hge := encHdrs_length_ge r.hdrs
  have h1 : ¬ ((r.hdrs.length : Int) < 0) := by omega
  have h2 : ¬ ((r.hdrs.length : Int) > ((encHdrs r.hdrs).length : Int)) := by
    have := header_count_check_admits r.hdrs 1 (Nat.le_refl _) (by decide)
    simpa using this
  have h3 : mk (r.hdrs.length : Int) hdrSize = .ok () := hmk _ _ (by omega) (by rw [hhs]; simp; omega)
  simp only [h1, h2, decide_false, Bool.or_false, Bool.false_eq_true, if_false, h3, bind_ok, Int.toNat_natCast]
  have := readHeaders_enc hg hr hmk r.hdrs hhw [] (by omega)
  rw [List.append_nil] at this
  rw [this]
  simp [toDRec]


theorem decodeRecord_enc (hg : c.guard = true) (hr : c.Reads) (hmk : Adm mk L) (base firstTs : Int) (r : Rec)
    (hw : r.Wf) (rest : Bytes) (hL : hdrSize * (recBody r).length ≤ L) :
    decodeRecord mk c base firstTs (encRec r ++ rest) = .ok (toDRec base firstTs r, rest) := by
  have hhs : hdrSize = 40 := rfl
  have hbl := hw.2.2.2.2.2.2
  unfold decodeRecord encRec
  simp only [List.append_assoc]
  rw [hr.int _ _ (by omega) (by omega)]
  simp only [ofOpt_some, bind_ok, hg, Bool.true_and]
  have h1 : ¬ (((recBody r).length : Int) < 0) := by omega
  have h2 : ¬ (((recBody r).length : Int) > ((recBody r ++ rest).length : Int)) := by simp; omega
  have h3 : mk ((recBody r).length : Int) 1 = .ok () := hmk _ _ (by omega) (by rw [hhs] at hL; simp; omega)
  simp only [h1, h2, if_false, decide_false, Bool.false_eq_true, h3, bind_ok, Int.toNat_natCast, readN_append, ofOpt_some]
  rw [decodeRecordBody_enc hg hr hmk base firstTs r hw hL]
  simp

theorem encRec_length_pos (r : Rec) : 0 < (encRec r).length := by
  have := varint_length_pos ((recBody r).length : Int)
  simp only [encRec, List.length_append]; omega

theorem encRecs_length_ge (rs : List Rec) : rs.length ≤ (encRecs rs).length := by
  induction rs with
  | nil => simp [encRecs]
  | cons r t ih =>
    have := encRec_length_pos r
    simp only [encRecs, List.length_append, List.length_cons]; omega

theorem recBody_le_encRec (r : Rec) : (recBody r).length ≤ (encRec r).length := by
  simp [encRec]

/-! ### the sanity checks in front of the allocations never reject well-formed input

`decodeBatchRecords` refuses a batch when `recordCount > len(recordsData)` and `decodeRecord` a record
when `headerCount > buf.Len()` (fix C34).  Every encoded record is at least 7 bytes long (length
varint, attributes, timestamp delta, offset delta, key length, value length, header count) and every
encoded header at least 2, so these bounds — and any tighter bound down to `len/7` resp. `len/2` —
admit every well-formed batch; 7 is attained, so `len/8` would already reject valid batches. -/

theorem encOptBytes_length_pos (o : Option Bytes) : 0 < (encOptBytes o).length := by
  rw [encOptBytes_eq]
  have := varint_length_pos (optLen o)
  simp only [List.length_append]; omega

theorem recBody_length_ge_six (r : Rec) : 6 ≤ (recBody r).length := by
  have h1 := varint_length_pos r.tsDelta
  have h2 := varint_length_pos r.offDelta
  have h3 := encOptBytes_length_pos r.key
  have h4 := encOptBytes_length_pos r.val
  have h5 := varint_length_pos (r.hdrs.length : Int)
  simp only [recBody, List.length_cons, List.length_append]
  omega

theorem encRec_length_ge_seven (r : Rec) : 7 ≤ (encRec r).length := by
  have h1 := varint_length_pos ((recBody r).length : Int)
  have h2 := recBody_length_ge_six r
  simp only [encRec, List.length_append]; omega

theorem encRecs_length_ge_seven (rs : List Rec) : 7 * rs.length ≤ (encRecs rs).length := by
  induction rs with
  | nil => simp [encRecs]
  | cons r t ih =>
    have := encRec_length_ge_seven r
    simp only [encRecs, List.length_append, List.length_cons]; omega

/-- the smallest record: null key, null value, no headers, zero deltas — 7 bytes -/
def minRec : Rec := ⟨0, 0, 0, none, none, []⟩

theorem minRec_length : (encRec minRec).length = 7 := by decide

theorem encRecs_replicate_minRec (n : Nat) : (encRecs (List.replicate n minRec)).length = 7 * n := by
  induction n with
  | zero => rfl
  | succ n ih => simp only [List.replicate_succ, encRecs, List.length_append, ih, minRec_length]; omega

/-- **The record-count check admits every well-formed batch**: for the code's bound
(`recordCount > len(recordsData)`, divisor 1) and for any tighter divisor up to 7. -/
theorem count_check_admits (rs : List Rec) (d : Nat) (hd : 1 ≤ d) (hd7 : d ≤ 7) :
    ¬ ((rs.length : Int) > (((encRecs rs).length / d : Nat) : Int)) := by
  have h7 := encRecs_length_ge_seven rs
  have : rs.length ≤ (encRecs rs).length / d := by
    rw [Nat.le_div_iff_mul_le (by omega)]
    calc rs.length * d ≤ rs.length * 7 := Nat.mul_le_mul_left _ hd7
      _ ≤ (encRecs rs).length := by omega
  omega

theorem decodeRecords_enc (hg : c.guard = true) (hr : c.Reads) (hmk : Adm mk L) (base firstTs : Int) (rs : List Rec)
    (hw : ∀ r ∈ rs, r.Wf) (rest : Bytes) (hL : hdrSize * (encRecs rs).length ≤ L) :
    decodeRecords mk c base firstTs rs.length (encRecs rs ++ rest) = .ok (rs.map (toDRec base firstTs)) := by
  have hhs : hdrSize = 40 := rfl
  induction rs with
  | nil => simp [decodeRecords]
  | cons r t ih =>
    simp only [encRecs, List.length_append] at hL
    have := recBody_le_encRec r
    rw [hhs] at hL
    simp only [List.length_cons, decodeRecords, encRecs, List.append_assoc]
    rw [decodeRecord_enc hg hr hmk base firstTs r (hw r (by simp)) _ (by rw [hhs]; omega)]
    simp only [bind_ok]
    rw [ih (fun x hx => hw x (by simp [hx])) (by rw [hhs]; omega)]
    simp

/-- PITR `scanRecord` on an encoded record: the (timestamp delta, offset delta) projection -/
theorem scanRecord_enc (hmk : Adm mk L) (r : Rec) (hw : r.Wf) (rest : Bytes) (hL : (recBody r).length ≤ L) :
    scanRecord mk (encRec r ++ rest) = .ok ((r.tsDelta, r.offDelta), rest) := by
  obtain ⟨hts, hod, hkl, hvl, hhl, hhw, hbl⟩ := hw
  unfold scanRecord encRec
  simp only [List.append_assoc]
  rw [readVarint64_varint (by unfold InI64; omega)]
  simp only [ofOpt_some, bind_ok]
  have h1 : ¬ (((recBody r).length : Int) < 0) := by omega
  have h2 : ¬ (((recBody r).length : Int) > ((recBody r ++ rest).length : Int)) := by simp; omega
  have h3 : mk ((recBody r).length : Int) 1 = .ok () := hmk _ _ (by omega) (by simp; omega)
  simp only [h1, h2, if_false, h3, bind_ok, Int.toNat_natCast, readN_append, ofOpt_some]
  unfold recBody
  simp only
  rw [readVarint64_varint hts]
  simp only [ofOpt_some, bind_ok]
  rw [readVarint64_varint (by unfold InI64; omega)]
  simp only [ofOpt_some, bind_ok]
  rw [wrap32_of_in (by unfold InI32; omega)]


/-- a well-formed uncompressed batch -/
def Batch.Wf (b : Batch) : Prop :=
  InI64 b.base ∧ InI64 b.firstTs ∧ InI16 b.attrs ∧ b.attrs % 8 = 0 ∧ b.recs.length < 2 ^ 31 ∧ ∀ r ∈ b.recs, r.Wf

theorem encBatch_length (crc : Bytes → Nat) (b : Batch) : (encBatch crc b).length = 61 + (encRecs b.recs).length := by
  simp [encBatch, batchTail]; omega

def recordsOf (b : Batch) : List DRec := b.recs.map (toDRec b.base b.firstTs)

theorem decodeBatchRecords_enc (hg : c.guard = true) (hc0 : c.cnt32 = 0) (hr : c.Reads) (hmk : Adm mk L) (crc : Bytes → Nat) (b : Batch)
    (hw : b.Wf) (hL : recSize * (encBatch crc b).length ≤ L) :
    decodeBatchRecords mk c (encBatch crc b) = .ok (recordsOf b) := by
  have hrs : recSize = 112 := rfl
  have hhs : hdrSize = 40 := rfl
  obtain ⟨hbase, hfts, hat, hat8, hcnt, hrw⟩ := hw
  have hlen := encBatch_length crc b
  have hge := encRecs_length_ge b.recs
  rw [hrs] at hL
  unfold decodeBatchRecords
  have h61 : ¬ (encBatch crc b).length < 61 := by omega
  simp only [h61, if_false]
  rw [goSlice_ok (b := encBatch crc b) (i := 21) (j := 23) (by omega) (by omega) (by omega)]
  have e1 : ((encBatch crc b).drop (21 : Int).toNat).take ((23 : Int) - 21).toNat = i16be b.attrs := by
    simp [encBatch, batchTail, drop_append_ge, take_append_len]
  rw [e1]
  simp only [bind_ok, i16_roundtrip hat, hat8, ne_eq, not_true_eq_false, if_false]
  rw [goSlice_ok (b := encBatch crc b) (i := 0) (j := 8) (by omega) (by omega) (by omega),
      goSlice_ok (b := encBatch crc b) (i := 27) (j := 35) (by omega) (by omega) (by omega),
      goSlice_ok (b := encBatch crc b) (i := 57) (j := 61) (by omega) (by omega) (by omega)]
  have e2 : ((encBatch crc b).drop (0 : Int).toNat).take ((8 : Int) - 0).toNat = i64be b.base := by
    simp [encBatch, take_append_len]
  have e3 : ((encBatch crc b).drop (27 : Int).toNat).take ((35 : Int) - 27).toNat = i64be b.firstTs := by
    simp [encBatch, batchTail, drop_append_ge, take_append_len]
  have e4 : ((encBatch crc b).drop (57 : Int).toNat).take ((61 : Int) - 57).toNat = i32be b.recs.length := by
    simp [encBatch, batchTail, drop_append_ge, take_append_len]
  have hc32 : InI32 (b.recs.length : Int) := by unfold InI32; omega
  simp only [bind_ok, e2, e3, e4, i64_roundtrip hbase, i64_roundtrip hfts, i32_roundtrip hc32]
  by_cases hz : b.recs.length = 0
  · have : b.recs = [] := List.length_eq_zero_iff.mp hz
    simp [hz, recordsOf, this]
  · have hpos : ¬ ((b.recs.length : Int) ≤ 0) := by omega
    simp only [hpos, if_false]
    rw [goSlice_ok (b := encBatch crc b) (i := 61) (j := ((encBatch crc b).length : Int)) (by omega) (by omega) (by omega)]
    have e5 : ((encBatch crc b).drop (61 : Int).toNat).take (((encBatch crc b).length : Int) - 61).toNat = encRecs b.recs := by
      have : (((encBatch crc b).length : Int) - 61).toNat = (encRecs b.recs).length := by omega
      rw [this]
      simp [encBatch, batchTail, drop_append_ge]
    simp only [bind_ok, e5, hg, Bool.true_and, countExceeds_std hc0 hc32]
    -- the count sanity check must let the batch through: `count_check_admits` with the code's divisor 1
    have hgd : ¬ ((b.recs.length : Int) > ((encRecs b.recs).length : Int)) := by
      have := count_check_admits b.recs 1 (Nat.le_refl _) (by decide)
      simpa using this
    have hmk' : mk (b.recs.length : Int) recSize = .ok () := hmk _ _ (by omega) (by rw [hrs]; simp; omega)
    simp only [hgd, decide_false, Bool.false_eq_true, if_false, hmk', bind_ok, Int.toNat_natCast]
    have := decodeRecords_enc hg hr hmk b.base b.firstTs b.recs hrw [] (by rw [hhs]; omega)
    rw [List.append_nil] at this
    rw [this]; rfl


def encBatches (crc : Bytes → Nat) : List Batch → Bytes
  | [] => []
  | b :: t => encBatch crc b ++ encBatches crc t

theorem encBatches_length_ge (crc : Bytes → Nat) (bs : List Batch) : 61 * bs.length ≤ (encBatches crc bs).length := by
  induction bs with
  | nil => simp [encBatches]
  | cons b t ih =>
    have := encBatch_length crc b
    simp only [encBatches, List.length_append, List.length_cons]; omega

theorem decodeBatches_enc (hg : c.guard = true) (hc0 : c.cnt32 = 0) (hr : c.Reads) (hmk : Adm mk L) (crc : Bytes → Nat) (bs : List Batch)
    (hw : ∀ b ∈ bs, b.Wf) : ∀ (fuel : Nat), bs.length < fuel → (encBatches crc bs).length < 2 ^ 31 →
    recSize * (encBatches crc bs).length ≤ L →
    decodeBatches mk c fuel (encBatches crc bs) = .ok (bs.flatMap recordsOf) := by
  have hrs : recSize = 112 := rfl
  induction bs with
  | nil =>
    intro fuel hf _ _
    cases fuel with
    | zero => omega
    | succ f => simp [decodeBatches, encBatches]
  | cons b t ih =>
    intro fuel hf hsz hL
    cases fuel with
    | zero => omega
    | succ f =>
      have hlen := encBatch_length crc b
      simp only [encBatches, List.length_append] at hsz hL
      rw [hrs] at hL
      simp only [encBatches, decodeBatches, List.length_append]
      have h12 : ¬ ((encBatch crc b).length + (encBatches crc t).length < 12) := by omega
      simp only [h12, if_false]
      rw [goSlice_ok (i := 8) (j := 12) (by omega) (by omega) (by simp; omega)]
      have e1 : ((encBatch crc b ++ encBatches crc t).drop (8 : Int).toNat).take ((12 : Int) - 8).toNat =
          u32be ((batchTail b).length + 9) := by
        simp [encBatch, drop_append_ge, take_append_len]
      have hbl : (batchTail b).length + 9 + 12 = (encBatch crc b).length := by
        simp [encBatch]; omega
      rw [e1]
      simp only [bind_ok]
      rw [u32_roundtrip (by omega)]
      have hnz : ¬ ((batchTail b).length + 9 = 0) := by omega
      have hfl : ¬ (12 + ((batchTail b).length + 9) > (encBatch crc b).length + (encBatches crc t).length) := by omega
      simp only [hnz, hfl, if_false]
      rw [goSlice_ok (i := 0) (j := ((12 + ((batchTail b).length + 9) : Nat) : Int)) (by omega) (by omega) (by simp; omega)]
      have e2 : ((encBatch crc b ++ encBatches crc t).drop (0 : Int).toNat).take
          ((((12 + ((batchTail b).length + 9) : Nat) : Int)) - 0).toNat = encBatch crc b := by
        have : ((((12 + ((batchTail b).length + 9) : Nat) : Int)) - 0).toNat = (encBatch crc b).length := by omega
        rw [this]; simp
      rw [e2]
      simp only [bind_ok]
      rw [decodeBatchRecords_enc hg hc0 hr hmk crc b (hw b (by simp)) (by rw [hrs]; omega)]
      simp only [bind_ok]
      have e3 : (encBatch crc b ++ encBatches crc t).drop (12 + ((batchTail b).length + 9)) = encBatches crc t := by
        have : 12 + ((batchTail b).length + 9) = (encBatch crc b).length := by omega
        rw [this]; simp
      rw [e3, ih (fun x hx => hw x (by simp [hx])) f (by simp at hf; omega) (by omega) (by rw [hrs]; omega)]
      simp


/-! ### BuildSegment -/

/-- the storage.RecordBatch the broker derives from a client batch (`NewRecordBatchFromBytes`) -/
def mkSB (crc : Bytes → Nat) (b : Batch) : SBatch := ⟨b.base, b.lastOffsetDelta, b.recs.length, encBatch crc b⟩

theorem newRecordBatch_enc (crc : Bytes → Nat) (b : Batch) (hb : InI64 b.base) (hl : InI32 b.lastOffsetDelta)
    (hc : b.recs.length < 2 ^ 31) : newRecordBatch (encBatch crc b) = some (mkSB crc b) := by
  have hlen := encBatch_length crc b
  unfold newRecordBatch
  have h61 : ¬ (encBatch crc b).length < 61 := by omega
  simp only [h61, if_false, sl]
  have e1 : ((encBatch crc b).drop 0).take (8 - 0) = i64be b.base := by simp [encBatch, take_append_len]
  have e2 : ((encBatch crc b).drop 23).take (27 - 23) = i32be b.lastOffsetDelta := by
    simp [encBatch, batchTail, drop_append_ge, take_append_len]
  have e3 : ((encBatch crc b).drop 57).take (61 - 57) = i32be b.recs.length := by
    simp [encBatch, batchTail, drop_append_ge, take_append_len]
  rw [e1, e2, e3, i64_roundtrip hb, i32_roundtrip hl, i32_roundtrip (by unfold InI32; omega)]
  rfl

def bodyOf : List SBatch → Bytes
  | [] => []
  | b :: t => b.bytes ++ bodyOf t

theorem buildLoop_body : ∀ (sbs : List SBatch) (st : BuildSt), (∀ b ∈ sbs, b.bytes ≠ []) →
    ∃ st', buildLoop st sbs = some st' ∧ st'.body = st.body ++ bodyOf sbs := by
  intro sbs
  induction sbs with
  | nil => intro st _; exact ⟨st, rfl, by simp [bodyOf]⟩
  | cons b t ih =>
    intro st hne
    have hb : b.bytes.isEmpty = false := by
      have := hne b (by simp)
      cases hbb : b.bytes with
      | nil => exact absurd hbb this
      | cons _ _ => rfl
    simp only [buildLoop, hb, Bool.false_eq_true, if_false]
    obtain ⟨st', h1, h2⟩ := ih ⟨st.body ++ b.bytes, maybeAdd st.idx b.base (wrap32 (32 + st.body.length)) b.msgCount,
      wrap32 (st.total + b.msgCount)⟩ (fun x hx => hne x (by simp [hx]))
    exact ⟨st', h1, by rw [h2]; simp [bodyOf]⟩

theorem bodyOf_mkSB (crc : Bytes → Nat) (bs : List Batch) : bodyOf (bs.map (mkSB crc)) = encBatches crc bs := by
  induction bs with
  | nil => rfl
  | cons b t ih => simp [bodyOf, encBatches, mkSB, ih]

@[simp] theorem segHeader_length (a b c : Int) : (segHeader a b c).length = 32 := by
  simp [segHeader, segMagic]
@[simp] theorem segFooter_length (a : Nat) (b : Int) : (segFooter a b).length = 16 := by
  simp [segFooter, footMagic]

theorem buildSegment_seg (crc : Bytes → Nat) (interval : Int) (sbs : List SBatch) (created : Int)
    (hne : sbs ≠ []) (hb : ∀ b ∈ sbs, b.bytes ≠ []) :
    ∃ a, buildSegment crc interval sbs created = some a ∧
      ∃ hdr foot, hdr.length = 32 ∧ foot.length = 16 ∧ hdr.take 4 = segMagic ∧ a.seg = hdr ++ (bodyOf sbs ++ foot) := by
  unfold buildSegment
  cases sbs with
  | nil => exact absurd rfl hne
  | cons b0 t =>
    simp only
    cases hl : (b0 :: t).getLast? with
    | none => simp at hl
    | some bl =>
      simp only
      obtain ⟨st', h1, h2⟩ := buildLoop_body (b0 :: t) ⟨[], newIdx interval, 0⟩ hb
      rw [h1]
      simp only [List.nil_append] at h2
      refine ⟨_, rfl, segHeader b0.base st'.total created, segFooter (crc st'.body) (wrap64 (bl.base + bl.lastOffsetDelta)),
        by simp, by simp, by simp [segHeader, segMagic], ?_⟩
      simp only [h2]

/-- **C07 (b), segment level.** Whatever well-formed batches the producers sent, the segment the
broker builds from them decodes — with the iceberg decoder and with the (fixed) sql decoder,
under any allocator that grants 112 bytes per segment byte — to exactly the records sent:
offsets, timestamps, keys, values (null ≠ empty) and headers. -/
theorem decodeSegment_buildSegment_gen (hg : c.guard = true) (hc0 : c.cnt32 = 0) (hr : c.Reads) (crc : Bytes → Nat) (interval created : Int)
    (bs : List Batch) (hne : bs ≠ []) (hw : ∀ b ∈ bs, b.Wf) (hsz : (encBatches crc bs).length < 2 ^ 31)
    (hmk : Adm mk (recSize * ((encBatches crc bs).length + 48))) :
    ∃ a, buildSegment crc interval (bs.map (mkSB crc)) created = some a ∧
      decodeSegment mk c a.seg = .ok (bs.flatMap recordsOf) := by
  have hrs : recSize = 112 := rfl
  have hbne : ∀ b ∈ bs.map (mkSB crc), b.bytes ≠ [] := by
    intro b hb
    simp only [List.mem_map] at hb
    obtain ⟨x, _, rfl⟩ := hb
    have := encBatch_length crc x
    intro h
    have h' : encBatch crc x = [] := h
    rw [h'] at this; simp at this; omega
  obtain ⟨a, ha, hdr, foot, hh, hf, hm, hseg⟩ := buildSegment_seg crc interval (bs.map (mkSB crc)) created (by simpa using hne) hbne
  refine ⟨a, ha, ?_⟩
  rw [bodyOf_mkSB] at hseg
  have hlen : a.seg.length = 32 + ((encBatches crc bs).length + 16) := by simp [hseg, hh, hf]
  unfold decodeSegment
  have h48 : ¬ a.seg.length < 32 + 16 := by omega
  simp only [h48, if_false]
  rw [goSlice_ok (i := 0) (j := 4) (by omega) (by omega) (by omega)]
  have e1 : (a.seg.drop (0 : Int).toNat).take ((4 : Int) - 0).toNat = segMagic := by
    rw [hseg]; simp; rw [List.take_append_of_le_length (by omega)]; exact hm
  rw [e1]
  simp only [bind_ok, ne_eq, not_true_eq_false, if_false]
  rw [goSlice_ok (i := 32) (j := ((a.seg.length - 16 : Nat) : Int)) (by omega) (by omega) (by omega)]
  have e2 : (a.seg.drop (32 : Int).toNat).take (((a.seg.length - 16 : Nat) : Int) - 32).toNat = encBatches crc bs := by
    have : (((a.seg.length - 16 : Nat) : Int) - 32).toNat = (encBatches crc bs).length := by omega
    rw [this, hseg]
    simp [drop_append_ge, hh]
  rw [e2]
  simp only [bind_ok]
  have hge := encBatches_length_ge crc bs
  exact decodeBatches_enc hg hc0 hr (adm_mono hmk (by rw [hrs]; omega)) crc bs hw _ (by omega) hsz (Nat.le_refl _)


/-! ### index -/

def EntryOk (e : Int × Int) : Prop := InI64 e.1 ∧ InI32 e.2
instance (e : Int × Int) : Decidable (EntryOk e) := by unfold EntryOk; exact inferInstance

theorem readEntries_enc (es : List (Int × Int)) (hw : ∀ e ∈ es, EntryOk e) (rest : Bytes) :
    readEntries es.length (encEntries es ++ rest) = some es := by
  induction es with
  | nil => simp [readEntries]
  | cons e t ih =>
    have he := hw e (by simp)
    simp only [List.length_cons, readEntries, encEntries, List.append_assoc]
    have h1 : readN 8 (i64be e.1 ++ (i32be e.2 ++ (encEntries t ++ rest))) = some (i64be e.1, i32be e.2 ++ (encEntries t ++ rest)) := by
      have := readN_append (i64be e.1) (i32be e.2 ++ (encEntries t ++ rest))
      simpa using this
    rw [h1]
    simp only
    have h2 : readN 4 (i32be e.2 ++ (encEntries t ++ rest)) = some (i32be e.2, encEntries t ++ rest) := by
      have := readN_append (i32be e.2) (encEntries t ++ rest)
      simpa using this
    rw [h2]
    simp only
    rw [ih (fun x hx => hw x (by simp [hx])), i64_roundtrip he.1, i32_roundtrip he.2]

theorem encEntries_length (es : List (Int × Int)) : (encEntries es).length = 12 * es.length := by
  induction es with
  | nil => rfl
  | cons e t ih => simp [encEntries, ih]; omega

/-- **C07 (a), index round trip.** `ParseIndex (IndexBuilder.BuildBytes())` returns the builder's
interval and exactly its entries. -/
theorem parseIndexRoot_indexBytes (hmk : Adm mk L) (ib : IdxB) (hi : InI32 ib.interval) (hn : ib.entries.length < 2 ^ 31)
    (hw : ∀ e ∈ ib.entries, EntryOk e) (hL : 8 * ib.entries.length ≤ L) :
    parseIndexRoot mk (indexBytes ib) = .ok (ib.interval, ib.entries) := by
  have hlen : (indexBytes ib).length = 16 + 12 * ib.entries.length := by
    simp [indexBytes, idxMagic, encEntries_length]; omega
  unfold parseIndexRoot
  have h16 : ¬ (indexBytes ib).length < 16 := by omega
  simp only [h16, if_false]
  rw [goSlice_ok (i := 0) (j := 4) (by omega) (by omega) (by omega)]
  have e1 : ((indexBytes ib).drop (0 : Int).toNat).take ((4 : Int) - 0).toNat = idxMagic := by
    simp [indexBytes, idxMagic]
  have e2 : sl (indexBytes ib) 4 6 = u16be 1 := by
    simp [sl, indexBytes, idxMagic, take_append_len]
  have e3 : sl (indexBytes ib) 6 10 = i32be ib.entries.length := by
    simp [sl, indexBytes, idxMagic, drop_append_ge, take_append_len]
  have e4 : sl (indexBytes ib) 10 14 = i32be ib.interval := by
    simp [sl, indexBytes, idxMagic, drop_append_ge, take_append_len]
  have e5 : (indexBytes ib).drop 16 = encEntries ib.entries := by
    simp [indexBytes, idxMagic, drop_append_ge]
  have hc32 : InI32 (ib.entries.length : Int) := by unfold InI32; omega
  rw [e1]
  simp only [bind_ok, ne_eq, not_true_eq_false, if_false, e2, e3, e4, e5, u16_roundtrip (by decide : 1 < 2 ^ 16),
    i32_roundtrip hc32, i32_roundtrip hi]
  have h0 : ¬ ((ib.entries.length : Int) < 0) := by omega
  have h1 : ¬ ((ib.entries.length : Int) * 12 > (((indexBytes ib).length - 16 : Nat) : Int)) := by omega
  have h2 : mk (ib.entries.length : Int) 8 = .ok () := hmk _ _ (by omega) (by simp; omega)
  simp only [h0, h1, if_false, h2, bind_ok, Int.toNat_natCast]
  have := readEntries_enc ib.entries hw []
  rw [List.append_nil] at this
  rw [this]; rfl

/-- positions at which the batches start: (base offset, int32(32 + bytes before)) -/
def starts : Nat → List SBatch → List (Int × Int)
  | _, [] => []
  | n, b :: t => (b.base, wrap32 (32 + n)) :: starts (n + b.bytes.length) t

/-- the index component of the `BuildSegment` loop -/
def idxLoop : IdxB → Nat → List SBatch → IdxB
  | ib, _, [] => ib
  | ib, n, b :: t => idxLoop (maybeAdd ib b.base (wrap32 (32 + n)) b.msgCount) (n + b.bytes.length) t

theorem buildLoop_idx : ∀ (sbs : List SBatch) (st st' : BuildSt), buildLoop st sbs = some st' →
    st'.idx = idxLoop st.idx st.body.length sbs := by
  intro sbs
  induction sbs with
  | nil => intro st st' h; simp [buildLoop] at h; simp [idxLoop, h]
  | cons b t ih =>
    intro st st' h
    simp only [buildLoop] at h
    split at h
    · simp at h
    · have := ih _ _ h
      simpa [idxLoop, List.length_append] using this

theorem maybeAdd_entries (ib : IdxB) (o p m : Int) :
    (maybeAdd ib o p m).entries = ib.entries ∨ (maybeAdd ib o p m).entries = ib.entries ++ [(o, p)] := by
  unfold maybeAdd
  split <;> simp

theorem maybeAdd_entries_empty (ib : IdxB) (o p m : Int) (h : ib.entries = []) :
    (maybeAdd ib o p m).entries = [(o, p)] := by
  unfold maybeAdd
  simp [h]

theorem maybeAdd_interval (ib : IdxB) (o p m : Int) : (maybeAdd ib o p m).interval = ib.interval := by
  unfold maybeAdd
  split <;> rfl

theorem idxLoop_interval : ∀ (sbs : List SBatch) (ib : IdxB) (n : Nat), (idxLoop ib n sbs).interval = ib.interval := by
  intro sbs
  induction sbs with
  | nil => intro ib n; rfl
  | cons b t ih => intro ib n; simp [idxLoop, ih, maybeAdd_interval]

/-- the loop only ever appends entries taken, in order, from the batch starts -/
theorem idxLoop_sublist : ∀ (sbs : List SBatch) (ib : IdxB) (n : Nat),
    ∃ e', (idxLoop ib n sbs).entries = ib.entries ++ e' ∧ List.Sublist e' (starts n sbs) := by
  intro sbs
  induction sbs with
  | nil => intro ib n; exact ⟨[], by simp [idxLoop], List.Sublist.slnil⟩
  | cons b t ih =>
    intro ib n
    obtain ⟨e', h1, h2⟩ := ih (maybeAdd ib b.base (wrap32 (32 + n)) b.msgCount) (n + b.bytes.length)
    rcases maybeAdd_entries ib b.base (wrap32 (32 + n)) b.msgCount with h | h
    · exact ⟨e', by simp [idxLoop, h1, h], List.Sublist.cons _ h2⟩
    · exact ⟨(b.base, wrap32 (32 + n)) :: e', by simp [idxLoop, h1, h], List.Sublist.cons_cons _ h2⟩

theorem idxLoop_first (b : SBatch) (t : List SBatch) (ib : IdxB) (n : Nat) (h : ib.entries = []) :
    ∃ e', (idxLoop ib n (b :: t)).entries = (b.base, wrap32 (32 + n)) :: e' := by
  obtain ⟨e', h1, _⟩ := idxLoop_sublist t (maybeAdd ib b.base (wrap32 (32 + n)) b.msgCount) (n + b.bytes.length)
  exact ⟨e', by simp [idxLoop, h1, maybeAdd_entries_empty ib _ _ _ h]⟩

/-- strictly increasing (offset and position) -/
def EntryLt (a b : Int × Int) : Prop := a.1 < b.1 ∧ a.2 < b.2

theorem starts_lower : ∀ (sbs : List SBatch) (n : Nat) (lo : Int), (∀ b ∈ sbs, b.bytes ≠ []) →
    List.Pairwise (fun a b : SBatch => a.base < b.base) sbs → 32 + n + (bodyOf sbs).length < 2 ^ 31 →
    (∀ b ∈ sbs, lo < b.base) →
    List.Pairwise EntryLt (starts n sbs) ∧ ∀ e ∈ starts n sbs, lo < e.1 ∧ (32 + n : Int) ≤ e.2 := by
  intro sbs
  induction sbs with
  | nil => intro n lo _ _ _ _; simp [starts]
  | cons b t ih =>
    intro n lo hne hpw hsz hlo
    have hb : b.bytes.length ≠ 0 := by
      intro h; exact hne b (by simp) (List.length_eq_zero_iff.mp h)
    simp only [bodyOf, List.length_append] at hsz
    rw [List.pairwise_cons] at hpw
    obtain ⟨ih1, ih2⟩ := ih (n + b.bytes.length) b.base (fun x hx => hne x (by simp [hx])) hpw.2
      (by omega) (fun x hx => hpw.1 x hx)
    have hw : wrap32 (32 + (n : Int)) = 32 + n := wrap32_of_in (by unfold InI32; omega)
    have hcast : ((32 + n : Nat) : Int) = 32 + (n : Int) := by omega
    simp only [starts, List.pairwise_cons, List.mem_cons]
    refine ⟨⟨?_, ih1⟩, ?_⟩
    · intro e he
      have := ih2 e he
      unfold EntryLt
      simp only [hcast, hw]
      omega
    · intro e he
      rcases he with rfl | he
      · simp only [hcast, hw]; exact ⟨hlo b (by simp), by omega⟩
      · have := ih2 e he
        exact ⟨by have := hlo b (by simp); omega, by omega⟩


def totalCount : Int → List SBatch → Int
  | acc, [] => acc
  | acc, b :: t => totalCount (wrap32 (acc + b.msgCount)) t

theorem buildLoop_total : ∀ (sbs : List SBatch) (st st' : BuildSt), buildLoop st sbs = some st' →
    st'.total = totalCount st.total sbs := by
  intro sbs
  induction sbs with
  | nil => intro st st' h; simp [buildLoop] at h; simp [totalCount, h]
  | cons b t ih =>
    intro st st' h
    simp only [buildLoop] at h
    split at h
    · simp at h
    · have := ih _ _ h
      simpa [totalCount] using this

/-- everything `BuildSegment` returns, in terms of its inputs -/
theorem buildSegment_spec (crc : Bytes → Nat) (interval : Int) (b0 : SBatch) (t : List SBatch) (created : Int)
    (hb : ∀ b ∈ b0 :: t, b.bytes ≠ []) :
    ∃ a, buildSegment crc interval (b0 :: t) created = some a ∧
      a.base = b0.base ∧
      a.last = wrap64 (((b0 :: t).getLast (by simp)).base + ((b0 :: t).getLast (by simp)).lastOffsetDelta) ∧
      a.count = totalCount 0 (b0 :: t) ∧
      a.seg = segHeader b0.base a.count created ++ (bodyOf (b0 :: t) ++ segFooter (crc (bodyOf (b0 :: t))) a.last) ∧
      a.entries = (idxLoop (newIdx interval) 0 (b0 :: t)).entries ∧
      a.idx = indexBytes (idxLoop (newIdx interval) 0 (b0 :: t)) := by
  unfold buildSegment
  simp only
  have hl : (b0 :: t).getLast? = some ((b0 :: t).getLast (by simp)) := List.getLast?_eq_some_getLast (by simp)
  rw [hl]
  simp only
  obtain ⟨st', h1, h2⟩ := buildLoop_body (b0 :: t) ⟨[], newIdx interval, 0⟩ hb
  have h3 := buildLoop_idx _ _ _ h1
  have h4 := buildLoop_total _ _ _ h1
  simp only [List.nil_append, List.length_nil] at h2 h3 h4
  rw [h1]
  simp only
  refine ⟨_, rfl, rfl, rfl, h4, ?_, by rw [h3], by rw [h3]⟩
  simp only [h2]

theorem parseSegmentFooter_footer (crcv : Nat) (last : Int) (hl : InI64 last) :
    parseSegmentFooter (segFooter crcv last) = some last := by
  unfold parseSegmentFooter
  have h16 : ¬ (segFooter crcv last).length < 16 := by simp
  simp only [h16, if_false]
  have e1 : sl (segFooter crcv last) 12 16 = footMagic := by
    simp [sl, segFooter, footMagic, drop_append_ge]
  have e2 : sl (segFooter crcv last) 4 12 = i64be last := by
    simp [sl, segFooter, drop_append_ge, take_append_len]
  simp [e1, e2, i64_roundtrip hl]

theorem parseSegmentHeader_header (base count created : Int) (hc : InI64 created) :
    parseSegmentHeaderCreatedAt (segHeader base count created) = some created := by
  unfold parseSegmentHeaderCreatedAt
  have h32 : ¬ (segHeader base count created).length < 32 := by simp
  simp only [h32, if_false]
  have e1 : sl (segHeader base count created) 0 4 = segMagic := by
    simp [sl, segHeader, segMagic]
  have e2 : sl (segHeader base count created) 20 28 = i64be created := by
    simp [sl, segHeader, segMagic, drop_append_ge, take_append_len]
  simp [e1, e2, i64_roundtrip hc]

theorem wrap64_in (i : Int) : InI64 (wrap64 i) := toS64_in _
theorem wrap32_in (i : Int) : InI32 (wrap32 i) := toS32_in _

theorem starts_entryOk : ∀ (sbs : List SBatch) (n : Nat), (∀ b ∈ sbs, InI64 b.base) → ∀ e ∈ starts n sbs, EntryOk e := by
  intro sbs
  induction sbs with
  | nil => intro n _ e he; simp [starts] at he
  | cons b t ih =>
    intro n hb e he
    simp only [starts, List.mem_cons] at he
    rcases he with rfl | he
    · exact ⟨hb b (by simp), wrap32_in _⟩
    · exact ih _ (fun x hx => hb x (by simp [hx])) e he


/-! ### witnesses -/

/-- the broker-written segment for two records, the second 2^31 ms after the first
(`build 1 0 1 B 0 0 2147483648 1 2 R 0 0 0 N N 0 R 0 2147483648 1 - 76 0`) -/
def wSqlTs : Bytes := [75, 65, 70, 83, 0, 1, 0, 0, 0, 0, 0, 0, 0, 0, 0, 0, 0, 0, 0, 2, 0, 0, 0, 0, 0, 0, 0, 0, 0, 0, 0, 0, 0, 0, 0, 0, 0, 0, 0, 0, 0, 0, 0, 68, 0, 0, 0, 0, 2, 37, 34, 146, 198, 0, 0, 0, 0, 0, 1, 0, 0, 0, 0, 0, 0, 0, 0, 0, 0, 0, 0, 128, 0, 0, 0, 255, 255, 255, 255, 255, 255, 255, 255, 255, 255, 255, 255, 255, 255, 0, 0, 0, 2, 12, 0, 0, 0, 1, 1, 0, 22, 0, 128, 128, 128, 128, 16, 2, 0, 2, 118, 0, 180, 114, 40, 148, 0, 0, 0, 0, 0, 0, 0, 1, 69, 78, 68, 33]  -- 128 bytes

/-- timestamps of a decode result -/
def tsOf : GoResult (List DRec) → Option (List Int)
  | .ok rs => some (rs.map (·.ts))
  | _ => none

/-! ### the property theorems -/

/-- fixed-width big-endian integers round-trip -/
theorem _root_.KafVerif.C07.beDec_beEnc (k n : Nat) : beDec (beEnc k n) = n % 256 ^ k := Kafka.beDec_beEnc k n

/-- every int64 survives Kafka varint encoding and the 64-bit readers (iceberg, PITR, sql `readVarlong`) -/
theorem _root_.KafVerif.C07.varint64_roundtrip (v : Int) (h : InI64 v) (rest : Bytes) :
    readVarint64 (varint v ++ rest) = some (v, rest) := readVarint64_varint h rest

/-- the sql decoder's 32-bit reader is exact for |v| < 2^30 -/
theorem _root_.KafVerif.C07.varint32_sql_roundtrip (v : Int) (h : -(2:Int) ^ 30 ≤ v ∧ v < 2 ^ 30) (rest : Bytes) :
    readVarint32Sql (varint v ++ rest) = some (v, rest) := readVarint32Sql_varint h rest

/-- … and NOT beyond: a timestamp delta of 2^31 ms reads back as 0, one of 2^35 ms is rejected
("varint too long") — why the timestamp delta must not go through this reader -/
theorem _root_.KafVerif.C07.sql_varint32_loses_timestamp :
    readVarint32Sql (varint (2 ^ 31)) = some (0, []) ∧ readVarint32Sql (varint (2 ^ 35)) = none ∧
    readVarint64 (varint (2 ^ 31)) = some (2 ^ 31, []) := by decide

/-- **record round trip, iceberg decoder**, under Go's real allocator with any limit ≥ 40·|record| -/
theorem _root_.KafVerif.C07.decodeRecord_encRec_iceberg (lim : Nat) (base firstTs : Int) (r : Rec) (hw : r.Wf)
    (rest : Bytes) (hl : hdrSize * (recBody r).length ≤ lim) :
    decodeRecord (goMakeLim lim) cfgIceberg base firstTs (encRec r ++ rest) = .ok (toDRec base firstTs r, rest) :=
  decodeRecord_enc rfl cfgIceberg_reads (adm_goMakeLim (Nat.le_refl _)) base firstTs r hw rest hl

/-- **record round trip, sql decoder (with fix C07)** -/
theorem _root_.KafVerif.C07.decodeRecord_encRec_sql (lim : Nat) (base firstTs : Int) (r : Rec) (hw : r.Wf)
    (rest : Bytes) (hl : hdrSize * (recBody r).length ≤ lim) :
    decodeRecord (goMakeLim lim) cfgSql base firstTs (encRec r ++ rest) = .ok (toDRec base firstTs r, rest) :=
  decodeRecord_enc rfl cfgSql_reads (adm_goMakeLim (Nat.le_refl _)) base firstTs r hw rest hl

/-- **PITR `scanRecord`** recovers the timestamp delta and offset delta of every record -/
theorem _root_.KafVerif.C07.scanRecord_encRec (lim : Nat) (r : Rec) (hw : r.Wf) (rest : Bytes)
    (hl : (recBody r).length ≤ lim) :
    scanRecord (goMakeLim lim) (encRec r ++ rest) = .ok ((r.tsDelta, r.offDelta), rest) :=
  scanRecord_enc (adm_goMakeLim (Nat.le_refl _)) r hw rest hl

/-- the record loop, for every decoder variant whose varint readers are exact on the ranges -/
theorem _root_.KafVerif.C07.decodeRecords_encRecs (mk : Alloc) (c : Cfg) (L : Nat) (hg : c.guard = true) (hr : c.Reads)
    (hmk : Adm mk L) (base firstTs : Int) (rs : List Rec) (hw : ∀ r ∈ rs, r.Wf) (rest : Bytes)
    (hL : hdrSize * (encRecs rs).length ≤ L) :
    decodeRecords mk c base firstTs rs.length (encRecs rs ++ rest) = .ok (rs.map (toDRec base firstTs)) :=
  decodeRecords_enc hg hr hmk base firstTs rs hw rest hL

/-- **batch round trip**: `decodeBatchRecords` of both processors on an encoded batch -/
theorem _root_.KafVerif.C07.decodeBatchRecords_encBatch (crc : Bytes → Nat) (b : Batch) (hw : b.Wf) (lim : Nat)
    (hl : recSize * (encBatch crc b).length ≤ lim) :
    decodeBatchRecords (goMakeLim lim) cfgIceberg (encBatch crc b) = .ok (recordsOf b) ∧
    decodeBatchRecords (goMakeLim lim) cfgSql (encBatch crc b) = .ok (recordsOf b) :=
  ⟨decodeBatchRecords_enc rfl rfl cfgIceberg_reads (adm_goMakeLim (Nat.le_refl _)) crc b hw hl,
   decodeBatchRecords_enc rfl rfl cfgSql_reads (adm_goMakeLim (Nat.le_refl _)) crc b hw hl⟩

/-- **The sanity checks never reject a well-formed batch.**  Every encoded record has at least 7
bytes, so `recordCount ≤ len(recordsData)/7 ≤ len(recordsData)`: the record-count check of
`decodeBatchRecords` — as coded, and with any divisor up to 7 — lets every well-formed batch
through; likewise the header-count check of `decodeRecord` (every header has at least 2 bytes).
The round-trip theorems (`decodeBatchRecords_encBatch`, `decodeSegment_buildSegment`) use exactly
this fact to get past the checks. -/
theorem _root_.KafVerif.C07.count_check_admits_wellformed (rs : List Rec) (hs : List Hdr) :
    (∀ r : Rec, 7 ≤ (encRec r).length) ∧ 7 * rs.length ≤ (encRecs rs).length ∧
    (∀ d, 1 ≤ d → d ≤ 7 → ¬ ((rs.length : Int) > (((encRecs rs).length / d : Nat) : Int))) ∧
    (∀ d, 1 ≤ d → d ≤ 2 → ¬ ((hs.length : Int) > (((encHdrs hs).length / d : Nat) : Int))) :=
  ⟨encRec_length_ge_seven, encRecs_length_ge_seven rs, fun d h1 h7 => count_check_admits rs d h1 h7,
   fun d h1 h2 => header_count_check_admits hs d h1 h2⟩

/-- … and 7 is attained: a batch of `n ≥ 1` minimal records (null key, null value, no headers) has
`7·n` bytes of record data, so a check against `len/8` (or any larger divisor) rejects it although
it is well-formed.  (This is the seeded regression C07-2.) -/
theorem _root_.KafVerif.C07.count_check_divisor_8_rejects_minimal (n : Nat) (hn : 1 ≤ n) :
    minRec.Wf ∧ (encRecs (List.replicate n minRec)).length = 7 * n ∧
    (((List.replicate n minRec).length : Int) > (((encRecs (List.replicate n minRec)).length / 8 : Nat) : Int)) := by
  refine ⟨?_, encRecs_replicate_minRec n, ?_⟩
  · unfold Rec.Wf
    refine ⟨by decide, by decide, by decide, by decide, by decide, ?_, by decide⟩
    intro h hh; simp [minRec] at hh
  · rw [encRecs_replicate_minRec, List.length_replicate]
    have : 7 * n / 8 < n := by omega
    omega

/-- **C07 (b).** For every non-empty sequence of well-formed batches: `BuildSegment` succeeds and
the iceberg decoder and the sql decoder both return exactly the records sent, in order. -/
theorem _root_.KafVerif.C07.decodeSegment_buildSegment (crc : Bytes → Nat) (interval created : Int) (bs : List Batch)
    (hne : bs ≠ []) (hw : ∀ b ∈ bs, b.Wf) (hsz : (encBatches crc bs).length < 2 ^ 31) (lim : Nat)
    (hl : recSize * ((encBatches crc bs).length + 48) ≤ lim) :
    ∃ a, buildSegment crc interval (bs.map (mkSB crc)) created = some a ∧
      decodeSegment (goMakeLim lim) cfgIceberg a.seg = .ok (bs.flatMap recordsOf) ∧
      decodeSegment (goMakeLim lim) cfgSql a.seg = .ok (bs.flatMap recordsOf) := by
  obtain ⟨a, h1, h2⟩ := decodeSegment_buildSegment_gen (mk := goMakeLim lim) (c := cfgIceberg) rfl rfl cfgIceberg_reads crc
    interval created bs hne hw hsz (adm_goMakeLim hl)
  obtain ⟨a', h1', h3⟩ := decodeSegment_buildSegment_gen (mk := goMakeLim lim) (c := cfgSql) rfl rfl cfgSql_reads crc
    interval created bs hne hw hsz (adm_goMakeLim hl)
  rw [h1] at h1'
  cases h1'
  exact ⟨a, h1, h2, h3⟩

/-- **C07 (a), segment.** What `BuildSegment` writes: header (magic, version 1, base offset of the
first batch, message count, creation time), the batches back to back, footer (CRC of the body,
last offset = base + lastOffsetDelta of the last batch, "END!"); and the restore code's own
header/footer parsers read the creation time and the last offset back. -/
theorem _root_.KafVerif.C07.buildSegment_wf (crc : Bytes → Nat) (interval : Int) (b0 : SBatch) (t : List SBatch) (created : Int)
    (hb : ∀ b ∈ b0 :: t, b.bytes ≠ []) (hc : InI64 created) :
    ∃ a, buildSegment crc interval (b0 :: t) created = some a ∧
      a.base = b0.base ∧
      a.last = wrap64 (((b0 :: t).getLast (by simp)).base + ((b0 :: t).getLast (by simp)).lastOffsetDelta) ∧
      a.count = totalCount 0 (b0 :: t) ∧
      a.seg = segHeader b0.base a.count created ++ (bodyOf (b0 :: t) ++ segFooter (crc (bodyOf (b0 :: t))) a.last) ∧
      parseSegmentHeaderCreatedAt (a.seg.take 32) = some created ∧
      parseSegmentFooter (a.seg.drop (a.seg.length - 16)) = some a.last := by
  obtain ⟨a, h1, h2, h3, h4, h5, _, _⟩ := buildSegment_spec crc interval b0 t created hb
  refine ⟨a, h1, h2, h3, h4, h5, ?_, ?_⟩
  · rw [h5, take_append_len _ _ 32 (by simp)]
    exact parseSegmentHeader_header _ _ _ hc
  · have hlen : a.seg.length - 16 = 32 + (bodyOf (b0 :: t)).length := by rw [h5]; simp; omega
    rw [hlen, h5, drop_append_ge _ _ _ (by simp)]
    simp only [segHeader_length, Nat.add_sub_cancel_left]
    rw [drop_append_ge _ _ _ (Nat.le_refl _)]
    simp only [Nat.sub_self, List.drop_zero]
    exact parseSegmentFooter_footer _ _ (by rw [h3]; exact wrap64_in _)

/-- **C07 (a), index.** The index `BuildSegment` returns: the first entry is (base offset of the
first batch, 32); the entries are, in order, a sub-sequence of the batch starts (so each one points
at the start of a batch and carries that batch's base offset); when base offsets increase and the
segment is shorter than 2^31 bytes they are strictly increasing in offset and in position; and the
index bytes are `BuildBytes` of exactly these entries. -/
theorem _root_.KafVerif.C07.index_entries_sound (crc : Bytes → Nat) (interval : Int) (b0 : SBatch) (t : List SBatch) (created : Int)
    (hb : ∀ b ∈ b0 :: t, b.bytes ≠ []) :
    ∃ a, buildSegment crc interval (b0 :: t) created = some a ∧
      (∃ e', a.entries = (b0.base, 32) :: e') ∧
      List.Sublist a.entries (starts 0 (b0 :: t)) ∧
      (List.Pairwise (fun x y : SBatch => x.base < y.base) (b0 :: t) → 32 + (bodyOf (b0 :: t)).length < 2 ^ 31 →
        List.Pairwise EntryLt a.entries) ∧
      ∃ ib : IdxB, ib.entries = a.entries ∧ ib.interval = (if interval ≤ 0 then 1 else interval) ∧ a.idx = indexBytes ib := by
  obtain ⟨a, h1, _, _, _, _, h6, h7⟩ := buildSegment_spec crc interval b0 t created hb
  obtain ⟨e', he⟩ := idxLoop_first b0 t (newIdx interval) 0 rfl
  obtain ⟨e'', hs1, hs2⟩ := idxLoop_sublist (b0 :: t) (newIdx interval) 0
  have hnil : (newIdx interval).entries = [] := rfl
  rw [hnil, List.nil_append] at hs1
  refine ⟨a, h1, ⟨e', ?_⟩, ?_, ?_, ⟨_, h6.symm, ?_, h7⟩⟩
  · rw [h6, he]; rfl
  · rw [h6, hs1]; exact hs2
  · intro hpw hsz
    have := (starts_lower (b0 :: t) 0 (b0.base - 1) hb hpw (by simpa using hsz) (by
      intro b hbm
      rw [List.pairwise_cons] at hpw
      simp only [List.mem_cons] at hbm
      rcases hbm with rfl | hbm
      · omega
      · have := hpw.1 b hbm; omega)).1
    rw [h6, hs1]
    exact List.Pairwise.sublist hs2 this
  · rw [idxLoop_interval]; rfl

/-- **C07 (a), index round trip.** `ParseIndex` of the index bytes `BuildSegment` wrote returns the
interval and exactly the builder's entries (for any index builder state, hence for the one above). -/
theorem _root_.KafVerif.C07.parseIndex_indexBytes (lim : Nat) (ib : IdxB) (hi : InI32 ib.interval) (hn : ib.entries.length < 2 ^ 31)
    (hw : ∀ e ∈ ib.entries, EntryOk e) (hL : 8 * ib.entries.length ≤ lim) :
    parseIndexRoot (goMakeLim lim) (indexBytes ib) = .ok (ib.interval, ib.entries) :=
  parseIndexRoot_indexBytes (adm_goMakeLim (Nat.le_refl _)) ib hi hn hw hL

/-- the footer parser returns the stored last offset -/
theorem _root_.KafVerif.C07.parseFooter_segment (crcv : Nat) (last : Int) (hl : InI64 last) :
    parseSegmentFooter (segFooter crcv last) = some last := parseSegmentFooter_footer crcv last hl

set_option maxRecDepth 16000 in
/-- **finding (fixed by C07-sql-decoder-timestamp-varlong).** The sql decoder that reads the
timestamp delta with its 32-bit varint reader returns timestamp 0 for the second record of the
witness segment; the fixed decoder and the iceberg decoder return 2^31. -/
theorem _root_.KafVerif.C07.sqlOld_loses_timestamp :
    tsOf (decodeSegment (goMakeLim AllocMax) cfgSqlTs32 wSqlTs) = some [0, 0] ∧
    tsOf (decodeSegment (goMakeLim AllocMax) cfgSql wSqlTs) = some [0, 2147483648] ∧
    tsOf (decodeSegment (goMakeLim AllocMax) cfgIceberg wSqlTs) = some [0, 2147483648] := by
  refine ⟨by decide, by decide, by decide⟩

/-- **finding (known, open).** The skeleton processor's decoder is a placeholder: it returns no
records for any segment, so it recovers the producers' records only when there are none. -/
theorem _root_.KafVerif.C07.skeleton_recovers_nothing (seg : Bytes) (bs : List Batch) (h : bs.flatMap recordsOf ≠ []) :
    decodeSkeleton seg ≠ .ok (bs.flatMap recordsOf) := by
  unfold decodeSkeleton
  intro he
  simp only [GoResult.ok.injEq] at he
  exact h he.symm

/-! ### non-vacuity -/

def exRec : Rec := ⟨0, 2 ^ 31, 1, some [], some [0x76], [⟨[0x68], none⟩, ⟨[], some []⟩]⟩
def exBatch : Batch := { base := 5, lastOffsetDelta := 1, firstTs := 1700000000000, maxTs := 1700000000000 + 2 ^ 31,
                         recs := [⟨0, 0, 0, none, none, []⟩, exRec] }

example : exRec.Wf := by
  unfold Rec.Wf
  refine ⟨by decide, by decide, by decide, by decide, by decide, ?_, by decide⟩
  intro h hh
  simp only [exRec, List.mem_cons, List.not_mem_nil, or_false] at hh
  rcases hh with rfl | rfl <;> exact ⟨by decide, by decide⟩
example : InI64 exBatch.base ∧ InI64 exBatch.firstTs ∧ InI16 exBatch.attrs ∧ exBatch.attrs % 8 = 0 := by decide
example : decodeRecord (goMakeLim AllocMax) cfgSql 5 7 (encRec exRec) = .ok (toDRec 5 7 exRec, []) := by decide
example : (toDRec 5 7 exRec).ts = 7 + 2 ^ 31 := by decide
set_option maxRecDepth 16000 in
example : decodeBatchRecords (goMakeLim AllocMax) cfgSql (encBatch (fun _ => 0) exBatch) = .ok (recordsOf exBatch) := by decide
example : (recordsOf exBatch).length = 2 := by decide
example : (buildSegment (fun _ => 7) 1 [mkSB (fun _ => 7) exBatch] 1700000000123).isSome = true := by decide
example : List.Pairwise (fun x y : SBatch => x.base < y.base) [mkSB (fun _ => 7) exBatch] := by simp
example : EntryOk (5, 32) := by decide

end KafVerif.Kafka
