import KafVerif.Props.C05
/-!
C06 — Broker restart after any crash point loses no acknowledged record.

Statement (properties.jsonl): if a broker stops at any point during produce or flush and a new
broker opens the partition from S3 and the metadata store, every record acknowledged before the
crash can be read at its original offset; new appends never reuse an offset that was acknowledged
or shown to a consumer; leftover objects from interrupted uploads (a segment without its index)
never hide acknowledged data or cause offset reuse.
Quantifier: every crash point between the S3 segment upload, the index upload, the in-memory commit
and the metadata-store update, across multi-segment histories.

`crash` is enabled in EVERY state of the transition system (which is finer-grained than the crash
points listed: every critical section, every upload, every store update is its own step), and
`restore` models `getPartitionLog` (NextOffset, `RestoreFromS3` with the orphan rule, offset
sync).  "Shown to a consumer" in flush-on-ack mode = below the store's next_offset (`hw`), which
bounds every fetch.  Reachable states include every combination of leftovers (orphan segment,
orphan index, complete but uncommitted pair, earlier restarts).
-/
namespace KafVerif.StorageLog

/-- **C06 (restart).** From every reachable state: crash, then re-open.  The re-open succeeds; every
batch acknowledged before the crash is in a registered segment that covers its base offset and
whose S3 object (with index) contains it; the next offset to assign is beyond every acknowledged
offset and not below the published watermark; the watermark did not move back. -/
theorem _root_.KafVerif.C06.restart {cfg : Cfg} {s c r : State} (h : Reachable fixed cfg s)
    (hc : step fixed s .crash = some c) (hr : step fixed c .restore = some r) :
    ∃ m, r.mem = some m ∧ m.buffer = [] ∧
      (∀ b ∈ s.acked, Readable r m b) ∧
      (∀ b ∈ s.acked, b.endOff ≤ m.next) ∧
      s.hw ≤ m.next ∧ s.hw ≤ r.hw := by
  have hrc : Reachable fixed cfg c := Reachable.step _ h hc
  have hrr : Reachable fixed cfg r := Reachable.step _ hrc hr
  obtain ⟨hir, hsome⟩ := inv_restore (reachable_inv hrc) hr
  obtain ⟨m, hm⟩ := Option.isSome_iff_exists.mp hsome
  have mi := memInv_of hir hm
  obtain ⟨ha1, hhw1, _, _, hcm⟩ := step_crash_eq hc
  obtain ⟨ha2, _, _⟩ := step_restore_eq hr
  have hacked : r.acked = s.acked := by rw [ha2, ha1]
  have hmono : s.hw ≤ r.hw := by
    have := KafVerif.C05.hw_mono c r .restore hr
    omega
  obtain ⟨mid, c1, c2⟩ := Contig_append.mp mi.contig
  have hnext : segEnd m.segments ≤ m.next := Nat.le_trans (Contig_le c1) (Contig_le c2)
  have hbuf : m.buffer = [] := by
    simp only [step, hcm] at hr
    split at hr
    · simp only [Option.some.injEq] at hr; subst hr; rw [hcm] at hm; cases hm
    · split at hr <;> (simp only [Option.some.injEq] at hr; subst hr; simp at hm; subst hm; rfl)
  refine ⟨m, hm, hbuf, ?_, ?_, ?_, hmono⟩
  · intro b hb; exact mi.core.acked b (hacked ▸ hb)
  · intro b hb
    have := Comm_end_le mi.core (mi.core.acked b (hacked ▸ hb))
    omega
  · have := mi.core.hw; omega

/-- The re-open of a crashed reachable state never fails (`RestoreFromS3` meets no index-less
segment below the stored next offset): availability after restart. -/
theorem _root_.KafVerif.C06.restore_succeeds {cfg : Cfg} {c : State} (h : Reachable fixed cfg c)
    (hm : c.mem = none) : ∃ r, step fixed c .restore = some r ∧ r.mem.isSome = true := by
  have : ∃ r, step fixed c .restore = some r := by
    simp only [step, hm]
    split
    · exact ⟨_, rfl⟩
    · split <;> exact ⟨_, rfl⟩
  obtain ⟨r, hr⟩ := this
  exact ⟨r, hr, (inv_restore (reachable_inv h) hr).2⟩

/-- **C06 (no offset reuse).** In every reachable state with the broker up, the next offset to be
assigned lies beyond every acknowledged offset and is not below the published watermark … -/
theorem _root_.KafVerif.C06.next_beyond_acked {cfg : Cfg} {s : State} {m : Mem} (h : Reachable fixed cfg s)
    (hm : s.mem = some m) : (∀ b ∈ s.acked, b.endOff ≤ m.next) ∧ s.hw ≤ m.next := by
  have mi := memInv_of (reachable_inv h) hm
  obtain ⟨mid, c1, c2⟩ := Contig_append.mp mi.contig
  have hnext : segEnd m.segments ≤ m.next := Nat.le_trans (Contig_le c1) (Contig_le c2)
  refine ⟨fun b hb => ?_, Nat.le_trans mi.core.hw hnext⟩
  have := Comm_end_le mi.core (mi.core.acked b hb)
  omega

def batchOf : Pc → Option Batch
  | .appended b => some b
  | .up _ b _ _ _ => some b
  | _ => none

/-- … and that is the base offset `AppendBatch` hands out: a new batch never overlaps an
acknowledged batch or an offset below the watermark, before or after any number of restarts. -/
theorem _root_.KafVerif.C06.append_fresh {cfg : Cfg} {s s' : State} {t n : Nat} (h : Reachable fixed cfg s)
    (hs : step fixed s (.append t n) = some s') :
    ∃ b, batchOf (s'.pcs t) = some b ∧ s.hw ≤ b.base ∧ ∀ a ∈ s.acked, a.endOff ≤ b.base := by
  simp only [step] at hs
  split at hs
  case h_2 => simp at hs
  case h_1 m hmem hpc =>
    obtain ⟨h1, h2⟩ := KafVerif.C06.next_beyond_acked h hmem
    by_cases hn : 1 ≤ n
    case neg => simp [hn] at hs
    simp only [hn, if_true] at hs
    refine ⟨{ id := s.nextId, base := m.next, n := n }, ?_, h2, h1⟩
    split at hs
    · split at hs <;> (simp only [Option.some.injEq] at hs; subst hs; simp [batchOf, setPc])
    · simp only [Option.some.injEq] at hs; subst hs; simp [batchOf, setPc]

/-! ### pre-fix witness and non-vacuity -/

def crashAfterLostAck : List Ev :=
  [.restore, .append 0 1, .append 1 1, .flush 0, .flush 1, .seg 0 true, .idx 0 false, .finish 0,
   .wake 1, .readNext 1, .pub 1 true, .crash, .restore]

/-- after the restart: the log is not open (restore failed) or some acknowledged batch is unreadable -/
def lostAfterRestart (v : Variant) (evs : List Ev) : Bool :=
  match run v (init ⟨0, 0⟩) evs with
  | some s => match s.mem with
    | none => !s.acked.isEmpty
    | some m => s.acked.any fun b => !readableB s m b
  | none => false

/-- **pre-fix witness**: the acknowledged batch is gone after the restart (the orphan segment at
base 0 < next_offset 2 even makes `RestoreFromS3` fail). -/
theorem _root_.KafVerif.C06.old_violates : lostAfterRestart old crashAfterLostAck = true := by decide

/-- crash with an orphan segment (segment uploaded, index upload still pending) after an earlier
acknowledged batch: a reachable state to which `restart` applies, with a leftover object -/
def orphanEvs : List Ev :=
  [.restore, .append 0 2, .flush 0, .seg 0 true, .idx 0 true, .finish 0, .pub 0 true,
   .append 1 1, .flush 1, .seg 1 true]

example : ∃ s c r, Reachable fixed ⟨0, 0⟩ s ∧ step fixed s .crash = some c ∧ step fixed c .restore = some r ∧
    s.acked ≠ [] ∧ (s.segs 2).isSome = true ∧ (s.idxs 2).isSome = false := by
  have h : ((run fixed (init ⟨0, 0⟩) orphanEvs).map fun s =>
      (s.acked.length, (s.segs 2).isSome, (s.idxs 2).isSome, s.mem.isSome)) = some (1, true, false, true) := by decide
  cases hr : run fixed (init ⟨0, 0⟩) orphanEvs with
  | none => rw [hr] at h; simp at h
  | some s =>
    rw [hr] at h; simp at h
    obtain ⟨h1, h2, h3, h4⟩ := h
    obtain ⟨m, hm⟩ := Option.isSome_iff_exists.mp h4
    have hreach := reachable_run Reachable.init hr
    have hc : step fixed s .crash = some { s with mem := none, pcs := fun _ => .idle } := by simp [step, hm]
    obtain ⟨r, hr', _⟩ := KafVerif.C06.restore_succeeds (Reachable.step _ hreach hc) rfl
    exact ⟨s, _, r, hreach, hc, hr', by intro hn; simp [hn] at h1, h2, by simp [h3]⟩

end KafVerif.StorageLog
