import KafVerif.Props.C05
import KafVerif.Model.StorageLogRegistry
/-!
C06 — Broker restart after any crash point loses no acknowledged record.

Statement (properties.jsonl): if a broker stops at any point during produce or flush and a new
broker opens the partition from S3 and the metadata store, every record acknowledged before the
crash can be read at its original offset; new appends never reuse an offset that was acknowledged
or shown to a consumer; leftover objects from interrupted uploads (a segment without its index)
never hide acknowledged data or cause offset reuse.
Quantifier: every crash point between the S3 segment upload, the index upload, the in-memory commit
and the metadata-store update, across multi-segment histories.

`crash` is enabled in EVERY state of the transition system (which is finer-grained than the crash
points listed: every critical section, every upload, every store update is its own step), and
`restore` models `getPartitionLog` (NextOffset, `RestoreFromS3` with the orphan rule, offset
sync).  "Shown to a consumer" in flush-on-ack mode = below the store's next_offset (`hw`), which
bounds every fetch.  Reachable states include every combination of leftovers (orphan segment,
orphan index, complete but uncommitted pair, earlier restarts).
-/
namespace KafVerif.StorageLog

/-- **C06 (restart).** From every reachable state: crash, then re-open.  The re-open succeeds; every
batch acknowledged before the crash is in a registered segment that covers its base offset and
whose S3 object (with index) contains it; the next offset to assign is beyond every acknowledged
offset and not below the published watermark; the watermark did not move back. -/
theorem _root_.KafVerif.C06.restart {cfg : Cfg} {s c r : State} (h : Reachable fixed cfg s)
    (hc : step fixed s .crash = some c) (hr : step fixed c .restore = some r) :
    ∃ m, r.mem = some m ∧ m.buffer = [] ∧
      (∀ b ∈ s.acked, Readable r m b) ∧
      (∀ b ∈ s.acked, b.endOff ≤ m.next) ∧
      s.hw ≤ m.next ∧ s.hw ≤ r.hw := by
  have hrc : Reachable fixed cfg c := Reachable.step _ h hc
  have hrr : Reachable fixed cfg r := Reachable.step _ hrc hr
  obtain ⟨hir, hsome⟩ := inv_restore (reachable_inv hrc) hr
  obtain ⟨m, hm⟩ := Option.isSome_iff_exists.mp hsome
  have mi := memInv_of hir hm
  obtain ⟨ha1, hhw1, _, _, hcm⟩ := step_crash_eq hc
  obtain ⟨ha2, _, _⟩ := step_restore_eq hr
  have hacked : r.acked = s.acked := by rw [ha2, ha1]
  have hmono : s.hw ≤ r.hw := by
    have := KafVerif.C05.hw_mono c r .restore hr
    omega
  obtain ⟨mid, c1, c2⟩ := Contig_append.mp mi.contig
  have hnext : segEnd m.segments ≤ m.next := Nat.le_trans (Contig_le c1) (Contig_le c2)
  have hbuf : m.buffer = [] := by
    simp only [step, hcm] at hr
    split at hr
    · simp only [Option.some.injEq] at hr; subst hr; rw [hcm] at hm; cases hm
    · split at hr <;> (simp only [Option.some.injEq] at hr; subst hr; simp at hm; subst hm; rfl)
  refine ⟨m, hm, hbuf, ?_, ?_, ?_, hmono⟩
  · intro b hb; exact mi.core.acked b (hacked ▸ hb)
  · intro b hb
    have := Comm_end_le mi.core (mi.core.acked b (hacked ▸ hb))
    omega
  · have := mi.core.hw; omega

/-- **C06 (restart) for every sound shape** (`BuildSegment` failing by a stricter rule or by the fault oracle, with a re-queueing
error exit of `prepareFlush`; or the source's rule and exit).  From every reachable state: crash, then re-open.  The re-open succeeds; every
batch acknowledged before the crash is in a registered segment that covers its base offset and
whose S3 object (with index) contains it; the next offset to assign is beyond every acknowledged
offset and not below the published watermark; the watermark did not move back. -/
theorem _root_.KafVerif.C06.restart_sound {v : Variant} (hv : Sound v) {cfg : Cfg} {s c r : State} (h : Reachable v cfg s)
    (hc : step v s .crash = some c) (hr : step v c .restore = some r) :
    ∃ m, r.mem = some m ∧ m.buffer = [] ∧
      (∀ b ∈ s.acked, Readable r m b) ∧
      (∀ b ∈ s.acked, b.endOff ≤ m.next) ∧
      s.hw ≤ m.next ∧ s.hw ≤ r.hw := by
  have hrc : Reachable v cfg c := Reachable.step _ h hc
  have hrr : Reachable v cfg r := Reachable.step _ hrc hr
  obtain ⟨hir, hsome⟩ := inv_restore_of hv (reachable_inv_of hv hrc) hr
  obtain ⟨m, hm⟩ := Option.isSome_iff_exists.mp hsome
  have mi := memInv_of hir hm
  obtain ⟨ha1, hhw1, _, _, hcm⟩ := step_crash_eq hc
  obtain ⟨ha2, _, _⟩ := step_restore_eq hr
  have hacked : r.acked = s.acked := by rw [ha2, ha1]
  have hmono : s.hw ≤ r.hw := by
    have := KafVerif.C05.hw_mono_sound hv c r .restore hr
    omega
  obtain ⟨mid, c1, c2⟩ := Contig_append.mp mi.contig
  have hnext : segEnd m.segments ≤ m.next := Nat.le_trans (Contig_le c1) (Contig_le c2)
  have hbuf : m.buffer = [] := by
    simp only [step, hcm] at hr
    split at hr
    · simp only [Option.some.injEq] at hr; subst hr; rw [hcm] at hm; cases hm
    · split at hr <;> (simp only [Option.some.injEq] at hr; subst hr; simp at hm; subst hm; rfl)
  refine ⟨m, hm, hbuf, ?_, ?_, ?_, hmono⟩
  · intro b hb; exact mi.core.acked b (hacked ▸ hb)
  · intro b hb
    have := Comm_end_le mi.core (mi.core.acked b (hacked ▸ hb))
    omega
  · have := mi.core.hw; omega

/-- The re-open of a crashed reachable state never fails (`RestoreFromS3` meets no index-less
segment below the stored next offset): availability after restart. -/
theorem _root_.KafVerif.C06.restore_succeeds {cfg : Cfg} {c : State} (h : Reachable fixed cfg c)
    (hm : c.mem = none) : ∃ r, step fixed c .restore = some r ∧ r.mem.isSome = true := by
  have : ∃ r, step fixed c .restore = some r := by
    simp only [step, hm]
    split
    · exact ⟨_, rfl⟩
    · split <;> exact ⟨_, rfl⟩
  obtain ⟨r, hr⟩ := this
  exact ⟨r, hr, (inv_restore (reachable_inv h) hr).2⟩

/-- **C06 (no offset reuse).** In every reachable state with the broker up, the next offset to be
assigned lies beyond every acknowledged offset and is not below the published watermark … -/
theorem _root_.KafVerif.C06.next_beyond_acked {cfg : Cfg} {s : State} {m : Mem} (h : Reachable fixed cfg s)
    (hm : s.mem = some m) : (∀ b ∈ s.acked, b.endOff ≤ m.next) ∧ s.hw ≤ m.next := by
  have mi := memInv_of (reachable_inv h) hm
  obtain ⟨mid, c1, c2⟩ := Contig_append.mp mi.contig
  have hnext : segEnd m.segments ≤ m.next := Nat.le_trans (Contig_le c1) (Contig_le c2)
  refine ⟨fun b hb => ?_, Nat.le_trans mi.core.hw hnext⟩
  have := Comm_end_le mi.core (mi.core.acked b hb)
  omega

def batchOf : Pc → Option Batch
  | .appended b => some b
  | .up _ b _ _ _ => some b
  | .failed b => some b      -- offsets were assigned, then `prepareFlush` failed (unreachable in `fixed`: `C01.build_never_fails_reachable`)
  | _ => none

/-- … and that is the base offset `AppendBatch` hands out: a new batch never overlaps an
acknowledged batch or an offset below the watermark, before or after any number of restarts. -/
theorem _root_.KafVerif.C06.append_fresh {cfg : Cfg} {s s' : State} {t n : Nat} {mc : Int} {len : Nat} (h : Reachable fixed cfg s)
    (hs : step fixed s (.append t n mc len) = some s') :
    ∃ b, batchOf (s'.pcs t) = some b ∧ s.hw ≤ b.base ∧ ∀ a ∈ s.acked, a.endOff ≤ b.base := by
  simp only [step] at hs
  split at hs
  case h_2 => simp at hs
  case h_1 m hmem hpc =>
    obtain ⟨h1, h2⟩ := KafVerif.C06.next_beyond_acked h hmem
    by_cases hn : 1 ≤ n ∧ 8 ≤ len
    case neg => simp [hn] at hs
    simp only [hn, and_self, if_true] at hs
    refine ⟨{ id := s.nextId, base := m.next, n := n, mc := mc, len := len }, ?_, h2, h1⟩
    split at hs
    · split at hs <;> (simp only [Option.some.injEq] at hs; subst hs; simp [batchOf, setPc])
    · simp only [Option.some.injEq] at hs; subst hs; simp [batchOf, setPc]

/-! ### pre-fix witness and non-vacuity -/

def crashAfterLostAck : List Ev :=
  [.restore, .wf 0 1, .wf 1 1, .flush 0, .flush 1, .seg 0 true, .idx 0 false, .finish 0,
   .wake 1, .readNext 1, .pub 1 true, .crash, .restore]

/-- after the restart: the log is not open (restore failed) or some acknowledged batch is unreadable -/
def lostAfterRestart (v : Variant) (evs : List Ev) : Bool :=
  match run v (init ⟨0, 0⟩) evs with
  | some s => match s.mem with
    | none => !s.acked.isEmpty
    | some m => s.acked.any fun b => !readableB s m b
  | none => false

/-- **pre-fix witness**: the acknowledged batch is gone after the restart (the orphan segment at
base 0 < next_offset 2 even makes `RestoreFromS3` fail). -/
theorem _root_.KafVerif.C06.old_violates : lostAfterRestart old crashAfterLostAck = true := by decide

/-- crash with an orphan segment (segment uploaded, index upload still pending) after an earlier
acknowledged batch: a reachable state to which `restart` applies, with a leftover object -/
def orphanEvs : List Ev :=
  [.restore, .wf 0 2, .flush 0, .seg 0 true, .idx 0 true, .finish 0, .pub 0 true,
   .wf 1 1, .flush 1, .seg 1 true]

example : ∃ s c r, Reachable fixed ⟨0, 0⟩ s ∧ step fixed s .crash = some c ∧ step fixed c .restore = some r ∧
    s.acked ≠ [] ∧ (s.segs 2).isSome = true ∧ (s.idxs 2).isSome = false := by
  have h : ((run fixed (init ⟨0, 0⟩) orphanEvs).map fun s =>
      (s.acked.length, (s.segs 2).isSome, (s.idxs 2).isSome, s.mem.isSome)) = some (1, true, false, true) := by decide
  cases hr : run fixed (init ⟨0, 0⟩) orphanEvs with
  | none => rw [hr] at h; simp at h
  | some s =>
    rw [hr] at h; simp at h
    obtain ⟨h1, h2, h3, h4⟩ := h
    obtain ⟨m, hm⟩ := Option.isSome_iff_exists.mp h4
    have hreach := reachable_run Reachable.init hr
    have hc : step fixed s .crash = some { s with mem := none, pcs := fun _ => .idle } := by simp [step, hm]
    obtain ⟨r, hr', _⟩ := KafVerif.C06.restore_succeeds (Reachable.step _ hreach hc) rfl
    exact ⟨s, _, r, hreach, hc, hr', by intro hn; simp [hn] at h1, h2, by simp [h3]⟩

end KafVerif.StorageLog

/-! ## The partition-log registry: `getPartitionLog` opens a partition once per incarnation -/

namespace KafVerif.StorageLogRegistry

def isLeader : RPc → Bool
  | .leader _ => true
  | _ => false

def pastRecheck : RPc → Bool
  | .leader .next => true
  | .leader (.restoring _) => true
  | _ => false

structure Inv (s : State) : Prop where
  pubs : s.pubs = if s.reg.isSome then 1 else 0
  lead : ∀ t, isLeader (s.pcs t) = true → s.flight = some t
  past : ∀ t, pastRecheck (s.pcs t) = true → s.reg = none
  got : ∀ t id, s.pcs t = .got id → s.reg = some id

theorem inv_init (topic : Bool) : Inv (init topic) :=
  ⟨by simp [init], fun t h => by simp [init, isLeader] at h, fun t h => by simp [init, pastRecheck] at h,
   fun t id h => by simp [init] at h⟩

/-- setting the pc of one thread to a non-leader pc that is consistent with the registry -/
theorem inv_setPc {s : State} {t : Nat} {pc : RPc} (h : Inv s) (h1 : isLeader pc = false)
    (h2 : ∀ id, pc = .got id → s.reg = some id) : Inv (setPc s t pc) := by
  refine ⟨h.pubs, ?_, ?_, ?_⟩
  · intro j hj; simp only [setPc] at hj
    by_cases hjt : j = t
    · simp [hjt, h1] at hj
    · simp only [hjt, if_false] at hj; exact h.lead j hj
  · intro j hj; simp only [setPc] at hj
    by_cases hjt : j = t
    · simp only [hjt, if_true] at hj
      cases pc <;> simp [pastRecheck, isLeader] at hj h1
    · simp only [hjt, if_false] at hj; exact h.past j hj
  · intro j id hj; simp only [setPc] at hj
    by_cases hjt : j = t
    · simp only [hjt, if_true] at hj; exact h2 id hj
    · simp only [hjt, if_false] at hj; exact h.got j id hj

/-- the leader's call returns a non-leader result consistent with the registry -/
theorem inv_finish {s : State} {t : Nat} {res : RPc} (h : Inv s) (hl : isLeader (s.pcs t) = true)
    (h1 : isLeader res = false) (h2 : ∀ id, res = .got id → s.reg = some id) : Inv (finish s t res) := by
  have huniq : ∀ j, isLeader (s.pcs j) = true → j = t := by
    intro j hj
    have a := h.lead j hj
    have b := h.lead t hl
    rw [a] at b; cases b; rfl
  have hres : ∀ j, (finish s t res).pcs j = res ∨ ((finish s t res).pcs j = s.pcs j ∧ j ≠ t) := by
    intro j; simp only [finish]
    by_cases hjt : j = t
    · simp [hjt]
    · by_cases hw : s.pcs j = .waiter
      · simp [hjt, hw]
      · simp [hjt, hw]
  refine ⟨h.pubs, ?_, ?_, ?_⟩
  · intro j hj
    rcases hres j with hr | ⟨hr, hne⟩
    · rw [hr, h1] at hj; cases hj
    · rw [hr] at hj; exact absurd (huniq j hj) hne
  · intro j hj
    rcases hres j with hr | ⟨hr, hne⟩
    · rw [hr] at hj; cases res <;> simp [pastRecheck, isLeader] at hj h1
    · rw [hr] at hj; exact h.past j hj
  · intro j id hj
    rcases hres j with hr | ⟨hr, _⟩
    · rw [hr] at hj; exact h2 id hj
    · rw [hr] at hj; exact h.got j id hj

theorem inv_step {s s' : State} {e : Ev} (h : Inv s) (hs : step code s e = some s') : Inv s' := by
  cases e with
  | enter t =>
    simp only [step] at hs
    split at hs <;> simp at hs
    subst hs
    cases hr : s.reg with
    | none => exact inv_setPc h (by simp [isLeader]) (fun id hh => by cases hh)
    | some id => exact inv_setPc h (by simp [isLeader]) (fun id' hh => by cases hh; exact hr)
  | doCall t =>
    simp only [step] at hs
    split at hs
    case h_2 => simp at hs
    case h_1 hpc =>
      split at hs
      · simp at hs; subst hs; exact inv_setPc h (by simp [isLeader]) (fun id hh => by cases hh)
      · rename_i hfl
        simp only [code, if_true, Option.some.injEq] at hs; subst hs
        have hnone : ∀ j, isLeader (s.pcs j) = false := by
          intro j
          cases hj : isLeader (s.pcs j) with
          | false => rfl
          | true => have := h.lead j hj; rw [hfl] at this; cases this
        refine ⟨h.pubs, ?_, ?_, ?_⟩
        · intro j hj; simp only [setPc] at hj ⊢
          by_cases hjt : j = t
          · simp [hjt]
          · simp only [hjt, if_false] at hj; rw [hnone j] at hj; cases hj
        · intro j hj; simp only [setPc] at hj
          by_cases hjt : j = t
          · simp [hjt, pastRecheck] at hj
          · simp only [hjt, if_false] at hj; exact h.past j hj
        · intro j id hj; simp only [setPc] at hj
          by_cases hjt : j = t
          · simp [hjt] at hj
          · simp only [hjt, if_false] at hj; exact h.got j id hj
  | recheck t =>
    simp only [step] at hs
    split at hs
    case h_2 => simp at hs
    case h_1 hpc =>
      have hl : isLeader (s.pcs t) = true := by rw [hpc]; rfl
      cases hr : s.reg with
      | some id =>
        simp only [hr, Option.some.injEq] at hs; subst hs
        exact inv_finish h hl (by simp [isLeader]) (fun id' hh => by cases hh; exact hr)
      | none =>
        simp only [hr, Option.some.injEq] at hs; subst hs
        have hfl := h.lead t hl
        refine ⟨h.pubs, ?_, ?_, ?_⟩
        · intro j hj; simp only [setPc] at hj ⊢
          by_cases hjt : j = t
          · rw [hjt]; exact hfl
          · simp only [hjt, if_false] at hj; exact h.lead j hj
        · intro j _; exact hr
        · intro j id hj; simp only [setPc] at hj
          by_cases hjt : j = t
          · simp [hjt] at hj
          · simp only [hjt, if_false] at hj; exact h.got j id hj
  | next t ok =>
    simp only [step] at hs
    split at hs
    case h_2 => simp at hs
    case h_1 hpc =>
      have hl : isLeader (s.pcs t) = true := by rw [hpc]; rfl
      have hreg : s.reg = none := h.past t (by rw [hpc]; rfl)
      split at hs
      · split at hs
        · simp only [Option.some.injEq] at hs; subst hs
          have hfl := h.lead t hl
          refine ⟨h.pubs, ?_, ?_, ?_⟩
          · intro j hj; simp only [setPc] at hj ⊢
            by_cases hjt : j = t
            · rw [hjt]; exact hfl
            · simp only [hjt, if_false] at hj; exact h.lead j hj
          · intro j _; exact hreg
          · intro j id hj; simp only [setPc] at hj
            by_cases hjt : j = t
            · simp [hjt] at hj
            · simp only [hjt, if_false] at hj; exact h.got j id hj
        · simp only [Option.some.injEq] at hs; subst hs
          exact inv_finish h hl (by simp [isLeader]) (fun id hh => by cases hh)
      · simp only [Option.some.injEq] at hs; subst hs
        exact inv_finish h hl (by simp [isLeader]) (fun id hh => by cases hh)
  | publish t ok =>
    simp only [step] at hs
    split at hs
    case h_2 => simp at hs
    case h_1 id hpc =>
      have hl : isLeader (s.pcs t) = true := by rw [hpc]; rfl
      have hreg : s.reg = none := h.past t (by rw [hpc]; rfl)
      split at hs
      · simp only [Option.some.injEq] at hs; subst hs
        -- nobody holds a log yet (the registry is empty), so every `got` after the step is the new id
        have hnogot : ∀ j id', s.pcs j ≠ .got id' := by
          intro j id' hj; have := h.got j id' hj; rw [hreg] at this; cases this
        have hf := inv_finish (res := .got id) (t := t) h hl (by simp [isLeader])
        refine ⟨?_, ?_, ?_, ?_⟩
        · have := h.pubs; simp [hreg] at this; simp [this]
        · intro j hj
          have : isLeader ((finish s t (.got id)).pcs j) = true := hj
          simp only [finish] at this
          by_cases hjt : j = t
          · simp [hjt, isLeader] at this
          · by_cases hw : s.pcs j = .waiter
            · simp [hjt, hw, isLeader] at this
            · simp only [hjt, hw, if_false] at this
              have a := h.lead j this; have b := h.lead t hl; rw [a] at b; cases b; exact absurd rfl hjt
        · intro j hj
          have : pastRecheck ((finish s t (.got id)).pcs j) = true := hj
          simp only [finish] at this
          by_cases hjt : j = t
          · simp [hjt, pastRecheck] at this
          · by_cases hw : s.pcs j = .waiter
            · simp [hjt, hw, pastRecheck] at this
            · simp only [hjt, hw, if_false] at this
              have hlj : isLeader (s.pcs j) = true := by
                cases hp : s.pcs j <;> simp [hp, pastRecheck] at this <;> simp [isLeader]
              have a := h.lead j hlj; have b := h.lead t hl; rw [a] at b; cases b; exact absurd rfl hjt
        · intro j id' hj
          have : (finish s t (.got id)).pcs j = .got id' := hj
          simp only [finish] at this
          by_cases hjt : j = t
          · simp [hjt] at this; simp [this]
          · by_cases hw : s.pcs j = .waiter
            · simp [hjt, hw] at this; simp [this]
            · simp only [hjt, hw, if_false] at this; exact absurd this (hnogot j id')
      · simp only [Option.some.injEq] at hs; subst hs
        exact inv_finish h hl (by simp [isLeader]) (fun id hh => by cases hh)
  | mk t ok =>
    simp only [step] at hs
    split at hs
    case h_2 => simp at hs
    case h_1 hpc =>
      split at hs
      · simp only [Option.some.injEq] at hs; subst hs
        have h' := inv_setPc (s := s) (t := t) (pc := .missed) h (by simp [isLeader]) (fun id hh => by cases hh)
        exact ⟨h'.pubs, h'.lead, h'.past, h'.got⟩
      · simp only [Option.some.injEq] at hs; subst hs
        exact inv_setPc h (by simp [isLeader]) (fun id hh => by cases hh)

theorem reachable_inv {topic : Bool} {s : State} (h : Reachable code topic s) : Inv s := by
  induction h with
  | init => exact inv_init topic
  | step e _ hs ih => exact inv_step ih hs

/-- **C06 (one log per partition).** In every reachable state of `getPartitionLog` as coded (any
number of concurrent first requests, any interleaving of fast path / singleflight / store calls /
auto-create retries, any failures) the registry entry of the partition is written at most once per
broker incarnation, and all goroutines that obtained a PartitionLog obtained the same one, which is
the registered one. -/
theorem _root_.KafVerif.C06.one_log_per_partition {topic : Bool} {s : State} (h : Reachable code topic s) :
    s.pubs ≤ 1 ∧ (∀ t a, s.pcs t = .got a → s.reg = some a) ∧
    (∀ t u a b, s.pcs t = .got a → s.pcs u = .got b → a = b) := by
  have hi := reachable_inv h
  refine ⟨?_, hi.got, ?_⟩
  · have := hi.pubs; split at this <;> omega
  · intro t u a b ha hb
    have x := hi.got t a ha; have y := hi.got u b hb
    rw [x] at y; cases y; rfl

/-- two producers open a partition of a topic that does not exist yet (auto-create): both get
ErrUnknownTopic; the second one creates the topic, opens the log and goes on; then the first one's
CreateTopic returns and it calls Do again -/
def autoCreateRace : List Ev :=
  [.enter 0, .doCall 0, .next 0 true, .enter 1, .doCall 1, .next 1 true,
   .mk 1 true, .doCall 1, .next 1 true, .publish 1 true,
   .mk 0 true, .doCall 0, .next 0 true, .publish 0 true]

def autoCreateRaceCode : List Ev :=
  [.enter 0, .doCall 0, .recheck 0, .next 0 true, .enter 1, .doCall 1, .recheck 1, .next 1 true,
   .mk 1 true, .doCall 1, .recheck 1, .next 1 true, .publish 1 true,
   .mk 0 true, .doCall 0, .recheck 0]

/-- **witness**: without the re-check inside the singleflight callback two PartitionLogs are
created and handed out for one partition (the second overwrites the registry entry). -/
theorem _root_.KafVerif.C06.no_recheck_two_logs :
    ((run noRecheck (init false) autoCreateRace).map fun s => (s.pubs, s.pcs 0, s.pcs 1, s.reg))
      = some (2, .got 1, .got 0, some 1) := by decide

/-- also with an existing topic: a request that missed the fast path and reaches `Do` after the
first call finished -/
theorem _root_.KafVerif.C06.no_recheck_two_logs_late_do :
    ((run noRecheck (init true) [.enter 0, .enter 1, .doCall 0, .next 0 true, .publish 0 true,
        .doCall 1, .next 1 true, .publish 1 true]).map fun s => (s.pubs, s.pcs 0, s.pcs 1))
      = some (2, .got 0, .got 1) := by decide

/-- the code as it is, same race: the late caller finds the registered log in the re-check -/
theorem _root_.KafVerif.C06.recheck_same_schedule :
    ((run code (init false) autoCreateRaceCode).map fun s => (s.pubs, s.pcs 0, s.pcs 1, s.reg))
      = some (1, .got 0, .got 0, some 0) := by decide

end KafVerif.StorageLogRegistry

