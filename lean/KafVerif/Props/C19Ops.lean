import KafVerif.Gen.C18LeaseOps
import KafVerif.Model.LeaseSessionOps
import KafVerif.Model.AcquireAllOps
import KafVerif.Model.Lease
/-!
C19, static tie.  `Gen/C18LeaseOps.lean` is regenerated from the CURRENT `lease_manager.go` (go/ast, `generate` of
checks/C18.py, called from checks/C19.py) before this file is built.  The gate theorems of `Props/C19.lean` assume the C18
lease model; C19's check therefore also carries the C18 obligations `KafVerif.C18.lease_ops_match` … (Props/C18Ops.lean) and,
here, the two facts about session loss the gate depends on by name.
-/
namespace KafVerif.C19
open KafVerif.SrcOps KafVerif.LeaseSessionOps KafVerif.Lease

/-- every statement of the current `lease_manager.go` that forgets the session (`m.session = nil`) clears the ownership
map in the same function under the same conditions (inside the lock) -/
theorem session_drop_clears_owned : sessionDropClearsOwned KafVerif.Gen.C18.rows = true := by decide +kernel

/-- … and these statements are the three the model and the schedules of checks/C19.py know -/
theorem session_drop_sites :
    dropSites KafVerif.Gen.C18.rows = ["getOrCreateSession", "monitorSession", "ReleaseAll"] := by decide +kernel

/-- the model side of the same fact: observing the loss of the session (whoever observes it: `monitorSession` or the
`Done()` branch of `getOrCreateSession` inside an Acquire of another partition) leaves the broker owning NOTHING, so the
next produce to a partition of the dead session has to go through a fresh Acquire. -/
theorem session_loss_drops_all (v : Variant) (s : State) (b : Nat) (h : (s.mgr b).session ≠ none) (r : Nat) :
    owns (step v s (.sessionLost b)).1 b r = false := by
  cases hs : (s.mgr b).session with
  | none => exact absurd hs h
  | some l => simp [step, hs, owns, setMgr]

/-- other brokers are not touched by it -/
theorem session_loss_local (v : Variant) (s : State) (b b' : Nat) (hb : b' ≠ b) (r : Nat) :
    owns (step v s (.sessionLost b)).1 b' r = owns s b' r := by
  cases hs : (s.mgr b).session with
  | none => simp [step, hs]
  | some l => simp [step, hs, owns, setMgr, hb]

/-! ### `PartitionLeaseManager.AcquireAll`: no result slot is left at its zero value

`acquirePartitionLeases` reads `Err == nil` as "lease held"; a slot starts as nil.  The model (`ProduceGate.acquireAll`) writes
every slot of a not-yet-owned partition from the return value of its Acquire (`KafVerif.C19.acquireAll_slot_from_acquire`), also
under cancellation (`cancelled_acquire_is_error`).  These two obligations tie that to the CURRENT source. -/

/-- the skeleton of `AcquireAll` regenerated from partition_lease.go IS the one the model was written against -/
theorem acquireall_ops_match : KafVerif.Gen.C18.acquireAllRows = KafVerif.AcquireAllOps.expected := by rfl

/-- tolerant form (names WHAT broke): every return of `AcquireAll` is "nothing to acquire" or comes after the join of the
fan-out, outside any `select`/loop; the error slot is stored directly from an `Acquire` call's return value, never through a
channel message or under a race; the to-acquire list is "every partition that is not owned". -/
theorem acquireAll_no_zero_value_result :
    KafVerif.AcquireAllOps.noZeroValueResult KafVerif.Gen.C18.acquireAllRows = true := by decide +kernel

/-! non-vacuity: the channel-collecting variant that stops on `ctx.Done()` is rejected (early return inside the collection
loop, slot written from a channel message); so is a variant that simply forgets the join -/
example : KafVerif.AcquireAllOps.noZeroValueResult
    [⟨"AcquireAll", ["for i, p := range partitions", "!m.lm.Owns(partitionResourceID(p.Topic, p.Partition))"], [], .write "needAcquire" "" "append(needAcquire, i)" false⟩,
     ⟨"AcquireAll", ["len(needAcquire) == 0"], ["needAcquire"], .ret ["results"]⟩,
     ⟨"AcquireAll", ["len(needAcquire) != 0", "for _, idx := range needAcquire", "in func literal"], ["needAcquire"], .call "Acquire" ["ctx", "partitions[idx].Topic", "partitions[idx].Partition"] false⟩,
     ⟨"AcquireAll", ["len(needAcquire) != 0", "for _ := range needAcquire", "select <-make(chan outcome, len(needAcquire))"], ["needAcquire"], .write "results[o.idx].Err" "" "o.err" false⟩,
     ⟨"AcquireAll", ["len(needAcquire) != 0", "for _ := range needAcquire", "select <-ctx.Done()"], ["needAcquire"], .ret ["results"]⟩,
     ⟨"AcquireAll", ["len(needAcquire) != 0"], ["needAcquire"], .ret ["results"]⟩] = false := by decide +kernel
example : KafVerif.AcquireAllOps.noZeroValueResult
    [⟨"AcquireAll", ["for i, p := range partitions", "!m.lm.Owns(partitionResourceID(p.Topic, p.Partition))"], [], .write "needAcquire" "" "append(needAcquire, i)" false⟩,
     ⟨"AcquireAll", ["len(needAcquire) == 0"], ["needAcquire"], .ret ["results"]⟩,
     ⟨"AcquireAll", ["len(needAcquire) != 0", "for _, idx := range needAcquire", "in func literal"], ["needAcquire"], .write "results[idx].Err" "" "Acquire#1.0" false⟩,
     ⟨"AcquireAll", ["len(needAcquire) != 0"], ["needAcquire"], .ret ["results"]⟩] = false := by decide +kernel
example : KafVerif.AcquireAllOps.noZeroValueResult KafVerif.AcquireAllOps.expected = true := by decide +kernel

/-! non-vacuity: the `liveSession()` refactoring (session dropped, map kept) is rejected; the current shape is accepted -/
example : sessionDropClearsOwned
    [⟨"liveSession", ["m.session != nil", "select <-m.session.Done()"], [], .write "m.session" "" "nil" true⟩,
     ⟨"monitorSession", ["m.session == session"], [], .write "m.session" "" "nil" true⟩,
     ⟨"monitorSession", ["m.session == session"], [], .write "m.owned" "" "make(map[string]int64)" true⟩] = false := by decide +kernel
example : sessionDropClearsOwned
    [⟨"getOrCreateSession", ["m.session != nil", "select <-m.session.Done()"], [], .write "m.session" "" "nil" true⟩,
     ⟨"getOrCreateSession", ["m.session != nil", "select <-m.session.Done()"], [], .write "m.owned" "" "make(map[string]int64)" true⟩] = true := by decide +kernel
example : owns (step .byRev { init with mgr := fun _ => { closed := false, session := some 0, owned := fun _ => some 1 } } (.sessionLost 0)).1 0 5 = false := by
  decide

end KafVerif.C19
