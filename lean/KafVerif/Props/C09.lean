import KafVerif.Model.Cache
/-!
C09 — The segment cache stays within capacity and returns current bytes.

Statement (properties.jsonl): the cache never holds more bytes than its capacity after any
operation; a lookup returns exactly the bytes most recently stored under that key, or a miss;
bytes already handed to a reader never change afterwards.  Quantifier: every sequence of
set/get operations over overlapping keys and sizes, including entries larger than capacity.

All three theorems are for EVERY capacity and EVERY operation list (induction over the list).
-/
namespace KafVerif.Cache

/-! ### helper lemmas -/

theorem mem_evictN {heap cap n l e} (h : e ∈ evictN heap cap n l) : e ∈ l := by
  induction n generalizing l with
  | zero => simpa [evictN] using h
  | succ n ih =>
    unfold evictN at h
    split at h
    · exact List.dropLast_subset _ (ih h)
    · exact h

theorem mem_evict {heap cap l e} (h : e ∈ evict heap cap l) : e ∈ l := mem_evictN h

theorem evictN_size (heap : List Bytes) (cap n : Nat) (l : List (Nat × Nat)) (hl : l.length ≤ n) :
    sizeOf heap (evictN heap cap n l) ≤ cap := by
  induction n generalizing l with
  | zero =>
    have : l = [] := List.length_eq_zero_iff.mp (by omega)
    subst this; simp [evictN, sizeOf]
  | succ n ih =>
    unfold evictN
    split
    · exact ih _ (by simp [List.length_dropLast]; omega)
    · omega

theorem evict_size (heap : List Bytes) (cap : Nat) (l : List (Nat × Nat)) :
    sizeOf heap (evict heap cap l) ≤ cap := evictN_size heap cap _ l (Nat.le_refl _)

theorem sizeOf_filter_le (heap : List Bytes) (l : List (Nat × Nat)) (p : Nat × Nat → Bool) :
    sizeOf heap (l.filter p) ≤ sizeOf heap l := by
  induction l with
  | nil => simp [sizeOf]
  | cons a t ih =>
    simp only [sizeOf, List.filter_cons] at *
    split <;> simp only [List.map_cons, List.sum_cons] <;> omega

theorem lookup_size {heap : List Bytes} {l : List (Nat × Nat)} {k : Nat} {b : Nat}
    (h : lookup l k = some b) :
    bufLen heap b + sizeOf heap (l.filter fun e => e.1 != k) ≤ sizeOf heap l := by
  induction l with
  | nil => simp [lookup] at h
  | cons a t ih =>
    unfold lookup at h
    simp only [List.find?_cons] at h
    by_cases hk : (a.1 == k) = true
    · simp only [hk, Option.map_some, Option.some.injEq] at h
      subst h
      have hne : (a.1 != k) = false := by simp [bne, hk]
      simp only [sizeOf, List.filter_cons, hne, List.map_cons, List.sum_cons]
      have := sizeOf_filter_le heap t (fun e => e.1 != k)
      simp only [sizeOf] at this
      simp; omega
    · have hk' : (a.1 == k) = false := by simpa using hk
      simp only [hk'] at h
      have hne : (a.1 != k) = true := by simp [bne, hk']
      have := ih (by unfold lookup; exact h)
      simp only [sizeOf, List.filter_cons, hne, List.map_cons, List.sum_cons] at *
      simp; omega

@[simp] theorem set_heap (c : Cache) (k : Nat) (d : Bytes) : (set c k d).heap = c.heap ++ [d] := rfl
@[simp] theorem set_out (c : Cache) (k : Nat) (d : Bytes) : (set c k d).out = c.out := rfl
@[simp] theorem set_capacity (c : Cache) (k : Nat) (d : Bytes) : (set c k d).capacity = c.capacity := rfl
theorem set_lru (c : Cache) (k : Nat) (d : Bytes) :
    (set c k d).lru = evict (c.heap ++ [d]) c.capacity (moveToFront c.lru k c.heap.length) := rfl

/-! ### (1) capacity -/

/-- After a `set` the accounted size is within capacity, whatever the state was before —
including an entry larger than the whole capacity (it evicts itself). -/
theorem set_size_le (c : Cache) (k : Nat) (d : Bytes) : (set c k d).size ≤ (set c k d).capacity := by
  simp only [set, Cache.size]
  exact evict_size _ _ _

theorem get_size_le (c : Cache) (k : Nat) (h : c.size ≤ c.capacity) :
    (get c k).1.size ≤ (get c k).1.capacity := by
  unfold get
  split
  · rename_i b hb
    simp only [Cache.size, moveToFront, sizeOf, List.map_cons, List.sum_cons] at *
    have := lookup_size (heap := c.heap) hb
    simp only [sizeOf] at this
    simp; omega
  · exact h

theorem step_size_le (c : Cache) (op : Op) (h : c.size ≤ c.capacity) :
    (step c op).size ≤ (step c op).capacity := by
  cases op with
  | set k d => exact set_size_le c k d
  | get k => exact get_size_le c k h

/-- **C09 (capacity).** In every state reachable from an empty cache of any capacity by any
operation sequence, the bytes held do not exceed the capacity. -/
theorem _root_.KafVerif.C09.size_le_cap (capacityBytes : Int) (ops : List Op) :
    (ops.foldl step (new capacityBytes)).size ≤ (ops.foldl step (new capacityBytes)).capacity := by
  have h0 : (new capacityBytes).size ≤ (new capacityBytes).capacity := by
    simp [new, Cache.size, sizeOf]
  generalize new capacityBytes = c at h0
  induction ops generalizing c with
  | nil => simpa using h0
  | cons op ops ih => exact ih _ (step_size_le c op h0)

/-! ### (3) handed-out bytes never change (heap is append-only) -/

def Inv (c : Cache) : Prop :=
  (∀ e ∈ c.lru, e.2 < c.heap.length) ∧ (∀ p ∈ c.out, p.1 < c.heap.length ∧ c.heap.getD p.1 [] = p.2)

theorem getD_append_lt {heap : List Bytes} {d : Bytes} {i : Nat} (h : i < heap.length) :
    (heap ++ [d]).getD i [] = heap.getD i [] := by
  simp [List.getD, List.getElem?_append_left h]

theorem lookup_mem {l : List (Nat × Nat)} {k : Nat} {b : Nat} (h : lookup l k = some b) :
    (k, b) ∈ l := by
  unfold lookup at h
  cases hf : l.find? (fun e => e.1 == k) with
  | none => simp [hf] at h
  | some e =>
    simp only [hf, Option.map_some, Option.some.injEq] at h
    have hm := List.mem_of_find?_eq_some hf
    have hp := List.find?_some hf
    have : e.1 = k := by simpa using hp
    subst h; subst this; exact hm

theorem inv_set (c : Cache) (k : Nat) (d : Bytes) (h : Inv c) : Inv (set c k d) := by
  obtain ⟨h1, h2⟩ := h
  refine ⟨?_, ?_⟩
  · intro e he
    rw [set_lru] at he
    have he := mem_evict he
    simp only [moveToFront, List.mem_cons, List.mem_filter] at he
    rw [set_heap, List.length_append]
    rcases he with rfl | ⟨hm, _⟩
    · simp
    · have := h1 e hm; simp; omega
  · intro p hp
    have := h2 p hp
    rw [set_heap, List.length_append]
    exact ⟨by simp; omega, by rw [getD_append_lt this.1]; exact this.2⟩

theorem inv_get (c : Cache) (k : Nat) (h : Inv c) : Inv (get c k).1 := by
  obtain ⟨h1, h2⟩ := h
  unfold get
  split
  · rename_i b hb
    have hb' := h1 _ (lookup_mem hb)
    refine ⟨?_, ?_⟩
    · intro e he
      simp only [moveToFront, List.mem_cons, List.mem_filter] at he
      rcases he with rfl | ⟨hm, _⟩
      · exact hb'
      · exact h1 e hm
    · intro p hp
      simp only [List.mem_cons] at hp
      rcases hp with rfl | hp
      · exact ⟨hb', rfl⟩
      · exact h2 p hp
  · exact ⟨h1, h2⟩

theorem inv_step (c : Cache) (op : Op) (h : Inv c) : Inv (step c op) := by
  cases op with
  | set k d => exact inv_set c k d h
  | get k => exact inv_get c k h

theorem inv_reach (capacityBytes : Int) (ops : List Op) : Inv (ops.foldl step (new capacityBytes)) := by
  have h0 : Inv (new capacityBytes) := by simp [Inv, new]
  generalize new capacityBytes = c at h0
  induction ops generalizing c with
  | nil => simpa using h0
  | cons op ops ih => exact ih _ (inv_step c op h0)

/-- **C09 (no mutation after hand-out).** In every reachable state every byte slice that was
ever returned by a lookup still holds exactly the bytes its reader saw. -/
theorem _root_.KafVerif.C09.handout_stable (capacityBytes : Int) (ops : List Op) :
    Stable (ops.foldl step (new capacityBytes)) :=
  fun p hp => ((inv_reach capacityBytes ops).2 p hp).2

/-! ### (2) a lookup returns the most recently stored bytes, or a miss -/

/-- Spec: the bytes most recently stored under `k` by the operations so far. -/
def lastSet (k : Nat) : List Op → Option Bytes
  | [] => none
  | ops@(_ :: _) => ops.foldl (fun acc op => match op with
      | .set k' d => if k' = k then some d else acc
      | .get _ => acc) none

def lastSetStep (k : Nat) (acc : Option Bytes) : Op → Option Bytes
  | .set k' d => if k' = k then some d else acc
  | .get _ => acc

/-- every entry holds the last bytes stored under its key (`f` = spec map so far) -/
def Cur (f : Nat → Option Bytes) (c : Cache) : Prop :=
  (∀ e ∈ c.lru, e.2 < c.heap.length) ∧ ∀ e ∈ c.lru, f e.1 = some (c.heap.getD e.2 [])

theorem cur_set (f : Nat → Option Bytes) (c : Cache) (k : Nat) (d : Bytes) (h : Cur f c) :
    Cur (fun k' => if k' = k then some d else f k') (set c k d) := by
  obtain ⟨h1, h2⟩ := h
  have hlen : ∀ e ∈ (set c k d).lru, e.2 < (set c k d).heap.length := by
    intro e he
    rw [set_lru] at he
    have he := mem_evict he
    simp only [moveToFront, List.mem_cons, List.mem_filter] at he
    rw [set_heap, List.length_append]
    rcases he with rfl | ⟨hm, _⟩
    · simp
    · have := h1 e hm; simp; omega
  refine ⟨hlen, ?_⟩
  intro e he
  rw [set_lru] at he
  have he := mem_evict he
  simp only [moveToFront, List.mem_cons, List.mem_filter] at he
  rw [set_heap]
  rcases he with rfl | ⟨hm, hne⟩
  · simp [List.getD]
  · have hk : e.1 ≠ k := by simpa using hne
    simp only [hk, if_false]
    rw [getD_append_lt (h1 e hm)]
    exact h2 e hm

theorem cur_get (f : Nat → Option Bytes) (c : Cache) (k : Nat) (h : Cur f c) : Cur f (get c k).1 := by
  obtain ⟨h1, h2⟩ := h
  unfold get
  split
  · rename_i b hb
    have hm := lookup_mem hb
    refine ⟨?_, ?_⟩
    · intro e he
      simp only [moveToFront, List.mem_cons, List.mem_filter] at he
      rcases he with rfl | ⟨hm', _⟩
      · exact h1 _ hm
      · exact h1 e hm'
    · intro e he
      simp only [moveToFront, List.mem_cons, List.mem_filter] at he
      rcases he with rfl | ⟨hm', _⟩
      · exact h2 _ hm
      · exact h2 e hm'
  · exact ⟨h1, h2⟩

def specStep (f : Nat → Option Bytes) : Op → (Nat → Option Bytes)
  | .set k d => fun k' => if k' = k then some d else f k'
  | .get _ => f

theorem cur_reach (c : Cache) (f : Nat → Option Bytes) (ops : List Op) (h : Cur f c) :
    Cur (ops.foldl specStep f) (ops.foldl step c) := by
  induction ops generalizing c f with
  | nil => simpa using h
  | cons op ops ih =>
    simp only [List.foldl_cons]
    apply ih
    cases op with
    | set k d => exact cur_set f c k d h
    | get k => exact cur_get f c k h

/-- **C09 (current bytes).** After any operation sequence on a fresh cache, a lookup of `k`
is a miss or returns exactly the bytes of the last `set` of `k` in the sequence
(`specStep` folds the sequence into the abstract map key ↦ last stored bytes). -/
theorem _root_.KafVerif.C09.get_last_set (capacityBytes : Int) (ops : List Op) (k : Nat) :
    (get (ops.foldl step (new capacityBytes)) k).2 = none ∨
    (get (ops.foldl step (new capacityBytes)) k).2 = (ops.foldl specStep (fun _ => none)) k := by
  have hc : Cur (fun _ => none) (new capacityBytes) := by simp [Cur, new]
  have h := cur_reach _ _ ops hc
  generalize ops.foldl step (new capacityBytes) = c at h ⊢
  generalize ops.foldl specStep (fun _ => none) = f at h ⊢
  unfold get
  split
  · rename_i b hb
    right
    have := h.2 _ (lookup_mem hb)
    simp only at this ⊢
    exact this.symm
  · left; rfl

theorem evictN_head (heap : List Bytes) (cap : Nat) (e : Nat × Nat)
    (hfit : sizeOf heap [e] ≤ cap) (n : Nat) (l : List (Nat × Nat)) :
    (evictN heap cap n (e :: l)).head? = some e := by
  induction n generalizing l with
  | zero => simp [evictN]
  | succ n ih =>
    unfold evictN
    split
    · rename_i hgt
      cases l with
      | nil => omega
      | cons a t =>
        have : (e :: a :: t).dropLast = e :: (a :: t).dropLast := by simp [List.dropLast]
        rw [this]; exact ih _
    · simp

/-- a stored entry that fits the capacity is found by the next lookup (a hit, not merely
"miss allowed") -/
theorem _root_.KafVerif.C09.get_after_set_hit (c : Cache) (k : Nat) (d : Bytes) (hfit : d.length ≤ c.capacity) :
    (get (set c k d) k).2 = some d := by
  have hh : (set c k d).lru.head? = some (k, c.heap.length) := by
    rw [set_lru]; unfold evict moveToFront
    apply evictN_head
    simp [sizeOf, bufLen, List.getD]; omega
  unfold get lookup
  cases hlru : (set c k d).lru with
  | nil => rw [hlru] at hh; simp at hh
  | cons a t =>
    rw [hlru] at hh
    simp only [List.head?_cons, Option.some.injEq] at hh
    subst hh
    simp [List.getD]

/-! ### the pre-fix code violates the hand-out clause (kept so a regression is recognised) -/

theorem _root_.KafVerif.C09.setOld_violates :
    ∃ ops : List Op, ¬ Stable (ops.foldl stepOld (new 16)) := by
  refine ⟨[.set 0 [1, 1], .get 0, .set 0 [2, 2]], ?_⟩
  intro h
  have := h (0, [1, 1]) (by decide)
  revert this; decide

/-! ### non-vacuity: a concrete non-trivial reachable state (eviction happened, entry > capacity) -/

example : (([.set 0 [1,2,3], .set 1 [4,5,6], .get 0, .set 2 [7,8,9,10,11], .set 3 [1,2,3,4,5,6,7,8,9]] : List Op).foldl
    step (new 8)).lru = [] := by decide
example : (get (([.set 0 [1,2,3], .set 1 [4,5,6], .get 0, .set 2 [7,8]] : List Op).foldl step (new 8)) 0).2
    = some [1,2,3] := by decide

end KafVerif.Cache

