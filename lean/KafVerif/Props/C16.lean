import KafVerif.Lemmas.GroupStep
/-!
C16 — Committed offsets read back exactly; never-committed reads −1.

Statement (properties.jsonl): an offset fetch returns, for each group, topic and partition, the
offset and metadata of the last successful commit; commits to one group, topic or partition never
affect another, whatever characters the names contain; a partition with no commit returns −1.

Model: `commit` / `fetch` of `KafVerif.Group` over the store's offset map, which after the fix
(fixes/C16-inmemory-offset-key-aliasing) is keyed by the (group, topic, partition) struct; names are
abstract ids, the harness instantiates them with names containing ':' and '/'.  The old string key
`"%s:%s:%d"` is modelled below (`consumerKeyOld`) with the witness that it aliases.
-/
namespace KafVerif.Group

abbrev OKey := Nat × Nat × Int
abbrev OVal := Int × Nat

theorem getOffset_putOffset (offs : List (OKey × OVal)) (k k' : OKey) (val : OVal) :
    getOffset (putOffset offs k val) k' = if k = k' then some val else getOffset offs k' := by
  induction offs with
  | nil => simp [putOffset, getOffset]
  | cons e t ih =>
    by_cases h : e.1 = k
    · by_cases h2 : k = k'
      · simp [putOffset, getOffset, h, h2]
      · have : ¬ e.1 = k' := by rw [h]; exact h2
        simp [putOffset, getOffset, h, h2]
    · by_cases h2 : k = k'
      · subst h2
        simp [putOffset, getOffset, h, ih]
      · by_cases h3 : e.1 = k'
        · have h4 : ¬ k' = k := fun hh => h2 hh.symm
          simp [putOffset, getOffset, h3, h2, h4]
        · simp [putOffset, getOffset, h, h2, h3, ih]

@[simp] theorem clearFetchGroup_offsets (s : State) : (clearFetchGroup s).offsets = s.offsets := rfl

/-! ### the specification: a map from keys to the last successfully committed value -/

abbrev OffSpec := OKey → Option OVal

/-- apply the entries of one OffsetCommit whose reply code is NONE, in request order -/
def applyCodes (m : OffSpec) (g : Nat) : List (Nat × Int × Int × Nat) → List (Nat × Int × Int) → OffSpec
  | (t, p, off, md) :: ps, (_, _, c) :: cs =>
    applyCodes (if c = NONE then fun k => if (g, t, p) = k then some (off, md) else m k else m) g ps cs
  | _, _ => m

def specStep (m : OffSpec) : Op × Reply → OffSpec
  | (.commit g _ _ parts, .commit codes) => applyCodes m g parts codes
  | _ => m

/-- the replies of a history started in `s` -/
def trace (s : State) : List Op → List (Op × Reply)
  | [] => []
  | op :: ops => (op, (step s op).2) :: trace (step s op).1 ops

def specOf (tr : List (Op × Reply)) : OffSpec := tr.foldl specStep (fun _ => none)

theorem commitWrites_spec (s : State) (g : Nat) (parts : List (Nat × Int × Int × Nat)) (m : OffSpec)
    (h : ∀ k, getOffset s.offsets k = m k) :
    ∀ k, getOffset (commitWrites s g parts).1.offsets k = applyCodes m g parts (commitWrites s g parts).2 k := by
  induction parts generalizing s m with
  | nil => simpa [commitWrites, applyCodes] using h
  | cons e t ih =>
    obtain ⟨tp, p, off, md⟩ := e
    unfold commitWrites
    split
    · simp only [applyCodes]
      have : ¬ (UNKNOWN_SERVER_ERROR = NONE) := by decide
      simp only [this, if_false]
      exact ih _ m h
    · simp only [applyCodes, if_true]
      refine ih _ _ ?_
      intro k
      simp only [getOffset_putOffset, h]

theorem applyCodes_rejected (m : OffSpec) (g : Nat) (parts : List (Nat × Int × Int × Nat)) (code : Int) (hc : code ≠ NONE) :
    applyCodes m g parts (parts.map fun e => (e.1, e.2.1, code)) = m := by
  induction parts with
  | nil => rfl
  | cons e t ih =>
    obtain ⟨tp, p, off, md⟩ := e
    simp only [List.map_cons, applyCodes, hc, if_false]
    exact ih

/-- one step keeps "the store's offset map is the specification map" -/
theorem step_spec (s : State) (op : Op) (m : OffSpec) (h : ∀ k, getOffset s.offsets k = m k) :
    ∀ k, getOffset (step s op).1.offsets k = specStep m (op, (step s op).2) k := by
  cases op with
  | commit g mid gen parts =>
    simp only [step, stepV, commit]
    split
    · intro k; simp only [specStep]; exact h k
    · rename_i s1 st hl
      have hf := loadGroup_frame hl
      split
      · simp only [specStep]
        exact commitWrites_spec s1 g parts m (by intro k; rw [hf.offsets]; exact h k)
      · rename_i hc
        simp only [specStep]
        rw [applyCodes_rejected m g parts _ hc, hf.offsets]
        exact h
  | join g mid se rb pt pr nk => simpa [step, stepV, specStep, (join_frame _ s g mid se rb pt pr nk).offsets] using h
  | sync g mid gen => simpa [step, stepV, specStep, (sync_frame _ s g mid gen).offsets] using h
  | heartbeat g mid gen => simpa [step, stepV, specStep, (heartbeat_frame _ s g mid gen).offsets] using h
  | leave g mid => simpa [step, stepV, specStep, (leave_frame _ s g mid).offsets] using h
  | fetch g parts => simpa [step, stepV, specStep, fetch, fetchRows_offsets] using h
  | tick d => simpa [step, stepV, specStep] using h
  | cleanup => simpa [step, stepV, specStep, (cleanup_frame _ s).offsets] using h
  | failover => simpa [step, stepV, specStep] using h
  | load g =>
    simp only [step, stepV, specStep]
    split
    · simpa using h
    · rename_i s1 o hl; rw [(loadGroup_frame hl).offsets]; exact h
  | fail k => simpa [step, stepV, specStep] using h
  | setMeta tm => simpa [step, stepV, specStep] using h

theorem run_spec (s : State) (ops : List Op) (m : OffSpec) (h : ∀ k, getOffset s.offsets k = m k) :
    ∀ k, getOffset (run s ops).offsets k = (trace s ops).foldl specStep m k := by
  induction ops generalizing s m with
  | nil => simpa [run, trace] using h
  | cons op ops ih =>
    simp only [run, List.foldl_cons, trace]
    exact ih _ _ (step_spec s op m h)

/-- **C16 (refinement).** After ANY history (joins, syncs, expiries, failovers, store faults, commits
from current and stale members …) the store holds for every key exactly the value of the last
successful commit to that key in the history — and nothing for a key never committed. -/
theorem store_is_last_commit (ops : List Op) (k : OKey) :
    getOffset (run init ops).offsets k = specOf (trace init ops) k :=
  run_spec init ops (fun _ => none) (by intro k; rfl) k

/-- rows of an `OffsetFetch` answer read the store: value of the key, or −1 with empty metadata -/
theorem fetchRows_rows (s : State) (g : Nat) (parts : List (Nat × Int)) :
    ∀ row ∈ (fetchRows fixed s g parts).2, row.2.2.2.2 = NONE →
      (row.2.2.1, row.2.2.2.1) = (getOffset s.offsets (g, row.1, row.2.1)).getD (-1, 0) := by
  induction parts generalizing s with
  | nil => simp [fetchRows]
  | cons e t ih =>
    obtain ⟨tp, p⟩ := e
    unfold fetchRows
    split
    · intro row hrow hcode
      simp only [List.mem_cons] at hrow
      rcases hrow with rfl | hrow
      · simp [UNKNOWN_SERVER_ERROR, NONE] at hcode
      · have h2 := ih _ row hrow hcode
        exact h2
    · intro row hrow hcode
      simp only [List.mem_cons] at hrow
      rcases hrow with rfl | hrow
      · cases hg : getOffset s.offsets (g, tp, p) with
        | none => simp [hg, fixed]
        | some val => simp [hg]
      · have h2 := ih _ row hrow hcode
        exact h2

/-- **C16 (fetch returns the last commit, −1 if none).** For every history `ops` and every
`OffsetFetch` issued after it: each row answered without error carries the offset and metadata of
the last successful commit to (group, topic, partition) in `ops`, and offset −1 / empty metadata
when the history holds no successful commit to that key. -/
theorem _root_.KafVerif.C16.fetch_last_commit (ops : List Op) (g : Nat) (parts : List (Nat × Int)) (rows : List (Nat × Int × Int × Nat × Int))
    (hr : (step (run init ops) (.fetch g parts)).2 = .fetch rows) :
    ∀ row ∈ rows, row.2.2.2.2 = NONE →
      (row.2.2.1, row.2.2.2.1) = (specOf (trace init ops) (g, row.1, row.2.1)).getD (-1, 0) := by
  simp only [step, stepV, fetch, Reply.fetch.injEq] at hr
  subst hr
  intro row hrow hcode
  rw [← store_is_last_commit]
  exact fetchRows_rows _ g parts row hrow hcode

/-- **C16 (never committed reads −1).** -/
theorem _root_.KafVerif.C16.never_committed_minus_one (ops : List Op) (g : Nat) (parts : List (Nat × Int))
    (rows : List (Nat × Int × Int × Nat × Int)) (hr : (step (run init ops) (.fetch g parts)).2 = .fetch rows)
    (row : Nat × Int × Int × Nat × Int) (hrow : row ∈ rows) (hcode : row.2.2.2.2 = NONE)
    (hnone : specOf (trace init ops) (g, row.1, row.2.1) = none) : row.2.2.1 = -1 ∧ row.2.2.2.1 = 0 := by
  have := KafVerif.C16.fetch_last_commit ops g parts rows hr row hrow hcode
  rw [hnone] at this
  simpa using this

theorem applyCodes_other (g : Nat) (k : OKey) (parts : List (Nat × Int × Int × Nat)) (hk : ∀ e ∈ parts, (g, e.1, e.2.1) ≠ k) :
    ∀ (codes : List (Nat × Int × Int)) (m : OffSpec), applyCodes m g parts codes k = m k := by
  induction parts with
  | nil => intro codes m; cases codes <;> rfl
  | cons e t ih =>
    intro codes m
    obtain ⟨tp, p, off, md⟩ := e
    cases codes with
    | nil => rfl
    | cons c cs =>
      obtain ⟨c1, c2, c⟩ := c
      simp only [applyCodes]
      rw [ih (fun e he => hk e (List.mem_cons_of_mem _ he))]
      split
      · have := hk (tp, p, off, md) (by simp)
        simp [this]
      · rfl

/-- **C16 (no interference).** An OffsetCommit leaves every key it does not name unchanged, in
every state and whatever the member / generation / store faults are. -/
theorem _root_.KafVerif.C16.no_interference (s : State) (g mid : Nat) (gen : Int) (parts : List (Nat × Int × Int × Nat)) (k : OKey)
    (hk : ∀ e ∈ parts, (g, e.1, e.2.1) ≠ k) :
    getOffset (step s (.commit g mid gen parts)).1.offsets k = getOffset s.offsets k := by
  have h := step_spec s (.commit g mid gen parts) (fun k => getOffset s.offsets k) (fun _ => rfl) k
  rw [h]
  generalize (step s (.commit g mid gen parts)).2 = r
  cases r with
  | commit codes => simp only [specStep]; exact applyCodes_other g k parts hk codes _
  | _ => rfl

/-! ### the old string key of the in-memory store aliases -/

/-- `fmt.Sprintf("%s:%s:%d", group, topic, partition)` over character lists (partition ≥ 0) -/
def consumerKeyOld (group topic : List Char) (partition : Nat) : List Char :=
  group ++ [':'] ++ topic ++ [':'] ++ (Nat.repr partition).toList

/-- **C16 (pre-fix defect, witness).** Two different (group, topic) pairs get the same key: a
commit for group `a:b` / topic `c` was read back for group `a` / topic `b:c`. -/
theorem _root_.KafVerif.C16.consumerKeyOld_aliases :
    ∃ g t g' t' p, (g, t) ≠ (g', t') ∧ consumerKeyOld g t p = consumerKeyOld g' t' p :=
  ⟨"a:b".toList, "c".toList, "a".toList, "b:c".toList, 0, by decide, by decide⟩

theorem append_sep_inj {c : Char} : ∀ (a a' r r' : List Char), c ∉ a → c ∉ a' → a ++ c :: r = a' ++ c :: r' → a = a' ∧ r = r'
  | [], [], r, r', _, _, h => by simp at h; exact ⟨rfl, h⟩
  | [], x :: a', r, r', _, h2, h => by
    simp only [List.nil_append, List.cons_append, List.cons.injEq] at h
    exact absurd (by rw [← h.1]; simp) h2
  | x :: a, [], r, r', h1, _, h => by
    simp only [List.nil_append, List.cons_append, List.cons.injEq] at h
    exact absurd (by rw [h.1]; simp) h1
  | x :: a, y :: a', r, r', h1, h2, h => by
    simp only [List.cons_append, List.cons.injEq] at h
    have := append_sep_inj a a' r r' (fun hh => h1 (List.mem_cons_of_mem _ hh)) (fun hh => h2 (List.mem_cons_of_mem _ hh)) h.2
    exact ⟨by rw [h.1, this.1], this.2⟩

/-- The old key IS injective on names without the separator: the defect needs a ':' in a name. -/
theorem consumerKeyOld_injective_sepfree (g t g' t' : List Char) (p : Nat)
    (hg : ':' ∉ g) (hg' : ':' ∉ g') (ht : ':' ∉ t) (ht' : ':' ∉ t')
    (h : consumerKeyOld g t p = consumerKeyOld g' t' p) : g = g' ∧ t = t' := by
  unfold consumerKeyOld at h
  simp only [List.append_assoc, List.singleton_append] at h
  obtain ⟨h1, h2⟩ := append_sep_inj g g' _ _ hg hg' h
  obtain ⟨h3, _⟩ := append_sep_inj t t' _ _ ht ht' h2
  exact ⟨h1, h3⟩

/-- `consumerOffsetKey` of the etcd store: "/kafscale/consumers/<group>/offsets/<topic>/<partition>" -/
def etcdOffsetKey (group topic : List Char) (partition : Nat) : List Char :=
  "/kafscale/consumers/".toList ++ group ++ "/offsets/".toList ++ topic ++ ['/'] ++ (Nat.repr partition).toList

/-- **C16 (etcd store, known finding — witness).** The etcd key aliases for names containing '/':
group `a/offsets/b` + topic `c` and group `a` + topic `b/offsets/c` share one key. -/
theorem _root_.KafVerif.C16.etcdOffsetKey_aliases :
    ∃ g t g' t' p, (g, t) ≠ (g', t') ∧ etcdOffsetKey g t p = etcdOffsetKey g' t' p :=
  ⟨"a/offsets/b".toList, "c".toList, "a".toList, "b/offsets/c".toList, 0, by decide, by decide⟩

/-- **C16 (pre-fix defect, witness).** Before the fix `OffsetFetch` answered 0 for a partition that
was never committed. -/
theorem _root_.KafVerif.C16.fetchOld_violates :
    (stepV { c16Old := true } init (.fetch 1 [(0, 0)])).2 = .fetch [(0, 0, 0, 0, NONE)] := by decide

-- non-vacuity of the hypotheses of `fetch_last_commit` / `never_committed_minus_one`
example : (step (run init [.join 1 0 0 0 1 (some (1, [0])) 5, .commit 1 5 1 [(0, 0, 42, 1)]]) (.fetch 1 [(0, 0), (0, 1)])).2
    = .fetch [(0, 0, 42, 1, NONE), (0, 1, -1, 0, NONE)] := by decide

end KafVerif.Group
