import KafVerif.Lemmas.S3Chunks
/-!
C03 / C06 / C07 — the lower seam "real S3 client": what the READ side of the clients returns when the endpoint answers
the way real HTTP does (bodies in several `Read`s, announced Content-Length, transfers cut mid-body, listings in
short / empty truncated pages).  Model: `Model/S3Chunks.lean`; tie: harness/C03s3 (root awsS3Client + PartitionLog),
harness/C07/{iceberg,sql}/…/zz_verif_c07_s3chunks* (decoders), `checks/S3chunks.py`.

* C03 (fetch returns exactly the acknowledged bytes): `download_chunked_ok_is_stored` — for EVERY endpoint state, every
  script of GetObject outcomes, every chunking / Content-Length announcement / cut point / terminal condition of the
  body: `DownloadSegment` / `DownloadIndex` return nil only with exactly the stored object's bytes for the requested
  range.  `download_readfull_tolerant_returns_filler` refutes the seeded rewrite C03-r3-2.
* C06 (restart sees the whole history): `list_is_complete` — under ANY paging (short pages, empty truncated pages, any
  number of pages, injected non-bucket errors) a `ListSegments` that returns nil returns the endpoint's full key list
  for the prefix, in order.  `list_short_stop_incomplete` refutes the seeded rewrite C06-r3-2.
* C07 (decoders recover exactly the records): `s3_decode_exact_or_error` — `Decode` over S3 is `decodeSegment` of the
  stored object or an error, for any decoder.  `fetch_readatleast_returns_prefix` refutes the seeded rewrite C07-r3-1.
-/
namespace KafVerif.S3Chunks
open KafVerif
open KafVerif.S3Aws (Api Err lookup Ret isBucketMissing isNotFound)

/-! ### C03 -/

/-- `io.ReadAll` on a response body: nil ⇒ every byte the endpoint selected, and the transfer ended with `io.EOF`. -/
theorem _root_.KafVerif.C03.readAll_ok_is_whole_body (cap fuel : Nat) (b : Body) (d : Bytes)
    (h : readAll cap fuel b [] = .ok d) : d = b.data ∧ b.term = .eof := by
  have := readAll_ok cap fuel b [] d h
  simpa using this

theorem body_read_ok (s : St) (key : String) (rng : Option (Int × Int)) (s' : St) (body : Body) (cap fuel : Nat) (d : Bytes)
    (hg : apiGet s key rng = (s', .ok body)) (hr : readAll cap fuel body [] = .ok d) :
    ∃ obj, lookup s.api.objs key = some obj ∧ sliceOf obj rng = some d := by
  obtain ⟨obj, sel, sp, h1, h2, h3, _⟩ := apiGet_ok s key rng s' body hg
  obtain ⟨e1, e2⟩ := readAll_ok cap fuel body [] d hr
  subst h3
  refine ⟨obj, h1, ?_⟩
  rw [h2, e1, List.nil_append, mkBody_eof sel sp e2]

/-- **C03 (S3 client, read side, chunked / short / cut bodies).** For every endpoint state and every script of
`GetObject` outcomes — API errors, body delivered in any number of `Read`s of any sizes, Content-Length announced
exactly / not at all / too large, transfer cut after any number of bytes with `io.ErrUnexpectedEOF` or a connection
error, terminal condition with or after the last bytes: what `DownloadSegment` returns without error is exactly the
requested range of the stored object (the whole object without a range), and what `DownloadIndex` returns without
error is the stored object.  A cut transfer is therefore an error, never a prefix, never padded. -/
theorem _root_.KafVerif.C03.download_chunked_ok_is_stored (s : St) (key : String) (rng : Option (Int × Int)) (d : Bytes) :
    ((downloadSegment s key rng).2 = .data d → ∃ obj, lookup s.api.objs key = some obj ∧ sliceOf obj rng = some d) ∧
    ((downloadIndex s key).2 = .data d → lookup s.api.objs key = some d) := by
  constructor
  · intro h
    unfold downloadSegment at h
    rcases hg : apiGet s key rng with ⟨s', r⟩
    rw [hg] at h
    cases r with
    | error e => simp at h
    | ok body =>
      simp only at h
      cases hr : readAll 512 (fuelFor body) body [] with
      | error t => rw [hr] at h; simp at h
      | ok d' =>
        rw [hr] at h
        simp only [Ret.data.injEq] at h
        subst h
        exact body_read_ok s key rng s' body _ _ d' hg hr
  · intro h
    unfold downloadIndex at h
    rcases hg : apiGet s key none with ⟨s', r⟩
    rw [hg] at h
    cases r with
    | error e => simp only at h; split at h <;> simp at h
    | ok body =>
      simp only at h
      cases hr : readAll 512 (fuelFor body) body [] with
      | error t => rw [hr] at h; simp at h
      | ok d' =>
        rw [hr] at h
        simp only [Ret.data.injEq] at h
        subst h
        obtain ⟨obj, h1, h2⟩ := body_read_ok s key none s' body _ _ d' hg hr
        simp only [sliceOf, Option.some.injEq] at h2
        rw [h1, h2]

/-- the requested range, spelled out: the bytes returned sit in the object at the requested position -/
theorem _root_.KafVerif.C03.download_range_is_contiguous (s : St) (key : String) (a b : Int) (d : Bytes)
    (h : (downloadSegment s key (some (a, b))).2 = .data d) :
    ∃ obj pre post, lookup s.api.objs key = some obj ∧ obj = pre ++ d ++ post ∧ (pre.length : Int) = a ∧
      (post = [] ∨ (d.length : Int) = b + 1 - a) := by
  obtain ⟨obj, h1, h2⟩ := (KafVerif.C03.download_chunked_ok_is_stored s key (some (a, b)) d).1 h
  obtain ⟨pre, post, e, hl, hp⟩ := sliceOf_range obj a b d h2
  exact ⟨obj, pre, post, h1, e, hl, hp⟩

/-- a download never changes the endpoint -/
theorem _root_.KafVerif.C03.download_keeps_endpoint (s : St) (key : String) (rng : Option (Int × Int)) :
    (downloadSegment s key rng).1.api = s.api := by
  unfold downloadSegment
  have hp : (popGet s).2.api = s.api := by unfold popGet; split <;> rfl
  have : (apiGet s key rng).1.api = s.api := by
    unfold apiGet
    rcases hpop : popGet s with ⟨t, s1⟩
    rw [hpop] at hp
    simp only at hp ⊢
    split
    · exact hp
    · split
      · exact hp
      · split
        · exact hp
        · split <;> exact hp
  rcases hg : apiGet s key rng with ⟨s', r⟩
  rw [hg] at this
  cases r with
  | error e => exact this
  | ok body => simp only; split <;> exact this

/-- **C03, the other direction: a complete transfer is delivered.**  When `GetObject` answers with a body that carries
all selected bytes and ends with `io.EOF` — in however many `Read`s of whatever sizes, with or without Content-Length —
`DownloadSegment` returns exactly the requested range of the stored object (so "exact bytes or error" is not satisfied
by always failing). -/
theorem _root_.KafVerif.C03.download_complete_transfer_ok (s : St) (key : String) (rng : Option (Int × Int)) (s' : St) (body : Body)
    (hg : apiGet s key rng = (s', .ok body)) (ht : body.term = .eof) :
    ∃ obj sel, lookup s.api.objs key = some obj ∧ sliceOf obj rng = some sel ∧ downloadSegment s key rng = (s', .data sel) := by
  obtain ⟨obj, sel, sp, h1, h2, h3, _⟩ := apiGet_ok s key rng s' body hg
  refine ⟨obj, sel, h1, h2, ?_⟩
  unfold downloadSegment
  rw [hg]
  simp only
  rw [readAll_complete (fuelFor body) body [] (by unfold fuelFor; omega) ht]
  simp only [List.nil_append]
  subst h3
  rw [mkBody_eof sel sp ht]

/-- **Witness for the seeded rewrite C03-r3-2** (`io.ReadFull` into a Content-Length sized buffer, `io.ErrUnexpectedEOF`
tolerated, whole buffer returned): a 4-byte selection whose transfer is cut after 2 bytes comes back as the 2 bytes
plus two 0x00 — bytes nobody stored — while `io.ReadAll` (the code) reports the error. -/
theorem _root_.KafVerif.C03.download_readfull_tolerant_returns_filler :
    let body := mkBody [1, 2, 3, 4] { cut := some (2, false) }
    (readBodyReadFullTolerant body).toOption = some [1, 2, 0, 0] ∧
    (readAll 512 (fuelFor body) body []).toOption = none := by
  decide

/-! ### C06 -/

/-- the paginator's invariant: what has been collected is the first `from` keys; a listing that ends (not truncated)
has collected all of them -/
theorem listLoop_keys {κ} : ∀ (fuel : Nat) (s : LSt κ) (frm : Nat) (out : List κ) (s' : LSt κ) (ks : List κ),
    out = s.all.take frm → listLoop fuel s frm out = (s', .keys ks) → ks = s.all := by
  intro fuel
  induction fuel with
  | zero => intro s frm out s' ks _ h; simp [listLoop] at h
  | succ n ih =>
    intro s frm out s' ks ho h
    obtain ⟨_, ha, _, hok, _⟩ := apiList_spec s none frm
    unfold listLoop at h
    rcases hr : apiList s none frm with ⟨s1, r⟩
    rw [hr] at h ha hok
    simp only at h ha hok
    cases r with
    | error e => simp only at h; split at h <;> simp at h
    | ok pn =>
      obtain ⟨page, next⟩ := pn
      obtain ⟨k, hp, hn⟩ := hok page next rfl
      cases next with
      | none =>
        simp only [Prod.mk.injEq, ListOut.keys.injEq] at h
        have hle : (s.all.drop frm).length ≤ k := by
          by_cases hc : (s.all.drop frm).length > k
          · rw [if_pos hc] at hn; simp at hn
          · omega
        rw [← h.2, ho, hp, List.take_of_length_le hle, List.take_append_drop]
      | some m =>
        simp only at h
        have hm : m = frm + k := by
          by_cases hc : (s.all.drop frm).length > k
          · rw [if_pos hc] at hn; exact Option.some.inj hn
          · rw [if_neg hc] at hn; simp at hn
        have := ih s1 m (out ++ page) s' ks (by rw [ha, ho, hp, hm, List.take_add]) h
        rw [this, ha]

/-- a bucket-missing verdict of the loop comes from a missing bucket or an injected NoSuchBucket / NotFound -/
theorem listLoop_bucketMissing {κ} : ∀ (fuel : Nat) (s : LSt κ) (frm : Nat) (out : List κ) (s' : LSt κ),
    listLoop fuel s frm out = (s', .bucketMissing) →
    s.bucket = false ∨ ∃ e, ListTok.fail e ∈ s.lists ∧ isBucketMissing e = true := by
  intro fuel
  induction fuel with
  | zero => intro s frm out s' h; simp [listLoop] at h
  | succ n ih =>
    intro s frm out s' h
    obtain ⟨hb, _, hl, _, herr⟩ := apiList_spec s none frm
    unfold listLoop at h
    rcases hr : apiList s none frm with ⟨s1, r⟩
    rw [hr] at h hb hl herr
    simp only at h hb hl herr
    cases r with
    | error e =>
      simp only at h
      split at h
      · rename_i hm
        rcases herr e rfl with ⟨_, h2⟩ | h2
        · exact Or.inl h2
        · exact Or.inr ⟨e, h2, hm⟩
      · simp at h
    | ok pn =>
      obtain ⟨page, next⟩ := pn
      cases next with
      | none => simp at h
      | some m =>
        simp only at h
        rcases ih s1 m _ s' h with h1 | ⟨e, he, hm⟩
        · exact Or.inl (by rw [← hb]; exact h1)
        · exact Or.inr ⟨e, hl _ he, hm⟩

/-- **C06 (paged listing): whatever the paging, the listing is all or nothing.**  For every endpoint state and every
script of `ListObjectsV2` outcomes — pages of any length ≤ 1000 incl. SHORT and EMPTY pages that are still truncated,
any number of pages, injected errors: when `ListSegments` returns nil, it returns exactly the endpoint's keys (with
sizes) under the prefix, in key order — or the empty listing after a bucket-missing answer followed by a successful
`EnsureBucket`. -/
theorem _root_.KafVerif.C06.list_complete_or_bucket_missing (s : St) (pfx : String) (s' : St) (ks : List (String × Nat))
    (h : listSegments s pfx = (s', some ks)) :
    ks = allKeys s.api pfx ∨
    (ks = [] ∧ (s.api.bucket = false ∨ ∃ e, ListTok.fail e ∈ s.lists ∧ isBucketMissing e = true)) := by
  unfold listSegments at h
  rcases hl : listLoop (listFuel s pfx) { bucket := s.api.bucket, all := allKeys s.api pfx, lists := s.lists, calls := s.calls } 0 []
    with ⟨l, out⟩
  rw [hl] at h
  simp only at h
  cases out with
  | keys k =>
    simp only [Prod.mk.injEq, Option.some.injEq] at h
    left
    rw [← h.2]
    exact listLoop_keys _ _ 0 [] l k (by simp) hl
  | bucketMissing =>
    right
    have hm := listLoop_bucketMissing _ _ 0 [] l hl
    simp only at h
    split at h
    · simp only [Prod.mk.injEq, Option.some.injEq] at h
      exact ⟨h.2.symm, hm⟩
    · simp at h
  | err => simp at h
  | diverged => simp at h

/-- **C06: the listing `RestoreFromS3` works from is complete.**  The bucket exists and no NoSuchBucket / NotFound is
injected (the endpoint answers those only for a missing bucket): `ListSegments` = nil ⇒ the full key list. -/
theorem _root_.KafVerif.C06.list_is_complete (s : St) (pfx : String) (s' : St) (ks : List (String × Nat))
    (h : listSegments s pfx = (s', some ks)) (hb : s.api.bucket = true)
    (hs : ∀ e, ListTok.fail e ∈ s.lists → isBucketMissing e = false) : ks = allKeys s.api pfx := by
  rcases KafVerif.C06.list_complete_or_bucket_missing s pfx s' ks h with h1 | ⟨_, h2 | ⟨e, he, hm⟩⟩
  · exact h1
  · rw [hb] at h2; simp at h2
  · rw [hs e he] at hm; simp at hm

/-- the full key list is what the endpoint holds: every object under the prefix, with its size, exactly once each -/
theorem _root_.KafVerif.C06.list_keys_are_the_objects (a : Api) (pfx : String) :
    (allKeys a pfx).Perm ((a.objs.filter fun x => pfx.isPrefixOf x.1).map fun x => (x.1, x.2.length)) := by
  unfold allKeys
  exact List.mergeSort_perm _ _

/-- **Witness for the seeded rewrite C06-r3-2** (explicit loop with `MaxKeys = 1000` that stops when a page holds fewer
than 1000 keys): three keys, the endpoint answers a first page of ONE key with `IsTruncated` — the rewrite returns that
one key as the whole listing, the paginator loop returns all three. -/
theorem _root_.KafVerif.C06.list_short_stop_incomplete :
    let s : LSt Nat := { bucket := true, all := [10, 20, 30], lists := [.page 1] }
    (listLoopShortStop 10 s 0 []).2 = .keys [10] ∧ (listLoop 10 s 0 []).2 = .keys [10, 20, 30] := by
  decide

/-! ### C07 -/

/-- the decoders' `getObject`: nil ⇒ exactly the stored object, under every chunking / cut / Content-Length -/
theorem _root_.KafVerif.C07.fetch_ok_is_stored (s : St) (key : String) (d : Bytes)
    (h : (fetchObject s key).2 = some d) : lookup s.api.objs key = some d := by
  unfold fetchObject at h
  rcases hg : apiGet s key none with ⟨s', r⟩
  rw [hg] at h
  cases r with
  | error e => simp at h
  | ok body =>
    simp only at h
    cases hr : readAll 512 (fuelFor body) body [] with
    | error t => rw [hr] at h; simp at h
    | ok d' =>
      rw [hr] at h
      simp only [Option.some.injEq] at h
      subst h
      obtain ⟨obj, h1, h2⟩ := body_read_ok s key none s' body _ _ d' hg hr
      simp only [sliceOf, Option.some.injEq] at h2
      rw [h1, h2]

/-- the decoders' `getObject` delivers a complete transfer (any chunking, Content-Length set or not) -/
theorem _root_.KafVerif.C07.fetch_complete_transfer_ok (s : St) (key : String) (s' : St) (body : Body)
    (hg : apiGet s key none = (s', .ok body)) (ht : body.term = .eof) :
    ∃ obj, lookup s.api.objs key = some obj ∧ fetchObject s key = (s', some obj) := by
  obtain ⟨obj, sel, sp, h1, h2, h3, _⟩ := apiGet_ok s key none s' body hg
  simp only [sliceOf, Option.some.injEq] at h2
  refine ⟨obj, h1, ?_⟩
  unfold fetchObject
  rw [hg]
  simp only
  rw [readAll_complete (fuelFor body) body [] (by unfold fuelFor; omega) ht]
  simp only [List.nil_append]
  subst h3
  rw [mkBody_eof sel sp ht, h2]

/-- **C07 (decoders over S3): `Decode` returns exactly what `decodeSegment` makes of the STORED segment, or an
error** — for any decoder `dec` (iceberg, sql), any endpoint state, any GetObject script.  With
`C07.decodeSegment_buildSegment` (decode ∘ build = the records sent) this is "exactly the records of the stored
segment, or an error". -/
theorem _root_.KafVerif.C07.s3_decode_exact_or_error {ρ : Type} (dec : Bytes → Option ρ) (s : St) (key : String) (r : ρ)
    (h : (decodeOverS3 dec s key).2 = some r) : ∃ obj, lookup s.api.objs key = some obj ∧ dec obj = some r := by
  unfold decodeOverS3 at h
  rcases hf : fetchObject s key with ⟨s', o⟩
  rw [hf] at h
  cases o with
  | none => simp at h
  | some d =>
    simp only at h
    have := KafVerif.C07.fetch_ok_is_stored s key d (by rw [hf])
    exact ⟨d, this, h⟩

/-- **Witness for the seeded rewrite C07-r3-1** (`io.ReadAtLeast(body, data, 48)` into a Content-Length sized buffer,
`data[:n]`): a 100-byte object whose body arrives as 60 + 40 bytes comes back as its first 60 bytes with a nil error
— the decoder then sees a prefix of the segment; `io.ReadAll` (the code) returns all 100. -/
theorem _root_.KafVerif.C07.fetch_readatleast_returns_prefix :
    let body := mkBody (List.replicate 100 7) { sizes := [60] }
    (readBodyReadAtLeast body).toOption = some (List.replicate 60 7) ∧
    (readAll 512 (fuelFor body) body []).toOption = some (List.replicate 100 7) := by
  decide

end KafVerif.S3Chunks
