import KafVerif.Gen.C21SnapshotOps
import KafVerif.Model.SnapshotOpsSpec
/-!
C21, static tie.  `Gen/C21SnapshotOps.lean` is regenerated from the CURRENT `pkg/metadata/etcd_store.go` and
`pkg/operator/snapshot.go` by `checks/C21.py` (go/ast, `harness/C21/tools/extract`) before this file is built.

* `store_ops_match`, `operator_ops_match`, `snapshot_writers_match`
      the protocol rows of updateSnapshot / refreshSnapshot(Locked) / persistSnapshotLocked / UpdateOffsets and of
      PublishMetadataSnapshot ARE the tables the model was written against (`Model/SnapshotOpsSpec.lean`), and the
      functions that put the snapshot key (or call persistSnapshotLocked) are exactly those;
* `store_cond_writes_compare_read`, `operator_cond_writes_compare_read`
      shape independent, on the FULL skeletons: every transaction has exactly one compare, it is
      `ModRevision(key) = <mod revision of the same function's Get of that key>` (persistSnapshotLocked: `= rev`)
      or `Version/CreateRevision(key) = 0`, and guards puts of that key only;
* `persist_rev_from_same_attempt`   `rev` reaches persistSnapshotLocked only from refreshSnapshotLocked's result of the
      same updateSnapshot attempt, in the order refresh → mutate → persist;
* `refresh_installs_what_it_read`   refreshSnapshotLocked returns the read's mod revision only after
      `metadata.Update(<what it read>)` on that path (0 for an absent key) — no path keeps a stale local copy;
* `no_plain_snapshot_writes`        no Put/Delete outside a transaction in those functions;
* `cond_writes_sound`               what the Boolean checker guarantees about ANY table it accepts;
* `safe_forms_fire_only_unchanged`, `modrev_of_read_fires_iff_unchanged`
      etcd meaning: a transaction guarded by one of the accepted compares fires only if the key was not written
      since the call's read (model: `commit`/`opTxn` fire iff `r = s.rev`);
* `createRev_of_read_blind`         witness: `CreateRevision(key) = <the read's CreateRevision>` still holds after
      any number of later writes of an existing key (the seeded operator compare).
-/
namespace KafVerif.C21
open KafVerif.SrcOps KafVerif.SnapshotOps

theorem store_ops_match : KafVerif.Gen.C21.storeCore = storeCoreExpected := by decide +kernel

theorem operator_ops_match : KafVerif.Gen.C21.operatorCore = operatorCoreExpected := by decide +kernel

theorem snapshot_writers_match : KafVerif.Gen.C21.writers = writersExpected := by decide +kernel

theorem store_cond_writes_compare_read : condWritesOk KafVerif.Gen.C21.store = true := by decide +kernel

theorem operator_cond_writes_compare_read : condWritesOk KafVerif.Gen.C21.operator = true := by decide +kernel

theorem no_plain_snapshot_writes :
    noPlainWrites KafVerif.Gen.C21.store = true ∧ noPlainWrites KafVerif.Gen.C21.operator = true := by decide +kernel

theorem persist_rev_from_same_attempt :
    persistFromRefresh KafVerif.Gen.C21.store KafVerif.Gen.C21.writers = true := by decide +kernel

theorem refresh_installs_what_it_read : refreshReturnsRead KafVerif.Gen.C21.store = true := by decide +kernel

/-- What `condWritesOk` guarantees about ANY table it accepts: every transaction row has exactly one compare, of an
accepted form, and its Then-branch only puts the compared key (no Else-branch). -/
theorem cond_writes_sound (rows : List Row) (h : condWritesOk rows = true) :
    ∀ r ∈ rows, ∀ ifs thn els, r.ev = .txn ifs thn els →
      ∃ c, ifs = [c] ∧ putsOnly c.key thn els = true ∧
        (classify rows r.fn c = .modRevOfRead ∨ classify rows r.fn c = .createOnly ∨
         (classify rows r.fn c = .modRevParam ∧ r.fn = "persistSnapshotLocked")) := by
  intro r hr ifs thn els hev
  simp only [condWritesOk, List.all_eq_true] at h
  have h1 := h r hr
  unfold txnOk at h1
  rw [hev] at h1
  match ifs, h1 with
  | [c], h1 =>
    simp only [Bool.and_eq_true] at h1
    refine ⟨c, rfl, h1.1, ?_⟩
    cases hc : classify rows r.fn c <;> simp_all

/-! ### etcd meaning of the accepted compares -/

/-- a key state etcd can produce: absent, or created at a positive revision not after its last write -/
def wf (k : KeySt) : Prop := (k.version = 0 → k = KeySt.absent) ∧ (0 < k.version → 0 < k.create ∧ k.create ≤ k.modr)

theorem put_modr (k : KeySt) (g : Nat) : (k.put g).modr = g := by
  unfold KeySt.put; split <;> rfl

theorem put_version_pos (k : KeySt) (g : Nat) : 0 < (k.put g).version := by
  unfold KeySt.put; split <;> simp

theorem put_wf {k : KeySt} {g : Nat} (hk : wf k) (hg : k.modr < g) : wf (k.put g) := by
  obtain ⟨h0, h1⟩ := hk
  unfold KeySt.put
  split
  · exact ⟨fun h => by simp at h, fun _ => ⟨by show 0 < g; omega, Nat.le_refl _⟩⟩
  · rename_i hv
    have := h1 (by omega)
    exact ⟨fun h => by simp at h, fun _ => ⟨this.1, by show k.create ≤ g; omega⟩⟩

theorem puts_cons (k : KeySt) (g : Nat) (gs : List Nat) : k.puts (g :: gs) = (k.put g).puts gs := rfl

theorem puts_modr_gt (k : KeySt) (gs : List Nat) (h : laterRevs k gs) (hne : gs ≠ []) :
    k.modr < (k.puts gs).modr := by
  induction gs generalizing k with
  | nil => exact absurd rfl hne
  | cons g rest ih =>
    obtain ⟨hg, hrest⟩ := h
    rw [puts_cons]
    cases rest with
    | nil => simpa [KeySt.puts, put_modr] using hg
    | cons g' rest' =>
      have := ih (k.put g) hrest (by simp)
      rw [put_modr] at this
      omega

theorem puts_version_pos (k : KeySt) (gs : List Nat) (hne : gs ≠ []) : 0 < (k.puts gs).version := by
  induction gs generalizing k with
  | nil => exact absurd rfl hne
  | cons g rest ih =>
    rw [puts_cons]
    cases rest with
    | nil => exact put_version_pos k g
    | cons g' rest' => exact ih (k.put g) (by simp)

theorem puts_wf {k : KeySt} (gs : List Nat) (hk : wf k) (h : laterRevs k gs) : wf (k.puts gs) := by
  induction gs generalizing k with
  | nil => exact hk
  | cons g rest ih =>
    rw [puts_cons]
    exact ih (put_wf hk h.1) h.2

/-- **The accepted compares notice every write.**  Whatever the call read (`read`), and however many writes
(`gs`, at later revisions) reached the key before its transaction runs: if the compare holds — the transaction
fires — there was no write in between. -/
theorem safe_forms_fire_only_unchanged (f : CmpSem) (hf : f ≠ .createRevOfRead) (read : KeySt) (gs : List Nat)
    (hw : wf read) (hl : laterRevs read gs) (hfire : formHolds f read (read.puts gs) = true) : gs = [] := by
  by_cases hne : gs = []
  · exact hne
  · exfalso
    cases f with
    | modRevOfRead =>
      have := puts_modr_gt read gs hl hne
      simp only [formHolds, beq_iff_eq] at hfire
      omega
    | versionZero =>
      have := puts_version_pos read gs hne
      simp only [formHolds, beq_iff_eq] at hfire
      omega
    | createRevZero =>
      have hv := puts_version_pos read gs hne
      have := (puts_wf gs hw hl).2 hv
      simp only [formHolds, beq_iff_eq] at hfire
      omega
    | createRevOfRead => exact hf rfl

/-- `ModRevision(key) = <the read's ModRevision>` (0 for an absent key) fires exactly when the key is unchanged. -/
theorem modrev_of_read_fires_iff_unchanged (read : KeySt) (gs : List Nat) (hl : laterRevs read gs) :
    formHolds .modRevOfRead read (read.puts gs) = true ↔ gs = [] := by
  constructor
  · intro h
    by_cases hne : gs = []
    · exact hne
    · have := puts_modr_gt read gs hl hne
      simp only [formHolds, beq_iff_eq] at h
      omega
  · intro h; subst h; simp [formHolds, KeySt.puts]

/-- **The seeded compare is blind.**  A key created at revision 3 and read there, written again at revisions 5 and
8 by somebody else: `CreateRevision(key) = <the read's CreateRevision>` still holds, the stale write goes through. -/
theorem createRev_of_read_blind :
    ∃ read gs, wf read ∧ laterRevs read gs ∧ gs ≠ [] ∧ formHolds .createRevOfRead read (read.puts gs) = true :=
  ⟨⟨3, 3, 1⟩, [5, 8], ⟨by decide, by decide⟩, by simp [laterRevs, KeySt.put], by decide, by decide⟩

/-! ### non-vacuity: the checkers reject the seeded shapes -/

-- operator compare on CreateRevision with the read's value (held in a variable)
example : condWritesOk
    [⟨"PublishMetadataSnapshot", [], [], .etcd "Get" [snapKey]⟩,
     ⟨"PublishMetadataSnapshot", [], [],
       .txn [⟨"CreateRevision", snapKey, "=", "rev"⟩] [⟨"OpPut", [snapKey, "payload"]⟩] []⟩] = false := by decide +kernel

-- compare against a revision that does not come from a Get of the same key in the same function
example : condWritesOk
    [⟨"f", [], [], .etcd "Get" ["otherKey"]⟩,
     ⟨"f", [], [], .txn [⟨"ModRevision", snapKey, "=", "Get#1.0.Kvs[0].ModRevision"⟩] [⟨"OpPut", [snapKey, "p"]⟩] []⟩] = false := by
  decide +kernel

-- a transaction without a compare
example : condWritesOk [⟨"f", [], [], .txn [] [⟨"OpPut", [snapKey, "p"]⟩] []⟩] = false := by decide +kernel

-- refreshSnapshotLocked with a "revision already loaded" fast path: a successful return that skips metadata.Update
example : refreshReturnsRead
    [⟨"refreshSnapshotLocked", [], [], .etcd "Get" [snapKey]⟩,
     ⟨"refreshSnapshotLocked", ["Get#1.1 == nil", "len(Get#1.0.Kvs) == 0"], [], .ret ["0", "nil"]⟩,
     ⟨"refreshSnapshotLocked", ["Get#1.1 == nil", "len(Get#1.0.Kvs) != 0", "Get#1.0.Kvs[0].ModRevision == s.loadedRev"], [],
       .ret ["Get#1.0.Kvs[0].ModRevision", "nil"]⟩,
     ⟨"refreshSnapshotLocked", ["Get#1.1 == nil", "len(Get#1.0.Kvs) != 0", "Get#1.0.Kvs[0].ModRevision != s.loadedRev"], [],
       .call "metadata.Update" ["snapshot"] false⟩,
     ⟨"refreshSnapshotLocked", ["Get#1.1 == nil", "len(Get#1.0.Kvs) != 0", "Get#1.0.Kvs[0].ModRevision != s.loadedRev"], [],
       .ret ["Get#1.0.Kvs[0].ModRevision", "nil"]⟩] = false := by decide +kernel

-- the accepted shapes are accepted
example : formHolds .modRevOfRead ⟨3, 3, 1⟩ ((⟨3, 3, 1⟩ : KeySt).puts [5]) = false ∧
    formHolds .versionZero KeySt.absent (KeySt.absent.puts [2]) = false ∧
    formHolds .versionZero KeySt.absent KeySt.absent = true := by decide

end KafVerif.C21
