import KafVerif.Model.ProtoHeader
/-!
C10 — Kafka request decoding never crashes and round-trips.

Statement (properties.jsonl): for any bytes a client sends, frame reading and request-header/body
parsing return either a request or an error, never a crash.  Every supported request encoded by a
standard Kafka client codec parses back to the same API key, version, correlation id, client id
and body.

Theorems (all for EVERY byte string / header value, `flex` = kmsg's flexibility table is a parameter):
* `parseHeader_total`      : `ParseRequestHeader` (fixed code) never panics
* `skipTagged_total`       : `SkipTaggedFields` (also used by `SkipResponseHeader`) never panics
* `parseHeader_body_suffix`: the body handed on is a suffix of the input
* `parseHeaderOld_panics`  : the pre-fix code panics on a tagged-field size of 2^63 (witness)
* `parseHeader_encode_tags`: header + ANY well-formed tagged-field section + any body parses back to the same fields
                             and exactly that body (`parseHeader_encode` = the empty section kmsg's RequestFormatter
                             writes); `parseHeader_consumes_exactly_header`, `uvarint_roundtrip`, `skipTagged_exact`,
                             `skipTagged_within_buffer`
* `readFrame_total`, `readFrame_exact`, `readFrame_writeFrame`
The body bytes → kmsg struct step is kmsg's codec (a parameter, see DESIGN section 3); the check
exercises it for every advertised (key, version).
-/
namespace KafVerif.ProtoHeader

def Inv (r : Reader) : Prop := 0 ≤ r.pos ∧ r.pos ≤ r.buf.length

/-- a reader step that keeps the buffer, the invariant, and never panics -/
def Safe {α} (r : Reader) (res : GoResult (α × Reader)) : Prop :=
  res ≠ .panic ∧ ∀ a r', res = .ok (a, r') → r'.buf = r.buf ∧ Inv r' ∧ r.pos ≤ r'.pos

/-- same for steps that return only the reader -/
def SafeR (r : Reader) (res : GoResult Reader) : Prop :=
  res ≠ .panic ∧ ∀ r', res = .ok r' → r'.buf = r.buf ∧ Inv r' ∧ r.pos ≤ r'.pos

theorem bind_elim {α β} {P : GoResult β → Prop} (res : GoResult α) (f : α → GoResult β)
    (hp : res ≠ .panic) (herr : P .err) (hok : ∀ a, res = .ok a → P (f a)) : P (res.bind f) := by
  cases res with
  | ok a => exact hok a rfl
  | err => exact herr
  | panic => exact absurd rfl hp

theorem safe_err {α} (r : Reader) : Safe (α := α) r .err := ⟨by simp, by simp⟩
theorem safeR_err (r : Reader) : SafeR r .err := ⟨by simp, by simp⟩

theorem safe_ok {α} (r r' : Reader) (a : α) (hb : r'.buf = r.buf) (hi : Inv r') (hp : r.pos ≤ r'.pos) :
    Safe r (.ok (a, r')) :=
  ⟨by simp, fun a' r'' h => by injection h with h; injection h with _ h2; subst h2; exact ⟨hb, hi, hp⟩⟩

theorem safeR_ok (r r' : Reader) (hb : r'.buf = r.buf) (hi : Inv r') (hp : r.pos ≤ r'.pos) :
    SafeR r (.ok r') :=
  ⟨by simp, fun r'' h => by injection h with h; subst h; exact ⟨hb, hi, hp⟩⟩

theorem safeR_trans {r r1 : Reader} {res : GoResult Reader} (hb : r1.buf = r.buf) (hp : r.pos ≤ r1.pos)
    (h : SafeR r1 res) : SafeR r res :=
  ⟨h.1, fun r' e => by obtain ⟨a, b, c⟩ := h.2 r' e; exact ⟨by rw [a, hb], b, by omega⟩⟩

theorem inv_mk (buf : Bytes) (p : Int) (h0 : 0 ≤ p) (h1 : p ≤ buf.length) : Inv { buf := buf, pos := p } := ⟨h0, h1⟩

theorem goSlice_ok {b : Bytes} {i j : Int} (h : 0 ≤ i ∧ i ≤ j ∧ j ≤ b.length) :
    goSlice b i j = .ok ((b.drop i.toNat).take (j - i).toNat) := by
  simp [goSlice, h]

theorem read_safe (r : Reader) (n : Int) (hr : Inv r) : Safe r (read r n) := by
  unfold read
  by_cases h : n < 0 ∨ r.remaining < n
  · simp only [h, if_true]; exact safe_err r
  · simp only [h, if_false]
    have h1 : 0 ≤ n := by omega
    have h2 : n ≤ r.remaining := by omega
    unfold Reader.remaining at h2
    obtain ⟨hp0, hp1⟩ := hr
    rw [goSlice_ok (by omega)]
    exact safe_ok _ _ _ rfl (inv_mk _ _ (by omega) (by omega)) (by show r.pos ≤ r.pos + n; omega)

theorem uvarintAux_n_le (b : Bytes) (i x s : Nat) : (uvarintAux b i x s).2 ≤ (i : Int) + b.length := by
  induction b generalizing i x s with
  | nil => simp [uvarintAux]
  | cons a t ih =>
    unfold uvarintAux
    split
    · simp; omega
    · split
      · split
        · simp; omega
        · simp; omega
      · have := ih (i + 1) (x + a.toNat % 128 * 2 ^ s) (s + 7)
        simp only [List.length_cons]
        omega

theorem uvarint_safe (r : Reader) (hr : Inv r) : Safe r (uvarint r) := by
  unfold uvarint
  obtain ⟨hp0, hp1⟩ := hr
  rw [goSlice_ok (by omega)]
  simp only [GoResult.bind, goUvarint]
  have hlen := uvarintAux_n_le ((List.drop r.pos.toNat r.buf).take ((r.buf.length : Int) - r.pos).toNat) 0 0 0
  have hl2 : ((List.drop r.pos.toNat r.buf).take ((r.buf.length : Int) - r.pos).toNat).length ≤ r.buf.length - r.pos.toNat := by
    simp [List.length_take, List.length_drop]; omega
  by_cases hn : (uvarintAux ((List.drop r.pos.toNat r.buf).take ((r.buf.length : Int) - r.pos).toNat) 0 0 0).2 ≤ 0
  · simp only [hn, if_true]; exact safe_err r
  · simp only [hn, if_false]
    exact safe_ok _ _ _ rfl (inv_mk _ _ (by omega) (by omega)) (by show r.pos ≤ r.pos + _; omega)

theorem skipLoop_safe (c : Nat) (r : Reader) (hr : Inv r) : SafeR r (skipLoop c r) := by
  induction c generalizing r with
  | zero => exact safeR_ok r r rfl hr (by omega)
  | succ c ih =>
    unfold skipLoop skipLoopWith
    have h1 := uvarint_safe r hr
    refine bind_elim _ _ h1.1 (safeR_err r) (fun ⟨t, r1⟩ e1 => ?_)
    obtain ⟨hb1, hi1, hp1⟩ := h1.2 t r1 e1
    have h2 := uvarint_safe r1 hi1
    refine bind_elim _ _ h2.1 (safeR_err r) (fun ⟨size, r2⟩ e2 => ?_)
    obtain ⟨hb2, hi2, hp2⟩ := h2.2 size r2 e2
    simp only
    by_cases hs : size = 0
    · simp only [hs, if_true]
      exact safeR_trans (by rw [hb2, hb1]) (by omega) (ih r2 hi2)
    · simp only [hs, if_false]
      have h3 := read_safe r2 (toInt64 size) hi2
      refine bind_elim _ _ h3.1 (safeR_err r) (fun ⟨bs, r3⟩ e3 => ?_)
      obtain ⟨hb3, hi3, hp3⟩ := h3.2 bs r3 e3
      exact safeR_trans (by rw [hb3, hb2, hb1]) (by omega) (ih r3 hi3)

theorem skipTagged_safe (r : Reader) (hr : Inv r) : SafeR r (skipTagged r) := by
  unfold skipTagged skipTaggedWith
  have h1 := uvarint_safe r hr
  refine bind_elim _ _ h1.1 (safeR_err r) (fun ⟨c, r1⟩ e1 => ?_)
  obtain ⟨hb1, hi1, hp1⟩ := h1.2 c r1 e1
  exact safeR_trans hb1 hp1 (skipLoop_safe c r1 hi1)

theorem int16_safe (r : Reader) (hr : Inv r) : Safe r (int16 r) := by
  unfold int16 int16With
  have h := read_safe r 2 hr
  refine bind_elim _ _ h.1 (safe_err r) (fun ⟨b, r'⟩ e => ?_)
  obtain ⟨hb, hi, hp⟩ := h.2 b r' e
  exact safe_ok _ _ _ hb hi hp

theorem int32_safe (r : Reader) (hr : Inv r) : Safe r (int32 r) := by
  unfold int32 int32With
  have h := read_safe r 4 hr
  refine bind_elim _ _ h.1 (safe_err r) (fun ⟨b, r'⟩ e => ?_)
  obtain ⟨hb, hi, hp⟩ := h.2 b r' e
  exact safe_ok _ _ _ hb hi hp

theorem nullableString_safe (r : Reader) (hr : Inv r) : Safe r (nullableString r) := by
  unfold nullableString nullableStringWith
  have h := int16_safe r hr
  refine bind_elim _ _ h.1 (safe_err r) (fun ⟨l, r1⟩ e => ?_)
  obtain ⟨hb1, hi1, hp1⟩ := h.2 l r1 e
  simp only
  by_cases hl : l = -1
  · simp only [hl, if_true]; exact safe_ok _ _ _ hb1 hi1 hp1
  · simp only [hl, if_false]
    by_cases hn : l < 0
    · simp only [hn, if_true]; exact safe_err r
    · simp only [hn, if_false]
      have h3 := read_safe r1 l hi1
      refine bind_elim _ _ h3.1 (safe_err r) (fun ⟨b, r2⟩ e2 => ?_)
      obtain ⟨hb2, hi2, hp2⟩ := h3.2 b r2 e2
      exact safe_ok _ _ _ (by rw [hb2, hb1]) hi2 (by show r.pos ≤ r2.pos; omega)

/-- what `parseHeader_shape` states about a result -/
def Shape (b : Bytes) (res : GoResult (Header × Bytes)) : Prop :=
  res ≠ .panic ∧ ∀ h body, res = .ok (h, body) → ∃ p : Nat, p ≤ b.length ∧ body = b.drop p

theorem shape_err (b : Bytes) : Shape b .err := ⟨by simp, by simp⟩

/-- The shape of every run of the fixed `ParseRequestHeader`: no panic, and the body is the input
from some position `p ≤ len` on. -/
theorem parseHeader_shape (flex : Int → Int → Bool) (b : Bytes) : Shape b (parseHeader flex b) := by
  unfold parseHeader parseHeaderWith
  have hr0 : Inv { buf := b, pos := 0 } := ⟨by simp, by simp⟩
  have h1 := int16_safe _ hr0
  refine bind_elim _ _ h1.1 (shape_err b) (fun ⟨key, r1⟩ e1 => ?_)
  obtain ⟨hb1, hi1, _⟩ := h1.2 key r1 e1
  have h2 := int16_safe _ hi1
  refine bind_elim _ _ h2.1 (shape_err b) (fun ⟨ver, r2⟩ e2 => ?_)
  obtain ⟨hb2, hi2, _⟩ := h2.2 ver r2 e2
  have h3 := int32_safe _ hi2
  refine bind_elim _ _ h3.1 (shape_err b) (fun ⟨corr, r3⟩ e3 => ?_)
  obtain ⟨hb3, hi3, _⟩ := h3.2 corr r3 e3
  have h4 := nullableString_safe _ hi3
  refine bind_elim _ _ h4.1 (shape_err b) (fun ⟨cid, r4⟩ e4 => ?_)
  obtain ⟨hb4, hi4, _⟩ := h4.2 cid r4 e4
  have h5 : SafeR r4 (if flex key ver then skipTaggedWith read r4 else .ok r4) := by
    by_cases hf : flex key ver
    · simp only [hf, if_true]; exact skipTagged_safe r4 hi4
    · simp only [hf]; exact safeR_ok r4 r4 rfl hi4 (by omega)
  refine bind_elim _ _ h5.1 (shape_err b) (fun r5 e5 => ?_)
  obtain ⟨hb5, hi5, _⟩ := h5.2 r5 e5
  have hbuf : r5.buf = b := by rw [hb5, hb4, hb3, hb2, hb1]
  obtain ⟨hp0, hp1⟩ := hi5
  rw [hbuf] at hp1
  rw [goSlice_ok (by omega)]
  refine ⟨by simp [GoResult.bind], ?_⟩
  intro h body heq
  simp only [GoResult.bind] at heq
  injection heq with heq
  injection heq with _ hbody
  refine ⟨r5.pos.toNat, by omega, ?_⟩
  rw [← hbody]
  apply List.take_of_length_le
  simp [List.length_drop]; omega

/-! ### round trip -/

theorem u16_put (n : Nat) (h : n < 65536) : u16 (putU16 n) = n := by
  simp [u16, putU16]; omega
theorem u32_put (n : Nat) (h : n < 2^32) : u32 (putU32 n) = n := by
  simp [u32, putU32]; omega
theorem toInt16_twos (k : Int) (h : -32768 ≤ k ∧ k < 32768) : toInt16 (twos 16 k) = k := by
  unfold toInt16 twos; split <;> omega
theorem toInt32_twos (k : Int) (h : -2^31 ≤ k ∧ k < 2^31) : toInt32 (twos 32 k) = k := by
  unfold toInt32 twos; split <;> omega
theorem twos16_lt (k : Int) : twos 16 k < 65536 := by unfold twos; omega
theorem twos32_lt (k : Int) : twos 32 k < 2^32 := by unfold twos; omega

theorem goSlice_at (pre x rest : Bytes) :
    goSlice (pre ++ (x ++ rest)) pre.length ((pre.length : Int) + x.length) = .ok x := by
  rw [goSlice_ok (by simp only [List.length_append]; omega)]
  have h1 : ((pre.length : Int)).toNat = pre.length := by omega
  have h2 : ((pre.length : Int) + x.length - pre.length).toNat = x.length := by omega
  rw [h1, h2]
  simp

theorem goSlice_tail (pre rest : Bytes) :
    goSlice (pre ++ rest) pre.length ((pre ++ rest).length : Nat) = .ok rest := by
  have := goSlice_at pre rest []
  simp only [List.append_nil] at this
  rw [← this]; congr 1; simp only [List.length_append]; omega

theorem read_at (r : Reader) (pre x rest : Bytes) (hb : r.buf = pre ++ (x ++ rest)) (hp : r.pos = pre.length) :
    read r x.length = .ok (x, { buf := r.buf, pos := r.pos + x.length }) := by
  obtain ⟨buf, pos⟩ := r
  simp only at hb hp
  subst hb hp
  unfold read Reader.remaining
  have h : ¬ ((x.length : Int) < 0 ∨ (((pre ++ (x ++ rest)).length : Nat) : Int) - (pre.length : Int) < x.length) := by
    simp only [List.length_append]; omega
  simp only [h, if_false]
  rw [goSlice_at]
  rfl

theorem uvarint_zero_at (r : Reader) (pre rest : Bytes) (hb : r.buf = pre ++ (0 :: rest)) (hp : r.pos = pre.length) :
    uvarint r = .ok (0, { buf := r.buf, pos := r.pos + 1 }) := by
  obtain ⟨buf, pos⟩ := r
  simp only at hb hp
  subst hb hp
  unfold uvarint
  show (goSlice (pre ++ (0 :: rest)) pre.length ((pre ++ (0 :: rest)).length : Nat)).bind _ = _
  rw [goSlice_tail]
  simp [GoResult.bind, goUvarint, uvarintAux]

theorem ofNat_toNat_lt (n : Nat) (h : n < 256) : (UInt8.ofNat n).toNat = n := by
  simp [UInt8.toNat_ofNat']; omega

theorem putUvarintAux_length_pos (f v : Nat) : 0 < (putUvarintAux f v).length := by
  cases f with
  | zero => simp [putUvarintAux]
  | succ f => unfold putUvarintAux; split <;> simp

/-- `binary.Uvarint ∘ binary.PutUvarint`: the decoder reads back the value and consumes exactly the encoding -/
theorem uvarintAux_put (f : Nat) : ∀ (v i x s : Nat) (rest : Bytes), i + f = 9 → v < 2 ^ (7 * f + 1) →
    uvarintAux (putUvarintAux f v ++ rest) i x s = (x + v * 2 ^ s, (i : Int) + (putUvarintAux f v).length) := by
  induction f with
  | zero =>
    intro v i x s rest hi hv
    have hi9 : i = 9 := by omega
    subst hi9
    have hv2 : v < 2 := by simpa using hv
    have hb : (UInt8.ofNat (v % 128)).toNat = v := by rw [ofNat_toNat_lt _ (by omega)]; omega
    simp only [putUvarintAux, List.cons_append, List.nil_append, uvarintAux, hb]
    have h1 : ¬ ((9 : Nat) = 10) := by omega
    have h2 : v < 128 := by omega
    have h3 : ¬ ((9 : Nat) = 9 ∧ v > 1) := by omega
    simp only [h1, h2, if_true, if_false]
    simp
    omega
  | succ f ih =>
    intro v i x s rest hi hv
    unfold putUvarintAux
    by_cases hlt : v < 128
    · have hb : (UInt8.ofNat v).toNat = v := ofNat_toNat_lt _ (by omega)
      simp only [hlt, if_true, List.cons_append, List.nil_append, uvarintAux, hb]
      have h1 : ¬ (i = 10) := by omega
      have h3 : ¬ (i = 9 ∧ v > 1) := by omega
      simp only [h1, h3, if_false]
      simp
    · have hb : (UInt8.ofNat (v % 128 + 128)).toNat = v % 128 + 128 := ofNat_toNat_lt _ (by omega)
      simp only [hlt, if_false, List.cons_append, uvarintAux, hb]
      have h1 : ¬ (i = 10) := by omega
      have h2 : ¬ (v % 128 + 128 < 128) := by omega
      simp only [h1, h2, if_false]
      have hv' : v / 128 < 2 ^ (7 * f + 1) := by
        have : 2 ^ (7 * (f + 1) + 1) = 2 ^ (7 * f + 1) * 128 := by
          rw [show 7 * (f + 1) + 1 = (7 * f + 1) + 7 by omega, Nat.pow_add]
        rw [this] at hv
        exact Nat.div_lt_of_lt_mul (by rw [Nat.mul_comm]; exact hv)
      rw [ih (v / 128) (i + 1) _ (s + 7) rest (by omega) hv']
      have hm : (v % 128 + 128) % 128 = v % 128 := by omega
      have hval : x + (v % 128 + 128) % 128 * 2 ^ s + v / 128 * 2 ^ (s + 7) = x + v * 2 ^ s := by
        rw [hm, Nat.pow_add]
        have hd := Nat.div_add_mod v 128
        generalize 2 ^ s = p at *
        generalize v / 128 = q at *
        generalize v % 128 = m at *
        subst hd
        rw [Nat.add_mul, Nat.add_assoc]
        congr 1
        rw [Nat.add_comm]; congr 1
        show q * (p * 128) = 128 * q * p
        ac_rfl
      rw [hval]
      simp only [List.length_cons]
      congr 1
      push_cast
      omega


theorem uvarint_at (r : Reader) (pre rest : Bytes) (v : Nat) (hv : v < 2 ^ 64)
    (hb : r.buf = pre ++ (putUvarint v ++ rest)) (hp : r.pos = pre.length) :
    uvarint r = .ok (v, { buf := r.buf, pos := r.pos + (putUvarint v).length }) := by
  obtain ⟨buf, pos⟩ := r
  simp only at hb hp
  subst hb hp
  unfold uvarint
  show (goSlice (pre ++ (putUvarint v ++ rest)) pre.length ((pre ++ (putUvarint v ++ rest)).length : Nat)).bind _ = _
  rw [goSlice_tail]
  have h := uvarintAux_put 9 v 0 0 0 rest rfl hv
  have hpos := putUvarintAux_length_pos 9 v
  simp only [GoResult.bind, goUvarint, putUvarint, h]
  have hn : ¬ (((0 : Nat) : Int) + ((putUvarintAux 9 v).length : Int) ≤ 0) := by omega
  simp only [hn, if_false]
  simp

theorem toInt64_small (n : Nat) (h : n < 2 ^ 63) : toInt64 n = n := by
  unfold toInt64
  have : n % 2 ^ 64 = n := Nat.mod_eq_of_lt (by omega)
  rw [this]; simp [h]

theorem skipLoop_enc (tags : List (Nat × Bytes)) : ∀ (r : Reader) (pre rest : Bytes),
    (∀ t ∈ tags, t.1 < 2 ^ 64 ∧ t.2.length < 2 ^ 63) →
    r.buf = pre ++ (encodeTagFields tags ++ rest) → r.pos = pre.length →
    skipLoopWith read tags.length r = .ok { buf := r.buf, pos := r.pos + (encodeTagFields tags).length } := by
  induction tags with
  | nil =>
    intro r pre rest _ _ _
    simp [skipLoopWith, encodeTagFields]
  | cons t ts ih =>
    intro r pre rest hw hb hp
    obtain ⟨ht1, ht2⟩ := hw t (by simp)
    have hw' : ∀ u ∈ ts, u.1 < 2 ^ 64 ∧ u.2.length < 2 ^ 63 := fun u hu => hw u (by simp [hu])
    have henc : encodeTagFields (t :: ts) = putUvarint t.1 ++ (putUvarint t.2.length ++ (t.2 ++ encodeTagFields ts)) := by
      simp [encodeTagFields, List.append_assoc]
    rw [henc] at hb ⊢
    replace hb : r.buf = pre ++ (putUvarint t.1 ++ (putUvarint t.2.length ++ (t.2 ++ (encodeTagFields ts ++ rest)))) := by
      rw [hb]; simp only [List.append_assoc]
    simp only [List.length_cons, skipLoopWith]
    rw [uvarint_at r pre _ t.1 ht1 hb hp]
    simp only [GoResult.bind]
    rw [uvarint_at { buf := r.buf, pos := r.pos + (putUvarint t.1).length } (pre ++ putUvarint t.1) (t.2 ++ encodeTagFields ts ++ rest) t.2.length (by omega)
      (by show r.buf = _; rw [hb]; simp only [List.append_assoc]) (by show r.pos + _ = _; rw [hp]; simp)]
    simp only
    by_cases hz : t.2.length = 0
    · have hnil : t.2 = [] := List.eq_nil_of_length_eq_zero hz
      simp only [hz, if_true]
      rw [ih { buf := r.buf, pos := r.pos + (putUvarint t.1).length + (putUvarint 0).length } (pre ++ putUvarint t.1 ++ putUvarint 0) rest hw'
        (by show r.buf = _; rw [hb, hz, hnil]; simp only [List.append_assoc, List.nil_append])
        (by show r.pos + _ + _ = _; rw [hp]; simp; omega)]
      simp only [hnil, List.length_append, List.nil_append]
      congr 2
      push_cast; omega
    · simp only [hz, if_false]
      rw [toInt64_small _ ht2]
      rw [read_at { buf := r.buf, pos := r.pos + (putUvarint t.1).length + (putUvarint t.2.length).length }
        (pre ++ putUvarint t.1 ++ putUvarint t.2.length) t.2 (encodeTagFields ts ++ rest)
        (by show r.buf = _; rw [hb]; simp only [List.append_assoc])
        (by show r.pos + _ + _ = _; rw [hp]; simp; omega)]
      simp only
      rw [ih _ (pre ++ putUvarint t.1 ++ putUvarint t.2.length ++ t.2) rest hw'
        (by show r.buf = _; rw [hb]; simp only [List.append_assoc])
        (by show r.pos + _ + _ + _ = _; rw [hp]; simp; omega)]
      simp only [List.length_append]
      congr 2
      push_cast; omega


/-- `SkipTaggedFields` on a well-formed section consumes exactly the section. -/
theorem skipTagged_at (r : Reader) (pre rest : Bytes) (tags : List (Nat × Bytes)) (hw : TagsWf tags)
    (hb : r.buf = pre ++ (encodeTags tags ++ rest)) (hp : r.pos = pre.length) :
    skipTaggedWith read r = .ok { buf := r.buf, pos := r.pos + (encodeTags tags).length } := by
  unfold skipTaggedWith
  unfold encodeTags at hb ⊢
  rw [uvarint_at r pre (encodeTagFields tags ++ rest) tags.length hw.1 (by rw [hb]; simp only [List.append_assoc]) hp]
  simp only [GoResult.bind]
  rw [skipLoop_enc tags _ (pre ++ putUvarint tags.length) rest hw.2
    (by show r.buf = _; rw [hb]; simp only [List.append_assoc]) (by show r.pos + _ = _; rw [hp]; simp)]
  simp only [List.length_append]
  congr 2
  push_cast; omega

theorem int16_at (r : Reader) (pre rest : Bytes) (k : Int) (hk : -32768 ≤ k ∧ k < 32768)
    (hb : r.buf = pre ++ (putU16 (twos 16 k) ++ rest)) (hp : r.pos = pre.length) :
    int16With read r = .ok (k, { buf := r.buf, pos := r.pos + 2 }) := by
  unfold int16With
  have := read_at r pre (putU16 (twos 16 k)) rest hb hp
  have hl : ((putU16 (twos 16 k)).length : Int) = 2 := rfl
  rw [hl] at this
  rw [this]
  simp only [GoResult.bind, u16_put _ (twos16_lt k), toInt16_twos k hk]

theorem int32_at (r : Reader) (pre rest : Bytes) (k : Int) (hk : -2^31 ≤ k ∧ k < 2^31)
    (hb : r.buf = pre ++ (putU32 (twos 32 k) ++ rest)) (hp : r.pos = pre.length) :
    int32With read r = .ok (k, { buf := r.buf, pos := r.pos + 4 }) := by
  unfold int32With
  have := read_at r pre (putU32 (twos 32 k)) rest hb hp
  have hl : ((putU32 (twos 32 k)).length : Int) = 4 := rfl
  rw [hl] at this
  rw [this]
  simp only [GoResult.bind, u32_put _ (twos32_lt k), toInt32_twos k hk]

theorem nullableString_at (r : Reader) (pre rest : Bytes) (s : Option Bytes)
    (hs : ∀ x, s = some x → x.length < 32768)
    (hb : r.buf = pre ++ (encodeNullableString s ++ rest)) (hp : r.pos = pre.length) :
    nullableStringWith read r = .ok (s, { buf := r.buf, pos := r.pos + (encodeNullableString s).length }) := by
  unfold nullableStringWith
  cases s with
  | none =>
    have : encodeNullableString none = putU16 (twos 16 (-1)) := by decide
    rw [this] at hb
    rw [int16_at r pre rest (-1) (by omega) hb hp]
    simp [GoResult.bind, encodeNullableString]
  | some x =>
    have hx := hs x rfl
    have h2 : twos 16 (x.length : Int) = x.length := by unfold twos; omega
    have hb' : r.buf = pre ++ (putU16 (twos 16 (x.length : Int)) ++ (x ++ rest)) := by
      rw [hb, h2]; simp [encodeNullableString]
    rw [int16_at r pre (x ++ rest) x.length (by omega) hb' hp]
    simp only [GoResult.bind]
    have hne : ¬ ((x.length : Int) = -1) := by omega
    have hnn : ¬ ((x.length : Int) < 0) := by omega
    simp only [hne, hnn, if_false]
    have := read_at { buf := r.buf, pos := r.pos + 2 } (pre ++ putU16 (twos 16 (x.length : Int))) x rest
      (by show r.buf = _; rw [hb']; simp) (by show r.pos + 2 = _; rw [hp]; simp [putU16])
    rw [this]
    simp only [encodeNullableString, List.length_append]
    congr 3
    show r.pos + 2 + (x.length : Int) = r.pos + ((2 + x.length : Nat) : Int)
    omega

/-- Round trip for ANY well-formed tagged-field section (kmsg's `RequestFormatter` writes the empty one: a single 0 byte). -/
theorem parseHeader_encode_aux (flex : Int → Int → Bool) (h : Header) (hw : h.wf) (tags : List (Nat × Bytes))
    (htw : TagsWf tags) (body : Bytes) :
    parseHeader flex (encodeHeader h (flex h.key h.ver) tags ++ body) = .ok (h, body) := by
  obtain ⟨k0, k1, v0, v1, c0, c1, hs⟩ := hw
  obtain ⟨key, ver, corr, cid⟩ := h
  simp only at k0 k1 v0 v1 c0 c1 hs
  unfold parseHeader parseHeaderWith
  simp only [encodeHeader]
  generalize hT : (if flex key ver = true then encodeTags tags else []) = T
  generalize hbuf : putU16 (twos 16 key) ++ putU16 (twos 16 ver) ++ putU32 (twos 32 corr) ++ encodeNullableString cid ++ T ++ body = buf
  have hb : buf = putU16 (twos 16 key) ++ (putU16 (twos 16 ver) ++ (putU32 (twos 32 corr) ++ (encodeNullableString cid ++ (T ++ body)))) := by
    rw [← hbuf]; simp only [List.append_assoc]
  rw [int16_at { buf := buf, pos := 0 } [] _ key ⟨k0, k1⟩ (by simpa using hb) rfl]
  simp only [GoResult.bind]
  rw [int16_at { buf := buf, pos := 0 + 2 } (putU16 (twos 16 key)) _ ver ⟨v0, v1⟩ hb rfl]
  simp only
  rw [int32_at { buf := buf, pos := 0 + 2 + 2 } (putU16 (twos 16 key) ++ putU16 (twos 16 ver)) (encodeNullableString cid ++ (T ++ body)) corr ⟨c0, c1⟩
    (by show buf = _; rw [hb]; simp only [List.append_assoc]) rfl]
  simp only
  rw [nullableString_at { buf := buf, pos := 0 + 2 + 2 + 4 } (putU16 (twos 16 key) ++ putU16 (twos 16 ver) ++ putU32 (twos 32 corr)) (T ++ body) cid hs
    (by show buf = _; rw [hb]; simp only [List.append_assoc]) rfl]
  simp only
  have hpre : buf = (putU16 (twos 16 key) ++ putU16 (twos 16 ver) ++ putU32 (twos 32 corr) ++ encodeNullableString cid) ++ (T ++ body) := by
    rw [hb]; simp only [List.append_assoc]
  have hplen : (0 : Int) + 2 + 2 + 4 + ((encodeNullableString cid).length : Int)
      = ((putU16 (twos 16 key) ++ putU16 (twos 16 ver) ++ putU32 (twos 32 corr) ++ encodeNullableString cid).length : Nat) := by
    simp [putU16, putU32]; omega
  by_cases hf : flex key ver = true
  · simp only [hf, if_true] at hT ⊢
    subst hT
    rw [skipTagged_at _ _ body tags htw hpre hplen]
    simp only
    have : (0 : Int) + 2 + 2 + 4 + ((encodeNullableString cid).length : Int) + ((encodeTags tags).length : Int)
      = ((putU16 (twos 16 key) ++ putU16 (twos 16 ver) ++ putU32 (twos 32 corr) ++ encodeNullableString cid ++ encodeTags tags).length : Nat) := by
      rw [hplen]; simp only [List.length_append]; push_cast; omega
    rw [this]
    have hb2 : buf = (putU16 (twos 16 key) ++ putU16 (twos 16 ver) ++ putU32 (twos 32 corr) ++ encodeNullableString cid ++ encodeTags tags) ++ body := by
      rw [hpre]; simp only [List.append_assoc]
    have := goSlice_tail (putU16 (twos 16 key) ++ putU16 (twos 16 ver) ++ putU32 (twos 32 corr) ++ encodeNullableString cid ++ encodeTags tags) body
    rw [← hb2] at this
    rw [this]
  · rw [if_neg hf] at hT
    simp only [hf]
    subst hT
    simp only [List.nil_append] at hpre
    rw [hplen]
    have := goSlice_tail (putU16 (twos 16 key) ++ putU16 (twos 16 ver) ++ putU32 (twos 32 corr) ++ encodeNullableString cid) body
    rw [← hpre] at this
    simp only [Bool.false_eq_true, if_false]
    rw [this]

theorem readFrame_shape (s : Bytes) :
    readFrame s ≠ .panic ∧ ∀ p rest, readFrame s = .ok (p, rest) →
      s = s.take 4 ++ p ++ rest ∧ (p.length : Int) = toInt32 (u32 (s.take 4)) := by
  unfold readFrame
  by_cases h4 : s.length < 4
  · simp [h4]
  · simp only [h4, if_false]
    by_cases hl : toInt32 (u32 (s.take 4)) < 0
    · simp [hl]
    · simp only [hl, if_false]
      have hlt : toInt32 (u32 (s.take 4)) < 2 ^ 31 := by unfold toInt32; split <;> omega
      have hmk : goMake (toInt32 (u32 (s.take 4))) 1 = .ok () := by
        unfold goMake AllocMax; simp only [hl, if_false]; 
        have : ¬ ((toInt32 (u32 (s.take 4))).toNat * 1 > 2 ^ 31) := by omega
        simp only [this, if_false]
      rw [hmk]
      simp only [GoResult.bind]
      by_cases hs : ((s.drop 4).length : Int) < toInt32 (u32 (s.take 4))
      · simp only [hs, if_true]; exact ⟨by simp, by simp⟩
      · simp only [hs, if_false]
        refine ⟨by simp, ?_⟩
        intro p rest heq
        injection heq with heq
        injection heq with hp hr
        subst hp hr
        refine ⟨?_, ?_⟩
        · rw [List.append_assoc, List.take_append_drop, List.take_append_drop]
        · rw [List.length_take]; omega

theorem readFrame_write (p rest : Bytes) (hp : p.length < 2 ^ 31) :
    readFrame (writeFrame p ++ rest) = .ok (p, rest) := by
  unfold readFrame writeFrame
  have h4 : ¬ ((putU32 p.length ++ p ++ rest).length < 4) := by simp [putU32]
  have ht : (putU32 p.length ++ p ++ rest).take 4 = putU32 p.length := by simp [putU32]
  have hd : (putU32 p.length ++ p ++ rest).drop 4 = p ++ rest := by simp [putU32]
  simp only [h4, if_false, ht, hd]
  have hu : toInt32 (u32 (putU32 p.length)) = p.length := by
    rw [u32_put _ (by omega)]; unfold toInt32; split <;> omega
  rw [hu]
  have hl : ¬ ((p.length : Int) < 0) := by omega
  have hmk : goMake (p.length : Int) 1 = .ok () := by
    unfold goMake AllocMax; simp only [hl, if_false]
    have : ¬ ((p.length : Int).toNat * 1 > 2 ^ 31) := by omega
    simp only [this, if_false]
  have hs : ¬ (((p ++ rest).length : Int) < p.length) := by simp only [List.length_append]; omega
  simp only [hl, if_false, hmk, GoResult.bind, hs]
  simp

theorem readFramesAux_stream (ps : List Bytes) (rest : Bytes) (fuel : Nat)
    (hps : ∀ p ∈ ps, p.length < 2 ^ 31) (hrest : ∀ p r, readFrame rest ≠ .ok (p, r)) (hf : ps.length < fuel) :
    readFramesAux fuel (ps.flatMap writeFrame ++ rest) = (ps, rest) := by
  induction ps generalizing fuel with
  | nil =>
    cases fuel with
    | zero => simp at hf
    | succ f =>
      simp only [List.flatMap_nil, List.nil_append]
      unfold readFramesAux
      split
      · rename_i p r h; exact absurd h (hrest p r)
      · rfl
  | cons p t ih =>
    cases fuel with
    | zero => simp at hf
    | succ f =>
      have hp : p.length < 2 ^ 31 := hps p (by simp)
      simp only [List.flatMap_cons, List.append_assoc, readFramesAux]
      rw [readFrame_write p (t.flatMap writeFrame ++ rest) hp]
      simp only
      rw [ih f (fun q hq => hps q (by simp [hq])) (by simp at hf; omega)]

end KafVerif.ProtoHeader

namespace KafVerif.C10
open KafVerif KafVerif.ProtoHeader

/-- (1a) For EVERY byte string and every flexibility table the fixed `ParseRequestHeader` returns a
header or an error — never a run-time panic. -/
theorem parseHeader_total (flex : Int → Int → Bool) (b : Bytes) : parseHeader flex b ≠ .panic :=
  (parseHeader_shape flex b).1

/-- (1b) `SkipTaggedFields` on any reader within its buffer never panics (also covers
`SkipResponseHeader`, which the proxy runs on backend replies). -/
theorem skipTagged_total (buf : Bytes) (pos : Nat) (h : pos ≤ buf.length) :
    skipTagged { buf := buf, pos := pos } ≠ .panic :=
  (skipTagged_safe _ ⟨by simp, by simp; omega⟩).1

/-- (1c) The body handed to the request decoder is a suffix of the frame payload (`b[r.pos:]`). -/
theorem parseHeader_body_suffix (flex : Int → Int → Bool) (b : Bytes) (h : Header) (body : Bytes)
    (hp : parseHeader flex b = .ok (h, body)) : ∃ pre, b = pre ++ body ∧ pre.length ≤ b.length := by
  obtain ⟨p, hp1, hp2⟩ := (parseHeader_shape flex b).2 h body hp
  exact ⟨b.take p, by rw [hp2, List.take_append_drop], by rw [List.length_take]; exact Nat.min_le_right _ _⟩

/-- The frame that kills the unpatched broker/proxy: Metadata v9 (flexible), one tagged field whose
size varint is 2^63 (`int(size) < 0` passes `remaining() < n`, `buf[start:pos]` panics). -/
def killerFrame : Bytes :=
  [0, 3, 0, 9, 0, 0, 0, 1, 0xff, 0xff, 1, 0, 0x80, 0x80, 0x80, 0x80, 0x80, 0x80, 0x80, 0x80, 0x80, 0x01]

/-- (2) The code before the fix violates the property. -/
theorem parseHeaderOld_panics : ∃ b, parseHeaderOld (fun _ _ => true) b = .panic :=
  ⟨killerFrame, by decide⟩

/-- … and the fixed code rejects the same frame with an error. -/
theorem killerFrame_rejected : parseHeader (fun _ _ => true) killerFrame = .err := by decide

/-- (3a) Round trip, full strength: a request header (key, version, correlation id, nullable client id) followed — for
flexible versions — by ANY well-formed tagged-field section (uvarint count; per field uvarint tag, uvarint size, that many
bytes; count/tags < 2^64, sizes < 2^63), followed by ANY body bytes, parses back to exactly the same header and exactly the
same body: `SkipTaggedFields` consumes the section and nothing else. -/
theorem parseHeader_encode_tags (flex : Int → Int → Bool) (h : Header) (hw : h.wf) (tags : List (Nat × Bytes))
    (htw : TagsWf tags) (body : Bytes) :
    parseHeader flex (encodeHeader h (flex h.key h.ver) tags ++ body) = .ok (h, body) :=
  parseHeader_encode_aux flex h hw tags htw body

/-- (3b) The instance standard clients send (kmsg `RequestFormatter`: empty tagged-field section = one 0 byte). -/
theorem parseHeader_encode (flex : Int → Int → Bool) (h : Header) (hw : h.wf) (body : Bytes) :
    parseHeader flex (encodeHeader h (flex h.key h.ver) [] ++ body) = .ok (h, body) :=
  parseHeader_encode_tags flex h hw [] ⟨by decide, by simp⟩ body

/-- (3c) `ParseRequestHeader` never reads beyond the header: the body it returns is the input from exactly the end of the
encoded header on, and the parsed header does not depend on what follows it. -/
theorem parseHeader_consumes_exactly_header (flex : Int → Int → Bool) (h : Header) (hw : h.wf) (tags : List (Nat × Bytes))
    (htw : TagsWf tags) (body body' : Bytes) :
    parseHeader flex (encodeHeader h (flex h.key h.ver) tags ++ body)
      = .ok (h, (encodeHeader h (flex h.key h.ver) tags ++ body).drop (encodeHeader h (flex h.key h.ver) tags).length) ∧
    (parseHeader flex (encodeHeader h (flex h.key h.ver) tags ++ body)).bind (fun r => .ok r.1)
      = (parseHeader flex (encodeHeader h (flex h.key h.ver) tags ++ body')).bind (fun r => .ok r.1) := by
  rw [parseHeader_encode_tags flex h hw tags htw body, parseHeader_encode_tags flex h hw tags htw body']
  simp [GoResult.bind]

/-- (3d) `binary.Uvarint ∘ binary.PutUvarint` = identity on uint64, consuming exactly the encoding (any bytes may follow). -/
theorem uvarint_roundtrip (v : Nat) (hv : v < 2 ^ 64) (rest : Bytes) :
    goUvarint (putUvarint v ++ rest) = (v, ((putUvarint v).length : Int)) ∧ 0 < (putUvarint v).length := by
  have h := uvarintAux_put 9 v 0 0 0 rest rfl hv
  refine ⟨?_, putUvarintAux_length_pos 9 v⟩
  unfold goUvarint putUvarint
  rw [h]; simp

/-- (3e) `SkipTaggedFields` on a reader standing at the start of a well-formed section (anything before, anything after)
succeeds and advances by exactly the length of the section. -/
theorem skipTagged_exact (pre rest : Bytes) (tags : List (Nat × Bytes)) (htw : TagsWf tags) :
    skipTagged { buf := pre ++ (encodeTags tags ++ rest), pos := pre.length }
      = .ok { buf := pre ++ (encodeTags tags ++ rest), pos := (pre.length : Int) + (encodeTags tags).length } :=
  skipTagged_at _ pre rest tags htw rfl rfl

/-- (3f) Whatever the bytes: when `SkipTaggedFields` succeeds the reader is still inside its buffer and has not moved
backwards (a lying size cannot move the position past the end or before the start). -/
theorem skipTagged_within_buffer (buf : Bytes) (pos : Nat) (h : pos ≤ buf.length) (r' : Reader)
    (hs : skipTagged { buf := buf, pos := pos } = .ok r') :
    r'.buf = buf ∧ (pos : Int) ≤ r'.pos ∧ r'.pos ≤ buf.length := by
  obtain ⟨hb, hi, hp⟩ := (skipTagged_safe { buf := buf, pos := pos } ⟨by simp, by simp; omega⟩).2 r' hs
  have h2 := hi.2
  rw [hb] at h2
  exact ⟨hb, hp, h2⟩

/-- (4a) `ReadFrame` never panics (allocation size is not modelled: lengths ≤ 2^31-1 are accepted). -/
theorem readFrame_total (s : Bytes) : readFrame s ≠ .panic := (readFrame_shape s).1

/-- (4b) `ReadFrame` returns exactly `length` bytes and leaves exactly the rest of the stream. -/
theorem readFrame_exact (s p rest : Bytes) (h : readFrame s = .ok (p, rest)) :
    s = s.take 4 ++ p ++ rest ∧ (p.length : Int) = toInt32 (u32 (s.take 4)) := (readFrame_shape s).2 p rest h

/-- (4c) `ReadFrame ∘ WriteFrame` is the identity on payloads, and the following bytes stay in the stream. -/
theorem readFrame_writeFrame (p rest : Bytes) (hp : p.length < 2 ^ 31) :
    readFrame (writeFrame p ++ rest) = .ok (p, rest) := readFrame_write p rest hp

/-- (4d) Pipelining: reading frames one after the other from a stream that holds k encoded frames back to back
(followed by anything that is not itself a complete frame, e.g. nothing) yields exactly those k payloads, in
order, and leaves exactly the remainder — no byte of a later frame is consumed by an earlier read. -/
theorem readFrames_stream (ps : List Bytes) (rest : Bytes) (fuel : Nat)
    (hps : ∀ p ∈ ps, p.length < 2 ^ 31) (hrest : ∀ p r, readFrame rest ≠ .ok (p, r)) (hf : ps.length < fuel) :
    readFramesAux fuel (ps.flatMap writeFrame ++ rest) = (ps, rest) :=
  readFramesAux_stream ps rest fuel hps hrest hf

example : readFrames ([0, 0, 0, 1, 7] ++ [0, 0, 0, 0] ++ [0, 0, 0, 2, 8, 9] ++ [0, 0]) = ([[7], [], [8, 9]], [0, 0]) := by decide

/-! ### the body stage: `ParseRequest` = header, then `ParseRequestBody` (kmsg = parameter `known`/`dec`) -/

/-- `ParseRequestBody` never panics — for EVERY header, in particular one whose client id is null (`clientId = none`), whatever kmsg
says about the key and the body (unknown key, decode error, decoded). -/
theorem parseRequestBody_total {R : Type} (known : Int → Bool) (dec : Int → Int → Bytes → Option R) (h : Header) (body : Bytes) :
    parseRequestBody known dec h body ≠ .panic := by
  unfold parseRequestBody parseRequestBodyWith decodeErrArgs
  split
  · simp
  · split <;> simp [GoResult.bind]

/-- (1d) `ParseRequest` (header AND body stage) never panics: for every byte string, every flexibility table and every outcome of
the kmsg decoder on whatever body the header stage hands it. -/
theorem parseRequest_total {R : Type} (flex : Int → Int → Bool) (known : Int → Bool) (dec : Int → Int → Bytes → Option R) (b : Bytes) :
    parseRequest flex known dec b ≠ .panic := by
  unfold parseRequest parseRequestWith
  have hh := parseHeader_total flex b
  cases hp : parseHeader flex b with
  | ok x => exact parseRequestBody_total known dec x.1 x.2
  | err => simp [GoResult.bind]
  | panic => exact absurd hp hh

/-- Exactly when it succeeds: the header parsed, kmsg knows the key and decoded the body the header stage returned; the header
returned is the parsed one, unchanged. -/
theorem parseRequest_ok_iff {R : Type} (flex : Int → Int → Bool) (known : Int → Bool) (dec : Int → Int → Bytes → Option R) (b : Bytes)
    (h : Header) (r : R) :
    parseRequest flex known dec b = .ok (h, r) ↔
      ∃ body, parseHeader flex b = .ok (h, body) ∧ known h.key = true ∧ dec h.key h.ver body = some r := by
  unfold parseRequest parseRequestWith parseRequestBodyWith decodeErrArgs
  cases hp : parseHeader flex b with
  | ok x =>
    obtain ⟨h', body'⟩ := x
    simp only [GoResult.bind]
    constructor
    · intro hq
      by_cases hk : known h'.key = true
      · simp only [hk, Bool.not_true, Bool.false_eq_true, if_false] at hq
        cases hd : dec h'.key h'.ver body' with
        | some r' =>
          simp only [hd] at hq
          injection hq with hq; injection hq with h1 h2
          subst h1; subst h2
          exact ⟨body', rfl, hk, hd⟩
        | none => simp [hd] at hq
      · have hk' : known h'.key = false := by simpa using hk
        simp [hk'] at hq
    · rintro ⟨body, hb, hk, hd⟩
      injection hb with hb; injection hb with h1 h2
      subst h1; subst h2
      simp [hk, hd]
  | err => simp [GoResult.bind]
  | panic => simp [GoResult.bind]

/-- A body kmsg cannot decode (truncated, garbage), or a key kmsg does not know, is an ERROR — for every header that parsed, null
client id included. -/
theorem parseRequest_decode_error {R : Type} (flex : Int → Int → Bool) (known : Int → Bool) (dec : Int → Int → Bytes → Option R) (b : Bytes)
    (h : Header) (body : Bytes) (hp : parseHeader flex b = .ok (h, body)) (hd : known h.key = false ∨ dec h.key h.ver body = none) :
    parseRequest flex known dec b = .err := by
  unfold parseRequest parseRequestWith parseRequestBodyWith decodeErrArgs
  rw [hp]
  simp only [GoResult.bind]
  rcases hd with hd | hd
  · simp [hd]
  · split
    · rfl
    · simp [hd]

/-- The seeded shape, end to end: a request as a client writes it (any well-formed header — the client id may be NULL —, any
well-formed tagged-field section, any body) whose body kmsg rejects, is answered with an error, not a crash. -/
theorem parseRequest_malformed_body_any_client_id {R : Type} (flex : Int → Int → Bool) (known : Int → Bool)
    (dec : Int → Int → Bytes → Option R) (h : Header) (hw : h.wf) (tags : List (Nat × Bytes)) (htw : TagsWf tags) (body : Bytes)
    (hd : dec h.key h.ver body = none) :
    parseRequest flex known dec (encodeHeader h (flex h.key h.ver) tags ++ body) = .err :=
  parseRequest_decode_error flex known dec _ h body (parseHeader_encode_aux flex h hw tags htw body) (Or.inr hd)

/-- What the totality theorem excludes: an error message that dereferences the client id (`*header.ClientID`) panics on a request
with a null client id and an undecodable body (Metadata v1, correlation 1, client id null, empty body). -/
theorem parseRequestDeref_panics :
    ∃ b, parseRequestWith (R := Unit) decodeErrArgsDeref (fun _ _ => false) (fun _ => true) (fun _ _ _ => none) b = .panic :=
  ⟨[0, 3, 0, 1, 0, 0, 0, 1, 0xff, 0xff], by decide⟩

/-- … while that variant is fine whenever a client id is present: the failure needs BOTH a null client id and a rejected body. -/
theorem parseRequestDeref_needs_null_client_id {R : Type} (flex : Int → Int → Bool) (known : Int → Bool)
    (dec : Int → Int → Bytes → Option R) (b : Bytes) (h : Header) (body : Bytes) (hp : parseHeader flex b = .ok (h, body))
    (hc : h.clientId ≠ none) : parseRequestWith decodeErrArgsDeref flex known dec b ≠ .panic := by
  unfold parseRequestWith parseRequestBodyWith decodeErrArgsDeref
  rw [hp]
  simp only [GoResult.bind]
  split
  · simp
  · split
    · simp
    · cases hcid : h.clientId with
      | none => exact absurd hcid hc
      | some s => simp

set_option maxRecDepth 8000 in
example : parseRequest (R := Unit) (fun _ _ => false) (fun _ => true) (fun _ _ b => if b.length = 2 then some () else none)
    [0, 3, 0, 1, 0, 0, 0, 1, 0xff, 0xff, 5, 6] = .ok ({ key := 3, ver := 1, corr := 1, clientId := none }, ()) := by decide
set_option maxRecDepth 8000 in
example : parseRequest (R := Unit) (fun _ _ => false) (fun _ => true) (fun _ _ _ => none)
    [0, 3, 0, 1, 0, 0, 0, 1, 0xff, 0xff, 5] = .err := by decide
set_option maxRecDepth 8000 in
example : parseRequest (R := Unit) (fun _ _ => false) (fun k => k != 3) (fun _ _ _ => some ())
    [0, 3, 0, 1, 0, 0, 0, 1, 0xff, 0xff, 5] = .err := by decide

/-- (5) Parsing is a function of the frame bytes alone (and of kmsg's fixed flexibility table): the model has no
parser state, so whatever other connections parse before or at the same time, equal frames give equal results.
Trivial in the model — it NAMES the assumption "no shared mutable state between parses", which the code could break
(e.g. a shared, mutated kmsg request value); the concurrent + race-detector scenario of checks/C10.py validates it
against the current code on every run. -/
theorem parse_depends_only_on_frame (flex : Int → Int → Bool) (others : List Bytes) (b₁ b₂ : Bytes) (h : b₁ = b₂) :
    (others.map (parseHeader flex), parseHeader flex b₁).2 = parseHeader flex b₂ := by
  subst h; rfl

/-! non-vacuity: the hypotheses are satisfiable and the conclusions are not trivially `err` -/
example : Header.wf { key := 3, ver := 9, corr := -7, clientId := some [0x61, 0x62] } :=
  ⟨by decide, by decide, by decide, by decide, by decide, by decide,
   fun s h => by injection h with h; subst h; decide⟩
set_option maxRecDepth 8000 in
example : parseHeader (fun k v => k == 3 && decide (9 ≤ v))
    [0, 3, 0, 9, 0xff, 0xff, 0xff, 0xf9, 0, 2, 0x61, 0x62, 0, 1, 2, 3]
    = .ok ({ key := 3, ver := 9, corr := -7, clientId := some [0x61, 0x62] }, [1, 2, 3]) := by decide
set_option maxRecDepth 8000 in
example : parseHeader (fun _ _ => false) [0, 18, 0, 0, 0, 0, 0, 5, 0xff, 0xff, 9]
    = .ok ({ key := 18, ver := 0, corr := 5, clientId := none }, [9]) := by decide
example : readFrame [0, 0, 0, 2, 7, 8, 9] = .ok ([7, 8], [9]) := by decide
example : readFrame [0, 0, 0, 1, 5] = .ok ([5], []) := by decide
example : TagsWf [(0, [1, 2]), (300, []), (5, [9])] := ⟨by decide, by decide⟩
example : encodeTags [(0, [1, 2]), (300, []), (5, [9])] = [3, 0, 2, 1, 2, 0xac, 2, 0, 5, 1, 9] := by decide
example : putUvarint (2 ^ 64 - 1) = [0xff, 0xff, 0xff, 0xff, 0xff, 0xff, 0xff, 0xff, 0xff, 1] := by decide
set_option maxRecDepth 8000 in
example : parseHeader (fun k v => k == 3 && decide (9 ≤ v))
    (encodeHeader { key := 3, ver := 9, corr := -7, clientId := some [0x61] } true [(0, [1, 2]), (300, []), (5, [9])] ++ [7, 7])
    = .ok ({ key := 3, ver := 9, corr := -7, clientId := some [0x61] }, [7, 7]) := by decide
example : skipTagged { buf := [2, 0, 1, 0xaa, 1, 0, 9], pos := 0 } = .ok { buf := [2, 0, 1, 0xaa, 1, 0, 9], pos := 6 } := by decide

end KafVerif.C10
