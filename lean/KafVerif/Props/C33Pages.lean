import KafVerif.Props.C33
/-!
# C33 — the S3 seams below the lister and the decoder (round 3b)

## `ListObjectsV2` answers in pages
`s3Lister.listCompleted` walks the pages of a `ListObjectsV2Paginator` and records, per (topic,
partition, base offset) key, which of the two objects of a segment (`.kfs`, `.index`) it has seen — in ONE
map that lives across all pages; only after the last page are the pairs probed and sorted.  S3 cuts the
sorted key list into pages of at most 1000 keys wherever it likes, so the two keys of a segment can arrive
on two pages.  `listPaged` models the walk (the map of two-field entries is the pair of key sets "`.kfs`
seen" / "`.index` seen"); `listPerPage` is a lister that pairs and clears per page.

## A download cut mid-body
`s3Decoder.getObject` reads the body with `io.ReadAll`: a transfer that ends before the announced
`Content-Length` is an error (`io.ErrUnexpectedEOF` from net/http), `Decode` fails and the tick stops at
that segment.  `decodeSegment` itself accepts a truncated segment (it decodes the leading complete
batches), so a reader that tolerates the short body hands the loop a PREFIX of the segment's records.
-/
namespace KafVerif.Processor

/-- one key of a `ListObjectsV2` answer that parses as a segment key: the pair it belongs to (index into
the bucket's `Obj` list) and which of the two objects it is -/
structure PKey where
  id : Nat
  kfs : Bool       -- `true`: the `.kfs` object, `false`: the `.index` object
deriving Repr, DecidableEq

/-- `entries` of `listCompleted`: the ids whose `.kfs` key was seen, the ids whose `.index` key was seen -/
def addKey (e : List Nat × List Nat) (k : PKey) : List Nat × List Nat :=
  if k.kfs then (k.id :: e.1, e.2) else (e.1, k.id :: e.2)

def addPage (e : List Nat × List Nat) (page : List PKey) : List Nat × List Nat := page.foldl addKey e

/-- `if entry.kfsKey == "" || entry.indexKey == "" { continue }` -/
def pairedIds (e : List Nat × List Nat) : List Nat := e.1.filter fun i => e.2.contains i

/-- HEAD: the entries accumulate over every page, the pairs are formed after the last one -/
def listPaged (pages : List (List PKey)) : List Nat := pairedIds (pages.foldl addPage ([], []))

/-- a lister that forms the pairs of each page and then clears the map -/
def listPerPage (pages : List (List PKey)) : List Nat :=
  pages.flatMap fun p => pairedIds (addPage ([], []) p)

theorem mem_addPage (e : List Nat × List Nat) (p : List PKey) (i : Nat) :
    (i ∈ (addPage e p).1 ↔ i ∈ e.1 ∨ (⟨i, true⟩ : PKey) ∈ p) ∧
    (i ∈ (addPage e p).2 ↔ i ∈ e.2 ∨ (⟨i, false⟩ : PKey) ∈ p) := by
  induction p generalizing e with
  | nil => simp [addPage]
  | cons k t ih =>
    have h := ih (addKey e k)
    have hstep : addPage e (k :: t) = addPage (addKey e k) t := rfl
    rw [hstep, h.1, h.2]
    rcases k with ⟨j, b⟩
    cases b <;> simp [addKey] <;> grind

theorem mem_pages (pages : List (List PKey)) (e : List Nat × List Nat) (i : Nat) :
    (i ∈ (pages.foldl addPage e).1 ↔ i ∈ e.1 ∨ (⟨i, true⟩ : PKey) ∈ pages.flatten) ∧
    (i ∈ (pages.foldl addPage e).2 ↔ i ∈ e.2 ∨ (⟨i, false⟩ : PKey) ∈ pages.flatten) := by
  induction pages generalizing e with
  | nil => simp
  | cons p t ih =>
    have h := ih (addPage e p)
    have hp := mem_addPage e p i
    simp only [List.foldl_cons, List.flatten_cons, List.mem_append]
    rw [h.1, h.2, hp.1, hp.2]
    constructor <;> simp [or_assoc]

/-- **a segment is paired exactly when both of its keys were listed — on whichever pages** -/
theorem _root_.KafVerif.C33.paged_listing_pairs_across_pages (pages : List (List PKey)) (i : Nat) :
    i ∈ listPaged pages ↔ (⟨i, true⟩ : PKey) ∈ pages.flatten ∧ (⟨i, false⟩ : PKey) ∈ pages.flatten := by
  have h := mem_pages pages ([], []) i
  simp [listPaged, pairedIds, List.mem_filter, h.1, h.2]

/-- … so the listing does not depend on where S3 cuts the key list into pages -/
theorem _root_.KafVerif.C33.paged_listing_independent_of_page_cuts (pages pages' : List (List PKey))
    (h : pages.flatten = pages'.flatten) (i : Nat) : i ∈ listPaged pages ↔ i ∈ listPaged pages' := by
  rw [KafVerif.C33.paged_listing_pairs_across_pages, KafVerif.C33.paged_listing_pairs_across_pages, h]

example : listPaged [[⟨0, false⟩, ⟨0, true⟩, ⟨1, false⟩], [⟨1, true⟩, ⟨2, false⟩, ⟨2, true⟩]] = [2, 1, 0] := by decide

/-- per-page pairing only ever drops segments -/
theorem _root_.KafVerif.C33.per_page_pairing_sublisting (pages : List (List PKey)) (i : Nat)
    (h : i ∈ listPerPage pages) : i ∈ listPaged pages := by
  simp only [listPerPage, List.mem_flatMap] at h
  obtain ⟨p, hp, hi⟩ := h
  have h1 := mem_addPage ([], []) p i
  simp only [pairedIds, List.mem_filter, List.contains_iff_mem] at hi
  rw [KafVerif.C33.paged_listing_pairs_across_pages]
  simp only [List.mem_flatten]
  exact ⟨⟨p, hp, by simpa using h1.1.mp hi.1⟩, ⟨p, hp, by simpa using h1.2.mp (by simpa using hi.2)⟩⟩

/-- the pairs of the bucket the page walk found (`ids`), in bucket order -/
def pickFrom (ids : List Nat) : Nat → List Obj → List Obj
  | _, [] => []
  | n, o :: t => if ids.contains n then o :: pickFrom ids (n + 1) t else pickFrom ids (n + 1) t

theorem pickFrom_all (ids : List Nat) (l : List Obj) (n : Nat)
    (h : ∀ i, n ≤ i → i < n + l.length → i ∈ ids) : pickFrom ids n l = l := by
  induction l generalizing n with
  | nil => rfl
  | cons o t ih =>
    have h0 : ids.contains n = true := by simpa using h n (Nat.le_refl _) (by simp)
    simp only [pickFrom, h0, if_true]
    rw [ih (n + 1) (fun i h1 h2 => h i (by omega) (by simp at h2 ⊢; omega))]

/-- `s3Lister.ListCompleted` over a paged `ListObjectsV2` answer -/
def listCompletedPaged (objs : List Obj) (pages : List (List PKey)) (lo : ListOracle) : Option (List Seg) :=
  listCompleted (pickFrom (listPaged pages) 0 objs) lo

/-- every key of the bucket is on some page (what `IsTruncated` / `NextContinuationToken` guarantee) -/
def AllKeysListed (n : Nat) (pages : List (List PKey)) : Prop :=
  ∀ i, i < n → (⟨i, true⟩ : PKey) ∈ pages.flatten ∧ (⟨i, false⟩ : PKey) ∈ pages.flatten

/-- **the paged lister is the lister of `checkpoint_covered_listing`**, for every way of cutting the keys
into pages — all the listing theorems (safety, growing bucket, progress) carry over. -/
theorem _root_.KafVerif.C33.paged_lister_is_complete_lister (objs : List Obj) (pages : List (List PKey))
    (lo : ListOracle) (h : AllKeysListed objs.length pages) :
    listCompletedPaged objs pages lo = listCompleted objs lo := by
  unfold listCompletedPaged
  rw [pickFrom_all]
  intro i _ hi
  rw [KafVerif.C33.paged_listing_pairs_across_pages]
  exact h i (by simpa using hi)

example : AllKeysListed 3 [[⟨0, false⟩, ⟨0, true⟩, ⟨1, false⟩], [⟨1, true⟩, ⟨2, false⟩, ⟨2, true⟩]] := by
  intro i hi
  have : i = 0 ∨ i = 1 ∨ i = 2 := by omega
  rcases this with rfl | rfl | rfl <;> decide

/-- the page cut of the witness: 3-key pages over the keys of `bucket3`, the boundary between the
`.index` and the `.kfs` key of the middle segment -/
def pages3 : List (List PKey) := [[⟨0, false⟩, ⟨0, true⟩, ⟨1, false⟩], [⟨1, true⟩, ⟨2, false⟩, ⟨2, true⟩]]

/-- **per-page pairing loses the segment that straddles the page boundary**: the listing succeeds without
the middle segment, the failure-free loop commits the later one, offsets 2, 3 are below the checkpoint and
were never written; with the entries kept across pages the same pages give the complete listing. -/
theorem _root_.KafVerif.C33.per_page_pairing_drops_split_segment :
    listCompleted (pickFrom (listPerPage pages3) 0 bucket3) ⟨false, [], false⟩ = some [⟨0, [0, 1]⟩, ⟨0, [4, 5]⟩] ∧
    ¬ Covered .mem (fullListing bucket3)
        (cycleWith (listCompleted (pickFrom (listPerPage pages3) 0 bucket3) ⟨false, [], false⟩) .mem ⟨false, [], []⟩ init) ∧
    listCompletedPaged bucket3 pages3 ⟨false, [], false⟩ = some (fullListing bucket3) := by
  refine ⟨by decide, ?_, by decide⟩
  intro h
  have := h 0 2 (by decide) (by decide)
  revert this; decide

/-! ### a download cut mid-body -/

/-- `io.ReadAll` over an HTTP body that announced `obj.length` bytes and delivered `d` of them -/
def readAllHttp (obj : List Nat) (d : Nat) : Option (List Nat) := if d < obj.length then none else some obj

/-- a reader that treats `io.ErrUnexpectedEOF` as the end of the data -/
def readTolerant (obj : List Nat) (d : Nat) : Option (List Nat) := some (obj.take d)

/-- HEAD: a download that succeeds returned the whole object -/
theorem _root_.KafVerif.C33.download_ok_is_whole_object (obj data : List Nat) (d : Nat)
    (h : readAllHttp obj d = some data) : data = obj := by
  unfold readAllHttp at h
  split at h <;> simp_all

theorem _root_.KafVerif.C33.download_cut_is_error (obj : List Nat) (d : Nat) (h : d < obj.length) :
    readAllHttp obj d = none ∧ ∃ data, readTolerant obj d = some data ∧ data ≠ obj := by
  refine ⟨by simp [readAllHttp, h], obj.take d, rfl, ?_⟩
  intro he
  have := congrArg List.length he
  simp at this; omega

example : readAllHttp [1, 2, 3] 3 = some [1, 2, 3] ∧ readAllHttp [1, 2, 3] 2 = none := by decide

/-- **a Decode that answers a strict prefix of a middle segment's records with a nil error loses the rest**:
stored segments `[0,1] [2,3,4] [5,6]`, the loop is handed `[2,3]` for the middle one (its download was cut
after the second batch), the tick is otherwise failure-free: offset 4 is below the checkpoint 6 and was never
written.  When the cut download is an error (HEAD: the `decode` fault of the model) the tick stops at the
segment (checkpoint 1) and the monitor `coveredB` holds, as `checkpoint_covered` says for every history. -/
theorem _root_.KafVerif.C33.truncated_decode_loses_records :
    ¬ Covered .mem [⟨0, [0, 1]⟩, ⟨0, [2, 3, 4]⟩, ⟨0, [5, 6]⟩]
        (cycle .mem [⟨0, [0, 1]⟩, ⟨0, [2, 3]⟩, ⟨0, [5, 6]⟩] ⟨false, [], []⟩ init) ∧
    (cycle .mem [⟨0, [0, 1]⟩, ⟨0, [2, 3, 4]⟩, ⟨0, [5, 6]⟩] ⟨false, [], [.none, .decode, .none]⟩ init).cp 0 = 1 ∧
    coveredB .mem [⟨0, [0, 1]⟩, ⟨0, [2, 3, 4]⟩, ⟨0, [5, 6]⟩]
        (cycle .mem [⟨0, [0, 1]⟩, ⟨0, [2, 3, 4]⟩, ⟨0, [5, 6]⟩] ⟨false, [], [.none, .decode, .none]⟩ init) = true := by
  refine ⟨?_, by decide, by decide⟩
  intro h
  have := h 0 4 (by decide) (by decide)
  revert this; decide

end KafVerif.Processor
