import KafVerif.Lemmas.GroupEffect
import KafVerif.Props.C14
/-!
C15 — Group state survives coordinator failover.

Statement (properties.jsonl): if a group's coordinator is replaced by a new one that loads state
from the metadata store, the new coordinator reports the same generation, state, leader, members,
subscriptions and assignments; members of the current generation keep working against it without
rejoining.

Model: `build` (buildConsumerGroup), `cloneGroup` (InMemoryStore.cloneConsumerGroup, applied on Put
and on Fetch), `restore` (restoreGroupState) of `KafVerif.Group`.
-/
namespace KafVerif.Group
open Group

/-- what a coordinator reports about a group (everything except the volatile rebalance
bookkeeping: join markers and the deadline) -/
structure View where
  gen : Nat
  phase : Phase
  leader : Nat
  protoName : Nat
  protoType : Nat
  rebTimeout : Nat
  members : List (Nat × List Nat × Nat × Nat)     -- id, subscription, session timeout, last heartbeat
  asg : List (Nat × Asg)                          -- assignment of every member
deriving DecidableEq, Repr

def view (st : Group) : View :=
  { gen := st.gen, phase := st.phase, leader := st.leader, protoName := st.protoName, protoType := st.protoType,
    rebTimeout := st.rebTimeout,
    members := st.members.map fun e => (e.1, e.2.topics, e.2.session, e.2.lastHb),
    asg := st.members.map fun e => (e.1, asgOf st e.1) }

/-- what every group state written by the coordinator satisfies: positive timeouts (JoinGroup
defaults them) and a leader that is a member (`ensureLeader`) -/
structure WF (st : Group) : Prop where
  session : ∀ e ∈ st.members, 0 < e.2.session
  rebalance : 0 < st.rebTimeout
  leader : st.ensureLeader.leader = st.leader

theorem cloneGroup_fixed (p : PGroup) : cloneGroup fixed p = p := rfl

theorem lookup_filterMap_none {α : Type} (ms : List (Nat × α)) (f : Nat → Asg) (m : Nat) (he : (f m).isEmpty = true) :
    lookup (ms.filterMap fun e => if (f e.1).isEmpty then none else some (e.1, f e.1)) m = none := by
  induction ms with
  | nil => simp [lookup]
  | cons e t ih =>
    obtain ⟨k, v⟩ := e
    simp only [List.filterMap_cons]
    by_cases hk : (f k).isEmpty = true
    · simp only [hk, if_true]; exact ih
    · simp only [hk, Bool.false_eq_true, if_false, lookup]
      have : ¬ k = m := by intro h; subst h; exact hk he
      simp only [this, if_false]; exact ih

theorem lookup_filterMap_some {α : Type} (ms : List (Nat × α)) (f : Nat → Asg) (m : Nat) (hm : m ∈ keys ms)
    (he : ¬ (f m).isEmpty = true) :
    lookup (ms.filterMap fun e => if (f e.1).isEmpty then none else some (e.1, f e.1)) m = some (f m) := by
  induction ms with
  | nil => simp [keys] at hm
  | cons e t ih =>
    obtain ⟨k, v⟩ := e
    simp only [List.filterMap_cons]
    by_cases hkm : k = m
    · subst hkm
      simp [he, lookup]
    · have hm' : m ∈ keys t := by
        simp only [keys, List.map_cons, List.mem_cons] at hm
        rcases hm with h | h
        · exact absurd h.symm hkm
        · exact h
      by_cases hk : (f k).isEmpty = true
      · simp only [hk, if_true]; exact ih hm'
      · simp only [hk, Bool.false_eq_true, if_false, lookup, hkm]; exact ih hm'

/-- the assignment table of the restored group, looked up for a member -/
theorem asgOf_restore_build (st : Group) (now : Nat) (m : Nat) (hm : m ∈ keys st.members) :
    asgOf (restore fixed (build st) now) m = asgOf st m := by
  have hasg : (restore fixed (build st) now).asg =
      st.members.filterMap fun e => if (asgOf st e.1).isEmpty then none else some (e.1, asgOf st e.1) := by
    unfold restore
    simp only [ensureLeader_asg, build, List.filterMap_map, Function.comp_def]
  unfold asgOf at hasg ⊢
  rw [hasg]
  by_cases he : ((lookup st.asg m).getD []).isEmpty = true
  · rw [lookup_filterMap_none st.members (fun k => (lookup st.asg k).getD []) m he]
    have : (lookup st.asg m).getD [] = [] := by simpa using he
    simp [this]
  · rw [lookup_filterMap_some st.members (fun k => (lookup st.asg k).getD []) m hm he]
    rfl

/-- **C15 (round trip).** For every group state with positive timeouts and a valid leader (every
state the coordinator persists), and every load time: writing the group with
`buildConsumerGroup`, passing it through the in-memory store's `cloneConsumerGroup` (on Put and on
Fetch) and reading it back with `restoreGroupState` yields the same generation, phase, leader,
protocol, rebalance timeout, member set, subscriptions, session timeouts, last heartbeats and
assignments. -/
theorem _root_.KafVerif.C15.restore_build_view (st : Group) (now : Nat) (h : WF st) :
    view (restore fixed (cloneGroup fixed (cloneGroup fixed (build st))) now) = view st := by
  rw [cloneGroup_fixed, cloneGroup_fixed]
  have hmem : (restore fixed (build st) now).members =
      st.members.map fun e => (e.1, { e.2 with joinGen := if st.phase = .preparing then 0 else st.gen }) := by
    unfold restore
    simp only [ensureLeader_members, build, List.map_map, Function.comp_def]
    apply List.map_congr_left
    intro e he
    have := h.session e he
    simp [this, fixed]
  have hlead : (restore fixed (build st) now).leader = st.leader := by
    have hl := h.leader
    unfold restore
    simp only [build, List.map_map, Function.comp_def]
    -- `ensureLeader` only looks at the leader and at the member ids, which the round trip keeps
    unfold ensureLeader at hl ⊢
    simp only at hl ⊢
    rw [lookup_map_val st.members _ st.leader]
    by_cases hc : st.leader ≠ 0 ∧ (lookup st.members st.leader).isSome = true
    · rw [if_pos (by refine ⟨hc.1, ?_⟩; cases hq : lookup st.members st.leader with
        | none => rw [hq] at hc; simp at hc
        | some x => simp)]
    · rw [if_neg hc] at hl
      rw [if_neg (by
        intro hh; apply hc; refine ⟨hh.1, ?_⟩
        cases hq : lookup st.members st.leader with
        | none => rw [hq] at hh; simp at hh
        | some x => simp)]
      cases hm : st.members with
      | nil => rw [hm] at hl; simpa using hl
      | cons e t => rw [hm] at hl; simpa using hl
  have hasg : (st.members.map fun e => (e.1, asgOf (restore fixed (build st) now) e.1)) =
      st.members.map fun e => (e.1, asgOf st e.1) := by
    apply List.map_congr_left
    intro e he
    rw [asgOf_restore_build st now e.1 (List.mem_map.mpr ⟨e, he, rfl⟩)]
  have hr := h.rebalance
  have hrest : (restore fixed (build st) now).gen = st.gen ∧ (restore fixed (build st) now).phase = st.phase ∧
      (restore fixed (build st) now).protoName = st.protoName ∧ (restore fixed (build st) now).protoType = st.protoType ∧
      (restore fixed (build st) now).rebTimeout = st.rebTimeout := by
    unfold restore
    simp [build, hr]
  unfold view
  rw [hmem, hlead, hrest.1, hrest.2.1, hrest.2.2.1, hrest.2.2.2.1, hrest.2.2.2.2]
  simp only [List.map_map, Function.comp_def, hasg]

/-! ### every reachable group state is well formed, every persisted group is the image of one -/

def headKey (ms : List (Nat × Member)) : Nat := match ms with | [] => 0 | e :: _ => e.1

theorem ensureLeader_leader_eq (s : Group) :
    s.ensureLeader.leader = if s.leader ≠ 0 ∧ (lookup s.members s.leader).isSome = true then s.leader else headKey s.members := by
  unfold ensureLeader headKey
  by_cases hc : s.leader ≠ 0 ∧ (lookup s.members s.leader).isSome = true
  · rw [if_pos hc, if_pos hc]
  · rw [if_neg hc, if_neg hc]
    cases hm : s.members <;> rfl

theorem ensureLeader_idem (s : Group) : s.ensureLeader.ensureLeader.leader = s.ensureLeader.leader := by
  rw [ensureLeader_leader_eq s.ensureLeader, ensureLeader_members]
  by_cases hc : s.leader ≠ 0 ∧ (lookup s.members s.leader).isSome = true
  · have : s.ensureLeader.leader = s.leader := by rw [ensureLeader_leader_eq, if_pos hc]
    rw [this, if_pos hc]
  · have : s.ensureLeader.leader = headKey s.members := by rw [ensureLeader_leader_eq, if_neg hc]
    rw [this]
    split <;> rfl

/-- the leader test of `ensureLeader` only depends on the leader and the member ids -/
theorem ensureLeader_leader_congr (a b : Group) (hl : a.leader = b.leader) (hk : keys a.members = keys b.members) :
    a.ensureLeader.leader = b.ensureLeader.leader := by
  have hlook : ∀ k, (lookup a.members k).isSome = (lookup b.members k).isSome := by
    intro k
    have : ∀ (l : List (Nat × Member)), (lookup l k).isSome = (keys l).contains k := by
      intro l
      induction l with
      | nil => rfl
      | cons e t ih =>
        obtain ⟨k0, v0⟩ := e
        simp only [lookup, keys, List.map_cons, List.contains_cons]
        by_cases h : k0 = k
        · subst h; simp
        · have h' : (k == k0) = false := by simp; exact fun hh => h hh.symm
          simp only [h, if_false, h', Bool.false_or]
          exact ih
    rw [this, this, hk]
  rw [ensureLeader_leader_eq, ensureLeader_leader_eq, hl, hlook b.leader]
  have hh : headKey a.members = headKey b.members := by
    unfold headKey
    cases ha : a.members with
    | nil =>
      cases hb : b.members with
      | nil => rfl
      | cons e t => rw [ha, hb] at hk; simp [keys] at hk
    | cons e t =>
      cases hb : b.members with
      | nil => rw [ha, hb] at hk; simp [keys] at hk
      | cons e' t' =>
        rw [ha, hb] at hk
        simp only [keys, List.map_cons, List.cons.injEq] at hk
        exact hk.1
  rw [hh]

theorem leader_valid_of_fix (s : Group) (h : s.ensureLeader.leader = s.leader) (hne : s.leader ≠ 0) :
    (lookup s.members s.leader).isSome = true := by
  have := ensureLeader_valid s (by rw [h]; exact hne)
  rw [h, ensureLeader_members] at this
  exact this

theorem fix_of_valid (s : Group) (hne : s.leader ≠ 0) (hv : (lookup s.members s.leader).isSome = true) :
    s.ensureLeader.leader = s.leader := by
  rw [ensureLeader_leader_eq, if_pos ⟨hne, hv⟩]

theorem headKey_insert_zero (l : List (Nat × Member)) (k : Nat) (v : Member) (hne : l ≠ []) (h : headKey l = 0) :
    headKey (insert l k v) = 0 := by
  cases l with
  | nil => exact absurd rfl hne
  | cons e t =>
    obtain ⟨k0, v0⟩ := e
    simp only [headKey] at h
    subst h
    unfold insert
    split
    · rename_i hlt; omega
    · split
      · rename_i h2; subst h2; rfl
      · rfl

/-- inserting a binding keeps a valid non-empty leader valid, and keeps "no leader, smallest id 0" -/
theorem fix_insert (s : Group) (k : Nat) (v : Member) (hne : s.members ≠ []) (h : s.ensureLeader.leader = s.leader) :
    ({ s with members := insert s.members k v } : Group).ensureLeader.leader = s.leader := by
  by_cases hl : s.leader = 0
  · rw [ensureLeader_leader_eq]
    have hc : ¬ (({ s with members := insert s.members k v } : Group).leader ≠ 0 ∧
        (lookup ({ s with members := insert s.members k v } : Group).members ({ s with members := insert s.members k v } : Group).leader).isSome = true) := by
      intro hh; exact hh.1 hl
    rw [if_neg hc]
    have h0 : headKey s.members = 0 := by
      rw [ensureLeader_leader_eq, if_neg (by intro hh; exact hh.1 hl), hl] at h; exact h
    rw [hl]; exact headKey_insert_zero _ _ _ hne h0
  · have hv := leader_valid_of_fix s h hl
    have := fix_of_valid ({ s with members := insert s.members k v } : Group) hl (by
      simp only [lookup_insert]
      split
      · rfl
      · exact hv)
    exact this

structure WFN (st : Group) : Prop where
  wf : WF st
  nonempty : st.members ≠ []

def wfSpec : Spec := { G := fun _ _ st => WFN st, P := fun _ _ p => ∃ st, p = build st ∧ WFN st }

theorem startRebalance_WFN (st : Group) (t now : Nat) (hs : ∀ e ∈ st.members, 0 < e.2.session) (hr : 0 < st.rebTimeout ∨ 0 < t)
    (hne : st.members ≠ []) : WFN (st.startRebalance t now) := by
  have hsr := startRebalance_of_nonempty st t now hne
  refine ⟨⟨?_, ?_, ?_⟩, ?_⟩
  · intro e he
    rw [hsr.2.2.2] at he
    unfold resetJoins at he
    obtain ⟨e0, he0, rfl⟩ := List.mem_map.mp he
    exact hs e0 he0
  · obtain ⟨x, _, hrt, heq⟩ := startRebalance_eq st t now hne
    rw [heq]
    simp only [ensureLeader_rebTimeout, hrt]
    split
    · assumption
    · split
      · simp [defaultRebalance]
      · rcases hr with hr | hr
        · exact hr
        · rename_i h1 _; exact absurd hr h1
  · -- the result is `ensureLeader` of something, with member ids unchanged by resetJoins
    obtain ⟨x, _, _, heq⟩ := startRebalance_eq st t now hne
    rw [heq]
    have h1 := ensureLeader_idem x
    have h2 := ensureLeader_leader_congr ({ x.ensureLeader with members := resetJoins x.ensureLeader.members } : Group)
      x.ensureLeader rfl (by unfold resetJoins; exact keys_map_val _ _)
    rw [h2, h1]
  · rw [hsr.2.2.2]; unfold resetJoins; intro hh; exact hne (List.map_eq_nil_iff.mp hh)

theorem wfSpec_closed : wfSpec.Closed where
  monoG := by intro g log x st h; exact h
  monoP := by intro g log x p h; exact h
  build := by intro g log st h; exact ⟨st, rfl, h⟩
  restore := by
    intro g log p now h
    obtain ⟨st, rfl, hw⟩ := h
    have hmem : (restore fixed (build st) now).members =
        st.members.map fun e => (e.1, { e.2 with joinGen := if st.phase = .preparing then 0 else st.gen }) := by
      unfold restore
      simp only [ensureLeader_members, build, List.map_map, Function.comp_def]
      apply List.map_congr_left
      intro e he
      have := hw.wf.session e he
      simp [this, fixed]
    refine ⟨⟨?_, ?_, ?_⟩, ?_⟩
    · intro e he
      rw [hmem] at he
      obtain ⟨e0, he0, rfl⟩ := List.mem_map.mp he
      exact hw.wf.session e0 he0
    · unfold restore; simp [build, hw.wf.rebalance]
    · unfold restore; exact ensureLeader_idem _
    · rw [hmem]; intro hh; exact hw.nonempty (List.map_eq_nil_iff.mp hh)
  join := by
    intro g log st0 mid se rb pt pr nk now h0
    unfold joinCore
    simp only
    obtain ⟨m', hmem, _, _, hld, _, hrt, _, _, hsess, _⟩ := joinMember_spec st0 mid se pt pr nk now
    generalize joinMember st0 mid se pt pr nk now = jm at hmem hld hrt
    obtain ⟨stA, memberID, ex, prev⟩ := jm
    simp only at hmem hld hrt ⊢
    have hneA : stA.members ≠ [] := by rw [hmem]; exact insert_ne_nil _ _ _
    have hsA : ∀ e ∈ stA.members, 0 < e.2.session := by
      intro e he
      rw [hmem] at he
      rcases mem_insert he with rfl | he
      · exact hsess
      · rcases h0 with h0 | h0
        · exact h0.wf.session e he
        · subst h0; simp [newGroup] at he
    have hrA : 0 < stA.rebTimeout := by
      rw [hrt]
      rcases h0 with h0 | h0
      · exact h0.wf.rebalance
      · subst h0; simp [newGroup, defaultRebalance]
    have htimeout : 0 < timeoutOf rb := by
      unfold timeoutOf; split
      · simp [defaultRebalance]
      · omega
    -- after the phase decision: sessions and rebalance timeout positive, members non-empty
    have hfixA : stA.leader ≠ 0 → stA.ensureLeader.leader = stA.leader := by
      intro hl
      rcases h0 with h0 | h0
      · have hl0 : st0.leader ≠ 0 := by rw [← hld]; exact hl
        have hv := leader_valid_of_fix st0 h0.wf.leader hl0
        apply fix_of_valid _ hl
        rw [hmem, hld, lookup_insert]
        split
        · rfl
        · exact hv
      · subst h0; rw [hld] at hl; exact absurd rfl hl
    have h1 : (∀ e ∈ (joinPhase fixed stA memberID ex prev (topicsOfProto pr) (timeoutOf rb) now).members, 0 < e.2.session) ∧
        0 < (joinPhase fixed stA memberID ex prev (topicsOfProto pr) (timeoutOf rb) now).rebTimeout ∧
        (joinPhase fixed stA memberID ex prev (topicsOfProto pr) (timeoutOf rb) now).members ≠ [] ∧
        ((joinPhase fixed stA memberID ex prev (topicsOfProto pr) (timeoutOf rb) now).leader ≠ 0 →
          (joinPhase fixed stA memberID ex prev (topicsOfProto pr) (timeoutOf rb) now).ensureLeader.leader =
            (joinPhase fixed stA memberID ex prev (topicsOfProto pr) (timeoutOf rb) now).leader) := by
      rcases joinPhase_cases fixed stA memberID ex prev (topicsOfProto pr) (timeoutOf rb) now with
        ⟨st', he, hm', _, _, _⟩ | ⟨he, _⟩ | ⟨he, _⟩
      · rw [he]
        have := startRebalance_WFN st' (timeoutOf rb) now (by rw [hm']; exact hsA) (Or.inr htimeout) (by rw [hm']; exact hneA)
        exact ⟨this.wf.session, this.wf.rebalance, this.nonempty, fun _ => this.wf.leader⟩
      · rw [he]
        refine ⟨hsA, ?_, hneA, ?_⟩
        rotate_left
        · intro hl
          have := hfixA hl
          exact (ensureLeader_leader_congr (stA.bump (timeoutOf rb) now) stA rfl rfl).trans this
        unfold bump; simp only
        rw [if_pos htimeout]
        split
        · simp [defaultRebalance]
        · exact htimeout
      · rw [he]; exact ⟨hsA, hrA, hneA, hfixA⟩
    generalize joinPhase fixed stA memberID ex prev (topicsOfProto pr) (timeoutOf rb) now = st1 at h1 ⊢
    have hmk := joinMark_spec st1 memberID
    have hfin := joinFinish_spec st1 memberID
    refine ⟨⟨?_, by rw [hfin.2.2.2.2.1]; exact h1.2.1, ?_⟩, ?_⟩
    · intro e he
      rw [hfin.1, hmk.1] at he
      obtain ⟨e0, he0, _, _, hse, _⟩ := mem_setJoinGen he
      rw [hse]; exact h1.1 e0 he0
    · -- joinFinish keeps members / leader of joinMark; joinMark elects when there is no leader
      have hcong := ensureLeader_leader_congr (joinFinish st1 memberID).1 (joinMark st1 memberID) hfin.2.2.1 (by rw [hfin.1])
      rw [hcong, hfin.2.2.1]
      unfold joinMark
      simp only
      split
      · exact ensureLeader_idem _
      · rename_i hl
        have := h1.2.2.2 hl
        exact (ensureLeader_leader_congr ({ st1 with members := setJoinGen st1.members memberID st1.gen } : Group) st1 rfl
          (keys_setJoinGen _ _ _)).trans this
    · rw [hfin.1, hmk.1]; exact setJoinGen_ne_nil h1.2.2.1 _ _
  assign := by
    intro g log st s h hph _
    have hsp := leaderAssign_spec s st hph
    refine ⟨⟨by rw [hsp.2.1]; exact h.wf.session, ?_, ?_⟩, by rw [hsp.2.1]; exact h.nonempty⟩
    · unfold leaderAssign; simp only
      rw [markStable_of_not_dead _ (by simp [hph])]; exact h.wf.rebalance
    · rw [hsp.2.2.2.1, ← h.wf.leader]
      exact ensureLeader_leader_congr _ _ hsp.2.2.2.1 (by rw [hsp.2.1])
  heartbeat := by
    intro g log st mid m now h hm
    refine ⟨⟨?_, h.wf.rebalance, ?_⟩, insert_ne_nil _ _ _⟩
    · intro e he
      rcases mem_insert he with rfl | he
      · exact h.wf.session (mid, m) (lookup_some_mem hm)
      · exact h.wf.session e he
    · exact fix_insert st mid { m with lastHb := now } h.nonempty h.wf.leader
  leave := by
    intro g log st mid now h hne
    unfold leaveCore
    simp only
    have hne' : erase st.members mid ≠ [] := by intro hh; rw [hh] at hne; simp at hne
    have hs : ∀ e ∈ erase st.members mid, 0 < e.2.session := fun e he => h.wf.session e (List.mem_filter.mp he).1
    split
    · exact startRebalance_WFN _ 0 now hs (Or.inl h.wf.rebalance) hne'
    · exact startRebalance_WFN _ 0 now hs (Or.inl h.wf.rebalance) hne'
  cleanup := by
    intro g log st now st' h ho
    cases hc : cleanupOutcome st now with
    | gone => rw [hc] at ho; simp [CleanupOutcome.group?] at ho
    | kept st2 =>
      rw [hc] at ho; simp only [CleanupOutcome.group?, Option.some.injEq] at ho
      subst ho
      rw [cleanupOutcome_kept hc]; exact h
    | rebalanced st2 =>
      rw [hc] at ho; simp only [CleanupOutcome.group?, Option.some.injEq] at ho
      subst ho
      obtain ⟨st3, hne, rfl, ⟨_, hrt⟩, hm⟩ := cleanupOutcome_rebalanced hc
      refine startRebalance_WFN st3 0 now ?_ (Or.inl (by rw [hrt]; exact h.wf.rebalance)) hne
      intro e he
      rw [hm] at he
      exact h.wf.session e (List.mem_filter.mp he).1

/-! ### without store faults the persisted image is always current -/

/-- writing the restored group back gives the stored image again -/
theorem build_restore_build (st : Group) (now : Nat) (h : WF st) : build (restore fixed (build st) now) = build st := by
  have hv := KafVerif.C15.restore_build_view st now h
  rw [cloneGroup_fixed, cloneGroup_fixed] at hv
  -- `build` is a function of the view
  have hb : ∀ x : Group, build x =
      { state := (view x).phase, protoType := (view x).protoType, protoName := (view x).protoName, leader := (view x).leader,
        gen := (view x).gen, rebTimeoutMs := (view x).rebTimeout,
        members := (List.zip (view x).members (view x).asg).map fun e =>
          (e.1.1, { subs := e.1.2.1, sessionMs := e.1.2.2.1, hbAt := e.1.2.2.2, asg := e.2.2 }) } := by
    intro x
    unfold build view
    simp only [PGroup.mk.injEq, true_and]
    rw [List.zip_map', List.map_map]
    rfl
  rw [hb (restore fixed (build st) now), hv]
  exact (hb st).symm

/-- no pending fault on the calls that write or read the persisted groups -/
def NF (s : State) : Prop := s.faults.put = false ∧ s.faults.del = false ∧ s.faults.fetchGroup = false

/-- every loaded group has its current image in the store -/
def Synced (s : State) : Prop := ∀ g st, lookup s.groups g = some st → lookup s.persisted g = some (build st)

structure SN (s : State) : Prop where
  nf : NF s
  synced : Synced s
  sorted : SortedKeys s.groups
  inv : Inv wfSpec s

theorem SN.set_persist {s1 : State} (h : SN s1) (g : Nat) (st' : Group) (hw : WFN st') :
    SN (persist fixed (setGroup s1 g st') g (some st')).1 := by
  have hemp : st'.members.isEmpty = false := by cases hm : st'.members <;> simp_all [hw.nonempty]
  have hput : (setGroup s1 g st').faults.put = false := h.nf.1
  have hp : (persist fixed (setGroup s1 g st') g (some st')).1 =
      { setGroup s1 g st' with persisted := insert s1.persisted g (build st') } := by
    unfold persist
    simp only [hemp, Bool.false_eq_true, if_false, hput, cloneGroup_fixed]
    rfl
  rw [hp]
  refine ⟨h.nf, ?_, sorted_insert h.sorted _ _, ?_⟩
  · intro g' stx hl
    simp only [setGroup, lookup_insert] at hl ⊢
    by_cases hk : g = g'
    · simp only [hk, if_true, Option.some.injEq] at hl ⊢; rw [hl]
    · simp only [hk, if_false] at hl ⊢; exact h.synced g' stx hl
  · have h1 : Inv wfSpec (setGroup s1 g st') := Inv.setGroup h.inv hw
    have h2 := Inv.persist wfSpec_closed h1 g (some st') (fun st'' hst'' => by cases hst''; exact hw)
    rw [hp] at h2; exact h2

theorem SN.erase_persist {s1 : State} (h : SN s1) (g : Nat) :
    SN (persist fixed { s1 with groups := erase s1.groups g } g none).1 := by
  have hdel : ({ s1 with groups := erase s1.groups g } : State).faults.del = false := h.nf.2.1
  have hp : (persist fixed { s1 with groups := erase s1.groups g } g none).1 =
      { s1 with groups := erase s1.groups g, persisted := erase s1.persisted g } := by
    unfold persist
    simp only [h.nf.2.1, Bool.false_eq_true, if_false]
  rw [hp]
  refine ⟨h.nf, ?_, sorted_erase h.sorted _, ?_⟩
  · intro g' stx hl
    simp only [lookup_erase] at hl ⊢
    by_cases hk : g = g'
    · simp [hk] at hl
    · simp only [hk, if_false] at hl ⊢; exact h.synced g' stx hl
  · have h2 := Inv.persist wfSpec_closed (h.inv.eraseGroup g) g none (fun st'' hst'' => by cases hst'')
    rw [hp] at h2; exact h2

theorem SN.load {s s1 : State} (h : SN s) {g : Nat} {o : Option Group} (hl : loadGroup fixed s g = some (s1, o)) :
    SN s1 ∧ (∀ st, o = some st → WFN st) := by
  have hinv := Inv.load wfSpec_closed h.inv hl
  rcases loadGroup_cases fixed s g with ⟨st, hs, h'⟩ | ⟨_, _, h'⟩ | ⟨_, _, _, h'⟩ | ⟨p, hn, _, hp, h'⟩ <;> rw [h'] at hl
  · cases hl; exact ⟨h, hinv.2⟩
  · cases hl
  · cases hl; exact ⟨h, hinv.2⟩
  · cases hl
    refine ⟨⟨h.nf, ?_, sorted_insert h.sorted _ _, hinv.1⟩, hinv.2⟩
    intro g' stx hlk
    simp only [lookup_insert] at hlk
    by_cases hk : g = g'
    · subst hk
      simp only [if_true, Option.some.injEq] at hlk
      subst hlk
      obtain ⟨st0, rfl, hw0⟩ := h.inv.2 (g, p) (lookup_some_mem hp)
      show lookup s.persisted g = _
      rw [hp, cloneGroup_fixed, build_restore_build st0 s.clock hw0.wf]
    · simp only [hk, if_false] at hlk
      exact h.synced g' stx hlk

theorem SN.of_eq {s s' : State} (h : SN s) (hf : s'.faults.put = s.faults.put ∧ s'.faults.del = s.faults.del ∧ s'.faults.fetchGroup = s.faults.fetchGroup)
    (hg : s'.groups = s.groups) (hp : s'.persisted = s.persisted) (hl : s'.joinLog = s.joinLog) : SN s' := by
  refine ⟨?_, ?_, by rw [hg]; exact h.sorted, h.inv.of_eq hg hp hl⟩
  · unfold NF; rw [hf.1, hf.2.1, hf.2.2]; exact h.nf
  · intro g st hlk; rw [hg] at hlk; rw [hp]; exact h.synced g st hlk

theorem sn_cleanupGroup {s : State} (h : SN s) (g : Nat) (st : Group) (hl : lookup s.groups g = some st) :
    SN (cleanupGroup fixed s g st) := by
  have hw : WFN st := h.inv.1 (g, st) (lookup_some_mem hl)
  unfold cleanupGroup
  split
  · exact h.erase_persist g
  · rename_i st' ho
    exact h.set_persist g st' (wfSpec_closed.cleanup g s.joinLog st s.clock st' hw (by rw [ho]; rfl))
  · rename_i st' ho
    have : st' = st := cleanupOutcome_kept ho
    subst this
    -- the same group is stored again: nothing changes for the lookups
    refine ⟨h.nf, ?_, sorted_insert h.sorted _ _, Inv.setGroup h.inv hw⟩
    intro g' stx hlk
    simp only [setGroup, lookup_insert] at hlk
    by_cases hk : g = g'
    · subst hk; simp only [if_true, Option.some.injEq] at hlk; subst hlk; exact h.synced g st' hl
    · simp only [hk, if_false] at hlk; exact h.synced g' stx hlk

/-- a fault-free step keeps "no pending fault, every loaded group persisted as it is" -/
theorem sn_step {s : State} (h : SN s) (op : Op) (hop : ∀ k, op ≠ .fail k) : SN (step s op).1 := by
  cases op with
  | join g mid se rb pt pr nk =>
    simp only [step, stepV]
    unfold join
    cases he : ensureGroup fixed s g with
    | none => exact h.of_eq ⟨rfl, rfl, by simp [clearFetchGroup, h.nf.2.2]⟩ rfl rfl rfl
    | some x =>
      obtain ⟨s1, st0⟩ := x
      simp only
      have h1 : SN s1 ∧ (WFN st0 ∨ st0 = newGroup) := by
        unfold ensureGroup at he
        split at he
        · cases he
        · rename_i s2 st2 hl; cases he
          obtain ⟨hs, hw⟩ := h.load hl
          exact ⟨hs, Or.inl (hw _ rfl)⟩
        · rename_i s2 hl; cases he
          exact ⟨(h.load hl).1, Or.inr rfl⟩
      have hw := wfSpec_closed.join g s1.joinLog st0 mid se rb pt pr nk s1.clock h1.2
      have h2 := h1.1.set_persist g _ hw
      exact h2.of_eq ⟨rfl, rfl, rfl⟩ rfl rfl rfl |>.of_eq ⟨rfl, rfl, rfl⟩ rfl rfl rfl |> fun h3 =>
        ⟨h3.nf, h3.synced, h3.sorted, Inv.log wfSpec_closed h3.inv _ _⟩
  | sync g mid gen =>
    simp only [step, stepV]
    unfold sync
    split
    · exact h.of_eq ⟨rfl, rfl, by simp [clearFetchGroup, h.nf.2.2]⟩ rfl rfl rfl
    · rename_i s1 hl; exact (h.load hl).1
    · rename_i s1 st hl
      obtain ⟨h1, hw⟩ := h.load hl
      have hw := hw st rfl
      have hlk : lookup s1.groups g = some st := loadGroup_lookup hl
      split
      · exact h1
      · split
        · exact h1
        · split
          · exact h1
          · split
            · rename_i hcomp
              split
              · exact h1
              · have hw' := wfSpec_closed.assign g s1.joinLog st s1 hw hcomp.1 hcomp.2
                have hst := (leaderAssign_spec s1 st hcomp.1).1
                have h1' : SN (leaderAssign s1 st).1 := h1.of_eq ⟨rfl, rfl, rfl⟩ rfl rfl rfl
                unfold syncFinish
                split
                · rename_i hc; exact absurd hst hc.2
                · exact h1'.set_persist g _ hw'
            · unfold syncFinish
              split
              · -- REBALANCE_IN_PROGRESS: the unchanged group is stored again
                refine ⟨h1.nf, ?_, sorted_insert h1.sorted _ _, Inv.setGroup h1.inv hw⟩
                intro g' stx hlk'
                simp only [setGroup, lookup_insert] at hlk'
                by_cases hk : g = g'
                · subst hk; simp only [if_true, Option.some.injEq] at hlk'; subst hlk'; exact h1.synced g st hlk
                · simp only [hk, if_false] at hlk'; exact h1.synced g' stx hlk'
              · exact h1.set_persist g st hw
  | heartbeat g mid gen =>
    simp only [step, stepV]
    unfold heartbeat
    split
    · exact h.of_eq ⟨rfl, rfl, by simp [clearFetchGroup, h.nf.2.2]⟩ rfl rfl rfl
    · rename_i s1 hl; exact (h.load hl).1
    · rename_i s1 st hl
      obtain ⟨h1, hw⟩ := h.load hl
      split
      · exact h1
      · rename_i m hm
        split
        · exact h1
        · split
          · exact h1
          · exact h1.set_persist g _ (wfSpec_closed.heartbeat g s1.joinLog st mid m s1.clock (hw st rfl) hm)
  | leave g mid =>
    simp only [step, stepV]
    unfold leave
    split
    · exact h.of_eq ⟨rfl, rfl, by simp [clearFetchGroup, h.nf.2.2]⟩ rfl rfl rfl
    · rename_i s1 hl; exact (h.load hl).1
    · rename_i s1 st hl
      obtain ⟨h1, hw⟩ := h.load hl
      split
      · exact h1
      · split
        · exact h1.erase_persist g
        · rename_i hne
          have hne' : (erase st.members mid).isEmpty = false := by simpa using hne
          exact h1.set_persist g _ (wfSpec_closed.leave g s1.joinLog st mid s1.clock (hw st rfl) hne')
  | commit g mid gen parts =>
    simp only [step, stepV]
    unfold commit
    have hw : ∀ (parts : List (Nat × Int × Int × Nat)) (s2 : State), SN s2 → SN (commitWrites s2 g parts).1 := by
      intro parts
      induction parts with
      | nil => intro s2 hi; exact hi
      | cons e t ih =>
        intro s2 hi
        obtain ⟨tp, p, off, md⟩ := e
        unfold commitWrites
        split
        · exact ih _ (hi.of_eq ⟨rfl, rfl, rfl⟩ rfl rfl rfl)
        · exact ih _ (hi.of_eq ⟨rfl, rfl, rfl⟩ rfl rfl rfl)
    split
    · exact h.of_eq ⟨rfl, rfl, by simp [clearFetchGroup, h.nf.2.2]⟩ rfl rfl rfl
    · rename_i s1 st hl
      split
      · exact hw _ _ (h.load hl).1
      · exact (h.load hl).1
  | fetch g parts =>
    simp only [step, stepV, fetch]
    have hw : ∀ (parts : List (Nat × Int)) (s2 : State), SN s2 → SN (fetchRows fixed s2 g parts).1 := by
      intro parts
      induction parts with
      | nil => intro s2 hi; exact hi
      | cons e t ih =>
        intro s2 hi
        obtain ⟨tp, p⟩ := e
        unfold fetchRows
        split
        · exact ih _ (hi.of_eq ⟨rfl, rfl, rfl⟩ rfl rfl rfl)
        · exact ih _ hi
    exact hw parts s h
  | tick d => exact h.of_eq ⟨rfl, rfl, rfl⟩ rfl rfl rfl
  | cleanup =>
    simp only [step, stepV]
    unfold cleanup
    have key : ∀ (l : List (Nat × Group)) (acc : State), SN acc → SortedKeys l →
        (∀ e ∈ l, lookup acc.groups e.1 = some e.2) → SN (l.foldl (fun acc e => cleanupGroup fixed acc e.1 e.2) acc) := by
      intro l
      induction l with
      | nil => intro acc hi _ _; exact hi
      | cons e t ih =>
        intro acc hi hsl hacc
        simp only [List.foldl_cons]
        have hst : SortedKeys t := by
          unfold SortedKeys keys at hsl ⊢; simp only [List.map_cons, List.pairwise_cons] at hsl; exact hsl.2
        have hlt : ∀ e' ∈ t, e.1 < e'.1 := by
          intro e' he'
          unfold SortedKeys keys at hsl; simp only [List.map_cons, List.pairwise_cons] at hsl
          exact hsl.1 _ (List.mem_map.mpr ⟨e', he', rfl⟩)
        refine ih _ (sn_cleanupGroup hi e.1 e.2 (hacc e (by simp))) hst ?_
        intro e' he'
        rw [cleanupGroup_other acc e.1 e'.1 e.2 (by have := hlt e' he'; omega)]
        exact hacc e' (List.mem_cons_of_mem _ he')
    exact key s.groups s h h.sorted (fun e he => lookup_of_mem_sorted h.sorted he)
  | failover =>
    exact ⟨h.nf, by intro g st hl; simp [step, stepV, lookup] at hl, sorted_nil,
      ⟨by intro e he; simp [step, stepV] at he, h.inv.2⟩⟩
  | load g =>
    simp only [step, stepV]
    split
    · exact h.of_eq ⟨rfl, rfl, by simp [clearFetchGroup, h.nf.2.2]⟩ rfl rfl rfl
    · rename_i s1 o hl; exact (h.load hl).1
  | fail k => exact absurd rfl (hop k)
  | setMeta tm => exact h.of_eq ⟨rfl, rfl, rfl⟩ rfl rfl rfl

theorem sn_init : SN init :=
  ⟨⟨rfl, rfl, rfl⟩, by intro g st hl; simp [init, lookup] at hl, sorted_nil, inv_init⟩

/-- histories without injected store faults -/
def FaultFree (ops : List Op) : Prop := ∀ op ∈ ops, ∀ k, op ≠ .fail k

theorem sn_run (ops : List Op) (hff : FaultFree ops) : SN (run init ops) := by
  have : ∀ (s : State), SN s → SN (run s ops) := by
    induction ops with
    | nil => intro s h; exact h
    | cons op ops ih =>
      intro s h
      exact ih (fun op' hop' => hff op' (List.mem_cons_of_mem _ hop')) _ (sn_step h op (hff op (by simp)))
  exact this init sn_init

/-- **C15 (failover at any point).** For every history without injected store faults and every group
loaded in the coordinator after it: when the coordinator is replaced (the group table is dropped) and
the new coordinator loads the group from the store, it holds a group with the SAME generation, phase,
leader, protocol, rebalance timeout, member set, subscriptions, session timeouts, last heartbeats and
assignments as the old coordinator had. -/
theorem _root_.KafVerif.C15.failover_preserves_view (ops : List Op) (hff : FaultFree ops) (g : Nat) (st : Group)
    (h : lookup (run init ops).groups g = some st) :
    ∃ st', lookup (run init (ops ++ [.failover, .load g])).groups g = some st' ∧ view st' = view st := by
  have hsn := sn_run ops hff
  have hp := hsn.synced g st h
  have hw : WFN st := hsn.inv.1 (g, st) (lookup_some_mem h)
  have hrun : run init (ops ++ [.failover, .load g]) = (step (step (run init ops) .failover).1 (.load g)).1 := by
    unfold run; rw [List.foldl_append]; rfl
  rw [hrun]
  simp only [step, stepV]
  have hl : loadGroup fixed { run init ops with groups := [] } g =
      some ({ run init ops with groups := insert [] g (restore fixed (cloneGroup fixed (build st)) (run init ops).clock) },
            some (restore fixed (cloneGroup fixed (build st)) (run init ops).clock)) := by
    unfold loadGroup
    simp only [lookup, hsn.nf.2.2, Bool.false_eq_true, if_false, hp]
  simp only [hl]
  refine ⟨restore fixed (cloneGroup fixed (build st)) (run init ops).clock, by simp [lookup_insert], ?_⟩
  have := KafVerif.C15.restore_build_view st (run init ops).clock hw.wf
  rw [cloneGroup_fixed] at this
  exact this

/-- the state after `failover; load g`: the group table holds exactly the restored image -/
theorem failover_load_lookup (ops : List Op) (hff : FaultFree ops) (g : Nat) (st : Group)
    (h : lookup (run init ops).groups g = some st) :
    lookup (run init (ops ++ [.failover, .load g])).groups g = some (restore fixed (build st) (run init ops).clock) := by
  have hsn := sn_run ops hff
  have hp := hsn.synced g st h
  have hrun : run init (ops ++ [.failover, .load g]) = (step (step (run init ops) .failover).1 (.load g)).1 := by
    unfold run; rw [List.foldl_append]; rfl
  rw [hrun]
  simp only [step, stepV]
  have hl : loadGroup fixed { run init ops with groups := [] } g =
      some ({ run init ops with groups := insert [] g (restore fixed (cloneGroup fixed (build st)) (run init ops).clock) },
            some (restore fixed (cloneGroup fixed (build st)) (run init ops).clock)) := by
    unfold loadGroup
    simp only [lookup, hsn.nf.2.2, Bool.false_eq_true, if_false, hp]
  simp only [hl]
  simp [lookup_insert, cloneGroup_fixed]

/-- **C15 (members keep working).** After a failover at any point of a fault-free history, a member of
the current generation of a Stable group does not have to rejoin: its heartbeat is answered NONE and
its sync is answered NONE with the same assignment the old coordinator held for it. -/
theorem _root_.KafVerif.C15.members_keep_working (ops : List Op) (hff : FaultFree ops) (g mid : Nat) (st : Group) (m : Member)
    (h : lookup (run init ops).groups g = some st) (hph : st.phase = .stable) (hm : lookup st.members mid = some m) :
    (heartbeat fixed (run init (ops ++ [.failover, .load g])) g mid st.gen).2 = .code NONE ∧
    (sync fixed (run init (ops ++ [.failover, .load g])) g mid st.gen).2 = .sync NONE (asgOf st mid) := by
  have hff' : FaultFree (ops ++ [.failover, .load g]) := by
    intro op hop k
    rcases List.mem_append.mp hop with hop | hop
    · exact hff op hop k
    · simp at hop; rcases hop with rfl | rfl <;> simp
  have hsn' := sn_run _ hff'
  have hw : WFN st := (sn_run ops hff).inv.1 (g, st) (lookup_some_mem h)
  have hlk := failover_load_lookup ops hff g st h
  generalize run init (ops ++ [.failover, .load g]) = s2 at hsn' hlk
  generalize hr : restore fixed (build st) (run init ops).clock = r at hlk
  have hv : view r = view st := by
    have := KafVerif.C15.restore_build_view st (run init ops).clock hw.wf
    rw [cloneGroup_fixed, cloneGroup_fixed, hr] at this; exact this
  have hgen : r.gen = st.gen := congrArg View.gen hv
  have hphr : r.phase = .stable := by rw [← hph]; exact congrArg View.phase hv
  have hmr : ∃ m', lookup r.members mid = some m' := by
    have hmem : r.members = st.members.map fun e => (e.1, { e.2 with joinGen := if st.phase = .preparing then 0 else st.gen }) := by
      rw [← hr]
      unfold restore
      simp only [ensureLeader_members, build, List.map_map, Function.comp_def]
      apply List.map_congr_left
      intro e he
      have := hw.wf.session e he
      simp [this, fixed]
    rw [hmem, lookup_map_val, hm]; exact ⟨_, rfl⟩
  obtain ⟨m', hm'⟩ := hmr
  have hasg : asgOf r mid = asgOf st mid := by
    rw [← hr]; exact asgOf_restore_build st _ mid (List.mem_map.mpr ⟨(mid, m), lookup_some_mem hm, rfl⟩)
  constructor
  · have hl : loadGroup fixed s2 g = some (s2, some r) := by unfold loadGroup; rw [hlk]
    have hemp : (insert r.members mid { m' with lastHb := s2.clock }).isEmpty = false := by
      cases hq : insert r.members mid { m' with lastHb := s2.clock } with
      | nil => exact absurd hq (insert_ne_nil _ _ _)
      | cons a t => rfl
    unfold heartbeat
    rw [hl]
    simp only [hm', hgen, ne_eq, not_true_eq_false, if_false]
    have hv43 : ¬ (fixed.c43Old = true ∧ ¬ r.phase = Phase.stable) := by intro hh; exact absurd hh.1 (by decide)
    rw [if_neg hv43]
    unfold persist
    simp [hemp, setGroup, hsn'.nf.1, hphr]
  · have := KafVerif.C14.sync_succeeds_when_stable fixed s2 g mid r m' hlk hphr hm' hsn'.nf.1
    rw [hgen, hasg] at this; exact this

/-- **C15 (pre-fix defect, witness).** With the old `cloneConsumerGroup` a group joined with a 20 s
session and a 40 s rebalance timeout is restored with the 30 s defaults. -/
theorem _root_.KafVerif.C15.cloneOld_violates :
    let ops : List Op := [.join 1 0 20000 40000 1 (some (1, [2])) 5, .failover, .load 1]
    let old := ops.foldl (fun s op => (stepV { c15Old := true } s op).1) init
    let new := ops.foldl (fun s op => (stepV fixed s op).1) init
    (old.groups.map fun e => (e.2.rebTimeout, e.2.members.map fun m => m.2.session)) = [(30000, [30000])]
    ∧ (new.groups.map fun e => (e.2.rebTimeout, e.2.members.map fun m => m.2.session)) = [(40000, [20000])] := by
  decide

-- non-vacuity of WF
example : WF { newGroup with leader := 5, members := [(5, ⟨[0], 10000, 1000, 1⟩)] } :=
  ⟨by simp, by decide, by decide⟩

end KafVerif.Group
