import KafVerif.Lemmas.GroupFns
/-!
C15 — Group state survives coordinator failover.

Statement (properties.jsonl): if a group's coordinator is replaced by a new one that loads state
from the metadata store, the new coordinator reports the same generation, state, leader, members,
subscriptions and assignments; members of the current generation keep working against it without
rejoining.

Model: `build` (buildConsumerGroup), `cloneGroup` (InMemoryStore.cloneConsumerGroup, applied on Put
and on Fetch), `restore` (restoreGroupState) of `KafVerif.Group`.
-/
namespace KafVerif.Group
open Group

/-- what a coordinator reports about a group (everything except the volatile rebalance
bookkeeping: join markers and the deadline) -/
structure View where
  gen : Nat
  phase : Phase
  leader : Nat
  protoName : Nat
  protoType : Nat
  rebTimeout : Nat
  members : List (Nat × List Nat × Nat × Nat)     -- id, subscription, session timeout, last heartbeat
  asg : List (Nat × Asg)                          -- assignment of every member
deriving DecidableEq, Repr

def view (st : Group) : View :=
  { gen := st.gen, phase := st.phase, leader := st.leader, protoName := st.protoName, protoType := st.protoType,
    rebTimeout := st.rebTimeout,
    members := st.members.map fun e => (e.1, e.2.topics, e.2.session, e.2.lastHb),
    asg := st.members.map fun e => (e.1, asgOf st e.1) }

/-- what every group state written by the coordinator satisfies: positive timeouts (JoinGroup
defaults them) and a leader that is a member (`ensureLeader`) -/
structure WF (st : Group) : Prop where
  session : ∀ e ∈ st.members, 0 < e.2.session
  rebalance : 0 < st.rebTimeout
  leader : st.leader ≠ 0 ∧ (lookup st.members st.leader).isSome

theorem cloneGroup_fixed (p : PGroup) : cloneGroup fixed p = p := rfl

theorem lookup_filterMap_none {α : Type} (ms : List (Nat × α)) (f : Nat → Asg) (m : Nat) (he : (f m).isEmpty = true) :
    lookup (ms.filterMap fun e => if (f e.1).isEmpty then none else some (e.1, f e.1)) m = none := by
  induction ms with
  | nil => simp [lookup]
  | cons e t ih =>
    obtain ⟨k, v⟩ := e
    simp only [List.filterMap_cons]
    by_cases hk : (f k).isEmpty = true
    · simp only [hk, if_true]; exact ih
    · simp only [hk, Bool.false_eq_true, if_false, lookup]
      have : ¬ k = m := by intro h; subst h; exact hk he
      simp only [this, if_false]; exact ih

theorem lookup_filterMap_some {α : Type} (ms : List (Nat × α)) (f : Nat → Asg) (m : Nat) (hm : m ∈ keys ms)
    (he : ¬ (f m).isEmpty = true) :
    lookup (ms.filterMap fun e => if (f e.1).isEmpty then none else some (e.1, f e.1)) m = some (f m) := by
  induction ms with
  | nil => simp [keys] at hm
  | cons e t ih =>
    obtain ⟨k, v⟩ := e
    simp only [List.filterMap_cons]
    by_cases hkm : k = m
    · subst hkm
      simp [he, lookup]
    · have hm' : m ∈ keys t := by
        simp only [keys, List.map_cons, List.mem_cons] at hm
        rcases hm with h | h
        · exact absurd h.symm hkm
        · exact h
      by_cases hk : (f k).isEmpty = true
      · simp only [hk, if_true]; exact ih hm'
      · simp only [hk, Bool.false_eq_true, if_false, lookup, hkm]; exact ih hm'

/-- the assignment table of the restored group, looked up for a member -/
theorem asgOf_restore_build (st : Group) (now : Nat) (m : Nat) (hm : m ∈ keys st.members) :
    asgOf (restore fixed (build st) now) m = asgOf st m := by
  have hasg : (restore fixed (build st) now).asg =
      st.members.filterMap fun e => if (asgOf st e.1).isEmpty then none else some (e.1, asgOf st e.1) := by
    unfold restore
    simp only [ensureLeader_asg, build, List.filterMap_map, Function.comp_def]
  unfold asgOf at hasg ⊢
  rw [hasg]
  by_cases he : ((lookup st.asg m).getD []).isEmpty = true
  · rw [lookup_filterMap_none st.members (fun k => (lookup st.asg k).getD []) m he]
    have : (lookup st.asg m).getD [] = [] := by simpa using he
    simp [this]
  · rw [lookup_filterMap_some st.members (fun k => (lookup st.asg k).getD []) m hm he]
    rfl

/-- **C15 (round trip).** For every group state with positive timeouts and a valid leader (every
state the coordinator persists), and every load time: writing the group with
`buildConsumerGroup`, passing it through the in-memory store's `cloneConsumerGroup` (on Put and on
Fetch) and reading it back with `restoreGroupState` yields the same generation, phase, leader,
protocol, rebalance timeout, member set, subscriptions, session timeouts, last heartbeats and
assignments. -/
theorem _root_.KafVerif.C15.restore_build_view (st : Group) (now : Nat) (h : WF st) :
    view (restore fixed (cloneGroup fixed (cloneGroup fixed (build st))) now) = view st := by
  rw [cloneGroup_fixed, cloneGroup_fixed]
  have hmem : (restore fixed (build st) now).members =
      st.members.map fun e => (e.1, { e.2 with joinGen := if st.phase = .preparing then 0 else st.gen }) := by
    unfold restore
    simp only [ensureLeader_members, build, List.map_map, Function.comp_def]
    apply List.map_congr_left
    intro e he
    have := h.session e he
    simp [this, fixed]
  have hlead : (restore fixed (build st) now).leader = st.leader := by
    have hl := h.leader
    unfold restore ensureLeader
    simp only [build, List.map_map, Function.comp_def]
    rw [if_pos]
    refine ⟨hl.1, ?_⟩
    rw [lookup_map_val st.members _ st.leader]
    cases hq : lookup st.members st.leader with
    | none => rw [hq] at hl; simp at hl
    | some x => simp
  have hasg : (st.members.map fun e => (e.1, asgOf (restore fixed (build st) now) e.1)) =
      st.members.map fun e => (e.1, asgOf st e.1) := by
    apply List.map_congr_left
    intro e he
    rw [asgOf_restore_build st now e.1 (List.mem_map.mpr ⟨e, he, rfl⟩)]
  have hr := h.rebalance
  have hrest : (restore fixed (build st) now).gen = st.gen ∧ (restore fixed (build st) now).phase = st.phase ∧
      (restore fixed (build st) now).protoName = st.protoName ∧ (restore fixed (build st) now).protoType = st.protoType ∧
      (restore fixed (build st) now).rebTimeout = st.rebTimeout := by
    unfold restore
    simp [build, hr]
  unfold view
  rw [hmem, hlead, hrest.1, hrest.2.1, hrest.2.2.1, hrest.2.2.2.1, hrest.2.2.2.2]
  simp only [List.map_map, Function.comp_def, hasg]

/-- **C15 (pre-fix defect, witness).** With the old `cloneConsumerGroup` a group joined with a 20 s
session and a 40 s rebalance timeout is restored with the 30 s defaults. -/
theorem _root_.KafVerif.C15.cloneOld_violates :
    let ops : List Op := [.join 1 0 20000 40000 1 (some (1, [2])) 5, .failover, .load 1]
    let old := ops.foldl (fun s op => (stepV { c15Old := true } s op).1) init
    let new := ops.foldl (fun s op => (stepV fixed s op).1) init
    (old.groups.map fun e => (e.2.rebTimeout, e.2.members.map fun m => m.2.session)) = [(30000, [30000])]
    ∧ (new.groups.map fun e => (e.2.rebTimeout, e.2.members.map fun m => m.2.session)) = [(40000, [20000])] := by
  decide

-- non-vacuity of WF
example : WF { newGroup with leader := 5, members := [(5, ⟨[0], 10000, 1000, 1⟩)] } :=
  ⟨by simp, by decide, by decide⟩

end KafVerif.Group
