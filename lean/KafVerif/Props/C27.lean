import KafVerif.Model.ProxyFanout
/-!
C27 — Proxy answers every requested partition once, without duplicate writes.

Statement (properties.jsonl): for a produce or fetch sent through the proxy, the reply has exactly
one entry for each requested topic-partition.  A partition is reported successful only if a
broker reported success for it.  The proxy resends a produce partition to another broker only
when the first broker rejected it as not the leader, so it never writes a record twice.
Quantifier: every request shape, every backend behaviour (success, NOT_LEADER, connection failure
before/after send, malformed reply) and routing table state.

All theorems are for EVERY routing table `rt`, EVERY backend oracle, EVERY processing order `ord`
(Go's map iteration), both for produce (`fetch = false`) and fetch (`fetch = true`).
-/
namespace KafVerif.ProxyFanout

/-! ### counting helpers -/

/-- Normal form for counting goals: `count x (a :: l)` and `count x [a]` both become
`… + if a == x then 1 else 0`, which `omega` treats as an atom. -/
macro "cnt_norm" : tactic =>
  `(tactic| simp only [List.count_cons, List.count_nil, List.count_append, List.map_append, List.map_cons,
      List.map_nil, Nat.zero_add, Nat.add_zero] at *)

theorem perm_of_count {α} [BEq α] [LawfulBEq α] {l₁ l₂ : List α} (h : ∀ a, l₁.count a = l₂.count a) :
    l₁.Perm l₂ := List.perm_iff_count.mpr h

theorem count_filter_mem {α} [BEq α] [LawfulBEq α] (l : List α) (p : α → Bool) (a : α) :
    (l.filter p).count a = if p a then l.count a else 0 := by
  induction l with
  | nil => simp
  | cons b t ih =>
    by_cases hb : p b = true
    · simp only [List.filter_cons, hb, ↓reduceIte, List.count_cons, ih]
      by_cases hab : b = a
      · subst hab; simp [hb]
      · simp [hab]
    · have hb' : p b = false := by simpa using hb
      simp only [List.filter_cons, hb', Bool.false_eq_true, ↓reduceIte, ih, List.count_cons]
      by_cases hab : b = a
      · subst hab; simp [hb']
      · simp [hab]

theorem tpsOf_cons (e : Nat × List Nat) (s : SubReq) :
    tpsOf (e :: s) = e.2.map (fun p => (e.1, p)) ++ tpsOf s := by
  simp [tpsOf]

theorem flat_cons (e : Nat × List PartResp) (s : Reply) :
    flat (e :: s) = e.2.map (fun p => (e.1, p)) ++ flat s := by
  simp [flat]

/-! ### grouping: every included partition lands in exactly one group, once -/

theorem addToSub_perm (s : SubReq) (t p : Nat) : (tpsOf (addToSub s t p)).Perm (tpsOf s ++ [(t, p)]) := by
  induction s with
  | nil => simp [addToSub, tpsOf]
  | cons a rest ih =>
    obtain ⟨t', ps⟩ := a
    unfold addToSub
    by_cases h : t' = t
    · subst h
      simp only [↓reduceIte, tpsOf_cons]
      apply perm_of_count; intro x; cnt_norm; omega
    · simp only [h, ↓reduceIte, tpsOf_cons]
      apply perm_of_count; intro x
      have := ih.count_eq x
      cnt_norm; omega

theorem groupTps_cons (e : Option Nat × SubReq) (g : List (Option Nat × SubReq)) :
    groupTps (e :: g) = tpsOf e.2 ++ groupTps g := by
  simp [groupTps]

theorem addToGroups_perm (g : List (Option Nat × SubReq)) (k : Option Nat) (t p : Nat) :
    (groupTps (addToGroups g k t p)).Perm (groupTps g ++ [(t, p)]) := by
  induction g with
  | nil => simp [addToGroups, groupTps, tpsOf]
  | cons a rest ih =>
    obtain ⟨k', s⟩ := a
    unfold addToGroups
    by_cases h : k' = k
    · subst h
      simp only [↓reduceIte, groupTps_cons]
      apply perm_of_count; intro x
      have := (addToSub_perm s t p).count_eq x
      cnt_norm; omega
    · simp only [h, ↓reduceIte, groupTps_cons]
      apply perm_of_count; intro x
      have := ih.count_eq x
      cnt_norm; omega

theorem groupFold_perm (rt : Route) (inc : Option (List (Nat × Nat))) (l : List (Nat × Nat))
    (g : List (Option Nat × SubReq)) :
    (groupTps (l.foldl (fun g tp => if included inc tp then addToGroups g (rt.key tp.1 tp.2) tp.1 tp.2 else g) g)).Perm
      (groupTps g ++ l.filter (included inc)) := by
  induction l generalizing g with
  | nil => simp
  | cons a rest ih =>
    obtain ⟨t, p⟩ := a
    simp only [List.foldl_cons]
    refine (ih _).trans ?_
    by_cases h : included inc (t, p) = true
    · simp only [h, ↓reduceIte, List.filter_cons]
      apply perm_of_count; intro x
      have := (addToGroups_perm g (rt.key t p) t p).count_eq x
      cnt_norm; omega
    · have h' : included inc (t, p) = false := by simpa using h
      simp [h']

/-- **Grouping lemma.** `groupPartitionsByBroker` puts every requested (and, on a retry,
included) topic-partition into exactly one per-broker sub-request, exactly once, and puts nothing
else there — whatever the routing table says. -/
theorem _root_.KafVerif.C27.group_partition (rt : Route) (req : SubReq) (inc : Option (List (Nat × Nat))) :
    (groupTps (groupBy rt req inc)).Perm ((tpsOf req).filter (included inc)) := by
  have := groupFold_perm rt inc (tpsOf req) []
  simpa [groupBy, groupTps] using this

theorem groupBy_none_perm (rt : Route) (req : SubReq) : (groupTps (groupBy rt req none)).Perm (tpsOf req) := by
  have := KafVerif.C27.group_partition rt req none
  have hf : (tpsOf req).filter (included none) = tpsOf req := by
    apply List.filter_eq_self.mpr; intro a _; rfl
  rwa [hf] at this

/-! ### merging -/

theorem addPart_flat_perm (m : Reply) (t : Nat) (p : PartResp) : (flat (addPart m t p)).Perm (flat m ++ [(t, p)]) := by
  induction m with
  | nil => simp [addPart, flat]
  | cons a rest ih =>
    obtain ⟨t', ps⟩ := a
    unfold addPart
    by_cases h : t' = t
    · subst h
      simp only [↓reduceIte, flat_cons]
      apply perm_of_count; intro x; cnt_norm; omega
    · simp only [h, ↓reduceIte, flat_cons]
      apply perm_of_count; intro x
      have := ih.count_eq x
      cnt_norm; omega

theorem addPart_tps_perm (m : Reply) (t : Nat) (p : PartResp) :
    (replyTps (addPart m t p)).Perm (replyTps m ++ [(t, p.part)]) := by
  have := (addPart_flat_perm m t p).map entryTp
  simpa [replyTps, entryTp] using this

theorem addPart_mem {m : Reply} {t : Nat} {p : PartResp} {x : Nat × PartResp} :
    x ∈ flat (addPart m t p) ↔ x ∈ flat m ∨ x = (t, p) := by
  rw [(addPart_flat_perm m t p).mem_iff]; simp

theorem addErrorAll_tps (fetch : Bool) (m : Reply) (s : SubReq) (code : Int) (x : Nat × Nat) :
    (replyTps (addErrorAll fetch m s code)).count x = (replyTps m).count x + (tpsOf s).count x := by
  unfold addErrorAll
  generalize tpsOf s = l
  induction l generalizing m with
  | nil => simp
  | cons a rest ih =>
    obtain ⟨t, p⟩ := a
    simp only [List.foldl_cons, ih]
    have := (addPart_tps_perm m t { part := p, code := code, mark := synthMark fetch }).count_eq x
    cnt_norm; omega

theorem addErrorAll_mem {fetch : Bool} {m : Reply} {s : SubReq} {code : Int} {x : Nat × PartResp}
    (h : x ∈ flat (addErrorAll fetch m s code)) : x ∈ flat m ∨ x.2.code = code := by
  unfold addErrorAll at h
  generalize tpsOf s = l at h
  induction l generalizing m with
  | nil => exact Or.inl (by simpa using h)
  | cons a rest ih =>
    simp only [List.foldl_cons] at h
    rcases ih h with h | h
    · rcases addPart_mem.mp h with h | h
      · exact Or.inl h
      · exact Or.inr (by subst h; rfl)
    · exact Or.inr h

theorem fillIn_tps (fetch : Bool) (m : Reply) (full : SubReq) (failed : List (Nat × Nat)) (x : Nat × Nat) :
    (replyTps (fillIn fetch m full failed)).count x =
      (replyTps m).count x + if failed.contains x then (tpsOf full).count x else 0 := by
  unfold fillIn
  generalize tpsOf full = l
  induction l generalizing m with
  | nil => simp
  | cons a rest ih =>
    obtain ⟨t, p⟩ := a
    simp only [List.foldl_cons, ih]
    by_cases ha : failed.contains (t, p) = true
    · simp only [ha, ↓reduceIte]
      have := (addPart_tps_perm m t { part := p, code := NOT_LEADER, mark := synthMark fetch }).count_eq x
      by_cases hax : (t, p) = x
      · subst hax; simp only [ha, ↓reduceIte]; cnt_norm; omega
      · have hbeq : ((t, p) == x) = false := by simpa using hax
        cnt_norm
        simp only [hbeq, Bool.false_eq_true, ↓reduceIte] at *
        split <;> omega
    · have ha' : failed.contains (t, p) = false := by simpa using ha
      simp only [ha', Bool.false_eq_true, ↓reduceIte]
      have hm : (t, p) ∉ failed := by simpa using ha'
      by_cases hax : (t, p) = x
      · subst hax; simp [hm]
      · have hbeq : ((t, p) == x) = false := by simpa using hax
        simp [List.count_cons, hbeq]

theorem fillIn_mem {fetch : Bool} {m : Reply} {full : SubReq} {failed : List (Nat × Nat)} {x : Nat × PartResp}
    (h : x ∈ flat (fillIn fetch m full failed)) : x ∈ flat m ∨ x.2.code = NOT_LEADER := by
  unfold fillIn at h
  generalize tpsOf full = l at h
  induction l generalizing m with
  | nil => exact Or.inl (by simpa using h)
  | cons a rest ih =>
    simp only [List.foldl_cons] at h
    rcases ih h with h | h
    · split at h
      · rcases addPart_mem.mp h with h | h
        · exact Or.inl h
        · exact Or.inr (by subst h; rfl)
      · exact Or.inl h
    · exact Or.inr h

/-! ### the counting invariant of one attempt

`cnt st x` = how often `x` is already answered in `merged` plus how often it is waiting in
`failed`.  Processing a sub-request whose partitions are all still un-answered moves each of them
into exactly one of the two. -/

def cnt (st : St) (x : Nat × Nat) : Nat := (replyTps st.merged).count x + st.failed.count x

theorem insertFailed_count (f : List (Nat × Nat)) (tp x : Nat × Nat) (h : f.count tp = 0) :
    (insertFailed f tp).count x = f.count x + [tp].count x := by
  have : tp ∉ f := List.count_eq_zero.mp h
  simp [insertFailed, this, List.count_append]

theorem foldInsert_count (l f : List (Nat × Nat)) (h : ∀ x, f.count x + l.count x ≤ 1) (x : Nat × Nat) :
    (l.foldl insertFailed f).count x = f.count x + l.count x := by
  induction l generalizing f with
  | nil => simp
  | cons a rest ih =>
    simp only [List.foldl_cons]
    have ha : f.count a = 0 := by have := h a; simp at this; omega
    have hstep : ∀ y, (insertFailed f a).count y = f.count y + [a].count y := fun y => insertFailed_count f a y ha
    rw [ih]
    · rw [hstep]; simp [List.count_cons]; omega
    · intro y; rw [hstep]; have := h y; simp [List.count_cons] at this ⊢; omega

theorem mergeEntry_cnt (st : St) (e : Nat × PartResp) (h : st.failed.count (entryTp e) = 0) (x : Nat × Nat) :
    cnt (mergeEntry st e) x = cnt st x + [entryTp e].count x := by
  unfold mergeEntry cnt
  split
  · simp only [insertFailed_count _ _ _ h]; omega
  · have := (addPart_tps_perm st.merged e.1 e.2).count_eq x
    simp only [List.count_append] at this
    simp only [this, entryTp]; omega

theorem mergeEntry_failed_count (st : St) (e : Nat × PartResp) (h : st.failed.count (entryTp e) = 0) (x : Nat × Nat) :
    (mergeEntry st e).failed.count x ≤ st.failed.count x + [entryTp e].count x := by
  unfold mergeEntry
  split
  · simp only [insertFailed_count _ _ _ h]; omega
  · simp

theorem mergeFold_cnt (es : List (Nat × PartResp)) (st : St)
    (h : ∀ x, st.failed.count x + (es.map entryTp).count x ≤ 1) (x : Nat × Nat) :
    cnt (es.foldl mergeEntry st) x = cnt st x + (es.map entryTp).count x := by
  induction es generalizing st with
  | nil => simp
  | cons e rest ih =>
    simp only [List.foldl_cons, List.map_cons]
    have he : st.failed.count (entryTp e) = 0 := by have := h (entryTp e); simp at this; omega
    rw [ih]
    · rw [mergeEntry_cnt st e he]; simp [List.count_cons]; omega
    · intro y
      have h1 := mergeEntry_failed_count st e he y
      have h2 := h y
      simp [List.count_cons] at h1 h2 ⊢; omega

def shapeOk (sub : SubReq) (o : Outcome) : Prop :=
  ∀ r, o = .reply r → (replyTps r).Perm (tpsOf sub)

theorem processResult_cnt (fetch last : Bool) (st : St) (sub : SubReq) (o : Outcome)
    (hs : shapeOk sub o) (h : ∀ x, st.failed.count x + (tpsOf sub).count x ≤ 1) (x : Nat × Nat) :
    cnt (processResult fetch last st sub o) x = cnt st x + (tpsOf sub).count x := by
  cases o with
  | reply r =>
    have hp := hs r rfl
    simp only [processResult, mergeReply]
    rw [mergeFold_cnt]
    · have := hp.count_eq x; simp only [replyTps] at this; omega
    · intro y; have := hp.count_eq y; simp only [replyTps] at this; have := h y; omega
  | connectErr =>
    simp only [processResult]
    split
    · simp only [cnt, foldInsert_count _ _ h]; omega
    · simp only [cnt, addErrorAll_tps]; omega
  | transportErr =>
    simp only [processResult]
    split
    · simp only [cnt, foldInsert_count _ _ h]; omega
    · simp only [cnt, addErrorAll_tps]; omega

def logTps (rs : List LogEntry) : List (Nat × Nat) := rs.flatMap fun e => tpsOf e.sub

theorem mergeFold_merged_mono (es : List (Nat × PartResp)) (st : St) (y : Nat × Nat) :
    (replyTps st.merged).count y ≤ (replyTps (es.foldl mergeEntry st).merged).count y := by
  induction es generalizing st with
  | nil => simp
  | cons a t ih =>
    simp only [List.foldl_cons]
    refine Nat.le_trans ?_ (ih _)
    unfold mergeEntry; split
    · simp
    · rename_i hc
      clear hc
      have := (addPart_tps_perm st.merged a.1 a.2).count_eq y
      simp only [List.count_append] at this
      dsimp only
      omega

theorem processResult_merged_mono (fetch last : Bool) (st : St) (sub : SubReq) (o : Outcome) (y : Nat × Nat) :
    (replyTps st.merged).count y ≤ (replyTps (processResult fetch last st sub o).merged).count y := by
  cases o with
  | reply r => exact mergeFold_merged_mono _ _ _
  | connectErr =>
    simp only [processResult]; split
    · simp
    · simp only [addErrorAll_tps]; omega
  | transportErr =>
    simp only [processResult]; split
    · simp
    · simp only [addErrorAll_tps]; omega

theorem resultsFold_cnt (fetch last : Bool) (rs : List LogEntry) (st : St)
    (hs : ∀ e ∈ rs, shapeOk e.sub e.out)
    (h : ∀ x, st.failed.count x + (logTps rs).count x ≤ 1) (x : Nat × Nat) :
    cnt (rs.foldl (fun st e => processResult fetch last st e.sub e.out) st) x = cnt st x + (logTps rs).count x := by
  induction rs generalizing st with
  | nil => simp [logTps]
  | cons e rest ih =>
    simp only [List.foldl_cons]
    have hcons : ∀ y, (logTps (e :: rest)).count y = (tpsOf e.sub).count y + (logTps rest).count y := by
      intro y; simp [logTps, List.count_append]
    have he : ∀ y, st.failed.count y + (tpsOf e.sub).count y ≤ 1 := by
      intro y; have := h y; rw [hcons] at this; omega
    have hstep := processResult_cnt fetch last st e.sub e.out (hs e List.mem_cons_self) he
    rw [ih]
    · rw [hstep, hcons]; omega
    · intro e' he'; exact hs e' (List.mem_cons_of_mem _ he')
    · intro y
      have h1 := hstep y
      have h2 := h y
      rw [hcons] at h2
      unfold cnt at h1
      have hm := processResult_merged_mono fetch last st e.sub e.out y
      omega

theorem runGroup_tps (oracle : Oracle) (k : Nat) (gs : List (Option Nat × SubReq)) :
    logTps (gs.map (runGroup oracle k)) = groupTps gs := by
  simp [logTps, groupTps, runGroup, List.flatMap_map]

/-! ### (1) exactly one entry per requested partition -/

/-- The hypothesis on the backends (a lemma about the broker: `handleProduce` / `handleFetch`
append one response per requested partition in every branch). -/
def BackendsAnswerWhatWasAsked (oracle : Oracle) : Prop :=
  ∀ k key sub r, oracle k key sub = .reply r → (replyTps r).Perm (tpsOf sub)

def OrderIsPermutation (ord : Order) : Prop := ∀ k g, (ord k g).Perm g

theorem attempts_succ (fetch : Bool) (oracle : Oracle) (ord : Order) (full : SubReq) (n k : Nat)
    (groups : List (Option Nat × SubReq)) (merged : Reply) (route : Route) (log : List LogEntry) :
    attempts fetch oracle ord full (n + 1) k groups merged route log =
      if (attemptState fetch (n == 0) (attemptResults oracle ord k groups) merged route).failed.isEmpty then
        { reply := (attemptState fetch (n == 0) (attemptResults oracle ord k groups) merged route).merged,
          route := (attemptState fetch (n == 0) (attemptResults oracle ord k groups) merged route).route,
          log := log ++ attemptResults oracle ord k groups }
      else if (groupBy (attemptState fetch (n == 0) (attemptResults oracle ord k groups) merged route).route full
          (some (attemptState fetch (n == 0) (attemptResults oracle ord k groups) merged route).failed)).isEmpty || n == 0 then
        { reply := fillIn fetch (attemptState fetch (n == 0) (attemptResults oracle ord k groups) merged route).merged full
            (attemptState fetch (n == 0) (attemptResults oracle ord k groups) merged route).failed,
          route := (attemptState fetch (n == 0) (attemptResults oracle ord k groups) merged route).route,
          log := log ++ attemptResults oracle ord k groups }
      else attempts fetch oracle ord full n (k + 1)
        (groupBy (attemptState fetch (n == 0) (attemptResults oracle ord k groups) merged route).route full
          (some (attemptState fetch (n == 0) (attemptResults oracle ord k groups) merged route).failed))
        (attemptState fetch (n == 0) (attemptResults oracle ord k groups) merged route).merged
        (attemptState fetch (n == 0) (attemptResults oracle ord k groups) merged route).route
        (log ++ attemptResults oracle ord k groups) := rfl

theorem attemptResults_tps (oracle : Oracle) (ord : Order) (ho : OrderIsPermutation ord) (k : Nat)
    (groups : List (Option Nat × SubReq)) (y : Nat × Nat) :
    (logTps (attemptResults oracle ord k groups)).count y = (groupTps groups).count y := by
  unfold attemptResults
  rw [runGroup_tps]
  have := (List.Perm.flatMap_right (fun e : Option Nat × SubReq => tpsOf e.2) (ho k groups)).count_eq y
  simpa [groupTps] using this

/-- One attempt: every partition that was still pending is afterwards either answered in
`merged` or waiting in `failed` — exactly once. -/
theorem attempt_sum (fetch last : Bool) (oracle : Oracle) (ord : Order) (full : SubReq)
    (hb : BackendsAnswerWhatWasAsked oracle) (ho : OrderIsPermutation ord)
    (hd : ∀ x, (tpsOf full).count x ≤ 1) (k : Nat) (groups : List (Option Nat × SubReq)) (merged : Reply)
    (route : Route)
    (hinv : ∀ x, (replyTps merged).count x + (groupTps groups).count x = (tpsOf full).count x) (y : Nat × Nat) :
    (replyTps (attemptState fetch last (attemptResults oracle ord k groups) merged route).merged).count y +
      (attemptState fetch last (attemptResults oracle ord k groups) merged route).failed.count y =
      (tpsOf full).count y := by
  have hshape : ∀ e ∈ attemptResults oracle ord k groups, shapeOk e.sub e.out := by
    intro e he r hr
    obtain ⟨g, _, rfl⟩ := List.mem_map.mp he
    exact hb k g.1 g.2 r hr
  have hfold := resultsFold_cnt fetch last (attemptResults oracle ord k groups)
    { merged := merged, failed := [], route := route } hshape
    (by intro z; rw [attemptResults_tps oracle ord ho]; have := hinv z; have := hd z; simp; omega) y
  rw [attemptResults_tps oracle ord ho] at hfold
  unfold cnt at hfold
  simp only [List.count_nil] at hfold
  have := hinv y
  unfold attemptState
  omega

theorem count_contains_cases {l : List (Nat × Nat)} {x : Nat × Nat} (a b : Nat)
    (h : a + l.count x = b) (hb : b ≤ 1) : a + (if l.contains x then b else 0) = b := by
  by_cases hm : x ∈ l
  · have : 0 < l.count x := List.count_pos_iff.mpr hm
    simp [hm]; omega
  · have : l.count x = 0 := List.count_eq_zero.mpr hm
    simp [hm]; omega

theorem attempts_count (fetch : Bool) (oracle : Oracle) (ord : Order) (full : SubReq)
    (hb : BackendsAnswerWhatWasAsked oracle) (ho : OrderIsPermutation ord)
    (hd : ∀ x, (tpsOf full).count x ≤ 1) :
    ∀ (n : Nat), 1 ≤ n → ∀ (k : Nat) (groups : List (Option Nat × SubReq)) (merged : Reply) (route : Route)
      (log : List LogEntry),
      (∀ x, (replyTps merged).count x + (groupTps groups).count x = (tpsOf full).count x) →
      ∀ x, (replyTps (attempts fetch oracle ord full n k groups merged route log).reply).count x =
        (tpsOf full).count x := by
  intro n
  induction n with
  | zero => intro h; omega
  | succ n ih =>
    intro _ k groups merged route log hinv x
    have hsum := attempt_sum fetch (n == 0) oracle ord full hb ho hd k groups merged route hinv
    rw [attempts_succ]
    generalize attemptState fetch (n == 0) (attemptResults oracle ord k groups) merged route = st at hsum ⊢
    split
    · rename_i hempty
      have h1 := hsum x
      have : st.failed = [] := by cases hf : st.failed <;> simp_all
      simp only [this, List.count_nil] at h1
      simpa using h1
    · split
      · simp only [fillIn_tps]
        exact count_contains_cases _ _ (hsum x) (hd x)
      · rename_i hne
        have hn : 1 ≤ n := by
          cases n with
          | zero => simp at hne
          | succ m => omega
        apply ih hn
        intro y
        have hg := (KafVerif.C27.group_partition st.route full (some st.failed)).count_eq y
        rw [hg, count_filter_mem]
        simp only [included]
        exact count_contains_cases _ _ (hsum y) (hd y)

/-- **C27 (one entry each).** If the requested topic-partitions are pairwise distinct and every
decodable backend reply lists exactly the partitions of its sub-request, then — for every routing
table, every processing order, every mix of NOT_LEADER answers, other error codes, connect
failures and undecodable replies, for produce and for fetch — the merged reply's list of
(topic, partition) entries is a permutation of the request's: one entry each, none missing, none
twice, none foreign. -/
theorem _root_.KafVerif.C27.one_entry_each (fetch : Bool) (oracle : Oracle) (ord : Order) (rt : Route) (req : SubReq)
    (hd : (tpsOf req).Nodup) (hb : BackendsAnswerWhatWasAsked oracle) (ho : OrderIsPermutation ord) :
    (replyTps (forward fetch oracle ord rt req).reply).Perm (tpsOf req) := by
  apply perm_of_count
  intro x
  unfold forward
  apply attempts_count fetch oracle ord req hb ho (fun y => List.nodup_iff_count.mp hd y) 3 (by omega)
  intro y
  have := (groupBy_none_perm rt req).count_eq y
  simp [replyTps, flat]; omega

/-! ### (2) a partition is reported successful only if a backend reported success for it -/

/-- `x` was copied out of a decodable reply that a backend gave to a logged sub-request. -/
def FromBackend (log : List LogEntry) (x : Nat × PartResp) : Prop :=
  ∃ e ∈ log, ∃ r, e.out = .reply r ∧ x ∈ flat r

/-- Where an entry of the merged reply can come from. -/
def Good (log : List LogEntry) (x : Nat × PartResp) : Prop :=
  x.2.code = REQUEST_TIMED_OUT ∨ x.2.code = NOT_LEADER ∨ FromBackend log x

theorem Good.mono {log log' : List LogEntry} {x : Nat × PartResp} (h : ∀ e ∈ log, e ∈ log') (hg : Good log x) :
    Good log' x := by
  rcases hg with hg | hg | ⟨e, he, r, hr, hx⟩
  · exact Or.inl hg
  · exact Or.inr (Or.inl hg)
  · exact Or.inr (Or.inr ⟨e, h e he, r, hr, hx⟩)

theorem mergeFold_mem (es : List (Nat × PartResp)) (st : St) (x : Nat × PartResp)
    (h : x ∈ flat (es.foldl mergeEntry st).merged) : x ∈ flat st.merged ∨ x ∈ es := by
  induction es generalizing st with
  | nil => exact Or.inl (by simpa using h)
  | cons a t ih =>
    simp only [List.foldl_cons] at h
    rcases ih _ h with h | h
    · unfold mergeEntry at h
      split at h
      · exact Or.inl h
      · rcases addPart_mem.mp h with h | h
        · exact Or.inl h
        · exact Or.inr (by subst h; exact List.mem_cons_self)
    · exact Or.inr (List.mem_cons_of_mem _ h)

theorem processResult_mem (fetch last : Bool) (st : St) (sub : SubReq) (o : Outcome) (x : Nat × PartResp)
    (h : x ∈ flat (processResult fetch last st sub o).merged) :
    x ∈ flat st.merged ∨ x.2.code = REQUEST_TIMED_OUT ∨ ∃ r, o = .reply r ∧ x ∈ flat r := by
  cases o with
  | reply r =>
    rcases mergeFold_mem _ _ _ h with h | h
    · exact Or.inl h
    · exact Or.inr (Or.inr ⟨r, rfl, h⟩)
  | connectErr =>
    simp only [processResult] at h
    split at h
    · exact Or.inl h
    · rcases addErrorAll_mem h with h | h
      · exact Or.inl h
      · exact Or.inr (Or.inl h)
  | transportErr =>
    simp only [processResult] at h
    split at h
    · exact Or.inl h
    · rcases addErrorAll_mem h with h | h
      · exact Or.inl h
      · exact Or.inr (Or.inl h)

theorem resultsFold_mem (fetch last : Bool) (rs : List LogEntry) (st : St) (x : Nat × PartResp)
    (h : x ∈ flat (rs.foldl (fun st e => processResult fetch last st e.sub e.out) st).merged) :
    x ∈ flat st.merged ∨ x.2.code = REQUEST_TIMED_OUT ∨ ∃ e ∈ rs, ∃ r, e.out = .reply r ∧ x ∈ flat r := by
  induction rs generalizing st with
  | nil => exact Or.inl (by simpa using h)
  | cons a t ih =>
    simp only [List.foldl_cons] at h
    rcases ih _ h with h | h | ⟨e, he, r, hr, hx⟩
    · rcases processResult_mem _ _ _ _ _ _ h with h | h | ⟨r, hr, hx⟩
      · exact Or.inl h
      · exact Or.inr (Or.inl h)
      · exact Or.inr (Or.inr ⟨a, List.mem_cons_self, r, hr, hx⟩)
    · exact Or.inr (Or.inl h)
    · exact Or.inr (Or.inr ⟨e, List.mem_cons_of_mem _ he, r, hr, hx⟩)

theorem attemptState_good (fetch last : Bool) (rs log : List LogEntry) (merged : Reply) (route : Route)
    (hm : ∀ x ∈ flat merged, Good log x) :
    ∀ x ∈ flat (attemptState fetch last rs merged route).merged, Good (log ++ rs) x := by
  intro x hx
  rcases resultsFold_mem _ _ _ _ _ hx with h | h | ⟨e, he, r, hr, hxr⟩
  · exact (hm x h).mono (fun e he => List.mem_append_left _ he)
  · exact Or.inl h
  · exact Or.inr (Or.inr ⟨e, List.mem_append_right _ he, r, hr, hxr⟩)

theorem attempts_log_mono (fetch : Bool) (oracle : Oracle) (ord : Order) (full : SubReq) :
    ∀ (n k : Nat) (groups : List (Option Nat × SubReq)) (merged : Reply) (route : Route) (log : List LogEntry),
      ∀ e ∈ log, e ∈ (attempts fetch oracle ord full n k groups merged route log).log := by
  intro n
  induction n with
  | zero => intro k groups merged route log e he; simpa [attempts] using he
  | succ n ih =>
    intro k groups merged route log e he
    rw [attempts_succ]
    split
    · exact List.mem_append_left _ he
    · split
      · exact List.mem_append_left _ he
      · exact ih _ _ _ _ _ e (List.mem_append_left _ he)

theorem attempts_good (fetch : Bool) (oracle : Oracle) (ord : Order) (full : SubReq) :
    ∀ (n k : Nat) (groups : List (Option Nat × SubReq)) (merged : Reply) (route : Route) (log : List LogEntry),
      (∀ x ∈ flat merged, Good log x) →
      ∀ x ∈ flat (attempts fetch oracle ord full n k groups merged route log).reply,
        Good (attempts fetch oracle ord full n k groups merged route log).log x := by
  intro n
  induction n with
  | zero => intro k groups merged route log hm x hx; simp only [attempts] at hx ⊢; exact hm x hx
  | succ n ih =>
    intro k groups merged route log hm x
    have hst := attemptState_good fetch (n == 0) (attemptResults oracle ord k groups) log merged route hm
    rw [attempts_succ]
    split
    · intro hx; exact hst x hx
    · split
      · intro hx
        rcases fillIn_mem hx with h | h
        · exact hst x h
        · exact Or.inr (Or.inl h)
      · exact ih _ _ _ _ _ hst x

theorem attempts_genuine (fetch : Bool) (oracle : Oracle) (ord : Order) (full : SubReq) :
    ∀ (n k : Nat) (groups : List (Option Nat × SubReq)) (merged : Reply) (route : Route) (log : List LogEntry),
      (∀ e ∈ log, e.out = oracle e.attempt e.key e.sub) →
      ∀ e ∈ (attempts fetch oracle ord full n k groups merged route log).log, e.out = oracle e.attempt e.key e.sub := by
  intro n
  induction n with
  | zero => intro k groups merged route log h e he; simp only [attempts] at he; exact h e he
  | succ n ih =>
    intro k groups merged route log h
    have h' : ∀ e ∈ log ++ attemptResults oracle ord k groups, e.out = oracle e.attempt e.key e.sub := by
      intro e he
      rcases List.mem_append.mp he with he | he
      · exact h e he
      · obtain ⟨g, _, rfl⟩ := List.mem_map.mp he
        rfl
    rw [attempts_succ]
    split
    · exact h'
    · split
      · exact h'
      · exact ih _ _ _ _ _ h'

/-- **C27 (success is sound).** Every entry of the merged reply that reports success (error
code 0) was copied, unchanged (same partition, same base offset / high watermark), out of a
decodable reply that a backend really gave to a sub-request the proxy really sent; the proxy
itself only ever synthesizes REQUEST_TIMED_OUT and NOT_LEADER entries.  No hypothesis on the
backends, the routing table or the order. -/
theorem _root_.KafVerif.C27.success_sound (fetch : Bool) (oracle : Oracle) (ord : Order) (rt : Route) (req : SubReq)
    (x : Nat × PartResp) (hx : x ∈ flat (forward fetch oracle ord rt req).reply) (hc : x.2.code = 0) :
    ∃ e ∈ (forward fetch oracle ord rt req).log, e.out = oracle e.attempt e.key e.sub ∧ e.sent = true ∧
      ∃ r, e.out = .reply r ∧ x ∈ flat r := by
  have hg := attempts_good fetch oracle ord req 3 0 (groupBy rt req none) [] rt [] (by simp [flat]) x hx
  have hgen := attempts_genuine fetch oracle ord req 3 0 (groupBy rt req none) [] rt [] (by simp)
  rcases hg with h | h | ⟨e, he, r, hr, hxr⟩
  · simp [REQUEST_TIMED_OUT, hc] at h
  · simp [NOT_LEADER, hc] at h
  · exact ⟨e, he, hgen e he, by simp [LogEntry.sent, hr], r, hr, hxr⟩

/-! ### (3) a partition is re-sent only after NOT_LEADER (fetch: or after a transport error) -/

/-- Why `tp` may be part of a sub-request of attempt `k ≥ 1`: in attempt `k-1` some backend
answered NOT_LEADER for it, or (fetch only) its sub-request got no decodable reply. -/
def Witness (fetch : Bool) (log : List LogEntry) (k : Nat) (tp : Nat × Nat) : Prop :=
  ∃ e ∈ log, e.attempt + 1 = k ∧
    ((∃ r, e.out = .reply r ∧ ∃ x ∈ flat r, entryTp x = tp ∧ x.2.code = NOT_LEADER) ∨
     (fetch = true ∧ (∀ r, e.out ≠ .reply r) ∧ tp ∈ tpsOf e.sub))

theorem Witness.mono {fetch : Bool} {log log' : List LogEntry} {k : Nat} {tp : Nat × Nat}
    (h : ∀ e ∈ log, e ∈ log') (hw : Witness fetch log k tp) : Witness fetch log' k tp := by
  obtain ⟨e, he, hk, hr⟩ := hw
  exact ⟨e, h e he, hk, hr⟩

theorem insertFailed_mem {f : List (Nat × Nat)} {a tp : Nat × Nat} (h : tp ∈ insertFailed f a) : tp ∈ f ∨ tp = a := by
  unfold insertFailed at h
  split at h
  · exact Or.inl h
  · simpa using h

theorem foldInsert_mem {l f : List (Nat × Nat)} {tp : Nat × Nat} (h : tp ∈ l.foldl insertFailed f) : tp ∈ f ∨ tp ∈ l := by
  induction l generalizing f with
  | nil => exact Or.inl (by simpa using h)
  | cons a t ih =>
    simp only [List.foldl_cons] at h
    rcases ih h with h | h
    · rcases insertFailed_mem h with h | h
      · exact Or.inl h
      · exact Or.inr (by subst h; exact List.mem_cons_self)
    · exact Or.inr (List.mem_cons_of_mem _ h)

theorem mergeFold_failed (es : List (Nat × PartResp)) (st : St) (tp : Nat × Nat)
    (h : tp ∈ (es.foldl mergeEntry st).failed) :
    tp ∈ st.failed ∨ ∃ x ∈ es, entryTp x = tp ∧ x.2.code = NOT_LEADER := by
  induction es generalizing st with
  | nil => exact Or.inl (by simpa using h)
  | cons a t ih =>
    simp only [List.foldl_cons] at h
    rcases ih _ h with h | ⟨x, hx, hxt, hxc⟩
    · unfold mergeEntry at h
      split at h
      · rename_i hc
        rcases insertFailed_mem h with h | h
        · exact Or.inl h
        · exact Or.inr ⟨a, List.mem_cons_self, h.symm, hc⟩
      · exact Or.inl h
    · exact Or.inr ⟨x, List.mem_cons_of_mem _ hx, hxt, hxc⟩

/-- The two ways a partition gets into `failedPartitions` while one result is processed. -/
def FailedBy (fetch : Bool) (sub : SubReq) (o : Outcome) (tp : Nat × Nat) : Prop :=
  (∃ r, o = .reply r ∧ ∃ x ∈ flat r, entryTp x = tp ∧ x.2.code = NOT_LEADER) ∨
  (fetch = true ∧ (∀ r, o ≠ .reply r) ∧ tp ∈ tpsOf sub)

theorem processResult_failed (fetch last : Bool) (st : St) (sub : SubReq) (o : Outcome) (tp : Nat × Nat)
    (h : tp ∈ (processResult fetch last st sub o).failed) : tp ∈ st.failed ∨ FailedBy fetch sub o tp := by
  cases o with
  | reply r =>
    rcases mergeFold_failed _ _ _ h with h | h
    · exact Or.inl h
    · exact Or.inr (Or.inl ⟨r, rfl, h⟩)
  | connectErr =>
    simp only [processResult] at h
    split at h
    · rename_i hf
      rcases foldInsert_mem h with h | h
      · exact Or.inl h
      · exact Or.inr (Or.inr ⟨(by simp at hf; exact hf.1), (by intro r hr; cases hr), h⟩)
    · exact Or.inl h
  | transportErr =>
    simp only [processResult] at h
    split at h
    · rename_i hf
      rcases foldInsert_mem h with h | h
      · exact Or.inl h
      · exact Or.inr (Or.inr ⟨(by simp at hf; exact hf.1), (by intro r hr; cases hr), h⟩)
    · exact Or.inl h

theorem resultsFold_failed (fetch last : Bool) (rs : List LogEntry) (st : St) (tp : Nat × Nat)
    (h : tp ∈ (rs.foldl (fun st e => processResult fetch last st e.sub e.out) st).failed) :
    tp ∈ st.failed ∨ ∃ e ∈ rs, FailedBy fetch e.sub e.out tp := by
  induction rs generalizing st with
  | nil => exact Or.inl (by simpa using h)
  | cons a t ih =>
    simp only [List.foldl_cons] at h
    rcases ih _ h with h | ⟨e, he, hf⟩
    · rcases processResult_failed _ _ _ _ _ _ h with h | h
      · exact Or.inl h
      · exact Or.inr ⟨a, List.mem_cons_self, h⟩
    · exact Or.inr ⟨e, List.mem_cons_of_mem _ he, hf⟩

theorem attemptResults_attempt {oracle : Oracle} {ord : Order} {k : Nat} {groups : List (Option Nat × SubReq)}
    {e : LogEntry} (he : e ∈ attemptResults oracle ord k groups) : e.attempt = k := by
  obtain ⟨g, _, rfl⟩ := List.mem_map.mp he
  rfl

theorem attemptResults_sub {oracle : Oracle} {ord : Order} (ho : OrderIsPermutation ord) {k : Nat}
    {groups : List (Option Nat × SubReq)} {e : LogEntry} (he : e ∈ attemptResults oracle ord k groups)
    {tp : Nat × Nat} (htp : tp ∈ tpsOf e.sub) : tp ∈ groupTps groups := by
  obtain ⟨g, hg, rfl⟩ := List.mem_map.mp he
  have hg' : g ∈ groups := (ho k groups).mem_iff.mp hg
  simp only [groupTps, List.mem_flatMap]
  exact ⟨g, hg', htp⟩

theorem attempts_resend (fetch : Bool) (oracle : Oracle) (ord : Order) (full : SubReq) (ho : OrderIsPermutation ord) :
    ∀ (n k : Nat) (groups : List (Option Nat × SubReq)) (merged : Reply) (route : Route) (log : List LogEntry),
      (∀ e ∈ log, e.attempt ≠ 0 → ∀ tp ∈ tpsOf e.sub, Witness fetch log e.attempt tp) →
      (k ≠ 0 → ∀ tp ∈ groupTps groups, Witness fetch log k tp) →
      ∀ e ∈ (attempts fetch oracle ord full n k groups merged route log).log, e.attempt ≠ 0 →
        ∀ tp ∈ tpsOf e.sub, Witness fetch (attempts fetch oracle ord full n k groups merged route log).log e.attempt tp := by
  intro n
  induction n with
  | zero => intro k groups merged route log h1 _ e he; simp only [attempts] at he ⊢; exact h1 e he
  | succ n ih =>
    intro k groups merged route log h1 h2
    have hsub : ∀ e ∈ log, e ∈ log ++ attemptResults oracle ord k groups := fun e he => List.mem_append_left _ he
    have h1' : ∀ e ∈ log ++ attemptResults oracle ord k groups, e.attempt ≠ 0 → ∀ tp ∈ tpsOf e.sub,
        Witness fetch (log ++ attemptResults oracle ord k groups) e.attempt tp := by
      intro e he hne tp htp
      rcases List.mem_append.mp he with he | he
      · exact (h1 e he hne tp htp).mono hsub
      · have hk := attemptResults_attempt he
        rw [hk] at hne ⊢
        exact (h2 hne tp (attemptResults_sub ho he htp)).mono hsub
    rw [attempts_succ]
    split
    · exact h1'
    · split
      · exact h1'
      · apply ih _ _ _ _ _ h1'
        intro _ tp htp
        have hmem := (KafVerif.C27.group_partition _ full (some _)).mem_iff.mp htp
        simp only [List.mem_filter, included] at hmem
        have hf : tp ∈ (attemptState fetch (n == 0) (attemptResults oracle ord k groups) merged route).failed := by
          simpa using hmem.2
        rcases resultsFold_failed _ _ _ _ _ hf with h | ⟨e, he, hby⟩
        · simp at h
        · exact ⟨e, List.mem_append_right _ he, by rw [attemptResults_attempt he], hby⟩

/-- **C27 (no duplicate writes).** In the ghost log of a PRODUCE, a topic-partition is part of a
sub-request of attempt k+1 only if, in attempt k, a backend answered NOT_LEADER_OR_FOLLOWER for
exactly that partition in a decodable reply.  In particular a produce sub-request that met a
connect error, a broken connection or an undecodable reply is never sent again.  No hypothesis on
the backends or the routing table. -/
theorem _root_.KafVerif.C27.resend_only_after_not_leader (oracle : Oracle) (ord : Order) (rt : Route) (req : SubReq)
    (ho : OrderIsPermutation ord) (e : LogEntry) (he : e ∈ (forward false oracle ord rt req).log)
    (hk : e.attempt ≠ 0) (tp : Nat × Nat) (htp : tp ∈ tpsOf e.sub) :
    ∃ e' ∈ (forward false oracle ord rt req).log, e'.attempt + 1 = e.attempt ∧
      ∃ r, e'.out = .reply r ∧ ∃ x ∈ flat r, entryTp x = tp ∧ x.2.code = NOT_LEADER := by
  have := attempts_resend false oracle ord req ho 3 0 (groupBy rt req none) [] rt [] (by simp) (by simp) e he hk tp htp
  obtain ⟨e', he', hk', hr⟩ := this
  rcases hr with hr | ⟨hf, _⟩
  · exact ⟨e', he', hk', hr⟩
  · cases hf

/-- **C27 (fetch resends).** For a FETCH the same holds with one more admissible reason: the
partition's sub-request of the previous attempt got no decodable reply (reads are idempotent). -/
theorem _root_.KafVerif.C27.fetch_resend_reason (oracle : Oracle) (ord : Order) (rt : Route) (req : SubReq)
    (ho : OrderIsPermutation ord) (e : LogEntry) (he : e ∈ (forward true oracle ord rt req).log)
    (hk : e.attempt ≠ 0) (tp : Nat × Nat) (htp : tp ∈ tpsOf e.sub) :
    Witness true (forward true oracle ord rt req).log e.attempt tp :=
  attempts_resend true oracle ord req ho 3 0 (groupBy rt req none) [] rt [] (by simp) (by simp) e he hk tp htp

theorem attempts_bound (fetch : Bool) (oracle : Oracle) (ord : Order) (full : SubReq) :
    ∀ (n k : Nat) (groups : List (Option Nat × SubReq)) (merged : Reply) (route : Route) (log : List LogEntry),
      (∀ e ∈ log, e.attempt < k + n) →
      ∀ e ∈ (attempts fetch oracle ord full n k groups merged route log).log, e.attempt < k + n := by
  intro n
  induction n with
  | zero => intro k groups merged route log h e he; simp only [attempts] at he; exact h e he
  | succ n ih =>
    intro k groups merged route log h
    have h' : ∀ e ∈ log ++ attemptResults oracle ord k groups, e.attempt < k + (n + 1) := by
      intro e he
      rcases List.mem_append.mp he with he | he
      · exact h e he
      · rw [attemptResults_attempt he]; omega
    rw [attempts_succ]
    split
    · exact h'
    · split
      · exact h'
      · intro e he
        have := ih (k + 1) _ _ _ _ (by intro e he; have := h' e he; omega) e he
        omega

/-- **C27 (bounded).** At most three attempts: every logged sub-request belongs to attempt 0, 1 or 2. -/
theorem _root_.KafVerif.C27.at_most_three_attempts (fetch : Bool) (oracle : Oracle) (ord : Order) (rt : Route) (req : SubReq)
    (e : LogEntry) (he : e ∈ (forward fetch oracle ord rt req).log) : e.attempt < 3 := by
  have := attempts_bound fetch oracle ord req 3 0 (groupBy rt req none) [] rt [] (by simp) e he
  omega

/-! ### (4) counting form of "never writes a record twice" -/

/-- Entries of the decodable reply (if any) a logged sub-request got. -/
def replyEntries (e : LogEntry) : List (Nat × PartResp) :=
  match e.out with
  | .reply r => flat r
  | _ => []

def isNL (tp : Nat × Nat) (x : Nat × PartResp) : Bool := entryTp x == tp && x.2.code == NOT_LEADER

/-- How many NOT_LEADER answers the backends gave for `tp` over the whole request. -/
def nlCount (log : List LogEntry) (tp : Nat × Nat) : Nat := ((log.flatMap replyEntries).filter (isNL tp)).length

theorem nlCount_append (a b : List LogEntry) (tp : Nat × Nat) : nlCount (a ++ b) tp = nlCount a tp + nlCount b tp := by
  simp [nlCount, List.flatMap_append, List.filter_append]

theorem nlCount_cons (e : LogEntry) (rs : List LogEntry) (tp : Nat × Nat) :
    nlCount (e :: rs) tp = ((replyEntries e).filter (isNL tp)).length + nlCount rs tp := by
  simp [nlCount, List.filter_append]

theorem logTps_append (a b : List LogEntry) : logTps (a ++ b) = logTps a ++ logTps b := by
  simp [logTps, List.flatMap_append]

theorem insertFailed_count_le (f : List (Nat × Nat)) (a tp : Nat × Nat) :
    (insertFailed f a).count tp ≤ f.count tp + if a = tp then 1 else 0 := by
  unfold insertFailed
  split
  · omega
  · by_cases h : a = tp
    · subst h; simp [List.count_append]
    · have : (a == tp) = false := by simpa using h
      simp [List.count_append, h]

theorem mergeFold_failed_le (es : List (Nat × PartResp)) (st : St) (tp : Nat × Nat) :
    (es.foldl mergeEntry st).failed.count tp ≤ st.failed.count tp + (es.filter (isNL tp)).length := by
  induction es generalizing st with
  | nil => simp
  | cons a t ih =>
    simp only [List.foldl_cons]
    refine Nat.le_trans (ih _) ?_
    unfold mergeEntry
    split
    · rename_i hc
      have h1 := insertFailed_count_le st.failed (entryTp a) tp
      by_cases h : entryTp a = tp
      · subst h
        have : isNL (entryTp a) a = true := by simp [isNL, hc]
        simp only [List.filter_cons, this, ↓reduceIte, List.length_cons]
        simp only [↓reduceIte] at h1
        omega
      · have : isNL tp a = false := by simp [isNL, h]
        simp only [List.filter_cons, this, Bool.false_eq_true, ↓reduceIte]
        simp only [h, ↓reduceIte] at h1
        omega
    · rename_i hc
      have : isNL tp a = false := by simp [isNL, hc]
      simp only [List.filter_cons, this, Bool.false_eq_true, ↓reduceIte]
      omega

theorem processResult_failed_le (last : Bool) (st : St) (e : LogEntry) (tp : Nat × Nat) :
    (processResult false last st e.sub e.out).failed.count tp ≤
      st.failed.count tp + ((replyEntries e).filter (isNL tp)).length := by
  unfold replyEntries
  cases e.out with
  | reply r => exact mergeFold_failed_le _ _ _
  | connectErr => simp [processResult]
  | transportErr => simp [processResult]

theorem resultsFold_failed_le (last : Bool) (rs : List LogEntry) (st : St) (tp : Nat × Nat) :
    (rs.foldl (fun st e => processResult false last st e.sub e.out) st).failed.count tp ≤
      st.failed.count tp + nlCount rs tp := by
  induction rs generalizing st with
  | nil => simp [nlCount]
  | cons a t ih =>
    simp only [List.foldl_cons]
    refine Nat.le_trans (ih _) ?_
    have := processResult_failed_le last st a tp
    rw [nlCount_cons]; omega

theorem attempts_sends (oracle : Oracle) (ord : Order) (full : SubReq) (ho : OrderIsPermutation ord)
    (hd : ∀ x, (tpsOf full).count x ≤ 1) (tp : Nat × Nat) :
    ∀ (n k : Nat) (groups : List (Option Nat × SubReq)) (merged : Reply) (route : Route) (log : List LogEntry),
      (logTps log).count tp + (groupTps groups).count tp ≤ 1 + nlCount log tp →
      (logTps (attempts false oracle ord full n k groups merged route log).log).count tp ≤
        1 + nlCount (attempts false oracle ord full n k groups merged route log).log tp := by
  intro n
  induction n with
  | zero => intro k groups merged route log h; simp only [attempts]; omega
  | succ n ih =>
    intro k groups merged route log h
    have hs := attemptResults_tps oracle ord ho k groups tp
    have hlog : (logTps (log ++ attemptResults oracle ord k groups)).count tp ≤
        1 + nlCount (log ++ attemptResults oracle ord k groups) tp := by
      rw [logTps_append, List.count_append, nlCount_append, hs]; omega
    rw [attempts_succ]
    split
    · exact hlog
    · split
      · exact hlog
      · apply ih
        have hf := resultsFold_failed_le (n == 0) (attemptResults oracle ord k groups)
          { merged := merged, failed := [], route := route } tp
        simp only [List.count_nil, Nat.zero_add] at hf
        have hg := (KafVerif.C27.group_partition
          (attemptState false (n == 0) (attemptResults oracle ord k groups) merged route).route full
          (some (attemptState false (n == 0) (attemptResults oracle ord k groups) merged route).failed)).count_eq tp
        rw [hg, count_filter_mem, logTps_append, List.count_append, nlCount_append, hs]
        simp only [included]
        have hfull := hd tp
        change List.count tp (attemptState false (n == 0) (attemptResults oracle ord k groups) merged route).failed ≤ _ at hf
        generalize (attemptState false (n == 0) (attemptResults oracle ord k groups) merged route).failed = F at hf ⊢
        by_cases hm : tp ∈ F
        · have : 0 < F.count tp := List.count_pos_iff.mpr hm
          simp [hm]; omega
        · simp [hm]; omega

/-- **C27 (at most one accepted write).** For a PRODUCE with pairwise distinct partitions, the
number of times a partition is sent to a backend over the whole request is at most one more than
the number of NOT_LEADER_OR_FOLLOWER answers the backends gave for it — for every routing table,
every order and EVERY backend behaviour (no shape hypothesis).  A backend that answers NOT_LEADER
has not appended, so at most one send can have written the record. -/
theorem _root_.KafVerif.C27.sends_le_one_plus_not_leader (oracle : Oracle) (ord : Order) (rt : Route) (req : SubReq)
    (hd : (tpsOf req).Nodup) (ho : OrderIsPermutation ord) (tp : Nat × Nat) :
    (logTps (forward false oracle ord rt req).log).count tp ≤ 1 + nlCount (forward false oracle ord rt req).log tp := by
  have hd' : ∀ x, (tpsOf req).count x ≤ 1 := fun y => List.nodup_iff_count.mp hd y
  apply attempts_sends oracle ord req ho hd' tp 3 0
  have := (groupBy_none_perm rt req).count_eq tp
  have := hd' tp
  simp [logTps, nlCount]; omega

/-- **C27 (acks=0).** A fire-and-forget produce writes every requested partition to exactly one
backend, exactly once (one sub-request per group, nothing retried). -/
theorem _root_.KafVerif.C27.acks0_each_partition_sent_once (rt : Route) (req : SubReq) :
    (groupTps (fireAndForget rt req)).Perm (tpsOf req) := groupBy_none_perm rt req

/-! ### the property as executable predicates (what the monitor evaluates on the implementation's
traces) and the proof that the model satisfies them -/

def specOneEntry (req : SubReq) (reply : Reply) : Bool := (replyTps reply).isPerm (tpsOf req)

def specSuccessSound (log : List LogEntry) (reply : Reply) : Bool :=
  (flat reply).all fun x => x.2.code != 0 || log.any fun e => e.sent && (replyEntries e).contains x

def specResend (fetch : Bool) (log : List LogEntry) : Bool :=
  log.all fun e => e.attempt == 0 || (tpsOf e.sub).all fun tp =>
    log.any fun e' => e'.attempt + 1 == e.attempt &&
      ((replyEntries e').any (isNL tp) ||
       (fetch && (match e'.out with | .reply _ => false | _ => true) && (tpsOf e'.sub).contains tp))

def specBound (log : List LogEntry) : Bool := log.all fun e => e.attempt < 3

def specSends (req : SubReq) (log : List LogEntry) : Bool :=
  (tpsOf req).all fun tp => (logTps log).count tp ≤ 1 + nlCount log tp

/-- the hypotheses, as checks on a trace -/
def hypDistinct (req : SubReq) : Bool := decide (tpsOf req).Nodup
def hypShape (log : List LogEntry) : Bool :=
  log.all fun e => match e.out with | .reply r => (replyTps r).isPerm (tpsOf e.sub) | _ => true

theorem _root_.KafVerif.C27.model_meets_spec (fetch : Bool) (oracle : Oracle) (ord : Order) (rt : Route) (req : SubReq)
    (hd : (tpsOf req).Nodup) (hb : BackendsAnswerWhatWasAsked oracle) (ho : OrderIsPermutation ord) :
    specOneEntry req (forward fetch oracle ord rt req).reply = true ∧
    specSuccessSound (forward fetch oracle ord rt req).log (forward fetch oracle ord rt req).reply = true ∧
    specResend fetch (forward fetch oracle ord rt req).log = true ∧
    specBound (forward fetch oracle ord rt req).log = true ∧
    (fetch = false → specSends req (forward fetch oracle ord rt req).log = true) := by
  refine ⟨?_, ?_, ?_, ?_, ?_⟩
  · exact List.isPerm_iff.mpr (KafVerif.C27.one_entry_each fetch oracle ord rt req hd hb ho)
  · simp only [specSuccessSound, List.all_eq_true, Bool.or_eq_true, bne_iff_ne, ne_eq, List.any_eq_true,
      Bool.and_eq_true, List.contains_iff_mem]
    intro x hx
    by_cases hc : x.2.code = 0
    · obtain ⟨e, he, _, hs, r, hr, hxr⟩ := KafVerif.C27.success_sound fetch oracle ord rt req x hx hc
      exact Or.inr ⟨e, he, hs, by simp [replyEntries, hr, hxr]⟩
    · exact Or.inl hc
  · simp only [specResend, List.all_eq_true, Bool.or_eq_true, beq_iff_eq, List.any_eq_true, Bool.and_eq_true,
      List.contains_iff_mem]
    intro e he
    by_cases hk : e.attempt = 0
    · exact Or.inl hk
    · refine Or.inr ?_
      intro tp htp
      obtain ⟨e', he', hk', hw⟩ := attempts_resend fetch oracle ord req ho 3 0 (groupBy rt req none) [] rt []
        (by simp) (by simp) e he hk tp htp
      refine ⟨e', he', hk', ?_⟩
      rcases hw with ⟨r, hr, x, hx, hxt, hxc⟩ | ⟨hf, hnr, hm⟩
      · exact Or.inl ⟨x, by simp [replyEntries, hr, hx], by simp [isNL, hxt, hxc]⟩
      · refine Or.inr ⟨⟨hf, ?_⟩, hm⟩
        cases ho' : e'.out with
        | reply r => exact absurd ho' (hnr r)
        | connectErr => rfl
        | transportErr => rfl
  · simp only [specBound, List.all_eq_true, decide_eq_true_eq]
    exact fun e he => KafVerif.C27.at_most_three_attempts fetch oracle ord rt req e he
  · intro hf
    subst hf
    simp only [specSends, List.all_eq_true, decide_eq_true_eq]
    exact fun tp _ => KafVerif.C27.sends_le_one_plus_not_leader oracle ord rt req hd ho tp

/-! ### non-vacuity of the hypotheses, and the theorems at work on a concrete run -/

/-- A backend that answers every partition it is asked about (success). -/
def okOracle : Oracle := fun k _ sub =>
  .reply (sub.map fun e => (e.1, e.2.map fun p => { part := p, code := 0, mark := Int.ofNat k }))

example : BackendsAnswerWhatWasAsked okOracle := by
  intro k key sub r h
  simp only [okOracle, Outcome.reply.injEq] at h
  subst h
  apply List.Perm.of_eq
  simp only [replyTps, flat, tpsOf, List.flatMap_map, List.map_flatMap, List.map_map]
  rfl

example : OrderIsPermutation (fun _ g => g) := fun _ _ => List.Perm.refl _
example : OrderIsPermutation (fun _ g => g.reverse) := fun _ g => List.reverse_perm g
example : (tpsOf [(0, [0, 1]), (1, [0])]).Nodup := by decide

/-- Partition (0,1) is owned by broker 1, which answers NOT_LEADER on the first attempt; (0,0)'s
backend breaks the connection. -/
def demoOracle : Oracle := fun k key sub =>
  if key = some 0 then .transportErr
  else .reply (sub.map fun e => (e.1, e.2.map fun p =>
    { part := p, code := if k = 0 ∧ (e.1, p) = (0, 1) then NOT_LEADER else 0, mark := Int.ofNat (100 * (k + 1) + p) }))

def demoRoute : Route := { owners := [((0, 0), 0), ((0, 1), 1)], known := [0, 1], unres := [] }

/-- produce: (0,0) timed out and was sent once; (0,1) was re-sent once, after NOT_LEADER, and
succeeded; (0,2) succeeded at once.  Fetch: (0,0) is retried on all three attempts. -/
example : replyTps (forward false demoOracle (fun _ g => g) demoRoute [(0, [0, 1, 2])]).reply = [(0, 0), (0, 2), (0, 1)] := by decide
example : (forward false demoOracle (fun _ g => g) demoRoute [(0, [0, 1, 2])]).log.map (fun e => (e.attempt, e.key, e.sub)) =
    [(0, some 0, [(0, [0])]), (0, some 1, [(0, [1])]), (0, none, [(0, [2])]), (1, none, [(0, [1])])] := by decide
example : (forward true demoOracle (fun _ g => g) demoRoute [(0, [0, 1, 2])]).log.map (fun e => (e.attempt, e.sub)) =
    [(0, [(0, [0])]), (0, [(0, [1])]), (0, [(0, [2])]), (1, [(0, [0])]), (1, [(0, [1])]), (2, [(0, [0])])] := by decide

end KafVerif.ProxyFanout
