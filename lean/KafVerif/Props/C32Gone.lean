import KafVerif.Props.C32
/-!
C32, upload ids S3 no longer knows (class of seeded change C32-r3-1).

S3 forgets a multipart upload id when the upload is completed OR aborted (by the proxy's abort handler, or behind its
back: lifecycle rule / operator = `XOp.lifecycleAbort`), and answers `NoSuchUpload` for it.  A completion request may
also run on an ORPHANED session object: it looked the session up, parked on the session mutex, and the lock holder (an
abort, another completion) deleted the session meanwhile (`XOp.lookup` … `XOp.heldComplete`).

* `complete_ok_implies_object_assembled` — after EVERY history of session operations, S3-side aborts, lookups and
  requests running on the session object they hold: a completion (ordinary or on a held pointer) answered 200 means S3
  still knew the upload (`s3open`), the object is exactly the data the envelope's SHA-256 / size were computed over,
  and the broker acknowledged;
* `complete_after_abort_is_error` — once the upload was aborted (client abort answered 204, abort on a held pointer,
  S3-side abort), whatever happens next short of a new `init`, no completion is answered 200 / gets an envelope / sends
  a produce request;
* `noSuchUploadOk_violates` — the variant "NoSuchUpload on completion = already completed" answers 200 with an
  envelope for an object that does not exist.
-/
namespace KafVerif.LfsHttp

/-- invariant of the extended machine: the table's session and the object a parked request points to are consistent
with what S3 holds for the upload (while S3 still knows it) -/
def XInv (x : XSt) : Prop := Inv x.st ∧ ∀ s, x.held = some s → SInv x.st s

theorem sinv_congr {st st' : St} {s : Sess} (h : SInv st s)
    (h3 : st'.s3open = true → st.s3open = true ∧ st'.s3parts = st.s3parts) : SInv st' s :=
  ⟨h.hashed, h.total, h.keys, fun ho => by rw [(h3 ho).2]; exact h.s3 (h3 ho).1⟩

theorem inv_with_sess {st : St} {s : Sess} (h : SInv st s) : Inv { st with sess := some s } := by
  intro s' hs'
  simp only [Option.some.injEq] at hs'
  subst hs'
  exact sinv_congr h (fun ho => ⟨ho, rfl⟩)

theorem inv_sess_none {st : St} : Inv { st with sess := none } := by
  intro s hs; simp at hs

/-- a non-`init` operation that leaves no session in the table either left S3's view of the upload alone or closed it -/
theorem step_none_s3 (st : St) (o : Op) (hi : isInit o = false) (hn : (step st o).1.sess = none)
    (ho : (step st o).1.s3open = true) : st.s3open = true ∧ (step st o).1.s3parts = st.s3parts := by
  revert hn ho
  cases o with
  | init size alg ck cf => simp [isInit] at hi
  | part n c f =>
    simp only [step, doPart, doPartWith]
    repeat' split
    all_goals (intro a b; first | exact ⟨b, rfl⟩ | (simp_all; done))
  | complete l f b =>
    simp only [step, doComplete, doCompleteWith]
    repeat' split
    all_goals (intro a b; first | exact ⟨b, rfl⟩ | (simp_all; done))
  | abort =>
    simp only [step, doAbort]
    repeat' split
    all_goals (intro a b; first | exact ⟨b, rfl⟩ | (simp_all; done))
  | expire => intro a b; exact ⟨b, rfl⟩

theorem onHeld_cases (held : Option Sess) (st : St) (f : St → St × Out) :
    (∃ s, st.sess = none ∧ held = some s ∧
        onHeld held st f = ({ (f { st with sess := some s }).1 with sess := none }, (f { st with sess := some s }).2)) ∨
      onHeld held st f = f st := by
  cases hs : st.sess with
  | some s0 => right; simp [onHeld, hs]
  | none =>
    cases held with
    | none => right; simp [onHeld, hs]
    | some s => left; exact ⟨s, rfl, rfl, by simp [onHeld, hs]⟩

theorem onHeld_inv (held : Option Sess) (st : St) (f : St → St × Out) (hf : ∀ t, Inv t → Inv (f t).1)
    (h : Inv st) : Inv (onHeld held st f).1 := by
  rcases onHeld_cases held st f with ⟨s, _, _, heq⟩ | heq
  · rw [heq]; exact inv_sess_none
  · rw [heq]; exact hf st h

theorem xinv_init (mb : Int) : XInv (XSt.init mb) :=
  ⟨inv_init mb, fun s h => by simp [XSt.init] at h⟩

theorem xstep_inv (x : XSt) (o : XOp) (h : XInv x) : XInv (xstep x o).1 := by
  obtain ⟨hi, hh⟩ := h
  cases o with
  | op o =>
    have hi' := step_inv x.st o hi
    refine ⟨hi', ?_⟩
    intro s hs
    simp only [xstep] at hs ⊢
    cases hinit : isInit o with
    | true => simp [hinit] at hs
    | false =>
      simp only [hinit, Bool.false_eq_true, if_false] at hs
      split at hs
      · rename_i s' hs'
        split at hs
        · simp only [Option.some.injEq] at hs; subst hs; exact hi' _ hs'
        · simp at hs
      · rename_i hnone
        exact sinv_congr (hh s hs) (fun ho => step_none_s3 x.st o hinit hnone ho)
  | lifecycleAbort =>
    refine ⟨?_, ?_⟩
    · intro s hs
      exact sinv_congr (hi s hs) (fun ho => by simp [xstep, doLifecycleAbort] at ho)
    · intro s hs
      exact sinv_congr (hh s hs) (fun ho => by simp [xstep, doLifecycleAbort] at ho)
  | lookup => exact ⟨hi, fun s hs => hi s hs⟩
  | heldComplete l f b =>
    refine ⟨onHeld_inv _ _ _ (fun t ht => doComplete_inv t l f b ht) hi, fun s hs => by simp [xstep] at hs⟩
  | heldAbort =>
    refine ⟨onHeld_inv _ _ _ (fun t ht => doAbort_inv t ht) hi, fun s hs => by simp [xstep] at hs⟩

theorem xrun_inv (x : XSt) (ops : List XOp) (h : XInv x) : XInv (xrun x ops) := by
  induction ops generalizing x with
  | nil => exact h
  | cons o rest ih => exact ih _ (xstep_inv x o h)

/-- a completion answered 200 found the upload still known to S3 -/
theorem doComplete_200_open (st : St) (l : List (Nat × Etag)) (f : Bool) (b : Broker)
    (h200 : (doComplete st l f b).2.status = 200) : st.s3open = true := by
  cases ho : st.s3open with
  | true => rfl
  | false =>
    exfalso
    revert h200
    simp only [doComplete, doCompleteWith, s3Complete, ho]
    repeat' split
    all_goals simp_all

theorem onHeld_complete_sound (held : Option Sess) (st : St) (l : List (Nat × Etag)) (f : Bool) (b : Broker)
    (hi : Inv st) (hh : ∀ s, held = some s → SInv st s)
    (h200 : (onHeld held st (fun t => doComplete t l f b)).2.status = 200) :
    st.s3open = true ∧
    ∃ env, (onHeld held st (fun t => doComplete t l f b)).2.env = some env ∧
      (onHeld held st (fun t => doComplete t l f b)).1.object = some env.shaOf ∧ dlen env.shaOf = env.size ∧
      acked b = true ∧ (onHeld held st (fun t => doComplete t l f b)).2.produced = true := by
  rcases onHeld_cases held st (fun t => doComplete t l f b) with ⟨s, _, hheld, heq⟩ | heq
  · rw [heq] at h200 ⊢
    have h200' : (doComplete { st with sess := some s } l f b).2.status = 200 := h200
    obtain ⟨env, h1, h2, h3, h4, h5⟩ :=
      doComplete_sound { st with sess := some s } l f b (inv_with_sess (hh s hheld)) _ _ rfl h200'
    exact ⟨doComplete_200_open { st with sess := some s } l f b h200', env, h1, h2, h3, h4, h5⟩
  · rw [heq] at h200 ⊢
    exact ⟨doComplete_200_open st l f b h200, doComplete_sound st l f b hi _ _ rfl h200⟩

/-- **C32, upload ids S3 forgot.**  After ANY history of session operations, S3-side aborts of the in-flight upload,
session lookups by requests that then park on the session mutex, and parked completions / aborts running on the
session object they hold: a completion — ordinary, or on a held (possibly orphaned) session — answered 200 means that
S3 still knew the upload id, the reply carries an envelope, the object under its key is exactly the data the
envelope's SHA-256 and size were computed over, and the broker acknowledged the record. -/
theorem _root_.KafVerif.C32.complete_ok_implies_object_assembled (maxBlob : Int) (history : List XOp)
    (list : List (Nat × Etag)) (s3Fails : Bool) (b : Broker) (c : XOp)
    (hc : c = .heldComplete list s3Fails b ∨ c = .op (.complete list s3Fails b)) :
    let x := xrun (XSt.init maxBlob) history
    let r := xstep x c
    r.2.status = 200 →
      x.st.s3open = true ∧
      ∃ env, r.2.env = some env ∧ r.1.st.object = some env.shaOf ∧ dlen env.shaOf = env.size ∧
        acked b = true ∧ r.2.produced = true := by
  intro x r h200
  have hx : XInv x := xrun_inv _ history (xinv_init maxBlob)
  rcases hc with rfl | rfl
  · exact onHeld_complete_sound x.held x.st list s3Fails b hx.1 hx.2 h200
  · exact ⟨doComplete_200_open x.st list s3Fails b h200, doComplete_sound x.st list s3Fails b hx.1 _ _ rfl h200⟩

/-! ### after an abort nothing completes -/

def noInit : XOp → Bool
  | .op o => !isInit o
  | _ => true

theorem step_closed (st : St) (o : Op) (hi : isInit o = false) (h : st.s3open = false) :
    (step st o).1.s3open = false := by
  cases o with
  | init size alg ck cf => simp [isInit] at hi
  | part n c f =>
    simp only [step, doPart, doPartWith]
    repeat' split
    all_goals first | exact h | rfl | simp_all
  | complete l f b =>
    simp only [step, doComplete, doCompleteWith]
    repeat' split
    all_goals first | exact h | rfl | simp_all
  | abort =>
    simp only [step, doAbort]
    split <;> first | exact h | rfl
  | expire => exact h

theorem onHeld_closed (held : Option Sess) (st : St) (f : St → St × Out)
    (hf : ∀ t, t.s3open = false → (f t).1.s3open = false) (h : st.s3open = false) :
    (onHeld held st f).1.s3open = false := by
  rcases onHeld_cases held st f with ⟨s, _, _, heq⟩ | heq
  · rw [heq]; exact hf { st with sess := some s } h
  · rw [heq]; exact hf _ h

theorem xstep_closed (x : XSt) (o : XOp) (hn : noInit o = true) (h : x.st.s3open = false) :
    (xstep x o).1.st.s3open = false := by
  cases o with
  | op o => exact step_closed x.st o (by simpa [noInit] using hn) h
  | lifecycleAbort => simp [xstep, doLifecycleAbort]
  | lookup => exact h
  | heldComplete l f b =>
    exact onHeld_closed _ _ _ (fun t ht => step_closed t (.complete l f b) rfl ht) h
  | heldAbort => exact onHeld_closed _ _ _ (fun t ht => step_closed t .abort rfl ht) h

theorem xrun_closed (x : XSt) (w : List XOp) (hw : ∀ o ∈ w, noInit o = true) (h : x.st.s3open = false) :
    (xrun x w).st.s3open = false := by
  induction w generalizing x with
  | nil => exact h
  | cons o rest ih =>
    exact ih _ (fun o' ho' => hw o' (by simp [ho'])) (xstep_closed x o (hw o (by simp)) h)

/-- a completion (ordinary or on a held pointer) against an upload id S3 no longer knows is an error: no 200, no
envelope, no produce request -/
theorem complete_closed_is_error (x : XSt) (l : List (Nat × Etag)) (f : Bool) (b : Broker) (c : XOp)
    (hc : c = .heldComplete l f b ∨ c = .op (.complete l f b)) (h : x.st.s3open = false) :
    (xstep x c).2.status ≠ 200 ∧ (xstep x c).2.env = none ∧ (xstep x c).2.produced = false := by
  have key : ∀ t : St, t.s3open = false →
      (doComplete t l f b).2.status ≠ 200 ∧ (doComplete t l f b).2.env = none ∧ (doComplete t l f b).2.produced = false := by
    intro t ht
    simp only [doComplete, doCompleteWith, s3Complete, ht]
    repeat' split
    all_goals simp_all
  rcases hc with rfl | rfl
  · simp only [xstep]
    rcases onHeld_cases x.held x.st (fun t => doComplete t l f b) with ⟨s, _, _, heq⟩ | heq
    · rw [heq]; exact key { x.st with sess := some s } h
    · rw [heq]; exact key _ h
  · exact key _ h

/-- the abort handler answering 204 (on the table's session or on a held pointer) aborted the upload at S3 -/
theorem abort_204_closes (x : XSt) (a : XOp) (ha : a = .op .abort ∨ a = .heldAbort)
    (h204 : (xstep x a).2.status = 204) : (xstep x a).1.st.s3open = false := by
  rcases ha with rfl | rfl
  · simp only [xstep, step, doAbort] at h204 ⊢
    split at h204 <;> simp_all
  · simp only [xstep] at h204 ⊢
    rcases onHeld_cases x.held x.st doAbort with ⟨s, _, _, heq⟩ | heq
    · rw [heq]; simp [doAbort]
    · rw [heq] at h204 ⊢
      simp only [doAbort] at h204 ⊢
      split at h204 <;> simp_all

/-- **C32: a completion after an abort is an error.**  For every history: once the multipart upload was aborted — the
client's abort answered 204 (on the session in the table or on the session object a parked request holds) or S3 dropped
it behind the proxy's back — then after ANY further operations short of a new `init` (parts, completions, aborts,
expiry, lookups, parked requests running), a completion request (ordinary, or one that looked the session up before
the abort deleted it) is not answered 200, carries no envelope and sends no produce request. -/
theorem _root_.KafVerif.C32.complete_after_abort_is_error (maxBlob : Int) (history window : List XOp) (a c : XOp)
    (list : List (Nat × Etag)) (s3Fails : Bool) (b : Broker)
    (ha : a = .lifecycleAbort ∨
          ((a = .op .abort ∨ a = .heldAbort) ∧ (xstep (xrun (XSt.init maxBlob) history) a).2.status = 204))
    (hw : ∀ o ∈ window, noInit o = true)
    (hc : c = .heldComplete list s3Fails b ∨ c = .op (.complete list s3Fails b)) :
    let y := xrun (xstep (xrun (XSt.init maxBlob) history) a).1 window
    (xstep y c).2.status ≠ 200 ∧ (xstep y c).2.env = none ∧ (xstep y c).2.produced = false := by
  intro y
  have hclosed : (xstep (xrun (XSt.init maxBlob) history) a).1.st.s3open = false := by
    rcases ha with rfl | ⟨ha, h204⟩
    · simp [xstep, doLifecycleAbort]
    · exact abort_204_closes _ a ha h204
  exact complete_closed_is_error y list s3Fails b c hc (xrun_closed _ window hw hclosed)

/-! ### witnesses / non-vacuity -/

def xc1 : Chunk := ⟨2, 7⟩

/-- the variant "S3 answered NoSuchUpload to CompleteMultipartUpload = the upload was already completed" (seeded change
C32-r3-1): `init 7; PUT part 1; S3-side abort; complete [1]` is answered 200 with an envelope of 7 bytes, a produce
request is sent, and no object exists. -/
theorem _root_.KafVerif.C32.noSuchUploadOk_violates :
    let st := (run step (St.init 0) [.init 7 .sha256 .absent false, .part 1 xc1 false]).1
    let r := doCompleteNoSuchUploadOk (doLifecycleAbort st).1 [(1, .ok)] false .ack
    r.2.status = 200 ∧ r.2.env = some ⟨7, [xc1]⟩ ∧ r.2.produced = true ∧ r.1.object = none := by decide

-- the same history on the code as it is: 502, no envelope (S3-side abort; client abort overlapping the completion)
example : (xstep (xrun (XSt.init 0) [.op (.init 7 .sha256 .absent false), .op (.part 1 xc1 false), .lifecycleAbort])
    (.op (.complete [(1, .ok)] false .ack))).2 = ⟨502, none, false⟩ := by decide
example : (xstep (xrun (XSt.init 0) [.op (.init 7 .sha256 .absent false), .op (.part 1 xc1 false), .lookup, .op .abort])
    (.heldComplete [(1, .ok)] false .ack)).2 = ⟨502, none, false⟩ := by decide
example : (xstep (xrun (XSt.init 0) [.op (.init 7 .sha256 .absent false), .op (.part 1 xc1 false), .lookup]) (.op .abort)).2.status = 204 := by
  decide
-- a completion on a held pointer whose session is still there succeeds (the 200 case of the theorem is inhabited)
example : (xstep (xrun (XSt.init 0) [.op (.init 7 .sha256 .absent false), .lookup, .op (.part 1 xc1 false)])
    (.heldComplete [(1, .ok)] false .ack)).2 = ⟨200, some ⟨7, [xc1]⟩, true⟩ := by decide
-- a second completion parked behind a successful one runs on the orphan: the id is gone because COMPLETED -> 502, no second produce
example : (xstep (xrun (XSt.init 0) [.op (.init 7 .sha256 .absent false), .op (.part 1 xc1 false), .lookup,
    .op (.complete [(1, .ok)] false .ack)]) (.heldComplete [(1, .ok)] false .ack)).2 = ⟨502, none, false⟩ := by decide

end KafVerif.LfsHttp
