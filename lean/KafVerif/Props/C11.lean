import KafVerif.Model.ApiTable
import KafVerif.Gen.C11Tables
import KafVerif.Props.C10
/-!
C11 — Every advertised API version is served with a decodable response.

The tables (`Gen/C11Tables.lean`) are regenerated from the current source on every run:
`brokerAdv`/`proxyAdv` = what `generateApiVersions()` / `generateProxyApiVersions()` return, `handlerGuards` /
`servedKeys` = the version guards and the `case *kmsg.XRequest` arms of `handler.Handle` (go/ast), `kmsgTab` =
kmsg's max / first-flexible versions.  The obligations below are re-checked against the regenerated tables
by `lake build`; the `_sound` lemmas lift the executable checks to statements about EVERY (key, version).
`skipResponseHeader_*`: the proxy's reading of a reply header is total, inverts `EncodeResponse`'s header for every key but
ApiVersions (any well-formed tagged-field section), and refuses the boundary inputs.
Partial (see checks/C11.py LEVEL_NOTE): that the response BODY decodes is validated exhaustively over the
finite (key, version) space by the harness, not proved (kmsg is the codec).
-/
namespace KafVerif.C11
open KafVerif KafVerif.ApiTable KafVerif.ProtoHeader KafVerif.Gen.C11

/-- The executable table check is sound: if it passes, every advertised (key, version) has a dispatch arm,
passes every handler version guard for its key, and is a version kmsg knows. -/
theorem checkAdv_sound (adv : List AdvRow) (served : List Int) (guards : List GuardRow) (kmsg : List KmsgRow)
    (h : checkAdv adv served guards kmsg = true) :
    ∀ k v, Advertised adv k v → k ∈ served ∧ HandlerAccepts guards k v ∧ KmsgKnows kmsg k v := by
  intro k v ⟨e, he, hk, h0, hlo, hhi⟩
  unfold checkAdv at h
  have hrow := List.all_eq_true.mp h e he
  unfold rowOk at hrow
  have hneg : decide (e.2.1 < 0) = false := by simp; omega
  simp only [hneg, Bool.false_or, Bool.and_eq_true] at hrow
  obtain ⟨⟨hs, hg⟩, hm⟩ := hrow
  refine ⟨?_, ?_, ?_⟩
  · rw [← hk]; simpa using hs
  · intro g hgm hgk
    have := List.all_eq_true.mp hg g hgm
    have hne : (g.1 != e.1) = false := by simp [hgk, hk]
    simp only [hne, Bool.false_or, Bool.and_eq_true, decide_eq_true_eq] at this
    omega
  · obtain ⟨r, hr, hrr⟩ := List.any_eq_true.mp hm
    simp only [Bool.and_eq_true, decide_eq_true_eq, beq_iff_eq] at hrr
    exact ⟨r, hr, by rw [hrr.1, hk], by omega⟩

/-- Soundness of the range-inclusion check. -/
theorem checkSubset_sound (a b : List AdvRow) (h : checkSubset a b = true) :
    ∀ k v, Advertised a k v → Advertised b k v := by
  intro k v ⟨e, he, hk, h0, hlo, hhi⟩
  unfold checkSubset at h
  have hrow := List.all_eq_true.mp h e he
  have hneg : decide (e.2.1 < 0) = false := by simp; omega
  simp only [hneg, Bool.false_or] at hrow
  obtain ⟨f, hf, hff⟩ := List.any_eq_true.mp hrow
  simp only [Bool.and_eq_true, decide_eq_true_eq, beq_iff_eq] at hff
  exact ⟨f, hf, by rw [hff.1.1.1, hk], hff.1.1.2, by omega, by omega⟩

/-- OBLIGATION over the regenerated tables (broker). -/
theorem broker_table_ok : checkAdv brokerAdv servedKeys handlerGuards kmsgTab = true := by decide

/-- Every (key, version) the broker advertises is dispatched by `Handle`, accepted by every version guard of
its handler, and within kmsg's version range. -/
theorem broker_advertised_served :
    ∀ k v, Advertised brokerAdv k v → k ∈ servedKeys ∧ HandlerAccepts handlerGuards k v ∧ KmsgKnows kmsgTab k v :=
  checkAdv_sound _ _ _ _ broker_table_ok

/-- Every (key, version) the proxy advertises is advertised (hence served) by the broker it forwards to. -/
theorem proxy_subset_broker : ∀ k v, Advertised proxyAdv k v → Advertised brokerAdv k v :=
  checkSubset_sound _ _ (by decide)

/-- Response header shape (`EncodeResponse`): 5 bytes exactly when the response is flexible at the reply
version and the key is not ApiVersions, else 4. -/
theorem response_header_shape (respFlex : Int → Int → Bool) (k v corr : Int) :
    (replyHeader respFlex k v corr).length = if respFlex k (replyVersion k v) && k != 18 then 5 else 4 := by
  unfold replyHeader responseHeader encodeResponseHeader flexibleHeader
  split <;> simp_all [putU32]

/-- … and its first four bytes are the request's correlation id. -/
theorem response_header_corr (respFlex : Int → Int → Bool) (k v corr : Int) (h : -2 ^ 31 ≤ corr ∧ corr < 2 ^ 31) :
    toInt32 (u32 ((replyHeader respFlex k v corr).take 4)) = corr := by
  have ht : (replyHeader respFlex k v corr).take 4 = putU32 (twos 32 corr) := by
    unfold replyHeader responseHeader encodeResponseHeader
    split <;> simp [putU32]
  rw [ht, u32_put _ (twos32_lt corr), toInt32_twos corr h]

/-- ApiVersions replies never use the flexible header (KIP-511), whatever the version. -/
theorem apiversions_header_never_flexible (respFlex : Int → Int → Bool) (v corr : Int) :
    (replyHeader respFlex 18 v corr).length = 4 := by
  rw [response_header_shape]; simp

/-- For every advertised (key, version) the reply is encoded at the request version (the ApiVersions v0
fallback only applies above the advertised maximum) — depends on the regenerated table. -/
theorem advertised_reply_version : ∀ k v, Advertised brokerAdv k v → replyVersion k v = v := by
  have hchk : brokerAdv.all (fun e => e.1 != 18 || decide (e.2.2 ≤ 4)) = true := by decide
  intro k v ⟨e, he, hk, h0, hlo, hhi⟩
  unfold replyVersion apiVersionsReplyVersion
  by_cases h18 : k = 18
  · have := List.all_eq_true.mp hchk e he
    have hne : (e.1 != 18) = false := by simp [hk, h18]
    simp only [hne, Bool.false_or, decide_eq_true_eq] at this
    have : ¬ v > 4 := by omega
    simp [h18, this]
  · simp [h18]

/-! non-vacuity -/
example : Advertised [((3 : Int), (0 : Int), (12 : Int))] 3 9 := ⟨(3, 0, 12), by simp, rfl, by decide, by decide, by decide⟩
example : (replyHeader (fun k v => k == 3 && decide (9 ≤ v)) 3 9 7).length = 5 := by decide
example : (replyHeader (fun k v => k == 3 && decide (9 ≤ v)) 3 8 7).length = 4 := by decide
example : checkAdv [((1 : Int), (11 : Int), (14 : Int))] [1] [(1, -32768, 13)] [(1, 18, 12, 12)] = false := by decide

/-! ### `SkipResponseHeader` (what the proxy does with a backend reply) -/
/-- `SkipResponseHeader` never panics, whatever the backend sent. -/
theorem skipResponseHeader_total (known : Int → Bool) (respFlex : Int → Int → Bool) (k v : Int) (data : Bytes) :
    skipResponseHeader known respFlex k v data ≠ .panic := by
  unfold skipResponseHeader
  split
  · simp
  · rename_i h4
    split
    · simp
    · split
      · split
        · simp
        · rename_i h5
          rw [goSlice_ok (by omega)]
          simp only [GoResult.bind]
          have hs := skipTagged_safe { buf := (data.drop (4 : Int).toNat).take ((data.length : Int) - 4).toNat, pos := 0 } ⟨by simp, by simp⟩
          split
          · rename_i r hr
            obtain ⟨hb, hi, hp⟩ := hs.2 r hr
            have hlen : (r.buf.length : Int) ≤ (data.length : Int) - 4 := by
              rw [hb]; simp only [List.length_take, List.length_drop]; omega
            have h1 := hi.1; have h2 := hi.2
            rw [goSlice_ok (by omega)]
            simp
          · simp
          · rename_i hp; exact absurd hp hs.1
      · rw [goSlice_ok (by omega)]; simp [GoResult.bind]

/-- Round trip with the response header as any Kafka peer writes it: correlation id, then — iff the response is flexible at that
version — a well-formed tagged-field section (ours is always the empty one), then the body: `SkipResponseHeader` returns exactly
the body. -/
theorem skipResponseHeader_roundtrip (known : Int → Bool) (respFlex : Int → Int → Bool) (k v corr : Int)
    (tags : List (Nat × Bytes)) (htw : TagsWf tags) (body : Bytes) (hk : known k = true) :
    skipResponseHeader known respFlex k v (putU32 (twos 32 corr) ++ (if respFlex k v then encodeTags tags else []) ++ body)
      = .ok (some body) := by
  unfold skipResponseHeader
  have hl4 : (putU32 (twos 32 corr)).length = 4 := rfl
  by_cases hf : respFlex k v = true
  · simp only [hf, if_true]
    have hpos : 0 < (encodeTags tags).length := by
      unfold encodeTags putUvarint
      have := putUvarintAux_length_pos 9 tags.length
      simp only [List.length_append]; omega
    have h4 : ¬ ((putU32 (twos 32 corr) ++ encodeTags tags ++ body).length < 4) := by simp only [List.length_append]; omega
    have h5 : ¬ ((4 : Int) ≥ ((putU32 (twos 32 corr) ++ encodeTags tags ++ body).length : Nat)) := by
      simp only [List.length_append]; push_cast; omega
    simp only [h4, if_false, hk, Bool.not_true, Bool.false_eq_true, h5]
    have ht : goSlice (putU32 (twos 32 corr) ++ (encodeTags tags ++ body)) 4
        ((putU32 (twos 32 corr) ++ (encodeTags tags ++ body)).length : Nat) = .ok (encodeTags tags ++ body) := by
      have := goSlice_tail (putU32 (twos 32 corr)) (encodeTags tags ++ body)
      rw [hl4] at this; exact_mod_cast this
    rw [List.append_assoc, ht]
    simp only [GoResult.bind]
    have hsk : skipTagged { buf := encodeTags tags ++ body, pos := 0 }
        = .ok { buf := encodeTags tags ++ body, pos := 0 + ((encodeTags tags).length : Int) } :=
      skipTagged_at { buf := encodeTags tags ++ body, pos := 0 } [] body tags htw rfl rfl
    rw [hsk]
    simp only
    have hg := goSlice_tail (putU32 (twos 32 corr) ++ encodeTags tags) body
    rw [List.append_assoc] at hg
    have hpos2 : (4 : Int) + (0 + ((encodeTags tags).length : Int)) = ((putU32 (twos 32 corr) ++ encodeTags tags).length : Nat) := by
      simp only [List.length_append, hl4]; push_cast; omega
    rw [hpos2, hg]
  · have hf' : respFlex k v = false := by simpa using hf
    simp only [hf', Bool.false_eq_true, if_false, List.append_nil]
    have h4 : ¬ ((putU32 (twos 32 corr) ++ body).length < 4) := by simp only [List.length_append]; omega
    simp only [h4, if_false, hk, Bool.not_true, Bool.false_eq_true]
    have ht : goSlice (putU32 (twos 32 corr) ++ body) 4 ((putU32 (twos 32 corr) ++ body).length : Nat) = .ok body := by
      have := goSlice_tail (putU32 (twos 32 corr)) body
      rw [hl4] at this; exact_mod_cast this
    rw [ht]; rfl


/-- What the broker writes, the proxy reads back: for every key other than ApiVersions, every version and correlation id,
`SkipResponseHeader` applied to the reply header of `EncodeResponse` followed by any body returns exactly that body. -/
theorem skipResponseHeader_reply (known : Int → Bool) (respFlex : Int → Int → Bool) (k v corr : Int) (body : Bytes)
    (hk : known k = true) (h18 : k ≠ 18) :
    skipResponseHeader known respFlex k (replyVersion k v) (replyHeader respFlex k v corr ++ body) = .ok (some body) := by
  have hv : replyVersion k v = v := by simp [replyVersion, h18]
  have := skipResponseHeader_roundtrip known respFlex k v corr [] ⟨by decide, by simp⟩ body hk
  rw [hv]
  unfold replyHeader responseHeader encodeResponseHeader flexibleHeader
  rw [hv]
  have hne : (k != 18) = true := by simp [h18]
  simp only [hne, Bool.and_true]
  have he : encodeTags [] = [0] := by decide
  rw [he] at this
  by_cases hf : respFlex k v = true
  · simp only [hf, if_true] at this ⊢; exact this
  · have hf' : respFlex k v = false := by simpa using hf
    simp only [hf', Bool.false_eq_true, if_false, List.append_nil] at this ⊢; exact this

/-- Boundaries of `SkipResponseHeader`: fewer than 4 bytes, an unknown key, or a flexible version with nothing after the
correlation id are refused (`nil, false`), never mis-sliced. -/
theorem skipResponseHeader_short (known : Int → Bool) (respFlex : Int → Int → Bool) (k v : Int) (data : Bytes)
    (h : data.length < 4 ∨ known k = false ∨ (respFlex k v = true ∧ data.length = 4)) :
    skipResponseHeader known respFlex k v data = .ok none := by
  unfold skipResponseHeader
  rcases h with h | h | ⟨hf, h⟩
  · simp [h]
  · split
    · rfl
    · simp [h]
  · have h4 : ¬ (data.length < 4) := by omega
    have h5 : (4 : Int) ≥ (data.length : Nat) := by omega
    simp only [h4, if_false, hf, if_true, h5]
    split <;> rfl

/-- OBSERVATION (not reachable in the current code: `SkipResponseHeader` is called for Produce, Fetch and the group keys only):
it has no ApiVersions exception, so on an ApiVersions v3+ reply — whose header `EncodeResponse` writes WITHOUT a tagged-field
byte — it would take the first body byte for the tag count and return a shifted body. -/
theorem skipResponseHeader_apiversions_shifted :
    skipResponseHeader (fun _ => true) (fun k v => k == 18 && decide (3 ≤ v)) 18 3
      (replyHeader (fun k v => k == 18 && decide (3 ≤ v)) 18 3 7 ++ [0, 0, 5]) = .ok (some [0, 5]) := by decide

/-! non-vacuity / boundary instances -/
example : TagsWf [(0, [1, 2])] := ⟨by decide, by decide⟩
example : skipResponseHeader (fun _ => true) (fun _ _ => true) 0 9 ([0, 0, 0, 7] ++ encodeTags [(0, [1, 2])] ++ [9, 9]) = .ok (some [9, 9]) := by decide
example : skipResponseHeader (fun _ => true) (fun _ _ => true) 0 9 [0, 0, 0, 7] = .ok none := by decide
example : skipResponseHeader (fun _ => true) (fun _ _ => true) 0 9 [0, 0, 0, 7, 1, 0, 5, 1] = .ok none := by decide
example : toInt32 (u32 ((replyHeader (fun _ _ => true) 3 9 (-2 ^ 31)).take 4)) = -2 ^ 31 := by decide
example : toInt32 (u32 ((replyHeader (fun _ _ => false) 3 9 (2 ^ 31 - 1)).take 4)) = 2 ^ 31 - 1 := by decide

/-! ### the int16 string-length bound of non-flexible versions (why a reply must not carry a string > 32767 bytes) -/
/-- the int16 length prefix of a non-flexible string, as the reader sees it -/
theorem int16_of_len (r : Reader) (pre rest : Bytes) (n : Nat) (hn : n < 65536)
    (hb : r.buf = pre ++ (putU16 n ++ rest)) (hp : r.pos = pre.length) :
    int16With read r = .ok (toInt16 n, { buf := r.buf, pos := r.pos + 2 }) := by
  unfold int16With
  have := read_at r pre (putU16 n) rest hb hp
  have hl : ((putU16 n).length : Int) = 2 := rfl
  rw [hl] at this
  rw [this]
  simp only [GoResult.bind, u16_put _ hn]

/-- The int16 string-length bound of non-flexible versions, (a): up to 32767 bytes the wire form `int16 length ++ bytes`
(`encodeNullableString`, what kmsg's AppendString/AppendNullableString write) reads back exactly. -/
theorem nonflex_string_roundtrip (s rest : Bytes) (h : s.length ≤ 32767) :
    nullableString { buf := encodeNullableString (some s) ++ rest, pos := 0 }
      = .ok (some s, { buf := encodeNullableString (some s) ++ rest, pos := 2 + (s.length : Int) }) := by
  have := nullableString_at { buf := encodeNullableString (some s) ++ rest, pos := 0 } [] rest (some s)
    (fun x hx => by injection hx with hx; subst hx; omega) rfl rfl
  unfold nullableString
  rw [this]
  simp only [encodeNullableString, List.length_append]
  congr 3
  show (0 : Int) + ((putU16 s.length).length + s.length : Nat) = 2 + (s.length : Int)
  have : (putU16 s.length).length = 2 := rfl
  rw [this]; push_cast; omega

/-- (b): from 32768 to 65534 bytes the length prefix wraps to a negative int16 other than -1: the reader (any Kafka client)
rejects the string — a reply carrying such a string (e.g. an error message built from a long request string) is NOT decodable. -/
theorem nonflex_string_overflow_rejected (s rest : Bytes) (h : 32768 ≤ s.length ∧ s.length < 65535) :
    nullableString { buf := encodeNullableString (some s) ++ rest, pos := 0 } = .err := by
  unfold nullableString nullableStringWith
  rw [int16_of_len { buf := encodeNullableString (some s) ++ rest, pos := 0 } [] (s ++ rest) s.length (by omega)
    (by simp [encodeNullableString]) rfl]
  simp only [GoResult.bind]
  have h1 : ¬ (toInt16 s.length = -1) := by unfold toInt16; split <;> omega
  have h2 : toInt16 s.length < 0 := by unfold toInt16; split <;> omega
  simp only [h1, h2, if_false, if_true]

/-- (c): at exactly 65535 bytes the prefix reads as -1 = "null": the reader returns no string and leaves all 65535 bytes in the
stream, to be misread as the following fields. -/
theorem nonflex_string_65535_reads_null (s rest : Bytes) (h : s.length = 65535) :
    nullableString { buf := encodeNullableString (some s) ++ rest, pos := 0 }
      = .ok (none, { buf := encodeNullableString (some s) ++ rest, pos := 2 }) := by
  unfold nullableString nullableStringWith
  rw [int16_of_len { buf := encodeNullableString (some s) ++ rest, pos := 0 } [] (s ++ rest) s.length (by omega)
    (by simp [encodeNullableString]) rfl]
  simp only [GoResult.bind]
  have h1 : toInt16 s.length = -1 := by unfold toInt16; split <;> omega
  simp only [h1, if_true]
  rfl

example : (encodeNullableString (some (List.replicate 3 7))) = [0, 3, 7, 7, 7] := by decide

/-! ### the reply stream of a connection: replies = filterMap over requests, in order -/

/-- The handler contract the connection loop relies on: `Handle` returns `(nil, nil)` exactly for the requests that expect no reply. -/
def Answers (handle : Req → Outcome) : Prop := ∀ r, handle r = .nothing ↔ expectsReply r = false

/-- The tail of `handleProduce` keeps the contract: an acks=0 produce gets nothing — however many partitions were rejected —,
every other produce gets its response. -/
theorem produce_contract (acks : Int) (failed : Nat) (body : Bytes) :
    produceOutcome acks failed body = (if acks = 0 then .nothing else .payload body) ∧
    (produceOutcome acks failed body = .nothing ↔ acks = 0) ∧ produceOutcome acks failed body ≠ .error := by
  unfold produceOutcome
  by_cases h : acks = 0 <;> simp [h]

/-- `Handle` (by outcome class) keeps the contract, whatever the handlers compute. -/
theorem handleOutcome_answers (failed : Req → Nat) (body : Req → Bytes) (fails : Req → Bool) :
    Answers (handleOutcome failed body fails) := by
  intro r
  unfold handleOutcome handleOutcomeWith produceOutcome expectsReply
  by_cases hk : r.key = 0
  · by_cases ha : r.acks = 0 <;> simp [hk, ha]
  · by_cases hf : fails r = true <;> simp [hk, hf]

/-- STREAM THEOREM: if the handler keeps the contract, the frames written on a connection are exactly one frame per
reply-expecting request, in request order (`filterMap`): nothing for an acks=0 produce, nothing unsolicited. -/
theorem reply_stream (respFlex : Int → Int → Bool) (errBody : Int → Int → Bytes) (handle : Req → Outcome) (ha : Answers handle)
    (reqs : List Req) :
    serve respFlex errBody handle reqs
      = reqs.filterMap fun r => if expectsReply r then some (replyFrame respFlex errBody r (handle r)) else none := by
  unfold serve
  induction reqs with
  | nil => rfl
  | cons r rest ih =>
    rw [List.flatMap_cons, ih, List.filterMap_cons]
    by_cases he : expectsReply r = true
    · have hn : handle r ≠ .nothing := fun h => by rw [(ha r).mp h] at he; exact absurd he (by decide)
      simp only [he, if_true]
      cases ho : handle r with
      | payload b => simp [framesFor]
      | nothing => exact absurd ho hn
      | error => simp [framesFor]
    · have he' : expectsReply r = false := by simpa using he
      have : handle r = .nothing := (ha r).mpr he'
      simp [he', this, framesFor]

/-- … for the broker's `Handle`, whatever the handlers compute. -/
theorem broker_reply_stream (respFlex : Int → Int → Bool) (errBody : Int → Int → Bytes) (failed : Req → Nat) (body : Req → Bytes)
    (fails : Req → Bool) (reqs : List Req) :
    serve respFlex errBody (handleOutcome failed body fails) reqs
      = (reqs.filter expectsReply).map fun r => replyFrame respFlex errBody r (handleOutcome failed body fails r) := by
  rw [reply_stream respFlex errBody _ (handleOutcome_answers failed body fails)]
  induction reqs with
  | nil => rfl
  | cons r rest ih =>
    rw [List.filterMap_cons, List.filter_cons]
    by_cases he : expectsReply r = true <;> simp [he, ih]

/-- every frame written starts with the correlation id of its request -/
theorem replyFrame_corr (respFlex : Int → Int → Bool) (errBody : Int → Int → Bytes) (r : Req) (o : Outcome)
    (hc : -2 ^ 31 ≤ r.corr ∧ r.corr < 2 ^ 31) : frameCorr (replyFrame respFlex errBody r o) = r.corr := by
  have h4 : ∀ (k v : Int) (rest : Bytes), (ProtoHeader.responseHeader respFlex k v r.corr ++ rest).take 4 = putU32 (twos 32 r.corr) := by
    intro k v rest
    unfold ProtoHeader.responseHeader encodeResponseHeader
    split <;> simp [putU32]
  unfold frameCorr
  cases o with
  | payload b => simp only [replyFrame, replyHeader]; rw [h4, u32_put _ (twos32_lt r.corr), toInt32_twos r.corr hc]
  | nothing => simp only [replyFrame]; rw [h4, u32_put _ (twos32_lt r.corr), toInt32_twos r.corr hc]
  | error => simp only [replyFrame]; rw [h4, u32_put _ (twos32_lt r.corr), toInt32_twos r.corr hc]

/-- What a pipelining client observes: the k-th reply on the connection exists exactly for the k-th reply-expecting request and
carries THAT request's correlation id. -/
theorem reply_stream_aligned (respFlex : Int → Int → Bool) (errBody : Int → Int → Bytes) (failed : Req → Nat) (body : Req → Bytes)
    (fails : Req → Bool) (reqs : List Req) (hc : ∀ r ∈ reqs, -2 ^ 31 ≤ r.corr ∧ r.corr < 2 ^ 31) :
    (serve respFlex errBody (handleOutcome failed body fails) reqs).map frameCorr = (reqs.filter expectsReply).map (·.corr) := by
  rw [broker_reply_stream, List.map_map]
  apply List.map_congr_left
  intro r hr
  exact replyFrame_corr respFlex errBody r _ (hc r (List.mem_filter.mp hr).1)

/-- What the stream theorem excludes (the witness): if rejected partitions of an acks=0 produce were reported as a handler error,
the connection loop would answer it with an error frame — the client, which sent [produce acks=0 (corr 1), ApiVersions (corr 100)]
and waits for ONE reply carrying 100, reads a frame carrying 1. -/
theorem acks0_error_desynchronises :
    let handle := handleOutcomeWith produceOutcomeErr (fun _ => 1) (fun _ => []) (fun _ => false)
    let reqs : List Req := [{ key := 0, ver := 7, corr := 1, acks := 0 }, { key := 18, ver := 0, corr := 100, acks := 0 }]
    (serve (fun _ _ => false) (fun _ _ => []) handle reqs).map frameCorr = [1, 100] ∧
    (reqs.filter expectsReply).map (·.corr) = [100] ∧ ¬ Answers handle := by
  refine ⟨by decide, by decide, ?_⟩
  intro h
  have := (h { key := 0, ver := 7, corr := 1, acks := 0 }).mpr (by decide)
  exact absurd this (by decide)

/-- OBLIGATIONS over the regenerated source facts (go/ast over `Handle` and the `handle*` functions it calls): the only
`return nil, nil` any arm can reach is the one inside `if req.Acks == 0` of the Produce arm … -/
theorem noreply_only_acks0_produce : ∀ e ∈ noReplyReturns, e.1 = 0 ∧ e.2 = 1 := by decide

/-- … and inside that guard nothing but `nil, nil` is returned (no error that the connection loop would turn into a frame, no payload). -/
theorem acks0_guard_returns_nothing : ∀ e ∈ acks0Returns, e.1 = 0 ∧ e.2 = 0 := by decide

example : expectsReply { key := 0, ver := 7, corr := 1, acks := 0 } = false := by decide
example : expectsReply { key := 0, ver := 7, corr := 1, acks := -1 } = true := by decide
example : expectsReply { key := 18, ver := 0, corr := 1, acks := 0 } = true := by decide
example : Answers (handleOutcome (fun _ => 3) (fun _ => [1]) (fun r => r.key == 3)) := handleOutcome_answers _ _ _
example : (serve (fun _ _ => false) (fun _ _ => []) (handleOutcome (fun _ => 1) (fun _ => [9]) (fun r => r.key == 3))
    [{ key := 0, ver := 7, corr := 1, acks := 0 }, { key := 3, ver := 1, corr := 2, acks := 0 }, { key := 0, ver := 7, corr := 3, acks := 1 },
     { key := 0, ver := 3, corr := 4, acks := 0 }, { key := 18, ver := 0, corr := 5, acks := 0 }]).map frameCorr = [2, 3, 5] := by decide

end KafVerif.C11
