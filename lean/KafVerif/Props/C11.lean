import KafVerif.Model.ApiTable
import KafVerif.Gen.C11Tables
import KafVerif.Props.C10
/-!
C11 — Every advertised API version is served with a decodable response.

The tables (`Gen/C11Tables.lean`) are regenerated from the current source on every run:
`brokerAdv`/`proxyAdv` = what `generateApiVersions()` / `generateProxyApiVersions()` return, `handlerGuards` /
`servedKeys` = the version guards and the `case *kmsg.XRequest` arms of `handler.Handle` (go/ast), `kmsgTab` =
kmsg's max / first-flexible versions.  The obligations below are re-checked against the regenerated tables
by `lake build`; the `_sound` lemmas lift the executable checks to statements about EVERY (key, version).
Partial (see checks/C11.py LEVEL_NOTE): that the response BODY decodes is validated exhaustively over the
finite (key, version) space by the harness, not proved (kmsg is the codec).
-/
namespace KafVerif.C11
open KafVerif KafVerif.ApiTable KafVerif.ProtoHeader KafVerif.Gen.C11

/-- The executable table check is sound: if it passes, every advertised (key, version) has a dispatch arm,
passes every handler version guard for its key, and is a version kmsg knows. -/
theorem checkAdv_sound (adv : List AdvRow) (served : List Int) (guards : List GuardRow) (kmsg : List KmsgRow)
    (h : checkAdv adv served guards kmsg = true) :
    ∀ k v, Advertised adv k v → k ∈ served ∧ HandlerAccepts guards k v ∧ KmsgKnows kmsg k v := by
  intro k v ⟨e, he, hk, h0, hlo, hhi⟩
  unfold checkAdv at h
  have hrow := List.all_eq_true.mp h e he
  unfold rowOk at hrow
  have hneg : decide (e.2.1 < 0) = false := by simp; omega
  simp only [hneg, Bool.false_or, Bool.and_eq_true] at hrow
  obtain ⟨⟨hs, hg⟩, hm⟩ := hrow
  refine ⟨?_, ?_, ?_⟩
  · rw [← hk]; simpa using hs
  · intro g hgm hgk
    have := List.all_eq_true.mp hg g hgm
    have hne : (g.1 != e.1) = false := by simp [hgk, hk]
    simp only [hne, Bool.false_or, Bool.and_eq_true, decide_eq_true_eq] at this
    omega
  · obtain ⟨r, hr, hrr⟩ := List.any_eq_true.mp hm
    simp only [Bool.and_eq_true, decide_eq_true_eq, beq_iff_eq] at hrr
    exact ⟨r, hr, by rw [hrr.1, hk], by omega⟩

/-- Soundness of the range-inclusion check. -/
theorem checkSubset_sound (a b : List AdvRow) (h : checkSubset a b = true) :
    ∀ k v, Advertised a k v → Advertised b k v := by
  intro k v ⟨e, he, hk, h0, hlo, hhi⟩
  unfold checkSubset at h
  have hrow := List.all_eq_true.mp h e he
  have hneg : decide (e.2.1 < 0) = false := by simp; omega
  simp only [hneg, Bool.false_or] at hrow
  obtain ⟨f, hf, hff⟩ := List.any_eq_true.mp hrow
  simp only [Bool.and_eq_true, decide_eq_true_eq, beq_iff_eq] at hff
  exact ⟨f, hf, by rw [hff.1.1.1, hk], hff.1.1.2, by omega, by omega⟩

/-- OBLIGATION over the regenerated tables (broker). -/
theorem broker_table_ok : checkAdv brokerAdv servedKeys handlerGuards kmsgTab = true := by decide

/-- Every (key, version) the broker advertises is dispatched by `Handle`, accepted by every version guard of
its handler, and within kmsg's version range. -/
theorem broker_advertised_served :
    ∀ k v, Advertised brokerAdv k v → k ∈ servedKeys ∧ HandlerAccepts handlerGuards k v ∧ KmsgKnows kmsgTab k v :=
  checkAdv_sound _ _ _ _ broker_table_ok

/-- Every (key, version) the proxy advertises is advertised (hence served) by the broker it forwards to. -/
theorem proxy_subset_broker : ∀ k v, Advertised proxyAdv k v → Advertised brokerAdv k v :=
  checkSubset_sound _ _ (by decide)

/-- Response header shape (`EncodeResponse`): 5 bytes exactly when the response is flexible at the reply
version and the key is not ApiVersions, else 4. -/
theorem response_header_shape (respFlex : Int → Int → Bool) (k v corr : Int) :
    (replyHeader respFlex k v corr).length = if respFlex k (replyVersion k v) && k != 18 then 5 else 4 := by
  unfold replyHeader responseHeader encodeResponseHeader flexibleHeader
  split <;> simp_all [putU32]

/-- … and its first four bytes are the request's correlation id. -/
theorem response_header_corr (respFlex : Int → Int → Bool) (k v corr : Int) (h : -2 ^ 31 ≤ corr ∧ corr < 2 ^ 31) :
    toInt32 (u32 ((replyHeader respFlex k v corr).take 4)) = corr := by
  have ht : (replyHeader respFlex k v corr).take 4 = putU32 (twos 32 corr) := by
    unfold replyHeader responseHeader encodeResponseHeader
    split <;> simp [putU32]
  rw [ht, u32_put _ (twos32_lt corr), toInt32_twos corr h]

/-- ApiVersions replies never use the flexible header (KIP-511), whatever the version. -/
theorem apiversions_header_never_flexible (respFlex : Int → Int → Bool) (v corr : Int) :
    (replyHeader respFlex 18 v corr).length = 4 := by
  rw [response_header_shape]; simp

/-- For every advertised (key, version) the reply is encoded at the request version (the ApiVersions v0
fallback only applies above the advertised maximum) — depends on the regenerated table. -/
theorem advertised_reply_version : ∀ k v, Advertised brokerAdv k v → replyVersion k v = v := by
  have hchk : brokerAdv.all (fun e => e.1 != 18 || decide (e.2.2 ≤ 4)) = true := by decide
  intro k v ⟨e, he, hk, h0, hlo, hhi⟩
  unfold replyVersion apiVersionsReplyVersion
  by_cases h18 : k = 18
  · have := List.all_eq_true.mp hchk e he
    have hne : (e.1 != 18) = false := by simp [hk, h18]
    simp only [hne, Bool.false_or, decide_eq_true_eq] at this
    have : ¬ v > 4 := by omega
    simp [h18, this]
  · simp [h18]

/-! non-vacuity -/
example : Advertised [((3 : Int), (0 : Int), (12 : Int))] 3 9 := ⟨(3, 0, 12), by simp, rfl, by decide, by decide, by decide⟩
example : (replyHeader (fun k v => k == 3 && decide (9 ≤ v)) 3 9 7).length = 5 := by decide
example : (replyHeader (fun k v => k == 3 && decide (9 ≤ v)) 3 8 7).length = 4 := by decide
example : checkAdv [((1 : Int), (11 : Int), (14 : Int))] [1] [(1, -32768, 13)] [(1, 18, 12, 12)] = false := by decide

end KafVerif.C11
