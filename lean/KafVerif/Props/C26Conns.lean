import KafVerif.Model.ProxyConns
import KafVerif.Props.C26
/-!
C26, connection lifecycles: what a wrapped connection reports and delivers depends only on that connection's own bytes
and its own events — whatever other connections are accepted, read or closed (once, twice, …) in between, before or after.

`conn_independent` is the non-interference statement for EVERY interleaved event sequence; `conn_delivers_own_remainder`
reads it together with the single-connection theorems of Props/C26.lean: the header result is `parse` of the connection's
own stream and the bytes delivered are exactly the first `Σ n` bytes of its own remainder (all of it once read to EOF),
for every session in which other connections do anything at all and the connection itself is closed any number of times.
-/
namespace KafVerif.ProxyProto

theorem step_other (st : Conns) (e : Ev) (i : Nat) (h : e.conn ≠ i) : (step st e).1 i = st i := by
  cases e <;> simp only [Ev.conn] at h <;> simp only [step] <;> split <;> (try split) <;>
    simp [setConn, Ne.symm h]

theorem step_local (st st' : Conns) (e : Ev) (i : Nat) (h : e.conn = i) (hs : st i = st' i) :
    (step st e).2 = (step st' e).2 ∧ (step st e).1 i = (step st' e).1 i := by
  cases e <;> simp only [Ev.conn] at h <;> subst h <;> simp only [step] <;> rw [← hs] <;> split <;> (try split) <;>
    simp [setConn, hs]

theorem run_filter (i : Nat) : ∀ (evs : List Ev) (st st' : Conns), st i = st' i →
    (run st evs).filter (fun p => p.1 == i) = run st' (evs.filter (fun e => e.conn == i)) := by
  intro evs
  induction evs with
  | nil => intros; rfl
  | cons e es ih =>
    intro st st' hs
    by_cases h : e.conn = i
    · have hl := step_local st st' e i h hs
      simp only [run, List.filter, h, beq_self_eq_true]
      rw [hl.1, ih _ _ hl.2]
    · have ho := step_other st e i h
      have hb : (e.conn == i) = false := by simpa using h
      simp only [run, List.filter, hb]
      exact ih _ _ (ho.trans hs)

theorem delivered_filter (i : Nat) : ∀ outs : List (Nat × Out),
    delivered i (outs.filter (fun p => p.1 == i)) = delivered i outs := by
  intro outs
  induction outs with
  | nil => rfl
  | cons p rest ih =>
    obtain ⟨j, o⟩ := p
    by_cases h : j = i
    · subst h; cases o <;> simp [List.filter, delivered, ih]
    · have hb : (j == i) = false := by simpa using h
      cases o <;> simp [List.filter, hb, delivered, h, ih]

theorem reported_filter (i : Nat) : ∀ outs : List (Nat × Out),
    reported i (outs.filter (fun p => p.1 == i)) = reported i outs := by
  intro outs
  induction outs with
  | nil => rfl
  | cons p rest ih =>
    obtain ⟨j, o⟩ := p
    by_cases h : j = i
    · subst h; cases o <;> simp [List.filter, reported, ih]
    · have hb : (j == i) = false := by simpa using h
      cases o <;> simp [List.filter, hb, reported, h, ih]

theorem closes_deliver_nothing (i : Nat) : ∀ (k : Nat) (st : Conns),
    delivered i (run st (List.replicate k (Ev.close i))) = [] := by
  intro k
  induction k with
  | zero => intro st; rfl
  | succ k ih =>
    intro st
    simp only [List.replicate, run, step]
    split <;> simp [delivered, ih]

theorem reads_deliver (i : Nat) (tail : List Ev) (ht : ∀ st, delivered i (run st tail) = []) :
    ∀ (ns : List Nat) (st : Conns) (c : Conn), st i = some c → c.closes = 0 →
      delivered i (run st (ns.map (Ev.read i) ++ tail)) = c.pending.take ns.sum := by
  intro ns
  induction ns with
  | nil => intro st c _ _; simpa using ht st
  | cons n ns ih =>
    intro st c hs hc
    simp only [List.map, List.cons_append, run, step, hs, hc, if_true, Ev.conn, delivered, List.sum_cons]
    rw [ih _ { header := c.header, pending := c.pending.drop n, closes := 0 } (by simp [setConn]) rfl]
    exact (List.take_add).symm

end KafVerif.ProxyProto

namespace KafVerif.C26
open KafVerif KafVerif.ProxyProto

/-- (4) Connections do not influence each other: in EVERY session (any interleaving of accepts, reads and — possibly
repeated — closes of any number of connections) the outputs that belong to connection `i` are exactly the outputs of the
session that consists of `i`'s own events alone. -/
theorem conn_independent (evs : List Ev) (i : Nat) :
    (run noConns evs).filter (fun p => p.1 == i) = run noConns (evs.filter (fun e => e.conn == i)) :=
  run_filter i evs noConns noConns rfl

/-- (5) Each wrapped connection reports the parse of ITS OWN stream and delivers exactly ITS OWN remainder: in every session
in which connection `i` is accepted with stream `s`, then read in pieces `ns` and closed `k` times (0, 1, 2, …) — while any
other connections are accepted, read and closed in between — `ReadProxyProtocol` reported `headerOf s` for it and the bytes
it delivered are the first `ns.sum` bytes of `remainderOf s`. -/
theorem conn_delivers_own_remainder (evs : List Ev) (i : Nat) (s : Bytes) (ns : List Nat) (k : Nat)
    (hown : evs.filter (fun e => e.conn == i) = Ev.accept i s :: (ns.map (Ev.read i) ++ List.replicate k (Ev.close i))) :
    reported i (run noConns evs) = some (headerOf s) ∧
    delivered i (run noConns evs) = (remainderOf s).take ns.sum := by
  have hf := conn_independent evs i
  rw [hown] at hf
  rw [← reported_filter, ← delivered_filter, hf]
  simp only [run, step, noConns, Ev.conn, reported, delivered, if_true, true_and]
  exact reads_deliver i _ (closes_deliver_nothing i k) ns
    (setConn (fun _ => none) i { header := headerOf s, pending := remainderOf s, closes := 0 })
    { header := headerOf s, pending := remainderOf s, closes := 0 } (if_pos rfl) rfl

/-- (5') read to EOF: the connection delivers its whole remainder — for an accepted header the bytes after the header,
unchanged (`remainder_suffix`: `s = header ++ rest`). -/
theorem conn_drained_delivers_rest (evs : List Ev) (i : Nat) (s rest : Bytes) (info : Option Info) (ns : List Nat) (k : Nat)
    (hp : parse s = .ok (info, rest)) (hn : rest.length ≤ ns.sum)
    (hown : evs.filter (fun e => e.conn == i) = Ev.accept i s :: (ns.map (Ev.read i) ++ List.replicate k (Ev.close i))) :
    reported i (run noConns evs) = some (.ok info) ∧ delivered i (run noConns evs) = rest ∧ ∃ hdr, s = hdr ++ rest := by
  have h := conn_delivers_own_remainder evs i s ns k hown
  have hr : remainderOf s = rest := by simp [remainderOf, hp]
  have hh : headerOf s = .ok info := by simp [headerOf, hp]
  rw [hr, hh] at h
  exact ⟨h.1, by rw [h.2, List.take_of_length_le hn], remainder_suffix s info rest hp⟩

/-! non-vacuity: two PROXY connections, the first closed twice before the second is accepted, a third one open concurrently -/
def exA : Bytes := encV2 0x21 0x31 [1, 2, 3] ++ [65, 65, 65]
def exB : Bytes := encV2 0x20 0x00 [] ++ [66, 66]
def exEvs : List Ev :=
  [.accept 0 exA, .read 0 2, .close 0, .close 0, .accept 1 exB, .accept 2 [67], .read 2 5, .read 1 1, .read 1 9, .close 2, .close 1]
example : delivered 1 (run noConns exEvs) = [66, 66] ∧ delivered 0 (run noConns exEvs) = [65, 65] ∧
    delivered 2 (run noConns exEvs) = [67] ∧
    exEvs.filter (fun e => e.conn == 1) = Ev.accept 1 exB :: ([1, 9].map (Ev.read 1) ++ List.replicate 1 (Ev.close 1)) := by decide

end KafVerif.C26
