import KafVerif.Model.SqlProxy
/-!
C37 — The SQL proxy forwards only queries whose topics are all allowed.

Statement (properties.jsonl): every query the SQL proxy forwards reads only topics its ACL
allows; the topics are the ones the upstream server would read when executing exactly the
forwarded text; a query is never authorised on a different or truncated text from the one
forwarded.  Quantifier: every query text (any length, joins, explain) and ACL configuration.

* `forward_sound` (full strength): for EVERY parser `P`, lowering, ACL, cache configuration,
  sequence of query texts of any length and every pattern of cache-entry expiries, every text
  the proxy sends upstream is the text the client sent, byte for byte, and the upstream's view
  of exactly that text (`upstreamView`: catalog branch, SET branch, or the topics of `P text`)
  touches only allowed topics (and lists all topics only if the ACL allows SHOW TOPICS).
* `views_agree`: the proxy's view of a text (`proxyView`, modelled from proxy.go) equals the
  upstream's view of the same text (`upstreamView`, modelled from server.go `handleQuery` with its
  entry normalisation `upEntry`); `forward_sound_rel` is `forward_sound` for an arbitrary upstream
  under that agreement; `entry_trim_views_differ`, `regexp_fold_views_differ(_rev)`: an upstream
  that strips a terminator on entry / a proxy whose catalog test folds case like a `(?i)` regexp
  break the agreement and the property.
* `truncation_bypass_old`, `catalog_bypass_old`, `set_catalog_bypass_old`,
  `double_semicolon_bypass_old`: the code before the fix forwards texts whose upstream view is
  not allowed.
-/
namespace KafVerif.SqlProxy
open KafVerif.SqlParser

/-! ### ACL facts -/

theorem matchPatterns_nil (t : Bytes) : matchPatterns [] t = false := rfl

theorem allows_of_empty (a : Acl) (h1 : a.allow.isEmpty = true) (h2 : a.deny.isEmpty = true) (t : Bytes) :
    allows a t = true := by
  have hd : a.deny = [] := List.isEmpty_iff.mp h2
  simp [allows, hd, matchPatterns_nil, h1]

theorem allowShowTopics_of_empty (a : Acl) (h1 : a.allow.isEmpty = true) (h2 : a.deny.isEmpty = true) :
    allowShowTopics a = true := by
  simp [allowShowTopics, h1, h2]

/-! ### the proxy's and the upstream's views of one text -/

/-- **C37 (views).** As coded, the proxy's view of a text (what `authorizeQuery` takes it to
touch) IS the upstream's view of the same text (what `handleQuery` does with it): same catalog
test, same SET/RESET test, same `Parse` on the same bytes; a text the proxy cannot parse is one
the upstream cannot parse either (it reads nothing). -/
theorem _root_.KafVerif.C37.views_agree (e : Env) (q : Bytes) :
    (proxyView e q).getD ([], false) = upstreamView e q := by
  have h1 : pxCatalog e.lowerU q = upCatalog e.lowerU q := rfl
  have h2 : pxSet e.lowerU q = upSet e.lowerU q := rfl
  simp only [proxyView, proxyViewG, upstreamView, upstreamViewG, upEntry, h1, h2]
  by_cases hc : upCatalog e.lowerU q = true
  · simp [hc]
  · by_cases hs : upSet e.lowerU q = true
    · simp [hc, hs]
    · cases hP : e.P q <;> simp [hc, hs]

/-- … in particular the topic lists agree -/
theorem _root_.KafVerif.C37.topics_agree (e : Env) (q : Bytes) : proxyTopics e q = upstreamTopics e q := by
  simp only [proxyTopics, upstreamTopics, KafVerif.C37.views_agree]

/-! ### the decision is sound for the text it was computed on -/

/-- the decision is sound for the PROXY's view of the text (any lowering in the catalog test) -/
theorem authorizeG_view (lowCat : Bytes → Bytes) (e : Env) (a : Acl) (q : Bytes)
    (h : authorizeG lowCat e a q = true) : Safe a ((proxyViewG lowCat e q).getD ([], false)) := by
  unfold authorizeG at h
  split at h
  · -- no ACL configured: everything is allowed
    rename_i hempty
    simp only [Bool.and_eq_true] at hempty
    exact ⟨fun t _ => allows_of_empty a hempty.1 hempty.2 t, fun _ => allowShowTopics_of_empty a hempty.1 hempty.2⟩
  · split at h
    · rename_i hcat
      simp only [proxyViewG, hcat, if_true, Option.getD_some]
      exact ⟨fun t ht => by simp at ht, fun _ => h⟩
    · rename_i hcat
      split at h
      · rename_i hset
        simp only [proxyViewG, hcat, hset, if_true]
        exact ⟨fun t ht => by simp at ht, fun hf => by simp at hf⟩
      · rename_i hset
        simp only [proxyViewG, hcat, hset]
        split at h
        · simp at h
        · rename_i topics showTopics hP
          simp only [Bool.false_eq_true, if_false, hP, Option.getD_some]
          split at h
          · simp at h
          · rename_i hshow
            refine ⟨fun t ht => (List.all_eq_true.mp h) t ht, fun hs => ?_⟩
            simp only at hs
            cases hst : allowShowTopics a with
            | true => rfl
            | false => simp [hs, hst] at hshow

/-- **assume/guarantee form.** Whatever the upstream is (`U` = the topics it reads / whether it
lists, per received text): if the proxy's view of `q` agrees with it, a positive decision on `q` is
safe for what the upstream does with `q`. -/
theorem _root_.KafVerif.C37.authorize_sound_rel (U : Bytes → List Bytes × Bool) (lowCat : Bytes → Bytes)
    (e : Env) (a : Acl) (q : Bytes) (hU : (proxyViewG lowCat e q).getD ([], false) = U q)
    (h : authorizeG lowCat e a q = true) : Safe a (U q) := by
  rw [← hU]; exact authorizeG_view lowCat e a q h

theorem authorize_sound (e : Env) (a : Acl) (q : Bytes) (h : authorize e a q = true) :
    Safe a (upstreamView e q) :=
  KafVerif.C37.authorize_sound_rel (upstreamView e) e.lowerU e a q (KafVerif.C37.views_agree e q) h

/-! ### the cache only ever holds decisions computed on its key -/

def CacheOK (e : Env) (a : Acl) (c : Cache) : Prop := ∀ en ∈ c.entries, en.2 = authorize e a en.1

theorem mem_evict {max n : Nat} {l : List (Bytes × Bool)} {x : Bytes × Bool} (h : x ∈ evict max n l) : x ∈ l := by
  induction n generalizing l with
  | zero => simpa [evict] using h
  | succ n ih =>
    unfold evict at h
    split at h
    · exact List.mem_of_mem_tail (ih h)
    · exact h

theorem cacheGet_ok (e : Env) (a : Acl) (c : Cache) (key : Bytes) (ex : Bool) (h : CacheOK e a c) :
    CacheOK e a (cacheGet c key ex).1 ∧ ∀ d, (cacheGet c key ex).2 = some d → d = authorize e a key := by
  unfold cacheGet
  split
  · exact ⟨h, fun d hd => by simp at hd⟩
  · split
    · exact ⟨h, fun d hd => by simp at hd⟩
    · rename_i en hfind
      split
      · refine ⟨fun x hx => h x (List.mem_filter.mp hx).1, fun d hd => by simp at hd⟩
      · refine ⟨h, fun d hd => ?_⟩
        simp only [Option.some.injEq] at hd
        have hmem := List.mem_of_find?_eq_some hfind
        have hkey := List.find?_some hfind
        simp only [beq_iff_eq] at hkey
        rw [← hd, ← hkey]
        exact h en hmem

theorem cacheSet_ok (e : Env) (a : Acl) (c : Cache) (key : Bytes) (h : CacheOK e a c) :
    CacheOK e a (cacheSet c key (authorize e a key)) := by
  unfold cacheSet
  split
  · exact h
  · intro x hx
    have := mem_evict hx
    rcases List.mem_append.mp this with h1 | h1
    · exact h x (List.mem_filter.mp h1).1
    · simp only [List.mem_singleton] at h1
      rw [h1]

/-- one query: the forwarded text is the client's text and is safe; the cache invariant is kept -/
theorem handle_sound (U : Bytes → List Bytes × Bool) (e : Env) (a : Acl)
    (hU : ∀ q, (proxyView e q).getD ([], false) = U q)
    (c : Cache) (q : Bytes) (ex : Bool) (h : CacheOK e a c) :
    CacheOK e a (handle e a c q ex).1 ∧
    ∀ t, (handle e a c q ex).2 = some t → t = q ∧ Safe a (U t) := by
  have authorize_sound : ∀ q, authorize e a q = true → Safe a (U q) := fun q hq =>
    KafVerif.C37.authorize_sound_rel U e.lowerU e a q (hU q) hq
  have hg := cacheGet_ok e a c q ex h
  unfold handle
  cases hget : cacheGet c q ex with
  | mk c1 hit =>
    rw [hget] at hg
    cases hit with
    | some d =>
      have hd := hg.2 d rfl
      simp only []
      refine ⟨hg.1, fun t ht => ?_⟩
      cases d with
      | false => simp at ht
      | true =>
        simp only [if_true, Option.some.injEq] at ht
        subst ht
        exact ⟨rfl, authorize_sound _ hd.symm⟩
    | none =>
      simp only []
      refine ⟨cacheSet_ok e a _ q hg.1, fun t ht => ?_⟩
      cases hd : authorize e a q with
      | false => simp [hd] at ht
      | true =>
        simp only [hd, if_true, Option.some.injEq] at ht
        subst ht
        exact ⟨rfl, authorize_sound _ hd⟩

/-- a connection: the queries with the expiry outcome of their cache look-up -/
def run (e : Env) (a : Acl) : Cache → List (Bytes × Bool) → List (Bytes × Option Bytes)
  | _, [] => []
  | c, (q, ex) :: rest =>
    let r := handle e a c q ex
    (q, r.2) :: run e a r.1 rest

theorem run_sound (U : Bytes → List Bytes × Bool) (e : Env) (a : Acl)
    (hU : ∀ q, (proxyView e q).getD ([], false) = U q) (ops : List (Bytes × Bool)) :
    ∀ (c : Cache), CacheOK e a c →
      ∀ q t, (q, some t) ∈ run e a c ops → t = q ∧ Safe a (U t) := by
  induction ops with
  | nil => intro c _ q t h; simp [run] at h
  | cons op rest ih =>
    intro c hc q t h
    obtain ⟨q0, ex⟩ := op
    have hs := handle_sound U e a hU c q0 ex hc
    simp only [run, List.mem_cons, Prod.mk.injEq] at h
    rcases h with ⟨hq, ht⟩ | h
    · subst hq
      exact hs.2 t ht.symm
    · exact ih _ hs.1 q t h

/-- **C37.** For every parser, ACL, cache size, sequence of query texts and expiry pattern:
whatever the proxy forwards is the client's text, unchanged, and the upstream's view of exactly
that text is allowed by the ACL. -/
theorem _root_.KafVerif.C37.forward_sound (e : Env) (a : Acl) (enabled : Bool) (max : Nat)
    (ops : List (Bytes × Bool)) (q t : Bytes)
    (h : (q, some t) ∈ run e a ⟨enabled, max, []⟩ ops) :
    t = q ∧ Safe a (upstreamView e t) :=
  run_sound (upstreamView e) e a (KafVerif.C37.views_agree e) ops ⟨enabled, max, []⟩ (fun en hen => by simp at hen) q t h

/-- **C37, assume/guarantee form.** The same for ANY upstream `U` (topics read / listing, per
received text) on which the proxy's view agrees: the proxy is sound exactly as far as
`views_agree` holds for the upstream it is put in front of.  (`entry_trim_views_differ` and
`regexp_fold_views_differ` are two upstream/proxy pairs for which it does not.) -/
theorem _root_.KafVerif.C37.forward_sound_rel (U : Bytes → List Bytes × Bool) (e : Env) (a : Acl)
    (hU : ∀ q, (proxyView e q).getD ([], false) = U q) (enabled : Bool) (max : Nat)
    (ops : List (Bytes × Bool)) (q t : Bytes)
    (h : (q, some t) ∈ run e a ⟨enabled, max, []⟩ ops) :
    t = q ∧ Safe a (U t) :=
  run_sound U e a hU ops ⟨enabled, max, []⟩ (fun en hen => by simp at hen) q t h

/-- the decision function alone (what `authorizeQuery` returns for the forwarded text) -/
theorem _root_.KafVerif.C37.authorize_sound (e : Env) (a : Acl) (q : Bytes) (h : authorize e a q = true) :
    Safe a (upstreamView e q) := KafVerif.SqlProxy.authorize_sound e a q h


/-- **C37 (cache key).** A cache hit is always for the byte-identical text: the decision that is
reused was stored under exactly the text now being forwarded (no normalisation, no case folding). -/
theorem _root_.KafVerif.C37.cache_hit_exact_text (c : Cache) (key : Bytes) (ex : Bool) (d : Bool)
    (h : (cacheGet c key ex).2 = some d) : (key, d) ∈ c.entries := by
  unfold cacheGet at h
  split at h
  · simp at h
  · split at h
    · simp at h
    · rename_i en hfind
      split at h
      · simp at h
      · simp only [Option.some.injEq] at h
        have hmem := List.mem_of_find?_eq_some hfind
        have hkey := List.find?_some hfind
        simp only [beq_iff_eq] at hkey
        have : en = (key, d) := by
          cases en; simp only at hkey h; simp [hkey, h]
        rw [← this]; exact hmem

/-- … and `handle` looks the cache up under the text itself -/
theorem handle_key_is_text (e : Env) (a : Acl) (c : Cache) (q : Bytes) (ex : Bool) (d : Bool)
    (h : (cacheGet c q ex).2 = some d) :
    (handle e a c q ex).2 = (if d then some q else none) ∧ (q, d) ∈ c.entries := by
  refine ⟨?_, KafVerif.C37.cache_hit_exact_text c q ex d h⟩
  unfold handle
  cases hget : cacheGet c q ex with
  | mk c1 hit =>
    rw [hget] at h
    simp only at h
    subst h
    rfl

/-! ### the code before the fix -/

/-- a toy parser: the statement's only topic is its last byte -/
def lastByteEnv : Env := { P := fun q => some ([q.getLast?.toList], false), lowerU := id }

def longQuery : Bytes := List.replicate 512 97 ++ [122]     -- 512 × 'a', then 'z'

set_option maxRecDepth 100000 in
/-- authorised on the 512-byte truncation (whose topic is '.', allowed), forwarded in full
(topic 'z', denied) -/
theorem _root_.KafVerif.C37.truncation_bypass_old :
    ∃ (e : Env) (a : Acl) (q : Bytes),
      (handleOld e a ⟨false, 0, []⟩ q false).2 = some q ∧ ¬ Safe a (upstreamView e q) := by
  refine ⟨lastByteEnv, ⟨[[46]], []⟩, longQuery, by decide, ?_⟩
  intro h
  have := h.1 [122] (by decide)
  revert this; decide

def aclOrders : Acl := ⟨[str "orders"], []⟩

set_option maxRecDepth 100000 in
/-- a catalog keyword in alias position: the proxy authorises topic `orders`, the upstream
answers from its catalog of all topics -/
theorem _root_.KafVerif.C37.catalog_bypass_old :
    (handleOld modelEnv aclOrders ⟨false, 0, []⟩ (str "select * from orders pg_catalog.pg_tables") false).2
      = some (str "select * from orders pg_catalog.pg_tables") ∧
    ¬ Safe aclOrders (upstreamView modelEnv (str "select * from orders pg_catalog.pg_tables")) := by
  refine ⟨by decide, ?_⟩
  intro h
  have := h.2 (by decide)
  revert this; decide

set_option maxRecDepth 100000 in
/-- SET is passed unchecked, but the upstream looks for catalog names first -/
theorem _root_.KafVerif.C37.set_catalog_bypass_old :
    authorizeOld modelEnv aclOrders (str "set a = information_schema.tables") = true ∧
    ¬ Safe aclOrders (upstreamView modelEnv (str "set a = information_schema.tables")) := by
  refine ⟨by decide, ?_⟩
  intro h
  have := h.2 (by decide)
  revert this; decide

set_option maxRecDepth 100000 in
/-- the proxy strips a ';' before parsing, the upstream parses the text as sent: different topics -/
theorem _root_.KafVerif.C37.double_semicolon_bypass_old :
    authorizeOld modelEnv aclOrders (str "select * from orders;;") = true ∧
    ¬ Safe aclOrders (upstreamView modelEnv (str "select * from orders;;")) := by
  refine ⟨by decide, ?_⟩
  intro h
  have := h.1 (str "orders;") (by decide)
  revert this; decide

/-! ### where the two views provably differ -/

/-- the upstream entry normalisation `strings.TrimSuffix(strings.TrimSpace(query), ";")`
(`Parse` strips one more `;`) -/
def upEntryTrim (q : Bytes) : Bytes := trimSemi (trimSpace q)

def aclDenySecret : Acl := ⟨[], [str "secret"]⟩
def qShowSemi : Bytes := str "show partitions from secret;;"

set_option maxRecDepth 100000 in
/-- an upstream that strips one terminator on entry reads topic `secret` for `… secret;;` while the
proxy (unchanged) authorises topic `secret;`: the views differ and the forwarded text is unsafe -/
theorem _root_.KafVerif.C37.entry_trim_views_differ :
    proxyView goEnv qShowSemi = some ([str "secret;"], false) ∧
    upstreamViewG upEntryTrim goEnv qShowSemi = ([str "secret"], false) ∧
    authorize goEnv aclDenySecret qShowSemi = true ∧
    ¬ Safe aclDenySecret (upstreamViewG upEntryTrim goEnv qShowSemi) := by
  refine ⟨by decide, by decide, by decide, ?_⟩
  intro h
  have := h.1 (str "secret") (by decide)
  revert this; decide

/-- `select * from orders İnformation_schema.tables` (U+0130 = `C4 B0`) -/
def qDotI : Bytes := str "select * from orders " ++ [0xC4, 0xB0] ++ str "nformation_schema.tables"

set_option maxRecDepth 100000 in
/-- a proxy whose catalog test folds case like a `(?i)` regexp does not see `İnformation_schema`;
the upstream's `strings.ToLower` does: authorised as a select on `orders`, answered from the
catalog of all topics -/
theorem _root_.KafVerif.C37.regexp_fold_views_differ :
    proxyViewG lowerRegexpFold goEnv qDotI = some ([str "orders"], false) ∧
    upstreamView goEnv qDotI = ([], true) ∧
    authorizeG lowerRegexpFold goEnv aclOrders qDotI = true ∧
    ¬ Safe aclOrders (upstreamView goEnv qDotI) := by
  refine ⟨by decide, by decide, by decide, ?_⟩
  intro h
  have := h.2 (by decide)
  revert this; decide

/-- `select * from secret information_ſchema.tables` (U+017F = `C5 BF`) -/
def qLongS : Bytes := str "select * from secret information_" ++ [0xC5, 0xBF] ++ str "chema.tables"
def aclOneChar : Acl := ⟨[str "?"], []⟩

set_option maxRecDepth 100000 in
/-- … and the other way round: the regexp folds `ſ` onto `s`, `strings.ToLower` does not — the
proxy takes the text for a catalog query (allowed: the pattern `?` matches `*`), the upstream
selects from `secret` -/
theorem _root_.KafVerif.C37.regexp_fold_views_differ_rev :
    proxyViewG lowerRegexpFold goEnv qLongS = some ([], true) ∧
    upstreamView goEnv qLongS = ([str "secret"], false) ∧
    authorizeG lowerRegexpFold goEnv aclOneChar qLongS = true ∧
    ¬ Safe aclOneChar (upstreamView goEnv qLongS) := by
  refine ⟨by decide, by decide, by decide, ?_⟩
  intro h
  have := h.1 (str "secret") (by decide)
  revert this; decide

/-- on ASCII text the modelled `strings.ToLower` is the ASCII lowering -/
theorem _root_.KafVerif.C37.lowerGo_ascii (s : Bytes) (h : ∀ b ∈ s, b < 128) : lowerGo s = asciiLower s := by
  fun_induction lowerGo s with
  | case1 t ih => exact absurd (h 0xC4 (by simp)) (by decide)
  | case2 t ih => exact absurd (h 0xE2 (by simp)) (by decide)
  | case3 c t h1 h2 ih =>
    have := ih (fun b hb => h b (List.mem_cons_of_mem _ hb))
    simp [asciiLower] at this ⊢
    exact this
  | case4 => rfl

/-! ### ACL patterns: classes, escapes, malformed patterns, blank entries (seeded changes C37-r3-1, C37-r3-2) -/

/-- a pattern made only of a character class IS a glob: deny `audit-[0-9]` denies `audit-7` (not `audit-x`), also under an allow
list that covers it; negation, escapes inside a class and a backslash escape outside work as in `path.Match` -/
theorem _root_.KafVerif.C37.class_pattern_is_glob :
    allows ⟨[], [str "audit-[0-9]"]⟩ (str "audit-7") = false ∧
    allows ⟨[str "audit-*"], [str "audit-[0-9]"]⟩ (str "audit-3") = false ∧
    allows ⟨[str "audit-*"], [str "audit-[0-9]"]⟩ (str "audit-x") = true ∧
    allows ⟨[str "audit-[^0-9]"], []⟩ (str "audit-7") = false ∧
    allows ⟨[str "audit-[^0-9]"], []⟩ (str "audit-x") = true ∧
    allows ⟨[], [str "audit-\\7"]⟩ (str "audit-7") = false ∧
    allows ⟨[str "audit-[\\0-\\9]"], []⟩ (str "audit-7") = true ∧
    allowShowTopics ⟨[str "[*]"], []⟩ = true := by decide

/-- a malformed pattern (`ErrBadPattern`) matches no topic except the one spelled like the pattern itself (the `pattern == topic`
fall-back of `matchPatterns`) -/
theorem _root_.KafVerif.C37.bad_pattern_matches_only_itself :
    pathMatch (str "audit-[") (str "audit-7") = none ∧ pathMatch (str "orders\\") (str "orders") = none ∧
    matchPatterns [str "audit-["] (str "audit-7") = false ∧ matchPatterns [str "[orders"] (str "[orders") = true ∧
    allows ⟨[str "[orders", str "t"], []⟩ (str "orders") = false := by decide

/-- `matchPatterns` with the "plain topic name" fast path of seeded change C37-r3-1: a pattern without `*` and `?` is compared
literally and `path.Match` is skipped -/
def matchPatternsFast (patterns : List Bytes) (topic : Bytes) : Bool :=
  patterns.any fun pattern =>
    let p := trimSpace pattern
    !p.isEmpty && (p == [42] ||
      (if p.contains 42 || p.contains 63 then globMatch p topic || p == topic else p == topic))

/-- … which is NOT the same function: it un-denies a topic -/
theorem _root_.KafVerif.C37.literal_fast_path_differs :
    ∃ ps t, matchPatterns ps t = true ∧ matchPatternsFast ps t = false :=
  ⟨[str "audit-[0-9]"], str "audit-7", by decide, by decide⟩

/-- a list of blank entries matches nothing -/
theorem matchPatterns_blank (ps : List Bytes) (h : ∀ p ∈ ps, trimSpace p = []) (t : Bytes) :
    matchPatterns ps t = false := by
  simp only [matchPatterns, List.any_eq_false]
  intro p hp
  simp [h p hp]

/-- **fail closed.** An allow list that is configured (non-empty) but holds only blank entries allows NO topic and no listing,
whatever the deny list is (`proxy.New` passes the configured lists on unchanged: `len(a.Allow) == 0` is asked of the list as
configured) -/
theorem _root_.KafVerif.C37.blank_allow_fails_closed (a : Acl) (hne : a.allow ≠ [])
    (hb : ∀ p ∈ a.allow, trimSpace p = []) :
    (∀ t, allows a t = false) ∧ allowShowTopics a = false := by
  have he : a.allow.isEmpty = false := by cases h : a.allow <;> simp_all
  refine ⟨fun t => ?_, ?_⟩
  · unfold allows; split
    · rfl
    · simp [he, matchPatterns_blank a.allow hb t]
  · unfold allowShowTopics; split
    · rfl
    · simp [he, matchPatterns_blank a.allow hb [42]]

/-- a configured deny list — blank entries or not — forbids listing all topics -/
theorem _root_.KafVerif.C37.nonempty_deny_forbids_listing (a : Acl) (hne : a.deny ≠ []) : allowShowTopics a = false := by
  have he : a.deny.isEmpty = false := by cases h : a.deny <;> simp_all
  simp [allowShowTopics, he]

/-- … hence, with such an allow list, whatever the proxy forwards makes the upstream touch no topic at all -/
theorem _root_.KafVerif.C37.blank_allow_forwards_nothing (e : Env) (a : Acl) (hne : a.allow ≠ [])
    (hb : ∀ p ∈ a.allow, trimSpace p = []) (enabled : Bool) (max : Nat) (ops : List (Bytes × Bool)) (q t : Bytes)
    (h : (q, some t) ∈ run e a ⟨enabled, max, []⟩ ops) : upstreamView e t = ([], false) := by
  have hs := (KafVerif.C37.forward_sound e a enabled max ops q t h).2
  have hc := KafVerif.C37.blank_allow_fails_closed a hne hb
  have h1 : (upstreamView e t).1 = [] := by
    cases hts : (upstreamView e t).1 with
    | nil => rfl
    | cons x xs => have := hs.1 x (by simp [hts]); simp [hc.1 x] at this
  have h2 : (upstreamView e t).2 = false := by
    cases hl : (upstreamView e t).2 with
    | false => rfl
    | true => have := hs.2 hl; simp [hc.2] at this
  exact Prod.ext h1 h2

/-- `cleanPatterns` of seeded change C37-r3-2 (trim, drop blank entries) applied in `proxy.New` -/
def cleanPatterns (ps : List Bytes) : List Bytes := (ps.map trimSpace).filter (fun p => !p.isEmpty)

/-- … turns the fail-closed configuration `allow: [""]` into "no ACL": every topic allowed -/
theorem _root_.KafVerif.C37.dropping_blanks_opens_acl (t : Bytes) :
    allows ⟨[[]], []⟩ t = false ∧ allows ⟨cleanPatterns [[]], cleanPatterns []⟩ t = true ∧
    allowShowTopics ⟨[[]], []⟩ = false ∧ allowShowTopics ⟨cleanPatterns [[]], cleanPatterns []⟩ = true := by
  refine ⟨(KafVerif.C37.blank_allow_fails_closed ⟨[[]], []⟩ (by simp) (by simp [trimSpace, trimLeft, trimRight])).1 t, ?_, by decide, by decide⟩
  simp [cleanPatterns, trimSpace, trimLeft, trimRight, allows, matchPatterns]

/-! ### `path.Match` on plain names -/

/-- no `*`, `?`, `[`, `\\` -/
def Plain (p : Bytes) : Prop := ∀ c ∈ p, c ≠ 42 ∧ c ≠ 63 ∧ c ≠ 91 ∧ c ≠ 92

theorem scanLen_plain (p : Bytes) (h : Plain p) : scanLen false p = p.length := by
  induction p with
  | nil => rfl
  | cons c r ih =>
    have hc := h c (by simp)
    have hr : Plain r := fun x hx => h x (by simp [hx])
    have := ih hr
    unfold scanLen
    split <;> simp_all <;> omega

theorem dropStars_plain (c : UInt8) (r : Bytes) (h : c ≠ 42) : dropStars (c :: r) = (false, c :: r) := by
  unfold dropStars
  split <;> simp_all

theorem matchChunkF_plain (f : Nat) (ch s : Bytes) (failed : Bool) (h : Plain ch) (hf : ch.length < f) :
    matchChunkF f ch s failed = some (if !failed && ch.isPrefixOf s then some (s.drop ch.length) else none) := by
  induction ch generalizing f s failed with
  | nil =>
    cases f with
    | zero => omega
    | succ f => cases failed <;> simp [matchChunkF]
  | cons c r ih =>
    cases f with
    | zero => simp at hf
    | succ f =>
      have hc := h c (by simp)
      have hr : Plain r := fun x hx => h x (by simp [hx])
      have hf' : r.length < f := by simp at hf; omega
      unfold matchChunkF
      simp only [hc.2.2.1, hc.2.1, hc.2.2.2, beq_iff_eq, if_false]
      cases s with
      | nil => simp [ih f [] true hr hf']
      | cons d t =>
        cases failed with
        | true => simp [ih f (d :: t) true hr hf']
        | false =>
          simp [ih f t (c != d) hr hf']

theorem matchChunk_plain (ch s : Bytes) (h : Plain ch) :
    matchChunk ch s = some (if ch.isPrefixOf s then some (s.drop ch.length) else none) := by
  simp [matchChunk, matchChunkF_plain (ch.length + 1) ch s false h (by omega)]

theorem isPrefixOf_drop_nil (p n : Bytes) : (p.isPrefixOf n && (n.drop p.length).isEmpty) = (p == n) := by
  induction p generalizing n with
  | nil => cases n <;> simp
  | cons c r ih =>
    cases n with
    | nil => simp
    | cons d t =>
      simp only [List.isPrefixOf, List.length_cons, List.drop_succ_cons, Bool.and_assoc, ih t]
      simp [List.cons_beq_cons]

/-- **path.Match on a plain name.** A pattern without `*`, `?`, `[`, `\\` matches exactly itself (never `ErrBadPattern`): on
such patterns the literal comparison of seeded change C37-r3-1 is right — the set `{*, ?}` it tests is too small. -/
theorem _root_.KafVerif.C37.pathMatch_plain (p n : Bytes) (h : Plain p) : pathMatch p n = some (p == n) := by
  cases p with
  | nil => cases n <;> simp [pathMatch, pathMatchF]
  | cons c r =>
    have hc := h c (by simp)
    simp only [pathMatch, List.length_cons]
    unfold pathMatchF
    simp only [dropStars_plain c r hc.1, scanLen_plain (c :: r) h, List.take_length, List.drop_length,
      matchChunk_plain (c :: r) n h]
    have key := isPrefixOf_drop_nil (c :: r) n
    rw [← key]
    generalize List.drop (c :: r).length n = t
    cases hp : (c :: r).isPrefixOf n
    · simp [restValid]
    · cases t with
      | nil => simp [pathMatchF]
      | cons x xs => simp [restValid]

/-- … so `matchPatterns` and the fast path of C37-r3-1 agree on lists of plain names -/
theorem _root_.KafVerif.C37.plain_patterns_globMatch (p n : Bytes) (h : Plain p) : globMatch p n = (p == n) := by
  simp [globMatch, KafVerif.C37.pathMatch_plain p n h]

/-! ### non-vacuity -/

set_option maxRecDepth 100000 in
example : (run modelEnv aclOrders ⟨true, 4, []⟩ [(str "select * from orders", false)]) =
    [(str "select * from orders", some (str "select * from orders"))] := by decide

set_option maxRecDepth 100000 in
example : (handle modelEnv aclOrders ⟨true, 4, []⟩ (str "select * from secret") false).2 = none := by decide

end KafVerif.SqlProxy
