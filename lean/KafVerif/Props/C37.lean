import KafVerif.Model.SqlProxy
/-!
C37 — The SQL proxy forwards only queries whose topics are all allowed.

Statement (properties.jsonl): every query the SQL proxy forwards reads only topics its ACL
allows; the topics are the ones the upstream server would read when executing exactly the
forwarded text; a query is never authorised on a different or truncated text from the one
forwarded.  Quantifier: every query text (any length, joins, explain) and ACL configuration.

* `forward_sound` (full strength): for EVERY parser `P`, lowering, ACL, cache configuration,
  sequence of query texts of any length and every pattern of cache-entry expiries, every text
  the proxy sends upstream is the text the client sent, byte for byte, and the upstream's view
  of exactly that text (`upstreamView`: catalog branch, SET branch, or the topics of `P text`)
  touches only allowed topics (and lists all topics only if the ACL allows SHOW TOPICS).
* `truncation_bypass_old`, `catalog_bypass_old`, `set_catalog_bypass_old`,
  `double_semicolon_bypass_old`: the code before the fix forwards texts whose upstream view is
  not allowed.
-/
namespace KafVerif.SqlProxy
open KafVerif.SqlParser

/-! ### ACL facts -/

theorem matchPatterns_nil (t : Bytes) : matchPatterns [] t = false := rfl

theorem allows_of_empty (a : Acl) (h1 : a.allow.isEmpty = true) (h2 : a.deny.isEmpty = true) (t : Bytes) :
    allows a t = true := by
  have hd : a.deny = [] := List.isEmpty_iff.mp h2
  simp [allows, hd, matchPatterns_nil, h1]

theorem allowShowTopics_of_empty (a : Acl) (h1 : a.allow.isEmpty = true) (h2 : a.deny.isEmpty = true) :
    allowShowTopics a = true := by
  simp [allowShowTopics, h1, h2]

/-! ### the decision is sound for the text it was computed on -/

theorem authorize_sound (e : Env) (a : Acl) (q : Bytes) (h : authorize e a q = true) :
    Safe a (upstreamView e q) := by
  unfold authorize at h
  split at h
  · -- no ACL configured: everything is allowed
    rename_i hempty
    simp only [Bool.and_eq_true] at hempty
    exact ⟨fun t _ => allows_of_empty a hempty.1 hempty.2 t, fun _ => allowShowTopics_of_empty a hempty.1 hempty.2⟩
  · split at h
    · rename_i hcat
      simp only [upstreamView, hcat, if_true]
      exact ⟨fun t ht => by simp at ht, fun _ => h⟩
    · rename_i hcat
      split at h
      · rename_i hset
        simp only [upstreamView, hcat, hset, if_true]
        exact ⟨fun t ht => by simp at ht, fun hf => by simp at hf⟩
      · rename_i hset
        simp only [upstreamView, hcat, hset]
        split at h
        · simp at h
        · rename_i topics showTopics hP
          simp only [Bool.false_eq_true, if_false, hP]
          split at h
          · simp at h
          · rename_i hshow
            refine ⟨fun t ht => (List.all_eq_true.mp h) t ht, fun hs => ?_⟩
            simp only at hs
            cases hst : allowShowTopics a with
            | true => rfl
            | false => simp [hs, hst] at hshow

/-! ### the cache only ever holds decisions computed on its key -/

def CacheOK (e : Env) (a : Acl) (c : Cache) : Prop := ∀ en ∈ c.entries, en.2 = authorize e a en.1

theorem mem_evict {max n : Nat} {l : List (Bytes × Bool)} {x : Bytes × Bool} (h : x ∈ evict max n l) : x ∈ l := by
  induction n generalizing l with
  | zero => simpa [evict] using h
  | succ n ih =>
    unfold evict at h
    split at h
    · exact List.mem_of_mem_tail (ih h)
    · exact h

theorem cacheGet_ok (e : Env) (a : Acl) (c : Cache) (key : Bytes) (ex : Bool) (h : CacheOK e a c) :
    CacheOK e a (cacheGet c key ex).1 ∧ ∀ d, (cacheGet c key ex).2 = some d → d = authorize e a key := by
  unfold cacheGet
  split
  · exact ⟨h, fun d hd => by simp at hd⟩
  · split
    · exact ⟨h, fun d hd => by simp at hd⟩
    · rename_i en hfind
      split
      · refine ⟨fun x hx => h x (List.mem_filter.mp hx).1, fun d hd => by simp at hd⟩
      · refine ⟨h, fun d hd => ?_⟩
        simp only [Option.some.injEq] at hd
        have hmem := List.mem_of_find?_eq_some hfind
        have hkey := List.find?_some hfind
        simp only [beq_iff_eq] at hkey
        rw [← hd, ← hkey]
        exact h en hmem

theorem cacheSet_ok (e : Env) (a : Acl) (c : Cache) (key : Bytes) (h : CacheOK e a c) :
    CacheOK e a (cacheSet c key (authorize e a key)) := by
  unfold cacheSet
  split
  · exact h
  · intro x hx
    have := mem_evict hx
    rcases List.mem_append.mp this with h1 | h1
    · exact h x (List.mem_filter.mp h1).1
    · simp only [List.mem_singleton] at h1
      rw [h1]

/-- one query: the forwarded text is the client's text and is safe; the cache invariant is kept -/
theorem handle_sound (e : Env) (a : Acl) (c : Cache) (q : Bytes) (ex : Bool) (h : CacheOK e a c) :
    CacheOK e a (handle e a c q ex).1 ∧
    ∀ t, (handle e a c q ex).2 = some t → t = q ∧ Safe a (upstreamView e t) := by
  have hg := cacheGet_ok e a c q ex h
  unfold handle
  cases hget : cacheGet c q ex with
  | mk c1 hit =>
    rw [hget] at hg
    cases hit with
    | some d =>
      have hd := hg.2 d rfl
      simp only []
      refine ⟨hg.1, fun t ht => ?_⟩
      cases d with
      | false => simp at ht
      | true =>
        simp only [if_true, Option.some.injEq] at ht
        subst ht
        exact ⟨rfl, authorize_sound e a _ hd.symm⟩
    | none =>
      simp only []
      refine ⟨cacheSet_ok e a _ q hg.1, fun t ht => ?_⟩
      cases hd : authorize e a q with
      | false => simp [hd] at ht
      | true =>
        simp only [hd, if_true, Option.some.injEq] at ht
        subst ht
        exact ⟨rfl, authorize_sound e a _ hd⟩

/-- a connection: the queries with the expiry outcome of their cache look-up -/
def run (e : Env) (a : Acl) : Cache → List (Bytes × Bool) → List (Bytes × Option Bytes)
  | _, [] => []
  | c, (q, ex) :: rest =>
    let r := handle e a c q ex
    (q, r.2) :: run e a r.1 rest

theorem run_sound (e : Env) (a : Acl) (ops : List (Bytes × Bool)) :
    ∀ (c : Cache), CacheOK e a c →
      ∀ q t, (q, some t) ∈ run e a c ops → t = q ∧ Safe a (upstreamView e t) := by
  induction ops with
  | nil => intro c _ q t h; simp [run] at h
  | cons op rest ih =>
    intro c hc q t h
    obtain ⟨q0, ex⟩ := op
    have hs := handle_sound e a c q0 ex hc
    simp only [run, List.mem_cons, Prod.mk.injEq] at h
    rcases h with ⟨hq, ht⟩ | h
    · subst hq
      exact hs.2 t ht.symm
    · exact ih _ hs.1 q t h

/-- **C37.** For every parser, ACL, cache size, sequence of query texts and expiry pattern:
whatever the proxy forwards is the client's text, unchanged, and the upstream's view of exactly
that text is allowed by the ACL. -/
theorem _root_.KafVerif.C37.forward_sound (e : Env) (a : Acl) (enabled : Bool) (max : Nat)
    (ops : List (Bytes × Bool)) (q t : Bytes)
    (h : (q, some t) ∈ run e a ⟨enabled, max, []⟩ ops) :
    t = q ∧ Safe a (upstreamView e t) :=
  run_sound e a ops ⟨enabled, max, []⟩ (fun en hen => by simp at hen) q t h

/-- the decision function alone (what `authorizeQuery` returns for the forwarded text) -/
theorem _root_.KafVerif.C37.authorize_sound (e : Env) (a : Acl) (q : Bytes) (h : authorize e a q = true) :
    Safe a (upstreamView e q) := KafVerif.SqlProxy.authorize_sound e a q h


/-- **C37 (cache key).** A cache hit is always for the byte-identical text: the decision that is
reused was stored under exactly the text now being forwarded (no normalisation, no case folding). -/
theorem _root_.KafVerif.C37.cache_hit_exact_text (c : Cache) (key : Bytes) (ex : Bool) (d : Bool)
    (h : (cacheGet c key ex).2 = some d) : (key, d) ∈ c.entries := by
  unfold cacheGet at h
  split at h
  · simp at h
  · split at h
    · simp at h
    · rename_i en hfind
      split at h
      · simp at h
      · simp only [Option.some.injEq] at h
        have hmem := List.mem_of_find?_eq_some hfind
        have hkey := List.find?_some hfind
        simp only [beq_iff_eq] at hkey
        have : en = (key, d) := by
          cases en; simp only at hkey h; simp [hkey, h]
        rw [← this]; exact hmem

/-- … and `handle` looks the cache up under the text itself -/
theorem handle_key_is_text (e : Env) (a : Acl) (c : Cache) (q : Bytes) (ex : Bool) (d : Bool)
    (h : (cacheGet c q ex).2 = some d) :
    (handle e a c q ex).2 = (if d then some q else none) ∧ (q, d) ∈ c.entries := by
  refine ⟨?_, KafVerif.C37.cache_hit_exact_text c q ex d h⟩
  unfold handle
  cases hget : cacheGet c q ex with
  | mk c1 hit =>
    rw [hget] at h
    simp only at h
    subst h
    rfl

/-! ### the code before the fix -/

/-- a toy parser: the statement's only topic is its last byte -/
def lastByteEnv : Env := { P := fun q => some ([q.getLast?.toList], false), lowerU := id }

def longQuery : Bytes := List.replicate 512 97 ++ [122]     -- 512 × 'a', then 'z'

set_option maxRecDepth 100000 in
/-- authorised on the 512-byte truncation (whose topic is '.', allowed), forwarded in full
(topic 'z', denied) -/
theorem _root_.KafVerif.C37.truncation_bypass_old :
    ∃ (e : Env) (a : Acl) (q : Bytes),
      (handleOld e a ⟨false, 0, []⟩ q false).2 = some q ∧ ¬ Safe a (upstreamView e q) := by
  refine ⟨lastByteEnv, ⟨[[46]], []⟩, longQuery, by decide, ?_⟩
  intro h
  have := h.1 [122] (by decide)
  revert this; decide

def aclOrders : Acl := ⟨[str "orders"], []⟩

set_option maxRecDepth 100000 in
/-- a catalog keyword in alias position: the proxy authorises topic `orders`, the upstream
answers from its catalog of all topics -/
theorem _root_.KafVerif.C37.catalog_bypass_old :
    (handleOld modelEnv aclOrders ⟨false, 0, []⟩ (str "select * from orders pg_catalog.pg_tables") false).2
      = some (str "select * from orders pg_catalog.pg_tables") ∧
    ¬ Safe aclOrders (upstreamView modelEnv (str "select * from orders pg_catalog.pg_tables")) := by
  refine ⟨by decide, ?_⟩
  intro h
  have := h.2 (by decide)
  revert this; decide

set_option maxRecDepth 100000 in
/-- SET is passed unchecked, but the upstream looks for catalog names first -/
theorem _root_.KafVerif.C37.set_catalog_bypass_old :
    authorizeOld modelEnv aclOrders (str "set a = information_schema.tables") = true ∧
    ¬ Safe aclOrders (upstreamView modelEnv (str "set a = information_schema.tables")) := by
  refine ⟨by decide, ?_⟩
  intro h
  have := h.2 (by decide)
  revert this; decide

set_option maxRecDepth 100000 in
/-- the proxy strips a ';' before parsing, the upstream parses the text as sent: different topics -/
theorem _root_.KafVerif.C37.double_semicolon_bypass_old :
    authorizeOld modelEnv aclOrders (str "select * from orders;;") = true ∧
    ¬ Safe aclOrders (upstreamView modelEnv (str "select * from orders;;")) := by
  refine ⟨by decide, ?_⟩
  intro h
  have := h.1 (str "orders;") (by decide)
  revert this; decide

/-! ### non-vacuity -/

set_option maxRecDepth 100000 in
example : (run modelEnv aclOrders ⟨true, 4, []⟩ [(str "select * from orders", false)]) =
    [(str "select * from orders", some (str "select * from orders"))] := by decide

set_option maxRecDepth 100000 in
example : (handle modelEnv aclOrders ⟨true, 4, []⟩ (str "select * from secret") false).2 = none := by decide

end KafVerif.SqlProxy
