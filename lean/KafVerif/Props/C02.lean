import KafVerif.Model.PLogRead
import KafVerif.Lemmas.RecBatchBytes
/-!
C02 — Offsets are unique, contiguous and increasing per partition.

Statement (properties.jsonl): the offsets the broker assigns in a partition are unique, strictly
increasing in append order, and leave no gaps between successive acknowledged batches; the base
offset in each produce response equals the first offset of that batch in the stored log; for any
well-formed or malformed record batch a client sends, across flushes and broker restarts.

Theorems (all for EVERY start offset, configuration and operation list — induction over the list):

* `offsets_chain`         in every reachable state the stored log (committed segments, in-flight
                          flush batches, write buffer — in that order) is a *chain*: the first
                          batch starts at the start offset, every batch has `base ≤ last`, each
                          next batch starts at `last + 1`, and `nextOffset` is one past the end;
                          segment (base, last) metadata agrees with the batches inside.
* `chain_strict`, `chain_covers`, `chain_unique`
                          a chain has strictly increasing, pairwise disjoint offset ranges, and every
                          offset between start and end lies in exactly one batch (no gap, no overlap).
* `response_is_stored_base`  an acknowledged append returns `base = nextOffset` before, `last = base+Δ`,
                          stores the batch with that base in the struct *and* in bytes 0:8.
* `rejected_unchanged`    a rejected record set changes nothing.
* `stored_is_one_frame`, `frames_body`
                          an accepted record set with a declared length is stored as exactly one frame;
                          walking the stored log by frames (what a consumer does) yields exactly the
                          assigned (base, delta) pairs — a concatenated second batch cannot hide inside.
* `appendOld_violates`, `appendOld_concat_violates`
                          the code before the fix breaks the chain (deltas −1, 0, −5, 0 ↦ bases 0, 0, 1, −3)
                          and stores a second frame with a client-chosen base.

Not covered: int64 overflow of assigned offsets (`Int` is unbounded; `response_is_stored_base`'s
byte clause needs the base within int64), upload failures (C01/C05), a restart while an upload
is in flight (C06).
-/
namespace KafVerif.PLog
open KafVerif KafVerif.RecBatch

/-! ### chains -/

/-- `Chain s bs e`: the batches cover `[s, e)` contiguously, in order, each with `base ≤ last`. -/
def Chain : Int → List Batch → Int → Prop
  | s, [], e => s = e
  | s, b :: t, e => b.base = s ∧ 0 ≤ b.lod ∧ Chain (b.base + b.lod + 1) t e

theorem chain_append {s e : Int} {a b : List Batch} :
    Chain s (a ++ b) e ↔ ∃ m, Chain s a m ∧ Chain m b e := by
  induction a generalizing s with
  | nil => simp [Chain]
  | cons x t ih =>
    simp only [List.cons_append, Chain, ih]
    constructor
    · rintro ⟨h1, h2, m, h3, h4⟩; exact ⟨m, ⟨h1, h2, h3⟩, h4⟩
    · rintro ⟨m, ⟨h1, h2, h3⟩, h4⟩; exact ⟨h1, h2, m, h3, h4⟩

theorem chain_le {s e : Int} {bs : List Batch} (h : Chain s bs e) : s ≤ e := by
  induction bs generalizing s with
  | nil => simp [Chain] at h; omega
  | cons b t ih =>
    obtain ⟨h1, h2, h3⟩ := h
    have := ih h3; omega

theorem chain_lt {s e : Int} {bs : List Batch} (h : Chain s bs e) (hne : bs ≠ []) : s < e := by
  cases bs with
  | nil => exact absurd rfl hne
  | cons b t =>
    obtain ⟨h1, h2, h3⟩ := h
    have := chain_le h3; omega

theorem chain_end {s e : Int} {bs : List Batch} {b : Batch} (h : Chain s bs e)
    (hl : bs.getLast? = some b) : e = b.base + b.lod + 1 := by
  induction bs generalizing s with
  | nil => simp at hl
  | cons x t ih =>
    obtain ⟨h1, h2, h3⟩ := h
    cases t with
    | nil =>
      simp at hl; subst hl
      simp [Chain] at h3; omega
    | cons y t' =>
      rw [List.getLast?_cons_cons] at hl
      exact ih h3 hl

/-- **C02 (strictly increasing, disjoint).** In a chain every batch has `base ≤ last`, lies inside
`[s, e)`, and every later batch starts after every earlier batch's last offset. -/
theorem _root_.KafVerif.C02.chain_strict {s e : Int} {bs : List Batch} (h : Chain s bs e) :
    (∀ b ∈ bs, s ≤ b.base ∧ b.base ≤ b.last ∧ b.last < e) ∧
    bs.Pairwise (fun a b => a.last < b.base) := by
  induction bs generalizing s with
  | nil => simp
  | cons x t ih =>
    obtain ⟨h1, h2, h3⟩ := h
    obtain ⟨ih1, ih2⟩ := ih h3
    have hle := chain_le h3
    refine ⟨?_, ?_⟩
    · intro b hb
      simp only [List.mem_cons] at hb
      rcases hb with rfl | hb
      · simp only [Batch.last]; omega
      · have := ih1 b hb; simp only [Batch.last] at *; omega
    · refine List.pairwise_cons.mpr ⟨?_, ih2⟩
      intro b hb
      have := ih1 b hb
      simp only [Batch.last] at *; omega

/-- **C02 (no gaps).** Every offset in `[s, e)` lies in some batch of the chain. -/
theorem _root_.KafVerif.C02.chain_covers {s e : Int} {bs : List Batch} (h : Chain s bs e)
    (o : Int) (h1 : s ≤ o) (h2 : o < e) : ∃ b ∈ bs, b.base ≤ o ∧ o ≤ b.last := by
  induction bs generalizing s with
  | nil => simp [Chain] at h; omega
  | cons x t ih =>
    obtain ⟨hb, hl, ht⟩ := h
    by_cases hx : o ≤ x.base + x.lod
    · exact ⟨x, by simp, by omega, by simp only [Batch.last]; omega⟩
    · obtain ⟨b, hm, hh⟩ := ih ht (by omega)
      exact ⟨b, by simp [hm], hh⟩

/-- **C02 (unique).** An offset lies in at most one batch of a chain (by position in the list). -/
theorem _root_.KafVerif.C02.chain_unique {s e : Int} {bs : List Batch} (h : Chain s bs e)
    (i j : Nat) (hi : i < bs.length) (hj : j < bs.length) (o : Int)
    (h1 : bs[i].base ≤ o ∧ o ≤ bs[i].last) (h2 : bs[j].base ≤ o ∧ o ≤ bs[j].last) : i = j := by
  have hp := (KafVerif.C02.chain_strict h).2
  rcases Nat.lt_trichotomy i j with hlt | heq | hgt
  · have := List.pairwise_iff_getElem.mp hp i j hi hj hlt; omega
  · exact heq
  · have := List.pairwise_iff_getElem.mp hp j i hj hi hgt; omega

/-! ### segments -/

def segBatches (ss : List Seg) : List Batch := (ss.map (·.batches)).flatten

/-- `SegChain s segs e`: consecutive committed segments, each non-empty, whose `(base, last)`
metadata is the first base / last offset of the batches inside. -/
def SegChain : Int → List Seg → Int → Prop
  | s, [], e => s = e
  | s, g :: t, e => g.batches ≠ [] ∧ g.base = s ∧ Chain s g.batches (g.last + 1) ∧ SegChain (g.last + 1) t e

theorem segchain_append {s e : Int} {a b : List Seg} :
    SegChain s (a ++ b) e ↔ ∃ m, SegChain s a m ∧ SegChain m b e := by
  induction a generalizing s with
  | nil => simp [SegChain]
  | cons x t ih =>
    simp only [List.cons_append, SegChain, ih]
    constructor
    · rintro ⟨h1, h2, h3, m, h4, h5⟩; exact ⟨m, ⟨h1, h2, h3, h4⟩, h5⟩
    · rintro ⟨m, ⟨h1, h2, h3, h4⟩, h5⟩; exact ⟨h1, h2, h3, m, h4, h5⟩

theorem segchain_chain {s e : Int} {ss : List Seg} (h : SegChain s ss e) : Chain s (segBatches ss) e := by
  induction ss generalizing s with
  | nil => simpa [SegChain, segBatches, Chain] using h
  | cons g t ih =>
    obtain ⟨_, _, h3, h4⟩ := h
    simp only [segBatches, List.map_cons, List.flatten_cons]
    exact chain_append.mpr ⟨_, h3, ih h4⟩

theorem segchain_bases {s e : Int} {ss : List Seg} (h : SegChain s ss e) :
    ∀ g ∈ ss, s ≤ g.base ∧ g.base < e := by
  induction ss generalizing s with
  | nil => simp
  | cons g t ih =>
    obtain ⟨h1, h2, h3, h4⟩ := h
    have hlt := chain_lt h3 h1
    have hle : g.last + 1 ≤ e := chain_le (segchain_chain h4)
    intro x hx
    simp only [List.mem_cons] at hx
    rcases hx with rfl | hx
    · omega
    · have := ih h4 x hx; omega

theorem segchain_end {s e : Int} {ss : List Seg} {g : Seg} (h : SegChain s ss e)
    (hl : ss.getLast? = some g) : e = g.last + 1 := by
  induction ss generalizing s with
  | nil => simp at hl
  | cons x t ih =>
    obtain ⟨_, _, _, h4⟩ := h
    cases t with
    | nil => simp at hl; subst hl; simpa [SegChain] using h4.symm
    | cons y t' => rw [List.getLast?_cons_cons] at hl; exact ih h4 hl

theorem sortSegs_id {s e : Int} {ss : List Seg} (h : SegChain s ss e) : sortSegs ss = ss := by
  induction ss generalizing s with
  | nil => rfl
  | cons g t ih =>
    obtain ⟨h1, h2, h3, h4⟩ := h
    have : sortSegs (g :: t) = insertSeg g (sortSegs t) := rfl
    rw [this, ih h4]
    cases t with
    | nil => rfl
    | cons x t' =>
      have hx : x.base = g.last + 1 := h4.2.1
      have := chain_lt h3 h1
      simp only [insertSeg]
      rw [if_pos (by omega)]

/-! ### `buildSegment` metadata -/

theorem buildSegment_batches (iv : Int) (bs : List Batch) : (buildSegment iv bs).batches = bs := rfl

theorem buildSegment_meta {iv m e : Int} {bs : List Batch} (hne : bs ≠ []) (h : Chain m bs e) :
    (buildSegment iv bs).base = m ∧ (buildSegment iv bs).last + 1 = e := by
  constructor
  · cases bs with
    | nil => exact absurd rfl hne
    | cons b t => simp [buildSegment]; exact h.1
  · cases hl : bs.getLast? with
    | none => simp at hl; exact absurd hl hne
    | some b =>
      have := chain_end h hl
      simp [buildSegment, hl, Batch.last]; omega

/-! ### the invariant -/

/-- The reachable-state invariant. `start` is the offset the partition began at. -/
def Inv (start : Int) (l : PLog) : Prop :=
  ∃ m, SegChain start l.segs m ∧ Chain m (l.fl ++ l.buf) l.next ∧ l.s3 = l.segs ∧
    (l.gated = false → l.fl = []) ∧ (l.gated = true → l.fl ≠ []) ∧ start ≤ l.hw ∧ l.hw ≤ m ∧ l.origin = start

theorem inv_new (iv : Int) (c : Bool) (start : Int) : Inv start (PLog.new iv c start) :=
  ⟨start, by simp [PLog.new, SegChain], by simp [PLog.new, Chain], rfl, by simp [PLog.new],
    by simp [PLog.new], by simp [PLog.new], by simp [PLog.new], rfl⟩

theorem validOk_lod {b : Batch} (h : validOk b = true) : 0 ≤ b.lod := by
  simp only [validOk, Bool.and_eq_true, decide_eq_true_eq] at h
  exact h.1

theorem inv_append {start : Int} {l : PLog} (b : Batch) (h : Inv start l) : Inv start (append l b).1 := by
  unfold append
  split
  · rename_i hv
    obtain ⟨m, h1, h2, h3, h4, h5, h6, h7, h8⟩ := h
    refine ⟨m, h1, ?_, h3, h4, h5, h6, h7, h8⟩
    simp only
    rw [← List.append_assoc]
    refine chain_append.mpr ⟨l.next, h2, ?_⟩
    show Chain l.next [patch b l.next] (l.next + b.lod + 1)
    exact ⟨rfl, (validOk_lod hv : 0 ≤ b.lod), rfl⟩
  · exact h

/-- what `commit` establishes from a non-empty in-flight list -/
theorem inv_commit {start : Int} {l : PLog} (m : Int) (h1 : SegChain start l.segs m)
    (h2 : Chain m (l.fl ++ l.buf) l.next) (h3 : l.s3 = l.segs) (hne : l.fl ≠ []) (h8 : l.origin = start) :
    Inv start (commit l) := by
  obtain ⟨k, hk1, hk2⟩ := chain_append.mp h2
  obtain ⟨hb, hlast⟩ := buildSegment_meta (iv := l.interval) hne hk1
  have hsm : start ≤ m := chain_le (segchain_chain h1)
  have hmk := chain_lt hk1 hne
  have hnew : SegChain m [buildSegment l.interval l.fl] k := by
    refine ⟨by rw [buildSegment_batches]; exact hne, hb, ?_, ?_⟩
    · rw [buildSegment_batches, hlast]; exact hk1
    · simp [SegChain, hlast]
  refine ⟨k, ?_, ?_, ?_, ?_, ?_, ?_, ?_, by simpa [commit] using h8⟩
  · exact segchain_append.mpr ⟨m, h1, hnew⟩
  · simpa [commit] using hk2
  · simp only [commit, s3put]
    have hno : (l.s3.any fun x => x.base == (buildSegment l.interval l.fl).base) = false := by
      rw [h3, hb]
      apply Bool.eq_false_iff.mpr
      intro hany
      obtain ⟨x, hx, hxb⟩ := List.any_eq_true.mp hany
      have := segchain_bases h1 x hx
      have : x.base = m := by simpa using hxb
      omega
    rw [hno, h3]; simp
  · intro _; simp [commit]
  · intro hg; simp [commit] at hg
  · simp only [commit]; omega
  · simp only [commit]; omega

theorem inv_flush {start : Int} {l : PLog} (hg : l.gated = false) (h : Inv start l) : Inv start (flush l) := by
  obtain ⟨m, h1, h2, h3, h4, h5, h6, h7, h8⟩ := h
  have hfl := h4 hg
  unfold flush
  split
  · rename_i hemp
    have hb : l.buf = [] := by simpa using hemp
    rw [hfl, hb] at h2
    have hm : m = l.next := by simpa [Chain] using h2
    have hsm : start ≤ m := chain_le (segchain_chain h1)
    split
    · refine ⟨m, h1, ?_, h3, h4, h5, ?_, ?_, h8⟩
      · simp only; rw [hfl, hb]; simpa [Chain] using hm
      · simp only; omega
      · simp only; omega
    · exact ⟨m, h1, by rw [hfl, hb]; simpa [Chain] using hm, h3, h4, h5, h6, h7, h8⟩
  · rename_i hemp
    have hb : l.buf ≠ [] := by simpa using hemp
    apply inv_commit m
    · exact h1
    · simpa [prepare, hfl] using h2
    · exact h3
    · simpa [prepare] using hb
    · exact h8

theorem inv_gate {start : Int} {l : PLog} (hg : l.gated = false) (h : Inv start l) : Inv start (gate l).1 := by
  unfold gate
  split
  · exact inv_flush hg h
  · rename_i hemp
    have hb : l.buf ≠ [] := by simpa using hemp
    obtain ⟨m, h1, h2, h3, h4, h5, h6, h7, h8⟩ := h
    have hfl := h4 hg
    exact ⟨m, h1, by simpa [prepare, hfl] using h2, h3, by simp, by simpa [prepare] using hb, h6, h7, h8⟩

theorem inv_release {start : Int} {l : PLog} (hg : l.gated = true) (h : Inv start l) : Inv start (release l) := by
  obtain ⟨m, h1, h2, h3, h4, h5, h6, h7, h8⟩ := h
  exact inv_commit m h1 h2 h3 (h5 hg) h8

theorem inv_restartAt {start : Int} {l : PLog} (st : Int) (_hg : l.gated = false) (hst1 : l.origin ≤ st)
    (hst2 : st ≤ l.hw) (h : Inv start l) : Inv start (restartAt l st).1 := by
  obtain ⟨m, h1, h2, h3, h4, h5, h6, h7, h8⟩ := h
  have hsort : sortSegs l.s3 = l.segs := by rw [h3]; exact sortSegs_id h1
  unfold restartAt
  simp only [hsort]
  cases hl : l.segs.getLast? with
  | none =>
    have hnil : l.segs = [] := by simpa using hl
    rw [hnil] at h1
    have hm : start = m := by simpa [SegChain] using h1
    refine ⟨start, by simp [SegChain], ?_, ?_, by simp, by simp, ?_, ?_, h8⟩
    · simp only [List.append_nil, Chain]; omega
    · simpa [hnil] using h3
    · simp only; omega
    · simp only; omega
  | some g =>
    have hm := segchain_end h1 hl
    have hsm : start ≤ m := chain_le (segchain_chain h1)
    refine ⟨m, h1, ?_, h3, by simp, by simp, ?_, ?_, h8⟩
    · simp only [List.append_nil, Chain]; split <;> omega
    · simp only; split <;> omega
    · simp only; split <;> omega

theorem inv_restart {start : Int} {l : PLog} (hg : l.gated = false) (h : Inv start l) :
    Inv start (restart l).1 := by
  obtain ⟨m, h1, h2, h3, h4, h5, h6, h7, h8⟩ := h
  exact inv_restartAt l.hw hg (by omega) (by omega) ⟨m, h1, h2, h3, h4, h5, h6, h7, h8⟩

theorem read_frame (l : PLog) (o mb : Int) :
    (read l o mb).1.segs = l.segs ∧ (read l o mb).1.buf = l.buf ∧ (read l o mb).1.fl = l.fl ∧
    (read l o mb).1.next = l.next ∧ (read l o mb).1.s3 = l.s3 ∧ (read l o mb).1.gated = l.gated ∧
    (read l o mb).1.hw = l.hw ∧ (read l o mb).1.origin = l.origin := by
  unfold read
  split
  · simp
  · split
    · simp
    · split
      · simp
      · split
        · simp
        · split <;> simp

theorem inv_read {start : Int} {l : PLog} (o mb : Int) (h : Inv start l) : Inv start (read l o mb).1 := by
  obtain ⟨e1, e2, e3, e4, e5, e6, e7, e8⟩ := read_frame l o mb
  unfold Inv
  rw [e1, e2, e3, e4, e5, e6, e7, e8]
  exact h

/-! ### operations and the main theorem -/

/-- Operations on one partition log. A flush / restart requested while an upload is in flight
waits (`Flush` blocks on `flushCond`); a restart at that point is a crash mid-upload (C06).
`restartAt s` restarts with a stale metadata-store offset `origin ≤ s ≤ published watermark` (broker
died between the S3 upload and `UpdateOffsets`). -/
inductive Op where
  | append (data : Bytes)
  | flush
  | gate
  | release
  | restart
  | restartAt (storeOffset : Int)
  | read (o maxBytes : Int)
  | dropcache
deriving Repr

def step (l : PLog) : Op → PLog
  | .append data => match parse data with
    | none => l
    | some b => (append l b).1
  | .flush => if l.gated then l else flush l
  | .gate => if l.gated then l else (gate l).1
  | .release => if l.gated then release l else l
  | .restart => if l.gated then l else (restart l).1
  | .restartAt st => if l.gated ∨ st < l.origin ∨ st > l.hw then l else (restartAt l st).1
  | .read o mb => (read l o mb).1
  | .dropcache => { l with cached := [] }

theorem inv_step {start : Int} {l : PLog} (op : Op) (h : Inv start l) : Inv start (step l op) := by
  cases op with
  | append data =>
    simp only [step]
    split
    · exact h
    · exact inv_append _ h
  | flush =>
    simp only [step]
    by_cases hg : l.gated = true
    · simp [hg]; exact h
    · have hg' : l.gated = false := by simpa using hg
      simp [hg']; exact inv_flush hg' h
  | gate =>
    simp only [step]
    by_cases hg : l.gated = true
    · simp [hg]; exact h
    · have hg' : l.gated = false := by simpa using hg
      simp [hg']; exact inv_gate hg' h
  | release =>
    simp only [step]
    by_cases hg : l.gated = true
    · simp [hg]; exact inv_release hg h
    · have hg' : l.gated = false := by simpa using hg
      simp [hg']; exact h
  | restart =>
    simp only [step]
    by_cases hg : l.gated = true
    · simp [hg]; exact h
    · have hg' : l.gated = false := by simpa using hg
      simp [hg']; exact inv_restart hg' h
  | restartAt st =>
    simp only [step]
    split
    · exact h
    · rename_i hc
      have hg' : l.gated = false := by
        cases hgg : l.gated with
        | true => exact absurd (Or.inl hgg) hc
        | false => rfl
      exact inv_restartAt st hg' (by omega) (by omega) h
  | read o mb => exact inv_read o mb h
  | dropcache => exact h

theorem inv_reach (iv : Int) (c : Bool) (start : Int) (ops : List Op) :
    Inv start (ops.foldl step (PLog.new iv c start)) := by
  have h0 := inv_new iv c start
  generalize PLog.new iv c start = l at h0
  induction ops generalizing l with
  | nil => simpa using h0
  | cons op ops ih => exact ih _ (inv_step op h0)

/-- the whole stored log, oldest first -/
def PLog.log (l : PLog) : List Batch := segBatches l.segs ++ l.fl ++ l.buf

/-- **C02 (main).** For every index interval, cache setting, start offset and every sequence of
produce / flush / gated flush / restart / read operations with arbitrary client bytes: the stored
log is a chain from the start offset to `nextOffset`, and the committed segments' (base, last)
metadata agree with their batches. -/
theorem _root_.KafVerif.C02.offsets_chain (iv : Int) (c : Bool) (start : Int) (ops : List Op) :
    let l := ops.foldl step (PLog.new iv c start)
    Chain start l.log l.next ∧ ∃ m, SegChain start l.segs m ∧ Chain m (l.fl ++ l.buf) l.next := by
  intro l
  obtain ⟨m, h1, h2, _⟩ := inv_reach iv c start ops
  refine ⟨?_, m, h1, h2⟩
  simp only [PLog.log, List.append_assoc]
  exact chain_append.mpr ⟨m, segchain_chain h1, h2⟩

/-- **C02 (response).** An acknowledged append answers `base = nextOffset` as it was, `last = base + Δ`
with `base ≤ last`, moves `nextOffset` to `last + 1`, and the batch it stores carries that base in the
struct and (for a base within int64) in bytes 0:8 of the stored record set; the rest of the bytes is
what the client sent. -/
theorem _root_.KafVerif.C02.response_is_stored_base (l : PLog) (b : Batch) (base last : Int)
    (h : (append l b).2 = .ok base last) :
    base = l.next ∧ last = base + b.lod ∧ base ≤ last ∧ (append l b).1.next = last + 1 ∧
    ∃ b', (append l b).1.buf = l.buf ++ [b'] ∧ b'.base = base ∧ b'.lod = b.lod ∧
      b'.bytes.drop 8 = b.bytes.drop 8 ∧
      (-9223372036854775808 ≤ base → base < 9223372036854775808 → hdrBase b'.bytes = base) := by
  unfold append at h ⊢
  by_cases hv : validOk b = true
  · rw [if_pos hv] at h ⊢
    simp only [AppendOut.ok.injEq] at h
    obtain ⟨rfl, rfl⟩ := h
    have := validOk_lod hv
    refine ⟨rfl, rfl, by omega, rfl, patch b l.next, rfl, rfl, rfl, ?_, ?_⟩
    · simp only [patch]
      rw [List.drop_append]
      simp [be64Bytes_length]
    · intro h1 h2
      simp only [patch, hdrBase]
      rw [field_zero_prefix _ _ (be64Bytes_length _)]
      exact toInt64_be64 _ h1 h2
  · rw [if_neg hv] at h
    simp at h

/-- **C02 (reject).** A record set that is not acknowledged changes nothing. -/
theorem _root_.KafVerif.C02.rejected_unchanged (l : PLog) (b : Batch) (h : (append l b).2 = .rej) :
    (append l b).1 = l := by
  unfold append at h ⊢
  split
  · rename_i hv; simp [hv] at h
  · rfl

/-! ### what a consumer decodes from the stored log -/

/-- Walk a stored record set / segment body by frames, like a consumer (and like
`CountRecordBatchMessages`): `(base, lastOffsetDelta)` of every complete frame. -/
def frames : Nat → Bytes → List (Int × Int)
  | 0, _ => []
  | fuel + 1, data =>
    if data.length < hdrMin then []
    else
      let n := 12 + hdrLen data
      if n < hdrMin ∨ n > data.length then []
      else (hdrBase data, hdrLod data) :: frames fuel (data.drop n.toNat)

theorem hdr_append (a r : Bytes) (h : hdrMin ≤ a.length) :
    hdrBase (a ++ r) = hdrBase a ∧ hdrLen (a ++ r) = hdrLen a ∧ hdrLod (a ++ r) = hdrLod a := by
  unfold hdrMin at h
  simp only [hdrBase, hdrLen, hdrLod]
  rw [field_append_left a r 0 8 (by omega), field_append_left a r 8 4 (by omega),
    field_append_left a r 23 4 (by omega)]
  exact ⟨rfl, rfl, rfl⟩

theorem frames_cons (fuel : Nat) (b : Batch) (rest : Bytes) (hf : Framed b) :
    frames (fuel + 1) (b.bytes ++ rest) = (hdrBase b.bytes, hdrLod b.bytes) :: frames fuel rest := by
  obtain ⟨h1, h2⟩ := hf
  obtain ⟨e1, e2, e3⟩ := hdr_append b.bytes rest h2
  have hmin : (hdrMin : Int) = 61 := rfl
  conv => lhs; unfold frames
  have hlen : ¬ (b.bytes ++ rest).length < hdrMin := by simp; omega
  rw [if_neg hlen]
  simp only [e1, e2, e3]
  have hn : ¬ (12 + hdrLen b.bytes < hdrMin ∨ 12 + hdrLen b.bytes > ((b.bytes ++ rest).length : Int)) := by
    simp only [List.length_append]; push_cast; omega
  rw [if_neg hn]
  have : (12 + hdrLen b.bytes).toNat = b.bytes.length := by omega
  rw [this, List.drop_append_of_le_length (Nat.le_refl _), List.drop_length, List.nil_append]

/-- **C02 (stored frames).** If every stored batch is framed, walking the concatenated stored bytes
yields exactly one frame per batch, with that batch's header (no frame is hidden or invented). -/
theorem _root_.KafVerif.C02.frames_body (bs : List Batch) (hf : ∀ b ∈ bs, Framed b) (fuel : Nat)
    (hfuel : bs.length < fuel) :
    frames fuel (body bs) = bs.map fun b => (hdrBase b.bytes, hdrLod b.bytes) := by
  induction bs generalizing fuel with
  | nil =>
    cases fuel with
    | zero => omega
    | succ f => simp [body, frames, hdrMin]
  | cons b t ih =>
    cases fuel with
    | zero => omega
    | succ f =>
      have : body (b :: t) = b.bytes ++ body t := by simp [body]
      rw [this, frames_cons f b (body t) (hf b (by simp))]
      rw [ih (fun x hx => hf x (by simp [hx])) f (by simpa using hfuel)]
      simp

/-- **C02 (one frame per produce).** A record set that passed validation with a declared length is
stored as exactly one frame covering all its bytes; its delta field is the client's. -/
theorem _root_.KafVerif.C02.stored_is_one_frame (b : Batch) (base : Int) (hv : validOk b = true)
    (hlen : hdrMin ≤ b.bytes.length) (hdecl : hdrLen b.bytes ≠ 0) :
    Framed (patch b base) ∧ hdrLod (patch b base).bytes = hdrLod b.bytes := by
  have hmin : hdrMin = 61 := rfl
  simp only [validOk, Bool.and_eq_true, Bool.or_eq_true, decide_eq_true_eq] at hv
  obtain ⟨_, hv⟩ := hv
  have hl : hdrLen b.bytes + 12 = (b.bytes.length : Int) := by
    rcases hv with (h | h) | h
    · omega
    · exact absurd h hdecl
    · exact h
  have e1 : hdrLen (patch b base).bytes = hdrLen b.bytes := by
    simp only [patch, hdrLen]; rw [field_patch _ _ 8 4 (be64Bytes_length _) (by omega)]
  have e2 : (patch b base).bytes.length = b.bytes.length := by
    simp [patch, be64Bytes_length]; omega
  refine ⟨⟨by rw [e1, e2]; exact hl, by rw [e2]; exact hlen⟩, ?_⟩
  simp only [patch, hdrLod]; rw [field_patch _ _ 23 4 (be64Bytes_length _) (by omega)]

/-! ### the code before the fix -/

def stepOld (l : PLog) (data : Bytes) : PLog :=
  match parse data with
  | none => l
  | some b => (appendOld l b).1

/-- a minimal 61-byte batch with the given last-offset delta and a declared length -/
def tinyBatch (lod : UInt8) (sign : UInt8) : Bytes :=
  [0,0,0,0,0,0,0,0, 0,0,0,49] ++ zeros 11 ++ [sign, sign, sign, lod] ++ zeros 30 ++ [0,0,0,1]

set_option maxRecDepth 100000 in
/-- **Pre-fix witness 1.** Deltas −1, 0, −5, 0 are acknowledged with bases 0, 0, 1, −3. -/
theorem _root_.KafVerif.C02.appendOld_violates :
    (([tinyBatch 255 255, tinyBatch 0 0, tinyBatch 251 255, tinyBatch 0 0].foldl stepOld
      (PLog.new 100 true 0)).buf.map (·.base)) = [0, 0, 1, -3] ∧
    ¬ Chain 0 ([tinyBatch 255 255, tinyBatch 0 0, tinyBatch 251 255, tinyBatch 0 0].foldl stepOld
      (PLog.new 100 true 0)).log
      ([tinyBatch 255 255, tinyBatch 0 0, tinyBatch 251 255, tinyBatch 0 0].foldl stepOld
      (PLog.new 100 true 0)).next := by
  constructor
  · decide
  · intro h
    have := (KafVerif.C02.chain_strict h).1
    revert this
    decide

set_option maxRecDepth 100000 in
/-- **Pre-fix witness 2.** Two concatenated one-record batches are acknowledged as one batch
(offset 0 only) but the stored bytes decode as two frames, both with base 0. -/
theorem _root_.KafVerif.C02.appendOld_concat_violates :
    let l := stepOld (PLog.new 100 true 0) (tinyBatch 0 0 ++ tinyBatch 0 0)
    l.next = 1 ∧ frames 3 (body l.buf) = [(0, 0), (0, 0)] := by
  decide

/-! ### non-vacuity -/

set_option maxRecDepth 100000 in
/-- the fixed code rejects both witnesses and keeps the chain -/
example : ([tinyBatch 255 255, tinyBatch 0 0, tinyBatch 251 255, tinyBatch 0 0, tinyBatch 0 0 ++ tinyBatch 0 0].foldl
    (fun l d => step l (.append d)) (PLog.new 100 true 0)).buf.map (·.base) = [0, 1] := by decide

set_option maxRecDepth 100000 in
example : validOk ((parse (tinyBatch 3 0)).getD ⟨0, 0, 0, []⟩) = true ∧
    hdrLen (tinyBatch 3 0) ≠ 0 ∧ hdrMin ≤ (tinyBatch 3 0).length := by decide

set_option maxRecDepth 100000 in
/-- a reachable state with two committed segments, an in-flight flush and a buffered batch -/
example :
    let l := ([.append (tinyBatch 2 0), .flush, .append (tinyBatch 0 0), .append (tinyBatch 1 0), .flush,
      .append (tinyBatch 0 0), .gate, .append (tinyBatch 4 0), .restart, .read 3 100] : List Op).foldl step (PLog.new 1 true 5)
    (l.segs.map fun s => (s.base, s.last)) = [(5, 7), (8, 10)] ∧ l.fl.length = 1 ∧ l.buf.length = 1 ∧ l.next = 17 := by
  decide

end KafVerif.PLog
