import KafVerif.Gen.C18LeaseOps
import KafVerif.Model.LeaseOpsSpec
import KafVerif.Lemmas.LeaseKey
/-!
C18, static tie.  `Gen/C18LeaseOps.lean` is regenerated from the CURRENT `lease_manager.go` by
`checks/C18.py` (go/ast) before this file is built.

* `lease_ops_match`          the regenerated control skeleton IS the table the model assumes
                             (`Model/LeaseOpsSpec.lean`, one section per model step);
* `acquire_txn_shape`, `reacquire_txn_shape`, `release_variant_byRev`, `no_plain_writes`,
  `inserts_session_guarded`, `writes_locked`
                             refactoring-tolerant consequences, each naming one thing the invariant
                             proof of `Props/C18.lean` depends on (they tell WHAT broke);
* `steps_covered`            every statement-bearing step of `Model/Lease.lean` has its rows;
* `expected_compiles`, `txn_step_denotes`, `re_step_denotes`, `del_step_denotes`,
  `ins_step_denotes`         the model's steps ARE the etcd semantics (`execK`) of the transactions in the
                             table, for every state: the expected table cannot be edited to follow a
                             changed source without breaking these.
* `lease_key_injective`, `lease_key_shape`, `partition_resource_id_injective`, `partition_lease_key_injective`
                             the model names a resource by ONE abstract id in `owned` and in etcd; the key
                             functions of the CURRENT source (`Gen.C18.leaseKeyExpr`, `partitionResourceIdExpr`,
                             regenerated) are injective for ALL strings, so two different ids never share an etcd
                             key; `lease_key_path_join_collides`: with `path.Join` they do (witness).
-/
namespace KafVerif.C18
open KafVerif.SrcOps KafVerif.Lease KafVerif.LeaseOps

/-- the control skeleton of the current source equals the one the model was written against -/
theorem lease_ops_match : KafVerif.Gen.C18.rows = expected := by rfl

theorem acquire_txn_shape :
    txnsOf KafVerif.Gen.C18.rows "doAcquire" = [some ⟨[.absent], [.put], [.get]⟩] := by decide +kernel

theorem reacquire_txn_shape :
    txnsOf KafVerif.Gen.C18.rows "reacquire" = [some ⟨[.valueIsMe], [.put], []⟩] := by decide +kernel

/-- the current `Release` is the variant `byRev`, the one `inv_reachable`/`exclusive` are proved for
(`uncond_violates`, `byValue_violates` show the other two reach two owners) -/
theorem release_variant_byRev : variantOf KafVerif.Gen.C18.rows = some .byRev := by decide +kernel

theorem no_plain_writes : plainWrites KafVerif.Gen.C18.rows = [] := by decide +kernel

theorem inserts_session_guarded : insertsGuarded KafVerif.Gen.C18.rows = true := by decide +kernel

theorem writes_locked : writesLocked KafVerif.Gen.C18.rows = true := by decide +kernel

/-- every step of the model that stands for a statement has a non-empty section, and every `PC`
and every `Op` maps into the listed steps -/
theorem steps_covered :
    (∀ st ∈ Step.all, ∃ sec ∈ sections, sec.1 = st ∧ sec.2 ≠ []) ∧
    (∀ sec ∈ sections, sec.1 ∈ Step.all) := by decide +kernel

theorem expected_compiles :
    compile acquireTxn = some ⟨[.absent], [.put], [.get]⟩ ∧
    compile reacquireTxn = some ⟨[.valueIsMe], [.put], []⟩ ∧
    compile releaseTxn = some ⟨[.modRevIsMine], [.del], []⟩ ∧
    guardK insGuardAcquire = true ∧ guardK insGuardReacquire = true := by decide +kernel

/-- model step `txn` = etcd semantics of doAcquire's transaction row + doAcquire's response handling -/
theorem txn_step_denotes (s : State) (b r l : Nat) (t : TxnK) (ht : compile acquireTxn = some t) :
    acqStep s b r (.txn l) = acquireResp s b r l (execK ⟨b, l, 0⟩ s r t) := by
  have h := expected_compiles.1
  rw [h] at ht
  cases ht
  cases hk : s.kv r with
  | none =>
    by_cases hl : s.live l = true
    · simp [acqStep, acquireResp, execK, cmpHolds, doAct, hk, hl]
    · simp [acqStep, acquireResp, execK, cmpHolds, doAct, hk, hl]
  | some k =>
    by_cases ho : k.owner = b
    · simp [acqStep, acquireResp, execK, cmpHolds, hk, ho]
    · simp [acqStep, acquireResp, execK, cmpHolds, hk, ho]

/-- model step `re` = etcd semantics of reacquire's transaction row + its response handling -/
theorem re_step_denotes (s : State) (b r l : Nat) (t : TxnK) (ht : compile reacquireTxn = some t) :
    acqStep s b r (.re l) = reacquireResp s b r l (execK ⟨b, l, 0⟩ s r t) := by
  have h := expected_compiles.2.1
  rw [h] at ht
  cases ht
  cases hk : s.kv r with
  | none => simp [acqStep, reacquireResp, execK, cmpHolds, hk]
  | some k =>
    by_cases ho : k.owner = b
    · by_cases hl : s.live l = true
      · simp [acqStep, reacquireResp, execK, cmpHolds, doAct, hk, ho, hl]
      · simp [acqStep, reacquireResp, execK, cmpHolds, doAct, hk, ho, hl]
    · simp [acqStep, reacquireResp, execK, cmpHolds, hk, ho]

/-- `Op.release` remembers exactly the revision stored in `owned` (the `m.owned[resourceID].0` of the
row), and the pending delete `Op.del` = etcd semantics of Release's transaction row with that revision -/
theorem del_step_denotes (s : State) (i b r v : Nat) (t : TxnK) (ht : compile releaseTxn = some t)
    (hd : s.dels[i]? = some ⟨b, r, guardOf .byRev v⟩) :
    (step .byRev s (.del i)).1 = (execK ⟨b, 0, v⟩ { s with dels := s.dels.eraseIdx i } r t).1 := by
  have h := expected_compiles.2.2.1
  rw [h] at ht
  cases ht
  cases hk : s.kv r with
  | none => simp [step, hd, hk, execK, cmpHolds, guardOf]
  | some k =>
    by_cases hv : k.modRev = v
    · simp [step, hd, hk, execK, cmpHolds, doAct, guardOf, delFires, hv, setKV]
    · simp [step, hd, hk, execK, cmpHolds, guardOf, delFires, hv]

theorem release_remembers (s : State) (b r v : Nat) (h : (s.mgr b).owned r = some v) :
    (step .byRev s (.release b r)).1.dels = s.dels ++ [⟨b, r, .rev v⟩] := by
  simp [step, h, guardOf, setMgr]

/-- model step `ins` = the insert rows: the write happens iff `m.session == <session of the call>` -/
theorem ins_step_denotes (s : State) (b r l v : Nat) :
    insertStep s b r l v =
      if guardHolds (s.mgr b) l then
        (setAcq (setMgr s b (setOwned (s.mgr b) r (some v))) b r none, some .ok)
      else (setAcq s b r none, some .err) := by
  by_cases h : (s.mgr b).session = some l <;> simp [insertStep, guardHolds, h]

theorem inserts_guarded_sound (rows : List Row) (h : insertsGuarded rows = true) :
    ∀ r ∈ rows, isOwnedInsert r.ev = true →
      r.locked = true ∧ (∃ g ∈ r.guard, guardK g = true) ∧ "Txn#1.0.Succeeded" ∈ r.guard := by
  intro r hr hi
  simp only [insertsGuarded, List.all_eq_true, List.mem_filter, Bool.and_eq_true, and_imp] at h
  have := h r hr hi
  simp only [List.any_eq_true, List.contains_iff_mem] at this
  exact ⟨this.1.1, this.1.2, this.2⟩

/-! ### the key functions (resource id → etcd key, topic/partition → resource id) -/

open KafVerif.LeaseKey KafVerif.MetaKeys in
theorem eval_inj_of_injectiveInId {e : KeyExpr} (h : injectiveInId e = true) (pfx a b : List Char) (n : Int)
    (he : eval e pfx a n = eval e pfx b n) : a = b := by
  cases e with
  | concat ps => exact evalConcat_idOnce_inj h pfx a b n he
  | pathJoin ps => simp [injectiveInId] at h
  | other => simp [injectiveInId] at h

open KafVerif.LeaseKey KafVerif.MetaKeys in
theorem eval_inj_of_injectiveInBoth {e : KeyExpr} (h : injectiveInBoth e = true) (pfx t t' : List Char) (n n' : Int)
    (he : eval e pfx t n = eval e pfx t' n') : t = t' ∧ n = n' := by
  cases e with
  | concat ps => exact evalConcat_sepSafe_inj h pfx t t' n n' he
  | pathJoin ps => simp [injectiveInBoth] at h
  | other => simp [injectiveInBoth] at h

open KafVerif.LeaseKey KafVerif.MetaKeys in
/-- **`leaseKey` of the current source is injective in the resource id — for ALL strings** (any prefix; group ids are
not validated anywhere, so "all strings" is the quantifier that matters): two different entries of `owned` are never
backed by the same etcd key, which is what lets the lease model use one name for both. -/
theorem lease_key_injective (pfx a b : List Char) (n : Int)
    (h : eval KafVerif.Gen.C18.leaseKeyExpr pfx a n = eval KafVerif.Gen.C18.leaseKeyExpr pfx b n) : a = b :=
  eval_inj_of_injectiveInId (by decide) pfx a b n h

open KafVerif.LeaseKey KafVerif.MetaKeys in
/-- … and it is exactly `prefix ++ "/" ++ id`, the form the routers (C20) parse back -/
theorem lease_key_shape : KafVerif.Gen.C18.leaseKeyExpr = leaseKeyHead := by decide

open KafVerif.LeaseKey KafVerif.MetaKeys in
/-- **`partitionResourceID` is injective in (topic, partition) for ALL topic strings** (the last separator splits) -/
theorem partition_resource_id_injective (pfx t t' : List Char) (p p' : Int)
    (h : eval KafVerif.Gen.C18.partitionResourceIdExpr pfx t p = eval KafVerif.Gen.C18.partitionResourceIdExpr pfx t' p') :
    t = t' ∧ p = p' :=
  eval_inj_of_injectiveInBoth (by decide) pfx t t' p p' h

open KafVerif.LeaseKey KafVerif.MetaKeys in
/-- the composition the partition manager uses: (topic, partition) ↦ etcd key is injective -/
theorem partition_lease_key_injective (pfx t t' : List Char) (p p' : Int)
    (h : eval KafVerif.Gen.C18.leaseKeyExpr pfx (eval KafVerif.Gen.C18.partitionResourceIdExpr [] t p) 0 =
         eval KafVerif.Gen.C18.leaseKeyExpr pfx (eval KafVerif.Gen.C18.partitionResourceIdExpr [] t' p') 0) :
    t = t' ∧ p = p' :=
  partition_resource_id_injective [] t t' p p' (lease_key_injective pfx _ _ 0 h)

open KafVerif.LeaseKey KafVerif.MetaKeys in
/-- **witness: `path.Join(prefix, id)` is NOT injective** — it cleans the result, so ids that differ only in path noise
share one etcd key (while staying separate entries of `owned`): releasing one deletes the key under the other. -/
theorem lease_key_path_join_collides :
    injectiveInId (.pathJoin [.pfx, .id]) = false ∧
    eval (.pathJoin [.pfx, .id]) (str "/kafscale/group-leases") (str "team-a/ingest") 0 =
      eval (.pathJoin [.pfx, .id]) (str "/kafscale/group-leases") (str "team-a//ingest") 0 ∧
    eval (.pathJoin [.pfx, .id]) (str "/p") (str "g") 0 = eval (.pathJoin [.pfx, .id]) (str "/p") (str "g/") 0 ∧
    eval (.pathJoin [.pfx, .id]) (str "/p") (str "") 0 = eval (.pathJoin [.pfx, .id]) (str "/p") (str ".") 0 ∧
    eval (.pathJoin [.pfx, .id]) (str "/p") (str "a/b") 0 = eval (.pathJoin [.pfx, .id]) (str "/p") (str "x/../a/./b") 0 ∧
    str "team-a/ingest" ≠ str "team-a//ingest" ∧ str "g" ≠ str "g/" ∧ str "" ≠ str "." := by decide

-- non-vacuity: the keys of HEAD for the colliding ids differ; an id-free or id-twice expression is rejected
open KafVerif.LeaseKey KafVerif.MetaKeys in
example : eval leaseKeyHead (str "/p") (str "a/b") 0 = str "/p/a/b" ∧ eval leaseKeyHead (str "/p") (str "a//b") 0 = str "/p/a//b" ∧
    eval partitionResourceIdHead [] (str "a/1") 0 = str "a/1/0" ∧ eval partitionResourceIdHead [] (str "a") (-3) = str "a/-3" ∧
    injectiveInId (.concat [.pfx, .lit ['/']]) = false ∧ injectiveInId (.concat [.id, .id]) = false ∧
    injectiveInBoth (.concat [.id, .part]) = false ∧ injectiveInBoth (.concat [.id, .lit ['1'], .part]) = false := by decide

-- non-vacuity: the three compiled transactions do different things on the same state
example : (execK ⟨1, 0, 0⟩ { init with live := fun _ => true } 0 ⟨[.absent], [.put], [.get]⟩).2 = .thenDone 1 := by decide +kernel
example : (execK ⟨1, 0, 0⟩ { init with live := fun _ => true } 0 ⟨[.valueIsMe], [.put], []⟩).2 = .elseDone none := by decide +kernel
example : variantOf [⟨"Release", [], [], .etcd "Delete" ["k"]⟩] = some .uncond := by decide +kernel
example : variantOf [⟨"Release", [], [], .txn [⟨"Value", "leaseKey", "=", "m.brokerID"⟩] [⟨"OpDelete", ["leaseKey"]⟩] []⟩] = some .byValue := by decide +kernel
example : insertsGuarded [⟨"markOwned", ["m.session != nil"], [], .write "m.owned" "resourceID" "rev" true⟩] = false := by decide +kernel

end KafVerif.C18
