import KafVerif.Model.MetaStore
/-!
C17 — In-memory and etcd metadata stores behave the same.

Statement (properties.jsonl): for any sequence of store operations (topic create/delete,
partition growth, offset updates, consumer offsets and groups), the in-memory store and the
etcd-backed store return the same observable results; committed values and groups read back
identically from both.  Quantifier: every operation sequence, executed against both.

* `stores_bisimilar`  one step: related states + admissible op ⇒ same output (for every operation
                      the statement lists, i.e. all but `FetchTopicConfig`) and related states again.
* `same_results`      induction over histories: from the initial states every admissible history
                      produces the same output list on both stores (config reads masked).
* `config_default_differs`  witness of the mirrored asymmetry that is outside the statement's list:
                      `FetchTopicConfig` after `CreateTopic(t, 3 partitions, rf 1)` reports
                      replication factor 1 in memory and 3 from etcd.
* `negative_offsets_diverge` witness that the hypothesis `last ≥ -1` of `Admissible` is needed
                      (monotone `UpdateOffsets` of the C05 fix: memory ignores, etcd stores).

`Admissible`: `UpdateOffsets` is called with `lastOffset ≥ -1` (offsets are non-negative);
`CommitConsumerOffset` is called with a non-empty group id and a legal topic name (the etcd
listing re-parses its keys and drops the others — `empty_group_commit_unlisted`).
Names are abstract ids — separator-carrying names are exactly what C16/C22 exclude.
-/
namespace KafVerif.MetaStore

/-! ### association-list lemmas -/

section alist
variable {κ ν : Type} [DecidableEq κ]

theorem aget_aput (l : List (κ × ν)) (k k' : κ) (v : ν) :
    aget (aput l k v) k' = if k = k' then some v else aget l k' := by
  induction l with
  | nil => simp [aput, aget]
  | cons e r ih =>
    by_cases h : e.1 = k <;> by_cases h' : k = k' <;> by_cases h'' : e.1 = k' <;> simp_all [aput, aget]

theorem aget_filter (l : List (κ × ν)) (p : κ → Bool) (k : κ) :
    aget (l.filter fun e => p e.1) k = if p k then aget l k else none := by
  induction l with
  | nil => simp [aget]
  | cons e r ih =>
    by_cases hp : p e.1 = true <;> by_cases hk : e.1 = k <;> simp_all [List.filter_cons, aget]

theorem mem_aput {l : List (κ × ν)} {k : κ} {v : ν} {x : κ × ν} (h : x ∈ aput l k v) : x = (k, v) ∨ x ∈ l := by
  induction l with
  | nil => simp [aput] at h; exact Or.inl h
  | cons e r ih =>
    unfold aput at h
    split at h
    · simp only [List.mem_cons] at h ⊢
      rcases h with h | h
      · exact Or.inl h
      · exact Or.inr (Or.inr h)
    · simp only [List.mem_cons] at h ⊢
      rcases h with h | h
      · exact Or.inr (Or.inl h)
      · rcases ih h with h | h
        · exact Or.inl h
        · exact Or.inr (Or.inr h)

end alist

/-! ### the relation -/

structure R (m : Mem) (e : Etcd) : Prop where
  brokers : e.loc.brokers = m.brokers
  topics : e.loc.topics = m.topics
  /-- the snapshot key is absent or holds exactly the local copy (single writer) -/
  snap : e.snap = none ∨ e.snap = some e.loc.topics
  /-- next offsets agree as seen through `NextOffset` (absent = 0) -/
  offs : ∀ k, (aget e.kvOff k).getD 0 = (aget m.offsets k).getD 0
  offsNN : ∀ k v, aget e.kvOff k = some v → 0 ≤ v
  coffs : e.kvCoff = m.coffs
  /-- every stored commit has a non-empty group id and a legal topic name -/
  coffsOk : ∀ x ∈ e.kvCoff, (x.1.1 ≠ 0 && validName x.1.2.1) = true
  groups : e.kvGroups = m.groups

/-- Operations the bisimulation covers: all, with `UpdateOffsets` restricted to `lastOffset ≥ -1`. -/
def Admissible : Op → Prop
  | .updateOffsets _ _ last => -1 ≤ last
  | .commit g t _ _ _ => (g ≠ 0 && validName t) = true
  | _ => True

/-- Output comparison: everything the statement lists must agree; `FetchTopicConfig` (not in the
statement's list; its defaults differ by code) is masked. -/
def sameOut : Op → Out → Out → Prop
  | .fetchConfig _, _, _ => True
  | _, a, b => a = b

theorem refresh_eq {m : Mem} {e : Etcd} (h : R m e) : refresh e = e := by
  have hs := h.snap
  obtain ⟨loc, snap, a, b, c, d, f⟩ := e
  obtain ⟨x1, x2, x3, x4, x5, x6⟩ := loc
  rcases hs with hs | hs <;> simp_all [refresh]

theorem R_init (b : Nat) : R (initM b) (initE b) :=
  ⟨rfl, rfl, Or.inl rfl, fun _ => rfl, fun k v h => by simp [initE, aget] at h, rfl, fun x hx => by simp [initE] at hx, rfl⟩

theorem memCreateTopic_ok (m : Mem) (t : Nat) (n rf : Int) (h : createCheck m.brokers m.topics t n rf = .ok) :
    memCreateTopic m t n rf =
      ({ m with topics := m.topics ++ [(t, n.toNat)], configs := aput m.configs t (defaultCfg n.toNat (effRf rf)) }, .ok) := by
  simp [memCreateTopic, h]

theorem memCreateTopic_err (m : Mem) (t : Nat) (n rf : Int) (h : createCheck m.brokers m.topics t n rf ≠ .ok) :
    memCreateTopic m t n rf = (m, createCheck m.brokers m.topics t n rf) := by
  simp [memCreateTopic, h]

theorem memCreatePartitions_ok (m : Mem) (t : Nat) (n : Int) (h : growCheck m.topics t n = .ok) :
    memCreatePartitions m t n =
      ({ m with topics := aput m.topics t n.toNat,
                configs := aput m.configs t { (aget m.configs t).getD (defaultCfg n.toNat n) with parts := n } }, .ok) := by
  simp [memCreatePartitions, h]

theorem memCreatePartitions_err (m : Mem) (t : Nat) (n : Int) (h : growCheck m.topics t n ≠ .ok) :
    memCreatePartitions m t n = (m, growCheck m.topics t n) := by
  simp [memCreatePartitions, h]

/-! ### one step -/

theorem step_createTopic {m : Mem} {e : Etcd} (h : R m e) (t : Nat) (n rf : Int) :
    (stepM m (.createTopic t n rf)).2 = (stepE e (.createTopic t n rf)).2 ∧
    R (stepM m (.createTopic t n rf)).1 (stepE e (.createTopic t n rf)).1 := by
  simp only [stepM, stepE, etcdCreateTopic, refresh_eq h]
  by_cases hok : createCheck m.brokers m.topics t n rf = .ok
  · have hok' : createCheck e.loc.brokers e.loc.topics t n rf = .ok := by rw [h.brokers, h.topics]; exact hok
    rw [memCreateTopic_ok m t n rf hok, memCreateTopic_ok e.loc t n rf hok']
    simp only [if_true]
    exact ⟨by first | rfl | trivial, h.brokers, by simp only [persist, h.topics], Or.inr rfl, h.offs, h.offsNN, h.coffs, h.coffsOk, h.groups⟩
  · have hok' : createCheck e.loc.brokers e.loc.topics t n rf ≠ .ok := by rw [h.brokers, h.topics]; exact hok
    rw [memCreateTopic_err m t n rf hok, memCreateTopic_err e.loc t n rf hok']
    simp only [hok', if_false]
    exact ⟨by rw [h.brokers, h.topics], h⟩

theorem step_createPartitions {m : Mem} {e : Etcd} (h : R m e) (t : Nat) (n : Int) :
    (stepM m (.createPartitions t n)).2 = (stepE e (.createPartitions t n)).2 ∧
    R (stepM m (.createPartitions t n)).1 (stepE e (.createPartitions t n)).1 := by
  simp only [stepM, stepE, etcdCreatePartitions]
  by_cases h0 : (t = 0 || n ≤ 0) = true
  · have hg : growCheck m.topics t n = .errInvalid := by simp only [growCheck, h0, if_true]
    rw [memCreatePartitions_err m t n (by rw [hg]; simp)]
    simp only [h0, if_true, hg]
    exact ⟨by first | rfl | trivial, h⟩
  · simp only [h0, Bool.false_eq_true, if_false, refresh_eq h, h.topics]
    cases hp : tparts m.topics t with
    | none =>
      have hg : growCheck m.topics t n = .errUnknown := by simp only [growCheck, h0, Bool.false_eq_true, if_false, hp]
      rw [memCreatePartitions_err m t n (by rw [hg]; simp)]
      simp only [hg]
      exact ⟨by first | rfl | trivial, h⟩
    | some cur =>
      simp only
      by_cases hle : n ≤ (cur : Int)
      · have hg : growCheck m.topics t n = .errInvalid := by
          simp only [growCheck, h0, Bool.false_eq_true, if_false, hp, hle, if_true]
        rw [memCreatePartitions_err m t n (by rw [hg]; simp)]
        simp only [hle, if_true, hg]
        exact ⟨by first | rfl | trivial, h⟩
      · have hg : growCheck m.topics t n = .ok := by
          simp only [growCheck, h0, Bool.false_eq_true, if_false, hp, hle]
        have hg' : growCheck e.loc.topics t n = .ok := by rw [h.topics]; exact hg
        rw [memCreatePartitions_ok m t n hg, memCreatePartitions_ok e.loc t n hg']
        simp only [hle, if_false, if_true]
        exact ⟨by first | rfl | trivial, h.brokers, by simp only [persist, h.topics], Or.inr rfl, h.offs, h.offsNN, h.coffs, h.coffsOk, h.groups⟩

theorem step_deleteTopic {m : Mem} {e : Etcd} (h : R m e) (t : Nat) :
    (stepM m (.deleteTopic t)).2 = (stepE e (.deleteTopic t)).2 ∧
    R (stepM m (.deleteTopic t)).1 (stepE e (.deleteTopic t)).1 := by
  simp only [stepM, stepE, etcdDeleteTopic, refresh_eq h, memDeleteTopic, h.topics]
  by_cases hn : (tparts m.topics t).isNone = true
  · simp only [hn, if_true]
    exact ⟨by first | rfl | trivial, h⟩
  · simp only [hn, Bool.false_eq_true, if_false, if_true]
    refine ⟨by first | rfl | trivial, ?_⟩
    refine ⟨h.brokers, rfl, Or.inr rfl, ?_, ?_, by simp only [persist, h.coffs], ?_, h.groups⟩
    · intro k
      have e1 := aget_filter e.kvOff (fun k : Nat × Int => decide (k.1 ≠ t)) k
      have e2 := aget_filter m.offsets (fun k : Nat × Int => decide (k.1 ≠ t)) k
      simp only [persist]
      rw [e1, e2]
      split
      · exact h.offs k
      · rfl
    · intro k v hv
      have e1 := aget_filter e.kvOff (fun k : Nat × Int => decide (k.1 ≠ t)) k
      simp only [persist] at hv
      rw [e1] at hv
      split at hv
      · exact h.offsNN k v hv
      · simp at hv
    · intro x hx
      simp only [persist, List.mem_filter] at hx
      exact h.coffsOk x hx.1

theorem step_updateOffsets {m : Mem} {e : Etcd} (h : R m e) (t : Nat) (p last : Int) (ha : -1 ≤ last) :
    (stepM m (.updateOffsets t p last)).2 = (stepE e (.updateOffsets t p last)).2 ∧
    R (stepM m (.updateOffsets t p last)).1 (stepE e (.updateOffsets t p last)).1 := by
  have hk := h.offs (t, p)
  simp only [stepM, stepE]
  cases hc : aget e.kvOff (t, p) with
  | none =>
    simp only [hc, Option.getD_none] at hk ⊢
    by_cases hgt : last + 1 > (aget m.offsets (t, p)).getD 0
    · simp only [hgt, if_true]
      refine ⟨by first | rfl | trivial, h.brokers, h.topics, h.snap, ?_, ?_, h.coffs, h.coffsOk, h.groups⟩
      · intro k; simp only [aget_aput]; split
        · rfl
        · exact h.offs k
      · intro k v hv; simp only [aget_aput] at hv; split at hv
        · simp only [Option.some.injEq] at hv; omega
        · exact h.offsNN k v hv
    · simp only [hgt, if_false]
      refine ⟨by first | rfl | trivial, h.brokers, h.topics, h.snap, ?_, ?_, h.coffs, h.coffsOk, h.groups⟩
      · intro k; simp only [aget_aput]; split
        · rename_i hkk; subst hkk
          simp only [Option.getD_some]; omega
        · exact h.offs k
      · intro k v hv; simp only [aget_aput] at hv; split at hv
        · simp only [Option.some.injEq] at hv; omega
        · exact h.offsNN k v hv
  | some cur =>
    simp only [hc, Option.getD_some] at hk ⊢
    have hnn := h.offsNN (t, p) cur hc
    by_cases hge : cur ≥ last + 1
    · have : ¬ last + 1 > (aget m.offsets (t, p)).getD 0 := by omega
      simp only [hge, this, if_true, if_false]
      exact ⟨by first | rfl | trivial, h⟩
    · have : last + 1 > (aget m.offsets (t, p)).getD 0 := by omega
      simp only [hge, this, if_true, if_false]
      refine ⟨by first | rfl | trivial, h.brokers, h.topics, h.snap, ?_, ?_, h.coffs, h.coffsOk, h.groups⟩
      · intro k; simp only [aget_aput]; split
        · rfl
        · exact h.offs k
      · intro k v hv; simp only [aget_aput] at hv; split at hv
        · simp only [Option.some.injEq] at hv; omega
        · exact h.offsNN k v hv

theorem fetchConfig_stateM (m : Mem) (t : Nat) : (stepM m (.fetchConfig t)).1 = m := by
  simp only [stepM]; split <;> rfl

theorem fetchConfig_stateE (e : Etcd) (t : Nat) : (stepE e (.fetchConfig t)).1 = e := by
  simp only [stepE]
  split
  · rfl
  · split
    · rfl
    · split <;> rfl

/-- **C17 (one step).** Related stores answer every admissible operation of the statement's list
identically and stay related. -/
theorem _root_.KafVerif.C17.stores_bisimilar {m : Mem} {e : Etcd} (h : R m e) (op : Op) (ha : Admissible op) :
    sameOut op (stepM m op).2 (stepE e op).2 ∧ R (stepM m op).1 (stepE e op).1 := by
  cases op with
  | createTopic t n rf => exact step_createTopic h t n rf
  | deleteTopic t => exact step_deleteTopic h t
  | createPartitions t n => exact step_createPartitions h t n
  | metadata ts => exact ⟨by simp [sameOut, stepM, stepE, h.topics], h⟩
  | nextOffset t p =>
    simp only [sameOut, stepM, stepE, h.topics]
    split
    · exact ⟨by rw [h.offs (t, p)], h⟩
    · exact ⟨by first | rfl | trivial, h⟩
  | updateOffsets t p last => exact step_updateOffsets h t p last ha
  | commit g t p off md =>
    refine ⟨by first | rfl | trivial, h.brokers, h.topics, h.snap, h.offs, h.offsNN, by simp only [stepM, stepE, h.coffs], ?_, h.groups⟩
    intro x hx
    rcases mem_aput hx with rfl | hx
    · exact ha
    · exact h.coffsOk x hx
  | fetch g t p =>
    simp only [sameOut, stepM, stepE, h.coffs]
    split <;> exact ⟨by first | rfl | trivial, h⟩
  | listOffsets =>
    refine ⟨?_, h⟩
    simp only [sameOut, stepM, stepE]
    rw [List.filter_eq_self.mpr h.coffsOk, h.coffs]
  | putGroup g payload =>
    simp only [sameOut, stepM, stepE]
    split
    · exact ⟨by first | rfl | trivial, h⟩
    · exact ⟨by first | rfl | trivial, h.brokers, h.topics, h.snap, h.offs, h.offsNN, h.coffs, h.coffsOk, by simp only [h.groups]⟩
  | fetchGroup g => exact ⟨by simp [sameOut, stepM, stepE, h.groups], h⟩
  | listGroups => exact ⟨by simp [sameOut, stepM, stepE, h.groups], h⟩
  | deleteGroup g =>
    exact ⟨by first | rfl | trivial, h.brokers, h.topics, h.snap, h.offs, h.offsNN, h.coffs, h.coffsOk, by simp only [stepM, stepE, h.groups]⟩
  | fetchConfig t => exact ⟨trivial, by rw [fetchConfig_stateM, fetchConfig_stateE]; exact h⟩
  | updateConfig t parts payload =>
    simp only [sameOut, stepM, stepE, memUpdateConfig, h.topics]
    split
    · exact ⟨by first | rfl | trivial, h⟩
    · split
      · exact ⟨by first | rfl | trivial, h⟩
      · rename_i cur hcur
        simp only [hcur]
        by_cases hp : parts = 0
        · simp only [hp, if_true, Int.natCast_eq_zero]
          split <;>
            exact ⟨by first | rfl | trivial, h.brokers, rfl, by have := h.snap; rw [h.topics] at this; exact this,
              h.offs, h.offsNN, h.coffs, h.coffsOk, h.groups⟩
        · simp only [hp, if_false, if_true]
          exact ⟨by first | rfl | trivial, h.brokers, rfl, by have := h.snap; rw [h.topics] at this; exact this,
            h.offs, h.offsNN, h.coffs, h.coffsOk, h.groups⟩

/-! ### histories -/

def maskOut : Op → Out → Out
  | .fetchConfig _, _ => .ok
  | _, o => o

def maskAll : List Op → List Out → List Out
  | op :: ops, o :: os => maskOut op o :: maskAll ops os
  | _, _ => []

theorem same_from {m : Mem} {e : Etcd} (h : R m e) (ops : List Op) (ha : ∀ op ∈ ops, Admissible op) :
    maskAll ops (runM m ops) = maskAll ops (runE e ops) := by
  induction ops generalizing m e with
  | nil => rfl
  | cons op r ih =>
    obtain ⟨ho, hr⟩ := KafVerif.C17.stores_bisimilar h op (ha op (by simp))
    simp only [runM, runE, maskAll]
    have hmask : maskOut op (stepM m op).2 = maskOut op (stepE e op).2 := by
      cases op <;> first | rfl | (simp only [sameOut] at ho; simp only [maskOut, ho])
    rw [hmask, ih hr (fun o ho' => ha o (by simp [ho']))]

/-- **C17.** For every number of registered brokers and every admissible history of store
operations, the in-memory store and the etcd store return the same results, operation by
operation (topic create/delete, partition growth, metadata, offsets, consumer offsets, groups,
config updates; config reads masked). -/
theorem _root_.KafVerif.C17.same_results (brokers : Nat) (ops : List Op) (ha : ∀ op ∈ ops, Admissible op) :
    maskAll ops (runM (initM brokers) ops) = maskAll ops (runE (initE brokers) ops) :=
  same_from (R_init brokers) ops ha

/-- Non-vacuity: a history touching every component with non-trivial results on both stores. -/
example : runM (initM 1) [.createTopic 1 2 1, .updateOffsets 1 0 41, .nextOffset 1 0, .commit 7 1 0 5 9, .deleteTopic 1,
      .createTopic 1 1 0, .fetch 7 1 0, .nextOffset 1 0, .createPartitions 1 3, .metadata [1, 2], .putGroup 3 8, .listGroups] =
    [.ok, .ok, .offset 42, .ok, .ok, .ok, .coff 0 0, .offset 0, .ok, .topics [(1, some 3), (2, none)], .ok, .groups [(3, 8)]] := by
  decide

/-- `same_results` carries NO hypothesis on partition indexes: `UpdateOffsets` / commits for a
partition the topic does not have are covered (neither store validates the index; both deletes
remove everything recorded under the topic).  The schedule of seeded change C17-1 on the models:
an offset recorded for partition 3 of a 2-partition topic is gone in BOTH stores after
delete + re-create with 4 partitions; and a re-commit of the same offset with other metadata
(seeded C17-2) is stored by both. -/
example : runM (initM 1) [.createTopic 1 2 1, .updateOffsets 1 3 41, .nextOffset 1 3, .deleteTopic 1, .createTopic 1 4 1, .nextOffset 1 3,
      .commit 1 1 0 5 1, .commit 1 1 0 5 2, .fetch 1 1 0] =
      [.ok, .ok, .errUnknown, .ok, .ok, .offset 0, .ok, .ok, .coff 5 2] ∧
    runE (initE 1) [.createTopic 1 2 1, .updateOffsets 1 3 41, .nextOffset 1 3, .deleteTopic 1, .createTopic 1 4 1, .nextOffset 1 3,
      .commit 1 1 0 5 1, .commit 1 1 0 5 2, .fetch 1 1 0] =
      [.ok, .ok, .errUnknown, .ok, .ok, .offset 0, .ok, .ok, .coff 5 2] := by
  decide

/-- **Mirrored asymmetry outside the statement's operation list.** After `CreateTopic(t, 3, rf 1)`
`FetchTopicConfig` reports replication factor 1 in memory but 3 (= partition count) from etcd. -/
theorem _root_.KafVerif.C17.config_default_differs :
    runM (initM 1) [.createTopic 1 3 1, .fetchConfig 1] = [.ok, .cfg ⟨3, 1, 0⟩] ∧
    runE (initE 1) [.createTopic 1 3 1, .fetchConfig 1] = [.ok, .cfg ⟨3, 3, 0⟩] := by
  decide

/-- **The hypothesis of `Admissible` is needed**: with `lastOffset = -5` the (C05-fixed) stores
diverge — memory keeps 0, etcd stores -4. -/
theorem _root_.KafVerif.C17.negative_offsets_diverge :
    runM (initM 1) [.createTopic 1 1 1, .updateOffsets 1 0 (-5), .nextOffset 1 0] = [.ok, .ok, .offset 0] ∧
    runE (initE 1) [.createTopic 1 1 1, .updateOffsets 1 0 (-5), .nextOffset 1 0] = [.ok, .ok, .offset (-4)] := by
  decide

/-- **The hypothesis on `CommitConsumerOffset` is needed**: a commit under the empty group id is
listed by the in-memory store but dropped by the etcd store's key re-parsing. -/
theorem _root_.KafVerif.C17.empty_group_commit_unlisted :
    runM (initM 1) [.createTopic 1 1 1, .commit 0 1 0 5 9, .listOffsets] = [.ok, .ok, .coffs [((0, 1, 0), 5)]] ∧
    runE (initE 1) [.createTopic 1 1 1, .commit 0 1 0 5 9, .listOffsets] = [.ok, .ok, .coffs []] := by
  decide

/-- **Divergence before the fix (1).** Commit an offset, delete the topic, re-create it: the
in-memory store still reports the old commit, the etcd store reports none. -/
theorem _root_.KafVerif.C17.delete_keeps_commits_old :
    runMOld (initM 1) [.createTopic 1 1 1, .commit 7 1 0 5 9, .deleteTopic 1, .createTopic 1 1 1, .fetch 7 1 0] =
      [.ok, .ok, .ok, .ok, .coff 5 9] ∧
    runE (initE 1) [.createTopic 1 1 1, .commit 7 1 0 5 9, .deleteTopic 1, .createTopic 1 1 1, .fetch 7 1 0] =
      [.ok, .ok, .ok, .ok, .coff 0 0] := by
  decide

/-- **Divergence before the fix (2).** `CreatePartitions("missing", 0)`: invalid from the in-memory
store, unknown-topic from the etcd store. -/
theorem _root_.KafVerif.C17.grow_error_order_old :
    runM (initM 1) [.createPartitions 9 0] = [.errInvalid] ∧
    runEOld (initE 1) [.createPartitions 9 0] = [.errUnknown] := by
  decide

end KafVerif.MetaStore
