import KafVerif.Gen.C01LogOps
import KafVerif.Model.StorageLogOpsSpec
/-!
C01 / C05 / C06, static tie.  `Gen/C01LogOps.lean` is regenerated from the CURRENT `pkg/storage/log.go`,
`pkg/storage/buffer.go` and `cmd/broker/main.go` by `checks/C01_common.py` (go/ast) before this file is built.

The model (`Model/StorageLog.lean`) runs one `l.mu` critical section / one external call / one condvar wake-up
as ONE atomic step; the dynamic tie can only confirm that on the schedules the seams let it run (there is no
seam inside a critical section, nor between two of them that no S3 / store call separates).  The obligations
here confirm the shape of the code that makes it true for every schedule:

* `log_ops_match`          the regenerated skeleton IS the table the model assumes (`Model/StorageLogOpsSpec.lean`,
                           one section per function, each naming the model definition it stands for);
* `flush_wait_is_loop`, `state_writes_under_lock`, `failure_path_requeues_under_lock`,
  `empty_flush_target_in_prepare_region`, `drain_returns_copy`, `ack_after_both_uploads`,
  `onflush_after_commit`, `lock_balanced`, `append_is_one_critical_section`, `commit_is_one_critical_section`,
  `registry_recheck_in_flight`, `restore_before_register`
                           refactoring-tolerant consequences, each naming one thing the model's reading of the
                           code depends on (they tell WHAT broke);
* `log_variant_fixed`      the source is the variant `StorageLog.fixed` the theorems of C01/C05/C06 are about;
* `steps_covered`          every event of the transition system that stands for code has its rows, and every row
                           belongs to a step;
* `state_writes_locked_sound`   what the Boolean predicate means (for every table);
* `expected_compiles`, `prepare_denotes`, `append_step_denotes`, `flush_enter_denotes`, `finish_fail_denotes`,
  `finish_commit_denotes`, `empty_target_denotes`
                           the rows of each critical section of the expected table compile to a command list, and
                           running that list IS the corresponding case of `StorageLog.step`, for every state:
                           the expected table cannot be edited to follow a changed source without breaking these.
-/
namespace KafVerif.C01
open KafVerif.LogOps KafVerif.StorageLog

set_option maxRecDepth 100000 in
/-- the lock / flush-protocol skeleton of the current source equals the one the model was written against -/
theorem log_ops_match : KafVerif.Gen.C01.rows = expected := by rfl

/-- every `flushCond.Wait()` sits in `for l.flushing` under `l.mu`, in the critical section that goes on to
`prepareFlush`: a woken waiter re-checks the flag (event `wake` = `flushEnter` again) -/
theorem flush_wait_is_loop : flushWaitIsLoop KafVerif.Gen.C01.rows = true := by decide +kernel

/-- nextOffset / flushing / flushingBatches / segments / indexEntries / the registry are written, and the buffer is
mutated, only with the mutex held, on every call chain -/
theorem state_writes_under_lock : stateWritesLocked KafVerif.Gen.C01.rows = true := by decide +kernel

/-- the upload-failure path re-queues the drained batches in the critical section that clears `flushing` -/
theorem failure_path_requeues_under_lock : failureRequeuesUnderLock KafVerif.Gen.C01.rows = true := by decide +kernel

/-- the offset an empty `Flush` publishes is `l.nextOffset - 1` read in the critical section of `prepareFlush` -/
theorem empty_flush_target_in_prepare_region : emptyFlushTargetInPrepareRegion KafVerif.Gen.C01.rows = true := by decide +kernel

/-- `Drain` returns a copy (make + copy), and that copy is what `prepareFlush` keeps as `flushingBatches` -/
theorem drain_returns_copy : drainReturnsCopy KafVerif.Gen.C01.rows = true := by decide +kernel

/-- upload both objects → g.Wait → error check → commit → return nil → Flush returns nil → error code 0 -/
theorem ack_after_both_uploads : ackAfterBothUploads KafVerif.Gen.C01.rows = true := by decide +kernel

/-- `onFlush` (→ `UpdateOffsets(artifact.LastOffset)`) only after the segment list was committed and `uploadFlush` returned nil -/
theorem onflush_after_commit : onflushAfterCommit KafVerif.Gen.C01.rows = true := by decide +kernel

theorem lock_balanced : lockBalanced KafVerif.Gen.C01.rows = true := by decide +kernel

/-- `BuildSegment` (which `prepareFlush` calls AFTER `Drain`) and `IndexBuilder.BuildBytes` return an error only for an empty
batch list, an empty payload, or a failed write into a `bytes.Buffer`: the model's `buildOk false`, which is total on what
`AppendBatch` accepts (`C01.build_total_on_accepted`) -/
theorem build_errors_known : buildErrorsKnown KafVerif.Gen.C01.rows = true := by decide +kernel

/-- every exit of `prepareFlush` behind the `Drain` call drained nothing, installed the drained batches as `flushingBatches`,
re-queued them, or is the error exit of that (total) `BuildSegment` -/
theorem prepare_exits_install_or_requeue : prepareExitsInstallOrRequeue KafVerif.Gen.C01.rows = true := by decide +kernel

/-- AppendBatch: offset assignment and buffer append are ONE critical section (event `append` is one step) -/
theorem append_is_one_critical_section : appendIsOneRegion KafVerif.Gen.C01.rows = true := by decide +kernel

/-- uploadFlush: the commit (event `finish`, success case) is ONE critical section -/
theorem commit_is_one_critical_section : commitIsOneRegion KafVerif.Gen.C01.rows = true := by decide +kernel

/-- getPartitionLog's singleflight callback re-checks the registry before opening a log: ONE `Mem` per incarnation
(`C06.one_log_per_partition` is about this order; `C06.no_recheck_two_logs` refutes the order without the re-check) -/
theorem registry_recheck_in_flight : registryRecheckInFlight KafVerif.Gen.C01.rows = true := by decide +kernel

/-- the registered log is the one opened at `store.NextOffset` and restored by `RestoreFromS3` — unconditionally, with
its error returned (event `restore` = `scan` over whatever S3 holds, for every stored next offset incl. 0) -/
theorem restore_before_register : restoreBeforeRegister KafVerif.Gen.C01.rows = true := by decide +kernel

/-- the current source is the variant the ∀-theorems of `Props/C01.lean`, `C05.lean`, `C06.lean` are proved for
(`C01.old_violates`, `C05.old_runs_ahead`, `C06.old_violates` refute the other settings of the first two flags) -/
theorem log_variant_fixed : variantOf KafVerif.Gen.C01.rows = StorageLog.fixed := by
  have h : buildErrorExitRequeues KafVerif.Gen.C01.rows = false := by decide +kernel
  simp [variantOf, failure_path_requeues_under_lock, empty_flush_target_in_prepare_region, build_errors_known, h, StorageLog.fixed]

/-! ### the table covers the model -/

/-- every event of the transition system that stands for code has a non-empty set of rows; every step has rows;
every row of the table belongs to a step -/
theorem steps_covered :
    (∀ e st, evStep e = some st → (stepRows expected st).isEmpty = false) ∧
    (∀ st ∈ Step.all, (stepRows expected st).isEmpty = false) ∧
    (expected.all fun r => (stepOf r).isSome) = true ∧
    expected = sections.flatMap (·.2) := by
  have h : ∀ st ∈ Step.all, (stepRows expected st).isEmpty = false := by decide +kernel
  refine ⟨?_, h, by decide +kernel, rfl⟩
  intro e st he
  apply h
  cases st <;> simp [Step.all]

/-! ### what the lock predicate means -/

/-- the receiver's mutex is write-held at a row on every call chain from an entry function -/
inductive Held (rows : List Row) : Row → Prop where
  | direct (r : Row) : r.lk = .held → Held rows r
  | via (r : Row) : r.lk = .inherit → callersOf rows r.fn ≠ [] →
      (∀ c ∈ callersOf rows r.fn, Held rows c) → Held rows r

theorem effHeld_sound (rows : List Row) (n : Nat) (r : Row) (h : effHeld rows n r = true) : Held rows r := by
  induction n generalizing r with
  | zero => simp [effHeld] at h
  | succ n ih =>
    unfold effHeld at h
    cases hl : r.lk with
    | held => exact .direct r hl
    | rheld => simp [hl] at h
    | free => simp [hl] at h
    | inherit =>
      simp only [hl, Bool.and_eq_true, Bool.not_eq_true', List.all_eq_true] at h
      refine .via r hl ?_ (fun c hc => ih c (h.2 c hc))
      intro he
      simp [he] at h

/-- `stateWritesLocked`: every field write and every buffer mutation of the table is `Held` -/
theorem state_writes_locked_sound (rows : List Row) (h : stateWritesLocked rows = true) :
    ∀ r ∈ rows, (r.ev.isWrite = true ∨ r.ev.isBufferMutation = true) → Held rows r := by
  intro r hr hw
  simp only [stateWritesLocked, List.all_eq_true, Bool.or_eq_true, Bool.not_eq_true'] at h
  rcases h r hr with h' | h'
  · rcases hw with hw | hw <;> simp [hw] at h'
  · exact effHeld_sound rows _ r h'

/-! ### the rows of each critical section ARE the corresponding case of `StorageLog.step` -/

/-- the critical sections of the expected table compile to the hand-written command lists -/
theorem expected_compiles :
    compile prepareRows = some prepareCmds ∧ compile appendRows = some appendCmds ∧
    compile flushRows = some flushCmds ∧ compile failRows = some failCmds ∧
    compile commitRows = some commitCmds := by decide +kernel

/-- what a run of `prepareCmds` returned: `(nil, err)`, `(artifact, nil)` or `(nil, nil)` -/
def prepOf (k : Mach) : Prep := if k.err then .err else match k.art with | some a => .art a | none => .none

/-- the rows of `prepareFlush` (+ `Drain`, + the `BuildSegment` call and ITS ERROR EXIT, which returns with the drained batches
in no field) = the model's `prepareFlush`, for every memory, every `BuildSegment` rule and every shape whose error exit does
not re-queue — the source's -/
theorem prepare_denotes (cfg : Cfg) (v : Variant) (fault : Bool) (m : Mem) (hv : v.requeueBuild = false) :
    ((execCmds prepareCmds { cfg := cfg, m := m, v := v, fault := fault }).m,
      prepOf (execCmds prepareCmds { cfg := cfg, m := m, v := v, fault := fault })) = prepareFlush v fault m := by
  rcases m with ⟨nx, bf, fl, inf, sg⟩
  cases fl with
  | true => simp [execCmds, prepareCmds, stepCmd, touch, condHolds, doAct, prepareFlush, prepOf]
  | false =>
    cases bf with
    | nil => simp [execCmds, prepareCmds, stepCmd, touch, condHolds, doAct, prepareFlush, prepOf]
    | cons b bs =>
      cases hb : buildFails v fault (b :: bs) <;>
        simp [execCmds, prepareCmds, stepCmd, touch, condHolds, doAct, prepareFlush, prepOf, hb, hv]

/-- model event `append t n mc len` = the rows of AppendBatch's critical section (snapshot nextOffset, bump it, Append,
ShouldFlush → prepareFlush; a `prepareFlush` error makes AppendBatch return it), for every state -/
theorem append_step_denotes (v : Variant) (s : State) (m : Mem) (t n : Nat) (mc : Int) (len : Nat)
    (hm : s.mem = some m) (hp : s.pcs t = .idle) (hn : 1 ≤ n) (hl : 8 ≤ len) :
    let k := execCmds appendCmds { cfg := s.cfg, m := m, v := v, fault := s.fault, id := s.nextId, n := n, mc := mc, len := len }
    let b : Batch := ⟨s.nextId, m.next, n, mc, len⟩
    step v s (.append t n mc len) = some
      (if k.err then { setPc { s with nextId := s.nextId + 1 } t (.failed b) with mem := some k.m }
       else match k.art with
       | some art => { setPc { s with nextId := s.nextId + 1 } t (.up true b art none none) with mem := some k.m }
       | none => { setPc { s with nextId := s.nextId + 1 } t (.appended b) with mem := some k.m }) := by
  intro k b
  simp only [step, hm, hp, hn, hl, and_self, if_true]
  by_cases hs : shouldFlush s.cfg (m.buffer ++ [{ id := s.nextId, base := m.next, n := n, mc := mc, len := len }]) = true
  · rcases hpf : prepareFlush v s.fault { m with next := m.next + n, buffer := m.buffer ++ [{ id := s.nextId, base := m.next, n := n, mc := mc, len := len }] } with ⟨m2, a⟩
    cases a <;>
      simp [k, b, execCmds, appendCmds, stepCmd, touch, condHolds, doAct, hs, hpf]
  · simp [k, b, execCmds, appendCmds, stepCmd, touch, condHolds, doAct, hs]

/-- model events `flush t` / `wake t` (`flushEnter`) = the rows of Flush's critical section: wait while `l.flushing`
(back to the loop head when woken), else prepareFlush and — in the same critical section — the empty-flush target -/
theorem flush_enter_denotes (s : State) (m : Mem) (t : Nat) (b : Batch) :
    let k := execCmds flushCmds { cfg := s.cfg, m := m, fault := s.fault }
    flushEnter fixed s m t b =
      if k.waiting then setPc s t (.waitF b)
      else if k.err then { setPc s t (.failed b) with mem := some k.m }
      else match k.art with
        | some art => { setPc s t (.up false b art none none) with mem := some k.m }
        | none =>
          match k.target with
          | some h => if 1 ≤ h then setPc s t (.pub false b h) else ackNow s t b
          | none => s := by
  intro k
  cases hf : m.flushing with
  | true => simp [k, execCmds, flushCmds, stepCmd, touch, condHolds, doAct, flushEnter, hf]
  | false =>
    cases hb : m.buffer with
    | nil => simp [k, execCmds, flushCmds, stepCmd, touch, condHolds, doAct, flushEnter, prepareFlush, emptyTarget, fixed, hf, hb]
    | cons x xs =>
      cases hbf : buildFails fixed s.fault (x :: xs) <;>
        simp [k, execCmds, flushCmds, stepCmd, touch, condHolds, doAct, flushEnter, prepareFlush, hf, hb, hbf]
      simp [fixed]

/-- model event `finish t`, failure case = the rows of uploadFlush's failure branch (Requeue, clear flushing, clear
flushingBatches — in this order, one critical section); the commit rows do nothing on this path -/
theorem finish_fail_denotes (s : State) (m : Mem) (t : Nat) (inA : Bool) (b : Batch) (art : List Batch) (so io : Bool)
    (hm : s.mem = some m) (hp : s.pcs t = .up inA b art (some so) (some io)) (h : (so && io) = false) :
    step fixed s (.finish t) = some { setPc s t (.failed b) with
      mem := some (execCmds (failCmds ++ commitCmds) { cfg := s.cfg, m := m, art := some art, err := true }).m } := by
  simp [step, hm, hp, h, fixed, execCmds, failCmds, commitCmds, stepCmd, touch, condHolds, doAct]

/-- model event `finish t`, success case = the rows of uploadFlush's commit section -/
theorem finish_commit_denotes (s : State) (m : Mem) (t : Nat) (inA : Bool) (b : Batch) (art : List Batch) (so io : Bool)
    (hm : s.mem = some m) (hp : s.pcs t = .up inA b art (some so) (some io)) (h : (so && io) = true) :
    step fixed s (.finish t) = some { setPc s t (.pub inA b (endOf art)) with
      mem := some (execCmds (failCmds ++ commitCmds) { cfg := s.cfg, m := m, art := some art, err := false }).m } := by
  simp [step, hm, hp, h, execCmds, failCmds, commitCmds, stepCmd, touch, condHolds, doAct]

/-- `current := l.nextOffset - 1; if current >= 0 { onFlush(LastOffset: current) }` with `UpdateOffsets(last)` storing
`last + 1` = the model's `emptyTarget`: publish `m.next` iff `1 ≤ m.next` -/
theorem empty_target_denotes (s : State) (m : Mem) (t : Nat) (b : Batch) :
    emptyTarget s m t b =
      if 0 ≤ (m.next : Int) - 1 then setPc s t (.pub false b (((m.next : Int) - 1).toNat + 1)) else ackNow s t b := by
  by_cases h : 1 ≤ m.next
  · have h1 : (0 : Int) ≤ (m.next : Int) - 1 := by omega
    have h2 : ((m.next : Int) - 1).toNat + 1 = m.next := by omega
    rw [emptyTarget, if_pos h, if_pos h1, h2]
  · have h1 : ¬ (0 : Int) ≤ (m.next : Int) - 1 := by omega
    rw [emptyTarget, if_neg h, if_neg h1]

-- non-vacuity: each predicate rejects the mutation it names
example : flushWaitIsLoop (expected.map fun r => if r.ev.isWait then { r with ev := .wait "l.flushCond" "if" "l.flushing" } else r) = false := by
  decide +kernel
example : stateWritesLocked (expected.map fun r =>
    if r.fid == Fn.flush && r.ev.isCallOf "l" "prepareFlush" then { r with lk := .free } else r) = false := by decide +kernel
example : failureRequeuesUnderLock (expected.filter fun r => r.ev != requeueEv) = false := by decide +kernel
example : failureRequeuesUnderLock (expected.map fun r => if r.ev == requeueEv then { r with lk := .free } else r) = false := by decide +kernel
example : emptyFlushTargetInPrepareRegion (expected.map fun r =>
    if r.ev == .read "current" "l.nextOffset - 1" then { r with lk := .free } else r) = false := by decide +kernel
example : drainReturnsCopy (expected.map fun r =>
    if r.fid == Fn.bufDrain && r.ev.isRet then { r with ev := .ret ["drained"] ["alias"] true } else r) = false := by decide +kernel
example : ackAfterBothUploads (expected.filter fun r => !(r.fid == Fn.handleProduce && r.ev == .jump "continue")) = false := by decide +kernel
example : onflushAfterCommit (expected.filter fun r => !(r.ev.writesTo "l.segments")) = false := by decide +kernel
example : appendIsOneRegion (expected.map fun r =>
    if r.fid == Fn.appendBatch && r.ev.isCallOf "l.buffer" "Append" then { r with region := 2 } else r) = false := by decide +kernel
example : commitIsOneRegion (expected.map fun r =>
    if r.fid == Fn.uploadFlush && r.ev.writesTo "l.segments" then { r with region := 2 } else r) = false := by decide +kernel
example : registryRecheckInFlight (expected.filter fun r => !(r.fid == Fn.getPartitionLog && r.lit == 1 && r.region == 2)) = false := by
  decide +kernel
example : restoreBeforeRegister (expected.map fun r =>
    if r.ev.isCallOf "plog" "RestoreFromS3" then { r with guard := r.guard ++ ["nextOffset > 0"] } else r) = false := by decide +kernel
example : (execCmds failCmds { cfg := ⟨0, 0⟩, m := ⟨3, [⟨2, 2, 1, 1, 72⟩], true, [⟨0, 0, 1, 1, 72⟩, ⟨1, 1, 1, 1, 72⟩], []⟩, err := true }).m =
    ⟨3, [⟨0, 0, 1, 1, 72⟩, ⟨1, 1, 1, 1, 72⟩, ⟨2, 2, 1, 1, 72⟩], false, [], []⟩ := by decide +kernel
-- a validation of the declared record count in BuildSegment (the hardening change) is not one of the known error returns
example : buildErrorsKnown (expected.flatMap fun r =>
    if r.fid == Fn.buildSegment && r.ev.isCallOf "index" "MaybeAdd" then
      [{ r with guard := r.guard ++ ["batch.MessageCount < 0"], ev := .ret ["nil", "fmt.Errorf(..)"] ["const", "call"] false },
       { r with guard := r.guard ++ ["!(batch.MessageCount < 0)"] }]
    else [r]) = false := by decide +kernel
example : prepareExitsInstallOrRequeue (expected.flatMap fun r =>
    if r.fid == Fn.buildSegment && r.ev.isCallOf "index" "MaybeAdd" then
      [{ r with guard := r.guard ++ ["batch.MessageCount < 0"], ev := .ret ["nil", "fmt.Errorf(..)"] ["const", "call"] false }, r]
    else [r]) = false := by decide +kernel
-- an early return between Drain and the install of flushingBatches drops what was drained
example : prepareExitsInstallOrRequeue (expected.flatMap fun r =>
    if r.fid == Fn.prepareFlush && r.ev == .write "l.flushing" "true" then
      [{ r with guard := r.guard ++ ["len(batches) > 1000"], ev := .ret ["nil", "nil"] ["const", "const"] false }, r]
    else [r]) = false := by decide +kernel
-- with a Requeue(batches) on the BuildSegment-error exit the obligation holds whatever BuildSegment rejects
example : prepareExitsInstallOrRequeue (expected.flatMap fun r =>
    if r.fid == Fn.buildSegment && r.ev.isCallOf "index" "MaybeAdd" then
      [{ r with guard := r.guard ++ ["batch.MessageCount < 0"], ev := .ret ["nil", "fmt.Errorf(..)"] ["const", "call"] false }, r]
    else if r.fid == Fn.prepareFlush && r.ev.isErrRet then [{ r with ev := requeueDrainedEv }, r]
    else [r]) = true := by decide +kernel

end KafVerif.C01
