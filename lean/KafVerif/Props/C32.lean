import KafVerif.Model.LfsHttp
/-!
C32 — An LFS HTTP upload reported successful is stored and acknowledged.

Statement (properties.jsonl): when the LFS HTTP API returns success for an upload (single request
or multipart session), the object named in the returned envelope exists; its size and SHA-256
match the envelope, and the broker has acknowledged the envelope record without error.  Otherwise
the client gets an error status.  Quantifier: every upload (part sizes, part lists in the
completion request, checksums) and every broker reply (success or per-partition error codes).

* `produce_ok_sound`  single request, every body / algorithm / checksum / S3 fault / broker reply;
* `http_ok_sound`     multipart: after EVERY history of init / part / complete / abort / expire
                      operations (any part numbers, sizes, re-PUTs, S3 failures, completion lists,
                      broker replies), a `complete` answered 200 means: the object is exactly the
                      data the envelope's SHA-256 and size were computed from, and the broker acked;
* three witness theorems for the behaviour before the fixes (`…Old`).
The object's bytes are abstract chunk lists, so "SHA-256 matches" is "the envelope digest was
computed over exactly the object's bytes" — it holds for every hash function.
-/
namespace KafVerif.LfsHttp

def c1' : Chunk := ⟨2, 7⟩

def nums (k : Nat) : List Nat := (List.range k).map (· + 1)

structure SInv (st : St) (s : Sess) : Prop where
  hashed : s.hashed = s.parts.map (·.2)
  total : s.total = dlen s.hashed
  keys : s.parts.map (·.1) = nums s.parts.length
  s3 : st.s3open = true → st.s3parts = s.parts

def Inv (st : St) : Prop := ∀ s, st.sess = some s → SInv st s

theorem inv_init (mb : Int) : Inv (St.init mb) := by
  intro s h; simp [St.init] at h

theorem doInit_inv (st : St) (size : Int) (alg : Alg) (ck : Ck) (cf : Bool) (h : Inv st) :
    Inv (doInit st size alg ck cf).1 := by
  unfold doInit
  repeat (first | exact h | split)
  intro s hs
  simp only [Option.some.injEq] at hs
  subst hs
  exact ⟨rfl, by simp [dlen], by simp [nums], fun _ => rfl⟩

theorem filter_fresh {l : List (Nat × Chunk)} {n : Nat} (hk : l.map (·.1) = nums l.length)
    (hn : n = l.length + 1) : l.filter (·.1 != n) = l := by
  apply List.filter_eq_self.mpr
  intro p hp
  have : p.1 ∈ l.map (·.1) := List.mem_map_of_mem hp
  rw [hk] at this
  simp [nums] at this
  obtain ⟨a, ha, hap⟩ := this
  simp; omega

theorem doPart_inv (st : St) (n : Nat) (c : Chunk) (f : Bool) (h : Inv st) : Inv (doPart st n c f).1 := by
  simp only [doPart, doPartWith, Bool.false_eq_true, if_false]
  split
  · exact h
  · rename_i s hs
    have hi := h s hs
    split; exact h
    split; exact h
    rename_i hnn
    split; exact h
    split; exact h
    split; exact h
    split; exact h
    split
    · intro s' hs'
      simp only [Option.some.injEq] at hs'
      subst hs'
      exact ⟨hi.hashed, hi.total, hi.keys, hi.s3⟩
    · rename_i hs3
      intro s' hs'
      simp only [Option.some.injEq] at hs'
      subst hs'
      have hn : n = s.parts.length + 1 := by simpa [Sess.nextPart] using hnn
      have hopen : st.s3open = true := by
        cases ho : st.s3open <;> simp_all
      refine ⟨?_, ?_, ?_, ?_⟩
      · simp [hi.hashed]
      · simp only [hi.total, dlen, List.map_append, List.sum_append]; simp
      · simp only [List.map_append, hi.keys, List.length_append, List.length_cons, List.length_nil]
        simp [nums, List.range_succ, hn]
      · intro _
        simp only [setPart]
        rw [hi.s3 hopen, filter_fresh hi.keys hn]

theorem lookup_cons_ne {k k' : Nat} {c : Chunk} {t : List (Nat × Chunk)} (h : k ≠ k') :
    lookupPart ((k, c) :: t) k' = lookupPart t k' := by
  simp [lookupPart, h]

theorem filterMap_congr' {α β : Type} {f g : α → Option β} :
    ∀ (l : List α), (∀ a ∈ l, f a = g a) → l.filterMap f = l.filterMap g
  | [], _ => rfl
  | a :: t, h => by
    simp only [List.filterMap_cons, h a (by simp)]
    rw [filterMap_congr' t (fun x hx => h x (by simp [hx]))]

theorem filterMap_lookup (l : List (Nat × Chunk)) (hnd : (l.map (·.1)).Nodup) :
    (l.map (·.1)).filterMap (lookupPart l) = l.map (·.2) := by
  induction l with
  | nil => simp
  | cons p t ih =>
    obtain ⟨k, c⟩ := p
    simp only [List.map_cons, List.nodup_cons] at hnd
    simp only [List.map_cons, List.filterMap_cons]
    have h1 : lookupPart ((k, c) :: t) k = some c := by simp [lookupPart]
    rw [h1]
    simp only
    congr 1
    rw [← ih hnd.2]
    apply filterMap_congr'
    intro k' hk'
    apply lookup_cons_ne
    intro e; subst e; exact hnd.1 hk'

theorem nums_nodup (k : Nat) : (nums k).Nodup := by
  unfold nums List.Nodup
  have := List.Pairwise.map (S := fun a b : Nat => a ≠ b) (fun x => x + 1) (fun a b (h : a < b) => by omega)
    (List.pairwise_lt_range (n := k))
  exact this

theorem acked_of_200 (b : Broker) (h : produceStatus b = 200) : acked b = true := by
  cases b <;> simp_all [produceStatus, acked]

theorem doComplete_inv (st : St) (l : List (Nat × Etag)) (f : Bool) (b : Broker) (h : Inv st) :
    Inv (doComplete st l f b).1 := by
  simp only [doComplete, doCompleteWith]
  split
  · exact h
  · rename_i s hs
    have hi := h s hs
    split; exact h
    split; exact h
    split; exact h
    split; exact h
    split; exact h
    split
    · exact h
    · have key : ∀ obj, Inv { st with object := some obj, s3open := false, s3parts := [] } := by
        intro obj s' hs'
        have : s' = s := by simpa [hs] using hs'.symm
        subst this
        exact ⟨hi.hashed, hi.total, hi.keys, fun h => by simp at h⟩
      split; exact key _
      split; exact key _
      split
      · intro s' hs'; simp at hs'
      · exact key _

theorem s3Complete_exact {st : St} {s : Sess} (hi : SInv st s) {l : List (Nat × Etag)} {obj : List Chunk}
    (hex : listExact s l = true) (hobj : s3Complete st (l.map (·.1)) = some obj) : obj = s.hashed := by
  have hl : l.map (·.1) = nums s.parts.length := by simpa [listExact, nums] using hex
  unfold s3Complete at hobj
  split at hobj
  · simp at hobj
  · rename_i hopen
    have ho : st.s3open = true := by
      cases h : st.s3open <;> simp_all
    split at hobj
    · simp only [Option.some.injEq] at hobj
      rw [← hobj, hi.s3 ho, hl, ← hi.keys, filterMap_lookup _ (by rw [hi.keys]; exact nums_nodup _), hi.hashed]
    · simp at hobj

theorem doComplete_sound (st : St) (l : List (Nat × Etag)) (f : Bool) (b : Broker) (h : Inv st)
    (st' : St) (o : Out) (heq : doComplete st l f b = (st', o)) (h200 : o.status = 200) :
    ∃ env, o.env = some env ∧ st'.object = some env.shaOf ∧ dlen env.shaOf = env.size ∧
      acked b = true ∧ o.produced = true := by
  simp only [doComplete, doCompleteWith] at heq
  split at heq
  · obtain ⟨rfl, rfl⟩ := Prod.mk.inj heq; simp at h200
  · rename_i s hs
    have hi := h s hs
    split at heq
    · obtain ⟨rfl, rfl⟩ := Prod.mk.inj heq; simp at h200
    split at heq
    · obtain ⟨rfl, rfl⟩ := Prod.mk.inj heq; simp at h200
    split at heq
    · obtain ⟨rfl, rfl⟩ := Prod.mk.inj heq; simp at h200
    split at heq
    · obtain ⟨rfl, rfl⟩ := Prod.mk.inj heq; simp at h200
    rename_i hex
    split at heq
    · obtain ⟨rfl, rfl⟩ := Prod.mk.inj heq; simp at h200
    split at heq
    · obtain ⟨rfl, rfl⟩ := Prod.mk.inj heq; simp at h200
    · rename_i obj hobj
      have hobj' : obj = s.hashed := s3Complete_exact hi (by simpa using hex) hobj
      split at heq
      · obtain ⟨rfl, rfl⟩ := Prod.mk.inj heq; simp at h200
      split at heq
      · obtain ⟨rfl, rfl⟩ := Prod.mk.inj heq; simp at h200
      split at heq
      · rename_i hcode
        obtain ⟨rfl, rfl⟩ := Prod.mk.inj heq
        exact ⟨⟨s.total, s.hashed⟩, rfl, by simp [hobj'], by simp [hi.total], acked_of_200 b (by simpa using hcode), rfl⟩
      · rename_i hcode
        obtain ⟨rfl, rfl⟩ := Prod.mk.inj heq
        simp at h200
        exact absurd h200 (by simpa using hcode)

/-! ### invariant is preserved by every operation and holds in every reachable state -/

theorem doAbort_inv (st : St) (h : Inv st) : Inv (doAbort st).1 := by
  unfold doAbort
  split
  · exact h
  · intro s hs; simp at hs

theorem doExpire_inv (st : St) : Inv (doExpire st).1 := by
  intro s hs; simp [doExpire] at hs

theorem step_inv (st : St) (op : Op) (h : Inv st) : Inv (step st op).1 := by
  cases op with
  | init size alg ck cf => exact doInit_inv st size alg ck cf h
  | part n c f => exact doPart_inv st n c f h
  | complete l f b => exact doComplete_inv st l f b h
  | abort => exact doAbort_inv st h
  | expire => exact doExpire_inv st

theorem run_inv (st : St) (ops : List Op) (h : Inv st) : Inv (run step st ops).1 := by
  induction ops generalizing st with
  | nil => exact h
  | cons op rest ih =>
    simp only [run]
    exact ih _ (step_inv st op h)

/-- **C32 (multipart).** After ANY history of session operations on a fresh proxy, if a completion
request is answered 200 then (1) the reply carries an envelope, (2) the object stored under the
envelope's key is exactly the byte sequence the envelope's SHA-256 was computed over, (3) its
length is the envelope's size, (4) the broker acknowledged the envelope record with error code 0
(and a produce request was really sent). -/
theorem _root_.KafVerif.C32.http_ok_sound (maxBlob : Int) (history : List Op)
    (list : List (Nat × Etag)) (s3Fails : Bool) (b : Broker) :
    let st := (run step (St.init maxBlob) history).1
    let r := step st (.complete list s3Fails b)
    r.2.status = 200 →
      ∃ env, r.2.env = some env ∧ r.1.object = some env.shaOf ∧ dlen env.shaOf = env.size ∧
        acked b = true ∧ r.2.produced = true := by
  intro st r h200
  have hinv : Inv st := run_inv _ history (inv_init maxBlob)
  exact doComplete_sound st list s3Fails b hinv r.1 r.2 rfl h200

/-- no other session operation ever answers with an envelope -/
theorem _root_.KafVerif.C32.only_complete_returns_envelope (st : St) (op : Op) (env : Envelope)
    (h : (step st op).2.env = some env) : ∃ l f b, op = .complete l f b := by
  cases op with
  | complete l f b => exact ⟨l, f, b, rfl⟩
  | init size alg ck cf =>
    simp only [step, doInit] at h
    repeat (first | contradiction | split at h)
    all_goals simp at h
  | part n c f =>
    simp only [step, doPart, doPartWith] at h
    repeat (first | contradiction | split at h)
    all_goals simp at h
  | abort =>
    simp only [step, doAbort] at h
    split at h <;> simp at h
  | expire => simp [step, doExpire] at h

/-! ### single request -/

theorem uploadStream_cases (mb : Int) (body : List Chunk) (f : S3Fault) :
    uploadStream mb body f = .ok () ∨ uploadStream mb body f = .error 400 ∨ uploadStream mb body f = .error 502 := by
  unfold uploadStream
  simp only []
  repeat' split
  all_goals simp

theorem uploadStream_err {mb : Int} {body : List Chunk} {f : S3Fault} {st : Nat}
    (h : uploadStream mb body f = .error st) : st ≠ 200 := by
  rcases uploadStream_cases mb body f with h' | h' | h' <;> rw [h'] at h <;> simp at h <;> omega

theorem uploadStream_ok {mb : Int} {body : List Chunk} {f : S3Fault}
    (h : uploadStream mb body f = .ok ()) : dlen body ≠ 0 := by
  unfold uploadStream at h
  intro h0
  simp [h0] at h

/-- **C32 (single request).** `POST /lfs/produce` answers 200 only if the object under the
envelope's key holds exactly the request body (which is not empty), the envelope's size and
SHA-256 are those of the body, and the broker acknowledged the envelope record with error code 0. -/
theorem _root_.KafVerif.C32.produce_ok_sound (maxBlob : Int) (alg : Alg) (ck : Ck) (body : List Chunk)
    (f : S3Fault) (b : Broker) (h : (produce maxBlob alg ck body f b).status = 200) :
    (produce maxBlob alg ck body f b).object = some body ∧
    (produce maxBlob alg ck body f b).env = some ⟨dlen body, body⟩ ∧
    acked b = true ∧ (produce maxBlob alg ck body f b).produced = true ∧ dlen body ≠ 0 := by
  simp only [produce, produceWith] at h ⊢
  split at h
  · simp at h
  split at h
  · simp at h
  rename_i h1 h2
  simp only [h1, h2, if_false, Bool.false_eq_true]
  cases hu : uploadStream maxBlob body f with
  | error st =>
    rw [hu] at h
    exact absurd h (uploadStream_err hu)
  | ok u =>
    rw [hu] at h
    simp only at h ⊢
    split at h
    · simp at h
    · rename_i hck
      simp only [hck, if_false, Bool.false_eq_true]
      simp only at h
      have hb := acked_of_200 b h
      refine ⟨trivial, by simp [h], hb, ?_, uploadStream_ok hu⟩
      cases b <;> simp_all [acked, produceStatus]

/-! ### the produce-ack predicate is `code = 0`, over ALL int16/Int codes (negative ones included) -/

/-- **C32 (ack predicate).** A produce response that mentions our partition counts as an
acknowledgement exactly when its error code is 0 — every other code, positive or NEGATIVE
(−1 = UNKNOWN_SERVER_ERROR is what the broker answers on internal produce faults), is an error. -/
theorem _root_.KafVerif.C32.ack_iff_code_zero (n : Int) :
    (produceStatus (.code n) = 200 ↔ n = 0) ∧ (acked (.code n) = true ↔ n = 0) ∧
    (n ≠ 0 → produceStatus (.code n) = 502) := by
  refine ⟨?_, ?_, ?_⟩
  · simp only [produceStatus]
    split <;> simp_all
  · simp [acked]
  · intro h; simp [produceStatus, h]

/-- the variant that rejects only positive codes (`ErrorCode > 0`) -/
def produceStatusPositiveOnly : Broker → Nat
  | .ack => 200
  | .refuse => 503
  | .code n => if n > 0 then 502 else 200
  | _ => 502

/-- witness: with `> 0` the reply code −1 yields 200 although the broker did not acknowledge -/
theorem _root_.KafVerif.C32.ackPositiveOnly_violates :
    ∃ b, (produceWith produceStatusPositiveOnly 0 .sha256 .absent [c1'] .none b).status = 200 ∧ acked b = false :=
  ⟨.code (-1), by decide⟩

/-! ### the code before the fixes violates the property (kept so a regression is recognised) -/

def c5 : Chunk := ⟨1, minPart⟩
def c1 : Chunk := ⟨2, 7⟩

/-- (1) produce reply ignored: a per-partition error code still gives 200 -/
theorem _root_.KafVerif.C32.produceOld_violates :
    ∃ b, (produceOld 0 .sha256 .absent [c1] .none b).status = 200 ∧ acked b = false :=
  ⟨.code 6, by decide⟩

/-- (2) completion with a subset of the parts: the object lacks part 1 but the envelope's size and
SHA-256 cover both parts -/
theorem _root_.KafVerif.C32.completeOld_subset_violates :
    ∃ ops : List Op, ∃ env,
      ((run stepOld (St.init 0) ops).2.getLast?.bind (·.env)) = some env ∧
      (run stepOld (St.init 0) ops).1.object ≠ some env.shaOf :=
  ⟨[.init (minPart + 7) .sha256 .absent false, .part 1 c5 false, .part 2 c1 false,
    .complete [(2, .ok)] false .ack], ⟨minPart + 7, [c5, c1]⟩, by decide⟩

/-- (3) a part whose S3 upload failed was already hashed; the retry hashes it again, so the
envelope's SHA-256 is not the object's -/
theorem _root_.KafVerif.C32.partOld_rehash_violates :
    ∃ ops : List Op, ∃ env,
      ((run stepOld (St.init 0) ops).2.getLast?.bind (·.env)) = some env ∧
      (run stepOld (St.init 0) ops).1.object ≠ some env.shaOf :=
  ⟨[.init 7 .sha256 .absent false, .part 1 c1 true, .part 1 c1 false, .complete [(1, .ok)] false .ack],
   ⟨7, [c1, c1]⟩, by decide⟩

/-! ### concurrent part requests: the session lock held across the S3 call makes every schedule serial -/

/-- `b` is a state of the SEQUENTIAL session machine -/
def Reach (mb : Int) (b : St) : Prop := ∃ ops : List Op, b = (run step (St.init mb) ops).1

theorem run_append (st : St) (xs ys : List Op) :
    (run step st (xs ++ ys)).1 = (run step (run step st xs).1 ys).1 := by
  induction xs generalizing st with
  | nil => rfl
  | cons x rest ih => simp only [List.cons_append, run]; exact ih _

theorem reach_step {mb : Int} {b : St} (h : Reach mb b) (o : Op) : Reach mb (step b o).1 := by
  obtain ⟨ops, rfl⟩ := h
  exact ⟨ops ++ [o], by rw [run_append]; rfl⟩

theorem reach_inv {mb : Int} {b : St} (h : Reach mb b) : Inv b := by
  obtain ⟨ops, rfl⟩ := h
  exact run_inv _ ops (inv_init mb)

/-- steps (1)–(3) of a part request that passes the checks and whose S3 call succeeds ARE `doPart` -/
theorem doPart_of_check {b : St} {s : Sess} {n : Nat} {c : Chunk} (hi : Inv b) (hs : b.sess = some s)
    (hc : partCheck s n c = none) (ho : b.s3open = true) :
    (step b (.part n c false)).1 =
      { b with s3parts := setPart b.s3parts n c,
               sess := some { s with parts := setPart s.parts n c, hashed := s.hashed ++ [c], total := s.total + c.len } } := by
  have hk := (hi s hs).keys
  unfold partCheck at hc
  by_cases h1 : (lookupPart s.parts n).isSome = true
  · simp [h1] at hc
  by_cases h2 : (n != s.nextPart) = true
  · simp [h1, h2] at hc
  by_cases h3 : (c.len == 0) = true
  · simp [h1, h2, h3] at hc
  by_cases h4 : c.len > minPart
  · simp [h1, h2, h3, h4] at hc
  by_cases h5 : s.total + c.len > s.sizeBytes
  · simp [h1, h2, h3, h4, h5] at hc
  by_cases h6 : (decide (s.total + c.len < s.sizeBytes) && decide (c.len < minPart)) = true
  · simp [h1, h2, h3, h4, h5, h6] at hc
  have hn : n = s.parts.length + 1 := by simpa [Sess.nextPart] using h2
  have hf : s.parts.filter (·.1 != n) = s.parts := filter_fresh hk hn
  simp only [step, doPart, doPartWith, hs, Bool.false_eq_true, if_false, h1, h2, h3, h4, h5, h6, ho,
    Bool.not_true, Bool.or_self, setPart, hf]

/-- invariant of the concurrent machine with the lock held across the S3 call: every request that does not hold
the lock is idle, and the lock holder is in the middle of a `doPart` that started from a sequential state -/
def LInv (mb : Int) (cs : CSt) : Prop :=
  (∀ j, cs.lock ≠ some j → (cs.thr j).pc = 0 ∨ (cs.thr j).pc = 3) ∧
  match cs.lock with
  | none => Reach mb cs.base
  | some i =>
    ((cs.thr i).pc = 1 ∧ Reach mb cs.base ∧ ∃ s, cs.base.sess = some s ∧ partCheck s (cs.thr i).n (cs.thr i).c = none) ∨
    ((cs.thr i).pc = 2 ∧ ∃ b0 s, Reach mb b0 ∧ b0.sess = some s ∧ partCheck s (cs.thr i).n (cs.thr i).c = none ∧
        b0.s3open = true ∧ cs.base = { b0 with s3parts := setPart b0.s3parts (cs.thr i).n (cs.thr i).c })

theorem linv_init (mb : Int) : LInv mb (CSt.init mb) :=
  ⟨fun _ _ => Or.inr rfl, ⟨[], rfl⟩⟩

theorem holder_of_pc {mb : Int} {cs : CSt} (h : LInv mb cs) {i : Nat}
    (hp : (cs.thr i).pc = 1 ∨ (cs.thr i).pc = 2) : cs.lock = some i := by
  cases hl : cs.lock with
  | none =>
    have := h.1 i (by simp [hl])
    omega
  | some j =>
    by_cases hij : j = i
    · rw [hij]
    · have := h.1 i (by simp [hl]; exact hij)
      omega

theorem cstep_linv (mb : Int) (cs : CSt) (e : Ev) (h : LInv mb cs) : LInv mb (cstep true cs e).1 := by
  cases e with
  | spawn i n c f =>
    simp only [cstep]
    split
    · exact h
    · rename_i hpc
      have hpc' : ¬ ((cs.thr i).pc = 1 ∨ (cs.thr i).pc = 2) := by simpa using hpc
      have hne : cs.lock ≠ some i := by
        intro hl
        have h2 := h.2
        rw [hl] at h2
        rcases h2 with h2 | h2 <;> omega
      refine ⟨?_, ?_⟩
      · intro j hj
        simp only [setThr]
        by_cases hji : j = i
        · simp [hji]
        · simp only [hji, if_false]; exact h.1 j hj
      · have h2 := h.2
        simp only [setThr]
        cases hl : cs.lock with
        | none => rw [hl] at h2; exact h2
        | some k =>
          rw [hl] at h2
          have hki : k ≠ i := by intro e; exact hne (by rw [hl, e])
          simpa [hki] using h2
  | op o =>
    simp only [cstep]
    split
    · exact h
    · rename_i hl
      have hl' : cs.lock = none := by simpa using hl
      refine ⟨?_, ?_⟩
      · exact h.1
      · have h2 := h.2
        rw [hl'] at h2
        simp only [hl']
        exact reach_step h2 o
  | tick i =>
    simp only [cstep]
    split
    · -- pc = 0
      rename_i hpc
      have hpc0 : (cs.thr i).pc = 0 := by simpa using hpc
      split
      · exact h
      · rename_i hl
        have hl' : cs.lock = none := by simpa using hl
        have h2 := h.2
        rw [hl'] at h2
        have others : ∀ (t : Thr), (t.pc = 0 ∨ t.pc = 3) → ∀ j, cs.lock ≠ some j →
            ((setThr cs i t).thr j).pc = 0 ∨ ((setThr cs i t).thr j).pc = 3 := by
          intro t ht j hj
          simp only [setThr]
          by_cases hji : j = i
          · simp [hji, ht]
          · simp only [hji, if_false]; exact h.1 j hj
        split
        · refine ⟨others _ (Or.inr rfl), ?_⟩
          simp only [setThr, hl']; exact h2
        · rename_i s hs
          split
          · refine ⟨others _ (Or.inr rfl), ?_⟩
            simp only [setThr, hl']; exact h2
          · rename_i hck
            refine ⟨?_, ?_⟩
            · intro j hj
              have hji : j ≠ i := by intro e; apply hj; simp [setThr, e]
              simp only [setThr, hji, if_false]
              exact h.1 j (by simp [hl'])
            · simp only [setThr, if_true]
              exact Or.inl ⟨trivial, h2, s, hs, hck⟩
    · split
      · -- pc = 1
        rename_i _ hpc
        have hpc1 : (cs.thr i).pc = 1 := by simpa using hpc
        have hl := holder_of_pc h (Or.inl hpc1)
        have h2 := h.2
        rw [hl] at h2
        rcases h2 with ⟨_, hr, s, hs, hck⟩ | ⟨hp2, _⟩
        · split
          · -- S3 call fails: answered 502, lock released, nothing recorded
            refine ⟨?_, ?_⟩
            · intro j _
              simp only [setThr]
              by_cases hji : j = i
              · simp [hji]
              · simp only [hji, if_false]; exact h.1 j (by rw [hl]; simp; exact fun e => hji e.symm)
            · simp only [setThr]; exact hr
          · rename_i hf
            have ho : cs.base.s3open = true := by
              cases hh : cs.base.s3open <;> simp_all
            refine ⟨?_, ?_⟩
            · intro j hj
              have hji : j ≠ i := by intro e; apply hj; simp [setThr, hl, e]
              simp only [setThr, hji, if_false]
              exact h.1 j (by rw [hl]; simp; exact fun e => hji e.symm)
            · simp only [setThr, hl, if_true]
              exact Or.inr ⟨trivial, cs.base, s, hr, hs, hck, ho, rfl⟩
        · omega
      · split
        · -- pc = 2
          rename_i _ _ hpc
          have hpc2 : (cs.thr i).pc = 2 := by simpa using hpc
          have hl := holder_of_pc h (Or.inr hpc2)
          have h2 := h.2
          rw [hl] at h2
          rcases h2 with ⟨hp1, _⟩ | ⟨_, b0, s, hr, hs, hck, ho, hb⟩
          · omega
          · have hsess : cs.base.sess = some s := by rw [hb]; exact hs
            have others : ∀ j, (none : Option Nat) ≠ some j →
                ((if j = i then ({ cs.thr i with pc := 3 } : Thr) else cs.thr j).pc = 0 ∨
                 (if j = i then ({ cs.thr i with pc := 3 } : Thr) else cs.thr j).pc = 3) := by
              intro j _
              by_cases hji : j = i
              · simp [hji]
              · simp only [hji, if_false]; exact h.1 j (by rw [hl]; simp; exact fun e => hji e.symm)
            rw [hsess]
            refine ⟨others, ?_⟩
            simp only [setThr]
            have hd := doPart_of_check (reach_inv hr) hs hck ho
            have : Reach mb (step b0 (.part (cs.thr i).n (cs.thr i).c false)).1 := reach_step hr _
            rw [hd] at this
            rw [hb]
            exact this
        · exact h

theorem crun_linv (mb : Int) (cs : CSt) (evs : List Ev) (h : LInv mb cs) : LInv mb (crun true cs evs) := by
  induction evs generalizing cs with
  | nil => exact h
  | cons e rest ih => exact ih _ (cstep_linv mb cs e h)

/-- **C32 (concurrency, linearizability).** With the session lock held from the checks to the recording of the
part (the code), after EVERY schedule of request arrivals, per-request steps and whole-handler operations, whenever
the session lock is free the state is a state of the sequential machine: concurrent requests on one upload
session cannot produce anything a sequential client could not. -/
theorem _root_.KafVerif.C32.locked_schedules_are_serial (maxBlob : Int) (schedule : List Ev) :
    (crun true (CSt.init maxBlob) schedule).lock = none →
      ∃ ops : List Op, (crun true (CSt.init maxBlob) schedule).base = (run step (St.init maxBlob) ops).1 := by
  intro hl
  have h := (crun_linv maxBlob _ schedule (linv_init maxBlob)).2
  rw [hl] at h
  exact h

/-- **C32 (multipart, concurrent requests).** `http_ok_sound` for every SCHEDULE: part requests of the session
may overlap arbitrarily (same part number twice, different numbers, with S3 failures), interleaved with
init / complete / abort / expiry; a completion that is answered (it needs the session lock) with 200 returns an
envelope whose SHA-256 and size are those of exactly the stored object, acknowledged by the broker. -/
theorem _root_.KafVerif.C32.http_ok_sound_concurrent (maxBlob : Int) (schedule : List Ev)
    (list : List (Nat × Etag)) (s3Fails : Bool) (b : Broker) (o : Out) :
    let cs := crun true (CSt.init maxBlob) schedule
    let r := cstep true cs (.op (.complete list s3Fails b))
    r.2 = some o → o.status = 200 →
      ∃ env, o.env = some env ∧ r.1.base.object = some env.shaOf ∧ dlen env.shaOf = env.size ∧
        acked b = true ∧ o.produced = true := by
  intro cs r hr h200
  have hinv : LInv maxBlob cs := crun_linv maxBlob _ schedule (linv_init maxBlob)
  cases hl : cs.lock with
  | some j =>
    have : r.2 = none := by simp [r, cstep, hl]
    rw [this] at hr; simp at hr
  | none =>
    have h2 := hinv.2
    rw [hl] at h2
    have hr2 : r.2 = some (step cs.base (.complete list s3Fails b)).2 := by simp [r, cstep, hl]
    have hr1 : r.1.base = (step cs.base (.complete list s3Fails b)).1 := by simp [r, cstep, hl]
    rw [hr2] at hr
    have ho : (step cs.base (.complete list s3Fails b)).2 = o := by simpa using hr
    rw [hr1]
    have := doComplete_sound cs.base list s3Fails b (reach_inv h2) _ _ rfl (by rw [← ho] at h200; exact h200)
    rw [← ho]
    exact this

/-- a part request never answers with an envelope, whatever the schedule and the locking -/
theorem _root_.KafVerif.C32.concurrent_part_never_returns_envelope (hold : Bool) (cs : CSt) (i : Nat) (o : Out)
    (h : (cstep hold cs (.tick i)).2 = some o) : o.env = none := by
  simp only [cstep] at h
  split at h
  · split at h
    · simp at h
    · split at h
      · simp at h; rw [← h]
      · split at h
        · simp at h; rw [← h]
        · simp at h
  · split at h
    · split at h
      · simp at h; rw [← h]
      · simp at h
    · split at h
      · split at h <;> (simp at h; rw [← h])
      · simp at h

/-- **witness (split lock, class of seeded change C32-r2-1).** Lock released between the checks and the recording:
two overlapping PUTs of part 1 (a timeout retry racing the original) both pass the checks, both upload (S3 keeps one
copy), both are hashed and counted; `complete [1]` answers 200 with an envelope of 2 × 5 MiB whose SHA-256 covers
the part twice while the object is one part. -/
theorem _root_.KafVerif.C32.split_lock_violates :
    ∃ (schedule : List Ev) (list : List (Nat × Etag)) (o : Out) (env : Envelope),
      let cs := crun false (CSt.init 0) schedule
      let r := cstep false cs (.op (.complete list false .ack))
      r.2 = some o ∧ o.status = 200 ∧ o.env = some env ∧ r.1.base.object ≠ some env.shaOf ∧
        (r.1.base.object.map dlen) ≠ some env.size :=
  ⟨[.op (.init (2 * minPart) .sha256 .absent false), .spawn 0 1 c5 false, .spawn 1 1 c5 false,
    .tick 0, .tick 1, .tick 0, .tick 1, .tick 0, .tick 1],
   [(1, .ok)], ⟨200, some ⟨2 * minPart, [c5, c5]⟩, true⟩, ⟨2 * minPart, [c5, c5]⟩, by decide⟩

/-- the same schedule under the code's locking: the second PUT waits for the lock, is then answered as an idempotent
re-PUT, and the premature completion is refused -/
example : (cstep true (crun true (CSt.init 0)
    [.op (.init (2 * minPart) .sha256 .absent false), .spawn 0 1 c5 false, .spawn 1 1 c5 false,
     .tick 0, .tick 1, .tick 0, .tick 1, .tick 0, .tick 1]) (.op (.complete [(1, .ok)] false .ack))).2.map (·.status)
    = some 400 := by decide

/-! ### single request: one attempt per S3 part (class of seeded change C32-r2-2) -/

/-- every scripted UploadPart failure of a part the stream really has ends the request with an error — the code
makes no second attempt with the consumed request body -/
theorem _root_.KafVerif.C32.produce_part_fault_is_error (maxBlob : Int) (alg : Alg) (ck : Ck) (body : List Chunk)
    (k : Nat) (b : Broker) (hk : 1 ≤ k ∧ k ≤ nParts (dlen body)) (hn : minPart ≤ dlen body) :
    (produce maxBlob alg ck body (.part k) b).status ≠ 200 ∧ (produce maxBlob alg ck body (.part k) b).env = none := by
  have hu : uploadStream maxBlob body (.part k) = .error 400 ∨ uploadStream maxBlob body (.part k) = .error 502 := by
    unfold uploadStream
    have h0 : ¬ (dlen body == 0) = true := by simp [minPart] at hn ⊢; omega
    have h1 : ¬ dlen body < minPart := by omega
    have hf : faultPart (dlen body) (.part k) = some k := by simp [faultPart, hk.1, hk.2]
    have hc : (S3Fault.part k == S3Fault.create) = false := by simp
    simp only [h0, h1, if_false, hf, hc, Bool.false_eq_true]
    split
    · exact Or.inl rfl
    · exact Or.inr rfl
  simp only [produce, produceWith]
  split; simp
  split; simp
  rcases hu with hu | hu <;> rw [hu] <;> simp

/-- witness: retrying with the same (consumed) request body after a fail-AFTER-read stores an empty part; the upload
is reported successful with an envelope that does not describe the object -/
theorem _root_.KafVerif.C32.retry_consumed_body_violates :
    ∃ body t, (produceRetry body t).1 = 200 ∧ (produceRetry body t).2.2 ≠ (produceRetry body t).2.1.shaOf ∧
      dlen (produceRetry body t).2.2 ≠ (produceRetry body t).2.1.size :=
  ⟨[c5, c1], some ⟨2, true⟩, by decide⟩

/-- a fail-BEFORE-read leaves the body intact: the same retry is harmless there (why only a fake that reads the
body before failing can tell the difference) -/
theorem _root_.KafVerif.C32.retry_before_read_harmless (body : List Chunk) (k : Nat) :
    (produceRetry body (some ⟨k, false⟩)).2.2 = (produceRetry body (some ⟨k, false⟩)).2.1.shaOf := rfl

/-! ### non-vacuity: a well-behaved two-part upload with an acknowledging broker succeeds -/

example : ((run step (St.init 0) [.init (minPart + 7) .md5 .right false, .part 1 c5 false, .part 2 c1 false,
    .part 1 c5 false, .complete [(1, .ok), (2, .ok)] false .ack]).2.map (·.status)) = [200, 200, 200, 200, 200] := by decide
example : ((run step (St.init 0) [.init (minPart + 7) .sha256 .absent false, .part 1 c5 false, .part 2 c1 false,
    .complete [(2, .ok)] false .ack]).2.map (·.status)) = [200, 200, 200, 400] := by decide
example : (produce 0 .sha256 .right [c1] .none .ack).status = 200 := by decide
example : (produce 0 .sha256 .right [c1] .none (.code 6)).status = 502 := by decide

end KafVerif.LfsHttp
