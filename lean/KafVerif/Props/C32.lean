import KafVerif.Model.LfsHttp
/-!
C32 — An LFS HTTP upload reported successful is stored and acknowledged.

Statement (properties.jsonl): when the LFS HTTP API returns success for an upload (single request
or multipart session), the object named in the returned envelope exists; its size and SHA-256
match the envelope, and the broker has acknowledged the envelope record without error.  Otherwise
the client gets an error status.  Quantifier: every upload (part sizes, part lists in the
completion request, checksums) and every broker reply (success or per-partition error codes).

* `produce_ok_sound`  single request, every body / algorithm / checksum / S3 fault / broker reply;
* `http_ok_sound`     multipart: after EVERY history of init / part / complete / abort / expire
                      operations (any part numbers, sizes, re-PUTs, S3 failures, completion lists,
                      broker replies), a `complete` answered 200 means: the object is exactly the
                      data the envelope's SHA-256 and size were computed from, and the broker acked;
* three witness theorems for the behaviour before the fixes (`…Old`).
The object's bytes are abstract chunk lists, so "SHA-256 matches" is "the envelope digest was
computed over exactly the object's bytes" — it holds for every hash function.
-/
namespace KafVerif.LfsHttp

def c1' : Chunk := ⟨2, 7⟩

def nums (k : Nat) : List Nat := (List.range k).map (· + 1)

structure SInv (st : St) (s : Sess) : Prop where
  hashed : s.hashed = s.parts.map (·.2)
  total : s.total = dlen s.hashed
  keys : s.parts.map (·.1) = nums s.parts.length
  s3 : st.s3open = true → st.s3parts = s.parts

def Inv (st : St) : Prop := ∀ s, st.sess = some s → SInv st s

theorem inv_init (mb : Int) : Inv (St.init mb) := by
  intro s h; simp [St.init] at h

theorem doInit_inv (st : St) (size : Int) (alg : Alg) (ck : Ck) (cf : Bool) (h : Inv st) :
    Inv (doInit st size alg ck cf).1 := by
  unfold doInit
  repeat (first | exact h | split)
  intro s hs
  simp only [Option.some.injEq] at hs
  subst hs
  exact ⟨rfl, by simp [dlen], by simp [nums], fun _ => rfl⟩

theorem filter_fresh {l : List (Nat × Chunk)} {n : Nat} (hk : l.map (·.1) = nums l.length)
    (hn : n = l.length + 1) : l.filter (·.1 != n) = l := by
  apply List.filter_eq_self.mpr
  intro p hp
  have : p.1 ∈ l.map (·.1) := List.mem_map_of_mem hp
  rw [hk] at this
  simp [nums] at this
  obtain ⟨a, ha, hap⟩ := this
  simp; omega

theorem doPart_inv (st : St) (n : Nat) (c : Chunk) (f : Bool) (h : Inv st) : Inv (doPart st n c f).1 := by
  simp only [doPart, doPartWith, Bool.false_eq_true, if_false]
  split
  · exact h
  · rename_i s hs
    have hi := h s hs
    split; exact h
    split; exact h
    rename_i hnn
    split; exact h
    split; exact h
    split; exact h
    split; exact h
    split
    · intro s' hs'
      simp only [Option.some.injEq] at hs'
      subst hs'
      exact ⟨hi.hashed, hi.total, hi.keys, hi.s3⟩
    · rename_i hs3
      intro s' hs'
      simp only [Option.some.injEq] at hs'
      subst hs'
      have hn : n = s.parts.length + 1 := by simpa [Sess.nextPart] using hnn
      have hopen : st.s3open = true := by
        cases ho : st.s3open <;> simp_all
      refine ⟨?_, ?_, ?_, ?_⟩
      · simp [hi.hashed]
      · simp only [hi.total, dlen, List.map_append, List.sum_append]; simp
      · simp only [List.map_append, hi.keys, List.length_append, List.length_cons, List.length_nil]
        simp [nums, List.range_succ, hn]
      · intro _
        simp only [setPart]
        rw [hi.s3 hopen, filter_fresh hi.keys hn]

theorem lookup_cons_ne {k k' : Nat} {c : Chunk} {t : List (Nat × Chunk)} (h : k ≠ k') :
    lookupPart ((k, c) :: t) k' = lookupPart t k' := by
  simp [lookupPart, h]

theorem filterMap_congr' {α β : Type} {f g : α → Option β} :
    ∀ (l : List α), (∀ a ∈ l, f a = g a) → l.filterMap f = l.filterMap g
  | [], _ => rfl
  | a :: t, h => by
    simp only [List.filterMap_cons, h a (by simp)]
    rw [filterMap_congr' t (fun x hx => h x (by simp [hx]))]

theorem filterMap_lookup (l : List (Nat × Chunk)) (hnd : (l.map (·.1)).Nodup) :
    (l.map (·.1)).filterMap (lookupPart l) = l.map (·.2) := by
  induction l with
  | nil => simp
  | cons p t ih =>
    obtain ⟨k, c⟩ := p
    simp only [List.map_cons, List.nodup_cons] at hnd
    simp only [List.map_cons, List.filterMap_cons]
    have h1 : lookupPart ((k, c) :: t) k = some c := by simp [lookupPart]
    rw [h1]
    simp only
    congr 1
    rw [← ih hnd.2]
    apply filterMap_congr'
    intro k' hk'
    apply lookup_cons_ne
    intro e; subst e; exact hnd.1 hk'

theorem nums_nodup (k : Nat) : (nums k).Nodup := by
  unfold nums List.Nodup
  have := List.Pairwise.map (S := fun a b : Nat => a ≠ b) (fun x => x + 1) (fun a b (h : a < b) => by omega)
    (List.pairwise_lt_range (n := k))
  exact this

theorem acked_of_200 (b : Broker) (h : produceStatus b = 200) : acked b = true := by
  cases b <;> simp_all [produceStatus, acked]

theorem doComplete_inv (st : St) (l : List (Nat × Etag)) (f : Bool) (b : Broker) (h : Inv st) :
    Inv (doComplete st l f b).1 := by
  simp only [doComplete, doCompleteWith]
  split
  · exact h
  · rename_i s hs
    have hi := h s hs
    split; exact h
    split; exact h
    split; exact h
    split; exact h
    split; exact h
    split
    · exact h
    · have key : ∀ obj, Inv { st with object := some obj, s3open := false, s3parts := [] } := by
        intro obj s' hs'
        have : s' = s := by simpa [hs] using hs'.symm
        subst this
        exact ⟨hi.hashed, hi.total, hi.keys, fun h => by simp at h⟩
      split; exact key _
      split; exact key _
      split
      · intro s' hs'; simp at hs'
      · exact key _

theorem s3Complete_exact {st : St} {s : Sess} (hi : SInv st s) {l : List (Nat × Etag)} {obj : List Chunk}
    (hex : listExact s l = true) (hobj : s3Complete st (l.map (·.1)) = some obj) : obj = s.hashed := by
  have hl : l.map (·.1) = nums s.parts.length := by simpa [listExact, nums] using hex
  unfold s3Complete at hobj
  split at hobj
  · simp at hobj
  · rename_i hopen
    have ho : st.s3open = true := by
      cases h : st.s3open <;> simp_all
    split at hobj
    · simp only [Option.some.injEq] at hobj
      rw [← hobj, hi.s3 ho, hl, ← hi.keys, filterMap_lookup _ (by rw [hi.keys]; exact nums_nodup _), hi.hashed]
    · simp at hobj

theorem doComplete_sound (st : St) (l : List (Nat × Etag)) (f : Bool) (b : Broker) (h : Inv st)
    (st' : St) (o : Out) (heq : doComplete st l f b = (st', o)) (h200 : o.status = 200) :
    ∃ env, o.env = some env ∧ st'.object = some env.shaOf ∧ dlen env.shaOf = env.size ∧
      acked b = true ∧ o.produced = true := by
  simp only [doComplete, doCompleteWith] at heq
  split at heq
  · obtain ⟨rfl, rfl⟩ := Prod.mk.inj heq; simp at h200
  · rename_i s hs
    have hi := h s hs
    split at heq
    · obtain ⟨rfl, rfl⟩ := Prod.mk.inj heq; simp at h200
    split at heq
    · obtain ⟨rfl, rfl⟩ := Prod.mk.inj heq; simp at h200
    split at heq
    · obtain ⟨rfl, rfl⟩ := Prod.mk.inj heq; simp at h200
    split at heq
    · obtain ⟨rfl, rfl⟩ := Prod.mk.inj heq; simp at h200
    rename_i hex
    split at heq
    · obtain ⟨rfl, rfl⟩ := Prod.mk.inj heq; simp at h200
    split at heq
    · obtain ⟨rfl, rfl⟩ := Prod.mk.inj heq; simp at h200
    · rename_i obj hobj
      have hobj' : obj = s.hashed := s3Complete_exact hi (by simpa using hex) hobj
      split at heq
      · obtain ⟨rfl, rfl⟩ := Prod.mk.inj heq; simp at h200
      split at heq
      · obtain ⟨rfl, rfl⟩ := Prod.mk.inj heq; simp at h200
      split at heq
      · rename_i hcode
        obtain ⟨rfl, rfl⟩ := Prod.mk.inj heq
        exact ⟨⟨s.total, s.hashed⟩, rfl, by simp [hobj'], by simp [hi.total], acked_of_200 b (by simpa using hcode), rfl⟩
      · rename_i hcode
        obtain ⟨rfl, rfl⟩ := Prod.mk.inj heq
        simp at h200
        exact absurd h200 (by simpa using hcode)

/-! ### invariant is preserved by every operation and holds in every reachable state -/

theorem doAbort_inv (st : St) (h : Inv st) : Inv (doAbort st).1 := by
  unfold doAbort
  split
  · exact h
  · intro s hs; simp at hs

theorem doExpire_inv (st : St) : Inv (doExpire st).1 := by
  intro s hs; simp [doExpire] at hs

theorem step_inv (st : St) (op : Op) (h : Inv st) : Inv (step st op).1 := by
  cases op with
  | init size alg ck cf => exact doInit_inv st size alg ck cf h
  | part n c f => exact doPart_inv st n c f h
  | complete l f b => exact doComplete_inv st l f b h
  | abort => exact doAbort_inv st h
  | expire => exact doExpire_inv st

theorem run_inv (st : St) (ops : List Op) (h : Inv st) : Inv (run step st ops).1 := by
  induction ops generalizing st with
  | nil => exact h
  | cons op rest ih =>
    simp only [run]
    exact ih _ (step_inv st op h)

/-- **C32 (multipart).** After ANY history of session operations on a fresh proxy, if a completion
request is answered 200 then (1) the reply carries an envelope, (2) the object stored under the
envelope's key is exactly the byte sequence the envelope's SHA-256 was computed over, (3) its
length is the envelope's size, (4) the broker acknowledged the envelope record with error code 0
(and a produce request was really sent). -/
theorem _root_.KafVerif.C32.http_ok_sound (maxBlob : Int) (history : List Op)
    (list : List (Nat × Etag)) (s3Fails : Bool) (b : Broker) :
    let st := (run step (St.init maxBlob) history).1
    let r := step st (.complete list s3Fails b)
    r.2.status = 200 →
      ∃ env, r.2.env = some env ∧ r.1.object = some env.shaOf ∧ dlen env.shaOf = env.size ∧
        acked b = true ∧ r.2.produced = true := by
  intro st r h200
  have hinv : Inv st := run_inv _ history (inv_init maxBlob)
  exact doComplete_sound st list s3Fails b hinv r.1 r.2 rfl h200

/-- no other session operation ever answers with an envelope -/
theorem _root_.KafVerif.C32.only_complete_returns_envelope (st : St) (op : Op) (env : Envelope)
    (h : (step st op).2.env = some env) : ∃ l f b, op = .complete l f b := by
  cases op with
  | complete l f b => exact ⟨l, f, b, rfl⟩
  | init size alg ck cf =>
    simp only [step, doInit] at h
    repeat (first | contradiction | split at h)
    all_goals simp at h
  | part n c f =>
    simp only [step, doPart, doPartWith] at h
    repeat (first | contradiction | split at h)
    all_goals simp at h
  | abort =>
    simp only [step, doAbort] at h
    split at h <;> simp at h
  | expire => simp [step, doExpire] at h

/-! ### single request -/

theorem uploadStream_cases (mb : Int) (body : List Chunk) (f : S3Fault) :
    uploadStream mb body f = .ok () ∨ uploadStream mb body f = .error 400 ∨ uploadStream mb body f = .error 502 := by
  unfold uploadStream
  simp only []
  repeat' split
  all_goals simp

theorem uploadStream_err {mb : Int} {body : List Chunk} {f : S3Fault} {st : Nat}
    (h : uploadStream mb body f = .error st) : st ≠ 200 := by
  rcases uploadStream_cases mb body f with h' | h' | h' <;> rw [h'] at h <;> simp at h <;> omega

theorem uploadStream_ok {mb : Int} {body : List Chunk} {f : S3Fault}
    (h : uploadStream mb body f = .ok ()) : dlen body ≠ 0 := by
  unfold uploadStream at h
  intro h0
  simp [h0] at h

/-- **C32 (single request).** `POST /lfs/produce` answers 200 only if the object under the
envelope's key holds exactly the request body (which is not empty), the envelope's size and
SHA-256 are those of the body, and the broker acknowledged the envelope record with error code 0. -/
theorem _root_.KafVerif.C32.produce_ok_sound (maxBlob : Int) (alg : Alg) (ck : Ck) (body : List Chunk)
    (f : S3Fault) (b : Broker) (h : (produce maxBlob alg ck body f b).status = 200) :
    (produce maxBlob alg ck body f b).object = some body ∧
    (produce maxBlob alg ck body f b).env = some ⟨dlen body, body⟩ ∧
    acked b = true ∧ (produce maxBlob alg ck body f b).produced = true ∧ dlen body ≠ 0 := by
  simp only [produce, produceWith] at h ⊢
  split at h
  · simp at h
  split at h
  · simp at h
  rename_i h1 h2
  simp only [h1, h2, if_false, Bool.false_eq_true]
  cases hu : uploadStream maxBlob body f with
  | error st =>
    rw [hu] at h
    exact absurd h (uploadStream_err hu)
  | ok u =>
    rw [hu] at h
    simp only at h ⊢
    split at h
    · simp at h
    · rename_i hck
      simp only [hck, if_false, Bool.false_eq_true]
      simp only at h
      have hb := acked_of_200 b h
      refine ⟨trivial, by simp [h], hb, ?_, uploadStream_ok hu⟩
      cases b <;> simp_all [acked, produceStatus]

/-! ### the produce-ack predicate is `code = 0`, over ALL int16/Int codes (negative ones included) -/

/-- **C32 (ack predicate).** A produce response that mentions our partition counts as an
acknowledgement exactly when its error code is 0 — every other code, positive or NEGATIVE
(−1 = UNKNOWN_SERVER_ERROR is what the broker answers on internal produce faults), is an error. -/
theorem _root_.KafVerif.C32.ack_iff_code_zero (n : Int) :
    (produceStatus (.code n) = 200 ↔ n = 0) ∧ (acked (.code n) = true ↔ n = 0) ∧
    (n ≠ 0 → produceStatus (.code n) = 502) := by
  refine ⟨?_, ?_, ?_⟩
  · simp only [produceStatus]
    split <;> simp_all
  · simp [acked]
  · intro h; simp [produceStatus, h]

/-- the variant that rejects only positive codes (`ErrorCode > 0`) -/
def produceStatusPositiveOnly : Broker → Nat
  | .ack => 200
  | .refuse => 503
  | .code n => if n > 0 then 502 else 200
  | _ => 502

/-- witness: with `> 0` the reply code −1 yields 200 although the broker did not acknowledge -/
theorem _root_.KafVerif.C32.ackPositiveOnly_violates :
    ∃ b, (produceWith produceStatusPositiveOnly 0 .sha256 .absent [c1'] .none b).status = 200 ∧ acked b = false :=
  ⟨.code (-1), by decide⟩

/-! ### the code before the fixes violates the property (kept so a regression is recognised) -/

def c5 : Chunk := ⟨1, minPart⟩
def c1 : Chunk := ⟨2, 7⟩

/-- (1) produce reply ignored: a per-partition error code still gives 200 -/
theorem _root_.KafVerif.C32.produceOld_violates :
    ∃ b, (produceOld 0 .sha256 .absent [c1] .none b).status = 200 ∧ acked b = false :=
  ⟨.code 6, by decide⟩

/-- (2) completion with a subset of the parts: the object lacks part 1 but the envelope's size and
SHA-256 cover both parts -/
theorem _root_.KafVerif.C32.completeOld_subset_violates :
    ∃ ops : List Op, ∃ env,
      ((run stepOld (St.init 0) ops).2.getLast?.bind (·.env)) = some env ∧
      (run stepOld (St.init 0) ops).1.object ≠ some env.shaOf :=
  ⟨[.init (minPart + 7) .sha256 .absent false, .part 1 c5 false, .part 2 c1 false,
    .complete [(2, .ok)] false .ack], ⟨minPart + 7, [c5, c1]⟩, by decide⟩

/-- (3) a part whose S3 upload failed was already hashed; the retry hashes it again, so the
envelope's SHA-256 is not the object's -/
theorem _root_.KafVerif.C32.partOld_rehash_violates :
    ∃ ops : List Op, ∃ env,
      ((run stepOld (St.init 0) ops).2.getLast?.bind (·.env)) = some env ∧
      (run stepOld (St.init 0) ops).1.object ≠ some env.shaOf :=
  ⟨[.init 7 .sha256 .absent false, .part 1 c1 true, .part 1 c1 false, .complete [(1, .ok)] false .ack],
   ⟨7, [c1, c1]⟩, by decide⟩

/-! ### non-vacuity: a well-behaved two-part upload with an acknowledging broker succeeds -/

example : ((run step (St.init 0) [.init (minPart + 7) .md5 .right false, .part 1 c5 false, .part 2 c1 false,
    .part 1 c5 false, .complete [(1, .ok), (2, .ok)] false .ack]).2.map (·.status)) = [200, 200, 200, 200, 200] := by decide
example : ((run step (St.init 0) [.init (minPart + 7) .sha256 .absent false, .part 1 c5 false, .part 2 c1 false,
    .complete [(2, .ok)] false .ack]).2.map (·.status)) = [200, 200, 200, 400] := by decide
example : (produce 0 .sha256 .right [c1] .none .ack).status = 200 := by decide
example : (produce 0 .sha256 .right [c1] .none (.code 6)).status = 502 := by decide

end KafVerif.LfsHttp
