import KafVerif.Props.C22
/-!
C22, delete selectors — what `DeleteTopic(t)` removes never belongs to another accepted topic.

The key constructors are injective (`keys_injective`, `topics_disjoint`); this file is about the
SELECTORS `DeleteTopic` uses to find the keys of a topic (Model/MetaKeys.lean, "DELETE SELECTORS"):
a prefix range (`/kafscale/topics/<t>/`), a `strings.Contains` filter over `/kafscale/consumers/…`
(`/offsets/<t>/`), a string-prefix test over the in-memory offsets map (`<t>:`) and a struct-field
comparison over the in-memory committed offsets.

* `delete_selects_only_own_keys`   for accepted `t ≠ t'`, every partition, every group id WITHOUT `/`
                                   and not (`group = "offsets"` and `t = "offsets"`): no key of `t'` (next offset,
                                   config, partition state, lease, assignment, committed offset, in-memory keys)
                                   and no group-metadata key is selected by any selector of `t`.
* `delete_selects_all_own_keys`    every key of `t` in the deleted families IS selected (any group id).
* `contains_selector_overmatches`  both hypotheses on the group id are needed — HEAD's `Contains` filter
                                   selects `/kafscale/consumers/offsets/offsets/orders/0` (group `offsets`, topic
                                   `orders`) for `DeleteTopic("offsets")`, and a commit of group `g/offsets/x/9` to
                                   topic `y` for `DeleteTopic("x")`.
* `fixed_selector_exact`           the end-anchored selector of the proposed fix selects a committed-offset key
                                   of `(g, t', p)` iff `t' = t` — for EVERY group id — and never a group-metadata key.
* `regex_selector_crosses_topics`  seeded change C22-r3-2 (unquoted topic in a regular expression): the selector of
                                   `metrics.cpu` selects the committed offsets of `metrics_cpu`, `metrics-cpu`,
                                   `metricsXcpu`.
-/
namespace KafVerif.MetaKeys

/-! ### `strings.Contains` -/

theorem containsB_of_infix (pat a b : List Char) : containsB pat (a ++ pat ++ b) = true := by
  induction a with
  | nil =>
    cases h : pat ++ b with
    | nil =>
      have : pat = [] := by cases pat <;> simp_all
      subst this; simp [containsB, h]
    | cons c r =>
      simp only [List.nil_append, h, containsB, Bool.or_eq_true]
      exact Or.inl (by rw [← h]; exact List.isPrefixOf_iff_prefix.mpr (List.prefix_append _ _))
  | cons x r ih =>
    simp only [List.cons_append, containsB, Bool.or_eq_true]
    exact Or.inr (by simpa using ih)

theorem infix_of_containsB {pat s : List Char} (h : containsB pat s = true) : ∃ a b, s = a ++ pat ++ b := by
  induction s with
  | nil =>
    simp only [containsB] at h
    obtain ⟨b, hb⟩ := List.isPrefixOf_iff_prefix.mp h
    exact ⟨[], b, by simpa using hb.symm⟩
  | cons c r ih =>
    simp only [containsB, Bool.or_eq_true] at h
    rcases h with h | h
    · obtain ⟨b, hb⟩ := List.isPrefixOf_iff_prefix.mp h
      exact ⟨[], b, by simpa using hb.symm⟩
    · obtain ⟨a, b, hab⟩ := ih h
      exact ⟨c :: a, b, by simp [hab]⟩

/-! ### segment lists of the consumer keys -/

/-- A group id without a path separator. -/
def PlainGroup (g : List Char) : Prop := '/' ∉ g

theorem split_consumerOffsetKey {g t : List Char} (hg : '/' ∉ g) (ht : '/' ∉ t) (p : Int) :
    splitOn '/' (consumerOffsetKey g t p) = [[], str "kafscale", str "consumers", g, str "offsets", t, intStr p] := by
  have hp : '/' ∉ intStr p := intStr_no (by decide) (by decide)
  have e : consumerOffsetKey g t p = [] ++ '/' :: (str "kafscale" ++ '/' :: (str "consumers" ++ '/' :: (g ++ '/' ::
      (str "offsets" ++ '/' :: (t ++ '/' :: intStr p))))) := by
    simp [consumerOffsetKey, consumersPfx, str]
  rw [e, splitOn_append_free _ (by simp), splitOn_append_free _ (by simp [str]), splitOn_append_free _ (by simp [str]),
    splitOn_append_free _ hg, splitOn_append_free _ (by simp [str]), splitOn_append_free _ ht, splitOn_free hp]

theorem split_consumerGroupKey {g : List Char} (hg : '/' ∉ g) :
    splitOn '/' (consumerGroupKey g) = [[], str "kafscale", str "consumers", g, str "metadata"] := by
  have e : consumerGroupKey g = [] ++ '/' :: (str "kafscale" ++ '/' :: (str "consumers" ++ '/' :: (g ++ '/' :: str "metadata"))) := by
    simp [consumerGroupKey, consumersPfx, str]
  rw [e, splitOn_append_free _ (by simp), splitOn_append_free _ (by simp [str]), splitOn_append_free _ (by simp [str]),
    splitOn_append_free _ hg, splitOn_free (by simp [str])]

/-- A key that contains `/offsets/<t>/` has `offsets`, `t` as two consecutive segments, with at
least one segment before and one after. -/
theorem split_of_marker {t : List Char} (ht : '/' ∉ t) (a b : List Char) :
    splitOn '/' (a ++ offsetsMarker t ++ b) = splitOn '/' a ++ str "offsets" :: t :: splitOn '/' b := by
  have e : a ++ offsetsMarker t ++ b = a ++ '/' :: (str "offsets" ++ '/' :: (t ++ '/' :: b)) := by
    simp [offsetsMarker, str]
  rw [e, splitOn_append, splitOn_append_free _ (by simp [str]), splitOn_append_free _ ht]

theorem str_offsets_ne_kafscale : str "offsets" ≠ str "kafscale" := by decide
theorem str_offsets_ne_consumers : str "offsets" ≠ str "consumers" := by decide

/-- HEAD's `Contains` filter on a committed-offset key of a plain group: selected only if the key's
topic is `t`, or group and `t` are both the word `offsets`. -/
theorem coff_contains_plain {g t t' : List Char} {p : Int} (hg : '/' ∉ g) (ht : '/' ∉ t) (ht' : '/' ∉ t')
    (h : containsB (offsetsMarker t) (consumerOffsetKey g t' p) = true) :
    t' = t ∨ (g = str "offsets" ∧ t = str "offsets") := by
  obtain ⟨a, b, hab⟩ := infix_of_containsB h
  have h1 := congrArg (splitOn '/') hab
  rw [split_consumerOffsetKey hg ht' p, split_of_marker ht] at h1
  have hb := splitOn_ne_nil '/' b
  have ha := splitOn_ne_nil '/' a
  generalize splitOn '/' a = A at h1 ha
  generalize splitOn '/' b = B at h1 hb
  rcases A with _ | ⟨a0, _ | ⟨a1, _ | ⟨a2, _ | ⟨a3, _ | ⟨a4, _ | ⟨a5, A⟩⟩⟩⟩⟩⟩
  · exact absurd rfl ha
  · simp only [List.cons_append, List.nil_append, List.cons.injEq] at h1
    exact absurd h1.2.1.symm str_offsets_ne_kafscale
  · simp only [List.cons_append, List.nil_append, List.cons.injEq] at h1
    exact absurd h1.2.2.1.symm str_offsets_ne_consumers
  · simp only [List.cons_append, List.nil_append, List.cons.injEq] at h1
    exact Or.inr ⟨h1.2.2.2.1, h1.2.2.2.2.1.symm⟩
  · simp only [List.cons_append, List.nil_append, List.cons.injEq] at h1
    exact Or.inl h1.2.2.2.2.2.1
  · simp only [List.cons_append, List.nil_append, List.cons.injEq] at h1
    exact absurd h1.2.2.2.2.2.2.2 (by simp [hb])
  · simp only [List.cons_append, List.cons.injEq] at h1
    have := congrArg List.length h1.2.2.2.2.2.2
    simp at this
    omega

/-- HEAD's `Contains` filter never selects the metadata key of a plain group. -/
theorem group_contains_plain {g t : List Char} (hg : '/' ∉ g) (ht : '/' ∉ t) :
    containsB (offsetsMarker t) (consumerGroupKey g) = false := by
  cases h : containsB (offsetsMarker t) (consumerGroupKey g) with
  | false => rfl
  | true =>
    exfalso
    obtain ⟨a, b, hab⟩ := infix_of_containsB h
    have h1 := congrArg (splitOn '/') hab
    rw [split_consumerGroupKey hg, split_of_marker ht] at h1
    have hb := splitOn_ne_nil '/' b
    have ha := splitOn_ne_nil '/' a
    generalize splitOn '/' a = A at h1 ha
    generalize splitOn '/' b = B at h1 hb
    rcases A with _ | ⟨a0, _ | ⟨a1, _ | ⟨a2, _ | ⟨a3, A⟩⟩⟩⟩
    · exact ha rfl
    · simp only [List.cons_append, List.nil_append, List.cons.injEq] at h1
      exact str_offsets_ne_kafscale h1.2.1.symm
    · simp only [List.cons_append, List.nil_append, List.cons.injEq] at h1
      exact str_offsets_ne_consumers h1.2.2.1.symm
    · simp only [List.cons_append, List.nil_append, List.cons.injEq] at h1
      exact hb h1.2.2.2.2.2.symm
    · simp only [List.cons_append, List.cons.injEq] at h1
      have := congrArg List.length h1.2.2.2.2
      simp at this
      omega

/-! ### prefixes across key families -/

theorem topics_prefix_not_consumers (t z : List Char) : ¬ topicDeletePrefix t <+: consumersPfx ++ z := by
  intro ⟨w, hw⟩
  have := congrArg (List.take 11) hw
  simp [topicDeletePrefix, topicsPfx, consumersPfx, str] at this

theorem consumers_prefix_not (k : List Char) (h : ¬ (str "/kafscale/c") <+: k) : consumersPfx.isPrefixOf k = false := by
  cases hk : consumersPfx.isPrefixOf k with
  | false => rfl
  | true =>
    exfalso
    obtain ⟨z, hz⟩ := List.isPrefixOf_iff_prefix.mp hk
    exact h ⟨str "onsumers/" ++ z, by rw [← hz]; simp [consumersPfx, str]⟩

theorem etcdKeys_not_consumers {t : List Char} {p : Int} {k : List Char} (hk : k ∈ etcdKeys t p) :
    consumersPfx.isPrefixOf k = false := by
  apply consumers_prefix_not
  simp only [etcdKeys, List.mem_cons, List.not_mem_nil, or_false] at hk
  intro ⟨w, hw⟩
  have := congrArg (List.take 11) hw
  rcases hk with rfl | rfl | rfl | rfl | rfl <;>
    simp [offsetKey, topicConfigKey, partitionStateKey, leaseKey, assignmentKey, topicsPfx, str] at this

/-! ### C22 for the delete selectors -/

/-- **C22 (delete selectors).**  For two different accepted topic names `t ≠ t'`, every partition and
every group id that contains no `/` and is not the word `offsets` while `t` is `offsets` too: nothing
that belongs to `t'` — and no group-metadata key — is selected by `DeleteTopic(t)`, in either store. -/
theorem _root_.KafVerif.C22.delete_selects_only_own_keys (t t' g : List Char) (p : Int)
    (ha : accepted t = true) (ha' : accepted t' = true) (hne : t ≠ t')
    (hg : PlainGroup g) (hw : ¬ (g = str "offsets" ∧ t = str "offsets")) :
    (∀ k ∈ etcdKeys t' p, etcdDeleteSel t k = false) ∧
    etcdDeleteSel t (consumerOffsetKey g t' p) = false ∧
    etcdDeleteSel t (consumerGroupKey g) = false ∧
    memOffDeleteSel t (partitionKey t' p) = false ∧
    memCoffDeleteSel t (g, t', p) = false := by
  obtain ⟨ht, hc, _⟩ := KafVerif.C22.accepted_plain ha
  obtain ⟨ht', hc', _⟩ := KafVerif.C22.accepted_plain ha'
  have hpre : ∀ k, ¬ topicDeletePrefix t <+: k → topicDeleteSel t k = false := by
    intro k hk
    cases h : topicDeleteSel t k with
    | false => rfl
    | true => exact absurd (List.isPrefixOf_iff_prefix.mp h) hk
  refine ⟨?_, ?_, ?_, ?_, ?_⟩
  · intro k hk
    simp only [etcdDeleteSel, coffDeleteSel, etcdKeys_not_consumers hk, Bool.false_and, Bool.or_false]
    exact hpre k (fun h => hne (etcd_prefix_same_topic ht.2.2.2 ht'.2.2.2 hk h))
  · have h1 : topicDeleteSel t (consumerOffsetKey g t' p) = false := by
      apply hpre
      have : consumerOffsetKey g t' p = consumersPfx ++ (g ++ str "/offsets/" ++ t' ++ '/' :: intStr p) := by
        simp [consumerOffsetKey]
      rw [this]; exact topics_prefix_not_consumers t _
    have h2 : containsB (offsetsMarker t) (consumerOffsetKey g t' p) = false := by
      cases h : containsB (offsetsMarker t) (consumerOffsetKey g t' p) with
      | false => rfl
      | true =>
        rcases coff_contains_plain hg ht.2.2.2 ht'.2.2.2 h with h | h
        · exact absurd h.symm hne
        · exact absurd h hw
    simp [etcdDeleteSel, coffDeleteSel, h1, h2]
  · have h1 : topicDeleteSel t (consumerGroupKey g) = false := by
      apply hpre
      have : consumerGroupKey g = consumersPfx ++ (g ++ str "/metadata") := by simp [consumerGroupKey]
      rw [this]; exact topics_prefix_not_consumers t _
    simp [etcdDeleteSel, coffDeleteSel, h1, group_contains_plain hg ht.2.2.2]
  · cases h : memOffDeleteSel t (partitionKey t' p) with
    | false => rfl
    | true =>
      have := List.isPrefixOf_iff_prefix.mp h
      exact absurd (sep_prefix hc hc' this) hne
  · simp [memCoffDeleteSel, Ne.symm hne]

/-- Non-vacuity of the hypotheses, and the selectors at work on concrete keys. -/
example : accepted (str "metrics.cpu") = true ∧ accepted (str "metrics_cpu") = true ∧
    etcdDeleteSel (str "metrics.cpu") (consumerOffsetKey (str "dash") (str "metrics.cpu") 0) = true ∧
    etcdDeleteSel (str "metrics.cpu") (consumerOffsetKey (str "dash") (str "metrics_cpu") 0) = false ∧
    etcdDeleteSel (str "t") (offsetKey (str "t") 3) = true ∧ etcdDeleteSel (str "t") (offsetKey (str "t1") 3) = false := by
  decide

/-- **Completeness**: every key of `t` in the families `DeleteTopic` is responsible for is selected —
next offset, config, partition state, committed offsets of ANY group id, the in-memory keys. -/
theorem _root_.KafVerif.C22.delete_selects_all_own_keys (t g : List Char) (p : Int) :
    etcdDeleteSel t (offsetKey t p) = true ∧ etcdDeleteSel t (topicConfigKey t) = true ∧
    etcdDeleteSel t (partitionStateKey t p) = true ∧ etcdDeleteSel t (consumerOffsetKey g t p) = true ∧
    memOffDeleteSel t (partitionKey t p) = true ∧ memCoffDeleteSel t (g, t, p) = true := by
  have pre : ∀ z, topicDeleteSel t (topicDeletePrefix t ++ z) = true := fun z =>
    List.isPrefixOf_iff_prefix.mpr (List.prefix_append _ _)
  refine ⟨?_, ?_, ?_, ?_, ?_, ?_⟩
  · have : offsetKey t p = topicDeletePrefix t ++ (str "partitions/" ++ intStr p ++ str "/next_offset") := by
      simp [offsetKey, topicDeletePrefix, str]
    simp [etcdDeleteSel, this, pre]
  · have : topicConfigKey t = topicDeletePrefix t ++ str "config" := by simp [topicConfigKey, topicDeletePrefix, str]
    simp [etcdDeleteSel, this, pre]
  · have : partitionStateKey t p = topicDeletePrefix t ++ (str "partitions/" ++ intStr p) := by
      simp [partitionStateKey, topicDeletePrefix, str]
    simp [etcdDeleteSel, this, pre]
  · have e : consumerOffsetKey g t p = (consumersPfx ++ g) ++ offsetsMarker t ++ intStr p := by
      simp [consumerOffsetKey, offsetsMarker]
    have h1 : consumersPfx.isPrefixOf (consumerOffsetKey g t p) = true :=
      List.isPrefixOf_iff_prefix.mpr ⟨g ++ str "/offsets/" ++ t ++ '/' :: intStr p, by simp [consumerOffsetKey]⟩
    have h2 : containsB (offsetsMarker t) (consumerOffsetKey g t p) = true := by rw [e]; exact containsB_of_infix _ _ _
    simp [etcdDeleteSel, coffDeleteSel, h1, h2]
  · exact List.isPrefixOf_iff_prefix.mpr ⟨intStr p, by simp [memDeletePrefix, partitionKey]⟩
  · simp [memCoffDeleteSel]

/-- **Both hypotheses on the group id are needed (HEAD).**  (1) group `offsets`, deleted topic `offsets`:
the commit of that group to topic `orders` is selected — plain group id, two accepted names.  (2) a
group id that carries `/offsets/x/`: its commit to topic `y` is selected by `DeleteTopic("x")` (the
separator-carrying group ids of C16's open finding `etcd-offset-key-slash-aliasing`).  The in-memory
selector selects neither. -/
theorem _root_.KafVerif.C22.contains_selector_overmatches :
    (accepted (str "offsets") = true ∧ accepted (str "orders") = true ∧ PlainGroup (str "offsets") ∧
      etcdDeleteSel (str "offsets") (consumerOffsetKey (str "offsets") (str "orders") 0) = true ∧
      memCoffDeleteSel (str "offsets") (str "offsets", str "orders", 0) = false) ∧
    (accepted (str "x") = true ∧ accepted (str "y") = true ∧
      etcdDeleteSel (str "x") (consumerOffsetKey (str "g/offsets/x/9") (str "y") 0) = true ∧
      memCoffDeleteSel (str "x") (str "g/offsets/x/9", str "y", 0) = false) := by
  refine ⟨⟨by decide, by decide, by unfold PlainGroup; decide, by decide, by decide⟩, by decide, by decide, by decide, by decide⟩

/-! ### the end-anchored selector of the proposed fix -/

theorem lastSlashSplit_append {x y : List Char} (hy : '/' ∉ y) : lastSlashSplit (x ++ '/' :: y) = some (x, y) := by
  have hr : (x ++ '/' :: y).reverse = y.reverse ++ '/' :: x.reverse := by simp
  have hyr' : ∀ c ∈ y.reverse, (decide (c ≠ '/')) = true := by
    intro c hc
    have : c ∈ y := List.mem_reverse.mp hc
    simp only [ne_eq, decide_eq_true_eq]
    intro e; subst e; exact hy this
  have hd : (y.reverse ++ '/' :: x.reverse).dropWhile (fun c => decide (c ≠ '/')) = '/' :: x.reverse := by
    rw [List.dropWhile_append_of_pos hyr']; simp [List.dropWhile]
  have ht : (y.reverse ++ '/' :: x.reverse).takeWhile (fun c => decide (c ≠ '/')) = y.reverse := by
    rw [List.takeWhile_append_of_pos hyr']; simp [List.takeWhile]
  simp only [lastSlashSplit, hr, hd, ht, List.reverse_reverse]

theorem isIntStr_intStr (p : Int) : isIntStr (intStr p) = true := by
  have hn : ∀ n, isIntStr (natStr n) = true := by
    intro n
    have hd : ∀ c ∈ natStr n, c.isDigit = true := fun c hc => natStr_digit hc
    have hne := natStr_ne_nil n
    cases h : natStr n with
    | nil => exact absurd h hne
    | cons c r =>
      rw [h] at hd
      have hc : c.isDigit = true := hd c (by simp)
      have hc1 : c ≠ '-' := by intro e; subst e; simp [Char.isDigit] at hc
      have hc2 : c ≠ '+' := by intro e; subst e; simp [Char.isDigit] at hc
      unfold isIntStr
      split
      · rename_i heq; simp only [List.cons.injEq] at heq; exact absurd heq.1 hc1
      · rename_i heq; simp only [List.cons.injEq] at heq; exact absurd heq.1 hc2
      · simp only [ne_eq, reduceCtorEq, not_false_eq_true, decide_true, Bool.true_and, List.all_eq_true]
        exact hd
  cases p with
  | ofNat n => exact hn n
  | negSucc n =>
    have hd : ∀ c ∈ natStr (n + 1), c.isDigit = true := fun c hc => natStr_digit hc
    simp only [intStr, isIntStr, ne_eq, natStr_ne_nil, not_false_eq_true, decide_true, Bool.true_and, List.all_eq_true]
    exact hd

/-- Suffix `/offsets/<t>` of `X/offsets/<t'>` with slash-free `t`, `t'` forces `t = t'`. -/
theorem offsets_suffix_inj {X t t' : List Char} (ht : '/' ∉ t) (ht' : '/' ∉ t')
    (h : (str "/offsets/" ++ t) <:+ (X ++ str "/offsets/" ++ t')) : t = t' := by
  obtain ⟨w, hw⟩ := h
  have h1 := congrArg (splitOn '/') hw
  have e1 : w ++ (str "/offsets/" ++ t) = (w ++ str "/offsets") ++ '/' :: t := by simp [str]
  have e2 : X ++ str "/offsets/" ++ t' = (X ++ str "/offsets") ++ '/' :: t' := by simp [str]
  rw [e1, e2, splitOn_append, splitOn_append, splitOn_free ht, splitOn_free ht'] at h1
  have := congrArg List.getLast? h1
  simpa using this

/-- **The proposed end-anchored selector is exact — for every group id.**  It selects the
committed-offset key of `(g, t', p)` iff `t' = t`, and never a group-metadata key of a plain group. -/
theorem _root_.KafVerif.C22.fixed_selector_exact (t t' g : List Char) (p : Int)
    (ha : accepted t = true) (ha' : accepted t' = true) :
    (coffDeleteSelFixed t (consumerOffsetKey g t' p) = true ↔ t' = t) ∧
    (PlainGroup g → coffDeleteSelFixed t (consumerGroupKey g) = false) := by
  obtain ⟨ht, _, _⟩ := KafVerif.C22.accepted_plain ha
  obtain ⟨ht', _, _⟩ := KafVerif.C22.accepted_plain ha'
  have hp : '/' ∉ intStr p := intStr_no (by decide) (by decide)
  have hpre : consumersPfx.isPrefixOf (consumerOffsetKey g t' p) = true :=
    List.isPrefixOf_iff_prefix.mpr ⟨g ++ str "/offsets/" ++ t' ++ '/' :: intStr p, by simp [consumerOffsetKey]⟩
  have hsplit : lastSlashSplit (consumerOffsetKey g t' p) = some (consumersPfx ++ g ++ str "/offsets/" ++ t', intStr p) := by
    have : consumerOffsetKey g t' p = (consumersPfx ++ g ++ str "/offsets/" ++ t') ++ '/' :: intStr p := by
      simp [consumerOffsetKey]
    rw [this]; exact lastSlashSplit_append hp
  constructor
  · simp only [coffDeleteSelFixed, hpre, hsplit, isIntStr_intStr, Bool.true_and]
    constructor
    · intro h
      have := List.isSuffixOf_iff_suffix.mp h
      exact (offsets_suffix_inj (X := consumersPfx ++ g) ht.2.2.2 ht'.2.2.2 (by simpa [List.append_assoc] using this)).symm
    · intro h
      subst h
      exact List.isSuffixOf_iff_suffix.mpr ⟨consumersPfx ++ g, by simp⟩
  · intro hg
    have hsplit2 : lastSlashSplit (consumerGroupKey g) = some (consumersPfx ++ g, str "metadata") := by
      have : consumerGroupKey g = (consumersPfx ++ g) ++ '/' :: str "metadata" := by simp [consumerGroupKey, str]
      rw [this]; exact lastSlashSplit_append (by decide)
    have : isIntStr (str "metadata") = false := by decide
    simp [coffDeleteSelFixed, hsplit2, this]

/-- The fixed selector on the two witnesses of `contains_selector_overmatches`: neither is selected,
the own keys are. -/
example :
    coffDeleteSelFixed (str "offsets") (consumerOffsetKey (str "offsets") (str "orders") 0) = false ∧
    coffDeleteSelFixed (str "x") (consumerOffsetKey (str "g/offsets/x/9") (str "y") 0) = false ∧
    coffDeleteSelFixed (str "offsets") (consumerOffsetKey (str "offsets") (str "offsets") 7) = true ∧
    coffDeleteSelFixed (str "y") (consumerOffsetKey (str "g/offsets/x/9") (str "y") 0) = true := by decide

/-! ### the unquoted regular expression (seeded change C22-r3-2) -/

/-- **An unquoted topic name in a regular expression crosses topics.**  `.` is a legal topic byte and a
wildcard: the selector built for `metrics.cpu` selects the committed offsets of `metrics_cpu`,
`metrics-cpu` and `metricsXcpu` (all accepted, all different); for a name without `.` it behaves. -/
theorem _root_.KafVerif.C22.regex_selector_crosses_topics :
    accepted (str "metrics.cpu") = true ∧ accepted (str "metrics_cpu") = true ∧
    accepted (str "metrics-cpu") = true ∧ accepted (str "metricsXcpu") = true ∧
    regexSel (str "metrics.cpu") (consumerOffsetKey (str "dashboards") (str "metrics.cpu") 0) = true ∧
    regexSel (str "metrics.cpu") (consumerOffsetKey (str "dashboards") (str "metrics_cpu") 0) = true ∧
    regexSel (str "metrics.cpu") (consumerOffsetKey (str "dashboards") (str "metrics-cpu") 12) = true ∧
    regexSel (str "metrics.cpu") (consumerOffsetKey (str "dashboards") (str "metricsXcpu") 3) = true ∧
    regexSel (str "metrics_cpu") (consumerOffsetKey (str "dashboards") (str "metrics.cpu") 0) = false ∧
    etcdDeleteSel (str "metrics.cpu") (consumerOffsetKey (str "dashboards") (str "metrics_cpu") 0) = false := by
  decide

end KafVerif.MetaKeys
