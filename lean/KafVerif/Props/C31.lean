import KafVerif.Model.LfsRewrite
/-!
C31 — LFS produce rewriting changes only the flagged values.

Statement (properties.jsonl): when the proxy rewrites a produce request, each record flagged for
large-file handling gets a value that is a valid envelope for a new object holding exactly the
original value, and loses only its flag header.  Every other record, key, header, timestamp, order
and count stays the same.  Each rewritten batch has a correct length and CRC and keeps its
compression codec.  Quantifier: every produce request with any mix of flagged/unflagged records,
batches, partitions, compression codecs and header sets.

All theorems hold for every hash function `H`, every configuration (blob limit, default
algorithm, S3 failure point), every request (`request_shape` needs well-formed batches:
`NumRecords` = number of encoded records, codec 0..4).
-/
namespace KafVerif.LfsRewrite
open KafVerif.LfsResolve (Alg)

/-- pointwise relation between two lists of the same length (core Lean has no `List.Forall₂`) -/
inductive Forall2 {α β : Type} (R : α → β → Prop) : List α → List β → Prop where
  | nil : Forall2 R [] []
  | cons {a b l m} : R a b → Forall2 R l m → Forall2 R (a :: l) (b :: m)

theorem Forall2.length_eq {α β : Type} {R : α → β → Prop} {l : List α} {m : List β} (h : Forall2 R l m) :
    l.length = m.length := by
  induction h with
  | nil => rfl
  | cons _ _ ih => simp [ih]

/-! ### the frame condition for one record -/

/-- what may differ between an input record and its output, relative to the final ghost S3 -/
def Framed (s3 : S3) (r : Record) (o : OutRecord) : Prop :=
  o.attrs = r.attrs ∧ o.tsDelta = r.tsDelta ∧ o.offDelta = r.offDelta ∧ o.key = r.key ∧
  (flagged r = false → o.value = .raw r.value ∧ o.headers = r.headers) ∧
  (flagged r = true → o.headers = dropHeader r.headers blobKey ∧
    ∃ e, o.value = .env e ∧ s3[e.objKey]? = some (some (orEmpty r.value)) ∧
      e.size = (orEmpty r.value).length ∧ e.shaOf = orEmpty r.value ∧
      (e.ckOf = none ∨ e.ckOf = some (orEmpty r.value)))

theorem framed_mono {s3 : S3} (t : S3) {r : Record} {o : OutRecord} (h : Framed s3 r o) : Framed (s3 ++ t) r o := by
  obtain ⟨h1, h2, h3, h4, h5, h6⟩ := h
  refine ⟨h1, h2, h3, h4, h5, ?_⟩
  intro hf
  obtain ⟨hh, e, he, hs, rest⟩ := h6 hf
  refine ⟨hh, e, he, ?_, rest⟩
  have hlt : e.objKey < s3.length := by
    cases hk : s3[e.objKey]? with
    | none => rw [hk] at hs; simp at hs
    | some v => exact (List.getElem?_eq_some_iff.mp hk).1
  rw [List.getElem?_append_left hlt]; exact hs

/-- one record: the upload (if any) appends exactly one object; the frame condition holds -/
theorem rewriteRecord_frame (H : Alg → Bytes → Bytes) (cfg : Cfg) (s3 s3' : S3) (r : Record) (o : OutRecord)
    (h : rewriteRecord H cfg s3 r = some (s3', o)) :
    (∃ t, s3' = s3 ++ t ∧ t.length = if flagged r then 1 else 0) ∧ Framed s3' r o := by
  unfold rewriteRecord at h
  cases hf : findHeader r.headers blobKey with
  | none =>
    rw [hf] at h
    simp only [Option.some.injEq, Prod.mk.injEq] at h
    obtain ⟨rfl, rfl⟩ := h
    have hfl : flagged r = false := by simp [flagged, hf]
    exact ⟨⟨[], by simp, by simp [hfl]⟩, rfl, rfl, rfl, rfl, fun _ => ⟨rfl, rfl⟩, fun h => by simp [hfl] at h⟩
  | some lfsValue =>
    rw [hf] at h
    have hfl : flagged r = true := by simp [flagged, hf]
    simp only [] at h
    split at h
    · simp at h
    rename_i alg halg
    · by_cases c1 : (!(LfsResolve.trimSpace (orEmpty lfsValue)).isEmpty && alg == Alg.none) = true
      · rw [if_pos c1] at h; simp at h
      rw [if_neg c1] at h
      by_cases c2 : ((orEmpty r.value).length : Int) > cfg.maxBlob
      · rw [if_pos c2] at h; simp at h
      rw [if_neg c2] at h
      by_cases c3 : (cfg.failUploadAt == some s3.length) = true
      · rw [if_pos c3] at h; simp at h
      rw [if_neg c3] at h
      have fin : ∀ ck : Option Bytes, (ck = none ∨ ck = some (orEmpty r.value)) →
          s3 ++ [some (orEmpty r.value)] = s3' →
          (⟨r.attrs, r.tsDelta, r.offDelta, r.key,
            Val.env ⟨s3.length, (orEmpty r.value).length, orEmpty r.value, alg, ck,
              headerValue r.headers (LfsEnvelope.ascii "content-type"), headersToMap r.headers⟩,
            dropHeader r.headers blobKey⟩ : OutRecord) = o →
          (∃ t, s3' = s3 ++ t ∧ t.length = if flagged r then 1 else 0) ∧ Framed s3' r o := by
        intro ck hck h1 h2
        subst h1; subst h2
        refine ⟨⟨[some (orEmpty r.value)], rfl, by simp [hfl]⟩, rfl, rfl, rfl, rfl, fun h => by simp [hfl] at h, ?_⟩
        intro _
        exact ⟨rfl, _, rfl, by simp, rfl, rfl, hck⟩
      by_cases ha : alg = Alg.none
      · subst ha
        simp at h
        exact fin none (Or.inl rfl) h.1 h.2
      · have hb : (alg == Alg.none) = false := by simp [ha]
        simp only [hb, Bool.false_eq_true, if_false] at h
        split at h
        · simp at h
        · simp only [Option.some.injEq, Prod.mk.injEq] at h
          exact fin _ (Or.inr rfl) h.1 h.2

/-! ### the generic traversal keeps a monotone relation -/

theorem traverse_frame {α β : Type} (f : S3 → α → Option (S3 × β)) (R : S3 → α → β → Prop) (P : α → Prop)
    (hmono : ∀ s t a b, R s a b → R (s ++ t) a b)
    (hstep : ∀ s a s' b, P a → f s a = some (s', b) → (∃ t, s' = s ++ t) ∧ R s' a b) :
    ∀ (l : List α) (s s' : S3) (out : List β), (∀ a ∈ l, P a) → traverse f s l = some (s', out) →
      (∃ t, s' = s ++ t) ∧ Forall2 (R s') l out := by
  intro l
  induction l with
  | nil =>
    intro s s' out _ h
    simp only [traverse, Option.some.injEq, Prod.mk.injEq] at h
    obtain ⟨rfl, rfl⟩ := h
    exact ⟨⟨[], by simp⟩, Forall2.nil⟩
  | cons a rest ih =>
    intro s s' out hP h
    simp only [traverse] at h
    split at h
    · simp at h
    · rename_i s1 o hfa
      split at h
      · simp at h
      · rename_i s2 os hrest
        simp only [Option.some.injEq, Prod.mk.injEq] at h
        obtain ⟨rfl, rfl⟩ := h
        obtain ⟨⟨t1, ht1⟩, hR⟩ := hstep s a s1 o (hP a (by simp)) hfa
        obtain ⟨⟨t2, ht2⟩, hF⟩ := ih s1 s2 os (fun x hx => hP x (by simp [hx])) hrest
        refine ⟨⟨t1 ++ t2, by rw [ht2, ht1, List.append_assoc]⟩, Forall2.cons ?_ hF⟩
        rw [ht2]; exact hmono _ _ _ _ hR

theorem traverse_length {α β : Type} (f : S3 → α → Option (S3 × β)) :
    ∀ (l : List α) (s s' : S3) (out : List β), traverse f s l = some (s', out) → out.length = l.length := by
  intro l
  induction l with
  | nil => intro s s' out h; simp only [traverse, Option.some.injEq, Prod.mk.injEq] at h; simp [← h.2]
  | cons a rest ih =>
    intro s s' out h
    simp only [traverse] at h
    split at h
    · simp at h
    · split at h
      · simp at h
      · rename_i hrest
        simp only [Option.some.injEq, Prod.mk.injEq] at h
        rw [← h.2]; simp [ih _ _ _ hrest]

/-- if `f` leaves the state alone and returns `g a` on every element, so does the traversal -/
theorem traverse_id {α β : Type} (f : S3 → α → Option (S3 × β)) (g : α → β) (l : List α)
    (h : ∀ a ∈ l, ∀ s, f s a = some (s, g a)) (s : S3) : traverse f s l = some (s, l.map g) := by
  induction l with
  | nil => rfl
  | cons a rest ih =>
    simp only [traverse, h a (by simp) s, ih (fun x hx => h x (by simp [hx])), List.map_cons]

/-! ### records of one batch -/

/-- **C31 (records).** A successful pass over a record list yields exactly one output per input, in
order; an unflagged record is identical; a flagged record keeps attributes, timestamp delta,
offset delta, key and every header except `LFS_BLOB` (order kept), and its value is an envelope
whose key maps — in the final ghost S3 — to exactly the original value, with size and digests
computed over it.  Objects uploaded earlier are never touched (`s3' = s3 ++ t`). -/
theorem _root_.KafVerif.C31.records_frame (H : Alg → Bytes → Bytes) (cfg : Cfg) (s3 s3' : S3)
    (rs : List Record) (outs : List OutRecord) (h : rewriteRecords H cfg s3 rs = some (s3', outs)) :
    (∃ t, s3' = s3 ++ t) ∧ outs.length = rs.length ∧ Forall2 (Framed s3') rs outs := by
  have := traverse_frame (rewriteRecord H cfg) Framed (fun _ => True) (fun s t a b => framed_mono t)
    (fun s a s' b _ hf => by
      obtain ⟨⟨t, ht, _⟩, hfr⟩ := rewriteRecord_frame H cfg s s' a b hf
      exact ⟨⟨t, ht⟩, hfr⟩) rs s3 s3' outs (fun _ _ => trivial) h
  exact ⟨this.1, traverse_length _ rs s3 s3' outs h, this.2⟩

/-! ### batches -/

def WFBatch (b : Batch) : Prop := b.numRecords = b.records.length ∧ b.codec ≤ 4

def BatchFramed (s3 : S3) (b : Batch) (o : OutBatch) : Prop :=
  o.codec = b.codec ∧ o.numRecords = b.records.length ∧ o.modified = b.records.any flagged ∧
  Forall2 (Framed s3) b.records o.records

theorem asIs_framed (s3 : S3) (r : Record) (h : flagged r = false) : Framed s3 r (asIs r) :=
  ⟨rfl, rfl, rfl, rfl, fun _ => ⟨rfl, rfl⟩, fun h' => by simp [h] at h'⟩

theorem forall₂_asIs (s3 : S3) (rs : List Record) (h : rs.any flagged = false) :
    Forall2 (Framed s3) rs (rs.map asIs) := by
  induction rs with
  | nil => exact Forall2.nil
  | cons r rest ih =>
    simp only [List.any_cons, Bool.or_eq_false_iff] at h
    exact Forall2.cons (asIs_framed s3 r h.1) (ih h.2)

theorem forall₂_mono {s3 : S3} (t : S3) {rs : List Record} {os : List OutRecord}
    (h : Forall2 (Framed s3) rs os) : Forall2 (Framed (s3 ++ t)) rs os := by
  induction h with
  | nil => exact Forall2.nil
  | cons h _ ih => exact Forall2.cons (framed_mono t h) ih

/-- **C31 (batch).** For a well-formed batch, a successful rewrite keeps the codec and the record
count, marks the batch as re-encoded exactly when it holds a flagged record, and its records
satisfy the frame condition. -/
theorem _root_.KafVerif.C31.batch_frame (H : Alg → Bytes → Bytes) (cfg : Cfg) (s3 s3' : S3) (b : Batch) (o : OutBatch)
    (hw : WFBatch b) (h : rewriteBatch H cfg s3 b = some (s3', o)) :
    (∃ t, s3' = s3 ++ t) ∧ BatchFramed s3' b o := by
  obtain ⟨hn, hc⟩ := hw
  unfold rewriteBatch at h
  have htake : b.records.take b.numRecords.toNat = b.records := by
    rw [hn]; simp
  simp only [htake] at h
  split at h
  · omega
  · split at h
    · rename_i hemp
      simp only [Option.some.injEq, Prod.mk.injEq] at h
      obtain ⟨rfl, rfl⟩ := h
      have hnil : b.records = [] := by simpa using hemp
      refine ⟨⟨[], by simp⟩, rfl, by simp [hn], by simp [hnil], ?_⟩
      simp only [hnil, List.map_nil]
      exact Forall2.nil
    · split at h
      · simp at h
      · rename_i s1 outs hrec
        obtain ⟨hpre, hlen, hfr⟩ := KafVerif.C31.records_frame H cfg s3 s1 b.records outs hrec
        split at h
        · rename_i hany
          simp only [Option.some.injEq, Prod.mk.injEq] at h
          obtain ⟨rfl, rfl⟩ := h
          exact ⟨hpre, rfl, rfl, by simp [hany], hfr⟩
        · rename_i hany
          simp only [Option.some.injEq, Prod.mk.injEq] at h
          obtain ⟨rfl, rfl⟩ := h
          have hany' : b.records.any flagged = false := by simpa using hany
          exact ⟨hpre, rfl, by simp [hn], by simp [hany'], forall₂_asIs _ _ hany'⟩

theorem batchFramed_mono {s3 : S3} (t : S3) {b : Batch} {o : OutBatch} (h : BatchFramed s3 b o) :
    BatchFramed (s3 ++ t) b o := ⟨h.1, h.2.1, h.2.2.1, forall₂_mono t h.2.2.2⟩

/-! ### partitions, topics, request -/

def PartFramed (s3 : S3) (p : Partition) (o : OutPartition) : Prop :=
  o.1 = p.1 ∧ Forall2 (BatchFramed s3) p.2 o.2

def TopicFramed (s3 : S3) (t : Topic) (o : OutTopic) : Prop :=
  o.1 = t.1 ∧ Forall2 (PartFramed s3) t.2 o.2

def WFPart (p : Partition) : Prop := ∀ b ∈ p.2, WFBatch b
def WFTopic (t : Topic) : Prop := ∀ p ∈ t.2, WFPart p

theorem forall₂_imp {α β : Type} {R S : α → β → Prop} (hi : ∀ a b, R a b → S a b) {l : List α} {m : List β}
    (h : Forall2 R l m) : Forall2 S l m := by
  induction h with
  | nil => exact Forall2.nil
  | cons h _ ih => exact Forall2.cons (hi _ _ h) ih

theorem partFramed_mono {s3 : S3} (t : S3) {p : Partition} {o : OutPartition} (h : PartFramed s3 p o) :
    PartFramed (s3 ++ t) p o := ⟨h.1, forall₂_imp (fun _ _ hb => batchFramed_mono t hb) h.2⟩

theorem topicFramed_mono {s3 : S3} (t : S3) {tp : Topic} {o : OutTopic} (h : TopicFramed s3 tp o) :
    TopicFramed (s3 ++ t) tp o := ⟨h.1, forall₂_imp (fun _ _ hp => partFramed_mono t hp) h.2⟩

theorem rewritePartition_frame (H : Alg → Bytes → Bytes) (cfg : Cfg) (s3 s3' : S3) (p : Partition) (o : OutPartition)
    (hw : WFPart p) (h : rewritePartition H cfg s3 p = some (s3', o)) :
    (∃ t, s3' = s3 ++ t) ∧ PartFramed s3' p o := by
  unfold rewritePartition rewriteBatches at h
  cases ht : traverse (rewriteBatch H cfg) s3 p.2 with
  | none => simp [ht] at h
  | some r =>
    simp only [ht, Option.map_some, Option.some.injEq, Prod.mk.injEq] at h
    obtain ⟨rfl, rfl⟩ := h
    have := traverse_frame (rewriteBatch H cfg) BatchFramed WFBatch (fun s t a b => batchFramed_mono t)
      (fun s a s' b hwb hf => KafVerif.C31.batch_frame H cfg s s' a b hwb hf) p.2 s3 r.1 r.2 hw (by rw [ht])
    exact ⟨this.1, rfl, this.2⟩

theorem rewriteTopic_frame (H : Alg → Bytes → Bytes) (cfg : Cfg) (s3 s3' : S3) (tp : Topic) (o : OutTopic)
    (hw : WFTopic tp) (h : rewriteTopic H cfg s3 tp = some (s3', o)) :
    (∃ t, s3' = s3 ++ t) ∧ TopicFramed s3' tp o := by
  unfold rewriteTopic at h
  cases ht : traverse (rewritePartition H cfg) s3 tp.2 with
  | none => simp [ht] at h
  | some r =>
    simp only [ht, Option.map_some, Option.some.injEq, Prod.mk.injEq] at h
    obtain ⟨rfl, rfl⟩ := h
    have := traverse_frame (rewritePartition H cfg) PartFramed WFPart (fun s t a b => partFramed_mono t)
      (fun s a s' b hwb hf => rewritePartition_frame H cfg s s' a b hwb hf) tp.2 s3 r.1 r.2 hw (by rw [ht])
    exact ⟨this.1, rfl, this.2⟩

/-- **C31 (request).** For every request whose batches are well formed: if the rewrite succeeds,
topics, partitions, batches and records are in 1-1 order-preserving correspondence with the
input (same topic names, partition numbers, batch and record counts, codecs), every record
satisfies the frame condition relative to the final S3 contents, and a batch is re-encoded
exactly when it contains a flagged record. -/
theorem _root_.KafVerif.C31.request_shape (H : Alg → Bytes → Bytes) (cfg : Cfg) (req : List Topic)
    (s3 : S3) (out : List OutTopic) (hw : ∀ t ∈ req, WFTopic t)
    (h : rewriteRequest H cfg req = some (s3, out)) :
    Forall2 (TopicFramed s3) req out := by
  unfold rewriteRequest at h
  exact (traverse_frame (rewriteTopic H cfg) TopicFramed WFTopic (fun s t a b => topicFramed_mono t)
    (fun s a s' b hwt hf => rewriteTopic_frame H cfg s s' a b hwt hf) req [] s3 out hw h).2

/-! ### a request without flagged records is returned untouched -/

def untouchedBatch (b : Batch) : OutBatch := ⟨false, b.codec, b.numRecords, b.records.map asIs⟩

theorem rewriteRecords_unflagged (H : Alg → Bytes → Bytes) (cfg : Cfg) (s3 : S3) (rs : List Record)
    (h : rs.any flagged = false) : rewriteRecords H cfg s3 rs = some (s3, rs.map asIs) := by
  apply traverse_id
  intro r hr s
  have hf : flagged r = false := by
    have := List.any_eq_false.mp h r hr
    simpa using this
  have : findHeader r.headers blobKey = none := by
    cases hfh : findHeader r.headers blobKey with
    | none => rfl
    | some v => simp [flagged, hfh] at hf
  simp [rewriteRecord, this]

theorem rewriteBatch_unflagged (H : Alg → Bytes → Bytes) (cfg : Cfg) (s3 : S3) (b : Batch)
    (hc : b.codec ≤ 4) (h : b.records.any flagged = false) :
    rewriteBatch H cfg s3 b = some (s3, untouchedBatch b) := by
  unfold rewriteBatch untouchedBatch
  have hcc : ¬ b.codec > 4 := by omega
  simp only [hcc, if_false]
  split
  · rfl
  · have hany : (b.records.take b.numRecords.toNat).any flagged = false := by
      apply List.any_eq_false.mpr
      intro r hr
      exact List.any_eq_false.mp h r (List.mem_of_mem_take hr)
    rw [rewriteRecords_unflagged H cfg s3 _ hany]
    simp [hany]

/-- **C31 (nothing flagged ⇒ nothing changes).** If no record of a request carries `LFS_BLOB` (and
the codecs are known), the rewrite succeeds, uploads nothing and leaves every batch unmodified —
whatever `NumRecords` claims. -/
theorem _root_.KafVerif.C31.unflagged_request_untouched (H : Alg → Bytes → Bytes) (cfg : Cfg) (req : List Topic)
    (h : ∀ t ∈ req, ∀ p ∈ t.2, ∀ b ∈ p.2, b.codec ≤ 4 ∧ b.records.any flagged = false) :
    rewriteRequest H cfg req =
      some ([], req.map fun t => (t.1, t.2.map fun p => (p.1, p.2.map untouchedBatch))) := by
  unfold rewriteRequest
  apply traverse_id
  intro t ht s
  unfold rewriteTopic
  rw [traverse_id (rewritePartition H cfg) (fun p => (p.1, p.2.map untouchedBatch)) t.2]
  · rfl
  · intro p hp s
    unfold rewritePartition rewriteBatches
    rw [traverse_id (rewriteBatch H cfg) untouchedBatch p.2]
    · rfl
    · intro b hb s
      exact rewriteBatch_unflagged H cfg s b (h t ht p hp b hb).1 (h t ht p hp b hb).2

/-! ### byte level: varints round-trip -/

/-- **C31 (LEB128).** `binary.PutUvarint` followed by `binary.Uvarint` is the identity, with the
remaining bytes untouched — for every natural number and every suffix. -/
theorem _root_.KafVerif.C31.uvarint_roundtrip (n : Nat) (rest : Bytes) :
    readUvarint (uvarint n ++ rest) = some (n, rest) := by
  induction n using Nat.strongRecOn with
  | _ n ih =>
    rw [uvarint]
    split
    · rename_i h
      have h1 : (UInt8.ofNat n) < 128 := by rw [UInt8.lt_iff_toNat_lt]; simp; omega
      have h2 : (UInt8.ofNat n).toNat = n := by simp; omega
      simp [readUvarint, h1, h2]
    · rename_i h
      have hb : ¬ (UInt8.ofNat (n % 128 + 128)) < 128 := by rw [UInt8.lt_iff_toNat_lt]; simp; omega
      have h2 : (UInt8.ofNat (n % 128 + 128)).toNat = n % 128 + 128 := by simp; omega
      simp only [List.cons_append, readUvarint, hb, if_false, ih (n / 128) (by omega), h2]
      simp; omega

theorem unzigzag_zigzag (v : Int) : unzigzag (zigzag v) = v := by
  unfold zigzag unzigzag
  split
  · rename_i h
    have h1 : (2 * v).toNat % 2 = 0 := by omega
    simp only [h1, beq_self_eq_true, if_true]
    omega
  · rename_i h
    have h1 : (-2 * v - 1).toNat % 2 = 1 := by omega
    simp only [h1]
    simp
    omega

/-- **C31 (zig-zag varint).** `lfsAppendVarint`/`lfsAppendVarlong` followed by `binary.Varint`
returns the value and the remaining bytes — for every integer (in particular every record length,
timestamp delta, offset delta, key/value/header length including −1 for nil). -/
theorem _root_.KafVerif.C31.varint_roundtrip (v : Int) (rest : Bytes) :
    readVarint (varint v ++ rest) = some (v, rest) := by
  simp [readVarint, varint, KafVerif.C31.uvarint_roundtrip, unzigzag_zigzag]

/-! ### byte level: `lfsEncodeRecord` round-trips through the record wire format -/

theorem readBytes_roundtrip (b : Option Bytes) (rest : Bytes) : readBytes (varintBytes b ++ rest) = some (b, rest) := by
  cases b with
  | none =>
    simp only [varintBytes, readBytes, KafVerif.C31.varint_roundtrip]
    simp
  | some d =>
    simp only [varintBytes, readBytes, List.append_assoc, KafVerif.C31.varint_roundtrip]
    have h1 : ¬ ((d.length : Int) < 0) := by omega
    simp [h1]

theorem readHeaders_roundtrip (hs : List Header) (rest : Bytes) :
    readHeaders hs.length ((hs.map encodeHeader).flatten ++ rest) = some (hs, rest) := by
  induction hs with
  | nil => simp [readHeaders]
  | cons h t ih =>
    simp only [List.length_cons, List.map_cons, List.flatten_cons, readHeaders, encodeHeader, List.append_assoc,
      KafVerif.C31.varint_roundtrip]
    have h1 : ¬ ((h.key.length : Int) < 0) := by omega
    simp [h1, readBytes_roundtrip, ih]

theorem int8_roundtrip (a : Int) (h : -128 ≤ a ∧ a ≤ 127) : int8OfByte (UInt8.ofNat (a % 256).toNat) = a := by
  unfold int8OfByte
  have : (UInt8.ofNat (a % 256).toNat).toNat = (a % 256).toNat := by simp; omega
  rw [this]
  split <;> omega

theorem decodeBody_roundtrip (r : Record) (h : -128 ≤ r.attrs ∧ r.attrs ≤ 127) : decodeBody (encodeBody r) = some r := by
  unfold encodeBody decodeBody
  simp only [List.cons_append, List.nil_append, List.append_assoc, KafVerif.C31.varint_roundtrip, readBytes_roundtrip]
  have h1 : ¬ ((r.headers.length : Int) < 0) := by omega
  have := readHeaders_roundtrip r.headers []
  simp only [List.append_nil] at this
  simp [h1, this, int8_roundtrip r.attrs h]

/-- **C31 (record bytes).** Decoding what `lfsEncodeRecord` wrote gives back the record — attributes,
timestamp delta, offset delta, key and value (nil ≠ empty), every header in order — and leaves the
following bytes untouched; for every record whose attributes fit an int8. -/
theorem _root_.KafVerif.C31.record_roundtrip (r : Record) (rest : Bytes) (h : -128 ≤ r.attrs ∧ r.attrs ≤ 127) :
    decodeRecord (encodeRecord r ++ rest) = some (r, rest) := by
  unfold encodeRecord decodeRecord
  simp only [List.append_assoc, KafVerif.C31.varint_roundtrip]
  have h1 : ¬ (((encodeBody r).length : Int) < 0) := by omega
  simp [h1, decodeBody_roundtrip r h]

/-- `lfsReadRawRecordsInto`: at most `n` records, a prefix when the bytes run out or do not parse -/
def decodeRecords : Nat → Bytes → List Record
  | 0, _ => []
  | n + 1, bs =>
    match decodeRecord bs with
    | none => []
    | some (r, rest) => r :: decodeRecords n rest

theorem decodeRecord_nil : decodeRecord [] = none := by simp [decodeRecord, readVarint, readUvarint]

/-- **C31 (record list bytes).** Reading `n` records from `lfsEncodeRecords rs` yields the first `n`
records of `rs` (all of them when `n ≥ |rs|`): the byte-level justification of the model's
`records.take numRecords`, and — for `n = |rs|` — the round-trip of a whole re-encoded batch payload. -/
theorem _root_.KafVerif.C31.records_roundtrip (rs : List Record) (n : Nat)
    (h : ∀ r ∈ rs, -128 ≤ r.attrs ∧ r.attrs ≤ 127) : decodeRecords n (encodeRecords rs) = rs.take n := by
  induction rs generalizing n with
  | nil =>
    cases n with
    | zero => rfl
    | succ n => simp [decodeRecords, encodeRecords, decodeRecord_nil]
  | cons r rest ih =>
    cases n with
    | zero => rfl
    | succ n =>
      have : encodeRecords (r :: rest) = encodeRecord r ++ encodeRecords rest := by simp [encodeRecords]
      rw [this]
      simp only [decodeRecords, KafVerif.C31.record_roundtrip r _ (h r (by simp)), List.take_succ_cons]
      rw [ih n (fun x hx => h x (by simp [hx]))]

/-! ### byte level: the batch header fix-up -/

theorem beN_length (k n : Nat) : (beN k n).length = k := by
  induction k generalizing n with
  | zero => rfl
  | succ k ih => simp [beN, ih]

@[simp] theorem be_length (k : Nat) (v : Int) : (be k v).length = k := beN_length _ _

/-- the bytes from offset 21 on (attributes … records): what the CRC covers -/
def crcRegion (h : BatchHeader) (records : Bytes) : Bytes :=
  be 2 h.attributes ++ be 4 h.lastOffsetDelta ++ be 8 h.firstTimestamp ++ be 8 h.maxTimestamp ++
  be 8 h.producerId ++ be 2 h.producerEpoch ++ be 4 h.firstSequence ++ be 4 h.numRecords ++ records

theorem serialize_drop21 (h : BatchHeader) (records : Bytes) : (serialize h records).drop 21 = crcRegion h records := by
  unfold serialize crcRegion
  rw [List.drop_append_of_le_length (by simp)]
  simp

theorem serialize_length (h : BatchHeader) (records : Bytes) : (serialize h records).length = 61 + records.length := by
  simp [serialize]; omega

/-- **C31 (batch header).** After the fix-up at the end of the batch loop the serialized batch has
`Length = len(bytes) − 12`, `CRC = crc32c(bytes[21:])`, the new record count and attribute bits, a
61-byte header, and every other header field of the producer's batch is unchanged — for every
CRC function, header, record payload. -/
theorem _root_.KafVerif.C31.batch_header_ok (crc32c : Bytes → Int) (h : BatchHeader) (count : Nat) (attrBits : Int)
    (records : Bytes) :
    (finishBatch crc32c h count attrBits records).length =
      ((serialize (finishBatch crc32c h count attrBits records) records).length : Int) - 12 ∧
    (finishBatch crc32c h count attrBits records).crc =
      crc32c ((serialize (finishBatch crc32c h count attrBits records) records).drop 21) ∧
    (serialize (finishBatch crc32c h count attrBits records) records).length = 61 + records.length ∧
    (finishBatch crc32c h count attrBits records).numRecords = count ∧
    (finishBatch crc32c h count attrBits records).attributes = attrBits ∧
    (finishBatch crc32c h count attrBits records).baseOffset = h.baseOffset ∧
    (finishBatch crc32c h count attrBits records).leaderEpoch = h.leaderEpoch ∧
    (finishBatch crc32c h count attrBits records).magic = h.magic ∧
    (finishBatch crc32c h count attrBits records).lastOffsetDelta = h.lastOffsetDelta ∧
    (finishBatch crc32c h count attrBits records).firstTimestamp = h.firstTimestamp ∧
    (finishBatch crc32c h count attrBits records).maxTimestamp = h.maxTimestamp ∧
    (finishBatch crc32c h count attrBits records).producerId = h.producerId ∧
    (finishBatch crc32c h count attrBits records).producerEpoch = h.producerEpoch ∧
    (finishBatch crc32c h count attrBits records).firstSequence = h.firstSequence := by
  refine ⟨?_, ?_, serialize_length _ _, ?_, ?_, ?_, ?_, ?_, ?_, ?_, ?_, ?_, ?_, ?_⟩
  · simp only [serialize_length]
    simp only [finishBatch, serialize_length]
  · simp only [serialize_drop21]
    simp only [finishBatch, serialize_drop21, crcRegion]
  all_goals simp only [finishBatch]

/-! ### non-vacuity -/

def recPlain : Record := ⟨0, 5, 0, some [1], some [104, 105], [⟨LfsEnvelope.ascii "user-id", some [52]⟩]⟩
def recFlag : Record := ⟨0, 6, 1, none, some [9, 9, 9], [⟨blobKey, none⟩, ⟨LfsEnvelope.ascii "content-type", some [116]⟩]⟩
def cfg0 : Cfg := ⟨1000, LfsEnvelope.ascii "sha256", none, false⟩
def req0 : List Topic := [(LfsEnvelope.ascii "t", [(0, [⟨0, 2, [recPlain, recFlag]⟩, ⟨2, 1, [recPlain]⟩])])]

set_option maxRecDepth 20000 in
example : (rewriteRequest (fun _ d => d) cfg0 req0).map (fun r =>
      (r.1, r.2.map fun t => t.2.map fun p => p.2.map fun b => (b.modified, b.records.length))) =
    some ([some [9, 9, 9]], [[[(true, 2), (false, 1)]]]) := by decide
example : WFBatch ⟨0, 2, [recPlain, recFlag]⟩ := ⟨rfl, by decide⟩
example : readVarint (varint (-1) ++ [7]) = some (-1, [7]) := KafVerif.C31.varint_roundtrip _ _

end KafVerif.LfsRewrite
