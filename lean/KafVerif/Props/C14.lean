import KafVerif.Lemmas.GroupJoin
/-!
C14 — Rebalances complete only when every member has rejoined.

Statement (properties.jsonl): a join reply reports success only when every current member has
joined the current generation; the leader named in any reply is a current member, and only the
leader's successful join reply carries the member list; once all members have rejoined and the
leader has synced, every member's sync in that generation succeeds.
-/
namespace KafVerif.Group
open Group

/-- `join` in terms of `joinCore` -/
theorem join_eq (v : Variant) (s s1 : State) (g mid : Nat) (se rb : Int) (pt : Nat) (pr : Option (Nat × List Nat)) (nk : Nat)
    (st0 : Group) (he : ensureGroup v s g = some (s1, st0)) :
    join v s g mid se rb pt pr nk =
      ({ (persist v (setGroup s1 g (joinCore v st0 mid se rb pt pr nk s1.clock).1) g (some (joinCore v st0 mid se rb pt pr nk s1.clock).1)).1 with
           joinLog := (g, (joinCore v st0 mid se rb pt pr nk s1.clock).1.gen, (joinCore v st0 mid se rb pt pr nk s1.clock).2.1) ::
             (persist v (setGroup s1 g (joinCore v st0 mid se rb pt pr nk s1.clock).1) g (some (joinCore v st0 mid se rb pt pr nk s1.clock).1)).1.joinLog,
           used := if (joinCore v st0 mid se rb pt pr nk s1.clock).2.2.1 then
               (persist v (setGroup s1 g (joinCore v st0 mid se rb pt pr nk s1.clock).1) g (some (joinCore v st0 mid se rb pt pr nk s1.clock).1)).1.used
             else (joinCore v st0 mid se rb pt pr nk s1.clock).2.1 ::
               (persist v (setGroup s1 g (joinCore v st0 mid se rb pt pr nk s1.clock).1) g (some (joinCore v st0 mid se rb pt pr nk s1.clock).1)).1.used },
       joinReply (joinCore v st0 mid se rb pt pr nk s1.clock).1 (joinCore v st0 mid se rb pt pr nk s1.clock).2.1
         (joinCore v st0 mid se rb pt pr nk s1.clock).2.2.2
         (persist v (setGroup s1 g (joinCore v st0 mid se rb pt pr nk s1.clock).1) g (some (joinCore v st0 mid se rb pt pr nk s1.clock).1)).2) := by
  unfold join; rw [he]

/-- `ready` of `joinFinish` means the phase is Stable or Completing -/
theorem joinFinish_ready (st : Group) (m : Nat) (h : (joinFinish st m).2 = true) :
    (joinFinish st m).1.phase = .stable ∨ (joinFinish st m).1.phase = .completing := by
  unfold joinFinish at h ⊢
  generalize joinMark st m = x at h ⊢
  simp only at h ⊢
  by_cases hp : x.phase = .stable ∨ x.phase = .completing
  · rw [if_pos hp]; exact hp
  · rw [if_neg hp] at h ⊢
    unfold completeIfReady at h ⊢
    by_cases h1 : x.members.isEmpty = true
    · rw [if_pos h1] at h; cases h
    · rw [if_neg h1] at h ⊢
      by_cases h2 : x.allJoined = true
      · rw [if_pos h2]; right; rfl
      · rw [if_neg h2] at h; cases h

/-- the shape of every JoinGroup answer, in terms of the group state it leaves behind -/
theorem join_reply_shape (v : Variant) (s s' : State) (g mid : Nat) (se rb : Int) (pt : Nat) (pr : Option (Nat × List Nat)) (nk : Nat)
    (code : Int) (gen ld me pn : Nat) (ms : List (Nat × List Nat))
    (h : join v s g mid se rb pt pr nk = (s', .join code gen ld me pn ms)) :
    ∃ st, lookup s'.groups g = some st ∧ gen = st.gen ∧ ld = st.leader ∧
      (ms = [] ∨ (ms = st.members.map (fun e => (e.1, e.2.topics)) ∧ me = st.leader ∧ code ≠ REBALANCE_IN_PROGRESS)) ∧
      (code = NONE → (st.phase = .stable ∨ st.phase = .completing)) ∧
      (code = NONE → me = st.leader → ms = st.members.map (fun e => (e.1, e.2.topics))) := by
  cases he : ensureGroup v s g with
  | none => unfold join at h; rw [he] at h; simp at h
  | some x =>
    obtain ⟨s1, st0⟩ := x
    rw [join_eq v s s1 g mid se rb pt pr nk st0 he] at h
    have hready : (joinCore v st0 mid se rb pt pr nk s1.clock).2.2.2 = true →
        ((joinCore v st0 mid se rb pt pr nk s1.clock).1.phase = .stable ∨ (joinCore v st0 mid se rb pt pr nk s1.clock).1.phase = .completing) := by
      intro h2; exact joinFinish_ready _ _ h2
    generalize joinCore v st0 mid se rb pt pr nk s1.clock = r at h hready
    obtain ⟨stF, memberID, ex, ready⟩ := r
    simp only at h hready
    generalize hp : persist v (setGroup s1 g stF) g (some stF) = p at h
    obtain ⟨sp, ok⟩ := p
    have hgroups : sp.groups = (setGroup s1 g stF).groups := by
      have := persist_groups v (setGroup s1 g stF) g (some stF); rw [hp] at this; exact this
    unfold joinReply at h
    simp only [Prod.mk.injEq, Reply.join.injEq] at h
    obtain ⟨hs, hcode, hgen, hld, hme, hpn, hms⟩ := h
    refine ⟨stF, ?_, hgen.symm, hld.symm, ?_, ?_, ?_⟩
    · rw [← hs]; simp [hgroups, setGroup, lookup_insert]
    · by_cases hr : ready = true ∧ memberID = stF.leader
      · right
        rw [if_pos hr] at hms
        refine ⟨hms.symm, by rw [← hme]; exact hr.2, ?_⟩
        rw [← hcode]
        simp only [hr.1, if_true]
        split <;> decide
      · left; rw [if_neg hr] at hms; exact hms.symm
    · intro hc
      rw [← hcode] at hc
      have hr : ready = true := by
        cases ready with
        | true => rfl
        | false =>
          simp only [Bool.false_eq_true, if_false] at hc
          split at hc <;> exact absurd hc (by decide)
      exact hready hr
    · intro hc hl
      rw [← hcode] at hc
      have hr : ready = true := by
        cases ready with
        | true => rfl
        | false =>
          simp only [Bool.false_eq_true, if_false] at hc
          split at hc <;> exact absurd hc (by decide)
      rw [if_pos ⟨hr, by rw [hme]; exact hl⟩] at hms
      exact hms.symm

/-- **C14 (only the leader gets the member list).** A JoinGroup answer that carries a member list
goes to the member it names as leader and is not REBALANCE_IN_PROGRESS. -/
theorem _root_.KafVerif.C14.only_leader_gets_members (v : Variant) (s s' : State) (g mid : Nat) (se rb : Int) (pt : Nat)
    (pr : Option (Nat × List Nat)) (nk : Nat) (code : Int) (gen ld me pn : Nat) (ms : List (Nat × List Nat))
    (h : join v s g mid se rb pt pr nk = (s', .join code gen ld me pn ms)) (hne : ms ≠ []) :
    me = ld ∧ code ≠ REBALANCE_IN_PROGRESS := by
  obtain ⟨st, _, _, hld, hms, _⟩ := join_reply_shape v s s' g mid se rb pt pr nk code gen ld me pn ms h
  rcases hms with h0 | ⟨_, hme, hc⟩
  · exact absurd h0 hne
  · exact ⟨by rw [hld]; exact hme, hc⟩

/-- **C14 (the leader gets every member).** The member list in the leader's successful JoinGroup
answer is the full current member map with each member's subscription. -/
theorem _root_.KafVerif.C14.leader_gets_all_members (v : Variant) (s s' : State) (g mid : Nat) (se rb : Int) (pt : Nat)
    (pr : Option (Nat × List Nat)) (nk : Nat) (gen ld me pn : Nat) (ms : List (Nat × List Nat))
    (h : join v s g mid se rb pt pr nk = (s', .join NONE gen ld me pn ms)) (hl : me = ld) :
    ∃ st, lookup s'.groups g = some st ∧ ms = st.members.map (fun e => (e.1, e.2.topics)) := by
  obtain ⟨st, hst, _, hld, _, _, hall⟩ := join_reply_shape v s s' g mid se rb pt pr nk NONE gen ld me pn ms h
  exact ⟨st, hst, hall rfl (by rw [← hld]; exact hl)⟩

/-- **C14 (syncs succeed once the leader has synced).** In a Stable group (all members joined, the
leader's sync computed the assignment) the sync of every member of the current generation is
answered NONE with its assignment, unless the store write fails. -/
theorem _root_.KafVerif.C14.sync_succeeds_when_stable (v : Variant) (s : State) (g mid : Nat) (st : Group) (m : Member)
    (hst : lookup s.groups g = some st) (hph : st.phase = .stable) (hm : lookup st.members mid = some m)
    (hput : s.faults.put = false) :
    (sync v s g mid st.gen).2 = .sync NONE (asgOf st mid) := by
  have hl : loadGroup v s g = some (s, some st) := by unfold loadGroup; rw [hst]
  have hne : st.members.isEmpty = false := by
    cases hq : st.members with
    | nil => rw [hq] at hm; simp [lookup] at hm
    | cons a t => rfl
  unfold sync
  rw [hl]
  simp only [ne_eq, not_true_eq_false, if_false, hm, Option.isNone_some, Bool.false_eq_true, hph]
  have h1 : ¬ (Phase.stable = Phase.preparing) := by decide
  have h2 : ¬ (Phase.stable = Phase.completing ∧ st.asg.isEmpty = true) := by intro h; exact absurd h.1 (by decide)
  simp only [h1, h2, if_false]
  unfold syncFinish
  simp only [hph, ne_eq, not_true_eq_false, and_false, if_false]
  unfold persist
  simp [hne, setGroup, hput]

/-! ### the invariant behind "success only when every member has joined" -/

/-- per loaded group: it has members, a positive generation, a live phase; in Completing / Stable
every member carries the join marker of the current generation; a member that carries the marker
has a processed JoinGroup of that generation in the (ghost) join log; a named leader is a member -/
structure GOk (g : Nat) (log : List (Nat × Nat × Nat)) (st : Group) : Prop where
  nonempty : st.members ≠ []
  genpos : 1 ≤ st.gen
  phase : st.phase = .preparing ∨ st.phase = .completing ∨ st.phase = .stable
  joined : (st.phase = .completing ∨ st.phase = .stable) → ∀ e ∈ st.members, e.2.joinGen = st.gen
  logged : ∀ e ∈ st.members, e.2.joinGen = st.gen → (g, st.gen, e.1) ∈ log
  leader : st.leader ≠ 0 → (lookup st.members st.leader).isSome

/-- per persisted group -/
structure POk (g : Nat) (log : List (Nat × Nat × Nat)) (p : PGroup) : Prop where
  nonempty : p.members ≠ []
  genpos : 1 ≤ p.gen
  phase : p.state = .preparing ∨ p.state = .completing ∨ p.state = .stable
  logged : (p.state = .completing ∨ p.state = .stable) → ∀ e ∈ p.members, (g, p.gen, e.1) ∈ log
  leader : p.leader ≠ 0 → (lookup p.members p.leader).isSome

def joinSpec : Spec := { G := GOk, P := POk }

theorem lookup_isSome_map {α β : Type} (l : List (Nat × α)) (f : Nat × α → β) (k : Nat) :
    (lookup (l.map fun e => (e.1, f e)) k).isSome = (lookup l k).isSome := by
  rw [lookup_map_val]; cases lookup l k <;> rfl

theorem startRebalance_GOk (g : Nat) (log : List (Nat × Nat × Nat)) (st : Group) (t now : Nat) (hne : st.members ≠ []) :
    GOk g log (st.startRebalance t now) := by
  have hsr := startRebalance_of_nonempty st t now hne
  refine ⟨?_, by rw [hsr.1]; omega, Or.inl hsr.2.1, ?_, ?_, ?_⟩
  · rw [hsr.2.2.2]; unfold resetJoins; intro h; exact hne (List.map_eq_nil_iff.mp h)
  · intro h; rw [hsr.2.1] at h; rcases h with h | h <;> cases h
  · intro e he hj
    rw [hsr.2.2.2] at he
    obtain ⟨e0, _, _, he2⟩ := resetJoins_keys' st.members e he
    rw [he2, hsr.1] at hj
    simp at hj
  · -- ensureLeader ran on the group before the join markers were reset
    unfold startRebalance
    have : st.members.isEmpty = false := by cases hm : st.members <;> simp_all
    simp only [this, Bool.false_eq_true, if_false]
    intro hl
    have hv := ensureLeader_valid
      ({ st with rebTimeout := (if t > 0 then t else if st.rebTimeout = 0 then defaultRebalance else st.rebTimeout),
                 gen := st.gen + 1, phase := Phase.preparing, asg := [],
                 deadline := now + (if t > 0 then t else if st.rebTimeout = 0 then defaultRebalance else st.rebTimeout) } : Group) hl
    simp only [ensureLeader_members] at hv ⊢
    unfold resetJoins
    rw [lookup_isSome_map]
    exact hv

theorem joinSpec_closed : joinSpec.Closed where
  monoG := by
    intro g log x st h
    exact ⟨h.nonempty, h.genpos, h.phase, h.joined, fun e he hj => List.mem_cons_of_mem _ (h.logged e he hj), h.leader⟩
  monoP := by
    intro g log x p h
    exact ⟨h.nonempty, h.genpos, h.phase, fun hp e he => List.mem_cons_of_mem _ (h.logged hp e he), h.leader⟩
  build := by
    intro g log st h
    refine ⟨?_, h.genpos, h.phase, ?_, ?_⟩
    · unfold build; intro hh; exact h.nonempty (List.map_eq_nil_iff.mp hh)
    · intro hp e he
      unfold build at he
      obtain ⟨e0, he0, rfl⟩ := List.mem_map.mp he
      exact h.logged e0 he0 (h.joined hp e0 he0)
    · intro hl
      unfold build
      simp only
      rw [lookup_isSome_map]
      exact h.leader hl
  restore := by
    intro g log p now h
    have hmem : (restore fixed p now).members = p.members.map fun e =>
        (e.1, ({ topics := e.2.subs, session := if e.2.sessionMs > 0 then e.2.sessionMs else defaultSession,
                 lastHb := e.2.hbAt, joinGen := if p.state = .preparing ∧ (!fixed.c14Old) = true then 0 else p.gen } : Member)) := by
      unfold restore; simp
    have hgen : (restore fixed p now).gen = p.gen := by unfold restore; simp
    have hph : (restore fixed p now).phase = p.state := by unfold restore; simp
    refine ⟨?_, by rw [hgen]; exact h.genpos, by rw [hph]; exact h.phase, ?_, ?_, ?_⟩
    · rw [hmem]; intro hh; exact h.nonempty (List.map_eq_nil_iff.mp hh)
    · intro hp e he
      rw [hph] at hp
      rw [hmem] at he
      obtain ⟨e0, _, rfl⟩ := List.mem_map.mp he
      rw [hgen]
      have : ¬ (p.state = .preparing ∧ (!fixed.c14Old) = true) := by
        intro hh; rcases hp with hp | hp <;> (rw [hp] at hh; exact absurd hh.1 (by decide))
      simp only
      rw [if_neg this]
    · intro e he hj
      rw [hmem] at he
      obtain ⟨e0, he0, rfl⟩ := List.mem_map.mp he
      rw [hgen] at hj ⊢
      simp only at hj
      by_cases hprep : p.state = .preparing
      · have : (p.state = .preparing ∧ (!fixed.c14Old) = true) := ⟨hprep, by decide⟩
        rw [if_pos this] at hj
        have := h.genpos; omega
      · have hp : p.state = .completing ∨ p.state = .stable := by
          rcases h.phase with h1 | h1 | h1
          · exact absurd h1 hprep
          · exact Or.inl h1
          · exact Or.inr h1
        exact h.logged hp e0 he0
    · intro hl
      unfold restore at hl ⊢
      exact ensureLeader_valid _ hl
  join := by
    intro g log st0 mid se rb pt pr nk now h0
    unfold joinCore
    simp only
    obtain ⟨m', hmem, hgen, hph, hld, _, _, _, _, _, _⟩ := joinMember_spec st0 mid se pt pr nk now
    generalize joinMember st0 mid se pt pr nk now = jm at hmem hgen hph hld
    obtain ⟨stA, memberID, ex, prev⟩ := jm
    simp only at hmem hgen hph hld ⊢
    have hneA : stA.members ≠ [] := by rw [hmem]; exact insert_ne_nil _ _ _
    have hmemA : (lookup stA.members memberID).isSome := by rw [hmem, lookup_insert]; simp
    -- the group after the phase decision satisfies everything except the marker of the joining member
    have hmid : ∃ st1, joinPhase fixed stA memberID ex prev (topicsOfProto pr) (timeoutOf rb) now = st1 ∧
        st1.members ≠ [] ∧ 1 ≤ st1.gen ∧ (st1.phase = .preparing ∨ st1.phase = .completing ∨ st1.phase = .stable) ∧
        ((st1.phase = .completing ∨ st1.phase = .stable) → ∀ e ∈ st1.members, e.1 ≠ memberID → e.2.joinGen = st1.gen) ∧
        (∀ e ∈ st1.members, e.1 ≠ memberID → e.2.joinGen = st1.gen → (g, st1.gen, e.1) ∈ log) ∧
        (st1.leader ≠ 0 → (lookup st1.members st1.leader).isSome) ∧ (lookup st1.members memberID).isSome := by
      refine ⟨_, rfl, ?_⟩
      rcases joinPhase_cases fixed stA memberID ex prev (topicsOfProto pr) (timeoutOf rb) now with
        ⟨st', he, hm', hg', _, _⟩ | ⟨he, hp⟩ | ⟨he, hp⟩
      · -- a rebalance starts: new generation, everybody's marker reset
        rw [he]
        have hne' : st'.members ≠ [] := by rw [hm']; exact hneA
        have hok := startRebalance_GOk g log st' (timeoutOf rb) now hne'
        have hsr := startRebalance_of_nonempty st' (timeoutOf rb) now hne'
        refine ⟨hok.nonempty, hok.genpos, hok.phase, fun hp e he _ => hok.joined hp e he, fun e he _ hj => hok.logged e he hj, hok.leader, ?_⟩
        rw [hsr.2.2.2, lookup_resetJoins, hm']
        cases hq : lookup stA.members memberID with
        | none => rw [hq] at hmemA; simp at hmemA
        | some x => rfl
      · -- the rebalance in progress continues: only the deadline moves
        rw [he]
        rcases h0 with h0 | h0
        · have hph' : stA.phase = st0.phase := hph
          refine ⟨hneA, by simp [hgen]; exact h0.genpos, by simp [hph]; exact h0.phase, ?_, ?_, ?_, by simpa using hmemA⟩
          · intro hp' e he' hne'
            simp only [bump_members, bump_phase, bump_gen] at hp' he' ⊢
            rw [hmem] at he'
            rcases mem_insert he' with rfl | he'
            · exact absurd rfl hne'
            · rw [hgen]; exact h0.joined (by rw [← hph]; exact hp') e he'
          · intro e he' hne' hj
            simp only [bump_members, bump_gen] at he' hj ⊢
            rw [hmem] at he'
            rcases mem_insert he' with rfl | he'
            · exact absurd rfl hne'
            · rw [hgen] at hj ⊢; exact h0.logged e he' hj
          · intro hl
            simp only [bump_leader, bump_members] at hl ⊢
            rw [hmem, lookup_insert]
            split
            · rfl
            · rw [hld] at hl ⊢; exact h0.leader hl
        · subst h0
          rw [hph] at hp; rcases hp with hp | hp <;> cases hp
      · -- Stable, known member, unchanged subscription: nothing moves
        rw [he]
        rcases h0 with h0 | h0
        · refine ⟨hneA, by rw [hgen]; exact h0.genpos, by rw [hph]; exact h0.phase, ?_, ?_, ?_, hmemA⟩
          · intro hp' e he' hne'
            rw [hmem] at he'
            rcases mem_insert he' with rfl | he'
            · exact absurd rfl hne'
            · rw [hgen]; exact h0.joined (by rw [← hph]; exact hp') e he'
          · intro e he' hne' hj
            rw [hmem] at he'
            rcases mem_insert he' with rfl | he'
            · exact absurd rfl hne'
            · rw [hgen] at hj ⊢; exact h0.logged e he' hj
          · intro hl
            rw [hmem, lookup_insert]
            split
            · rfl
            · rw [hld] at hl ⊢; exact h0.leader hl
        · subst h0
          rw [hph] at hp
          rcases hp with hp | ⟨hp, _⟩ <;> cases hp
    obtain ⟨st1, hst1, hne1, hgp1, hph1, hj1, hl1, hld1, hm1⟩ := hmid
    rw [hst1]
    -- mark the joining member, elect a leader if there is none, decide readiness
    have hmk := joinMark_spec st1 memberID
    have hfin := joinFinish_spec st1 memberID
    have hmarked : ∀ e ∈ (joinMark st1 memberID).members, e.2.joinGen = st1.gen →
        (g, st1.gen, e.1) ∈ (g, st1.gen, memberID) :: log := by
      intro e he hj
      rw [hmk.1] at he
      obtain ⟨e0, he0, hk, _, _, _, hjg⟩ := mem_setJoinGen he
      by_cases hkm : e0.1 = memberID
      · rw [hk, hkm]; exact List.mem_cons_self
      · rw [if_neg hkm] at hjg
        rw [hk]
        exact List.mem_cons_of_mem _ (hl1 e0 he0 hkm (by rw [← hjg]; exact hj))
    have hleader : (joinMark st1 memberID).leader ≠ 0 →
        (lookup (joinMark st1 memberID).members (joinMark st1 memberID).leader).isSome := by
      intro hl
      refine hmk.2.2.2.2.2 hl ?_
      intro hl0
      rw [lookup_setJoinGen]
      have := hld1 hl0
      cases hq : lookup st1.members st1.leader with
      | none => rw [hq] at this; simp at this
      | some x => rfl
    refine ⟨?_, by rw [hfin.2.1]; exact hgp1, ?_, ?_, ?_, ?_⟩
    · rw [hfin.1, hmk.1]; exact setJoinGen_ne_nil hne1 _ _
    · rcases hfin.2.2.2.2.2 with h | ⟨_, _, h, _⟩
      · rw [h]; exact hph1
      · exact Or.inr (Or.inl h)
    · intro hp e he
      rw [hfin.1] at he
      rw [hfin.2.1]
      rcases hfin.2.2.2.2.2 with h | ⟨_, _, _, hall⟩
      · rw [h] at hp
        rw [hmk.1] at he
        obtain ⟨e0, he0, hk, _, _, _, hjg⟩ := mem_setJoinGen he
        by_cases hkm : e0.1 = memberID
        · rw [if_pos hkm] at hjg; exact hjg
        · rw [if_neg hkm] at hjg; rw [hjg]; exact hj1 hp e0 he0 hkm
      · exact hall e he
    · intro e he hj
      rw [hfin.1] at he
      rw [hfin.2.1] at hj ⊢
      exact hmarked e he hj
    · intro hl
      rw [hfin.1, hfin.2.2.1] at *
      exact hleader hl
  assign := by
    intro g log st s h hph _
    have hsp := leaderAssign_spec s st hph
    refine ⟨by rw [hsp.2.1]; exact h.nonempty, by rw [hsp.2.2.1]; exact h.genpos, Or.inr (Or.inr hsp.1), ?_, ?_, ?_⟩
    · intro _ e he; rw [hsp.2.1] at he; rw [hsp.2.2.1]; exact h.joined (Or.inl hph) e he
    · intro e he hj; rw [hsp.2.1] at he; rw [hsp.2.2.1] at hj ⊢; exact h.logged e he hj
    · intro hl; rw [hsp.2.2.2.1] at hl ⊢; rw [hsp.2.1]; exact h.leader hl
  heartbeat := by
    intro g log st mid m now h hm
    have hmem : ∀ e ∈ insert st.members mid { m with lastHb := now }, ∃ e0 ∈ st.members, e.1 = e0.1 ∧ e.2.joinGen = e0.2.joinGen := by
      intro e he
      rcases mem_insert he with rfl | he
      · exact ⟨(mid, m), lookup_some_mem hm, rfl, rfl⟩
      · exact ⟨e, he, rfl, rfl⟩
    refine ⟨insert_ne_nil _ _ _, h.genpos, h.phase, ?_, ?_, ?_⟩
    · intro hp e he
      obtain ⟨e0, he0, _, hj⟩ := hmem e he
      simp only at hp ⊢
      rw [hj]; exact h.joined hp e0 he0
    · intro e he hj
      obtain ⟨e0, he0, hk, hj0⟩ := hmem e he
      simp only at hj ⊢
      rw [hk]; exact h.logged e0 he0 (by rw [← hj0]; exact hj)
    · intro hl
      simp only at hl ⊢
      rw [lookup_insert]
      split
      · rfl
      · exact h.leader hl
  leave := by
    intro g log st mid now h hne
    unfold leaveCore
    simp only
    have hne' : erase st.members mid ≠ [] := by intro hh; rw [hh] at hne; simp at hne
    split
    · exact startRebalance_GOk g log _ 0 now hne'
    · exact startRebalance_GOk g log _ 0 now hne'
  cleanup := by
    intro g log st now st' h ho
    unfold cleanupOutcome at ho
    simp only at ho
    split at ho
    · simp [CleanupOutcome.group?] at ho
    · rename_i hemp
      have hne' : ((st.removeExpired now).1.dropLaggers now).1.members ≠ [] := by
        intro hh; simp [hh] at hemp
      split at ho
      · simp only [CleanupOutcome.group?, Option.some.injEq] at ho
        subst ho
        exact startRebalance_GOk g log _ 0 now hne'
      · rename_i hflags
        simp only [CleanupOutcome.group?, Option.some.injEq] at ho
        subst ho
        -- nothing was removed: the group is unchanged
        have hf1 : (st.removeExpired now).2 = false := by
          cases hb : (st.removeExpired now).2 <;> simp_all
        have hf2 : ((st.removeExpired now).1.dropLaggers now).2 = false := by
          cases hb : ((st.removeExpired now).1.dropLaggers now).2 <;> simp_all
        have hexp : ∀ e ∈ st.members, expired now e.2 = false := by
          intro e he
          cases hb : expired now e.2 with
          | false => rfl
          | true =>
            have := (dropMembers_changed st (expired now)).mpr ⟨e, he, hb⟩
            unfold removeExpired at hf1; rw [hf1] at this; cases this
        have h1 : (st.removeExpired now).1 = st := dropMembers_none st _ hexp h.nonempty
        rw [h1] at hf2 ⊢
        unfold dropLaggers at hf2 ⊢
        split
        · exact h
        · rename_i hd
          simp only [hd, if_false] at hf2
          have hlag : ∀ e ∈ st.members, (e.2.joinGen != st.gen) = false := by
            intro e he
            cases hb : (e.2.joinGen != st.gen) with
            | false => rfl
            | true =>
              have := (dropMembers_changed st (fun m => m.joinGen != st.gen)).mpr ⟨e, he, hb⟩
              rw [hf2] at this; cases this
          rw [dropMembers_none st _ hlag h.nonempty]
          exact h

/-- **C14 (success only when everybody has joined).** In every state reachable by any history of
requests, ticks, cleanup passes, failovers and store faults: when a JoinGroup is answered NONE, every
member of the group at that moment has a processed JoinGroup of the reported generation in the join
log — i.e. every current member has (re)joined the current generation.  The join log is ghost state
that no transition reads and a failover does not erase. -/
theorem _root_.KafVerif.C14.join_ok_all_joined (ops : List Op) (g mid : Nat) (se rb : Int) (pt : Nat)
    (pr : Option (Nat × List Nat)) (nk : Nat) (s' : State) (gen ld me pn : Nat) (ms : List (Nat × List Nat))
    (h : join fixed (run init ops) g mid se rb pt pr nk = (s', .join NONE gen ld me pn ms)) :
    ∃ st, lookup s'.groups g = some st ∧ gen = st.gen ∧ ∀ e ∈ st.members, (g, gen, e.1) ∈ s'.joinLog := by
  obtain ⟨st, hst, hgen, _, _, hph, _⟩ := join_reply_shape fixed _ s' g mid se rb pt pr nk NONE gen ld me pn ms h
  have hinv : Inv joinSpec s' := by
    have := inv_join joinSpec_closed (inv_run joinSpec_closed ops) g mid se rb pt pr nk
    rw [h] at this; exact this
  have hok : GOk g s'.joinLog st := hinv.1 (g, st) (lookup_some_mem hst)
  refine ⟨st, hst, hgen, ?_⟩
  intro e he
  rw [hgen]
  have hp := hph rfl
  exact hok.logged e he (hok.joined (by rcases hp with hp | hp; exact Or.inr hp; exact Or.inl hp) e he)

/-- **C14 (the leader is a member).** In every reachable state the leader named in a JoinGroup answer
is a current member of the group (or the answer names no leader). -/
theorem _root_.KafVerif.C14.leader_is_member (ops : List Op) (g mid : Nat) (se rb : Int) (pt : Nat)
    (pr : Option (Nat × List Nat)) (nk : Nat) (s' : State) (code : Int) (gen ld me pn : Nat) (ms : List (Nat × List Nat))
    (h : join fixed (run init ops) g mid se rb pt pr nk = (s', .join code gen ld me pn ms)) (hld : ld ≠ 0) :
    ∃ st, lookup s'.groups g = some st ∧ (lookup st.members ld).isSome := by
  obtain ⟨st, hst, _, hl, _⟩ := join_reply_shape fixed _ s' g mid se rb pt pr nk code gen ld me pn ms h
  have hinv : Inv joinSpec s' := by
    have := inv_join joinSpec_closed (inv_run joinSpec_closed ops) g mid se rb pt pr nk
    rw [h] at this; exact this
  have hok : GOk g s'.joinLog st := hinv.1 (g, st) (lookup_some_mem hst)
  exact ⟨st, hst, by rw [hl]; exact hok.leader (by rw [← hl]; exact hld)⟩

/-- **C14 (pre-fix defect, witness).** Members 5 and 6 form a group; 6 leaves, so generation 2 is
PreparingRebalance and waits for 5 to rejoin.  After a coordinator failover a NEW member 7 joins:
the old `restoreGroupState` had marked 5 as joined, so the join is answered NONE (rebalance complete)
although 5 never sent a join for generation 2.  The fixed code answers REBALANCE_IN_PROGRESS. -/
theorem _root_.KafVerif.C14.restoreOld_violates :
    let ops : List Op := [.join 1 0 10000 10000 1 (some (1, [0])) 5, .join 1 0 10000 10000 1 (some (1, [0])) 6,
                          .leave 1 6, .failover]
    let old := ops.foldl (fun s op => (stepV { c14Old := true } s op).1) init
    let new := ops.foldl (fun s op => (stepV fixed s op).1) init
    (∃ gen ld pn ms, (stepV { c14Old := true } old (.join 1 0 10000 10000 1 (some (1, [0])) 7)).2 = .join NONE gen ld 7 pn ms
        ∧ (1, gen, 5) ∉ (stepV { c14Old := true } old (.join 1 0 10000 10000 1 (some (1, [0])) 7)).1.joinLog)
    ∧ (∃ gen ld pn ms, (stepV fixed new (.join 1 0 10000 10000 1 (some (1, [0])) 7)).2 = .join REBALANCE_IN_PROGRESS gen ld 7 pn ms) := by
  refine ⟨⟨2, 5, 1, [], by decide, by decide⟩, ⟨2, 5, 1, [], by decide⟩⟩

end KafVerif.Group
