import KafVerif.Model.SqlParser
import KafVerif.Lemmas.SqlParserCase
/-!
C35 — The SQL parser never crashes and ignores keyword case.

Statement (properties.jsonl): parsing any query text returns a query or an error, never a
crash; changing the letter case of ASCII keywords never changes the parsed query.  Quantifier:
every UTF-8 string (including characters whose lower-case form has a different byte length)
and every keyword-case variation of valid queries.

* `asciiLower_length` — the lowering of the fix keeps the byte length.
* `slices_in_range` — for EVERY byte string and EVERY length-preserving lowering `L`, no slice
  expression of the modelled parser is out of range: `parseWith L q ≠ panic`.
* `parse_never_panics` — the instance for the fixed parser, all inputs.
* `old_lowering_panics` — with the pre-fix lowering the executed input `SELECT ȺȺȺȺȺȺȺȺ FROM t`
  panics in the model, too.
* `case_insensitive_partial` — see the end of the file.
* `asciiLower_pointwise`, `lowerB_spec`, `asciiLower_context_free`, `keyword_lowered_in_place` — the lowering
  is a byte map: a keyword is lowered in place whatever bytes (non-ASCII runes) stand next to it.
-/
namespace KafVerif.SqlParser

/-! ### bytes -/

theorem forall_uint8 (P : UInt8 → Prop) (h : ∀ v : Fin 256, P (UInt8.ofNat v.val)) : ∀ x, P x := by
  intro x
  have := h ⟨x.toNat, x.toNat_lt⟩
  simpa using this

set_option maxRecDepth 100000 in
theorem isWordB_lowerB (x : UInt8) : isWordB (lowerB x) = isWordB x :=
  forall_uint8 (fun x => isWordB (lowerB x) = isWordB x) (by decide) x

theorem _root_.KafVerif.C35.asciiLower_length (s : Bytes) : (asciiLower s).length = s.length := by
  simp [asciiLower]

/-! ### slices -/

theorem sliceFrom_ok {s : Bytes} {i : Nat} (h : i ≤ s.length) : sliceFrom s i = .ok (s.drop i) := by
  simp [sliceFrom, h]

theorem sliceTo_ok {s : Bytes} {j : Nat} (h : j ≤ s.length) : sliceTo s j = .ok (s.take j) := by
  simp [sliceTo, h]

theorem slice_ok {s : Bytes} {i j : Nat} (h1 : i ≤ j) (h2 : j ≤ s.length) :
    slice s i j = .ok ((s.drop i).take (j - i)) := by
  simp [slice, h1, h2]

/-! ### keywordIndex -/

theorem kwAt_length {kw t : Bytes} (h : kwAt kw t = true) : kw.length ≤ t.length := by
  simp [kwAt] at h; exact h.1

/-- where `keywordIndex` points: the keyword matches there and the byte before is not a word byte -/
theorem kwIndexAux_spec (kw : Bytes) : ∀ (t : Bytes) (pw : Bool) (i j : Nat),
    kwIndexAux kw pw t i = some j →
    ∃ a b, t = a ++ b ∧ j = i + a.length ∧ kwAt kw b = true ∧
      (match a.getLast? with | some x => isWordB x = false | none => pw = false) := by
  intro t
  induction t with
  | nil => intro pw i j h; simp [kwIndexAux] at h
  | cons c t ih =>
    intro pw i j h
    unfold kwIndexAux at h
    split at h
    · rename_i hc
      simp only [Bool.and_eq_true, Bool.not_eq_eq_eq_not, Bool.not_true] at hc
      cases h
      exact ⟨[], c :: t, rfl, rfl, hc.1.2, by simpa using hc.1.1⟩
    · obtain ⟨a, b, hab, hj, hk, hl⟩ := ih _ _ _ h
      refine ⟨c :: a, b, by simp [hab], by simp [hj]; omega, hk, ?_⟩
      cases a with
      | nil => simpa using hl
      | cons x a' =>
        cases hg : (x :: a').getLast? with
        | none => simp at hg
        | some y =>
          rw [hg] at hl
          simpa [List.getLast?_cons_cons, hg] using hl

theorem keywordIndex_bound {s : Bytes} {kw : String} {j : Nat} (h : keywordIndex s kw = some j) :
    j + (str kw).length ≤ s.length := by
  obtain ⟨a, b, hab, hj, hk, _⟩ := kwIndexAux_spec _ _ _ _ _ h
  have := kwAt_length hk
  subst hab
  simp at hj ⊢
  omega

theorem clauseEnd_le (s : Bytes) (stops : List String) : clauseEnd s stops ≤ s.length := by
  unfold clauseEnd
  suffices h : ∀ e0, e0 ≤ s.length →
      List.foldl (fun e kw => match keywordIndex s kw with
        | some i => if i < e then i else e
        | none => e) e0 stops ≤ s.length from h _ (Nat.le_refl _)
  induction stops with
  | nil => intro e0 h; simpa using h
  | cons k ks ih =>
    intro e0 h
    simp only [List.foldl_cons]
    apply ih
    split
    · split <;> omega
    · exact h

/-- every byte under a keyword match is a word byte (keywords consist of letters; this is used
for `select`) -/
theorem kwAt_select_word {b : Bytes} (h : kwAt (str "select") b = true) (k : Nat) (hk : k < 6) :
    ∃ x, b[k]? = some x ∧ isWordB x = true := by
  simp only [kwAt, Bool.and_eq_true, decide_eq_true_eq, beq_iff_eq] at h
  have hlen : (str "select").length = 6 := by decide
  rw [hlen] at h
  have hx : k < b.length := by omega
  refine ⟨b[k], by simp [hx], ?_⟩
  have hmap := congrArg (fun l => l[k]?) h.2
  simp only [List.getElem?_map, List.getElem?_take, hk, if_true] at hmap
  rw [List.getElem?_eq_getElem hx] at hmap
  simp only [Option.map_some] at hmap
  rw [← isWordB_lowerB]
  have : ∀ k : Fin 6, ∀ y, (str "select")[k.val]? = some y → isWordB y = true := by decide
  exact this ⟨k, hk⟩ _ hmap.symm

/-- `from` cannot be found inside the `select` keyword: the `raw[selectIdx+6 : fromIdx]` slice
has `low ≤ high` whenever `fromIdx > selectIdx`. -/
theorem from_after_select {s : Bytes} {si fi : Nat} (hs : keywordIndex s "select" = some si)
    (hf : keywordIndex s "from" = some fi) (hlt : si < fi) : si + 6 ≤ fi := by
  obtain ⟨a1, b1, h1, hj1, hk1, _⟩ := kwIndexAux_spec _ _ _ _ _ hs
  obtain ⟨a2, b2, h2, hj2, _, hl2⟩ := kwIndexAux_spec _ _ _ _ _ hf
  simp only [Nat.zero_add] at hj1 hj2
  by_cases hge : si + 6 ≤ fi
  · exact hge
  · exfalso
    have ha2 : a2 ≠ [] := by
      intro h; subst h; simp at hj2; omega
    obtain ⟨x, hx⟩ : ∃ x, a2.getLast? = some x := by
      cases h : a2.getLast? with
      | none => simp [List.getLast?_eq_none_iff] at h; exact absurd h ha2
      | some x => exact ⟨x, rfl⟩
    rw [hx] at hl2
    -- x = s[fi-1] = b1[fi-1-si]
    have hsx : s[fi - 1]? = some x := by
      rw [h2, List.getElem?_append_left (by omega)]
      rw [List.getLast?_eq_getElem?] at hx
      rw [← hj2] at hx
      exact hx
    obtain ⟨y, hy, hw⟩ := kwAt_select_word hk1 (fi - 1 - si) (by omega)
    have hsy : s[fi - 1]? = some y := by
      rw [h1, List.getElem?_append_right (by omega)]
      rw [← hj1]
      exact hy
    rw [hsx] at hsy
    cases hsy
    simp only [] at hl2
    rw [hw] at hl2
    exact absurd hl2 (by decide)

/-! ### no slice of the parser is out of range -/

theorem parseSelectColumns_no_panic (raw lower : Bytes) (hl : lower.length = raw.length) :
    parseSelectColumns raw lower ≠ .panic := by
  unfold parseSelectColumns
  cases hs : keywordIndex lower "select" with
  | none => simp
  | some si =>
    cases hf : keywordIndex lower "from" with
    | none => simp
    | some fi =>
      simp only []
      by_cases hle : fi ≤ si
      · simp [hle]
      · rw [if_neg hle]
        have h1 := from_after_select hs hf (by omega)
        have h2 := keywordIndex_bound hf
        rw [slice_ok h1 (by omega)]
        simp only []
        split <;> (try split) <;> simp

theorem parseJoinExpr_no_panic (raw topic alias jt ja : Bytes) :
    parseJoinExpr raw topic alias jt ja ≠ .panic := by
  unfold parseJoinExpr
  split
  · simp
  · simp only []
    split <;> simp

theorem parseJoinCondition_no_panic (raw lower topic alias jt ja : Bytes) (hl : lower.length = raw.length) :
    parseJoinCondition raw lower topic alias jt ja ≠ .panic := by
  unfold parseJoinCondition
  cases hj : keywordIndex lower "join" with
  | none => simp
  | some joinIdx =>
    have hb := keywordIndex_bound hj
    simp only []
    rw [sliceFrom_ok (by omega)]
    simp only []
    cases ho : keywordIndex (List.drop joinIdx lower) "on" with
    | none => simp
    | some onRel =>
      have hb2 := keywordIndex_bound ho
      have h2 : (str "on").length = 2 := by decide
      rw [h2, List.length_drop] at hb2
      simp only []
      rw [sliceFrom_ok (by omega), sliceFrom_ok (by omega)]
      simp only []
      have he := clauseEnd_le (List.drop (onRel + joinIdx + 2) lower) joinStops
      rw [sliceTo_ok (by rw [List.length_drop] at he ⊢; omega)]
      simp only []
      split
      · rename_i l r _
        have hl' := parseJoinExpr_no_panic (trimSpace l) topic alias jt ja
        have hr' := parseJoinExpr_no_panic (trimSpace r) topic alias jt ja
        cases h1 : parseJoinExpr (trimSpace l) topic alias jt ja with
        | panic => exact absurd h1 hl'
        | err => simp
        | ok le =>
          cases h2 : parseJoinExpr (trimSpace r) topic alias jt ja with
          | panic => exact absurd h2 hr'
          | err => simp
          | ok re => simp
      · simp

theorem parseGroupBy_no_panic (raw lower : Bytes) (hl : lower.length = raw.length) :
    parseGroupBy raw lower ≠ .panic := by
  unfold parseGroupBy
  cases hg : keywordIndex lower "group by" with
  | none => simp
  | some gi =>
    have hb := keywordIndex_bound hg
    have h8 : (str "group by").length = 8 := by decide
    rw [h8] at hb
    simp only []
    rw [sliceFrom_ok (by omega), sliceFrom_ok (by omega)]
    simp only []
    have he := clauseEnd_le (List.drop (gi + 8) lower) groupStops
    rw [sliceTo_ok (by rw [List.length_drop] at he ⊢; omega)]
    simp

theorem parseOrderBy_no_panic (raw lower : Bytes) (hl : lower.length = raw.length) :
    parseOrderBy raw lower ≠ .panic := by
  unfold parseOrderBy
  cases hg : keywordIndex lower "order by" with
  | none => simp
  | some gi =>
    have hb := keywordIndex_bound hg
    have h8 : (str "order by").length = 8 := by decide
    rw [h8] at hb
    simp only []
    rw [sliceFrom_ok (by omega), sliceFrom_ok (by omega)]
    simp only []
    have he := clauseEnd_le (List.drop (gi + 8) lower) orderStops
    rw [sliceTo_ok (by rw [List.length_drop] at he ⊢; omega)]
    simp

theorem parseOrderDesc_no_panic (raw lower : Bytes) (hl : lower.length = raw.length) :
    parseOrderDesc raw lower ≠ .panic := by
  unfold parseOrderDesc
  cases hg : keywordIndex lower "order by" with
  | none => simp
  | some gi =>
    have hb := keywordIndex_bound hg
    have h8 : (str "order by").length = 8 := by decide
    rw [h8] at hb
    simp only []
    rw [sliceFrom_ok (by omega)]
    simp only []
    rw [sliceTo_ok (clauseEnd_le _ _)]
    simp

theorem filtersLoop_no_panic : ∀ (n : Nat) (fs : List Bytes) (p lo hi : Option Int),
    filtersLoop n fs p lo hi ≠ .panic := by
  intro n
  induction n with
  | zero => intro fs p lo hi; simp [filtersLoop]
  | succ n ih =>
    intro fs p lo hi
    cases fs with
    | nil => simp [filtersLoop]
    | cons f rest =>
      unfold filtersLoop
      split
      · simp
      split
      · exact ih _ _ _ _
      split
      · split
        · split
          · simp
          · split
            · exact ih _ _ _ _
            · simp
        · simp
      split
      · split
        · split
          · simp
          · split
            · exact ih _ _ _ _
            · split
              · exact ih _ _ _ _
              · simp
        · simp
      · simp

theorem parseFilters_no_panic (fs : List Bytes) : parseFilters fs ≠ .panic := by
  unfold parseFilters
  split
  · simp
  · exact filtersLoop_no_panic _ _ _ _ _

theorem parseSelect_no_panic (raw lower : Bytes) (fs : List Bytes) (hl : lower.length = raw.length) :
    parseSelect raw lower fs ≠ .panic := by
  unfold parseSelect
  have h1 := parseSelectColumns_no_panic raw lower hl
  cases hc : parseSelectColumns raw lower with
  | panic => exact absurd hc h1
  | err => simp
  | ok cols =>
    simp only []
    cases hfc : parseFromClause fs with
    | none => simp
    | some ta =>
      obtain ⟨topic, alias⟩ := ta
      simp only []
      generalize parseJoin fs = pj
      obtain ⟨joinType, joinTopic, joinAlias⟩ := pj
      simp only []
      split
      · simp
      · have h2 := parseJoinCondition_no_panic raw lower topic alias joinTopic joinAlias hl
        have hjc : (if (!joinTopic.isEmpty) = true then parseJoinCondition raw lower topic alias joinTopic joinAlias
            else GoResult.ok none) ≠ GoResult.panic := by
          split
          · exact h2
          · simp
        revert hjc
        generalize (if (!joinTopic.isEmpty) = true then parseJoinCondition raw lower topic alias joinTopic joinAlias
            else GoResult.ok none) = jc
        intro hjc
        cases jc with
        | panic => exact absurd rfl hjc
        | err => simp
        | ok joinOn =>
          simp only []
          have h3 := parseFilters_no_panic fs
          cases hpf : parseFilters fs with
          | panic => exact absurd hpf h3
          | err => simp
          | ok r =>
            obtain ⟨partition, offMin, offMax⟩ := r
            simp only []
            have h4 := parseGroupBy_no_panic raw lower hl
            have h5 := parseOrderBy_no_panic raw lower hl
            have h6 := parseOrderDesc_no_panic raw lower hl
            cases hg : parseGroupBy raw lower <;> cases ho : parseOrderBy raw lower <;>
              cases hd : parseOrderDesc raw lower <;> simp_all

theorem hasPrefix_length {s p : Bytes} (h : hasPrefix s p = true) : p.length ≤ s.length := by
  simp only [hasPrefix, beq_iff_eq] at h
  have := congrArg List.length h
  simp at this
  omega

theorem parseFuel_no_panic (L : Bytes → Bytes) (hL : ∀ s, (L s).length = s.length) :
    ∀ (n : Nat) (q : Bytes), parseFuel L n q ≠ .panic := by
  intro n
  induction n with
  | zero => intro q; simp [parseFuel]
  | succ n ih =>
    intro q
    unfold parseFuel
    simp only []
    split
    · simp
    · split
      · simp
      · rename_i f0 rest hfs
        split
        · unfold parseShow; split <;> (try split) <;> simp
        split
        · unfold parseDescribe; split <;> simp
        split
        · have := parseSelect_no_panic (trimSemi (trimSpace q)) (L (trimSemi (trimSpace q)))
            (fields (L (trimSemi (trimSpace q)))) (hL _)
          cases hps : parseSelect (trimSemi (trimSpace q)) (L (trimSemi (trimSpace q)))
              (fields (L (trimSemi (trimSpace q)))) with
          | panic => exact absurd hps this
          | err => simp
          | ok s => simp
        split
        · split
          · simp
          · rename_i hp
            have hp' : hasPrefix (asciiLower (trimSpace (trimSemi (trimSpace q)))) (str "explain") = true := by
              simpa using hp
            have h7 := hasPrefix_length hp'
            have hlen : (str "explain").length = 7 := by decide
            rw [hlen, KafVerif.C35.asciiLower_length] at h7
            rw [sliceFrom_ok h7]
            simp only []
            split
            · simp
            · have := ih (trimSpace (List.drop 7 (trimSpace (trimSemi (trimSpace q)))))
              cases hr : parseFuel L n (trimSpace (List.drop 7 (trimSpace (trimSemi (trimSpace q))))) with
              | panic => exact absurd hr this
              | err => simp
              | ok r => cases r <;> simp
        · simp

/-- **C35 (slices).** For every query text and every lowering that keeps the byte length, no
slice expression of the parser is out of range. -/
theorem _root_.KafVerif.C35.slices_in_range (L : Bytes → Bytes) (hL : ∀ s, (L s).length = s.length)
    (q : Bytes) : parseWith L q ≠ .panic :=
  parseFuel_no_panic L hL _ q

/-- **C35 (never crashes).** The parser after the fix returns a query or an error for EVERY
byte string. -/
theorem _root_.KafVerif.C35.parse_never_panics (q : Bytes) : parse q ≠ .panic :=
  KafVerif.C35.slices_in_range asciiLower KafVerif.C35.asciiLower_length q

/-- the executed input: `SELECT ȺȺȺȺȺȺȺȺ FROM t` -/
def witnessQuery : Bytes :=
  str "SELECT " ++ [0xC8, 0xBA, 0xC8, 0xBA, 0xC8, 0xBA, 0xC8, 0xBA, 0xC8, 0xBA, 0xC8, 0xBA, 0xC8, 0xBA, 0xC8, 0xBA] ++
    str " FROM t"

/-- `strings.ToLower` does not keep the byte length … -/
theorem _root_.KafVerif.C35.old_lowering_changes_length :
    (goLowerOld witnessQuery).length ≠ witnessQuery.length := by decide

set_option maxRecDepth 100000 in
/-- … and the parser that uses it panics (slice bounds out of range [:32] with length 30). -/
theorem _root_.KafVerif.C35.old_lowering_panics : parseOld witnessQuery = .panic := by decide

set_option maxRecDepth 100000 in
/-- the fixed parser parses the same text (non-vacuity: `parse` does reach `ok`) -/
example : (match parse witnessQuery with | .ok (.select s) => s.topic == str "t" | _ => false) = true := by
  decide

example : ∃ L : Bytes → Bytes, ∀ s, (L s).length = s.length := ⟨asciiLower, KafVerif.C35.asciiLower_length⟩

/-! ### keyword case does not matter -/

local notation "L" => asciiLower

/-- the fields that carry text copied from the query are compared modulo ASCII case -/
def canonJE (e : JoinExpr) : JoinExpr := { e with path := L e.path }

def canonSel (s : Sel) : Sel :=
  { s with cols := s.cols.map L, joinOn := s.joinOn.map fun p => (canonJE p.1, canonJE p.2) }

def canonQ : Q → Q
  | .select s => .select (canonSel s)
  | .explain s => .explain (canonSel s)
  | q => q

def mapR {α β : Type} (f : α → β) : GoResult α → GoResult β
  | .ok a => .ok (f a)
  | .err => .err
  | .panic => .panic

theorem slice_L (s : Bytes) (i j : Nat) : slice (L s) i j = mapR L (slice s i j) := by
  unfold slice
  simp only [L_length]
  split
  · simp [mapR, L_drop, L_take]
  · rfl

theorem sliceFrom_L (s : Bytes) (i : Nat) : sliceFrom (L s) i = mapR L (sliceFrom s i) := by
  unfold sliceFrom
  simp only [L_length]
  split
  · simp [mapR, L_drop]
  · rfl

theorem sliceTo_L (s : Bytes) (j : Nat) : sliceTo (L s) j = mapR L (sliceTo s j) := by
  unfold sliceTo
  simp only [L_length]
  split
  · simp [mapR, L_take]
  · rfl

theorem filter_trim_L (l : List Bytes) :
    (l.map (trimSpace ∘ L)).filter (fun p => !p.isEmpty) =
      ((l.map trimSpace).filter (fun p => !p.isEmpty)).map L := by
  induction l with
  | nil => rfl
  | cons a t ih =>
    simp only [List.map_cons, Function.comp, List.filter_cons, trimSpace_L, L_isEmpty]
    split
    · simp only [List.map_cons]
      congr 1
    · exact ih

theorem parseSelectColumns_L (raw lower : Bytes) :
    parseSelectColumns (L raw) lower = mapR (List.map L) (parseSelectColumns raw lower) := by
  unfold parseSelectColumns
  cases keywordIndex lower "select" with
  | none => rfl
  | some si =>
    cases keywordIndex lower "from" with
    | none => rfl
    | some fi =>
      simp only []
      split
      · rfl
      · rw [slice_L]
        cases slice raw (si + 6) fi with
        | err => rfl
        | panic => rfl
        | ok rc =>
          simp only [mapR, trimSpace_L, L_isEmpty]
          have hstar : [str "*"].map L = [str "*"] := by decide
          split
          · simp [mapR, hstar]
          · rw [splitColumns_L, List.map_map]
            have hcols := filter_trim_L (splitColumns (trimSpace rc))
            rw [hcols]
            simp only [List.isEmpty_map]
            split
            · simp [mapR, hstar]
            · simp [mapR]

theorem L_eq_singleton_41 (y : Bytes) : (L y == [41]) = (y == [41]) := by
  cases y with
  | nil => rfl
  | cons c t =>
    cases t with
    | nil =>
      have := punct_41 c
      simpa using this
    | cons d t' => simp

/-- the two `parseJoinExpr` results are combined in the same way whatever the letter case -/
theorem joinPair_congr (A' A B' B : GoResult JoinExpr)
    (hl : mapR canonJE A' = mapR canonJE A) (hr : mapR canonJE B' = mapR canonJE B) :
    mapR (Option.map fun p => (canonJE p.1, canonJE p.2))
      (match A' with
        | .ok le => (match B' with
          | .ok re => GoResult.ok (some (le, re))
          | .err => .err
          | .panic => .panic)
        | .err => .err
        | .panic => .panic) =
    mapR (Option.map fun p => (canonJE p.1, canonJE p.2))
      (match A with
        | .ok le => (match B with
          | .ok re => GoResult.ok (some (le, re))
          | .err => .err
          | .panic => .panic)
        | .err => .err
        | .panic => .panic) := by
  cases A' <;> cases A <;> simp only [mapR, reduceCtorEq, GoResult.ok.injEq] at hl <;>
    cases B' <;> cases B <;> simp only [mapR, reduceCtorEq, GoResult.ok.injEq] at hr <;>
    simp only [mapR, Option.map_some, hl, hr]

/-- the `json_value(...)` matcher sees the same structure whatever the letter case; only the
quoted path keeps the text's case -/
theorem parseJSONValue_L (x : Bytes) :
    parseJSONValue (L x) = (parseJSONValue x).map (fun p => (p.1, L p.2)) := by
  unfold parseJSONValue
  simp only [trimSpace_L, kwAt_L]
  generalize trimSpace x = e
  split
  · rfl
  · rw [← L_drop, skipWs_L, expectByte_L 40 punct_40]
    cases expectByte 40 (skipWs (List.drop 10 e)) with
    | none => rfl
    | some r1 =>
      simp only [Option.map_some, skipWs_L, takeWhile_L isIdentB isIdentB_lowerB, L_isEmpty, L_length]
      split
      · rfl
      · rw [← L_drop, skipWs_L, expectByte_L 44 punct_44]
        cases expectByte 44 (skipWs (List.drop (List.takeWhile isIdentB (skipWs r1)).length (skipWs r1))) with
        | none => rfl
        | some r2 =>
          simp only [Option.map_some, skipWs_L]
          rw [expectByte_L 39 punct_39]
          cases expectByte 39 (skipWs r2) with
          | none => rfl
          | some r3 =>
            have hq : ∀ y, (lowerB y != 39) = (y != 39) := by
              intro y; simp only [bne, punct_39 y]
            have htw : List.takeWhile (fun b => b != 39) (L r3) = L (List.takeWhile (fun b => b != 39) r3) :=
              takeWhile_L (fun b => b != 39) hq r3
            simp only [Option.map_some, htw, L_isEmpty, L_length]
            split
            · rfl
            · rw [← L_drop, expectByte_L 39 punct_39]
              cases expectByte 39 (List.drop (List.takeWhile (fun b => b != 39) r3).length r3) with
              | none => rfl
              | some r4 =>
                simp only [Option.map_some, skipWs_L, L_eq_singleton_41, L_idem]
                split
                · split <;> rfl
                · rfl

theorem parseJoinExpr_L (x topic alias jt ja : Bytes) :
    parseJoinExpr (L x) topic alias jt ja = mapR (fun e => e) (parseJoinExpr (L x) topic alias jt ja) ∧
    mapR canonJE (parseJoinExpr (L x) topic alias jt ja) = mapR canonJE (parseJoinExpr x topic alias jt ja) := by
  constructor
  · cases parseJoinExpr (L x) topic alias jt ja <;> rfl
  · unfold parseJoinExpr
    rw [parseJSONValue_L, L_idem]
    cases parseJSONValue x with
    | some p =>
      obtain ⟨source, path⟩ := p
      simp [mapR, canonJE, L_idem]
    | none =>
      simp only [Option.map_none]

theorem parseJoinCondition_L (raw lower topic alias jt ja : Bytes) :
    mapR (Option.map fun p => (canonJE p.1, canonJE p.2)) (parseJoinCondition (L raw) lower topic alias jt ja) =
    mapR (Option.map fun p => (canonJE p.1, canonJE p.2)) (parseJoinCondition raw lower topic alias jt ja) := by
  unfold parseJoinCondition
  cases keywordIndex lower "join" with
  | none => rfl
  | some joinIdx =>
    simp only []
    cases sliceFrom lower joinIdx with
    | panic => rfl
    | err => rfl
    | ok tailLower =>
      simp only []
      cases keywordIndex tailLower "on" with
      | none => rfl
      | some onRel =>
        simp only []
        rw [sliceFrom_L]
        cases sliceFrom raw (onRel + joinIdx + 2) with
        | panic => cases sliceFrom lower (onRel + joinIdx + 2) <;> rfl
        | err => cases sliceFrom lower (onRel + joinIdx + 2) <;> rfl
        | ok rest =>
          simp only [mapR]
          cases sliceFrom lower (onRel + joinIdx + 2) with
          | panic => rfl
          | err => rfl
          | ok restLower =>
            simp only []
            rw [sliceTo_L]
            cases sliceTo rest (clauseEnd restLower joinStops) with
            | panic => rfl
            | err => rfl
            | ok ex =>
              simp only [mapR, trimSpace_L]
              rw [splitOn_L 61 punct_61]
              generalize splitOn 61 (trimSpace ex) = parts
              match parts with
              | [] => rfl
              | [_] => rfl
              | [l, r] =>
                simp only [List.map_cons, List.map_nil, trimSpace_L]
                exact joinPair_congr _ _ _ _ (parseJoinExpr_L (trimSpace l) topic alias jt ja).2
                  (parseJoinExpr_L (trimSpace r) topic alias jt ja).2
              | _ :: _ :: _ :: _ => rfl

theorem parseGroupBy_L (raw lower : Bytes) : parseGroupBy (L raw) lower = parseGroupBy raw lower := by
  unfold parseGroupBy
  cases keywordIndex lower "group by" with
  | none => rfl
  | some gi =>
    simp only []
    rw [sliceFrom_L]
    cases sliceFrom raw (gi + 8) with
    | panic => cases sliceFrom lower (gi + 8) <;> rfl
    | err => cases sliceFrom lower (gi + 8) <;> rfl
    | ok rest =>
      simp only [mapR]
      cases sliceFrom lower (gi + 8) with
      | panic => rfl
      | err => rfl
      | ok restLower =>
        simp only []
        rw [sliceTo_L]
        cases sliceTo rest (clauseEnd restLower groupStops) with
        | panic => rfl
        | err => rfl
        | ok l => simp only [mapR, trimSpace_L, splitIdentifiers_L]

theorem parseOrderBy_L (raw lower : Bytes) : parseOrderBy (L raw) lower = parseOrderBy raw lower := by
  unfold parseOrderBy
  cases keywordIndex lower "order by" with
  | none => rfl
  | some gi =>
    simp only []
    rw [sliceFrom_L]
    cases sliceFrom raw (gi + 8) with
    | panic => cases sliceFrom lower (gi + 8) <;> rfl
    | err => cases sliceFrom lower (gi + 8) <;> rfl
    | ok rest =>
      simp only [mapR]
      cases sliceFrom lower (gi + 8) with
      | panic => rfl
      | err => rfl
      | ok restLower =>
        simp only []
        rw [sliceTo_L]
        cases sliceTo rest (clauseEnd restLower orderStops) with
        | panic => rfl
        | err => rfl
        | ok l => simp only [mapR, trimSpace_L, L_idem]

theorem parseOrderDesc_L (raw lower : Bytes) : parseOrderDesc (L raw) lower = parseOrderDesc raw lower := by
  unfold parseOrderDesc
  cases keywordIndex lower "order by" with
  | none => rfl
  | some gi =>
    simp only []
    rw [sliceFrom_L]
    cases sliceFrom raw (gi + 8) with
    | panic => rfl
    | err => rfl
    | ok rest => simp only [mapR, L_idem]

theorem parseSelect_L (raw lower : Bytes) (fs : List Bytes) :
    mapR canonSel (parseSelect (L raw) lower fs) = mapR canonSel (parseSelect raw lower fs) := by
  unfold parseSelect
  rw [parseSelectColumns_L, parseGroupBy_L, parseOrderBy_L, parseOrderDesc_L]
  cases parseSelectColumns raw lower with
  | panic => rfl
  | err => rfl
  | ok cols =>
    simp only [mapR]
    cases parseFromClause fs with
    | none => rfl
    | some ta =>
      obtain ⟨topic, alias⟩ := ta
      simp only []
      generalize parseJoin fs = pj
      obtain ⟨joinType, joinTopic, joinAlias⟩ := pj
      simp only []
      by_cases hjt : (joinType ≠ 0 ∧ joinTopic.isEmpty = true)
      · rw [if_pos hjt, if_pos hjt]
      · rw [if_neg hjt, if_neg hjt]
        have hjc : mapR (Option.map fun p => (canonJE p.1, canonJE p.2))
            (if (!joinTopic.isEmpty) = true then parseJoinCondition (L raw) lower topic alias joinTopic joinAlias
              else GoResult.ok none) =
          mapR (Option.map fun p => (canonJE p.1, canonJE p.2))
            (if (!joinTopic.isEmpty) = true then parseJoinCondition raw lower topic alias joinTopic joinAlias
              else GoResult.ok none) := by
          split
          · exact parseJoinCondition_L raw lower topic alias joinTopic joinAlias
          · rfl
        revert hjc
        generalize (if (!joinTopic.isEmpty) = true then parseJoinCondition (L raw) lower topic alias joinTopic joinAlias
            else GoResult.ok none) = jc'
        generalize (if (!joinTopic.isEmpty) = true then parseJoinCondition raw lower topic alias joinTopic joinAlias
            else GoResult.ok none) = jc
        intro hjc
        cases jc' <;> cases jc <;> simp only [mapR, reduceCtorEq, GoResult.ok.injEq] at hjc <;> try rfl
        rename_i jo' jo
        simp only []
        cases parseFilters fs with
        | panic => rfl
        | err => rfl
        | ok r =>
          obtain ⟨partition, offMin, offMax⟩ := r
          simp only []
          cases parseGroupBy raw lower <;> cases parseOrderBy raw lower <;> cases parseOrderDesc raw lower <;>
            simp only [mapR, canonSel, List.map_map, hjc, GoResult.ok.injEq, Sel.mk.injEq, true_and, and_true]
          · simp [Function.comp, L_idem]

/-- parsing a text and parsing its ASCII-lowered form give the same query (modulo the case of
the copied text fields), for every text -/
theorem parseFuel_L : ∀ (n : Nat) (q : Bytes),
    mapR canonQ (parseFuel asciiLower n (L q)) = mapR canonQ (parseFuel asciiLower n q) := by
  intro n
  induction n with
  | zero => intro q; rfl
  | succ n ih =>
    intro q
    unfold parseFuel
    simp only [trimSpace_L, L_isEmpty, trimSemi_L, L_idem]
    split
    · rfl
    · split
      · rfl
      · split
        · rfl
        split
        · rfl
        split
        · have := parseSelect_L (trimSemi (trimSpace q)) (L (trimSemi (trimSpace q))) (fields (L (trimSemi (trimSpace q))))
          cases h1 : parseSelect (L (trimSemi (trimSpace q))) (L (trimSemi (trimSpace q))) (fields (L (trimSemi (trimSpace q)))) <;>
            cases h2 : parseSelect (trimSemi (trimSpace q)) (L (trimSemi (trimSpace q))) (fields (L (trimSemi (trimSpace q)))) <;>
            rw [h1, h2] at this <;> simp only [mapR, reduceCtorEq, GoResult.ok.injEq] at this <;>
            simp only [mapR, canonQ, this]
        split
        · split
          · rfl
          · rw [sliceFrom_L]
            cases sliceFrom (trimSpace (trimSemi (trimSpace q))) 7 with
            | panic => rfl
            | err => rfl
            | ok innerRaw =>
              simp only [mapR, trimSpace_L, L_isEmpty]
              by_cases hie : (trimSpace innerRaw).isEmpty = true
              · rw [if_pos hie, if_pos hie]
              · rw [if_neg hie, if_neg hie]
                have := ih (trimSpace innerRaw)
                revert this
                generalize parseFuel asciiLower n (L (trimSpace innerRaw)) = r'
                generalize parseFuel asciiLower n (trimSpace innerRaw) = r
                intro this
                cases r' <;> cases r <;> simp only [mapR, reduceCtorEq, GoResult.ok.injEq] at this <;> try rfl
                rename_i a b
                cases a <;> cases b <;>
                  simp only [canonQ, reduceCtorEq, Q.select.injEq, Q.explain.injEq] at this <;>
                  first | rfl | simp only [mapR, canonQ, this]
        · rfl

/-- **C35 (keyword case), partial.**  Two query texts that differ only in the case of ASCII
letters — in particular any two keyword-case variants of one query — parse to the same result:
same outcome (query / error), same statement type, topics, aliases, join type and sides,
filters, GROUP BY, ORDER BY, LIMIT, LAST/TAIL/WITHIN, SCAN FULL; the column texts
(`SelectColumn.Raw`) and JSON paths, which are copied from the query text, are equal modulo
ASCII case.  "Partial": `Raw` still shows the case in which `AS` and function names were
typed, and the classification of columns / timestamp literals is outside the model. -/
theorem _root_.KafVerif.C35.case_insensitive_partial (a b : Bytes) (h : asciiLower a = asciiLower b) :
    mapR canonQ (parse a) = mapR canonQ (parse b) := by
  unfold parse parseWith
  have hlen : a.length = b.length := by
    have := congrArg List.length h
    simpa using this
  rw [← parseFuel_L (a.length + 1) a, ← parseFuel_L (b.length + 1) b, h, hlen]

/-- the decisions do not depend on case at all: if parsing succeeds for one variant it succeeds
for the other, with the same topics -/
theorem _root_.KafVerif.C35.case_insensitive_topics (a b : Bytes) (h : asciiLower a = asciiLower b) (s : Sel)
    (ha : parse a = .ok (.select s)) :
    ∃ s', parse b = .ok (.select s') ∧ s'.topic = s.topic ∧ s'.joinTopic = s.joinTopic ∧
      s'.partition = s.partition ∧ s'.offMin = s.offMin ∧ s'.offMax = s.offMax ∧ s'.limit = s.limit := by
  have := KafVerif.C35.case_insensitive_partial a b h
  rw [ha] at this
  cases hb : parse b with
  | panic => rw [hb] at this; simp [mapR] at this
  | err => rw [hb] at this; simp [mapR] at this
  | ok qb =>
    rw [hb] at this
    simp only [mapR, GoResult.ok.injEq] at this
    cases qb <;> simp only [canonQ, reduceCtorEq, Q.select.injEq] at this
    rename_i s'
    refine ⟨s', rfl, ?_⟩
    have h1 := congrArg Sel.topic this
    have h2 := congrArg Sel.joinTopic this
    have h3 := congrArg Sel.partition this
    have h4 := congrArg Sel.offMin this
    have h5 := congrArg Sel.offMax this
    have h6 := congrArg Sel.limit this
    simp only [canonSel] at h1 h2 h3 h4 h5 h6
    exact ⟨h1.symm, h2.symm, h3.symm, h4.symm, h5.symm, h6.symm⟩

example : asciiLower (str "SELECT a FROM T") = asciiLower (str "select A from t") := by decide

/-! ### the lowering is a byte map (C35-r2-2)

`lowerASCII` must treat every byte on its own: the byte after a multi-byte rune (e.g. the `W` of
`WHERE` directly after U+3000) is lowered like any other.  The implementation is compared with
`asciiLower` byte by byte on such strings (op `l` of the harness / driver); these theorems say what
the model guarantees, whatever bytes surround a keyword. -/

/-- output byte `i` depends on input byte `i` only -/
theorem _root_.KafVerif.C35.asciiLower_pointwise (s : Bytes) (i : Nat) :
    (asciiLower s)[i]? = s[i]?.map lowerB := by
  simp [asciiLower]

/-- bytes of multi-byte UTF-8 sequences (and every other non-letter) are left alone, upper-case
ASCII letters become lower-case, wherever they stand -/
theorem _root_.KafVerif.C35.lowerB_spec (b : UInt8) :
    (128 ≤ b → lowerB b = b) ∧ (65 ≤ b ∧ b ≤ 90 → lowerB b = b + 32) ∧ (¬ (65 ≤ b ∧ b ≤ 90) → lowerB b = b) := by
  refine ⟨fun h => ?_, fun h => ?_, fun h => ?_⟩
  · have : ¬ (65 ≤ b ∧ b ≤ 90) := by
      intro ⟨_, h2⟩
      have h' : (128 : UInt8).toNat ≤ b.toNat := UInt8.le_iff_toNat_le.mp h
      have h2' : b.toNat ≤ (90 : UInt8).toNat := UInt8.le_iff_toNat_le.mp h2
      simp at h' h2'
      omega
    simp [lowerB, this]
  · simp [lowerB, h]
  · simp [lowerB, h]

/-- lowering does not look at the context: a keyword is lowered the same way after any prefix -/
theorem _root_.KafVerif.C35.asciiLower_context_free (pre k suf : Bytes) :
    asciiLower (pre ++ k ++ suf) = asciiLower pre ++ asciiLower k ++ asciiLower suf := by
  simp [asciiLower]

/-- whatever bytes precede a keyword typed in any letter case (a non-ASCII rune, ill-formed UTF-8,
nothing), the lowered statement carries the lower-case keyword at the same byte offset -/
theorem _root_.KafVerif.C35.keyword_lowered_in_place (pre k suf kw : Bytes) (h : asciiLower k = kw) :
    ((asciiLower (pre ++ k ++ suf)).drop pre.length).take kw.length = kw := by
  rw [KafVerif.C35.asciiLower_context_free, List.append_assoc]
  have h1 : (asciiLower pre).length = pre.length := KafVerif.C35.asciiLower_length pre
  rw [← h1, List.drop_left, ← h, List.take_left]

example : asciiLower ([0xE3, 0x80, 0x80] ++ str "WHERE" ++ str " x") = [0xE3, 0x80, 0x80] ++ str "where" ++ str " x" := by decide
example : keywordIndex (asciiLower (str "select * from t" ++ [0xE3, 0x80, 0x80] ++ str "WHERE x")) "where" = some 18 := by decide

end KafVerif.SqlParser
