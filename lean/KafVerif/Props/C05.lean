import KafVerif.Lemmas.StorageLog
import KafVerif.Model.StorageLogEtcd
/-!
C05 — The durable high watermark never regresses or runs ahead of S3.

Statement (properties.jsonl): in flush-on-ack mode the partition end offset published in the
metadata store never decreases, and never exceeds one past the last offset stored in S3 segments;
under any concurrency and any S3 failures.

`hw_mono` is about EVERY step of the transition system from EVERY state (no reachability needed).
`hw_le_durable`: in every reachable state (any interleaving, any upload / store-update outcomes,
crashes and restarts anywhere) every offset below the published watermark is covered by an S3
segment object whose index object is present — from the shared invariant `Inv`.
The pre-fix code violates both halves (`old_regresses`, `old_runs_ahead`).
-/
namespace KafVerif.StorageLog

theorem storePut_ge (hw h : Nat) : hw ≤ storePut fixed hw h := by
  simp [storePut, fixed]; omega

theorem flushEnter_hw (v s m t b) : (flushEnter v s m t b).hw = s.hw := by
  unfold flushEnter emptyTarget ackNow setPc
  repeat' split
  all_goals rfl

theorem emptyTarget_hw (s m t b) : (emptyTarget s m t b).hw = s.hw := by
  unfold emptyTarget ackNow setPc
  split <;> rfl

/-- **C05 (never regresses).** No step of the (fixed) system lowers the published watermark:
appends, flushes, uploads with any outcome, callbacks in any order, crash, restart. -/
theorem _root_.KafVerif.C05.hw_mono (s s' : State) (e : Ev) (h : step fixed s e = some s') :
    s.hw ≤ s'.hw := by
  cases e <;> simp only [step] at h
  all_goals (repeat' split at h) <;> try (simp at h)
  all_goals (try subst h)
  all_goals (try simp [setPc, ackNow, flushEnter_hw, emptyTarget_hw])
  all_goals (try exact storePut_ge _ _)

/-- along any run -/
theorem _root_.KafVerif.C05.hw_mono_run (evs : List Ev) (s s' : State) (h : run fixed s evs = some s') :
    s.hw ≤ s'.hw := by
  induction evs generalizing s with
  | nil => simp [run] at h; subst h; exact Nat.le_refl _
  | cons e es ih =>
    simp only [run] at h
    split at h
    · rename_i s1 h1
      exact Nat.le_trans (KafVerif.C05.hw_mono s s1 e h1) (ih s1 h)
    · simp at h

/-- **C05 (never runs ahead).** Every offset below the published `next_offset` is stored in an S3
segment (with its index): the watermark never exceeds one past the last offset in S3. -/
theorem _root_.KafVerif.C05.hw_le_durable {cfg : Cfg} {s : State} (h : Reachable fixed cfg s)
    {o : Nat} (ho : o < s.hw) : DurableOff s o := by
  obtain ⟨L, hc, _⟩ := core_of_inv (reachable_inv h)
  have hhw := hc.hw
  obtain ⟨p, hp, hp1, hp2⟩ := Chain_cover hc.chain (Nat.zero_le o) (by omega)
  obtain ⟨obj, hs, he, hi⟩ := hc.objs p hp
  have hwf := hc.wf _ _ hs
  obtain ⟨b, hb, hb1, hb2⟩ := Contig_cover hwf.2 hp1 (by omega)
  exact ⟨p.1, obj, b, hs, hi, hb, hb1, hb2⟩

/-- the same with the registered segments: while the broker is up the watermark is at most the end
of the last committed segment, which is at most the next offset to assign -/
theorem _root_.KafVerif.C05.hw_le_committed {cfg : Cfg} {s : State} {m : Mem} (h : Reachable fixed cfg s)
    (hm : s.mem = some m) : s.hw ≤ segEnd m.segments ∧ segEnd m.segments ≤ m.next := by
  have mi := memInv_of (reachable_inv h) hm
  obtain ⟨mid, c1, c2⟩ := Contig_append.mp mi.contig
  exact ⟨mi.core.hw, Nat.le_trans (Contig_le c1) (Contig_le c2)⟩

/-! ### the pre-fix code violates both halves -/

/-- two consecutive flushes, callbacks delivered in the opposite order -/
def regressEvs : List Ev :=
  [.restore, .wf 0 1, .flush 0, .seg 0 true, .idx 0 true, .finish 0,
   .wf 1 1, .flush 1, .seg 1 true, .idx 1 true, .finish 1, .pub 1 true]

def regresses (v : Variant) : Bool :=
  match run v (init ⟨0, 0⟩) regressEvs with
  | some s => match step v s (.pub 0 true) with
    | some s' => decide (s'.hw < s.hw)
    | none => false
  | none => false

/-- **pre-fix witness (regression)**: unconditional `UpdateOffsets` lets the watermark go 2 → 1. -/
theorem _root_.KafVerif.C05.old_regresses : regresses old = true := by decide
theorem _root_.KafVerif.C05.fixed_does_not_regress_here : regresses fixed = false := by decide

/-- an empty `Flush` that reads `nextOffset` after re-taking the lock, with an append in between -/
def aheadEvs : List Ev :=
  [.restore, .wf 0 1, .wf 1 1, .flush 0, .seg 0 true, .idx 0 true, .finish 0, .pub 0 true,
   .flush 1, .wf 2 1, .readNext 1, .pub 1 true]

def runsAhead (v : Variant) : Bool :=
  match run v (init ⟨0, 0⟩) aheadEvs with
  | some s => (List.range s.hw).any fun o => !durableOffB s o
  | none => false

/-- **pre-fix witness (runs ahead, no S3 failure needed)**: next_offset 3 published, offset 2 only in memory. -/
theorem _root_.KafVerif.C05.old_runs_ahead : runsAhead old = true := by decide

/-! ### `BuildSegment` as a step that may fail -/

theorem storePut_ge_sound {v : Variant} (hv : Sound v) (hw h : Nat) : hw ≤ storePut v hw h := by
  rw [storePut_sound hv]; omega

/-- **C05 (never regresses) for every sound shape**: also when `BuildSegment` fails (stricter rule, fault oracle) and the
error exit of `prepareFlush` re-queues. -/
theorem _root_.KafVerif.C05.hw_mono_sound {v : Variant} (hv : Sound v) (s s' : State) (e : Ev) (h : step v s e = some s') :
    s.hw ≤ s'.hw := by
  cases e <;> simp only [step] at h
  all_goals (repeat' split at h) <;> try (simp at h)
  all_goals (try subst h)
  all_goals (try simp [setPc, ackNow, flushEnter_hw, emptyTarget_hw])
  all_goals (try exact storePut_ge_sound hv _ _)

/-- **C05 (never runs ahead) for every sound shape.**  `hw_le_durable` with `BuildSegment` failing in ANY way (stricter
input rule, fault oracle) when the error exit of `prepareFlush` re-queues what it drained; or with the source's rule and
the source's error exit (`fixed`: the build cannot fail on accepted batches, `C01.build_total_on_accepted`). -/
theorem _root_.KafVerif.C05.hw_le_durable_sound {v : Variant} (hv : Sound v) {cfg : Cfg} {s : State} (h : Reachable v cfg s)
    {o : Nat} (ho : o < s.hw) : DurableOff s o := by
  obtain ⟨L, hc, _⟩ := core_of_inv (reachable_inv_of hv h)
  have hhw := hc.hw
  obtain ⟨p, hp, hp1, hp2⟩ := Chain_cover hc.chain (Nat.zero_le o) (by omega)
  obtain ⟨obj, hs, he, hi⟩ := hc.objs p hp
  have hwf := hc.wf _ _ hs
  obtain ⟨b, hb, hb1, hb2⟩ := Contig_cover hwf.2 hp1 (by omega)
  exact ⟨p.1, obj, b, hs, hi, hb, hb1, hb2⟩

/-- A appends an ordinary batch, B a batch declaring -1 records; B's Flush drains both and the (hardened) build fails:
both dropped, `nextOffset` stays 2; A's empty Flush publishes `nextOffset - 1`. -/
def buildAheadEvs : List Ev :=
  [.restore, .wf 0 1, .append 1 1 (-1) 72, .flush 1, .flush 0, .pub 0 true]

def runsAheadOn (v : Variant) (evs : List Ev) : Bool :=
  match run v (init ⟨0, 0⟩) evs with
  | some s => decide (0 < s.hw) && (List.range s.hw).any fun o => !durableOffB s o
  | none => false

/-- **witness for the hardening change** (`BuildSegment` rejects a negative record count, `prepareFlush` unchanged):
next_offset 2 published with nothing in S3. -/
theorem _root_.KafVerif.C05.strict_build_runs_ahead :
    runsAheadOn { fixed with strictBuild := true } buildAheadEvs = true := by decide

/-- the same schedule: the code as it is uploads both batches before anything is published; the re-queueing shape
publishes nothing -/
theorem _root_.KafVerif.C05.strict_build_same_schedule :
    runsAheadOn fixed (buildAheadEvs.take 4 ++ [.seg 1 true, .idx 1 true, .finish 1, .pub 1 true, .flush 0, .pub 0 true]) = false ∧
    ((run fixed (init ⟨0, 0⟩) (buildAheadEvs.take 4 ++ [.seg 1 true, .idx 1 true, .finish 1, .pub 1 true, .flush 0, .pub 0 true])).map
      (·.hw)) = some 2 ∧
    ((run { fixed with strictBuild := true, requeueBuild := true } (init ⟨0, 0⟩) (buildAheadEvs.take 5)).map (·.hw)) = some 0 := by
  decide

/-- non-vacuity of `hw_le_durable`: reachable states with a positive watermark exist -/
example : ∃ s, Reachable fixed ⟨0, 0⟩ s ∧ 0 < s.hw := by
  have h : ((run fixed (init ⟨0, 0⟩) (regressEvs ++ [.pub 0 true])).map fun s => s.hw) = some 2 := by decide
  cases hr : run fixed (init ⟨0, 0⟩) (regressEvs ++ [.pub 0 true]) with
  | none => rw [hr] at h; simp at h
  | some s => rw [hr] at h; simp at h; exact ⟨s, reachable_run Reachable.init hr, by omega⟩

end KafVerif.StorageLog

/-! ## The etcd implementation of `UpdateOffsets` (get; compare; txn on mod revision; retry) -/

namespace KafVerif.StorageLogEtcd

structure Inv (s : State) : Prop where
  rev : modRev s ≤ s.rev
  txn : ∀ i next r, s.pcs i = .txn next r → r ≤ s.rev ∧ (modRev s = r → stored s ≤ next)

theorem inv_init : Inv init := ⟨by simp [modRev, init], fun i n r h => by simp [init] at h⟩

theorem setPc_inv {s : State} {i : Nat} {pc : CPc} (h : Inv s)
    (hpc : ∀ next r, pc = .txn next r → r ≤ s.rev ∧ (modRev s = r → stored s ≤ next)) : Inv (setPc s i pc) := by
  refine ⟨h.rev, ?_⟩
  intro j next r hj
  simp only [setPc] at hj
  by_cases hji : j = i
  · simp only [hji, if_true] at hj; exact hpc next r hj
  · simp only [hji, if_false] at hj; exact h.txn j next r hj

theorem inv_step {s s' : State} {e : Ev} (h : Inv s) (hs : step .fixed s e = some s') : Inv s' := by
  cases e with
  | call i next =>
    simp only [step] at hs
    split at hs <;> simp at hs
    subst hs; exact setPc_inv h (fun _ _ hh => by cases hh)
  | get i ok =>
    simp only [step] at hs
    split at hs
    case h_2 => simp at hs
    case h_1 next hpc =>
      cases ok with
      | false => simp at hs; subst hs; exact setPc_inv h (fun _ _ hh => by cases hh)
      | true =>
        simp only [if_true] at hs
        cases hkv : s.kv with
        | none =>
          simp only [hkv, Option.some.injEq] at hs; subst hs
          refine setPc_inv h (fun n r hh => ?_)
          cases hh
          exact ⟨Nat.zero_le _, fun _ => by simp [stored, hkv]⟩
        | some p =>
          simp only [hkv] at hs
          split at hs
          · simp at hs; subst hs; exact setPc_inv h (fun _ _ hh => by cases hh)
          · simp at hs; subst hs
            refine setPc_inv h (fun n r hh => ?_)
            cases hh
            have := h.rev
            simp only [modRev, hkv] at this
            exact ⟨this, fun _ => by simp [stored, hkv]; omega⟩
  | txn i ok =>
    simp only [step] at hs
    split at hs
    case h_2 => simp at hs
    case h_1 next r hpc =>
      cases ok with
      | false => simp at hs; subst hs; exact setPc_inv h (fun _ _ hh => by cases hh)
      | true =>
        simp only [if_true] at hs
        split at hs
        · simp only [Option.some.injEq] at hs; subst hs
          refine ⟨by simp [modRev], ?_⟩
          intro j n' r' hj
          simp only [setPc] at hj
          by_cases hji : j = i
          · simp [hji] at hj
          · simp only [hji, if_false] at hj
            have := (h.txn j n' r' hj).1
            exact ⟨by simp; omega, fun hm => by simp [modRev] at hm; omega⟩
        · simp only [Option.some.injEq] at hs; subst hs
          exact setPc_inv h (fun _ _ hh => by cases hh)

theorem reachable_inv {s : State} (h : Reachable .fixed s) : Inv s := by
  induction h with
  | init => exact inv_init
  | step e _ hs ih => exact inv_step ih hs

/-- **C05 on etcd (never regresses).** For every number of concurrent `UpdateOffsets` callers, every
interleaving of their Get / Txn operations and every failure pattern, no step lowers the value
stored under `next_offset`. -/
theorem _root_.KafVerif.C05.etcd_hw_mono {s s' : State} {e : Ev} (h : Reachable .fixed s) (hs : step .fixed s e = some s') :
    stored s ≤ stored s' := by
  have hi := reachable_inv h
  cases e with
  | call i next =>
    simp only [step] at hs
    split at hs <;> simp at hs
    subst hs; exact Nat.le_refl _
  | get i ok =>
    simp only [step] at hs
    split at hs
    case h_2 => simp at hs
    case h_1 =>
      split at hs
      · split at hs
        · split at hs <;> (simp at hs; subst hs; exact Nat.le_refl _)
        · simp at hs; subst hs; exact Nat.le_refl _
      · simp at hs; subst hs; exact Nat.le_refl _
  | txn i ok =>
    simp only [step] at hs
    split at hs
    case h_2 => simp at hs
    case h_1 next r hpc =>
      split at hs
      · split at hs
        · rename_i hm
          simp only [Option.some.injEq] at hs; subst hs
          have := (hi.txn i next r hpc).2 hm
          simpa [stored, setPc] using this
        · simp at hs; subst hs; exact Nat.le_refl _
      · simp at hs; subst hs; exact Nat.le_refl _

theorem _root_.KafVerif.C05.etcd_hw_mono_run {s s' : State} (evs : List Ev) (h : Reachable .fixed s)
    (hr : run .fixed s evs = some s') : stored s ≤ stored s' := by
  induction evs generalizing s with
  | nil => simp [run] at hr; subst hr; exact Nat.le_refl _
  | cons e es ih =>
    simp only [run] at hr
    split at hr
    · rename_i s1 h1
      exact Nat.le_trans (KafVerif.C05.etcd_hw_mono h h1) (ih (Reachable.step e h h1) hr)
    · simp at hr

/-- the older callback (next 6) reads the key, the newer one (next 10) commits, the older one's
transaction conflicts and is retried -/
def raceEvs : List Ev :=
  [.call 0 4, .get 0 true, .txn 0 true,
   .call 1 6, .get 1 true, .call 2 10, .get 2 true, .txn 2 true, .txn 1 true, .txn 1 true]

def regressesOn (v : Variant) (evs : List Ev) : Bool :=
  let rec go (s : State) (lo : Nat) : List Ev → Bool
    | [] => false
    | e :: es => match step v s e with
      | some s' => decide (stored s' < lo) || go s' (max lo (stored s')) es
      | none => false
  go init 0 evs

/-- **witness**: the compare-once restructuring (value compared only after the first Get; a
conflicting txn adopts the winner's mod revision) lets the stored offset go 10 → 6. -/
theorem _root_.KafVerif.C05.etcd_compare_once_regresses : regressesOn .once raceEvs = true := by decide

/-- the code as it is re-reads and re-compares after the conflict: same schedule, no regression
(the last command is not even enabled: the caller is back at its Get) -/
theorem _root_.KafVerif.C05.etcd_fixed_same_schedule :
    regressesOn .fixed raceEvs = false ∧
    regressesOn .fixed [.call 0 4, .get 0 true, .txn 0 true, .call 1 6, .get 1 true, .call 2 10, .get 2 true,
      .txn 2 true, .txn 1 true, .get 1 true] = false := by decide

/-- non-vacuity: reachable states of the fixed protocol with a conflict in flight exist -/
example : ∃ s, Reachable .fixed s ∧ stored s = 10 ∧ s.pcs 1 = .txn 6 2 := by
  have h : ((run .fixed init (raceEvs.take 8)).map fun s => (stored s, s.pcs 1)) = some (10, .txn 6 2) := by decide
  cases hr : run .fixed init (raceEvs.take 8) with
  | none => rw [hr] at h; simp at h
  | some s =>
    rw [hr] at h; simp at h
    have reach : ∀ (evs : List Ev) (s0 s1 : State), Reachable .fixed s0 → run .fixed s0 evs = some s1 → Reachable .fixed s1 := by
      intro evs
      induction evs with
      | nil => intro s0 s1 h0 h1; simp [run] at h1; subst h1; exact h0
      | cons e es ih =>
        intro s0 s1 h0 h1
        simp only [run] at h1
        split at h1
        · rename_i s2 h2; exact ih s2 s1 (Reachable.step e h0 h2) h1
        · simp at h1
    exact ⟨s, reach _ _ _ Reachable.init hr, h.1, h.2⟩

end KafVerif.StorageLogEtcd

