import KafVerif.Lemmas.StorageLog
/-!
C05 — The durable high watermark never regresses or runs ahead of S3.

Statement (properties.jsonl): in flush-on-ack mode the partition end offset published in the
metadata store never decreases, and never exceeds one past the last offset stored in S3 segments;
under any concurrency and any S3 failures.

`hw_mono` is about EVERY step of the transition system from EVERY state (no reachability needed).
`hw_le_durable`: in every reachable state (any interleaving, any upload / store-update outcomes,
crashes and restarts anywhere) every offset below the published watermark is covered by an S3
segment object whose index object is present — from the shared invariant `Inv`.
The pre-fix code violates both halves (`old_regresses`, `old_runs_ahead`).
-/
namespace KafVerif.StorageLog

theorem storePut_ge (hw h : Nat) : hw ≤ storePut fixed hw h := by
  simp [storePut, fixed]; omega

theorem flushEnter_hw (v s m t b) : (flushEnter v s m t b).hw = s.hw := by
  unfold flushEnter emptyTarget ackNow setPc
  repeat' split
  all_goals rfl

theorem emptyTarget_hw (s m t b) : (emptyTarget s m t b).hw = s.hw := by
  unfold emptyTarget ackNow setPc
  split <;> rfl

/-- **C05 (never regresses).** No step of the (fixed) system lowers the published watermark:
appends, flushes, uploads with any outcome, callbacks in any order, crash, restart. -/
theorem _root_.KafVerif.C05.hw_mono (s s' : State) (e : Ev) (h : step fixed s e = some s') :
    s.hw ≤ s'.hw := by
  cases e <;> simp only [step] at h
  all_goals (repeat' split at h) <;> try (simp at h)
  all_goals (try subst h)
  all_goals (try simp [setPc, ackNow, flushEnter_hw, emptyTarget_hw])
  all_goals (try exact storePut_ge _ _)

/-- along any run -/
theorem _root_.KafVerif.C05.hw_mono_run (evs : List Ev) (s s' : State) (h : run fixed s evs = some s') :
    s.hw ≤ s'.hw := by
  induction evs generalizing s with
  | nil => simp [run] at h; subst h; exact Nat.le_refl _
  | cons e es ih =>
    simp only [run] at h
    split at h
    · rename_i s1 h1
      exact Nat.le_trans (KafVerif.C05.hw_mono s s1 e h1) (ih s1 h)
    · simp at h

/-- **C05 (never runs ahead).** Every offset below the published `next_offset` is stored in an S3
segment (with its index): the watermark never exceeds one past the last offset in S3. -/
theorem _root_.KafVerif.C05.hw_le_durable {cfg : Cfg} {s : State} (h : Reachable fixed cfg s)
    {o : Nat} (ho : o < s.hw) : DurableOff s o := by
  obtain ⟨L, hc, _⟩ := core_of_inv (reachable_inv h)
  have hhw := hc.hw
  obtain ⟨p, hp, hp1, hp2⟩ := Chain_cover hc.chain (Nat.zero_le o) (by omega)
  obtain ⟨obj, hs, he, hi⟩ := hc.objs p hp
  have hwf := hc.wf _ _ hs
  obtain ⟨b, hb, hb1, hb2⟩ := Contig_cover hwf.2 hp1 (by omega)
  exact ⟨p.1, obj, b, hs, hi, hb, hb1, hb2⟩

/-- the same with the registered segments: while the broker is up the watermark is at most the end
of the last committed segment, which is at most the next offset to assign -/
theorem _root_.KafVerif.C05.hw_le_committed {cfg : Cfg} {s : State} {m : Mem} (h : Reachable fixed cfg s)
    (hm : s.mem = some m) : s.hw ≤ segEnd m.segments ∧ segEnd m.segments ≤ m.next := by
  have mi := memInv_of (reachable_inv h) hm
  obtain ⟨mid, c1, c2⟩ := Contig_append.mp mi.contig
  exact ⟨mi.core.hw, Nat.le_trans (Contig_le c1) (Contig_le c2)⟩

/-! ### the pre-fix code violates both halves -/

/-- two consecutive flushes, callbacks delivered in the opposite order -/
def regressEvs : List Ev :=
  [.restore, .append 0 1, .flush 0, .seg 0 true, .idx 0 true, .finish 0,
   .append 1 1, .flush 1, .seg 1 true, .idx 1 true, .finish 1, .pub 1 true]

def regresses (v : Variant) : Bool :=
  match run v (init ⟨0, 0⟩) regressEvs with
  | some s => match step v s (.pub 0 true) with
    | some s' => decide (s'.hw < s.hw)
    | none => false
  | none => false

/-- **pre-fix witness (regression)**: unconditional `UpdateOffsets` lets the watermark go 2 → 1. -/
theorem _root_.KafVerif.C05.old_regresses : regresses old = true := by decide
theorem _root_.KafVerif.C05.fixed_does_not_regress_here : regresses fixed = false := by decide

/-- an empty `Flush` that reads `nextOffset` after re-taking the lock, with an append in between -/
def aheadEvs : List Ev :=
  [.restore, .append 0 1, .append 1 1, .flush 0, .seg 0 true, .idx 0 true, .finish 0, .pub 0 true,
   .flush 1, .append 2 1, .readNext 1, .pub 1 true]

def runsAhead (v : Variant) : Bool :=
  match run v (init ⟨0, 0⟩) aheadEvs with
  | some s => (List.range s.hw).any fun o => !durableOffB s o
  | none => false

/-- **pre-fix witness (runs ahead, no S3 failure needed)**: next_offset 3 published, offset 2 only in memory. -/
theorem _root_.KafVerif.C05.old_runs_ahead : runsAhead old = true := by decide

/-- non-vacuity of `hw_le_durable`: reachable states with a positive watermark exist -/
example : ∃ s, Reachable fixed ⟨0, 0⟩ s ∧ 0 < s.hw := by
  have h : ((run fixed (init ⟨0, 0⟩) (regressEvs ++ [.pub 0 true])).map fun s => s.hw) = some 2 := by decide
  cases hr : run fixed (init ⟨0, 0⟩) (regressEvs ++ [.pub 0 true]) with
  | none => rw [hr] at h; simp at h
  | some s => rw [hr] at h; simp at h; exact ⟨s, reachable_run Reachable.init hr, by omega⟩

end KafVerif.StorageLog
