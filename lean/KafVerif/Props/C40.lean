import KafVerif.Model.McpStore
import KafVerif.Gen.C40McpCalls
/-!
C40 — The ops MCP tools never change cluster state.

Statement (properties.jsonl): calling any tool of the ops MCP server, with any arguments, leaves the
topics, offsets, groups and configurations in the metadata store unchanged.

Shape: table obligation over facts regenerated from the source (`Gen/C40McpCalls.lean`: for every
registered tool the `metadata.Store` methods reachable from its handler) + a store model in which the
read-only methods are the identity and every other method provably is not.
-/
namespace KafVerif.Mcp

/-- **reads preserve state**: a call of a read-only method is the identity on the store state. -/
theorem _root_.KafVerif.C40.reads_preserve_state (s : Store) (c : Call) (h : c.method ∈ readOnly) :
    exec s c = s := by
  cases c <;> first | rfl | (exfalso; revert h; simp [Call.method, readOnly])

/-- any sequence of read-only calls, with any arguments, is the identity -/
theorem runCalls_readOnly (s : Store) (cs : List Call) (h : ∀ c ∈ cs, c.method ∈ readOnly) :
    runCalls s cs = s := by
  induction cs generalizing s with
  | nil => rfl
  | cons c t ih =>
    simp only [runCalls, List.foldl_cons]
    rw [KafVerif.C40.reads_preserve_state s c (h c List.mem_cons_self)]
    exact ih s (fun c' hc' => h c' (List.mem_cons_of_mem _ hc'))

open KafVerif.Gen.C40 in
/-- **table obligation** (regenerated on every run): every registered tool reaches only read-only
Store methods, and hands the store to nothing else. -/
theorem _root_.KafVerif.C40.tools_read_only :
    ∀ t ∈ tools, (∀ m ∈ t.calls, m ∈ readOnly) ∧ t.escapes = 0 := by decide

open KafVerif.Gen.C40 in
/-- the `Method` type of the model enumerates exactly the interface found in the source -/
theorem _root_.KafVerif.C40.interface_covered : (∀ m : Method, m ∈ storeMethods) ∧ storeMethods.length = 15 := by
  refine ⟨?_, by decide⟩
  intro m; cases m <;> decide

open KafVerif.Gen.C40 in
/-- the table is not empty and some tool does reach the store -/
theorem _root_.KafVerif.C40.tools_nonvacuous :
    1 ≤ tools.length ∧ (tools.filter fun t => !t.calls.isEmpty).length ≠ 0 := by decide

open KafVerif.Gen.C40 in
/-- **C40.** Whatever a registered tool does — any number of Store calls, in any order, with any
arguments, as long as they are calls of methods the extractor found reachable from its handler —
the store state afterwards equals the state before. -/
theorem _root_.KafVerif.C40.tool_calls_preserve_state (t : ToolFacts) (ht : t ∈ tools)
    (cs : List Call) (hcs : ∀ c ∈ cs, c.method ∈ t.calls) (s : Store) : runCalls s cs = s :=
  runCalls_readOnly s cs (fun c hc => (KafVerif.C40.tools_read_only t ht).1 _ (hcs c hc))

/-- the hand-written handler models (compared with the real tool outputs on every run) leave the
state unchanged for every store and every argument -/
theorem _root_.KafVerif.C40.runTool_preserves_state (s : Store) (tc : ToolCall) : (runTool s tc).1 = s := by
  cases tc with
  | clusterStatus => rfl
  | clusterMetrics => rfl
  | listTopics => rfl
  | describeTopics names => rfl
  | listGroups => rfl
  | describeGroup g =>
    cases g with
    | none => rfl
    | some g => simp only [runTool]; split <;> rfl
  | fetchOffsets g topics =>
    cases g with
    | none => rfl
    | some g =>
      simp only [runTool]
      apply runCalls_readOnly
      intro c hc
      simp only [List.mem_map] at hc
      obtain ⟨tp, _, rfl⟩ := hc
      simp [Call.method, readOnly]
  | describeConfigs topics =>
    have key : ∀ (s1 : Store) (names : List Nat), s1 = s →
        runCalls s1 (names.map fun t => Call.fetchTopicConfig t) = s := by
      intro s1 names e
      subst e
      apply runCalls_readOnly
      intro c hc
      simp only [List.mem_map] at hc
      obtain ⟨t, _, rfl⟩ := hc
      simp [Call.method, readOnly]
    simp only [runTool]
    split <;> split <;> exact key _ _ rfl

/-- **the read-only set cannot be enlarged**: every method outside it changes some store. -/
theorem _root_.KafVerif.C40.mutators_change_state (m : Method) (h : m ∉ readOnly) :
    ∃ (s : Store) (c : Call), c.method = m ∧ exec s c ≠ s := by
  cases m with
  | metadata => exact absurd (by decide) h
  | nextOffset => exact absurd (by decide) h
  | fetchConsumerOffset => exact absurd (by decide) h
  | listConsumerOffsets => exact absurd (by decide) h
  | fetchConsumerGroup => exact absurd (by decide) h
  | listConsumerGroups => exact absurd (by decide) h
  | fetchTopicConfig => exact absurd (by decide) h
  | updateOffsets => exact ⟨empty 1, .updateOffsets 0 0 5, rfl, by decide⟩
  | commitConsumerOffset => exact ⟨empty 1, .commitConsumerOffset 0 0 0 5 0, rfl, by decide⟩
  | putConsumerGroup => exact ⟨empty 1, .putConsumerGroup 0 ⟨0, 0, []⟩, rfl, by decide⟩
  | deleteConsumerGroup =>
    exact ⟨{ empty 1 with groups := [(0, ⟨0, 0, []⟩)] }, .deleteConsumerGroup 0, rfl, by decide⟩
  | updateTopicConfig =>
    exact ⟨{ empty 1 with topics := [(0, 1)] }, .updateTopicConfig 0 ⟨0, 7⟩, rfl, by decide⟩
  | createPartitions =>
    exact ⟨{ empty 1 with topics := [(0, 1)] }, .createPartitions 0 3, rfl, by decide⟩
  | createTopic => exact ⟨empty 1, .createTopic 0 2, rfl, by decide⟩
  | deleteTopic => exact ⟨{ empty 1 with topics := [(0, 1)] }, .deleteTopic 0, rfl, by decide⟩

/-! ### aliasing: reads hand out copies, never store-owned buffers (at ANY nesting level) -/

/-- every buffer reachable from the store's root exists in the heap -/
def HStore.WF (s : HStore) : Prop :=
  s.root < s.heap.topics.length ∧
  ∀ t ∈ s.heap.topics.getD s.root [], t.parts < s.heap.parts.length ∧
    ∀ p ∈ s.heap.parts.getD t.parts [],
      p.replicas < s.heap.ints.length ∧ p.isr < s.heap.ints.length ∧ p.offline < s.heap.ints.length

/-- `h'` holds everything `h` held, at the same ids -/
def Heap.Agree (h h' : Heap) : Prop :=
  (∀ b, b < h.ints.length → h'.ints.getD b [] = h.ints.getD b []) ∧
  (∀ b, b < h.parts.length → h'.parts.getD b [] = h.parts.getD b []) ∧
  (∀ b, b < h.topics.length → h'.topics.getD b [] = h.topics.getD b [])

/-- `h'` is `h` plus newly allocated buffers -/
def Heap.Ext (h h' : Heap) : Prop :=
  h.ints <+: h'.ints ∧ h.parts <+: h'.parts ∧ h.topics <+: h'.topics

theorem Heap.Ext.refl (h : Heap) : h.Ext h := ⟨List.prefix_refl _, List.prefix_refl _, List.prefix_refl _⟩

theorem Heap.Ext.trans {a b c : Heap} (h1 : a.Ext b) (h2 : b.Ext c) : a.Ext c :=
  ⟨h1.1.trans h2.1, h1.2.1.trans h2.2.1, h1.2.2.trans h2.2.2⟩

theorem getD_of_prefix {α : Type} {l l' : List α} (hp : l <+: l') (b : Nat) (hb : b < l.length) (d : α) :
    l'.getD b d = l.getD b d := by
  obtain ⟨t, rfl⟩ := hp
  simp [List.getD, List.getElem?_append_left hb]

theorem Heap.Ext.agree {h h' : Heap} (e : h.Ext h') : h.Agree h' :=
  ⟨fun b hb => getD_of_prefix e.1 b hb [], fun b hb => getD_of_prefix e.2.1 b hb [],
   fun b hb => getD_of_prefix e.2.2 b hb []⟩

theorem getD_set_ne {α : Type} (l : List α) (b b' : Nat) (x d : α) (hne : b' ≠ b) :
    (l.set b x).getD b' d = l.getD b' d := by
  simp [List.getD, hne.symm]

/-- **frame**: the store's view only reads buffers below the bounds of the heap it is well-formed in -/
theorem view_eq_of_agree (s s' : HStore) (hw : s.WF) (hr : s'.root = s.root) (ha : s.heap.Agree s'.heap) :
    s'.view = s.view := by
  obtain ⟨hroot, hts⟩ := hw
  simp only [HStore.view, hr, ha.2.2 _ hroot]
  apply List.map_congr_left
  intro t ht
  obtain ⟨hp, hps⟩ := hts t ht
  simp only [Heap.viewTopic, ha.2.1 _ hp]
  congr 1
  apply List.map_congr_left
  intro p hpm
  obtain ⟨h1, h2, h3⟩ := hps p hpm
  simp only [Heap.viewPart, ha.1 _ h1, ha.1 _ h2, ha.1 _ h3]

theorem clonePart_spec (h : Heap) (p : HPart) :
    h.Ext (clonePart h p).1 ∧ h.ints.length ≤ (clonePart h p).2.replicas ∧
    h.ints.length ≤ (clonePart h p).2.isr ∧ h.ints.length ≤ (clonePart h p).2.offline := by
  refine ⟨⟨?_, List.prefix_refl _, List.prefix_refl _⟩, ?_, ?_, ?_⟩ <;> simp [clonePart]

theorem Heap.Ext.ints_le {h h' : Heap} (e : h.Ext h') : h.ints.length ≤ h'.ints.length := e.1.length_le
theorem Heap.Ext.parts_le {h h' : Heap} (e : h.Ext h') : h.parts.length ≤ h'.parts.length := e.2.1.length_le
theorem Heap.Ext.topics_le {h h' : Heap} (e : h.Ext h') : h.topics.length ≤ h'.topics.length := e.2.2.length_le

theorem cloneParts_spec (h : Heap) (ps : List HPart) :
    h.Ext (cloneParts h ps).1 ∧ ∀ p ∈ (cloneParts h ps).2,
      h.ints.length ≤ p.replicas ∧ h.ints.length ≤ p.isr ∧ h.ints.length ≤ p.offline := by
  induction ps generalizing h with
  | nil => exact ⟨Heap.Ext.refl h, by simp [cloneParts]⟩
  | cons p ps ih =>
    obtain ⟨e1, f1⟩ := clonePart_spec h p
    obtain ⟨e2, f2⟩ := ih (clonePart h p).1
    refine ⟨e1.trans e2, ?_⟩
    intro q hq
    simp only [cloneParts, List.mem_cons] at hq
    rcases hq with rfl | hq
    · exact f1
    · have := f2 q hq
      have := e1.ints_le
      omega

theorem cloneTopic_spec (h : Heap) (t : HTopic) :
    h.Ext (cloneTopic h t).1 ∧ h.parts.length ≤ (cloneTopic h t).2.parts ∧
    (cloneTopic h t).2.parts < (cloneTopic h t).1.parts.length ∧
    ∀ p ∈ (cloneTopic h t).1.parts.getD (cloneTopic h t).2.parts [],
      h.ints.length ≤ p.replicas ∧ h.ints.length ≤ p.isr ∧ h.ints.length ≤ p.offline := by
  obtain ⟨e, f⟩ := cloneParts_spec h (h.parts.getD t.parts [])
  refine ⟨⟨e.1, ?_, e.2.2⟩, ?_, ?_, ?_⟩
  · exact e.2.1.trans (List.prefix_append _ _)
  · exact e.parts_le
  · simp [cloneTopic]
  · simpa [cloneTopic, List.getD] using f

theorem cloneTopicsL_spec (h : Heap) (ts : List HTopic) :
    h.Ext (cloneTopicsL h ts).1 ∧ ∀ t ∈ (cloneTopicsL h ts).2,
      h.parts.length ≤ t.parts ∧ t.parts < (cloneTopicsL h ts).1.parts.length ∧
      ∀ p ∈ (cloneTopicsL h ts).1.parts.getD t.parts [],
        h.ints.length ≤ p.replicas ∧ h.ints.length ≤ p.isr ∧ h.ints.length ≤ p.offline := by
  induction ts generalizing h with
  | nil => exact ⟨Heap.Ext.refl h, by simp [cloneTopicsL]⟩
  | cons t ts ih =>
    obtain ⟨e1, f1, f2, f3⟩ := cloneTopic_spec h t
    obtain ⟨e2, g⟩ := ih (cloneTopic h t).1
    refine ⟨e1.trans e2, ?_⟩
    intro q hq
    simp only [cloneTopicsL, List.mem_cons] at hq ⊢
    rcases hq with rfl | hq
    · refine ⟨f1, Nat.lt_of_lt_of_le f2 e2.parts_le, ?_⟩
      rw [e2.agree.2.1 _ f2]
      exact f3
    · obtain ⟨g1, g2, g3⟩ := g q hq
      refine ⟨Nat.le_trans e1.parts_le g1, g2, ?_⟩
      intro p hp
      have := g3 p hp
      have := e1.ints_le
      omega

theorem readCopy_ext (s : HStore) : s.heap.Ext (readCopy s).1.heap ∧ (readCopy s).1.root = s.root := by
  obtain ⟨e, _⟩ := cloneTopicsL_spec s.heap (s.heap.topics.getD s.root [])
  exact ⟨⟨e.1, e.2.1, e.2.2.trans (List.prefix_append _ _)⟩, rfl⟩

/-- every buffer reachable from what `readCopy` returns was allocated by the read (its id is beyond the
heap the store was well-formed in) — at every level -/
theorem readCopy_fresh (s : HStore) :
    let out := (readCopy s).1.heap.reach (readCopy s).2
    (∀ b ∈ out.ints, s.heap.ints.length ≤ b) ∧ (∀ b ∈ out.parts, s.heap.parts.length ≤ b) ∧
    (∀ b ∈ out.topics, s.heap.topics.length ≤ b) := by
  obtain ⟨e, f⟩ := cloneTopicsL_spec s.heap (s.heap.topics.getD s.root [])
  have hroot : (readCopy s).1.heap.topics.getD (readCopy s).2 [] =
      (cloneTopicsL s.heap (s.heap.topics.getD s.root [])).2 := by
    simp [readCopy, List.getD]
  have hparts : (readCopy s).1.heap.parts = (cloneTopicsL s.heap (s.heap.topics.getD s.root [])).1.parts := rfl
  simp only [Heap.reach, hroot, hparts]
  refine ⟨?_, ?_, ?_⟩
  · intro b hb
    simp only [List.mem_flatMap] at hb
    obtain ⟨p, ⟨t, ht, hp⟩, hb⟩ := hb
    obtain ⟨h1, h2, h3⟩ := (f t ht).2.2 p hp
    simp only [List.mem_cons, List.not_mem_nil, or_false] at hb
    rcases hb with rfl | rfl | rfl <;> assumption
  · intro b hb
    simp only [List.mem_map] at hb
    obtain ⟨t, ht, rfl⟩ := hb
    exact (f t ht).1
  · intro b hb
    simp only [List.mem_singleton] at hb
    subst hb
    exact e.topics_le

/-- every buffer reachable from the store's own root lies inside the heap the store is well-formed in -/
theorem own_below (s s' : HStore) (hw : s.WF) (hr : s'.root = s.root) (ha : s.heap.Agree s'.heap) :
    let own := s'.heap.reach s'.root
    (∀ b ∈ own.ints, b < s.heap.ints.length) ∧ (∀ b ∈ own.parts, b < s.heap.parts.length) ∧
    (∀ b ∈ own.topics, b < s.heap.topics.length) := by
  obtain ⟨hroot, hts⟩ := hw
  simp only [Heap.reach, hr, ha.2.2 _ hroot]
  refine ⟨?_, ?_, ?_⟩
  · intro b hb
    simp only [List.mem_flatMap] at hb
    obtain ⟨p, ⟨t, ht, hp⟩, hb⟩ := hb
    rw [ha.2.1 _ (hts t ht).1] at hp
    obtain ⟨h1, h2, h3⟩ := (hts t ht).2 p hp
    simp only [List.mem_cons, List.not_mem_nil, or_false] at hb
    rcases hb with rfl | rfl | rfl <;> assumption
  · intro b hb
    simp only [List.mem_map] at hb
    obtain ⟨t, ht, rfl⟩ := hb
    exact (hts t ht).1
  · intro b hb
    simp only [List.mem_singleton] at hb
    subst hb
    exact hroot

/-- **reads return copies**: every buffer reachable from what `readCopy` hands out — the topics array,
every partitions array, every replica / ISR / offline array — is fresh: it is not reachable from the
store's state (for every well-formed store, however its lists are ordered or duplicated). -/
theorem _root_.KafVerif.C40.read_returns_fresh_buffers (s : HStore) (hw : s.WF) :
    let out := (readCopy s).1.heap.reach (readCopy s).2
    let own := (readCopy s).1.heap.reach (readCopy s).1.root
    (∀ b ∈ out.ints, b ∉ own.ints) ∧ (∀ b ∈ out.parts, b ∉ own.parts) ∧ (∀ b ∈ out.topics, b ∉ own.topics) := by
  obtain ⟨e, hr⟩ := readCopy_ext s
  obtain ⟨f1, f2, f3⟩ := readCopy_fresh s
  obtain ⟨o1, o2, o3⟩ := own_below s (readCopy s).1 hw hr e.agree
  refine ⟨fun b hb hm => ?_, fun b hb hm => ?_, fun b hb hm => ?_⟩
  · have := f1 b hb; have := o1 b hm; omega
  · have := f2 b hb; have := o2 b hm; omega
  · have := f3 b hb; have := o3 b hm; omega

/-- the copy itself leaves what the store holds unchanged, order included -/
theorem readCopy_view (s : HStore) (hw : s.WF) : (readCopy s).1.view = s.view :=
  view_eq_of_agree s _ hw (readCopy_ext s).2 (readCopy_ext s).1.agree

theorem handlerWrite_agree (h0 : Heap) (s' : HStore) (w : Write) (ha : h0.Agree s'.heap)
    (hfresh : w.above h0) :
    h0.Agree (handlerWrite s' w).heap ∧ (handlerWrite s' w).root = s'.root := by
  cases w with
  | ints b d =>
    refine ⟨⟨fun b' hb' => ?_, ha.2.1, ha.2.2⟩, rfl⟩
    simp only [Write.above] at hfresh
    simp only [handlerWrite]
    rw [getD_set_ne _ _ _ _ _ (by omega)]
    exact ha.1 b' hb'
  | parts b d =>
    refine ⟨⟨ha.1, fun b' hb' => ?_, ha.2.2⟩, rfl⟩
    simp only [Write.above] at hfresh
    simp only [handlerWrite]
    rw [getD_set_ne _ _ _ _ _ (by omega)]
    exact ha.2.1 b' hb'
  | topics b d =>
    refine ⟨⟨ha.1, ha.2.1, fun b' hb' => ?_⟩, rfl⟩
    simp only [Write.above] at hfresh
    simp only [handlerWrite]
    rw [getD_set_ne _ _ _ _ _ (by omega)]
    exact ha.2.2 b' hb'

/-- **C40 (aliasing).** Whatever a handler then writes into ANY buffer reachable from what a read handed
out — the returned topics array, any partitions array, any replica / ISR / offline array; sorting,
truncating, overwriting, any contents, any number of writes — what the store holds is unchanged: same
topics, same partition entries, same lists, same order at every level.
(References cannot be forged in Go: a handler only holds buffers reachable from what it was handed or ones it
allocated itself, so its write targets are drawn from that closure, which `read_returns_fresh_buffers` shows
to be disjoint from the store's.) -/
theorem _root_.KafVerif.C40.handler_writes_preserve_store (s : HStore) (hw : s.WF)
    (writes : List Write)
    (hret : ∀ w ∈ writes, w.inSet ((readCopy s).1.heap.reach (readCopy s).2)) :
    (writes.foldl handlerWrite (readCopy s).1).view = s.view := by
  obtain ⟨e, hr⟩ := readCopy_ext s
  obtain ⟨f1, f2, f3⟩ := readCopy_fresh s
  generalize (readCopy s).1.heap.reach (readCopy s).2 = out at hret f1 f2 f3
  suffices ∀ (s' : HStore), s'.root = s.root → s.heap.Agree s'.heap →
      (writes.foldl handlerWrite s').view = s.view from this _ hr e.agree
  induction writes with
  | nil => intro s' hr' ha; exact view_eq_of_agree s s' hw hr' ha
  | cons w t ih =>
    intro s' hr' ha
    simp only [List.foldl_cons]
    have hin := hret w List.mem_cons_self
    have hf : w.above s.heap := by
      cases w with
      | ints b d => exact f1 b hin
      | parts b d => exact f2 b hin
      | topics b d => exact f3 b hin
    obtain ⟨ha', hr''⟩ := handlerWrite_agree s.heap s' w ha hf
    exact ih (fun w' hw' => hret w' (List.mem_cons_of_mem _ hw')) _ (hr''.trans hr') ha'

/-- a store holding one topic whose partitions array is stored in the order 2,0,1 and whose first entry has
the replica list [2,0,1] -/
def hsample : HStore :=
  ⟨⟨[[2, 0, 1], [0]], [[⟨2, 2, 0, 0, 1⟩, ⟨0, 0, 1, 1, 1⟩, ⟨1, 0, 1, 1, 1⟩]], [[⟨7, 0, 0⟩]]⟩, 0⟩

theorem hsample_wf : hsample.WF := by
  refine ⟨by decide, ?_⟩
  intro t ht
  have : t = ⟨7, 0, 0⟩ := by simpa [hsample, List.getD] using ht
  subst this
  refine ⟨by decide, ?_⟩
  intro p hp
  have : p = ⟨2, 2, 0, 0, 1⟩ ∨ p = ⟨0, 0, 1, 1, 1⟩ ∨ p = ⟨1, 0, 1, 1, 1⟩ := by
    simpa [hsample, List.getD] using hp
  rcases this with rfl | rfl | rfl <;> decide

/-- without the deep clone the same handler write DOES change the store: a read that hands out the
store's topics BY VALUE (sharing their arrays) plus a handler that sorts a replica list it reached rewrites
the stored replica order (the shape of the seeded change C40-1; kept so a regression is recognised). -/
theorem _root_.KafVerif.C40.aliasing_read_breaks_store :
    ∃ (s : HStore) (w : Write), s.WF ∧ w.inSet ((readShallow s).1.heap.reach (readShallow s).2) ∧
      (handlerWrite (readShallow s).1 w).view ≠ s.view :=
  ⟨hsample, .ints 0 [0, 1, 2], hsample_wf, by decide, by decide⟩

/-- same one level up (the shape of the seeded change C40-r2-2): the by-value copy of a topic shares its
PARTITIONS array with the store, so a handler that sorts `topic.Partitions` by id reorders the store's own
partition entries (stored 2,0,1 → 0,1,2). -/
theorem _root_.KafVerif.C40.aliasing_partition_array_breaks_store :
    ∃ (s : HStore) (w : Write), s.WF ∧ w.inSet ((readShallow s).1.heap.reach (readShallow s).2) ∧
      (handlerWrite (readShallow s).1 w).view ≠ s.view ∧
      ((handlerWrite (readShallow s).1 w).view.map fun t => t.parts.map (·.id)) = [[0, 1, 2]] ∧
      (s.view.map fun t => t.parts.map (·.id)) = [[2, 0, 1]] :=
  ⟨hsample, .parts 0 [⟨0, 0, 1, 1, 1⟩, ⟨1, 0, 1, 1, 1⟩, ⟨2, 2, 0, 0, 1⟩], hsample_wf, by decide, by decide,
   by decide, by decide⟩

/-- non-vacuity of `handler_writes_preserve_store`: on the same store, after the cloning read the handler can
sort the partitions array AND the replica list it was handed (both are in the handed-out closure), and the
store still holds 2,0,1 / [2,0,1] -/
example :
    let ws : List Write := [.parts 1 [⟨0, 0, 1, 1, 1⟩, ⟨1, 0, 1, 1, 1⟩, ⟨2, 2, 0, 0, 1⟩], .ints 2 [0, 1, 2]]
    (∀ w ∈ ws, w.inSet ((readCopy hsample).1.heap.reach (readCopy hsample).2)) ∧
    (ws.foldl handlerWrite (readCopy hsample).1).view = hsample.view ∧
    (hsample.view.map fun t => t.parts.map (·.id)) = [[2, 0, 1]] := by
  refine ⟨?_, by decide, by decide⟩
  intro w hw
  simp only [List.mem_cons, List.not_mem_nil, or_false] at hw
  rcases hw with rfl | rfl <;> decide
example : ((readCopy hsample).1.heap.reach (readCopy hsample).2) = ⟨[2, 3, 4, 5, 6, 7, 8, 9, 10], [1], [1]⟩ := by decide

/-! ### non-vacuity: the handler models do read a populated store -/

def sample : Store :=
  runCalls (empty 2) [.createTopic 1 3, .createTopic 0 1, .commitConsumerOffset 1 1 0 42 3,
    .putConsumerGroup 1 ⟨0, 3, [2, 1]⟩, .updateTopicConfig 0 ⟨0, 5000⟩]

example : (runTool sample (.fetchOffsets (some 1) [])).2 =
    .offsets [(0, 0, 0, 0), (1, 0, 42, 3), (1, 1, 0, 0), (1, 2, 0, 0)] := by decide
example : (runTool sample (.describeConfigs [])).2 = .configs [(0, ⟨1, 5000⟩), (1, ⟨3, -1⟩)] := by decide
example : (runTool sample (.describeConfigs [0, 9])).2 = .error := by decide
example : (runTool sample (.describeGroup (some 1))).2 = .group 1 ⟨0, 3, [1, 2]⟩ := by decide
example : (runTool sample .listTopics).2 = .topics none [(0, 1, 0), (1, 3, 0)] := by decide
/-- stored replica order (non-ascending, with duplicates) is what describe_topics reports -/
example : (runTool { sample with layouts := [((0, 0), layoutOf 4 0)] } (.describeTopics [0])).2 =
    .topicDetails [(0, 0, [⟨0, [2, 2, 0], [1, 2, 0], []⟩])] := by decide

/-- a topic whose partitions array is stored in the order 2,0,1 (`ptopic`): describe_topics (canonical output:
by id) reads it, the stored order is part of the state that `runTool_preserves_state` shows unchanged, and
CreatePartitions appends ids from the current LENGTH -/
def psample : Store :=
  { sample with topics := sample.topics ++ [(2, 3)], partIds := [(2, [2, 0, 1])], layouts := [((2, 0), layoutOf 4 0)] }
example : (runTool psample (.describeTopics [2])).2 =
    .topicDetails [(2, 0, [⟨0, [0], [0], []⟩, ⟨1, [0], [0], []⟩, ⟨2, [2, 2, 0], [1, 2, 0], []⟩])] := by decide
example : (runTool psample (.describeTopics [2])).1.partIds = [(2, [2, 0, 1])] := by decide
example : (exec psample (.createPartitions 2 5)).partIds = [(2, [2, 0, 1, 3, 4])] := by decide

/-! ## etcd side of the reads (seeded miss C40-r3-2) -/

/-- read-only etcd operations leave the keyspace — keys, values AND revisions — untouched -/
theorem Kv.exec_readOnly (kv : Kv) (r : KvReq) (h : r.op.readOnly = true) : kv.exec r = kv := by
  cases r <;> first | rfl | (simp [KvReq.op, EtcdOp.readOnly] at h)

/-- **any sequence of read-only etcd operations, with any arguments, preserves the revisioned dump** -/
theorem _root_.KafVerif.C40.etcd_read_ops_preserve_keyspace (kv : Kv) (rs : List KvReq)
    (h : ∀ r ∈ rs, r.op.readOnly = true) : kv.run rs = kv := by
  induction rs generalizing kv with
  | nil => rfl
  | cons r t ih =>
    simp only [Kv.run, List.foldl_cons]
    rw [Kv.exec_readOnly kv r (h r List.mem_cons_self)]
    exact ih kv (fun r' hr' => h r' (List.mem_cons_of_mem _ hr'))

open KafVerif.Gen.C40 in
/-- **table obligation** (regenerated on every run from pkg/metadata/etcd_store.go): every Store method some registered
tool reaches is implemented by `EtcdStore`, issues only read-only etcd operations (through every EtcdStore method /
package function it reaches) and calls only read-only methods on its cached in-memory snapshot. -/
theorem _root_.KafVerif.C40.etcd_reads_issue_no_writes :
    ∀ t ∈ tools, ∀ m ∈ t.calls,
      (etcdMethods.filter fun f => f.method == m).length = 1 ∧
      ∀ f ∈ etcdMethods, f.method = m → (f.ops.all EtcdOp.readOnly = true ∧ ∀ i ∈ f.inner, i ∈ readOnly) := by decide

open KafVerif.Gen.C40 in
/-- the etcd table is not vacuous: all 15 methods are there, the mutators do show write operations, and the reads the
tools use do reach etcd (`Get`) -/
theorem _root_.KafVerif.C40.etcd_table_nonvacuous :
    etcdMethods.length = 15 ∧
    (etcdMethods.filter fun f => f.ops.any fun o => !o.readOnly).length ≥ 6 ∧
    (etcdMethods.filter fun f => f.method ∈ readOnly ∧ f.ops.contains .get).length ≥ 5 := by decide

/-- the lookup as it is issues one `Get`, whatever the record's age, so it preserves the keyspace (with revisions) -/
theorem _root_.KafVerif.C40.etcd_lookup_preserves_keyspace (decode : Nat → Option OffRec) (kv : Kv) (k now : Nat) :
    kv.run (lookupOffset decode kv k now).1 = kv := rfl

/-- `fetch_offsets` on the etcd store = lookups of any keys at any times: keyspace unchanged -/
theorem _root_.KafVerif.C40.etcd_fetch_offsets_preserves_keyspace (decode : Nat → Option OffRec) (kv : Kv)
    (ks : List (Nat × Nat)) :
    ks.foldl (fun s kt => s.run (lookupOffset decode s kt.1 kt.2).1) kv = kv := by
  induction ks with
  | nil => rfl
  | cons a t ih => simpa [List.foldl_cons, KafVerif.C40.etcd_lookup_preserves_keyspace] using ih

/-- a keyspace with one commit made at t = 100 (value 7 decodes to offset 42) -/
def kvSample : Kv := { rev := 5, entries := [{ key := 1, value := 7, modRev := 5, createRev := 3, version := 2 }] }
def decodeSample (v : Nat) : Option OffRec := if v = 7 then some ⟨42, some 100⟩ else none

/-- witness (shape of C40-r3-2): with lazy retention, a lookup long after the commit deletes the record; a lookup soon
after does not — which is why fresh commits never showed it -/
theorem _root_.KafVerif.C40.lazy_retention_lookup_changes_keyspace :
    kvSample.run (lookupOffsetLazy 604800 decodeSample kvSample 1 (100 + 604801)).1 ≠ kvSample ∧
    kvSample.run (lookupOffsetLazy 604800 decodeSample kvSample 1 (100 + 3600)).1 = kvSample := by decide

/-- witness for the monitor: rewriting a key with IDENTICAL bytes (read-repair / touch) leaves keys and values as they
were and still changes the revisioned dump — the before/after comparison must include revisions -/
theorem _root_.KafVerif.C40.rewrite_same_bytes_bumps_revision :
    (kvSample.put 1 7).plain = kvSample.plain ∧ kvSample.put 1 7 ≠ kvSample := by decide

/-- and in general: a `Put` always advances the store revision -/
theorem _root_.KafVerif.C40.put_changes_keyspace (kv : Kv) (k v : Nat) : kv.put k v ≠ kv := by
  intro h
  have : (kv.put k v).rev = kv.rev := by rw [h]
  unfold Kv.put at this
  split at this <;> simp at this

end KafVerif.Mcp
