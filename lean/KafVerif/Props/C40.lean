import KafVerif.Model.McpStore
import KafVerif.Gen.C40McpCalls
/-!
C40 — The ops MCP tools never change cluster state.

Statement (properties.jsonl): calling any tool of the ops MCP server, with any arguments, leaves the
topics, offsets, groups and configurations in the metadata store unchanged.

Shape: table obligation over facts regenerated from the source (`Gen/C40McpCalls.lean`: for every
registered tool the `metadata.Store` methods reachable from its handler) + a store model in which the
read-only methods are the identity and every other method provably is not.
-/
namespace KafVerif.Mcp

/-- **reads preserve state**: a call of a read-only method is the identity on the store state. -/
theorem _root_.KafVerif.C40.reads_preserve_state (s : Store) (c : Call) (h : c.method ∈ readOnly) :
    exec s c = s := by
  cases c <;> first | rfl | (exfalso; revert h; simp [Call.method, readOnly])

/-- any sequence of read-only calls, with any arguments, is the identity -/
theorem runCalls_readOnly (s : Store) (cs : List Call) (h : ∀ c ∈ cs, c.method ∈ readOnly) :
    runCalls s cs = s := by
  induction cs generalizing s with
  | nil => rfl
  | cons c t ih =>
    simp only [runCalls, List.foldl_cons]
    rw [KafVerif.C40.reads_preserve_state s c (h c List.mem_cons_self)]
    exact ih s (fun c' hc' => h c' (List.mem_cons_of_mem _ hc'))

open KafVerif.Gen.C40 in
/-- **table obligation** (regenerated on every run): every registered tool reaches only read-only
Store methods, and hands the store to nothing else. -/
theorem _root_.KafVerif.C40.tools_read_only :
    ∀ t ∈ tools, (∀ m ∈ t.calls, m ∈ readOnly) ∧ t.escapes = 0 := by decide

open KafVerif.Gen.C40 in
/-- the `Method` type of the model enumerates exactly the interface found in the source -/
theorem _root_.KafVerif.C40.interface_covered : (∀ m : Method, m ∈ storeMethods) ∧ storeMethods.length = 15 := by
  refine ⟨?_, by decide⟩
  intro m; cases m <;> decide

open KafVerif.Gen.C40 in
/-- the table is not empty and some tool does reach the store -/
theorem _root_.KafVerif.C40.tools_nonvacuous :
    1 ≤ tools.length ∧ (tools.filter fun t => !t.calls.isEmpty).length ≠ 0 := by decide

open KafVerif.Gen.C40 in
/-- **C40.** Whatever a registered tool does — any number of Store calls, in any order, with any
arguments, as long as they are calls of methods the extractor found reachable from its handler —
the store state afterwards equals the state before. -/
theorem _root_.KafVerif.C40.tool_calls_preserve_state (t : ToolFacts) (ht : t ∈ tools)
    (cs : List Call) (hcs : ∀ c ∈ cs, c.method ∈ t.calls) (s : Store) : runCalls s cs = s :=
  runCalls_readOnly s cs (fun c hc => (KafVerif.C40.tools_read_only t ht).1 _ (hcs c hc))

/-- the hand-written handler models (compared with the real tool outputs on every run) leave the
state unchanged for every store and every argument -/
theorem _root_.KafVerif.C40.runTool_preserves_state (s : Store) (tc : ToolCall) : (runTool s tc).1 = s := by
  cases tc with
  | clusterStatus => rfl
  | clusterMetrics => rfl
  | listTopics => rfl
  | describeTopics names => rfl
  | listGroups => rfl
  | describeGroup g =>
    cases g with
    | none => rfl
    | some g => simp only [runTool]; split <;> rfl
  | fetchOffsets g topics =>
    cases g with
    | none => rfl
    | some g =>
      simp only [runTool]
      apply runCalls_readOnly
      intro c hc
      simp only [List.mem_map] at hc
      obtain ⟨tp, _, rfl⟩ := hc
      simp [Call.method, readOnly]
  | describeConfigs topics =>
    have key : ∀ (s1 : Store) (names : List Nat), s1 = s →
        runCalls s1 (names.map fun t => Call.fetchTopicConfig t) = s := by
      intro s1 names e
      subst e
      apply runCalls_readOnly
      intro c hc
      simp only [List.mem_map] at hc
      obtain ⟨t, _, rfl⟩ := hc
      simp [Call.method, readOnly]
    simp only [runTool]
    split <;> split <;> exact key _ _ rfl

/-- **the read-only set cannot be enlarged**: every method outside it changes some store. -/
theorem _root_.KafVerif.C40.mutators_change_state (m : Method) (h : m ∉ readOnly) :
    ∃ (s : Store) (c : Call), c.method = m ∧ exec s c ≠ s := by
  cases m with
  | metadata => exact absurd (by decide) h
  | nextOffset => exact absurd (by decide) h
  | fetchConsumerOffset => exact absurd (by decide) h
  | listConsumerOffsets => exact absurd (by decide) h
  | fetchConsumerGroup => exact absurd (by decide) h
  | listConsumerGroups => exact absurd (by decide) h
  | fetchTopicConfig => exact absurd (by decide) h
  | updateOffsets => exact ⟨empty 1, .updateOffsets 0 0 5, rfl, by decide⟩
  | commitConsumerOffset => exact ⟨empty 1, .commitConsumerOffset 0 0 0 5 0, rfl, by decide⟩
  | putConsumerGroup => exact ⟨empty 1, .putConsumerGroup 0 ⟨0, 0, []⟩, rfl, by decide⟩
  | deleteConsumerGroup =>
    exact ⟨{ empty 1 with groups := [(0, ⟨0, 0, []⟩)] }, .deleteConsumerGroup 0, rfl, by decide⟩
  | updateTopicConfig =>
    exact ⟨{ empty 1 with topics := [(0, 1)] }, .updateTopicConfig 0 ⟨0, 7⟩, rfl, by decide⟩
  | createPartitions =>
    exact ⟨{ empty 1 with topics := [(0, 1)] }, .createPartitions 0 3, rfl, by decide⟩
  | createTopic => exact ⟨empty 1, .createTopic 0 2, rfl, by decide⟩
  | deleteTopic => exact ⟨{ empty 1 with topics := [(0, 1)] }, .deleteTopic 0, rfl, by decide⟩

/-! ### aliasing: reads hand out copies, never store-owned buffers -/

/-- every buffer id the store references exists in the heap -/
def HStore.WF (h : HStore) : Prop := ∀ b ∈ h.owned, b < h.heap.length

theorem getD_set_ne (heap : List (List Nat)) (b b' : Nat) (d : List Nat) (hne : b' ≠ b) :
    (heap.set b d).getD b' [] = heap.getD b' [] := by
  simp [List.getD, hne.symm]

/-- **reads return copies**: every buffer `readCopy` hands out is fresh — it is not one the store's
state references (for every well-formed store, however its lists are ordered or duplicated). -/
theorem _root_.KafVerif.C40.read_returns_fresh_buffers (h : HStore) (hw : h.WF) :
    ∀ b ∈ (readCopy h).2, b ∉ (readCopy h).1.owned := by
  intro b hb hm
  simp only [readCopy, List.mem_map, List.mem_range] at hb
  obtain ⟨i, _, rfl⟩ := hb
  have := hw _ hm
  omega

/-- the copy itself leaves what the store holds unchanged, order included -/
theorem readCopy_view (h : HStore) (hw : h.WF) : (readCopy h).1.view = h.view := by
  simp only [readCopy, HStore.view]
  apply List.map_congr_left
  intro b hb
  have := hw b hb
  simp [List.getD, List.getElem?_append_left this]

/-- **C40 (aliasing).** Whatever a handler then writes into ANY of the buffers a read handed out
(sorting, truncating, overwriting — any contents, any number of writes), what the store holds is
unchanged: same lists, same order. -/
theorem _root_.KafVerif.C40.handler_writes_preserve_store (h : HStore) (hw : h.WF)
    (writes : List (Nat × List Nat)) (hret : ∀ w ∈ writes, w.1 ∈ (readCopy h).2) :
    (writes.foldl (fun hs w => handlerWrite hs w.1 w.2) (readCopy h).1).view = h.view := by
  have hfresh := KafVerif.C40.read_returns_fresh_buffers h hw
  rw [← readCopy_view h hw]
  generalize hr : readCopy h = r at hfresh hret
  obtain ⟨h1, ret⟩ := r
  simp only at hfresh hret ⊢
  suffices ∀ (hs : HStore), hs.owned = h1.owned → hs.view = h1.view →
      (writes.foldl (fun hs w => handlerWrite hs w.1 w.2) hs).view = h1.view from this h1 rfl rfl
  induction writes with
  | nil => intro hs _ hv; exact hv
  | cons w t ih =>
    intro hs ho hv
    simp only [List.foldl_cons]
    apply ih (fun w' hw' => hret w' (List.mem_cons_of_mem _ hw'))
    · simpa [handlerWrite] using ho
    · rw [← hv]
      simp only [handlerWrite, HStore.view]
      apply List.map_congr_left
      intro b hb
      have hne : b ≠ w.1 := by
        intro e
        have h1' := hret w List.mem_cons_self
        rw [← e] at h1'
        rw [ho] at hb
        exact hfresh b h1' hb
      exact getD_set_ne hs.heap w.1 b w.2 hne

/-- without the deep clone the same handler write DOES change the store: a read that hands out the
store's own buffers plus a handler that sorts its argument rewrites the stored replica order
(the shape of the seeded change C40-1; kept so a regression is recognised). -/
theorem _root_.KafVerif.C40.aliasing_read_breaks_store :
    ∃ (h : HStore) (b : Nat) (d : List Nat), h.WF ∧ b ∈ (readAlias h).2 ∧
      (handlerWrite (readAlias h).1 b d).view ≠ h.view := by
  refine ⟨⟨[[2, 0, 1]], [0]⟩, 0, [0, 1, 2], ?_, by decide, by decide⟩
  intro b hb
  simp at hb
  subst hb
  decide

/-! ### non-vacuity: the handler models do read a populated store -/

def sample : Store :=
  runCalls (empty 2) [.createTopic 1 3, .createTopic 0 1, .commitConsumerOffset 1 1 0 42 3,
    .putConsumerGroup 1 ⟨0, 3, [2, 1]⟩, .updateTopicConfig 0 ⟨0, 5000⟩]

example : (runTool sample (.fetchOffsets (some 1) [])).2 =
    .offsets [(0, 0, 0, 0), (1, 0, 42, 3), (1, 1, 0, 0), (1, 2, 0, 0)] := by decide
example : (runTool sample (.describeConfigs [])).2 = .configs [(0, ⟨1, 5000⟩), (1, ⟨3, -1⟩)] := by decide
example : (runTool sample (.describeConfigs [0, 9])).2 = .error := by decide
example : (runTool sample (.describeGroup (some 1))).2 = .group 1 ⟨0, 3, [1, 2]⟩ := by decide
example : (runTool sample .listTopics).2 = .topics none [(0, 1, 0), (1, 3, 0)] := by decide
/-- stored replica order (non-ascending, with duplicates) is what describe_topics reports -/
example : (runTool { sample with layouts := [((0, 0), layoutOf 4 0)] } (.describeTopics [0])).2 =
    .topicDetails [(0, 0, [⟨0, [2, 2, 0], [1, 2, 0], []⟩])] := by decide

end KafVerif.Mcp
