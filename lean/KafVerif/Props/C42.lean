import KafVerif.Model.OperatorMutate
import KafVerif.Gen.C42Mutate
/-!
C42 — Operator reconciliation is idempotent.  (PARTIAL: the theorems are about the IR that the
go/ast translator regenerates from `pkg/operator/*.go` on every run; the translator is trusted and
validated by the write-coverage tie, the API server is controller-runtime's fake client.)

Statement (properties.jsonl): reconciling the same cluster resource again without changes leaves
every generated Kubernetes object unchanged; the rendered objects depend only on the cluster
resource and the operator's environment.

Full statement (not proved, kept for reference):
  `∀ cluster env apiServerState, objects (reconcile (reconcile s)) = objects (reconcile s)` for the Go
  code and a real API server (defaulting, admission, server-side apply).
Proved: `run env p (run env p o) = run env p o` for every program `p` of the fragment, every
environment and every object, and `inFragment` for every closure found in the source.
-/
namespace KafVerif.Operator

/-- a partial constant map laid over an object -/
def overlay (W : List Nat → Option Nat) (o : Obj) : Obj := fun q => (W q).getD (o q)

theorem write_overlay (p : List Nat) (f : List Nat → Nat) (W : List Nat → Option Nat) (o : Obj) :
    write p f (overlay W o) = overlay (fun q => if p.isPrefixOf q then some (f q) else W q) o := by
  funext q
  simp only [write, overlay]
  split <;> simp

theorem isPrefixOf_self (p : List Nat) : p.isPrefixOf p = true := by
  induction p with
  | nil => rfl
  | cons a t ih => simp [List.isPrefixOf, ih]

/-- every atom of the fragment is a constant write (or nothing): its effect does not read the object -/
theorem exec_overlay (env : Env) (a : Atom) (h : atomOk a = true) (W : List Nat → Option Nat) :
    ∃ W', ∀ o, exec env a (overlay W o) = overlay W' o := by
  cases a with
  | assign p e => exact ⟨_, fun o => write_overlay p (env.val e) W o⟩
  | assignDefault p e d =>
    by_cases hz : env.val e p = 0
    · refine ⟨fun q => if p.isPrefixOf q then some (env.val d q) else
          (fun q => if p.isPrefixOf q then some (env.val e q) else W q) q, fun o => ?_⟩
      simp only [exec]
      have h1 : write p (env.val e) (overlay W o) p = 0 := by simp [write, isPrefixOf_self, hz]
      simp only [h1, if_true]
      rw [write_overlay, write_overlay]
    · refine ⟨fun q => if p.isPrefixOf q then some (env.val e q) else W q, fun o => ?_⟩
      simp only [exec]
      have h1 : ¬ write p (env.val e) (overlay W o) p = 0 := by simp [write, isPrefixOf_self, hz]
      simp only [h1, if_false]
      rw [write_overlay]
  | defaultIfZero p d => simp [atomOk] at h
  | setOwnerRef => exact ⟨_, fun o => write_overlay ownerPath env.owner W o⟩
  | skip => exact ⟨W, fun o => rfl⟩
  | other id => simp [atomOk] at h

theorem run_overlay (env : Env) (prog : List GStmt) (h : inFragment prog = true) (W : List Nat → Option Nat) :
    ∃ W', ∀ o, run env prog (overlay W o) = overlay W' o := by
  induction prog generalizing W with
  | nil => exact ⟨W, fun o => rfl⟩
  | cons g t ih =>
    simp only [inFragment, List.all_cons, Bool.and_eq_true] at h
    have ht : inFragment t = true := by simpa [inFragment] using h.2
    by_cases hen : enabled env g = true
    · obtain ⟨W1, h1⟩ := exec_overlay env g.atom h.1 W
      obtain ⟨W2, h2⟩ := ih ht W1
      refine ⟨W2, fun o => ?_⟩
      simp only [run, List.foldl_cons, stepG, hen, if_true]
      rw [h1 o]
      exact h2 o
    · obtain ⟨W2, h2⟩ := ih ht W
      refine ⟨W2, fun o => ?_⟩
      simp only [run, List.foldl_cons, stepG, hen]
      exact h2 o

theorem overlay_none (o : Obj) : overlay (fun _ => none) o = o := by
  funext q; simp [overlay]

theorem overlay_idem (W : List Nat → Option Nat) (o : Obj) : overlay W (overlay W o) = overlay W o := by
  funext q
  simp only [overlay]
  cases W q <;> simp

/-- **C42 (IR).** A mutate program of the fragment is idempotent: for every environment (cluster
resource + operator environment) and every object, running it on its own result changes nothing. -/
theorem _root_.KafVerif.C42.fragment_idempotent (prog : List GStmt) (h : inFragment prog = true)
    (env : Env) (o : Obj) : run env prog (run env prog o) = run env prog o := by
  obtain ⟨W, hW⟩ := run_overlay env prog h (fun _ => none)
  have e : ∀ o, run env prog o = overlay W o := fun o => by
    have := hW o; rwa [overlay_none] at this
  rw [e o, e (overlay W o), overlay_idem]

/-- **rendering depends only on (cluster, env)**: there is a constant partial map `W`, determined by
the program and the environment alone, such that the result is `W` laid over the existing object —
every field the closure writes ends with the same value whatever the object held before (drift is
corrected), every other field is untouched. -/
theorem _root_.KafVerif.C42.written_fields_independent_of_existing_object (prog : List GStmt)
    (h : inFragment prog = true) (env : Env) :
    ∃ W : List Nat → Option Nat, ∀ o q, run env prog o q = (W q).getD (o q) := by
  obtain ⟨W, hW⟩ := run_overlay env prog h (fun _ => none)
  refine ⟨W, fun o q => ?_⟩
  have := hW o
  rw [overlay_none] at this
  rw [this]; rfl

open KafVerif.Gen.C42 in
/-- **table obligation** (regenerated on every run): every CreateOrUpdate mutate closure found in
pkg/operator translates into the fragment — no statement that reads the object it mutates, no
append-to-own-field, no unclassified use of the object. -/
theorem _root_.KafVerif.C42.closures_in_fragment : ∀ c ∈ closures, inFragment c.prog = true := by decide

open KafVerif.Gen.C42 in
/-- **table obligation**: the code reachable from the closures inside pkg/operator calls no clock /
random source and does not feed a slice from a map iteration. -/
theorem _root_.KafVerif.C42.renders_pure : ∀ c ∈ closures, c.impure = 0 := by decide

open KafVerif.Gen.C42 in
/-- hence every closure found in the source is idempotent **as translated** (partial: IR, not Go) -/
theorem _root_.KafVerif.C42.closures_idempotent_partial (c : Closure) (hc : c ∈ closures) (env : Env) (o : Obj) :
    run env c.prog (run env c.prog o) = run env c.prog o :=
  KafVerif.C42.fragment_idempotent c.prog (KafVerif.C42.closures_in_fragment c hc) env o

/-- outside the fragment idempotence really can fail: an `append`-to-own-field statement (which the
translator classifies as `other`) grows the object on every reconcile. -/
theorem _root_.KafVerif.C42.unclassified_can_break_idempotence :
    ∃ (prog : List GStmt) (env : Env) (o : Obj), run env prog (run env prog o) ≠ run env prog o := by
  refine ⟨[⟨[], .other 0⟩], ⟨fun _ => true, fun _ _ => 0, fun _ => 0, fun _ o => fun q => o q + 1⟩, fun _ => 0, ?_⟩
  intro h
  have := congrFun h []
  simp [run, stepG, enabled, exec] at this

open KafVerif.Gen.C42 in
/-- the table is not empty and the closures do write fields -/
theorem _root_.KafVerif.C42.closures_nonvacuous :
    1 ≤ closures.length ∧ ∀ c ∈ closures, 1 ≤ (writes c.prog).length := by decide

/-! ### names of distinct owned objects are distinct -/

open KafVerif.Gen.C42 in
/-- **table obligation** (regenerated on every run): within every object kind, the Name expressions of
the CreateOrUpdate sites are all `cluster.Name ++ literal suffix` with pairwise different suffixes. -/
theorem _root_.KafVerif.C42.owned_names_table_ok : namesOk nameSites := by decide

theorem namesOk_injective (t : List NameSite) (h : namesOk t) :
    t.Pairwise fun a b => a.kind = b.kind →
      ∀ n : List Nat, ∃ x y, renderName n a.form = some x ∧ renderName n b.form = some y ∧ x ≠ y := by
  refine List.Pairwise.imp ?_ h
  intro a b hab hk n
  have hd := hab hk
  cases ha : a.form with
  | other => simp [ha, distinctSuffix] at hd
  | concat s1 =>
    cases hb : b.form with
    | other => simp [ha, hb, distinctSuffix] at hd
    | concat s2 =>
      refine ⟨n ++ s1, n ++ s2, rfl, rfl, ?_⟩
      intro he
      have := List.append_cancel_left he
      simp [ha, hb, distinctSuffix, this] at hd

open KafVerif.Gen.C42 in
/-- **C42 (names).** For EVERY cluster name, two different CreateOrUpdate sites of the same kind name
two different objects — so no two mutate closures ever fight over one object (which would rewrite it on
every reconcile), and the number of owned objects does not depend on the cluster name. -/
theorem _root_.KafVerif.C42.owned_names_injective :
    nameSites.Pairwise fun a b => a.kind = b.kind →
      ∀ n : List Nat, ∃ x y, renderName n a.form = some x ∧ renderName n b.form = some y ∧ x ≠ y :=
  namesOk_injective nameSites KafVerif.C42.owned_names_table_ok

/-- why `other` is refused: a helper that cuts `<name>-etcd-maintenance` / `<name>-etcd-maintenance-check`
to 52 bytes gives both sites the same name for a 35-byte cluster name and not for a 34-byte one (with an
additional TrimRight "-", as in the seeded change C42-r3-2, already for 34 bytes). -/
theorem _root_.KafVerif.C42.cut_names_can_collide :
    let m := [45, 101, 116, 99, 100, 45, 109, 97, 105, 110, 116, 101, 110, 97, 110, 99, 101]   -- "-etcd-maintenance"
    let k := m ++ [45, 99, 104, 101, 99, 107]                                                   -- "-etcd-maintenance-check"
    cutName 52 (List.replicate 35 97) m = cutName 52 (List.replicate 35 97) k ∧
    cutName 52 (List.replicate 34 97) m ≠ cutName 52 (List.replicate 34 97) k := by decide

example : namesOk [⟨0, 1, .concat [45, 97]⟩, ⟨1, 1, .concat [45, 98]⟩, ⟨2, 2, .concat [45, 97]⟩] := by decide
example : ¬ namesOk [⟨0, 1, .concat [45, 97]⟩, ⟨1, 1, .other⟩] := by decide
example : ¬ namesOk [⟨0, 1, .concat [45, 97]⟩, ⟨1, 1, .concat [45, 97]⟩] := by decide

/-! ### non-vacuity of the semantics: a guarded assign-then-default program really changes an object -/

def demoEnv : Env := ⟨fun c => c == 1, fun e p => if e == 3 then 0 else e * 10 + p.length, fun _ => 7, fun _ o => o⟩
def demoProg : List GStmt := [⟨[], .assign [1, 2] 5⟩, ⟨[], .assignDefault [1, 11] 3 4⟩, ⟨[(1, true)], .assign [12, 13] 6⟩,
  ⟨[(2, true)], .assign [1, 14] 8⟩, ⟨[], .setOwnerRef⟩]
example : run demoEnv demoProg (fun _ => 1) [1, 2] = 52 := by decide
example : run demoEnv demoProg (fun _ => 1) [1, 11] = 42 := by decide      -- the default was applied
example : run demoEnv demoProg (fun _ => 1) [1, 14] = 1 := by decide       -- guard false: untouched
example : run demoEnv demoProg (fun _ => 1) [0] = 7 := by decide
example : inFragment demoProg = true := by decide

end KafVerif.Operator
