import KafVerif.Model.S3Health
/-!
C25 — Unhealthy S3 rejects produce and fetch with backpressure errors.

Statement: while the broker rates S3 degraded or unavailable, it acknowledges no produce and returns no
fetch data; each affected partition gets a retriable error.  The health rating depends only on the recent
error rate and latency within the window, and higher error rates or latencies never give a better rating.

Theorems (every threshold configuration incl. `warn > crit`, every sample history):
* `rating_mono`          higher (avg latency, error rate) never gives a better rating
* `rating_window_only`   the rating is a function of the multiset of in-window samples
* `truncate_eq_filter`   on a time-ordered history `truncateLocked` keeps exactly the in-window samples
* `empty_healthy`, `record_bounded`
* `gate_produce`, `gate_fetch`, `gate_code_degraded_retriable`
* `gate_code_unavailable_not_retriable` — the code sent while *unavailable* is UNKNOWN_SERVER_ERROR (−1), which
  Kafka's error table marks NOT retriable: the "retriable" clause fails in that state (known finding, see notes).
-/
namespace KafVerif.S3Health

theorem frac_mono {k n k' n' N D : Nat} (hn : 0 < n) (h : k * D ≥ N * n) (hle : k * n' ≤ k' * n) :
    k' * D ≥ N * n' := by
  -- (k'·D)·n = (k'·n)·D ≥ (k·n')·D = (k·D)·n' ≥ (N·n)·n' = (N·n')·n
  have h1 : k' * n * D ≥ k * n' * D := Nat.mul_le_mul_right D hle
  have h2 : k * D * n' ≥ N * n * n' := Nat.mul_le_mul_right n' h
  have h3 : (k' * D) * n ≥ (N * n') * n := by
    calc (N * n') * n = N * n * n' := by rw [Nat.mul_assoc, Nat.mul_comm n' n, ← Nat.mul_assoc]
      _ ≤ k * D * n' := h2
      _ = k * n' * D := by rw [Nat.mul_assoc, Nat.mul_comm D n', ← Nat.mul_assoc]
      _ ≤ k' * n * D := h1
      _ = (k' * D) * n := by rw [Nat.mul_assoc, Nat.mul_comm n D, ← Nat.mul_assoc]
  exact Nat.le_of_mul_le_mul_right h3 hn

theorem perm_sum {l1 l2 : List Int} (h : l1.Perm l2) : l1.sum = l2.sum := by
  induction h with
  | nil => rfl
  | cons a _ ih => simp [ih]
  | swap a b l => simp only [List.sum_cons]; omega
  | trans _ _ ih1 ih2 => exact ih1.trans ih2

theorem perm_total {l1 l2 : List Sample} (h : l1.Perm l2) : total l1 = total l2 := by
  unfold total
  exact perm_sum (h.map _)

theorem perm_errors {l1 l2 : List Sample} (h : l1.Perm l2) : errors l1 = errors l2 := by
  unfold errors
  exact (h.filter _).length_eq

theorem perm_recompute (c : Cfg) {l1 l2 : List Sample} (h : l1.Perm l2) : recompute c l1 = recompute c l2 := by
  unfold recompute avgOf
  have hl := h.length_eq
  have he : l1.isEmpty = l2.isEmpty := by
    cases l1 <;> cases l2 <;> simp_all
  rw [he, perm_total h, perm_errors h, hl]

/-- time-ordered: every sample is at least as new as all samples before it -/
def Sorted : List Sample → Prop
  | [] => True
  | a :: t => (∀ b ∈ t, a.ts ≤ b.ts) ∧ Sorted t

theorem truncate_filter (w now : Int) (l : List Sample) (h : Sorted l) :
    truncate w now l = l.filter fun s => decide (now - w < s.ts) := by
  induction l with
  | nil => rfl
  | cons a t ih =>
    obtain ⟨ha, ht⟩ := h
    unfold truncate
    by_cases hc : a.ts ≤ now - w
    · have hd : decide (a.ts ≤ now - w) = true := by simpa using hc
      have hf : decide (now - w < a.ts) = false := by simp; omega
      simp only [List.dropWhile_cons, hd, if_true, List.filter_cons, hf]
      exact ih ht
    · have hd : ¬ (decide (a.ts ≤ now - w) = true) := by simpa using hc
      simp only [List.dropWhile_cons, hd, if_false]
      have hall : ∀ b ∈ a :: t, decide (now - w < b.ts) = true := by
        intro b hb
        rcases List.mem_cons.mp hb with rfl | hb
        · simp; omega
        · have := ha b hb; simp; omega
      exact (List.filter_eq_self.mpr hall).symm

end KafVerif.S3Health

namespace KafVerif.C25
open KafVerif KafVerif.S3Health

/-- (b) Monotone rating: for EVERY threshold configuration (positive denominators; also `warn > crit`),
a pointwise higher average latency and error rate (`k/n ≤ k'/n'`) never yields a better state. -/
theorem rating_mono (c : Cfg) (avg avg' : Int) (k n k' n' : Nat) (hn : 0 < n)
    (hlat : avg ≤ avg') (hrate : k * n' ≤ k' * n) :
    (rate c avg k n).rank ≤ (rate c avg' k' n').rank := by
  unfold rate
  by_cases h1 : avg ≥ c.latCrit ∨ k * c.errCritDen ≥ c.errCritNum * n
  · have h1' : avg' ≥ c.latCrit ∨ k' * c.errCritDen ≥ c.errCritNum * n' := by
      rcases h1 with h | h
      · left; omega
      · right; exact frac_mono hn h hrate
    simp [h1, h1', HState.rank]
  · simp only [h1, if_false]
    by_cases h2 : avg ≥ c.latWarn ∨ k * c.errWarnDen ≥ c.errWarnNum * n
    · have h2' : avg' ≥ c.latWarn ∨ k' * c.errWarnDen ≥ c.errWarnNum * n' := by
        rcases h2 with h | h
        · left; omega
        · right; exact frac_mono hn h hrate
      simp only [h2, if_true]
      split
      · simp [HState.rank]
      · simp [h2', HState.rank]
    · simp only [h2, if_false]
      simp [HState.rank]

/-- (a1) On a time-ordered history (timestamps come from a monotonic clock) `truncateLocked` keeps exactly
the samples inside the window `(now − window, now]`. -/
theorem truncate_eq_filter (w now : Int) (l : List Sample) (h : Sorted l) :
    truncate w now l = l.filter fun s => decide (now - w < s.ts) := truncate_filter w now l h

/-- (a2) The rating depends only on the in-window samples: two time-ordered histories whose in-window
samples are the same multiset get the same rating (whatever happened before the window, in whatever order). -/
theorem rating_window_only (m1 m2 : Mon) (now : Int) (hc : m1.cfg = m2.cfg)
    (h1 : Sorted m1.samples) (h2 : Sorted m2.samples)
    (hp : (m1.samples.filter fun s => decide (now - m1.cfg.window < s.ts)).Perm
          (m2.samples.filter fun s => decide (now - m1.cfg.window < s.ts))) :
    (observe m1 now).2 = (observe m2 now).2 := by
  unfold observe
  simp only
  rw [truncate_filter _ _ _ h1, truncate_filter _ _ _ h2, ← hc]
  exact perm_recompute _ hp

/-- no samples in the window ⇒ healthy -/
theorem empty_healthy (c : Cfg) : recompute c [] = .healthy := rfl

/-- `RecordOperation` never keeps more than `MaxSamples` samples. -/
theorem record_bounded (m : Mon) (now lat : Int) (err : Bool) (hm : 0 < m.cfg.maxSamples) :
    ((record m now lat err).samples.length : Int) ≤ m.cfg.maxSamples := by
  unfold record truncate
  simp only
  have hdw : ∀ (l : List Sample) (p : Sample → Bool), (l.dropWhile p).length ≤ l.length := by
    intro l p
    induction l with
    | nil => simp
    | cons a t ih => simp only [List.dropWhile_cons]; split <;> simp <;> omega
  split
  · rename_i h
    have := hdw ((m.samples ++ [({ ts := now, lat := lat, err := err } : Sample)]).drop ((m.samples ++ [({ ts := now, lat := lat, err := err } : Sample)]).length - m.cfg.maxSamples.toNat)) (fun s => decide (s.ts ≤ now - m.cfg.window))
    simp only [List.length_drop] at this
    omega
  · rename_i h
    have := hdw (m.samples ++ [({ ts := now, lat := lat, err := err } : Sample)]) (fun s => decide (s.ts ≤ now - m.cfg.window))
    omega

/-- (c1) While S3 is rated degraded or unavailable no produce partition reaches `AppendBatch`, and each
gets the backpressure code. -/
theorem gate_produce (st : HState) (appendCode : Int) (h : st ≠ .healthy) :
    produceGate st appendCode = (backpressureCode st, false) := by
  simp [produceGate, h]

/-- (c2) … and every fetch partition gets the backpressure code and an empty record set. -/
theorem gate_fetch (st : HState) (readCode : Int) (records : Bytes) (h : st ≠ .healthy) :
    fetchGate st readCode records = (backpressureCode st, []) := by
  cases st <;> simp_all [fetchGate]

/-- (c3) degraded ⇒ the code is retriable. -/
theorem gate_code_degraded_retriable : retriable (backpressureCode .degraded) = true := by decide

/-- (c4) unavailable ⇒ UNKNOWN_SERVER_ERROR, which is NOT retriable — the code as it is violates the
"retriable error" clause in this state (existing tests pin the code; recorded as a known finding). -/
theorem gate_code_unavailable_not_retriable : retriable (backpressureCode .unavailable) = false := by decide

/-- (c5) Within one multi-partition produce the gate is evaluated per partition against the CURRENT rating: every
partition that is acknowledged (code 0) or even appended saw the rating `healthy` at its own gate evaluation — for every
rating function and every pattern of upload failures during the request. -/
theorem ack_saw_healthy (rating : List Bool → HState) (hist parts : List Bool) :
    ∀ o ∈ produceLoop rating hist parts, (o.code = 0 ∨ o.appended = true) → o.sawState = .healthy := by
  induction parts generalizing hist with
  | nil => simp [produceLoop]
  | cons f rest ih =>
    intro o ho hc
    unfold produceLoop at ho
    by_cases hst : rating hist = .healthy
    · simp only [hst, if_true, List.mem_cons] at ho
      rcases ho with rfl | ho
      · rfl
      · exact ih (hist ++ [f]) o ho hc
    · simp only [hst, if_false, List.mem_cons] at ho
      rcases ho with rfl | ho
      · rcases hc with hc | hc
        · simp only at hc
          cases hr : rating hist <;> simp_all [backpressureCode]
        · simp at hc
      · exact ih hist o ho hc

/-- … and once the rating has left `healthy`, no later partition of the same request is appended. -/
theorem unhealthy_rest_rejected (rating : List Bool → HState) (hist parts : List Bool)
    (h : rating hist ≠ .healthy) : ∀ o ∈ produceLoop rating hist parts, o.appended = false ∧ o.code ≠ 0 := by
  induction parts with
  | nil => simp [produceLoop]
  | cons f rest ih =>
    intro o ho
    unfold produceLoop at ho
    have h' : ¬ (rating hist = .healthy) := h
    simp only [h', if_false, List.mem_cons] at ho
    rcases ho with rfl | ho
    · refine ⟨rfl, ?_⟩
      cases hr : rating hist <;> simp_all [backpressureCode]
    · exact ih o ho

/-- (c6) Reading the rating once per request violates this: with "any failure ⇒ unavailable", a failing first partition
is followed by an acknowledged, appended second partition although the rating is already unavailable. -/
theorem once_per_request_violates :
    ∃ (rating : List Bool → HState) (parts : List Bool),
      ∃ o ∈ produceLoopOnce rating [] parts, o.code = 0 ∧ o.appended = true ∧ o.sawState = .unavailable :=
  ⟨fun h => if h.any id then .unavailable else .healthy, [true, false],
   ⟨0, true, .unavailable⟩, by decide, rfl, rfl, rfl⟩

/-! non-vacuity -/
example : (produceLoop (fun h => if h.any id then .unavailable else .healthy) [] [false, true, false]).map (fun o => (o.code, o.appended))
    = [(0, true), (-1, true), (-1, false)] := by decide

example : (rate { window := 60000, latWarn := 500, latCrit := 3000, errWarnNum := 1, errWarnDen := 5, errCritNum := 3, errCritDen := 5, maxSamples := 512 } 100 1 5).rank
    ≤ (rate { window := 60000, latWarn := 500, latCrit := 3000, errWarnNum := 1, errWarnDen := 5, errCritNum := 3, errCritDen := 5, maxSamples := 512 } 100 3 5).rank := by decide
example : rate { window := 60000, latWarn := 500, latCrit := 3000, errWarnNum := 1, errWarnDen := 5, errCritNum := 3, errCritDen := 5, maxSamples := 512 } 100 1 5 = .degraded := by decide
example : Sorted [{ ts := 1, lat := 5, err := false }, { ts := 1, lat := 7, err := true }, { ts := 9, lat := 1, err := false }] := by
  simp [Sorted]
example : produceGate .degraded 0 = (7, false) := by decide

end KafVerif.C25
