import KafVerif.Lemmas.GroupSorted
/-!
C12 — A completed rebalance assigns each partition to exactly one subscriber.

Statement (properties.jsonl): whenever members of a consumer group receive their assignments
after a rebalance, each partition of each subscribed topic goes to exactly one current member
that subscribes to that topic; no member receives a partition of a topic it did not subscribe
to; all members of one generation see one consistent assignment.

The theorems are about `KafVerif.Group` (model of pkg/broker/coordinator.go):
`assignPartitions` for EVERY member map / metadata / metadata-failure flag, and the sync step.
-/
namespace KafVerif.Group
open Group

/-- **C12 (exactly one subscriber).** For every member map `ms`, every topic metadata `tm` whose
partition lists are duplicate-free, every topic `t` that at least one member subscribes to and
every partition `p` of `t` (as `collectTopicPartitions` sees it: sorted ids, `[0]` for an unknown /
empty topic or a failed metadata call): there is a member that owns `(t, p)` in the computed
assignment, it is a member of the group and subscribes to `t`, and every member that owns `(t, p)`
is that member. -/
theorem _root_.KafVerif.C12.assign_exact (ms : List (Nat × Member)) (tm : List (Nat × List Nat)) (mf : Bool)
    (hmeta : ∀ t ps, lookup tm t = some ps → ps.Nodup)
    (t p : Nat) (hsub : ∃ e ∈ ms, t ∈ e.2.topics) (hp : p ∈ partsOf tm mf t) :
    ∃ m, (∃ a, (m, a) ∈ assignPartitions ms tm mf ∧ owns a t p)
       ∧ (∃ mem, (m, mem) ∈ ms ∧ t ∈ mem.topics)
       ∧ ∀ m' a', (m', a') ∈ assignPartitions ms tm mf → owns a' t p → m' = m := by
  obtain ⟨e, he, het⟩ := hsub
  have hne : eligible ms t ≠ [] := by
    intro h
    have : e.1 ∈ eligible ms t := mem_eligible.mpr ⟨e.2, he, het⟩
    rw [h] at this; simp at this
  obtain ⟨m, hm⟩ := rrFrom_covers (elig := eligible ms t) (i := 0) hp
  have hmel : m ∈ eligible ms t := rrFrom_fst_mem hne hm
  obtain ⟨mem, hmem, hmt⟩ := mem_eligible.mp hmel
  have hpf : p ∈ partsFor ms tm mf m t := mem_partsFor.mpr ⟨hne, hm⟩
  refine ⟨m, ⟨assignFor ms tm mf m, ?_, owns_assignFor.mpr hpf⟩, ⟨mem, hmem, hmt⟩, ?_⟩
  · exact mem_assignPartitions.mpr ⟨List.mem_map.mpr ⟨(m, mem), hmem, rfl⟩, rfl⟩
  · intro m' a' ha' ho
    obtain ⟨_, rfl⟩ := mem_assignPartitions.mp ha'
    have hp' := (mem_partsFor.mp (owns_assignFor.mp ho)).2
    exact rrFrom_unique (partsOf_nodup (hmeta t)) hp' hm

/-- **C12 (no foreign topic).** Whatever the metadata says: a member only ever owns partitions of a
topic it subscribes to, and only partitions the topic has. -/
theorem _root_.KafVerif.C12.no_foreign_topic (ms : List (Nat × Member)) (tm : List (Nat × List Nat)) (mf : Bool)
    (m : Nat) (a : Asg) (t p : Nat) (ha : (m, a) ∈ assignPartitions ms tm mf) (ho : owns a t p) :
    (∃ mem, (m, mem) ∈ ms ∧ t ∈ mem.topics) ∧ p ∈ partsOf tm mf t := by
  obtain ⟨_, rfl⟩ := mem_assignPartitions.mp ha
  obtain ⟨hne, hrr⟩ := mem_partsFor.mp (owns_assignFor.mp ho)
  exact ⟨mem_eligible.mp (rrFrom_fst_mem hne hrr), rrFrom_snd_mem hrr⟩

/-- **C12 (domain).** The assignment map has exactly one entry per current member. -/
theorem _root_.KafVerif.C12.assign_only_members (ms : List (Nat × Member)) (tm : List (Nat × List Nat)) (mf : Bool) :
    keys (assignPartitions ms tm mf) = keys ms := by
  simp [assignPartitions, keys, List.map_map, Function.comp_def]

theorem syncFinish_reply (v : Variant) (s s' : State) (g : Nat) (st : Group) (mid : Nat) (a : Asg)
    (h : syncFinish v s g st mid = (s', .sync NONE a)) :
    lookup s'.groups g = some st ∧ a = asgOf st mid := by
  unfold syncFinish at h
  simp only at h
  split at h
  · simp only [Prod.mk.injEq, Reply.sync.injEq] at h
    exact absurd h.2.1 (by decide)
  · simp only [Prod.mk.injEq, Reply.sync.injEq] at h
    obtain ⟨hs, _, ha⟩ := h
    refine ⟨?_, ha.symm⟩
    rw [← hs, persist_groups]; simp [setGroup, lookup_insert]

/-- **C12 (one consistent assignment).** Every successful SyncGroup answer is the entry of the
requesting member in the group's stored assignment map: the group is Stable after the request, the
member is a current member, the generation is the group's, and the reply is `assignments[member]`
of that state — computed once, by the leader's sync, with `assignPartitions`. -/
theorem _root_.KafVerif.C12.sync_reply_is_assignment (v : Variant) (s s' : State) (g mid : Nat) (gen : Int) (a : Asg)
    (h : sync v s g mid gen = (s', .sync NONE a)) :
    ∃ st, lookup s'.groups g = some st ∧ a = asgOf st mid ∧ (lookup st.members mid).isSome ∧ gen = st.gen ∧
      (st.phase = .stable ∨ (a ≠ [] ∧ st.phase ≠ .preparing)) := by
  unfold sync at h
  split at h
  · simp at h
  · simp only [Prod.mk.injEq, Reply.sync.injEq] at h; exact absurd h.2.1 (by decide)
  · rename_i s1 st hl
    split at h
    · simp only [Prod.mk.injEq, Reply.sync.injEq] at h; exact absurd h.2.1 (by decide)
    · rename_i hgen
      have hgen' : gen = st.gen := by simpa using hgen
      split at h
      · simp only [Prod.mk.injEq, Reply.sync.injEq] at h; exact absurd h.2.1 (by decide)
      · rename_i hmem
        have hmem' : (lookup st.members mid).isSome := by
          cases hq : lookup st.members mid with
          | none => rw [hq] at hmem; simp at hmem
          | some x => rfl
        split at h
        · simp only [Prod.mk.injEq, Reply.sync.injEq] at h; exact absurd h.2.1 (by decide)
        · rename_i hprep
          split at h
          · rename_i hcomp
            split at h
            · simp only [Prod.mk.injEq, Reply.sync.injEq] at h; exact absurd h.2.1 (by decide)
            · -- the leader's sync computes the assignment and makes the group Stable
              obtain ⟨hlk, ha⟩ := syncFinish_reply _ _ _ _ _ _ _ h
              have hsp := leaderAssign_spec s1 st hcomp.1
              refine ⟨(leaderAssign s1 st).2, hlk, ha, ?_, ?_, Or.inl hsp.1⟩
              · rw [hsp.2.1]; exact hmem'
              · rw [hsp.2.2.1]; exact hgen'
          · obtain ⟨hlk, ha⟩ := syncFinish_reply _ _ _ _ _ _ _ h
            refine ⟨st, hlk, ha, hmem', hgen', ?_⟩
            -- syncFinish answered NONE: the member's assignment is non-empty or the group is Stable
            unfold syncFinish at h
            simp only at h
            split at h
            · simp only [Prod.mk.injEq, Reply.sync.injEq] at h; exact absurd h.2.1 (by decide)
            · rename_i hne
              by_cases hst : st.phase = .stable
              · exact Or.inl hst
              · right
                refine ⟨?_, hprep⟩
                intro ha0
                apply hne
                rw [ha] at ha0
                exact ⟨by simp [ha0], hst⟩

/-! ### the stored assignment only names current members and their current subscriptions -/

/-- per loaded group: member ids strictly increasing (canonical map), no stored assignment outside
Stable, and every stored assignment entry belongs to a current member that subscribes to the topic -/
structure AOk (st : Group) : Prop where
  sorted : SortedKeys st.members
  nonstable : st.phase ≠ .stable → st.asg = []
  valid : ∀ m a, (m, a) ∈ st.asg → ∀ t p, owns a t p → ∃ mem, lookup st.members m = some mem ∧ t ∈ mem.topics

structure APOk (p : PGroup) : Prop where
  sorted : SortedKeys p.members
  nonstable : p.state ≠ .stable → ∀ e ∈ p.members, e.2.asg = []
  valid : ∀ e ∈ p.members, ∀ t q, owns e.2.asg t q → t ∈ e.2.subs

def asgSpec : Spec := { G := fun _ _ st => AOk st, P := fun _ _ p => APOk p }

theorem startRebalance_AOk (st : Group) (t now : Nat) (hs : SortedKeys st.members) (hne : st.members ≠ []) :
    AOk (st.startRebalance t now) := by
  have hsr := startRebalance_of_nonempty st t now hne
  refine ⟨by rw [hsr.2.2.2]; exact sorted_resetJoins hs, fun _ => hsr.2.2.1, ?_⟩
  intro m a ha; rw [hsr.2.2.1] at ha; simp at ha

theorem asgSpec_closed : asgSpec.Closed where
  monoG := by intro g log x st h; exact h
  monoP := by intro g log x p h; exact h
  build := by
    intro g log st h
    refine ⟨?_, ?_, ?_⟩
    · unfold build; exact sorted_map_val h.sorted _
    · intro hp e he
      unfold build at he
      obtain ⟨e0, _, rfl⟩ := List.mem_map.mp he
      simp only [asgOf, h.nonstable hp, lookup, Option.getD_none]
    · intro e he t q ho
      unfold build at he
      obtain ⟨e0, he0, rfl⟩ := List.mem_map.mp he
      simp only [asgOf] at ho ⊢
      cases hq : lookup st.asg e0.1 with
      | none => rw [hq] at ho; obtain ⟨ps, hps, _⟩ := ho; simp at hps
      | some a =>
        rw [hq] at ho
        obtain ⟨mem, hm, ht⟩ := h.valid e0.1 a (lookup_some_mem hq) t q ho
        have : lookup st.members e0.1 = some e0.2 := lookup_of_mem_sorted h.sorted he0
        rw [this] at hm; cases hm; exact ht
  restore := by
    intro g log p now h
    have hmem : (restore fixed p now).members = p.members.map fun e =>
        (e.1, ({ topics := e.2.subs, session := if e.2.sessionMs > 0 then e.2.sessionMs else defaultSession,
                 lastHb := e.2.hbAt, joinGen := if p.state = .preparing ∧ (!fixed.c14Old) = true then 0 else p.gen } : Member)) := by
      unfold restore; simp
    have hasg : (restore fixed p now).asg = p.members.filterMap fun e => if e.2.asg.isEmpty then none else some (e.1, e.2.asg) := by
      unfold restore; simp
    have hph : (restore fixed p now).phase = p.state := by unfold restore; simp
    refine ⟨by rw [hmem]; exact sorted_map_val h.sorted _, ?_, ?_⟩
    · intro hp
      rw [hph] at hp
      rw [hasg]
      apply List.filterMap_eq_nil_iff.mpr
      intro e he
      simp [h.nonstable hp e he]
    · intro m a ha t q ho
      rw [hasg] at ha
      obtain ⟨e, he, hsome⟩ := List.mem_filterMap.mp ha
      split at hsome
      · cases hsome
      · simp only [Option.some.injEq, Prod.mk.injEq] at hsome
        obtain ⟨rfl, rfl⟩ := hsome
        refine ⟨({ topics := e.2.subs, session := if e.2.sessionMs > 0 then e.2.sessionMs else defaultSession,
                   lastHb := e.2.hbAt, joinGen := if p.state = .preparing ∧ (!fixed.c14Old) = true then 0 else p.gen } : Member),
                ?_, h.valid e he t q ho⟩
        rw [hmem]
        exact lookup_of_mem_sorted (sorted_map_val h.sorted _) (List.mem_map.mpr ⟨e, he, rfl⟩)
  join := by
    intro g log st0 mid se rb pt pr nk now h0
    unfold joinCore
    simp only
    obtain ⟨m', hmem, _, hph, _, hasg, _, htop, _, _, hex⟩ := joinMember_spec st0 mid se pt pr nk now
    generalize joinMember st0 mid se pt pr nk now = jm at hmem hph hasg hex
    obtain ⟨stA, memberID, ex, prev⟩ := jm
    simp only at hmem hph hasg hex ⊢
    have hs0 : SortedKeys st0.members := by
      rcases h0 with h0 | h0
      · exact h0.sorted
      · subst h0; exact sorted_nil
    have hsA : SortedKeys stA.members := by rw [hmem]; exact sorted_insert hs0 _ _
    have hneA : stA.members ≠ [] := by rw [hmem]; exact insert_ne_nil _ _ _
    have h1 : AOk (joinPhase fixed stA memberID ex prev (topicsOfProto pr) (timeoutOf rb) now) := by
      rcases joinPhase_cases fixed stA memberID ex prev (topicsOfProto pr) (timeoutOf rb) now with
        ⟨st', he, hm', _, _, _⟩ | ⟨he, hp⟩ | ⟨he, hp⟩
      · rw [he]; exact startRebalance_AOk st' _ _ (by rw [hm']; exact hsA) (by rw [hm']; exact hneA)
      · rw [he]
        have hempty : stA.asg = [] := by
          rw [hasg]
          rcases h0 with h0 | h0
          · exact h0.nonstable (by rw [← hph]; rcases hp with hp | hp <;> (rw [hp]; decide))
          · subst h0; rfl
        refine ⟨hsA, fun _ => hempty, ?_⟩
        intro m a ha; simp only [bump_asg, hempty] at ha; simp at ha
      · rw [he]
        rcases hp with hp | ⟨hp, hex', hsame⟩
        · rcases h0 with h0 | h0
          · have : st0.asg = [] := h0.nonstable (by rw [← hph, hp]; decide)
            refine ⟨hsA, fun _ => by rw [hasg]; exact this, ?_⟩
            intro m a ha; rw [hasg, this] at ha; simp at ha
          · subst h0; rw [hph] at hp; cases hp
        · -- Stable, known member, same subscription: the stored assignment stays valid
          rcases h0 with h0 | h0
          · obtain ⟨m0, hm0, hid, hprev⟩ := hex hex'
            have hsame' : prev = topicsOfProto pr := by
              rcases hsame with hh | hh
              · cases hh
              · exact hh
            refine ⟨hsA, fun hp' => absurd hp hp', ?_⟩
            intro m a ha t q ho
            rw [hasg] at ha
            obtain ⟨mem, hmemm, ht⟩ := h0.valid m a ha t q ho
            rw [hmem, lookup_insert]
            by_cases hk : memberID = m
            · refine ⟨m', by simp [hk], ?_⟩
              rw [htop, ← hsame', hprev]
              rw [hid] at hk; rw [← hk, hm0] at hmemm; cases hmemm; exact ht
            · exact ⟨mem, by simp [hk, hmemm], ht⟩
          · subst h0; rw [hph] at hp; cases hp
    generalize joinPhase fixed stA memberID ex prev (topicsOfProto pr) (timeoutOf rb) now = st1 at h1 ⊢
    have hmk := joinMark_spec st1 memberID
    have hfin := joinFinish_spec st1 memberID
    refine ⟨by rw [hfin.1, hmk.1]; exact sorted_setJoinGen h1.sorted _ _, ?_, ?_⟩
    · intro hp
      rw [hfin.2.2.2.1]
      rcases hfin.2.2.2.2.2 with h | ⟨hns, _, _, _⟩
      · exact h1.nonstable (by rw [← h]; exact hp)
      · exact h1.nonstable hns
    · intro m a ha t q ho
      rw [hfin.2.2.2.1] at ha
      obtain ⟨mem, hm, ht⟩ := h1.valid m a ha t q ho
      rw [hfin.1, hmk.1, lookup_setJoinGen, hm]
      refine ⟨_, rfl, ?_⟩
      split <;> exact ht
  assign := by
    intro g log st s h hph _
    have hsp := leaderAssign_spec s st hph
    refine ⟨by rw [hsp.2.1]; exact h.sorted, fun hp => absurd hsp.1 hp, ?_⟩
    intro m a ha t q ho
    rw [hsp.2.2.2.2] at ha
    obtain ⟨⟨mem, hmem, ht⟩, _⟩ := KafVerif.C12.no_foreign_topic _ _ _ m a t q ha ho
    rw [hsp.2.1]
    exact ⟨mem, lookup_of_mem_sorted h.sorted hmem, ht⟩
  heartbeat := by
    intro g log st mid m now h hm
    refine ⟨sorted_insert h.sorted _ _, h.nonstable, ?_⟩
    intro m1 a ha t q ho
    obtain ⟨mem, hmem, ht⟩ := h.valid m1 a ha t q ho
    simp only [lookup_insert]
    by_cases hk : mid = m1
    · subst hk; rw [hm] at hmem; cases hmem
      exact ⟨{ m with lastHb := now }, by simp, ht⟩
    · exact ⟨mem, by simp [hk, hmem], ht⟩
  leave := by
    intro g log st mid now h hne
    unfold leaveCore
    simp only
    have hne' : erase st.members mid ≠ [] := by intro hh; rw [hh] at hne; simp at hne
    split
    · exact startRebalance_AOk _ 0 now (sorted_erase h.sorted _) hne'
    · exact startRebalance_AOk _ 0 now (sorted_erase h.sorted _) hne'
  cleanup := by
    intro g log st now st' h ho
    cases hc : cleanupOutcome st now with
    | gone => rw [hc] at ho; simp [CleanupOutcome.group?] at ho
    | kept st2 =>
      rw [hc] at ho; simp only [CleanupOutcome.group?, Option.some.injEq] at ho
      subst ho
      rw [cleanupOutcome_kept hc]; exact h
    | rebalanced st2 =>
      rw [hc] at ho; simp only [CleanupOutcome.group?, Option.some.injEq] at ho
      subst ho
      obtain ⟨st3, hne, rfl, _, hm⟩ := cleanupOutcome_rebalanced hc
      exact startRebalance_AOk st3 0 now (by rw [hm]; exact sorted_filter h.sorted _) hne

/-- **C12 (the stored assignment matches the current members).** In every state reachable by any
history of joins, syncs, heartbeats, leaves, commits, ticks, cleanup passes, failovers, metadata
changes and store faults, for every group loaded in the coordinator: outside Stable no assignment
is stored, and in Stable every entry of the stored assignment map — which is what SyncGroup hands
out (`sync_reply_is_assignment`) — belongs to a CURRENT member that CURRENTLY subscribes to the
topic.  (Before the fix a re-join with a changed subscription broke exactly this.) -/
theorem _root_.KafVerif.C12.stable_assignment_valid (ops : List Op) (g : Nat) (st : Group)
    (h : lookup (run init ops).groups g = some st) :
    (st.phase ≠ .stable → st.asg = []) ∧
    ∀ m a, (m, a) ∈ st.asg → ∀ t p, owns a t p → ∃ mem, lookup st.members m = some mem ∧ t ∈ mem.topics := by
  have hinv : Inv asgSpec (run init ops) := inv_run asgSpec_closed ops
  have hok : AOk st := hinv.1 (g, st) (lookup_some_mem h)
  exact ⟨hok.nonstable, hok.valid⟩

/-- **C12 (pre-fix defect, witness).** Member 5 subscribes to topic 0 and syncs (assignment: topic 0),
then re-joins the Stable group subscribing to topic 1 only.  Before the fix the join is answered NONE
in the same generation and the next sync still hands out partitions of topic 0, which the member no
longer subscribes to; after the fix the re-join starts a new generation and the sync assigns topic 1. -/
theorem _root_.KafVerif.C12.joinOld_violates :
    let ops : List Op := [.setMeta [(0, [0, 1]), (1, [0])], .join 1 0 10000 10000 1 (some (1, [0])) 5, .sync 1 5 1,
                          .join 1 5 10000 10000 1 (some (1, [1])) 5]
    let old := ops.foldl (fun s op => (stepV { c12Old := true } s op).1) init
    let new := ops.foldl (fun s op => (stepV fixed s op).1) init
    (stepV { c12Old := true } old (.sync 1 5 1)).2 = .sync NONE [(0, [0, 1])]
    ∧ (old.groups.map fun e => e.2.members.map fun m => m.2.topics) = [[[1]]]
    ∧ (stepV fixed new (.sync 1 5 2)).2 = .sync NONE [(1, [0])] := by
  decide

-- non-vacuity: a concrete member map where the hypotheses of `assign_exact` hold
example : ∃ m, (∃ a, (m, a) ∈ assignPartitions [(1, ⟨[0], 1, 1, 1⟩), (2, ⟨[0, 2], 1, 1, 1⟩)] [(0, [2, 0, 1])] false ∧ owns a 0 1)
    ∧ (∃ mem, (m, mem) ∈ [(1, (⟨[0], 1, 1, 1⟩ : Member)), (2, ⟨[0, 2], 1, 1, 1⟩)] ∧ 0 ∈ mem.topics)
    ∧ ∀ m' a', (m', a') ∈ assignPartitions [(1, ⟨[0], 1, 1, 1⟩), (2, ⟨[0, 2], 1, 1, 1⟩)] [(0, [2, 0, 1])] false → owns a' 0 1 → m' = m :=
  KafVerif.C12.assign_exact _ _ _ (by intro t ps h; simp [lookup] at h; obtain ⟨_, rfl⟩ := h; decide) 0 1
    ⟨(1, ⟨[0], 1, 1, 1⟩), by simp, by simp⟩ (by decide)

end KafVerif.Group
