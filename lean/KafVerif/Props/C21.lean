import KafVerif.Model.Snapshot
/-!
C21 — Acknowledged topic creations and partition growth are never lost.

Statement (properties.jsonl): once a topic creation or partition increase has been acknowledged,
later operations never make the topic disappear or its partition count shrink — including admin
operations on other brokers and operator reconciliation of the metadata snapshot; removal happens
only through an explicit topic deletion.  Quantifier: every interleaving of create/grow/delete
across several brokers sharing etcd, snapshot watch refreshes, and operator publishes.

* `acked_persist`      for EVERY number of brokers, EVERY initial local snapshots and EVERY
                       sequence of steps (one step = one etcd operation of some broker / the
                       operator / a watch refresh): every acknowledged and not explicitly deleted
                       (topic, n) is in the etcd snapshot with ≥ n partitions.
* `ack_survives`       trace form: an acknowledgement at some point + no later explicit delete of
                       that topic ⇒ covered in every later state.
* `refreshed_view`     after a watch refresh an idle broker's `Metadata()` equals the etcd snapshot.
* `lost_update_old`, `watch_race_old`, `operator_shrinks_old`   witnesses on the pre-fix model.
* `dirty_copy_discarded`  whatever a failed call left in a broker's local copy, its next update attempt
                       computes what it would compute from a fresh read (once the key exists).
* `failed_step_no_ack`  steps standing for transient etcd errors (`getFail`, `beginFail`, `commitFail`)
                       acknowledge nothing; `acked_persist` / `ack_survives` quantify over them too.
* `fastpath_refresh_seeded`  witness: a refresh that skips the reload when the revision is unchanged
                       writes a failed call's dirty copy back (acknowledged topic lost; phantom "exists").
* `late_notification_seeded`  witness: a watcher that applies the (possibly outdated) payload of a
                       notification without `persistMu` loses an acknowledged topic; `acked_persist`
                       covers the code's watcher for deliveries of ANY past notification at ANY point.
-/
namespace KafVerif.Snapshot

/-! ### `parts` lemmas -/

@[simp] theorem parts_nil (t : Nat) : parts [] t = none := rfl
theorem parts_cons (e : Nat × Nat) (r : Snap) (t : Nat) :
    parts (e :: r) t = if e.1 = t then some e.2 else parts r t := by
  unfold parts
  by_cases h : e.1 = t
  · have hb : (e.1 == t) = true := by simp [h]
    simp [List.find?_cons, hb, h]
  · have hb : (e.1 == t) = false := by simp [h]
    simp [List.find?_cons, hb, h]
theorem setParts_cons (e : Nat × Nat) (r : Snap) (t n : Nat) :
    setParts (e :: r) t n = (if e.1 = t then (e.1, n) else e) :: setParts r t n := by
  simp [setParts]

theorem parts_append (a b : Snap) (t : Nat) :
    parts (a ++ b) t = (parts a t).or (parts b t) := by
  unfold parts
  rw [List.find?_append]
  cases List.find? (fun e => e.1 == t) a <;> simp

theorem parts_setParts (s : Snap) (t n t' : Nat) :
    parts (setParts s t n) t' = if t' = t then (parts s t).map (fun _ => n) else parts s t' := by
  induction s with
  | nil => simp [setParts]
  | cons e r ih =>
    rw [setParts_cons]
    by_cases he : e.1 = t <;> by_cases ht : t' = t <;> by_cases het : e.1 = t' <;>
      simp_all [parts_cons]

theorem parts_filter_ne (s : Snap) (t t' : Nat) (h : t' ≠ t) :
    parts (s.filter fun e => e.1 != t) t' = parts s t' := by
  induction s with
  | nil => rfl
  | cons e r ih =>
    by_cases he : e.1 = t <;> by_cases het : e.1 = t' <;>
      simp_all [parts_cons]

/-! ### local mutations keep what they do not delete -/

def deletes : TOp → Nat → Bool
  | .delete t, t' => t == t'
  | _, _ => false

/-- what a successful mutation guarantees about the local copy -/
def opPost : TOp → Snap → Prop
  | .create t n, l => covered l t n.toNat
  | .grow t n, l => covered l t n.toNat
  | .delete _, _ => True

theorem applyL_covers {l l' : Snap} {op : TOp} {t n : Nat} (h : applyL l op = (l', .ok))
    (hc : covered l t n) (hd : deletes op t = false) : covered l' t n := by
  obtain ⟨m, hm, hn⟩ := hc
  cases op with
  | create t0 n0 =>
    simp only [applyL] at h
    split at h
    · simp at h
    · split at h
      · simp at h
      · simp only [Prod.mk.injEq, and_true] at h
        subst h
        exact ⟨m, by rw [parts_append, hm]; rfl, hn⟩
  | grow t0 n0 =>
    simp only [applyL] at h
    split at h
    · simp at h
    · rename_i cur hcur
      split at h
      · simp at h
      · simp only [Prod.mk.injEq, and_true] at h
        subst h
        by_cases ht : t = t0
        · subst ht
          rw [hcur] at hm
          simp only [Option.some.injEq] at hm
          refine ⟨n0.toNat, by rw [parts_setParts]; simp [hcur], ?_⟩
          omega
        · exact ⟨m, by rw [parts_setParts]; simp [ht, hm], hn⟩
  | delete t0 =>
    simp only [applyL] at h
    split at h
    · simp only [Prod.mk.injEq, and_true] at h
      subst h
      have : t ≠ t0 := by
        intro e; subst e; simp [deletes] at hd
      exact ⟨m, by rw [parts_filter_ne _ _ _ this]; exact hm, hn⟩
    · simp at h

theorem applyL_post {l l' : Snap} {op : TOp} (h : applyL l op = (l', .ok)) : opPost op l' := by
  cases op with
  | create t0 n0 =>
    simp only [applyL] at h
    split at h
    · simp at h
    · split at h
      · simp at h
      · rename_i hn hh
        simp only [Prod.mk.injEq, and_true] at h
        subst h
        have hnone : parts l t0 = none := by
          simp only [has, Bool.not_eq_true, Option.isSome_eq_false_iff, Option.isNone_iff_eq_none] at hh
          exact hh
        exact ⟨n0.toNat, by rw [parts_append, hnone]; simp [parts], Nat.le_refl _⟩
  | grow t0 n0 =>
    simp only [applyL] at h
    split at h
    · simp at h
    · rename_i cur hcur
      split at h
      · simp at h
      · simp only [Prod.mk.injEq, and_true] at h
        subst h
        exact ⟨n0.toNat, by rw [parts_setParts]; simp [hcur], Nat.le_refl _⟩
  | delete t0 => trivial

/-! ### the operator's merge covers what etcd holds -/

theorem parts_map_max (next e : Snap) (t : Nat) :
    parts (next.map fun x => (x.1, max x.2 ((parts e x.1).getD 0))) t =
      (parts next t).map fun k => max k ((parts e t).getD 0) := by
  induction next with
  | nil => rfl
  | cons a r ih =>
    by_cases h : a.1 = t <;> simp_all [parts_cons]

theorem parts_filter_not_has (next e : Snap) (t : Nat) (h : has next t = false) :
    parts (e.filter fun x => !has next x.1) t = parts e t := by
  induction e with
  | nil => rfl
  | cons a r ih =>
    by_cases ha : a.1 = t <;> by_cases hh : has next a.1 = true <;>
      simp_all [parts_cons]
theorem merge_covers {next e : Snap} {t n : Nat} (h : covered e t n) : covered (merge next e) t n := by
  obtain ⟨m, hm, hn⟩ := h
  unfold merge
  rw [covered, parts_append, parts_map_max]
  cases hp : parts next t with
  | none =>
    have : has next t = false := by simp [has, hp]
    simp only [Option.map_none, Option.none_or]
    exact ⟨m, by rw [parts_filter_not_has _ _ _ this]; exact hm, hn⟩
  | some k =>
    refine ⟨max k m, by simp [hm], ?_⟩
    omega

theorem mergeOpt_covers {next : Snap} {e : Option Snap} {snap : Snap} {t n : Nat}
    (he : e = some snap) (h : covered snap t n) : covered (mergeOpt merge next e) t n := by
  subst he; exact merge_covers h

/-! ### the invariant -/

/-- Auxiliary invariant: a pending update whose read revision is still current holds a local copy
that covers everything acknowledged (except what it is about to delete) and its own effect; same
for the operator's pending payload. -/
def Aux (s : State) : Prop :=
  (∀ b r op att, (s.brokers b).pend = some (r, op, att) →
      r ≤ s.rev ∧ opPost op (s.brokers b).loc ∧
      (r = s.rev → ∀ e ∈ s.acked, deletes op e.1 = false → covered (s.brokers b).loc e.1 e.2)) ∧
  (∀ r payload att, s.opPend = some (r, payload, att) →
      r ≤ s.rev ∧ (r = s.rev → ∀ e ∈ s.acked, covered payload e.1 e.2))

def Good (s : State) : Prop := Inv s ∧ Aux s

theorem good_init (locals : Nat → Snap) : Good (init locals) := by
  refine ⟨?_, ?_, ?_⟩
  · intro e he; simp [init] at he
  · intro b r op att h; simp [init] at h
  · intro r p a h; simp [init] at h

theorem upd_same (f : Nat → Broker) (b : Nat) (x : Broker) : upd f b x b = x := by simp [upd]
theorem upd_other (f : Nat → Broker) {b c : Nat} (x : Broker) (h : c ≠ b) : upd f b x c = f c := by simp [upd, h]

theorem good_beginB {s : State} (hg : Good s) (b : Nat) (op : TOp) (att : Nat)
    (hidle : ∀ r o a, (s.brokers b).pend = some (r, o, a) → True) : Good (beginB s b op att).1 := by
  obtain ⟨hinv, hb, ho⟩ := hg
  simp only [beginB]
  split
  · rename_i hok
    refine ⟨hinv, ?_, ho⟩
    intro c r o a hp
    by_cases hc : c = b
    · subst hc
      simp only [upd_same, Option.some.injEq, Prod.mk.injEq] at hp
      obtain ⟨rfl, rfl, rfl⟩ := hp
      have happ : applyL (s.etcd.getD (s.brokers c).loc) op = ((applyL (s.etcd.getD (s.brokers c).loc) op).1, .ok) := by
        rw [← hok]
      refine ⟨Nat.le_refl _, by simpa [upd_same] using applyL_post happ, ?_⟩
      intro _ e he hd
      obtain ⟨snap, hs, hcov⟩ := hinv e he
      simp only [upd_same]
      exact applyL_covers happ (by simpa [hs] using hcov) hd
    · simp only [upd_other _ _ hc] at hp ⊢
      exact hb c r o a hp
  · refine ⟨hinv, ?_, ho⟩
    intro c r o a hp
    by_cases hc : c = b
    · subst hc; simp [upd_same] at hp
    · simp only [upd_other _ _ hc] at hp ⊢
      exact hb c r o a hp

theorem ackUpd_mem {acked : List (Nat × Nat)} {op : TOp} {e : Nat × Nat} (h : e ∈ ackUpd acked op) :
    (e ∈ acked ∧ deletes op e.1 = false) ∨
    (∃ t n, (op = .create t n ∨ op = .grow t n) ∧ e = (t, n.toNat)) := by
  cases op with
  | create t n =>
    simp only [ackUpd, List.mem_cons] at h
    rcases h with h | h
    · exact Or.inr ⟨t, n, Or.inl rfl, h⟩
    · exact Or.inl ⟨h, rfl⟩
  | grow t n =>
    simp only [ackUpd, List.mem_cons] at h
    rcases h with h | h
    · exact Or.inr ⟨t, n, Or.inr rfl, h⟩
    · exact Or.inl ⟨h, rfl⟩
  | delete t =>
    simp only [ackUpd, List.mem_filter, bne_iff_ne, ne_eq] at h
    refine Or.inl ⟨h.1, ?_⟩
    simp only [deletes, beq_eq_false_iff_ne, ne_eq]
    exact fun e' => h.2 e'.symm

theorem good_commitB {s : State} (hg : Good s) (b : Nat) : Good (commitB s b).1 := by
  unfold commitB
  split
  · exact hg
  · rename_i r op att hp
    split
    · rename_i hr
      obtain ⟨hinv, hb, ho⟩ := hg
      obtain ⟨_, hpost, hcov⟩ := hb b r op att hp
      refine ⟨?_, ?_, ?_⟩
      · intro e he
        refine ⟨(s.brokers b).loc, rfl, ?_⟩
        rcases ackUpd_mem he with ⟨hm, hd⟩ | ⟨t, n, hop, rfl⟩
        · exact hcov hr e hm hd
        · rcases hop with rfl | rfl <;> exact hpost
      · intro c r' o a hp'
        by_cases hc : c = b
        · subst hc; simp [upd_same] at hp'
        · simp only [upd_other _ _ hc] at hp' ⊢
          obtain ⟨hle, hpo, _⟩ := hb c r' o a hp'
          refine ⟨by show r' ≤ s.rev + 1; omega, hpo, ?_⟩
          intro heq; have heq' : r' = s.rev + 1 := heq; omega
      · intro r' p a hp'
        obtain ⟨hle, _⟩ := ho r' p a hp'
        refine ⟨by show r' ≤ s.rev + 1; omega, ?_⟩
        intro heq; have heq' : r' = s.rev + 1 := heq; omega
    · split
      · exact good_beginB hg b op (att + 1) (fun _ _ _ _ => trivial)
      · obtain ⟨hinv, hb, ho⟩ := hg
        refine ⟨hinv, ?_, ho⟩
        intro c r' o a hp'
        by_cases hc : c = b
        · subst hc; simp [upd_same] at hp'
        · simp only [upd_other _ _ hc] at hp' ⊢
          exact hb c r' o a hp'

/-- dropping a broker's pending update (its call returned an error) and leaving ANY local copy
behind keeps the invariant: the next update re-reads the key -/
theorem good_drop {s : State} (hg : Good s) (b : Nat) (l : Snap) :
    Good { s with brokers := upd s.brokers b { loc := l, pend := none } } := by
  obtain ⟨hinv, hb, ho⟩ := hg
  refine ⟨hinv, ?_, ho⟩
  intro c r o a hp
  by_cases hc : c = b
  · subst hc; simp [upd_same] at hp
  · simp only [upd_other _ _ hc] at hp ⊢
    exact hb c r o a hp

theorem good_beginFailB {s : State} (hg : Good s) (b : Nat) (op : TOp) : Good (beginFailB s b op).1 := by
  simp only [beginFailB]
  split <;> exact good_drop hg b _

theorem ackLost_mem {acked : List (Nat × Nat)} {op : TOp} {e : Nat × Nat} (h : e ∈ ackLost acked op) :
    e ∈ acked ∧ deletes op e.1 = false := by
  cases op with
  | create t n => exact ⟨h, rfl⟩
  | grow t n => exact ⟨h, rfl⟩
  | delete t =>
    simp only [ackLost, List.mem_filter, bne_iff_ne, ne_eq] at h
    refine ⟨h.1, ?_⟩
    simp only [deletes, beq_eq_false_iff_ne, ne_eq]
    exact fun e' => h.2 e'.symm

theorem good_commitFailB {s : State} (hg : Good s) (b : Nat) (applied : Bool) :
    Good (commitFailB s b applied).1 := by
  unfold commitFailB
  split
  · exact hg
  · rename_i r op att hp
    split
    · rename_i hr
      obtain ⟨hinv, hb, ho⟩ := hg
      obtain ⟨_, hpost, hcov⟩ := hb b r op att hp
      refine ⟨?_, ?_, ?_⟩
      · intro e he
        obtain ⟨hm, hd⟩ := ackLost_mem he
        exact ⟨(s.brokers b).loc, rfl, hcov hr.2 e hm hd⟩
      · intro c r' o a hp'
        by_cases hc : c = b
        · subst hc; simp [upd_same] at hp'
        · simp only [upd_other _ _ hc] at hp' ⊢
          obtain ⟨hle, hpo, _⟩ := hb c r' o a hp'
          refine ⟨by show r' ≤ s.rev + 1; omega, hpo, ?_⟩
          intro heq; have heq' : r' = s.rev + 1 := heq; omega
      · intro r' p a hp'
        obtain ⟨hle, _⟩ := ho r' p a hp'
        refine ⟨by show r' ≤ s.rev + 1; omega, ?_⟩
        intro heq; have heq' : r' = s.rev + 1 := heq; omega
    · exact good_drop hg b _

theorem good_step {s : State} (hg : Good s) (st : Step) : Good (step merge s st).1 := by
  cases st with
  | «begin» b op =>
    simp only [step]
    split
    · exact hg
    · exact good_beginB hg b op 0 (fun _ _ _ _ => trivial)
  | commit b => exact good_commitB hg b
  | watch b =>
    simp only [step]
    split
    · exact hg
    · obtain ⟨hinv, hb, ho⟩ := hg
      refine ⟨hinv, ?_, ho⟩
      intro c r o a hp
      by_cases hc : c = b
      · subst hc; simp [upd_same] at hp
      · simp only [upd_other _ _ hc] at hp ⊢
        exact hb c r o a hp
  | deliver b r =>
    simp only [step]
    split
    · exact hg
    · obtain ⟨hinv, hb, ho⟩ := hg
      refine ⟨hinv, ?_, ho⟩
      intro c r o a hp
      by_cases hc : c = b
      · subst hc; simp [upd_same] at hp
      · simp only [upd_other _ _ hc] at hp ⊢
        exact hb c r o a hp
  | opGet crd =>
    simp only [step]
    split
    · exact hg
    · obtain ⟨hinv, hb, ho⟩ := hg
      refine ⟨hinv, hb, ?_⟩
      intro r p a hp
      simp only [Option.some.injEq, Prod.mk.injEq] at hp
      obtain ⟨rfl, rfl, rfl⟩ := hp
      refine ⟨Nat.le_refl _, ?_⟩
      intro _ e he
      obtain ⟨snap, hs, hcov⟩ := hinv e he
      exact mergeOpt_covers hs hcov
  | opTxn =>
    simp only [step]
    split
    · exact hg
    · rename_i r payload att hp
      obtain ⟨hinv, hb, ho⟩ := hg
      obtain ⟨_, hcov⟩ := ho r payload att hp
      split
      · rename_i hr
        refine ⟨?_, ?_, ?_⟩
        · intro e he; exact ⟨payload, rfl, hcov hr e he⟩
        · intro c r' o a hp'
          obtain ⟨hle, hpo, _⟩ := hb c r' o a hp'
          refine ⟨by show r' ≤ s.rev + 1; omega, hpo, ?_⟩
          intro heq; have heq' : r' = s.rev + 1 := heq; omega
        · intro r' p a hp'; simp at hp'
      · split
        · refine ⟨hinv, hb, ?_⟩
          intro r' p a hp'
          simp only [Option.some.injEq, Prod.mk.injEq] at hp'
          obtain ⟨rfl, rfl, rfl⟩ := hp'
          refine ⟨Nat.le_refl _, ?_⟩
          intro _ e he
          obtain ⟨snap, hs, hcov'⟩ := hinv e he
          exact mergeOpt_covers hs hcov'
        · refine ⟨hinv, hb, ?_⟩
          intro r' p a hp'; simp at hp'
  | getFail b =>
    simp only [step]
    split <;> exact hg
  | beginFail b op =>
    simp only [step]
    split
    · exact hg
    · exact good_beginFailB hg b op
  | commitFail b applied => exact good_commitFailB hg b applied

theorem good_run {s : State} (hg : Good s) (steps : List Step) : Good (run merge s steps) := by
  induction steps generalizing s with
  | nil => exact hg
  | cons st r ih => exact ih (good_step hg st)

/-- **C21.** For every assignment of initial local snapshots to any number of brokers and every
sequence of steps (broker refresh+mutate, broker txn with retry, watch refresh, operator get,
operator txn with retry — in any interleaving): every (topic, n) that was acknowledged and whose
topic was not explicitly deleted afterwards is in the etcd snapshot with at least n partitions. -/
theorem _root_.KafVerif.C21.acked_persist (locals : Nat → Snap) (steps : List Step) :
    Inv (run merge (init locals) steps) :=
  (good_run (good_init locals) steps).1

/-- A step that completes an explicit deletion of topic `t`. -/
def deletesTopic (s : State) (t : Nat) : Step → Prop
  | .commit b => ∃ r att, (s.brokers b).pend = some (r, .delete t, att)
  | .commitFail b true => ∃ r att, (s.brokers b).pend = some (r, .delete t, att)
  | _ => False

theorem acked_step_mono {s : State} {st : Step} {e : Nat × Nat} (he : e ∈ s.acked)
    (hnd : ¬ deletesTopic s e.1 st) : e ∈ (step merge s st).1.acked := by
  cases st with
  | «begin» b op =>
    simp only [step]; split
    · exact he
    · simp only [beginB]; split <;> exact he
  | commit b =>
    simp only [step, commitB]
    split
    · exact he
    · rename_i r op att hp
      split
      · cases op with
        | create t n => simp [ackUpd, he]
        | grow t n => simp [ackUpd, he]
        | delete t =>
          simp only [ackUpd, List.mem_filter, bne_iff_ne, ne_eq]
          refine ⟨he, ?_⟩
          intro heq
          exact hnd ⟨r, att, by rw [hp, heq]⟩
      · split
        · simp only [beginB]; split <;> exact he
        · exact he
  | watch b => simp only [step]; split <;> exact he
  | deliver b r => simp only [step]; split <;> exact he
  | opGet crd => simp only [step]; split <;> exact he
  | opTxn =>
    simp only [step]
    split
    · exact he
    · split
      · exact he
      · split <;> exact he
  | getFail b => simp only [step]; split <;> exact he
  | beginFail b op =>
    simp only [step]; split
    · exact he
    · simp only [beginFailB]; split <;> exact he
  | commitFail b applied =>
    simp only [step, commitFailB]
    split
    · exact he
    · rename_i r op att hp
      split
      · rename_i hr
        cases op with
        | create t n => exact he
        | grow t n => exact he
        | delete t =>
          simp only [ackLost, List.mem_filter, bne_iff_ne, ne_eq]
          refine ⟨he, ?_⟩
          intro heq
          have ha : applied = true := hr.1
          subst ha
          exact hnd ⟨r, att, by rw [hp, heq]⟩
      · exact he

/-- **C21 (trace form).** If `(t, n)` is acknowledged in a reachable state `s` and none of the
following steps completes an explicit deletion of `t`, then after those steps the etcd snapshot
still holds `t` with at least `n` partitions. -/
theorem _root_.KafVerif.C21.ack_survives (locals : Nat → Snap) (pre post : List Step) (t n : Nat)
    (hack : (t, n) ∈ (run merge (init locals) pre).acked)
    (hnodel : ∀ k, k < post.length →
        ¬ deletesTopic (run merge (init locals) (pre ++ post.take k)) t (post.getD k (.watch 0))) :
    ∃ snap, (run merge (init locals) (pre ++ post)).etcd = some snap ∧ covered snap t n := by
  have hmem : ∀ k, k ≤ post.length → (t, n) ∈ (run merge (init locals) (pre ++ post.take k)).acked := by
    intro k
    induction k with
    | zero => intro _; simpa using hack
    | succ k ih =>
      intro hk
      have hlt : k < post.length := by omega
      have h1 := ih (by omega)
      have htake : post.take (k + 1) = post.take k ++ [post.getD k (.watch 0)] := by
        rw [List.take_add_one]
        simp [List.getD, List.getElem?_eq_getElem hlt]
      rw [htake, ← List.append_assoc]
      simp only [run, List.foldl_append, List.foldl_cons, List.foldl_nil]
      exact acked_step_mono (by simpa [run] using h1) (by simpa [run] using hnodel k hlt)
  have := hmem post.length (Nat.le_refl _)
  rw [List.take_length] at this
  exact KafVerif.C21.acked_persist locals (pre ++ post) (t, n) this

/-- **C21 (observation point).** A watch refresh on an idle broker makes its local view — what
`Metadata()` returns — equal to the etcd snapshot. -/
theorem _root_.KafVerif.C21.refreshed_view (s : State) (b : Nat) (snap : Snap)
    (hidle : (s.brokers b).pend = none) (he : s.etcd = some snap) :
    ((step merge s (.watch b)).1.brokers b).loc = snap ∧ (step merge s (.watch b)).1.etcd = some snap := by
  simp [step, hidle, he, upd_same]

/-! ### non-vacuity and the pre-fix witnesses -/

def loc0 : Nat → Snap := fun _ => []

/-- Non-vacuity: acknowledgements happen (two brokers create, one grows; the operator publishes). -/
example : (run merge (init loc0)
    [.begin 0 (.create 1 1), .commit 0, .begin 1 (.create 2 3), .commit 1, .begin 0 (.grow 1 4), .commit 0,
     .opGet [(1, 1)], .opTxn]).acked = [(1, 4), (2, 3), (1, 1)] := by decide

example : (run merge (init loc0)
    [.begin 0 (.create 1 1), .commit 0, .begin 1 (.create 2 3), .commit 1, .begin 0 (.grow 1 4), .commit 0,
     .opGet [(1, 1)], .opTxn]).etcd = some [(1, 4), (2, 3)] := by decide

/-- **Lost update before the fix.** Broker 0 creates topic 1 (acknowledged); broker 1, whose local
copy has not been refreshed, creates topic 2 and puts its stale copy: topic 1 is gone. -/
theorem _root_.KafVerif.C21.lost_update_old :
    invB (runOld mergeOld (init loc0) [.begin 0 (.create 1 1), .commit 0, .begin 1 (.create 2 1), .commit 1]) = false := by
  decide

/-- **Watch race before the fix (single broker).** `CreatePartitions` mutates the local copy, the
watch refresh triggered by the earlier put reverts it, the put then writes the reverted copy, and
the call still acknowledges 3 partitions. -/
theorem _root_.KafVerif.C21.watch_race_old :
    invB (runOld mergeOld (init loc0)
      [.begin 0 (.create 1 1), .commit 0, .begin 0 (.grow 1 3), .watch 0, .commit 0]) = false := by
  decide

/-- **Operator shrink before the fix.** A topic grown to 3 partitions by a broker is published by
the operator with the resource's 1 partition. -/
theorem _root_.KafVerif.C21.operator_shrinks_old :
    invB (run mergeOld (init loc0)
      [.begin 0 (.create 1 1), .commit 0, .begin 0 (.grow 1 3), .commit 0, .opGet [(1, 1)], .opTxn]) = false := by
  decide

/-- **A watcher that applies the notification's payload without the lock (seeded variant).**
Broker 0 creates topic 1 (write 0), broker 1 creates topic 2 with 2 partitions (write 1, acknowledged);
broker 0 deletes topic 1: fresh read, local delete — then its lagging watch stream hands it the
notification of write 0, which replaces the local copy; the revision compare still succeeds and the
stale copy is written back: topic 2 is gone (and topic 1 is back). -/
theorem _root_.KafVerif.C21.late_notification_seeded :
    invB (runSeeded merge (init loc0)
      [.begin 0 (.create 1 1), .commit 0, .begin 1 (.create 2 2), .commit 1,
       .begin 0 (.delete 1), .deliver 0 0, .commit 0]) = false ∧
    (runSeeded merge (init loc0)
      [.begin 0 (.create 1 1), .commit 0, .begin 1 (.create 2 2), .commit 1,
       .begin 0 (.delete 1), .deliver 0 0, .commit 0]).etcd = some [(1, 1)] := by
  decide

/-- The code's watcher (re-read under `persistMu`) on the same schedule: the delivery waits, the
invariant holds and only the deleted topic is gone. -/
example : invB (run merge (init loc0)
      [.begin 0 (.create 1 1), .commit 0, .begin 1 (.create 2 2), .commit 1,
       .begin 0 (.delete 1), .deliver 0 0, .commit 0, .deliver 0 0]) = true ∧
    (run merge (init loc0)
      [.begin 0 (.create 1 1), .commit 0, .begin 1 (.create 2 2), .commit 1,
       .begin 0 (.delete 1), .deliver 0 0, .commit 0, .deliver 0 0]).etcd = some [(2, 2)] := by
  decide

/-- The same three schedules on the fixed model keep the invariant (executable check; the general
statement is `acked_persist`). -/
example : invB (run merge (init loc0) [.begin 0 (.create 1 1), .commit 0, .begin 1 (.create 2 1), .commit 1]) = true ∧
    invB (run merge (init loc0) [.begin 0 (.create 1 1), .commit 0, .begin 0 (.grow 1 3), .watch 0, .commit 0]) = true ∧
    invB (run merge (init loc0) [.begin 0 (.create 1 1), .commit 0, .begin 0 (.grow 1 3), .commit 0, .opGet [(1, 1)], .opTxn]) = true := by
  decide

/-! ### transient etcd errors (fault injection) -/

/-- **A dirty local copy is discarded before the next write.**  Whatever a failed call left in broker
`b`'s local copy (`dirty`), its next `updateSnapshot` attempt — once the snapshot key exists —
computes exactly what it would compute from a copy equal to a fresh read: same answer, same local
copy, same pending write. -/
theorem _root_.KafVerif.C21.dirty_copy_discarded (s : State) (b : Nat) (dirty e : Snap) (op : TOp) (att : Nat)
    (he : s.etcd = some e) :
    (beginB { s with brokers := upd s.brokers b { loc := dirty, pend := none } } b op att).2 =
      (beginB { s with brokers := upd s.brokers b { loc := e, pend := none } } b op att).2 ∧
    (beginB { s with brokers := upd s.brokers b { loc := dirty, pend := none } } b op att).1.brokers b =
      (beginB { s with brokers := upd s.brokers b { loc := e, pend := none } } b op att).1.brokers b := by
  simp only [beginB, he, Option.getD_some]
  split <;> simp [upd_same]

/-- **Failed calls acknowledge nothing.**  A step that stands for a transient etcd error never adds
to the acknowledged set (and `acked_persist` holds across such steps, wherever they occur). -/
theorem _root_.KafVerif.C21.failed_step_no_ack (s : State) (b : Nat) (op : TOp) (applied : Bool) (e : Nat × Nat) :
    (e ∈ (step merge s (.getFail b)).1.acked → e ∈ s.acked) ∧
    (e ∈ (step merge s (.beginFail b op)).1.acked → e ∈ s.acked) ∧
    (e ∈ (step merge s (.commitFail b applied)).1.acked → e ∈ s.acked) := by
  refine ⟨?_, ?_, ?_⟩
  · simp only [step]; split <;> exact id
  · simp only [step]; split
    · exact id
    · simp only [beginFailB]; split <;> exact id
  · simp only [step, commitFailB]
    split
    · exact id
    · split
      · intro h; exact (ackLost_mem h).1
      · exact id

/-- Non-vacuity: the demo schedule of the seeded fast path on the CODE's model — broker 1 creates topic 1,
broker 0 creates topic 2, broker 0's `DeleteTopic 1` fails in its offset cleanup (local copy: topic 1
gone), broker 0 creates topic 3: the refresh discards the dirty copy, topic 1 survives. -/
example : (run merge (init loc0)
      [.begin 1 (.create 1 1), .commit 1, .begin 0 (.create 2 1), .commit 0,
       .beginFail 0 (.delete 1), .begin 0 (.create 3 1), .commit 0]).etcd = some [(1, 1), (2, 1), (3, 1)] ∧
    ((run merge (init loc0)
      [.begin 1 (.create 1 1), .commit 1, .begin 0 (.create 2 1), .commit 0,
       .beginFail 0 (.delete 1)]).brokers 0).loc = [(2, 1)] := by
  decide

/-- Non-vacuity: a txn whose answer is lost is applied (and an applied delete is an explicit deletion);
one that never reached etcd is not. -/
example : (run merge (init loc0)
      [.begin 0 (.create 1 2), .commit 0, .begin 1 (.create 2 1), .commitFail 1 true,
       .begin 0 (.create 3 1), .commitFail 0 false, .begin 1 (.delete 1), .commitFail 1 true]).etcd = some [(2, 1)] ∧
    (run merge (init loc0)
      [.begin 0 (.create 1 2), .commit 0, .begin 1 (.create 2 1), .commitFail 1 true,
       .begin 0 (.create 3 1), .commitFail 0 false, .begin 1 (.delete 1), .commitFail 1 true]).acked = [] := by
  decide

/-- **A refresh with a "revision already loaded" fast path (seeded variant).**  Same schedule as
above: broker 0's failed `DeleteTopic 1` leaves topic 1 deleted in its local copy without moving the
revision; its next `CreateTopic 3` skips the reload (revision unchanged), mutates the dirty copy and
writes it back under the unchanged revision: the acknowledged topic 1 is gone cluster-wide.  Second
conjunct: a `CreateTopic` whose txn failed is answered "exists" on retry although etcd never held it. -/
theorem _root_.KafVerif.C21.fastpath_refresh_seeded :
    invB (runFast merge (init loc0)
      [.begin 1 (.create 1 1), .commit 1, .begin 0 (.create 2 1), .commit 0,
       .beginFail 0 (.delete 1), .begin 0 (.create 3 1), .commit 0]) = false ∧
    (runFast merge (init loc0)
      [.begin 1 (.create 1 1), .commit 1, .begin 0 (.create 2 1), .commit 0,
       .beginFail 0 (.delete 1), .begin 0 (.create 3 1), .commit 0]).etcd = some [(2, 1), (3, 1)] ∧
    (stepFast merge (runFastF merge (init loc0)
        [.begin 0 (.create 1 1), .commit 0, .watch 0, .begin 0 (.create 2 1), .commitFail 0 false])
        (.begin 0 (.create 2 1))).2 = .exists_ ∧
    (runFast merge (init loc0)
        [.begin 0 (.create 1 1), .commit 0, .watch 0, .begin 0 (.create 2 1), .commitFail 0 false]).etcd = some [(1, 1)] := by
  decide

end KafVerif.Snapshot
