import KafVerif.Lemmas.PLogLoss
/-!
C02 — offsets stay contiguous ACROSS a restart that loses objects (seeded change C02-r3-1).

A flush uploads the segment object and its index object separately.  When the segment upload succeeded and the index
upload did not (or the broker died between the two), S3 holds an *orphan*: a `.kfs` object without a usable `.index`,
at or above the metadata store's next offset (the batch was never acknowledged).  `RestoreFromS3` skips orphans.  The
offsets it hands out afterwards must continue at the end of the last segment that SURVIVED the index check — not at the
end of the highest object it merely listed — otherwise the acknowledged log has a hole.

(Own file: `Lemmas/PLogLoss.lean` imports `Props/C02.lean`.)

* `restore_next_is_retained_end`  for EVERY log / S3 listing / set of index-less objects / store offset: after a successful
                                  restore the segment list is exactly what the index check kept, nothing is pending, the reported
                                  last offset is that of the LAST KEPT segment and `nextOffset = max(store offset, that + 1)`
                                  (`store offset` when nothing was kept).
* `first_ack_after_restore`       … so the first record set acknowledged after the restart gets exactly that base.
* `offsets_chain_after_loss`      every reachable state (ANY op list, arbitrary client bytes), ANY list of lost objects (orphans in
                                  the middle, at the end, everything), ANY store offset `≥ start`, restore ok, then ANY further ops
                                  up to the next restart: the kept segments are a sub-list of the old ones in order
                                  (`SegGap`, all below `nextOffset`), and everything stored after the restart — new segments,
                                  in-flight flush, write buffer — is one `Chain` that starts EXACTLY at the restored `nextOffset`.
* `index_loss_restart_is_contiguous`  when only index objects were lost (half-uploaded flushes; no segment object deleted) and the
                                  store offset is not ahead of the published watermark, the restored `nextOffset` is exactly one past
                                  the last kept segment (or the start offset when none is kept): no hole opens at the restart.
* `max_footer_restore_leaves_gap` witness for the seeded change: A=[0..1] valid, orphan [2..4]; the patched restore continues
                                  at 5, the coded one at 2.
-/
namespace KafVerif.PLog
open KafVerif KafVerif.RecBatch

/-! ### what `RestoreFromS3` computes, for every input -/

/-- **C02 (restore, all inputs).**  No hypothesis on the log: whatever S3 lists and whichever index objects are unusable, a
successful restore registers exactly the segments the index check kept (`scanIdx`), leaves nothing pending, reports the last
offset of the LAST KEPT segment (−1: none) and sets `nextOffset` to one past it, or to the store offset when that is larger. -/
theorem _root_.KafVerif.C02.restore_next_is_retained_end (x : LLog) (st last : Int)
    (hr : (restoreAt x st).2 = .ok last) :
    let l' := (restoreAt x st).1.l
    scanIdx x.noIdx st (sortSegs x.l.s3) = some l'.segs ∧ l'.fl = [] ∧ l'.buf = [] ∧ l'.gated = false ∧
    (l'.segs = [] → last = -1 ∧ l'.next = st) ∧
    (∀ g, l'.segs.getLast? = some g → last = g.last ∧ (st ≤ g.last → l'.next = g.last + 1) ∧ (g.last < st → l'.next = st)) := by
  intro l'
  have hl' : l' = (restoreAt x st).1.l := rfl
  unfold restoreAt at hr hl'
  cases hscan : scanIdx x.noIdx st (sortSegs x.l.s3) with
  | none => simp [hscan] at hr
  | some segs =>
    rw [hscan] at hr hl'
    simp only at hr hl'
    cases hlast : segs.getLast? with
    | none =>
      have hnil : segs = [] := by simpa using hlast
      rw [hlast] at hr hl'
      simp only [RestoreOut.ok.injEq] at hr
      simp only [freshAt] at hl'
      refine ⟨by rw [hl', hnil], by rw [hl'], by rw [hl'], by rw [hl'], ?_, ?_⟩
      · intro _; exact ⟨by omega, by rw [hl']⟩
      · rw [hl']; intro g hg; simp at hg
    | some s =>
      rw [hlast] at hr hl'
      simp only [RestoreOut.ok.injEq] at hr
      have hsegs : l'.segs = segs := by rw [hl']
      have hnext : l'.next = if s.last ≥ st then s.last + 1 else st := by rw [hl']
      refine ⟨by rw [hsegs], by rw [hl'], by rw [hl'], by rw [hl'], ?_, ?_⟩
      · intro hn
        rw [hsegs] at hn
        rw [hn] at hlast; simp at hlast
      · rw [hsegs, hlast]
        intro g hg
        simp only [Option.some.injEq] at hg
        subst hg
        refine ⟨hr.symm, fun h => ?_, fun h => ?_⟩
        · rw [hnext, if_pos (by omega)]
        · rw [hnext, if_neg (by omega)]

/-- **C02 (first acknowledgement after a restart).**  The first record set acknowledged by the restored log gets the base
`(last kept segment's last offset) + 1`, or the store offset when that is larger / nothing was kept. -/
theorem _root_.KafVerif.C02.first_ack_after_restore (x : LLog) (st last : Int) (hr : (restoreAt x st).2 = .ok last)
    (b : Batch) (base lst : Int) (ha : (append (restoreAt x st).1.l b).2 = .ok base lst) :
    ((restoreAt x st).1.l.segs = [] → base = st) ∧
    (∀ g, (restoreAt x st).1.l.segs.getLast? = some g → (st ≤ g.last → base = g.last + 1) ∧ (g.last < st → base = st)) := by
  obtain ⟨_, _, _, _, h5, h6⟩ := KafVerif.C02.restore_next_is_retained_end x st last hr
  obtain ⟨hb, _⟩ := KafVerif.C02.response_is_stored_base _ b base lst ha
  refine ⟨fun hn => by rw [hb]; exact (h5 hn).2, fun g hg => ?_⟩
  obtain ⟨_, a, c⟩ := h6 g hg
  exact ⟨fun h => by rw [hb]; exact a h, fun h => by rw [hb]; exact c h⟩

/-! ### reachable states: offsets only (no assumption on the client bytes) -/

/-- `restore_gapped` without the byte-level part: from C02's invariant alone. -/
theorem restore_offsets {start : Int} {l : PLog} (hi : Inv start l) (losses : List Loss) (st last : Int)
    (hst : start ≤ st) (hr : (restoreAt (losses.foldl lose { l := l }) st).2 = .ok last) :
    let l' := (restoreAt (losses.foldl lose { l := l }) st).1.l
    SegGap start l'.segs l'.next ∧ l'.segs.Sublist l.segs := by
  obtain ⟨m, h1, _, h3, _⟩ := hi
  obtain ⟨x1, _⟩ := lose_fold losses { l := l }
  obtain ⟨r1, _, _, _, r5, r6⟩ := KafVerif.C02.restore_next_is_retained_end _ st last hr
  generalize losses.foldl lose { l := l } = x at x1 hr r1 r5 r6 ⊢
  dsimp only
  generalize (restoreAt x st).1.l = l' at r1 r5 r6 ⊢
  simp only at x1
  have hs3gap : SegGap start x.l.s3 m := seggap_sublist (segchain_gap h1) (h3 ▸ x1)
  rw [sortSegs_gap hs3gap] at r1
  have hsub : l'.segs.Sublist x.l.s3 := scanIdx_sublist _ _ _ _ r1
  have hgap : SegGap start l'.segs m := seggap_sublist hs3gap hsub
  refine ⟨?_, hsub.trans (h3 ▸ x1)⟩
  cases hlast : l'.segs.getLast? with
  | none =>
    have hnil : l'.segs = [] := by simpa using hlast
    have := (r5 hnil).2
    rw [hnil]; simp only [SegGap]
    omega
  | some g =>
    obtain ⟨_, a, b⟩ := r6 g hlast
    have htight := seggap_tight hgap hlast
    refine seggap_end htight ?_
    by_cases h : st ≤ g.last
    · rw [a h]; omega
    · rw [b (by omega)]; omega

/-- offsets-only invariant of a restored log: the segment list is the retained list `r` followed by the segments committed
since, and those, the in-flight flush and the write buffer form one chain from `e` (the restored `nextOffset`). -/
def InvR (r : List Seg) (e : Int) (l : PLog) : Prop :=
  ∃ ns m, l.segs = r ++ ns ∧ SegChain e ns m ∧ Chain m (l.fl ++ l.buf) l.next ∧
    (l.gated = false → l.fl = []) ∧ (l.gated = true → l.fl ≠ [])

theorem invR_commit {r : List Seg} {e : Int} {l : PLog} (ns : List Seg) (m : Int) (h0 : l.segs = r ++ ns)
    (h1 : SegChain e ns m) (h2 : Chain m (l.fl ++ l.buf) l.next) (hne : l.fl ≠ []) : InvR r e (commit l) := by
  obtain ⟨k, hk1, hk2⟩ := chain_append.mp h2
  obtain ⟨hb, hlast⟩ := buildSegment_meta (iv := l.interval) hne hk1
  have hnew : SegChain m [buildSegment l.interval l.fl] k := by
    refine ⟨by rw [buildSegment_batches]; exact hne, hb, ?_, ?_⟩
    · rw [buildSegment_batches, hlast]; exact hk1
    · simp [SegChain, hlast]
  refine ⟨ns ++ [buildSegment l.interval l.fl], k, ?_, segchain_append.mpr ⟨m, h1, hnew⟩, ?_, ?_, ?_⟩
  · simp [commit, h0]
  · simpa [commit] using hk2
  · intro _; simp [commit]
  · intro hg; simp [commit] at hg

theorem invR_flush {r : List Seg} {e : Int} {l : PLog} (hg : l.gated = false) (h : InvR r e l) : InvR r e (flush l) := by
  obtain ⟨ns, m, h0, h1, h2, h4, h5⟩ := h
  have hfl := h4 hg
  unfold flush
  split
  · split
    · exact ⟨ns, m, h0, h1, h2, h4, h5⟩
    · exact ⟨ns, m, h0, h1, h2, h4, h5⟩
  · rename_i hemp
    have hb : l.buf ≠ [] := by simpa using hemp
    apply invR_commit ns m
    · exact h0
    · exact h1
    · simpa [prepare, hfl] using h2
    · simpa [prepare] using hb

theorem invR_step {r : List Seg} {e : Int} {l : PLog} (op : Op) (hn : NoRestart op) (h : InvR r e l) :
    InvR r e (step l op) := by
  cases op with
  | append data =>
    simp only [step]
    split
    · exact h
    · rename_i b _
      unfold append
      split
      · rename_i hv
        obtain ⟨ns, m, h0, h1, h2, h4, h5⟩ := h
        refine ⟨ns, m, h0, h1, ?_, h4, h5⟩
        simp only
        rw [← List.append_assoc]
        refine chain_append.mpr ⟨l.next, h2, ?_⟩
        show Chain l.next [patch b l.next] (l.next + b.lod + 1)
        exact ⟨rfl, (validOk_lod hv : 0 ≤ b.lod), rfl⟩
      · exact h
  | flush =>
    simp only [step]
    by_cases hg : l.gated = true
    · simp [hg]; exact h
    · have hg' : l.gated = false := by simpa using hg
      simp [hg']; exact invR_flush hg' h
  | gate =>
    simp only [step]
    by_cases hg : l.gated = true
    · simp [hg]; exact h
    · have hg' : l.gated = false := by simpa using hg
      simp only [hg', Bool.false_eq_true, if_false]
      unfold gate
      split
      · exact invR_flush hg' h
      · rename_i hemp
        have hb : l.buf ≠ [] := by simpa using hemp
        obtain ⟨ns, m, h0, h1, h2, h4, h5⟩ := h
        have hfl := h4 hg'
        exact ⟨ns, m, h0, h1, by simpa [prepare, hfl] using h2, by simp, by intro _; simpa [prepare] using hb⟩
  | release =>
    simp only [step]
    by_cases hg : l.gated = true
    · simp only [hg, if_true]
      obtain ⟨ns, m, h0, h1, h2, h4, h5⟩ := h
      exact invR_commit ns m h0 h1 h2 (h5 hg)
    · have hg' : l.gated = false := by simpa using hg
      simp [hg']; exact h
  | restart => exact absurd hn (by simp [NoRestart])
  | restartAt st => exact absurd hn (by simp [NoRestart])
  | read o mb =>
    simp only [step]
    obtain ⟨e1, e2, e3, e4, _, e6, _, _⟩ := read_frame l o mb
    unfold InvR
    rw [e1, e2, e3, e4, e6]
    exact h
  | dropcache => exact h

theorem invR_reach {r : List Seg} {e : Int} (l : PLog) (ops : List Op) (hn : ∀ op ∈ ops, NoRestart op) (h : InvR r e l) :
    InvR r e (ops.foldl step l) := by
  induction ops generalizing l with
  | nil => exact h
  | cons op t ih =>
    exact ih (step l op) (fun o ho => hn o (by simp [ho])) (invR_step op (hn op (by simp)) h)

/-- **C02 (offsets stay a chain across a restart with object loss).**  For every configuration and EVERY operation list
(arbitrary client bytes) reaching a state `l`; every list of lost objects — index objects deleted or corrupted (orphans
in the middle, ABOVE the last valid segment, or everywhere), segment objects deleted —; every store offset `st ≥ start`:
if `RestoreFromS3` succeeds, then
* the registered segments are a sub-list of the old ones, in order, each still a chain of its batches, all below `nextOffset`;
* `nextOffset` is one past the LAST KEPT segment, or `st` when that is larger (or nothing was kept) — never the end of an
  object that was listed but skipped;
* in every state reached afterwards by appends (arbitrary bytes), flushes, gated flushes, releases, reads and cache drops
  (up to the next restart) the segment list is the kept list followed by new segments `ns`, and
  `ns`' batches ++ in-flight ++ buffered form one `Chain` from EXACTLY the restored `nextOffset` to the current one:
  the first batch acknowledged after the restart starts there, every next one at the previous `last + 1`. -/
theorem _root_.KafVerif.C02.offsets_chain_after_loss (iv : Int) (c : Bool) (start : Int) (ops : List Op)
    (losses : List Loss) (st last : Int) (hst : start ≤ st)
    (hr : (restoreAt (losses.foldl lose { l := ops.foldl step (PLog.new iv c start) }) st).2 = .ok last)
    (ops2 : List Op) (hn : ∀ op ∈ ops2, NoRestart op) :
    let l := ops.foldl step (PLog.new iv c start)
    let l' := (restoreAt (losses.foldl lose { l := l }) st).1.l
    let l2 := ops2.foldl step l'
    l'.segs.Sublist l.segs ∧ SegGap start l'.segs l'.next ∧ (∀ b ∈ segBatches l'.segs, b.last < l'.next) ∧
    (l'.segs = [] → l'.next = st) ∧
    (∀ g, l'.segs.getLast? = some g → last = g.last ∧ (st ≤ g.last → l'.next = g.last + 1) ∧ (g.last < st → l'.next = st)) ∧
    ∃ ns, l2.segs = l'.segs ++ ns ∧ Chain l'.next (segBatches ns ++ (l2.fl ++ l2.buf)) l2.next := by
  intro l l' l2
  have hi := inv_reach iv c start ops
  obtain ⟨r1, r2⟩ := restore_offsets hi losses st last hst hr
  obtain ⟨_, q2, q3, q4, q5, q6⟩ := KafVerif.C02.restore_next_is_retained_end _ st last hr
  have h0 : InvR l'.segs l'.next l' :=
    ⟨[], l'.next, by simp, by simp [SegChain], by
      show Chain l'.next (l'.fl ++ l'.buf) l'.next
      rw [q2, q3]; simp [Chain], fun _ => q2, fun h => by rw [q4] at h; simp at h⟩
  obtain ⟨ns, m, e0, e1, e2, _⟩ := invR_reach l' ops2 hn h0
  refine ⟨r2, r1, fun b hb => (seggap_batches r1 b hb).2, fun hn => (q5 hn).2, q6, ns, e0, ?_⟩
  exact chain_append.mpr ⟨m, segchain_chain e1, e2⟩

/-! ### only index objects lost: no hole opens at the restart -/

/-- the index check over consecutive segments `ss` (a `SegChain` from `s` to `e`) with every index-less segment at or above the
store offset `st ≤ e`: the end of the last kept segment (or `d`, the end of the kept part before `ss`) is at least … exactly
what `nextOffset` becomes. -/
theorem scan_chain_end (noIdx : List Int) (st : Int) :
    ∀ (ss out : List Seg) (s e : Int), SegChain s ss e → scanIdx noIdx st ss = some out →
      (out = [] → s = e ∨ st ≤ s) ∧ (∀ g, out.getLast? = some g → g.last + 1 = e ∨ st ≤ g.last + 1) := by
  intro ss
  induction ss with
  | nil =>
    intro out s e h hs
    simp [scanIdx] at hs; subst hs
    simp only [SegChain] at h
    exact ⟨fun _ => Or.inl h, fun g hg => by simp at hg⟩
  | cons g t ih =>
    intro out s e h hs
    obtain ⟨h1, h2, h3, h4⟩ := h
    have hlt := chain_lt h3 h1
    simp only [scanIdx] at hs
    split at hs
    · split at hs
      · -- skipped orphan at or above the store offset: everything after it is at or above st too
        rename_i hge
        obtain ⟨i1, i2⟩ := ih out (g.last + 1) e h4 hs
        refine ⟨fun _ => Or.inr (by omega), fun x hx => ?_⟩
        rcases i2 x hx with a | a
        · exact Or.inl a
        · exact Or.inr a
      · simp at hs
    · cases hr : scanIdx noIdx st t with
      | none => simp [hr] at hs
      | some r =>
        simp only [hr, Option.map_some, Option.some.injEq] at hs
        subst hs
        obtain ⟨i1, i2⟩ := ih r (g.last + 1) e h4 hr
        refine ⟨fun hn => by simp at hn, fun x hx => ?_⟩
        cases r with
        | nil =>
          simp at hx; subst hx
          rcases i1 rfl with a | a
          · exact Or.inl a
          · exact Or.inr a
        | cons y r' =>
          rw [List.getLast?_cons_cons] at hx
          exact i2 x hx

/-- **C02 (half-uploaded flushes leave no hole).**  Reachable state `l`; only INDEX objects are lost (any number, anywhere — the
state S3 is in after flushes whose segment upload succeeded and whose index upload failed, or a crash between the two); the store
offset is between the start offset and the published watermark.  If the restore succeeds, `nextOffset` is EXACTLY one past the last
kept segment — `start` when none is kept: the offsets handed out after the restart continue the retained log without a hole, and
the orphans' offsets (never acknowledged: at or above the store offset) are assigned again. -/
theorem _root_.KafVerif.C02.index_loss_restart_is_contiguous (iv : Int) (c : Bool) (start : Int) (ops : List Op)
    (bases : List Int) (st last : Int) (hst : start ≤ st)
    (hhw : st ≤ (ops.foldl step (PLog.new iv c start)).hw)
    (hr : (restoreAt ((bases.map Loss.index).foldl lose { l := ops.foldl step (PLog.new iv c start) }) st).2 = .ok last) :
    let l' := (restoreAt ((bases.map Loss.index).foldl lose { l := ops.foldl step (PLog.new iv c start) }) st).1.l
    (l'.segs = [] → l'.next = start ∧ st = start) ∧ (∀ g, l'.segs.getLast? = some g → l'.next = g.last + 1) := by
  dsimp only
  obtain ⟨m, h1, _, h3, _, _, _, h7, _⟩ := inv_reach iv c start ops
  obtain ⟨q1, _, _, _, q5, q6⟩ := KafVerif.C02.restore_next_is_retained_end _ st last hr
  -- index losses leave the S3 listing alone
  have hs3 : ∀ (bs : List Int) (x : LLog), ((bs.map Loss.index).foldl lose x).l.s3 = x.l.s3 := by
    intro bs
    induction bs with
    | nil => intro x; rfl
    | cons b t ih =>
      intro x
      simp only [List.map_cons, List.foldl_cons]
      rw [ih]
      simp only [lose, loseIndex]
      split <;> rfl
  have hs3' := hs3 bases { l := ops.foldl step (PLog.new iv c start) }
  generalize (bases.map Loss.index).foldl lose { l := ops.foldl step (PLog.new iv c start) } = x at hs3' hr q1 q5 q6 ⊢
  simp only at hs3'
  generalize (restoreAt x st).1.l = l' at q1 q5 q6 ⊢
  rw [hs3', h3, sortSegs_id h1] at q1
  obtain ⟨s1, s2⟩ := scan_chain_end x.noIdx st _ _ _ _ h1 q1
  have hsm : start ≤ m := chain_le (segchain_chain h1)
  refine ⟨fun hn => ?_, fun g hg => ?_⟩
  · have := (q5 hn).2
    rcases s1 hn with a | a
    · exact ⟨by omega, by omega⟩
    · exact ⟨by omega, by omega⟩
  · obtain ⟨_, a, b⟩ := q6 g hg
    by_cases h : st ≤ g.last
    · exact a h
    · have hb := b (by omega)
      rcases s2 g hg with e | e
      · omega
      · omega

/-! ### the seeded change C02-r3-1 -/

/-- A = offsets 0..1 committed with its index; B = offsets 2..4: segment object uploaded, index object missing (half-uploaded
flush); the store offset is still 2 -/
def orphanLog : LLog :=
  loseIndex { l := ([.append (tinyBatch 1 0), .flush, .append (tinyBatch 2 0), .flush] : List Op).foldl step (PLog.new 100 false 0) } 2

set_option maxRecDepth 100000 in
/-- **Witness (seeded change C02-r3-1).**  The coded restore keeps segment [0..1], reports last offset 1 and continues at 2: the
next record set is acknowledged as [2..2], and its flush overwrites the orphan object (same key, base 2): S3 then lists [0..1], [2..2].
The restore that takes the highest footer over EVERY listed object reports 4 and continues at 5: the acknowledged batches
[0..1], [5..5] leave the offsets 2..4 unassigned — not a chain. -/
theorem _root_.KafVerif.C02.max_footer_restore_leaves_gap :
    (restoreAt orphanLog 2).2 = .ok 1 ∧ ((restoreAt orphanLog 2).1.l.segs.map fun s => (s.base, s.last)) = [(0, 1)] ∧
    (restoreAt orphanLog 2).1.l.next = 2 ∧
    ((step (restoreAt orphanLog 2).1.l (.append (tinyBatch 0 0))).buf.map fun b => (b.base, b.last)) = [(2, 2)] ∧
    ((step (step (restoreAt orphanLog 2).1.l (.append (tinyBatch 0 0))) .flush).s3.map fun s => (s.base, s.last)) = [(0, 1), (2, 2)] ∧
    (restoreAtMaxFooter orphanLog 2).2 = .ok 4 ∧ ((restoreAtMaxFooter orphanLog 2).1.l.segs.map fun s => (s.base, s.last)) = [(0, 1)] ∧
    (restoreAtMaxFooter orphanLog 2).1.l.next = 5 ∧
    ((step (restoreAtMaxFooter orphanLog 2).1.l (.append (tinyBatch 0 0))).log.map fun b => (b.base, b.last)) = [(0, 1), (5, 5)] ∧
    ¬ Chain 0 (step (restoreAtMaxFooter orphanLog 2).1.l (.append (tinyBatch 0 0))).log
        (step (restoreAtMaxFooter orphanLog 2).1.l (.append (tinyBatch 0 0))).next := by
  refine ⟨by decide, by decide, by decide, by decide, by decide, by decide, by decide, by decide, by decide, ?_⟩
  intro h
  have := KafVerif.C02.chain_covers h 3 (by decide) (by decide)
  revert this
  decide

/-! ### non-vacuity -/

instance instDecNoRestartC02 (op : Op) : Decidable (NoRestart op) := by cases op <;> unfold NoRestart <;> infer_instance

set_option maxRecDepth 100000 in
/-- the hypotheses of `offsets_chain_after_loss` / `index_loss_restart_is_contiguous` hold for the orphan layout: the restore
succeeds at a store offset between start and the published watermark, the tail has no restart, and the conclusion is the
expected one (next offset 2, then [2..2] buffered and [3..4] … ) -/
example :
    let l := ([.append (tinyBatch 1 0), .flush, .append (tinyBatch 2 0), .flush] : List Op).foldl step (PLog.new 100 false 0)
    (restoreAt ([Loss.index 2].foldl lose { l := l }) 2).2 = .ok 1 ∧ (0 : Int) ≤ 2 ∧ 2 ≤ l.hw ∧
    (∀ op ∈ ([.append (tinyBatch 0 0), .flush, .append (tinyBatch 1 0), .read 2 100] : List Op), NoRestart op) ∧
    ((([.append (tinyBatch 0 0), .flush, .append (tinyBatch 1 0), .read 2 100] : List Op).foldl step
      (restoreAt ([Loss.index 2].foldl lose { l := l }) 2).1.l).log.map fun b => (b.base, b.last)) = [(0, 1), (2, 2), (3, 4)] := by
  decide

end KafVerif.PLog
