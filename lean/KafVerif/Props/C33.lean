import KafVerif.Model.Processor
/-!
C33 — Processors deliver every record at least once before checkpointing.

Statement (properties.jsonl): the Iceberg, SQL and skeleton processors write every record of
every completed segment to their sink at least once; a partition's checkpoint never moves past
a record that has not been written; for any sequence of transient listing, decoding, LFS, sink
and checkpoint failures; including the partition's first record at offset 0.

* `checkpoint_covered` (safety, full strength): for EVERY list of completed segments whose
  listing order is offset order within each partition, EVERY store kind, and EVERY sequence of
  polling cycles with arbitrary failure oracles and lease losses in between, every record at or
  below the partition's checkpoint is in the sink.
* `clean_cycle_delivers` (progress, one-cycle lemma): a cycle in which no step fails leaves
  every record of the leased partition in the sink.
* `offset_zero_delivered`: in particular the record at offset 0, with either store.
* `checkpoint_covered_stat_skip`, `clean_cycle_delivers_stat_skip`, `skip_le_loses_record`: a loop
  that skips the download of a segment by its listed `MaxOffset` statistic keeps both theorems when
  the comparison is strict and loses a single-record segment when it is off by one.
* `continue_loses_records`, `lfs_drop_loses_records`, `noop_drops_offset_zero`: the code before
  the fixes violates the property (concrete witnesses, replayed on the real code by the check).
-/
namespace KafVerif.Processor

/-! ### small facts about the store -/

@[simp] theorem commit_sink (k : StoreKind) (s : St) (tp : Nat) (v : Int) :
    (commit k s tp v).sink = s.sink := by cases k <;> rfl

@[simp] theorem commit_lease (k : StoreKind) (s : St) (tp : Nat) (v : Int) :
    (commit k s tp v).lease = s.lease := by cases k <;> rfl

theorem load_commit_self (k : StoreKind) (s : St) (tp : Nat) (v : Int) :
    load k (commit k s tp v) tp = v ∨ load k (commit k s tp v) tp = -1 := by
  cases k
  · left; simp [load, loadWith, commit]
  · right; simp [load, loadWith, noopLoad]

theorem load_commit_other (k : StoreKind) (s : St) (tp t : Nat) (v : Int) (h : t ≠ tp) :
    load k (commit k s tp v) t = load k s t := by
  cases k
  · simp [load, loadWith, commit, h]
  · rfl

@[simp] theorem load_sink (k : StoreKind) (s : St) (l : List (Nat × Nat)) (tp : Nat) :
    load k { s with sink := l } tp = load k s tp := by cases k <;> rfl

theorem mem_keep {cp : Int} {offs : List Nat} {o : Nat} :
    o ∈ keep cp offs ↔ o ∈ offs ∧ cp < (o : Int) := by
  simp [keep, List.mem_filter]

theorem getLast_mem_of_ne_nil {l : List Nat} (h : l ≠ []) : l.getLast?.getD 0 ∈ l := by
  cases hl : l.getLast? with
  | none => simp [List.getLast?_eq_none_iff] at hl; exact absurd hl h
  | some x => simpa using List.mem_of_getLast? hl

theorem mem_tagged {tp : Nat} {recs : List Nat} {t o : Nat} :
    (t, o) ∈ tagged tp recs ↔ t = tp ∧ o ∈ recs := by
  unfold tagged
  rw [List.mem_map]
  constructor
  · rintro ⟨a, ha, h⟩
    cases h
    exact ⟨rfl, ha⟩
  · rintro ⟨rfl, ho⟩; exact ⟨o, ho, rfl⟩

/-! ### case analysis of the loop body -/

theorem process_cons (k : StoreKind) (tp : Nat) (seg : Seg) (rest : List Seg) (fs : List Fault) (s : St) :
    process k tp (seg :: rest) fs s =
      if (segBody k tp seg (fs.headD .none) s).2 then process k tp rest fs.tail (segBody k tp seg (fs.headD .none) s).1
      else (segBody k tp seg (fs.headD .none) s).1 := rfl

theorem segBody_other (k : StoreKind) (tp : Nat) (seg : Seg) (f : Fault) (s : St) (h : seg.tp ≠ tp) :
    segBody k tp seg f s = (s, true) := by
  unfold segBody; rw [if_pos h]

/-- the four ways the body can end for a segment of the leased partition -/
theorem segBody_cases (k : StoreKind) (tp : Nat) (seg : Seg) (f : Fault) (s : St) (h : seg.tp = tp) :
    segBody k tp seg f s = (s, false) ∨
    (keep (load k s tp) seg.offs = [] ∧ segBody k tp seg f s = (s, true)) ∨
    (keep (load k s tp) seg.offs ≠ [] ∧
      segBody k tp seg f s = ({ s with sink := s.sink ++ tagged tp (keep (load k s tp) seg.offs) }, true)) ∨
    (keep (load k s tp) seg.offs ≠ [] ∧
      segBody k tp seg f s =
        (commit k { s with sink := s.sink ++ tagged tp (keep (load k s tp) seg.offs) } tp
          (((keep (load k s tp) seg.offs).getLast?.getD 0 : Nat) : Int), true)) := by
  unfold segBody
  rw [if_neg (by simp [h])]
  by_cases h1 : f = Fault.load
  · rw [if_pos h1]; exact Or.inl rfl
  rw [if_neg h1]
  by_cases h2 : f = Fault.decode
  · rw [if_pos h2]; exact Or.inl rfl
  rw [if_neg h2]
  simp only []
  by_cases h3 : lfsFails f (keep (load k s tp) seg.offs) = true
  · rw [if_pos h3]; exact Or.inl rfl
  rw [if_neg h3]
  by_cases h4 : keep (load k s tp) seg.offs = []
  · rw [if_pos h4]; exact Or.inr (Or.inl ⟨h4, rfl⟩)
  rw [if_neg h4]
  by_cases h5 : f = Fault.sink
  · rw [if_pos h5]; exact Or.inl rfl
  rw [if_neg h5]
  by_cases h6 : f = Fault.commit
  · rw [if_pos h6]; exact Or.inr (Or.inr (Or.inl ⟨h4, rfl⟩))
  · rw [if_neg h6]; exact Or.inr (Or.inr (Or.inr ⟨h4, rfl⟩))

/-- without a fault the body either skips an already-covered segment or writes and commits -/
theorem segBody_clean (k : StoreKind) (tp : Nat) (seg : Seg) (s : St) (h : seg.tp = tp) :
    (keep (load k s tp) seg.offs = [] ∧ segBody k tp seg Fault.none s = (s, true)) ∨
    (keep (load k s tp) seg.offs ≠ [] ∧
      segBody k tp seg Fault.none s =
        (commit k { s with sink := s.sink ++ tagged tp (keep (load k s tp) seg.offs) } tp
          (((keep (load k s tp) seg.offs).getLast?.getD 0 : Nat) : Int), true)) := by
  unfold segBody
  rw [if_neg (by simp [h]), if_neg (by decide), if_neg (by decide)]
  simp only []
  rw [if_neg (by simp [lfsFails])]
  by_cases h4 : keep (load k s tp) seg.offs = []
  · rw [if_pos h4]; exact Or.inl ⟨h4, rfl⟩
  · rw [if_neg h4, if_neg (by decide), if_neg (by decide)]; exact Or.inr ⟨h4, rfl⟩

/-! ### what one loop body may change -/

/-- frame facts of `segBody`: the sink only grows, only records of the leased partition are
added, other partitions' checkpoints and the lease are untouched -/
structure Frame (k : StoreKind) (tp : Nat) (s s' : St) : Prop where
  sink_mono : ∀ x ∈ s.sink, x ∈ s'.sink
  other : ∀ t, t ≠ tp → load k s' t = load k s t
  lease : s'.lease = s.lease

theorem Frame.refl (k : StoreKind) (tp : Nat) (s : St) : Frame k tp s s :=
  ⟨fun _ h => h, fun _ _ => rfl, rfl⟩

theorem Frame.trans {k : StoreKind} {tp : Nat} {a b c : St} (h1 : Frame k tp a b) (h2 : Frame k tp b c) :
    Frame k tp a c :=
  ⟨fun x hx => h2.sink_mono x (h1.sink_mono x hx),
   fun t ht => (h2.other t ht).trans (h1.other t ht),
   h2.lease.trans h1.lease⟩

theorem segBody_frame (k : StoreKind) (tp : Nat) (seg : Seg) (f : Fault) (s : St) :
    Frame k tp s (segBody k tp seg f s).1 := by
  by_cases h : seg.tp = tp
  · rcases segBody_cases k tp seg f s h with e | ⟨_, e⟩ | ⟨_, e⟩ | ⟨_, e⟩ <;> rw [e]
    · exact Frame.refl ..
    · exact Frame.refl ..
    · exact ⟨fun x hx => List.mem_append.mpr (Or.inl hx), fun t _ => by simp, rfl⟩
    · refine ⟨fun x hx => ?_, fun t ht => ?_, ?_⟩
      · simp only [commit_sink]; exact List.mem_append.mpr (Or.inl hx)
      · simp only []; rw [load_commit_other k _ tp t _ ht]; simp
      · simp
  · rw [segBody_other k tp seg f s h]; exact Frame.refl ..

theorem process_frame (k : StoreKind) (tp : Nat) (segs : List Seg) :
    ∀ (fs : List Fault) (s : St), Frame k tp s (process k tp segs fs s) := by
  induction segs with
  | nil => intro fs s; exact Frame.refl ..
  | cons seg rest ih =>
    intro fs s
    rw [process_cons]
    split
    · exact (segBody_frame k tp seg _ s).trans (ih _ _)
    · exact segBody_frame k tp seg _ s

/-! ### the loop invariant (safety) -/

theorem process_covered (k : StoreKind) (tp : Nat) (rest : List Seg) :
    ∀ (pre : List Nat) (fs : List Fault) (s : St),
      (pre ++ offsOf tp rest).Pairwise (· < ·) →
      CoveredTP k tp (pre ++ offsOf tp rest) s →
      (∀ o ∈ pre, (tp, o) ∈ s.sink) →
      CoveredTP k tp (pre ++ offsOf tp rest) (process k tp rest fs s) := by
  induction rest with
  | nil => intro pre fs s _ hc _; simpa [process] using hc
  | cons seg rest ih =>
    intro pre fs s hsorted hc hp
    rw [process_cons]
    by_cases htp : seg.tp = tp
    · -- a segment of the leased partition
      have hoffs : offsOf tp (seg :: rest) = seg.offs ++ offsOf tp rest := by simp [offsOf, htp]
      have hall : pre ++ offsOf tp (seg :: rest) = (pre ++ seg.offs) ++ offsOf tp rest := by
        rw [hoffs]; simp
      -- every record of this segment that the filter drops is already in the sink
      have hdropped : ∀ o ∈ seg.offs, (o : Int) ≤ load k s tp → (tp, o) ∈ s.sink := by
        intro o ho hle
        exact hc o (by rw [hoffs]; simp [ho]) hle
      have hseg_in : ∀ o ∈ seg.offs, (tp, o) ∈ s.sink ++ tagged tp (keep (load k s tp) seg.offs) := by
        intro o ho
        by_cases hle : (o : Int) ≤ load k s tp
        · exact List.mem_append.mpr (Or.inl (hdropped o ho hle))
        · exact List.mem_append.mpr (Or.inr (mem_tagged.mpr ⟨rfl, mem_keep.mpr ⟨ho, by omega⟩⟩))
      have hpre_in : ∀ o ∈ pre ++ seg.offs, (tp, o) ∈ s.sink ++ tagged tp (keep (load k s tp) seg.offs) := by
        intro o ho
        rcases List.mem_append.mp ho with h | h
        · exact List.mem_append.mpr (Or.inl (hp o h))
        · exact hseg_in o h
      rcases segBody_cases k tp seg (fs.headD .none) s htp with e | ⟨hrecs, e⟩ | ⟨hrecs, e⟩ | ⟨hrecs, e⟩ <;> rw [e]
      · -- a step failed: the loop is left, nothing changed
        simpa using hc
      · -- nothing new in this segment: `continue`
        simp only [if_true]
        rw [hall]
        apply ih (pre ++ seg.offs) fs.tail s (by rw [← hall]; exact hsorted) (by rw [← hall]; exact hc)
        intro o ho
        rcases List.mem_append.mp ho with h | h
        · exact hp o h
        · apply hdropped o h
          by_cases hlt : load k s tp < (o : Int)
          · have : o ∈ keep (load k s tp) seg.offs := mem_keep.mpr ⟨h, hlt⟩
            rw [hrecs] at this; exact absurd this (List.not_mem_nil)
          · omega
      · -- written, commit failed: checkpoint unchanged, sink grew
        simp only [if_true]
        rw [hall]
        apply ih (pre ++ seg.offs) fs.tail _ (by rw [← hall]; exact hsorted)
        · intro o ho hle
          simp only [load_sink] at hle
          rw [← hall] at ho
          exact List.mem_append.mpr (Or.inl (hc o ho hle))
        · exact hpre_in
      · -- written and committed
        simp only [if_true]
        rw [hall]
        have hlast := getLast_mem_of_ne_nil hrecs
        have hlastseg : (keep (load k s tp) seg.offs).getLast?.getD 0 ∈ seg.offs := (mem_keep.mp hlast).1
        apply ih (pre ++ seg.offs) fs.tail _ (by rw [← hall]; exact hsorted)
        · intro o ho hle
          simp only [commit_sink]
          rcases List.mem_append.mp ho with h | h
          · exact hpre_in o h
          · -- a record of a later segment is above the new checkpoint
            exfalso
            rw [hall] at hsorted
            have hlt := (List.pairwise_append.mp hsorted).2.2 _ (List.mem_append.mpr (Or.inr hlastseg)) _ h
            rcases load_commit_self k { s with sink := s.sink ++ tagged tp (keep (load k s tp) seg.offs) } tp
              (((keep (load k s tp) seg.offs).getLast?.getD 0 : Nat) : Int) with he | he
            · rw [he] at hle; omega
            · rw [he] at hle; omega
        · intro o ho
          simp only [commit_sink]
          exact hpre_in o ho
    · -- a segment of another partition: `continue`
      have hoffs : offsOf tp (seg :: rest) = offsOf tp rest := by simp [offsOf, htp]
      rw [segBody_other k tp seg _ s htp]
      simp only [if_true]
      rw [hoffs] at hsorted hc ⊢
      exact ih pre fs.tail s hsorted hc hp

/-- one `for` loop over the listing keeps `Covered` for every partition -/
theorem process_covered_all (k : StoreKind) (tp : Nat) (segs : List Seg) (fs : List Fault) (s : St)
    (hs : SortedTP segs) (hc : Covered k segs s) : Covered k segs (process k tp segs fs s) := by
  intro t
  by_cases ht : t = tp
  · subst ht
    have := process_covered k t segs [] fs s (by simpa using hs t) (by simpa using hc t) (by simp)
    simpa using this
  · have hf := process_frame k tp segs fs s
    intro o ho hle
    rw [hf.other t ht] at hle
    exact hf.sink_mono _ (hc t o ho hle)

theorem cycle_covered (k : StoreKind) (segs : List Seg) (o : Oracle) (s : St)
    (hs : SortedTP segs) (hc : Covered k segs s) : Covered k segs (cycle k segs o s) := by
  unfold cycle
  split
  · exact hc
  · simp only []
    have hc1 : ∀ l, Covered k segs { s with lease := l } := by
      intro l t o ho hle
      cases k <;> exact hc t o ho hle
    split
    · split
      · rename_i h; simp_all
      · exact hc1 _
    · rename_i tp htp
      split at htp
      · exact process_covered_all k tp segs _ _ hs hc
      · exact process_covered_all k tp segs _ _ hs (hc1 _)

theorem step_covered (k : StoreKind) (segs : List Seg) (s : St) (op : Op)
    (hs : SortedTP segs) (hc : Covered k segs s) : Covered k segs (step k segs s op) := by
  cases op with
  | cycle o => exact cycle_covered k segs o s hs hc
  | leaseLost =>
    intro t o ho hle
    cases k <;> exact hc t o ho hle

theorem init_covered (k : StoreKind) (segs : List Seg) : Covered k segs init := by
  intro t o _ hle
  cases k <;> simp [load, loadWith, init, noopLoad] at hle <;> omega

/-- **C33 (safety).** For every set of completed segments listed in offset order per partition,
either checkpoint store, and every history of polling cycles (each with an arbitrary oracle of
listing / claim / load / decode / LFS / sink / commit failures) and lease losses: every record
at or below its partition's checkpoint has been written to the sink. -/
theorem _root_.KafVerif.C33.checkpoint_covered (k : StoreKind) (segs : List Seg) (hs : SortedTP segs)
    (ops : List Op) : Covered k segs (ops.foldl (step k segs) init) := by
  have h0 := init_covered k segs
  generalize init = s at h0 ⊢
  induction ops generalizing s with
  | nil => simpa using h0
  | cons op ops ih => exact ih _ (step_covered k segs s op hs h0)

/-- the executable monitor agrees with the specification on the partitions that occur -/
theorem _root_.KafVerif.C33.coveredB_of_covered (k : StoreKind) (segs : List Seg) (s : St)
    (h : Covered k segs s) : coveredB k segs s = true := by
  unfold coveredB
  rw [List.all_eq_true]
  intro seg hseg
  rw [List.all_eq_true]
  intro o ho
  by_cases hle : (o : Int) ≤ load k s seg.tp
  · have hmem : o ∈ offsOf seg.tp segs := by
      clear h hle
      induction segs with
      | nil => simp at hseg
      | cons a rest ih =>
        rcases List.mem_cons.mp hseg with rfl | h'
        · simp [offsOf, ho]
        · unfold offsOf; split
          · exact List.mem_append.mpr (Or.inr (ih h'))
          · exact ih h'
    have := h seg.tp o hmem hle
    simp [hle, this]
  · simp [hle]

/-! ### progress: a failure-free cycle delivers the whole partition -/

def noFaults (fs : List Fault) : Prop := ∀ f ∈ fs, f = Fault.none

theorem noFaults_head {fs : List Fault} (h : noFaults fs) : fs.headD Fault.none = Fault.none := by
  cases fs with
  | nil => rfl
  | cons a t => exact h a (by simp)

theorem noFaults_tail {fs : List Fault} (h : noFaults fs) : noFaults fs.tail := by
  cases fs with
  | nil => exact h
  | cons a t => intro f hf; exact h f (List.mem_cons_of_mem _ hf)

theorem process_delivers (k : StoreKind) (tp : Nat) (rest : List Seg) :
    ∀ (pre : List Nat) (fs : List Fault) (s : St), noFaults fs →
      (pre ++ offsOf tp rest).Pairwise (· < ·) →
      CoveredTP k tp (pre ++ offsOf tp rest) s →
      (∀ o ∈ pre, (tp, o) ∈ s.sink) →
      ∀ o ∈ pre ++ offsOf tp rest, (tp, o) ∈ (process k tp rest fs s).sink := by
  induction rest with
  | nil => intro pre fs s _ _ _ hp o ho; simp [offsOf] at ho; simpa [process] using hp o ho
  | cons seg rest ih =>
    intro pre fs s hnf hsorted hc hp
    have hhead := noFaults_head hnf
    rw [process_cons, hhead]
    by_cases htp : seg.tp = tp
    · have hoffs : offsOf tp (seg :: rest) = seg.offs ++ offsOf tp rest := by simp [offsOf, htp]
      have hall : pre ++ offsOf tp (seg :: rest) = (pre ++ seg.offs) ++ offsOf tp rest := by
        rw [hoffs]; simp
      have hdropped : ∀ o ∈ seg.offs, (o : Int) ≤ load k s tp → (tp, o) ∈ s.sink := by
        intro o ho hle
        exact hc o (by rw [hoffs]; simp [ho]) hle
      rcases segBody_clean k tp seg s htp with ⟨hrecs, e⟩ | ⟨hrecs, e⟩ <;> rw [e]
      · simp only [if_true]
        rw [hall]
        apply ih (pre ++ seg.offs) fs.tail s (noFaults_tail hnf) (by rw [← hall]; exact hsorted)
          (by rw [← hall]; exact hc)
        intro o ho
        rcases List.mem_append.mp ho with h | h
        · exact hp o h
        · apply hdropped o h
          by_cases hlt : load k s tp < (o : Int)
          · have : o ∈ keep (load k s tp) seg.offs := mem_keep.mpr ⟨h, hlt⟩
            rw [hrecs] at this; exact absurd this (List.not_mem_nil)
          · omega
      · simp only [if_true]
        rw [hall]
        have hlast := getLast_mem_of_ne_nil hrecs
        have hlastseg : (keep (load k s tp) seg.offs).getLast?.getD 0 ∈ seg.offs := (mem_keep.mp hlast).1
        have hpre_in : ∀ o ∈ pre ++ seg.offs, (tp, o) ∈ s.sink ++ tagged tp (keep (load k s tp) seg.offs) := by
          intro o ho
          rcases List.mem_append.mp ho with h | h
          · exact List.mem_append.mpr (Or.inl (hp o h))
          · by_cases hle : (o : Int) ≤ load k s tp
            · exact List.mem_append.mpr (Or.inl (hdropped o h hle))
            · exact List.mem_append.mpr (Or.inr (mem_tagged.mpr ⟨rfl, mem_keep.mpr ⟨h, by omega⟩⟩))
        apply ih (pre ++ seg.offs) fs.tail _ (noFaults_tail hnf) (by rw [← hall]; exact hsorted)
        · intro o ho hle
          simp only [commit_sink]
          rcases List.mem_append.mp ho with h | h
          · exact hpre_in o h
          · exfalso
            rw [hall] at hsorted
            have hlt := (List.pairwise_append.mp hsorted).2.2 _ (List.mem_append.mpr (Or.inr hlastseg)) _ h
            rcases load_commit_self k { s with sink := s.sink ++ tagged tp (keep (load k s tp) seg.offs) } tp
              (((keep (load k s tp) seg.offs).getLast?.getD 0 : Nat) : Int) with he | he
            · rw [he] at hle; omega
            · rw [he] at hle; omega
        · intro o ho
          simp only [commit_sink]
          exact hpre_in o ho
    · have hoffs : offsOf tp (seg :: rest) = offsOf tp rest := by simp [offsOf, htp]
      rw [segBody_other k tp seg _ s htp]
      simp only [if_true]
      rw [hoffs] at hsorted hc ⊢
      exact ih pre fs.tail s (noFaults_tail hnf) hsorted hc hp

/-- what the cycle's lease will be -/
def leaseAfter (segs : List Seg) (o : Oracle) (s : St) : Option Nat :=
  match s.lease with
  | some tp => some tp
  | none => claim segs o.claimFail

/-- **C33 (progress, one-cycle lemma).** In any state that satisfies the safety invariant, a
cycle in which listing succeeds, a lease on `tp` is held or obtained and no step fails leaves
EVERY record of every completed segment of `tp` in the sink. -/
theorem _root_.KafVerif.C33.clean_cycle_delivers (k : StoreKind) (segs : List Seg) (hs : SortedTP segs)
    (o : Oracle) (s : St) (hc : Covered k segs s) (tp : Nat)
    (hlist : o.listFail = false) (hlease : leaseAfter segs o s = some tp) (hnf : noFaults o.faults) :
    ∀ x ∈ offsOf tp segs, (tp, x) ∈ (cycle k segs o s).sink := by
  have hc1 : ∀ l, CoveredTP k tp (offsOf tp segs) { s with lease := l } := by
    intro l x hx hle
    cases k <;> exact hc tp x hx hle
  unfold cycle
  rw [hlist]
  simp only [Bool.false_eq_true, if_false]
  unfold leaseAfter at hlease
  split at hlease
  · rename_i t ht
    cases hlease
    simp only [ht]
    have := process_delivers k tp segs [] o.faults s hnf (by simpa using hs tp) (by simpa using hc tp) (by simp)
    simpa using this
  · rename_i hnone
    simp only [hnone, hlease]
    have := process_delivers k tp segs [] o.faults { s with lease := some tp } hnf (by simpa using hs tp)
      (by simpa using hc1 (some tp)) (by simp)
    simpa using this

/-- **C33 (offset 0).** Starting fresh, with either store, the first failure-free cycle writes
the record at offset 0 of the partition it leases. -/
theorem _root_.KafVerif.C33.offset_zero_delivered (k : StoreKind) (segs : List Seg) (hs : SortedTP segs)
    (o : Oracle) (tp : Nat) (hlist : o.listFail = false) (hlease : claim segs o.claimFail = some tp)
    (hnf : noFaults o.faults) (h0 : 0 ∈ offsOf tp segs) :
    (tp, 0) ∈ (cycle k segs o init).sink :=
  KafVerif.C33.clean_cycle_delivers k segs hs o init (init_covered k segs) tp hlist
    (by simpa [leaseAfter, init] using hlease) hnf 0 h0

/-! ### the code before the fixes violates the property -/

/-- `continue` past a failing segment, then a later segment commits: the skipped records are at
or below the checkpoint and were never written (decode of segment 0 fails in cycle 1). -/
theorem _root_.KafVerif.C33.continue_loses_records :
    ∃ (segs : List Seg) (o : Oracle), SortedTP segs ∧
      ¬ Covered .mem segs (cycleOld noopLoad .mem segs o init) := by
  refine ⟨[⟨0, [0, 1]⟩, ⟨0, [2, 3]⟩], ⟨false, [], [.decode, .none]⟩, ?_, ?_⟩
  · intro tp
    by_cases h : tp = 0
    · subst h; decide
    · have h' : (0 : Nat) ≠ tp := fun e => h e.symm
      have : offsOf tp [⟨0, [0, 1]⟩, ⟨0, [2, 3]⟩] = [] := by
        simp [offsOf, h']
      rw [this]; exact List.Pairwise.nil
  · intro h
    have := h 0 1 (by decide) (by decide)
    revert this; decide

/-- pre-fix `resolveLfsRecords` drops the record whose blob could not be fetched; the rest of the
segment is written and committed, so the dropped record is lost. -/
theorem _root_.KafVerif.C33.lfs_drop_loses_records :
    ∃ (segs : List Seg) (o : Oracle), SortedTP segs ∧
      ¬ Covered .mem segs (cycleOld noopLoad .mem segs o init) := by
  refine ⟨[⟨0, [0, 1, 2]⟩], ⟨false, [], [.lfs [1]]⟩, ?_, ?_⟩
  · intro tp
    by_cases h : tp = 0
    · subst h; decide
    · have h' : (0 : Nat) ≠ tp := fun e => h e.symm
      have : offsOf tp [⟨0, [0, 1, 2]⟩] = [] := by
        simp [offsOf, h']
      rw [this]; exact List.Pairwise.nil
  · intro h
    have := h 0 1 (by decide) (by decide)
    revert this; decide

/-- pre-fix `noopStore.LoadOffset` answers 0 and the filter is strict: the record at offset 0 is
never written, in any number of failure-free cycles. -/
theorem _root_.KafVerif.C33.noop_drops_offset_zero (n : Nat) :
    (0, 0) ∉ ((List.replicate n (⟨false, [], []⟩ : Oracle)).foldl
      (fun s o => cycleOld noopLoadOld .noop [⟨0, [0, 1, 2]⟩] o s) init).sink := by
  have key : ∀ (s : St), (0, 0) ∉ s.sink → s.lease = none ∨ s.lease = some 0 →
      (0, 0) ∉ (cycleOld noopLoadOld .noop [⟨0, [0, 1, 2]⟩] ⟨false, [], []⟩ s).sink ∧
      ((cycleOld noopLoadOld .noop [⟨0, [0, 1, 2]⟩] ⟨false, [], []⟩ s).lease = none ∨
       (cycleOld noopLoadOld .noop [⟨0, [0, 1, 2]⟩] ⟨false, [], []⟩ s).lease = some 0) := by
    intro s hs hl
    rcases hl with hl | hl <;>
      simp [cycleOld, hl, claim, processOld, segBodyOld, loadWith, noopLoadOld, keep, lfsDropOld,
        tagged, commit, hs]
  have : ∀ (s : St), (0, 0) ∉ s.sink → (s.lease = none ∨ s.lease = some 0) →
      (0, 0) ∉ ((List.replicate n (⟨false, [], []⟩ : Oracle)).foldl
        (fun s o => cycleOld noopLoadOld .noop [⟨0, [0, 1, 2]⟩] o s) s).sink := by
    induction n with
    | zero => intro s hs _; simpa using hs
    | succ n ih =>
      intro s hs hl
      rw [List.replicate_succ, List.foldl_cons]
      exact ih _ (key s hs hl).1 (key s hs hl).2
  exact this init (by simp [init]) (Or.inl rfl)

/-! ### non-vacuity of the hypotheses -/

example : SortedTP [⟨0, [0, 1]⟩, ⟨1, [0]⟩, ⟨0, [2, 3]⟩] := by
  intro tp
  by_cases h0 : tp = 0
  · subst h0; decide
  · by_cases h1 : tp = 1
    · subst h1; decide
    · have h0' : (0 : Nat) ≠ tp := fun e => h0 e.symm
      have h1' : (1 : Nat) ≠ tp := fun e => h1 e.symm
      have : offsOf tp [⟨0, [0, 1]⟩, ⟨1, [0]⟩, ⟨0, [2, 3]⟩] = [] := by
        simp [offsOf, h0', h1']
      rw [this]; exact List.Pairwise.nil

example : noFaults [Fault.none, Fault.none] := by intro f hf; simp at hf; exact hf
example : claim [⟨0, [0, 1]⟩] [] = some 0 := by decide
example : (0 : Nat) ∈ offsOf 0 [⟨0, [0, 1]⟩] := by decide

/-! ### histories in which new segments complete between cycles -/

/-- listing `b` extends listing `a`: per partition, `a`'s offsets are a prefix of `b`'s (new
segments only ever appear at the end of a partition) -/
def Extends (a b : List Seg) : Prop := ∀ tp, offsOf tp a <+: offsOf tp b

inductive GOp where
  | cycle (segs : List Seg) (o : Oracle)   -- this tick's `ListCompleted` result and failure oracle
  | leaseLost

def grun (k : StoreKind) : List Seg → St → List GOp → List Seg × St
  | cur, s, [] => (cur, s)
  | _, s, .cycle segs o :: rest => grun k segs (cycle k segs o s) rest
  | cur, s, .leaseLost :: rest => grun k cur { s with lease := none } rest

/-- every listing extends the previous one and is in offset order per partition -/
def GoodHistory : List Seg → List GOp → Prop
  | _, [] => True
  | cur, .cycle segs _ :: rest => Extends cur segs ∧ SortedTP segs ∧ GoodHistory segs rest
  | cur, .leaseLost :: rest => GoodHistory cur rest

/-- the checkpoint of a partition is −1 or the offset of a listed record -/
def CpListed (k : StoreKind) (segs : List Seg) (s : St) : Prop :=
  ∀ tp, load k s tp = -1 ∨ ∃ o ∈ offsOf tp segs, load k s tp = (o : Int)

theorem offsOf_mem_of_mem {tp : Nat} {segs : List Seg} {seg : Seg} (hs : seg ∈ segs) (ht : seg.tp = tp)
    {o : Nat} (ho : o ∈ seg.offs) : o ∈ offsOf tp segs := by
  induction segs with
  | nil => simp at hs
  | cons a rest ih =>
    rcases List.mem_cons.mp hs with rfl | h'
    · simp [offsOf, ht, ho]
    · unfold offsOf; split
      · exact List.mem_append.mpr (Or.inr (ih h'))
      · exact ih h'

theorem process_cpListed (k : StoreKind) (tp : Nat) (A : List Nat) (rest : List Seg) :
    ∀ (fs : List Fault) (s : St), (∀ seg ∈ rest, seg.tp = tp → ∀ o ∈ seg.offs, o ∈ A) →
      (load k s tp = -1 ∨ ∃ o ∈ A, load k s tp = (o : Int)) →
      (load k (process k tp rest fs s) tp = -1 ∨ ∃ o ∈ A, load k (process k tp rest fs s) tp = (o : Int)) := by
  induction rest with
  | nil => intro fs s _ h; simpa [process] using h
  | cons seg rest ih =>
    intro fs s hA h
    rw [process_cons]
    have hA' : ∀ x ∈ rest, x.tp = tp → ∀ o ∈ x.offs, o ∈ A := fun x hx => hA x (List.mem_cons_of_mem _ hx)
    by_cases htp : seg.tp = tp
    · rcases segBody_cases k tp seg (fs.headD .none) s htp with e | ⟨_, e⟩ | ⟨_, e⟩ | ⟨hrecs, e⟩ <;> rw [e]
      · simpa using h
      · simp only [if_true]; exact ih _ _ hA' h
      · simp only [if_true]; exact ih _ _ hA' (by simpa using h)
      · simp only [if_true]
        apply ih _ _ hA'
        rcases load_commit_self k { s with sink := s.sink ++ tagged tp (keep (load k s tp) seg.offs) } tp
          (((keep (load k s tp) seg.offs).getLast?.getD 0 : Nat) : Int) with he | he
        · right
          refine ⟨_, hA seg (by simp) htp _ (mem_keep.mp (getLast_mem_of_ne_nil hrecs)).1, he⟩
        · left; exact he
    · rw [segBody_other k tp seg _ s htp]
      simp only [if_true]
      exact ih _ _ hA' h

theorem cycle_cpListed (k : StoreKind) (segs : List Seg) (o : Oracle) (s : St) (h : CpListed k segs s) :
    CpListed k segs (cycle k segs o s) := by
  have hl : ∀ l, CpListed k segs { s with lease := l } := by
    intro l t; cases k <;> exact h t
  have key : ∀ (tp : Nat) (s' : St), CpListed k segs s' → CpListed k segs (process k tp segs o.faults s') := by
    intro tp s' h' t
    by_cases ht : t = tp
    · subst ht
      exact process_cpListed k t (offsOf t segs) segs o.faults s'
        (fun seg hseg htp x hx => offsOf_mem_of_mem hseg htp hx) (h' t)
    · rw [(process_frame k tp segs o.faults s').other t ht]; exact h' t
  unfold cycle
  split
  · exact h
  · simp only []
    split
    · split
      · exact h
      · exact hl _
    · rename_i tp htp
      split at htp
      · exact key tp s h
      · exact key tp _ (hl _)

/-- a longer listing keeps the invariants -/
theorem extend_inv (k : StoreKind) (cur segs : List Seg) (s : St) (he : Extends cur segs) (hs : SortedTP segs)
    (hc : Covered k cur s) (hp : CpListed k cur s) : Covered k segs s ∧ CpListed k segs s := by
  constructor
  · intro tp o ho hle
    obtain ⟨suffix, hsuf⟩ := he tp
    rw [← hsuf] at ho
    rcases List.mem_append.mp ho with h | h
    · exact hc tp o h hle
    · exfalso
      rcases hp tp with hm | ⟨o', ho', hm⟩
      · rw [hm] at hle; omega
      · have hsorted := hs tp
        rw [← hsuf] at hsorted
        have := (List.pairwise_append.mp hsorted).2.2 o' ho' o h
        rw [hm] at hle; omega
  · intro tp
    rcases hp tp with hm | ⟨o', ho', hm⟩
    · exact Or.inl hm
    · obtain ⟨suffix, hsuf⟩ := he tp
      exact Or.inr ⟨o', by rw [← hsuf]; exact List.mem_append.mpr (Or.inl ho'), hm⟩

theorem grun_covered (k : StoreKind) (ops : List GOp) :
    ∀ (cur : List Seg) (s : St), GoodHistory cur ops → Covered k cur s → CpListed k cur s →
      Covered k (grun k cur s ops).1 (grun k cur s ops).2 := by
  induction ops with
  | nil => intro cur s _ hc _; simpa [grun] using hc
  | cons op rest ih =>
    intro cur s hg hc hp
    cases op with
    | cycle segs o =>
      simp only [GoodHistory] at hg
      obtain ⟨he, hs, hg'⟩ := hg
      obtain ⟨hc', hp'⟩ := extend_inv k cur segs s he hs hc hp
      simp only [grun]
      exact ih segs _ hg' (cycle_covered k segs o s hs hc') (cycle_cpListed k segs o s hp')
    | leaseLost =>
      simp only [GoodHistory] at hg
      simp only [grun]
      apply ih cur _ hg
      · intro t x hx hle; cases k <;> exact hc t x hx hle
      · intro t; cases k <;> exact hp t

/-- **C33 (safety, growing log).** Also when new segments complete between polling cycles
(every listing extends the previous one per partition and is in offset order): after any
history of cycles, failure oracles and lease losses, every record of the LATEST listing at or
below its partition's checkpoint is in the sink. -/
theorem _root_.KafVerif.C33.checkpoint_covered_growing (k : StoreKind) (ops : List GOp)
    (h : GoodHistory [] ops) : Covered k (grun k [] init ops).1 (grun k [] init ops).2 := by
  apply grun_covered k ops [] init h
  · intro t o ho; simp [offsOf] at ho
  · intro t; left; cases k <;> simp [load, loadWith, init, noopLoad]

example : GoodHistory [] [.cycle [⟨0, [0, 1]⟩] ⟨false, [], []⟩, .leaseLost,
    .cycle [⟨0, [0, 1]⟩, ⟨0, [2]⟩] ⟨false, [], [.sink]⟩] := by
  refine ⟨fun tp => ?_, fun tp => ?_, fun tp => ?_, fun tp => ?_, trivial⟩
  · exact List.nil_prefix
  · by_cases h : tp = 0
    · subst h; decide
    · have h' : (0 : Nat) ≠ tp := fun e => h e.symm
      simp [offsOf, h']
  · by_cases h : tp = 0
    · subst h; exact ⟨[2], by decide⟩
    · have h' : (0 : Nat) ≠ tp := fun e => h e.symm
      simp [offsOf, h']
  · by_cases h : tp = 0
    · subst h; decide
    · have h' : (0 : Nat) ≠ tp := fun e => h e.symm
      simp [offsOf, h']

/-! ### a statistics fast path: `MaxOffset < next` is safe, `MaxOffset <= next` is not -/

theorem processSkip_cons (rule : Option Nat → Int → Bool) (k : StoreKind) (tp : Nat) (ss : SSeg) (rest : List SSeg)
    (fs : List Fault) (s : St) :
    processSkip rule k tp (ss :: rest) fs s =
      if (segBodySkip rule k tp ss (fs.headD .none) s).2
      then processSkip rule k tp rest fs.tail (segBodySkip rule k tp ss (fs.headD .none) s).1
      else (segBodySkip rule k tp ss (fs.headD .none) s).1 := rfl

theorem process_cons' (k : StoreKind) (tp : Nat) (seg : Seg) (rest : List Seg) (f : Fault) (fs : List Fault) (s : St) :
    process k tp (seg :: rest) (f :: fs) s =
      if (segBody k tp seg f s).2 then process k tp rest fs (segBody k tp seg f s).1
      else (segBody k tp seg f s).1 := rfl

/-- a segment whose records are all at or below the checkpoint is a no-op of a fault-free body -/
theorem segBody_covered_noop (k : StoreKind) (tp : Nat) (seg : Seg) (s : St) (h : seg.tp = tp)
    (hall : ∀ o ∈ seg.offs, (o : Int) ≤ load k s tp) : segBody k tp seg Fault.none s = (s, true) := by
  rcases segBody_clean k tp seg s h with ⟨_, e⟩ | ⟨hne, _⟩
  · exact e
  · exfalso
    apply hne
    rw [List.eq_nil_iff_forall_not_mem]
    intro o ho
    have := mem_keep.mp ho
    have := hall o this.1
    omega

/-- **the strict fast path is a refinement**: with sound statistics, one pass of the loop with
`MaxOffset < checkpoint+1 → continue` is a pass of the plain loop under some failure oracle
(skipped segments behave like fault-free ones); failure-free oracles stay failure-free. -/
theorem processSkip_refines (k : StoreKind) (tp : Nat) (sss : List SSeg) :
    ∀ (fs : List Fault) (s : St), StatsOK sss →
      ∃ fs', processSkip skipLt k tp sss fs s = process k tp (sss.map (·.seg)) fs' s ∧
        (noFaults fs → noFaults fs') := by
  induction sss with
  | nil => intro fs s _; exact ⟨[], rfl, fun _ => by intro f hf; simp at hf⟩
  | cons ss rest ih =>
    intro fs s hst
    have hst' : StatsOK rest := fun x hx => hst x (List.mem_cons_of_mem _ hx)
    rw [processSkip_cons]
    simp only [List.map_cons]
    by_cases htp : ss.seg.tp = tp
    · by_cases hl : fs.headD .none = Fault.load
      · -- LoadOffset fails: both loops are left
        refine ⟨[Fault.load], ?_, ?_⟩
        · have e1 : segBodySkip skipLt k tp ss (fs.headD .none) s = (s, false) := by
            unfold segBodySkip; rw [if_neg (by simp [htp]), if_pos hl]
          have e2 : segBody k tp ss.seg Fault.load s = (s, false) := by
            unfold segBody; rw [if_neg (by simp [htp]), if_pos rfl]
          rw [e1, process_cons]; simp [e2]
        · intro hnf
          have := noFaults_head hnf
          rw [this] at hl; cases hl
      · by_cases hr : skipLt ss.maxOff (load k s tp) = true
        · -- the fast path: nothing is downloaded; the plain loop without a fault does nothing either
          have e1 : segBodySkip skipLt k tp ss (fs.headD .none) s = (s, true) := by
            unfold segBodySkip; rw [if_neg (by simp [htp]), if_neg hl, if_pos hr]
          have hall : ∀ o ∈ ss.seg.offs, (o : Int) ≤ load k s tp := by
            intro o ho
            unfold skipLt at hr
            cases hm : ss.maxOff with
            | none => rw [hm] at hr; simp at hr
            | some m =>
              rw [hm] at hr
              have := hst ss (by simp) m hm o ho
              simp at hr
              omega
          have e2 := segBody_covered_noop k tp ss.seg s htp hall
          obtain ⟨fs', he, hn⟩ := ih fs.tail s hst'
          refine ⟨Fault.none :: fs', ?_, ?_⟩
          · rw [e1, process_cons]; simp [e2, he]
          · intro hnf f hf
            rcases List.mem_cons.mp hf with rfl | h
            · rfl
            · exact hn (noFaults_tail hnf) f h
        · -- no fast path: the body of the plain loop
          have e1 : segBodySkip skipLt k tp ss (fs.headD .none) s = segBody k tp ss.seg (fs.headD .none) s := by
            unfold segBodySkip; rw [if_neg (by simp [htp]), if_neg hl, if_neg hr]
          rw [e1]
          obtain ⟨fs', he, hn⟩ := ih fs.tail (segBody k tp ss.seg (fs.headD .none) s).1 hst'
          refine ⟨fs.headD .none :: fs', ?_, ?_⟩
          · rw [process_cons']
            by_cases hb : (segBody k tp ss.seg (fs.headD .none) s).2 = true
            · rw [if_pos hb, if_pos hb]; exact he
            · rw [if_neg hb, if_neg hb]
          · intro hnf f hf
            rcases List.mem_cons.mp hf with rfl | h
            · exact noFaults_head hnf
            · exact hn (noFaults_tail hnf) f h
    · have e1 : segBodySkip skipLt k tp ss (fs.headD .none) s = (s, true) := by
        unfold segBodySkip; rw [if_pos htp]
      obtain ⟨fs', he, hn⟩ := ih fs.tail s hst'
      refine ⟨Fault.none :: fs', ?_, ?_⟩
      · rw [e1, process_cons, segBody_other k tp ss.seg _ s htp]; simp [he]
      · intro hnf f hf
        rcases List.mem_cons.mp hf with rfl | h
        · rfl
        · exact hn (noFaults_tail hnf) f h

theorem cycleSkip_refines (k : StoreKind) (sss : List SSeg) (o : Oracle) (s : St) (hst : StatsOK sss) :
    ∃ o' : Oracle, cycleSkip skipLt k sss o s = cycle k (sss.map (·.seg)) o' s ∧
      o'.listFail = o.listFail ∧ o'.claimFail = o.claimFail ∧ (noFaults o.faults → noFaults o'.faults) := by
  by_cases hlf : o.listFail = true
  · exact ⟨o, by simp [cycleSkip, cycle, hlf], rfl, rfl, id⟩
  · cases hl : s.lease with
    | some tp =>
      obtain ⟨fs', he, hn⟩ := processSkip_refines k tp sss o.faults s hst
      refine ⟨⟨o.listFail, o.claimFail, fs'⟩, ?_, rfl, rfl, hn⟩
      simp [cycleSkip, cycle, hlf, hl, he]
    | none =>
      cases hc : claim (sss.map (·.seg)) o.claimFail with
      | none => exact ⟨o, by simp [cycleSkip, cycle, hlf, hl, hc], rfl, rfl, id⟩
      | some tp =>
        obtain ⟨fs', he, hn⟩ := processSkip_refines k tp sss o.faults { s with lease := some tp } hst
        refine ⟨⟨o.listFail, o.claimFail, fs'⟩, ?_, rfl, rfl, hn⟩
        simp [cycleSkip, cycle, hlf, hl, hc, he]

/-- **C33 (safety, statistics fast path).** A loop that skips the download of a segment whose listed
`MaxOffset` is strictly below the next offset to deliver keeps the invariant, for every history. -/
theorem _root_.KafVerif.C33.checkpoint_covered_stat_skip (k : StoreKind) (sss : List SSeg) (hst : StatsOK sss)
    (hs : SortedTP (sss.map (·.seg))) (ops : List Op) :
    Covered k (sss.map (·.seg)) (ops.foldl (stepSkip skipLt k sss) init) := by
  have h0 := init_covered k (sss.map (·.seg))
  generalize init = s at h0 ⊢
  induction ops generalizing s with
  | nil => simpa using h0
  | cons op ops ih =>
    apply ih
    cases op with
    | cycle o =>
      obtain ⟨o', he, _⟩ := cycleSkip_refines k sss o s hst
      simp only [stepSkip]; rw [he]
      exact cycle_covered k _ o' s hs h0
    | leaseLost =>
      intro t o ho hle
      cases k <;> exact h0 t o ho hle

/-- … and a failure-free cycle still delivers the whole leased partition. -/
theorem _root_.KafVerif.C33.clean_cycle_delivers_stat_skip (k : StoreKind) (sss : List SSeg) (hst : StatsOK sss)
    (hs : SortedTP (sss.map (·.seg))) (o : Oracle) (s : St) (hc : Covered k (sss.map (·.seg)) s) (tp : Nat)
    (hlist : o.listFail = false) (hlease : leaseAfter (sss.map (·.seg)) o s = some tp) (hnf : noFaults o.faults) :
    ∀ x ∈ offsOf tp (sss.map (·.seg)), (tp, x) ∈ (cycleSkip skipLt k sss o s).sink := by
  obtain ⟨o', he, h1, h2, h3⟩ := cycleSkip_refines k sss o s hst
  rw [he]
  apply KafVerif.C33.clean_cycle_delivers k _ hs o' s hc tp (by rw [h1]; exact hlist) _ (h3 hnf)
  unfold leaseAfter at hlease ⊢
  rw [h2]; exact hlease

/-- **the off-by-one fast path loses records**: `MaxOffset <= checkpoint+1` skips the segment that
holds exactly the one next record (here the partition's first record, offset 0); the next segment's
commit moves the checkpoint past it — in the very first, failure-free cycle. -/
theorem _root_.KafVerif.C33.skip_le_loses_record :
    ∃ (sss : List SSeg) (o : Oracle), StatsOK sss ∧ SortedTP (sss.map (·.seg)) ∧ noFaults o.faults ∧
      ¬ Covered .mem (sss.map (·.seg)) (cycleSkip skipLe .mem sss o init) := by
  refine ⟨[⟨⟨0, [0]⟩, some 0⟩, ⟨⟨0, [1]⟩, none⟩], ⟨false, [], []⟩, ?_, ?_, ?_, ?_⟩
  · intro ss hss m hm o ho
    simp at hss
    rcases hss with rfl | rfl
    · simp at hm ho; omega
    · simp at hm
  · intro tp
    by_cases h : tp = 0
    · subst h; decide
    · have h' : (0 : Nat) ≠ tp := fun e => h e.symm
      simp [offsOf, h']
  · intro f hf; simp at hf
  · intro h
    have := h 0 0 (by decide) (by decide)
    revert this; decide

example : StatsOK [⟨⟨0, [0]⟩, some 0⟩, ⟨⟨0, [1, 2]⟩, some 5⟩, ⟨⟨0, [7]⟩, none⟩] := by
  intro ss hss m hm o ho
  simp at hss
  rcases hss with rfl | rfl | rfl <;> simp at hm ho <;> omega

/-! ### the lister in front of the loop: listing faults, the sorted complete listing -/

theorem mem_insertObj {a x : Obj} {l : List Obj} : x ∈ insertObj a l ↔ x = a ∨ x ∈ l := by
  induction l with
  | nil => simp [insertObj]
  | cons b t ih =>
    unfold insertObj
    split
    · simp
    · simp only [List.mem_cons, ih]
      constructor
      · rintro (h | h | h)
        · exact Or.inr (Or.inl h)
        · exact Or.inl h
        · exact Or.inr (Or.inr h)
      · rintro (h | h | h)
        · exact Or.inr (Or.inl h)
        · exact Or.inl h
        · exact Or.inr (Or.inr h)

theorem mem_sortObjs {x : Obj} {l : List Obj} : x ∈ sortObjs l ↔ x ∈ l := by
  induction l with
  | nil => simp [sortObjs]
  | cons a t ih =>
    have : sortObjs (a :: t) = insertObj a (sortObjs t) := rfl
    rw [this, mem_insertObj, ih]; simp

theorem objLe_total {a b : Obj} (h : objLe a b = false) : objLe b a = true := by
  simp only [objLe, Bool.or_eq_false_iff, Bool.and_eq_false_iff, decide_eq_false_iff_not] at h
  simp only [objLe, Bool.or_eq_true, Bool.and_eq_true, decide_eq_true_eq]
  omega

theorem objLe_trans {a b c : Obj} (h1 : objLe a b = true) (h2 : objLe b c = true) : objLe a c = true := by
  simp only [objLe, Bool.or_eq_true, Bool.and_eq_true, decide_eq_true_eq] at h1 h2 ⊢
  omega

theorem pairwise_insertObj (a : Obj) (l : List Obj) (h : l.Pairwise (fun x y => objLe x y = true)) :
    (insertObj a l).Pairwise (fun x y => objLe x y = true) := by
  induction l with
  | nil => simp [insertObj]
  | cons b t ih =>
    have hb := List.pairwise_cons.mp h
    unfold insertObj
    by_cases hab : objLe a b = true
    · rw [if_pos hab]
      refine List.pairwise_cons.mpr ⟨?_, h⟩
      intro x hx
      rcases List.mem_cons.mp hx with rfl | hx
      · exact hab
      · exact objLe_trans hab (hb.1 x hx)
    · rw [if_neg hab]
      refine List.pairwise_cons.mpr ⟨?_, ih hb.2⟩
      intro x hx
      rcases mem_insertObj.mp hx with rfl | hx
      · exact objLe_total (by simpa using hab)
      · exact hb.1 x hx

theorem pairwise_sortObjs (l : List Obj) : (sortObjs l).Pairwise (fun x y => objLe x y = true) := by
  induction l with
  | nil => simp [sortObjs]
  | cons a t ih => exact pairwise_insertObj a _ ih

/-- a symmetric relation that holds pairwise in a list holds pairwise in the sorted list -/
theorem pairwise_insertObj_symm {R : Obj → Obj → Prop} (hsym : ∀ x y, R x y → R y x) (a : Obj) (l : List Obj)
    (ha : ∀ b ∈ l, R a b) (h : l.Pairwise R) : (insertObj a l).Pairwise R := by
  induction l with
  | nil => simp [insertObj]
  | cons b t ih =>
    have hb := List.pairwise_cons.mp h
    unfold insertObj
    split
    · exact List.pairwise_cons.mpr ⟨ha, h⟩
    · refine List.pairwise_cons.mpr ⟨?_, ih (fun x hx => ha x (List.mem_cons_of_mem _ hx)) hb.2⟩
      intro x hx
      rcases mem_insertObj.mp hx with rfl | hx
      · exact hsym _ _ (ha b (by simp))
      · exact hb.1 x hx

theorem pairwise_sortObjs_symm {R : Obj → Obj → Prop} (hsym : ∀ x y, R x y → R y x) (l : List Obj)
    (h : l.Pairwise R) : (sortObjs l).Pairwise R := by
  induction l with
  | nil => simp [sortObjs]
  | cons a t ih =>
    have ha := List.pairwise_cons.mp h
    exact pairwise_insertObj_symm hsym a _ (fun b hb => ha.1 b (mem_sortObjs.mp hb)) (ih ha.2)

theorem mem_offsOf {tp y : Nat} {segs : List Seg} (h : y ∈ offsOf tp segs) :
    ∃ sg ∈ segs, sg.tp = tp ∧ y ∈ sg.offs := by
  induction segs with
  | nil => simp [offsOf] at h
  | cons a rest ih =>
    unfold offsOf at h
    split at h
    · rename_i htp
      rcases List.mem_append.mp h with h | h
      · exact ⟨a, by simp, htp, h⟩
      · obtain ⟨sg, hs, h1, h2⟩ := ih h
        exact ⟨sg, List.mem_cons_of_mem _ hs, h1, h2⟩
    · obtain ⟨sg, hs, h1, h2⟩ := ih h
      exact ⟨sg, List.mem_cons_of_mem _ hs, h1, h2⟩

/-- sorted by (partition, base offset) with unique keys ⇒ every partition is listed in offset order -/
theorem offsOf_pairwise_of_sorted (c : List Obj) (hwf : WFObjs c) (tp : Nat) :
    ∀ l : List Obj, (∀ x ∈ l, x ∈ c) → l.Pairwise (fun x y => objLe x y = true) →
      l.Pairwise (fun a b => ¬ (a.seg.tp = b.seg.tp ∧ a.base = b.base)) →
      (offsOf tp (l.map (·.seg))).Pairwise (· < ·) := by
  intro l
  induction l with
  | nil => intro _ _ _; simp [offsOf]
  | cons a rest ih =>
    intro hsub hle hkeys
    have hle' := List.pairwise_cons.mp hle
    have hkeys' := List.pairwise_cons.mp hkeys
    have hrest := ih (fun x hx => hsub x (List.mem_cons_of_mem _ hx)) hle'.2 hkeys'.2
    simp only [List.map_cons]
    unfold offsOf
    split
    · rename_i htp
      refine List.pairwise_append.mpr ⟨hwf.inner a (hsub a (by simp)), hrest, ?_⟩
      intro x hx y hy
      obtain ⟨sg, hsg, hsgtp, hysg⟩ := mem_offsOf hy
      obtain ⟨b, hb, rfl⟩ := List.mem_map.mp hsg
      have h1 := hle'.1 b hb
      have h2 := hkeys'.1 b hb
      have hlt : a.base < b.base := by
        simp only [objLe, Bool.or_eq_true, Bool.and_eq_true, decide_eq_true_eq] at h1
        have : a.seg.tp = b.seg.tp := by rw [htp, hsgtp]
        omega
      exact hwf.across a (hsub a (by simp)) b (hsub b (List.mem_cons_of_mem _ hb)) (by rw [htp, hsgtp]) hlt x hx y hysg
    · exact hrest

/-- **the complete listing of a well-formed bucket is in offset order per partition** — what
`checkpoint_covered` assumes about `ListCompleted`, derived from the sort in the lister -/
theorem _root_.KafVerif.C33.fullListing_sorted (objs : List Obj) (h : BucketWF objs) : SortedTP (fullListing objs) := by
  intro tp
  unfold fullListing
  apply offsOf_pairwise_of_sorted (objs.filter (·.complete)) h tp
  · intro x hx; exact mem_sortObjs.mp hx
  · exact pairwise_sortObjs _
  · exact pairwise_sortObjs_symm (fun x y hxy hc => hxy ⟨hc.1.symm, hc.2.symm⟩) _ h.keys

/-- the fixed lister answers an error or the complete listing, nothing in between -/
theorem listCompleted_some {objs : List Obj} {lo : ListOracle} {l : List Seg}
    (h : listCompleted objs lo = some l) : l = fullListing objs := by
  unfold listCompleted at h
  split at h
  · cases h
  · split at h
    · cases h
    · cases h; rfl

theorem survivors_of_no_probe_error (objs : List Obj) :
    ∀ pe : List Bool, anyProbeErr objs pe = false → survivors objs pe = objs.filter (·.complete) := by
  induction objs with
  | nil => intro _ _; rfl
  | cons a t ih =>
    intro pe h
    simp only [anyProbeErr, Bool.or_eq_false_iff] at h
    simp only [survivors, h.1, Bool.not_false, Bool.and_true, List.filter_cons]
    split
    · rw [ih _ h.2]
    · exact ih _ h.2

/-- without a probe error the code before the fix lists the same -/
theorem listCompletedOld_eq (objs : List Obj) (lo : ListOracle) (h : anyProbeErr objs lo.probeErr = false) :
    listCompletedOld objs lo = listCompleted objs lo := by
  unfold listCompletedOld listCompleted fullListing
  rw [h, survivors_of_no_probe_error objs _ h]
  simp

theorem cycleL_covered (k : StoreKind) (objs : List Obj) (hwf : BucketWF objs) (lo : ListOracle) (o : Oracle)
    (s : St) (hc : Covered k (fullListing objs) s) : Covered k (fullListing objs) (cycleL k objs lo o s) := by
  unfold cycleL cycleWith
  cases h : listCompleted objs lo with
  | none => exact hc
  | some l =>
    rw [listCompleted_some h]
    exact cycle_covered k _ o s (KafVerif.C33.fullListing_sorted objs hwf) hc

/-- **C33 (safety, with the real lister).** For every well-formed bucket, either store and every
history of polling cycles — each with an arbitrary S3 fault oracle for `ListCompleted` (the
`ListObjectsV2` call, the footer probe of any segment) and an arbitrary failure oracle for the loop —
and lease losses: every record of every COMPLETED segment of the bucket (listed this tick or not)
at or below its partition's checkpoint is in the sink. -/
theorem _root_.KafVerif.C33.checkpoint_covered_listing (k : StoreKind) (objs : List Obj) (hwf : BucketWF objs)
    (ops : List LOp) : Covered k (fullListing objs) (ops.foldl (stepL k objs) init) := by
  have h0 := init_covered k (fullListing objs)
  generalize init = s at h0 ⊢
  induction ops generalizing s with
  | nil => simpa using h0
  | cons op ops ih =>
    apply ih
    cases op with
    | cycle lo o => exact cycleL_covered k objs hwf lo o s h0
    | leaseLost =>
      intro t x hx hle
      cases k <;> exact h0 t x hx hle

/-- **C33 (progress with the real lister).** A tick whose listing succeeds and in which no step fails
delivers every record of every completed segment of the leased partition. -/
theorem _root_.KafVerif.C33.clean_cycle_delivers_listing (k : StoreKind) (objs : List Obj) (hwf : BucketWF objs)
    (lo : ListOracle) (o : Oracle) (s : St) (hc : Covered k (fullListing objs) s) (tp : Nat)
    (hl : lo.listErr = false) (hp : anyProbeErr objs lo.probeErr = false)
    (hlist : o.listFail = false) (hlease : leaseAfter (fullListing objs) o s = some tp) (hnf : noFaults o.faults) :
    ∀ x ∈ offsOf tp (fullListing objs), (tp, x) ∈ (cycleL k objs lo o s).sink := by
  have : listCompleted objs lo = some (fullListing objs) := by simp [listCompleted, hl, hp]
  unfold cycleL cycleWith
  rw [this]
  exact KafVerif.C33.clean_cycle_delivers k _ (KafVerif.C33.fullListing_sorted objs hwf) o s hc tp hlist hlease hnf

/-- every tick's bucket is well formed and its complete listing extends the previous one -/
def GoodLHistory : List Seg → List LGOp → Prop
  | _, [] => True
  | cur, .cycle objs _ _ :: rest => Extends cur (fullListing objs) ∧ BucketWF objs ∧ GoodLHistory (fullListing objs) rest
  | cur, .leaseLost :: rest => GoodLHistory cur rest

theorem cycleL_cpListed (k : StoreKind) (objs : List Obj) (lo : ListOracle) (o : Oracle) (s : St)
    (h : CpListed k (fullListing objs) s) : CpListed k (fullListing objs) (cycleL k objs lo o s) := by
  unfold cycleL cycleWith
  cases hl : listCompleted objs lo with
  | none => exact h
  | some l =>
    rw [listCompleted_some hl]
    exact cycle_cpListed k _ o s h

theorem lgrun_covered (k : StoreKind) (ops : List LGOp) :
    ∀ (cur : List Seg) (s : St), GoodLHistory cur ops → Covered k cur s → CpListed k cur s →
      Covered k (lgrun k cur s ops).1 (lgrun k cur s ops).2 := by
  induction ops with
  | nil => intro cur s _ hc _; simpa [lgrun] using hc
  | cons op rest ih =>
    intro cur s hg hc hp
    cases op with
    | cycle objs lo o =>
      simp only [GoodLHistory] at hg
      obtain ⟨he, hwf, hg'⟩ := hg
      obtain ⟨hc', hp'⟩ := extend_inv k cur (fullListing objs) s he (KafVerif.C33.fullListing_sorted objs hwf) hc hp
      simp only [lgrun]
      exact ih _ _ hg' (cycleL_covered k objs hwf lo o s hc') (cycleL_cpListed k objs lo o s hp')
    | leaseLost =>
      simp only [GoodLHistory] at hg
      simp only [lgrun]
      apply ih cur _ hg
      · intro t x hx hle; cases k <;> exact hc t x hx hle
      · intro t; cases k <;> exact hp t

/-- **C33 (safety, real lister, growing bucket).** Also when new segments complete between ticks:
after any history, every record of every completed segment of the LATEST bucket at or below its
partition's checkpoint is in the sink — whether or not the latest `ListCompleted` calls failed. -/
theorem _root_.KafVerif.C33.checkpoint_covered_listing_growing (k : StoreKind) (ops : List LGOp)
    (h : GoodLHistory [] ops) : Covered k (lgrun k [] init ops).1 (lgrun k [] init ops).2 := by
  apply lgrun_covered k ops [] init h
  · intro t o ho; simp [offsOf] at ho
  · intro t; left; cases k <;> simp [load, loadWith, init, noopLoad]

/-! #### witnesses: the lister before the fixes -/

/-- three completed segments of partition 0 -/
def bucket3 : List Obj := [⟨⟨0, [0, 1]⟩, 0, true⟩, ⟨⟨0, [2, 3]⟩, 2, true⟩, ⟨⟨0, [4, 5]⟩, 4, true⟩]

theorem bucket3_wf : BucketWF bucket3 := by
  refine ⟨by decide, by decide, ?_⟩
  intro a ha b hb _ hlt x hx y hy
  simp only [bucket3, List.filter_cons, List.filter_nil] at ha hb
  simp at ha hb
  rcases ha with rfl | rfl | rfl <;> rcases hb with rfl | rfl | rfl <;> simp at hlt hx hy <;> omega

/-- **the footer probe of the MIDDLE segment fails once** (pre-fix lister): the listing succeeds
without the segment, the failure-free loop writes and commits the later segment, and offsets 2, 3 are
below the checkpoint without ever having been written. -/
theorem _root_.KafVerif.C33.probe_error_drops_middle_segment :
    ∃ (objs : List Obj) (lo : ListOracle) (o : Oracle), BucketWF objs ∧ lo.listErr = false ∧ noFaults o.faults ∧
      listCompletedOld objs lo = some [⟨0, [0, 1]⟩, ⟨0, [4, 5]⟩] ∧
      ¬ Covered .mem (fullListing objs) (cycleLOld .mem objs lo o init) := by
  refine ⟨bucket3, ⟨false, [false, true, false], false⟩, ⟨false, [], []⟩, bucket3_wf, rfl, ?_, by decide, ?_⟩
  · intro f hf; simp at hf
  · intro h
    have := h 0 2 (by decide) (by decide)
    revert this; decide

/-- … and they are lost for good: any number of further ticks with a faultless listing and a
faultless loop never writes offset 2 (the checkpoint is already past it). -/
theorem _root_.KafVerif.C33.probe_error_loss_is_permanent (n : Nat) :
    (0, 2) ∉ ((List.replicate n (LOp.cycle ⟨false, [], false⟩ ⟨false, [], []⟩)).foldl (stepL .mem bucket3)
      (cycleLOld .mem bucket3 ⟨false, [false, true, false], false⟩ ⟨false, [], []⟩ init)).sink := by
  have key : ∀ s : St, s.cp 0 = 5 → s.lease = some 0 → (0, 2) ∉ s.sink →
      (stepL .mem bucket3 s (LOp.cycle ⟨false, [], false⟩ ⟨false, [], []⟩)).cp 0 = 5 ∧
      (stepL .mem bucket3 s (LOp.cycle ⟨false, [], false⟩ ⟨false, [], []⟩)).lease = some 0 ∧
      (0, 2) ∉ (stepL .mem bucket3 s (LOp.cycle ⟨false, [], false⟩ ⟨false, [], []⟩)).sink := by
    intro s h1 h2 h3
    have hl : listCompleted bucket3 ⟨false, [], false⟩ = some [⟨0, [0, 1]⟩, ⟨0, [2, 3]⟩, ⟨0, [4, 5]⟩] := by decide
    simp [stepL, cycleL, cycleWith, hl, cycle, h2, process, segBody, load, loadWith, keep, h1, lfsFails, h3]
  have all : ∀ s : St, s.cp 0 = 5 → s.lease = some 0 → (0, 2) ∉ s.sink →
      (0, 2) ∉ ((List.replicate n (LOp.cycle ⟨false, [], false⟩ ⟨false, [], []⟩)).foldl (stepL .mem bucket3) s).sink := by
    induction n with
    | zero => intro s _ _ h; simpa using h
    | succ n ih =>
      intro s h1 h2 h3
      rw [List.replicate_succ, List.foldl_cons]
      obtain ⟨a, b, c⟩ := key s h1 h2 h3
      exact ih _ a b c
  apply all
  · decide
  · decide
  · decide

/-- **an unsorted listing** (sql `manifestLister` before the fix hands out `manifest.json` order): the
FIXED loop on the listing `[2,3]`, `[0,1]` commits 3 and then filters offsets 0 and 1 away — the
hypothesis `SortedTP` of `checkpoint_covered` is necessary, a lister has to sort. -/
theorem _root_.KafVerif.C33.unsorted_listing_loses_records :
    ∃ (manifest objs : List Obj) (lo : ListOracle) (o : Oracle), BucketWF objs ∧ noFaults o.faults ∧
      listManifestOld manifest objs lo = some [⟨0, [2, 3]⟩, ⟨0, [0, 1]⟩] ∧
      listManifest manifest objs lo = some [⟨0, [0, 1]⟩, ⟨0, [2, 3]⟩] ∧
      ¬ Covered .mem (fullListing objs) (cycleWith (listManifestOld manifest objs lo) .mem o init) ∧
      Covered .mem (fullListing objs) (cycleWith (listManifest manifest objs lo) .mem o init) := by
  refine ⟨[⟨⟨0, [2, 3]⟩, 2, true⟩, ⟨⟨0, [0, 1]⟩, 0, true⟩], [⟨⟨0, [2, 3]⟩, 2, true⟩, ⟨⟨0, [0, 1]⟩, 0, true⟩],
    ⟨false, [], false⟩, ⟨false, [], []⟩, ?_, ?_, by decide, by decide, ?_, ?_⟩
  · refine ⟨by decide, by decide, ?_⟩
    intro a ha b hb _ hlt x hx y hy
    simp only [List.filter_cons, List.filter_nil] at ha hb
    simp at ha hb
    rcases ha with rfl | rfl <;> rcases hb with rfl | rfl <;> simp at hlt hx hy <;> omega
  · intro f hf; simp at hf
  · intro h
    have := h 0 0 (by decide) (by decide)
    revert this; decide
  · have hl : listManifest [⟨⟨0, [2, 3]⟩, 2, true⟩, ⟨⟨0, [0, 1]⟩, 0, true⟩] [⟨⟨0, [2, 3]⟩, 2, true⟩, ⟨⟨0, [0, 1]⟩, 0, true⟩]
        ⟨false, [], false⟩ = some (fullListing [⟨⟨0, [2, 3]⟩, 2, true⟩, ⟨⟨0, [0, 1]⟩, 0, true⟩]) := by decide
    rw [hl]
    exact cycle_covered .mem _ _ init (KafVerif.C33.fullListing_sorted _ (by
      refine ⟨by decide, by decide, ?_⟩
      intro a ha b hb _ hlt x hx y hy
      simp only [List.filter_cons, List.filter_nil] at ha hb
      simp at ha hb
      rcases ha with rfl | rfl <;> rcases hb with rfl | rfl <;> simp at hlt hx hy <;> omega)) (init_covered _ _)

example : GoodLHistory [] [.cycle [⟨⟨0, [0, 1]⟩, 0, true⟩] ⟨false, [true], false⟩ ⟨false, [], []⟩, .leaseLost,
    .cycle bucket3 ⟨true, [], false⟩ ⟨false, [], [.sink]⟩] := by
  refine ⟨fun tp => List.nil_prefix, ?_, ?_, bucket3_wf, trivial⟩
  · refine ⟨by decide, by decide, ?_⟩
    intro a ha b hb _ hlt x hx y hy
    simp only [List.filter_cons, List.filter_nil] at ha hb
    simp at ha hb
    rcases ha with rfl; rcases hb with rfl; simp at hlt
  · intro tp
    by_cases h : tp = 0
    · subst h; exact ⟨[2, 3, 4, 5], by decide⟩
    · have h' : (0 : Nat) ≠ tp := fun e => h e.symm
      have e1 : offsOf tp (fullListing [⟨⟨0, [0, 1]⟩, 0, true⟩]) = [] := by
        simp [fullListing, sortObjs, insertObj, offsOf, h']
      rw [e1]; exact List.nil_prefix

example : listCompleted bucket3 ⟨false, [false, true, false], false⟩ = none := by decide
example : listCompleted bucket3 ⟨false, [], false⟩ = some [⟨0, [0, 1]⟩, ⟨0, [2, 3]⟩, ⟨0, [4, 5]⟩] := by decide

/-! ### stale listings: a manifest / cached listing that names only a prefix of each partition -/

theorem load_commit_self' (k : StoreKind) (s : St) (tp : Nat) (v : Int) :
    load k (commit k s tp v) tp = v ∨ load k (commit k s tp v) tp = load k s tp := by
  cases k
  · left; simp [load, loadWith, commit]
  · right; rfl

/-- one pass of the loop leaves the checkpoint of the leased partition where it was or moves it to
the offset of a record of a listed segment -/
theorem process_cp_change (k : StoreKind) (tp : Nat) (A : List Nat) (c : Int) (rest : List Seg) :
    ∀ (fs : List Fault) (s : St), (∀ seg ∈ rest, seg.tp = tp → ∀ o ∈ seg.offs, o ∈ A) →
      (load k s tp = c ∨ ∃ o ∈ A, load k s tp = (o : Int)) →
      (load k (process k tp rest fs s) tp = c ∨ ∃ o ∈ A, load k (process k tp rest fs s) tp = (o : Int)) := by
  induction rest with
  | nil => intro fs s _ h; simpa [process] using h
  | cons seg rest ih =>
    intro fs s hA h
    rw [process_cons]
    have hA' : ∀ x ∈ rest, x.tp = tp → ∀ o ∈ x.offs, o ∈ A := fun x hx => hA x (List.mem_cons_of_mem _ hx)
    by_cases htp : seg.tp = tp
    · rcases segBody_cases k tp seg (fs.headD .none) s htp with e | ⟨_, e⟩ | ⟨_, e⟩ | ⟨hrecs, e⟩ <;> rw [e]
      · simpa using h
      · simp only [if_true]; exact ih _ _ hA' h
      · simp only [if_true]; exact ih _ _ hA' (by simpa using h)
      · simp only [if_true]
        apply ih _ _ hA'
        rcases load_commit_self' k { s with sink := s.sink ++ tagged tp (keep (load k s tp) seg.offs) } tp
          (((keep (load k s tp) seg.offs).getLast?.getD 0 : Nat) : Int) with he | he
        · right
          exact ⟨_, hA seg (by simp) htp _ (mem_keep.mp (getLast_mem_of_ne_nil hrecs)).1, he⟩
        · rw [he]; simpa using h
    · rw [segBody_other k tp seg _ s htp]
      simp only [if_true]
      exact ih _ _ hA' h

theorem cycle_cp_change (k : StoreKind) (l : List Seg) (o : Oracle) (s : St) (t : Nat) :
    load k (cycle k l o s) t = load k s t ∨ ∃ x ∈ offsOf t l, load k (cycle k l o s) t = (x : Int) := by
  have hl : ∀ ls, load k { s with lease := ls } t = load k s t := by intro ls; cases k <;> rfl
  have key : ∀ (tp : Nat) (s' : St), load k s' t = load k s t →
      (load k (process k tp l o.faults s') t = load k s t ∨
        ∃ x ∈ offsOf t l, load k (process k tp l o.faults s') t = (x : Int)) := by
    intro tp s' h'
    by_cases ht : t = tp
    · subst ht
      exact process_cp_change k t (offsOf t l) (load k s t) l o.faults s'
        (fun seg hseg htp x hx => offsOf_mem_of_mem hseg htp hx) (Or.inl h')
    · left; rw [(process_frame k tp l o.faults s').other t ht]; exact h'
  unfold cycle
  split
  · exact Or.inl rfl
  · simp only []
    split
    · split
      · exact Or.inl rfl
      · exact Or.inl (hl _)
    · rename_i tp htp
      split at htp
      · exact key tp s rfl
      · exact key tp _ (hl _)

theorem cycle_sink_mono (k : StoreKind) (l : List Seg) (o : Oracle) (s : St) :
    ∀ x ∈ s.sink, x ∈ (cycle k l o s).sink := by
  unfold cycle
  split
  · exact fun _ h => h
  · simp only []
    split
    · split
      · exact fun _ h => h
      · exact fun _ h => h
    · rename_i tp htp
      split at htp
      · exact (process_frame k tp l o.faults s).sink_mono
      · exact fun x hx => (process_frame k tp l o.faults { s with lease := claim l o.claimFail }).sink_mono x hx

/-- a tick over a listing that is, per partition, a PREFIX of the complete listing (a manifest or a
cached listing older than the newest segments) keeps the invariant for the complete listing -/
theorem cycle_covered_prefix (k : StoreKind) (full l : List Seg) (hs : SortedTP full) (hpre : Extends l full)
    (o : Oracle) (s : St) (hc : Covered k full s) (hp : CpListed k full s) :
    Covered k full (cycle k l o s) ∧ CpListed k full (cycle k l o s) := by
  have hsl : SortedTP l := fun tp => (hs tp).sublist (hpre tp).sublist
  have hcl : Covered k l s := fun tp x hx hle => hc tp x ((hpre tp).sublist.subset hx) hle
  have hcl' := cycle_covered k l o s hsl hcl
  constructor
  · intro t x hx hle
    obtain ⟨suffix, hsuf⟩ := hpre t
    rw [← hsuf] at hx
    rcases List.mem_append.mp hx with h | h
    · exact hcl' t x h hle
    · rcases cycle_cp_change k l o s t with he | ⟨y, hy, he⟩
      · rw [he] at hle
        exact cycle_sink_mono k l o s _ (hc t x (by rw [← hsuf]; exact List.mem_append.mpr (Or.inr h)) hle)
      · exfalso
        have hsorted := hs t
        rw [← hsuf] at hsorted
        have := (List.pairwise_append.mp hsorted).2.2 y hy x h
        rw [he] at hle; omega
  · intro t
    rcases cycle_cp_change k l o s t with he | ⟨y, hy, he⟩
    · rw [he]; exact hp t
    · exact Or.inr ⟨y, (hpre t).sublist.subset hy, he⟩

/-- a tick of a history with stale listings: the complete listing of the bucket at that moment
(ghost), what `ListCompleted` answered (`none`: an error), the loop's failure oracle -/
inductive SOp where
  | cycle (full : List Seg) (ls : Option (List Seg)) (o : Oracle)
  | leaseLost

def srun (k : StoreKind) : List Seg → St → List SOp → List Seg × St
  | cur, s, [] => (cur, s)
  | _, s, .cycle full ls o :: rest => srun k full (cycleWith ls k o s) rest
  | cur, s, .leaseLost :: rest => srun k cur { s with lease := none } rest

/-- the bucket only grows at the end of a partition, its complete listing is in offset order, and
every answered listing is a per-partition prefix of it -/
def GoodSHistory : List Seg → List SOp → Prop
  | _, [] => True
  | cur, .cycle full ls _ :: rest =>
    Extends cur full ∧ SortedTP full ∧ (∀ l, ls = some l → Extends l full) ∧ GoodSHistory full rest
  | cur, .leaseLost :: rest => GoodSHistory cur rest

theorem srun_covered (k : StoreKind) (ops : List SOp) :
    ∀ (cur : List Seg) (s : St), GoodSHistory cur ops → Covered k cur s → CpListed k cur s →
      Covered k (srun k cur s ops).1 (srun k cur s ops).2 := by
  induction ops with
  | nil => intro cur s _ hc _; simpa [srun] using hc
  | cons op rest ih =>
    intro cur s hg hc hp
    cases op with
    | cycle full ls o =>
      simp only [GoodSHistory] at hg
      obtain ⟨he, hs, hl, hg'⟩ := hg
      obtain ⟨hc', hp'⟩ := extend_inv k cur full s he hs hc hp
      simp only [srun]
      cases ls with
      | none => exact ih _ _ hg' hc' hp'
      | some l =>
        obtain ⟨a, b⟩ := cycle_covered_prefix k full l hs (hl l rfl) o s hc' hp'
        exact ih _ _ hg' a b
    | leaseLost =>
      simp only [GoodSHistory] at hg
      simp only [srun]
      apply ih cur _ hg
      · intro t x hx hle; cases k <;> exact hc t x hx hle
      · intro t; cases k <;> exact hp t

/-- **C33 (safety, stale and failing listings, growing bucket).** The most general form: segments
complete between ticks, `ListCompleted` fails or answers ANY per-partition prefix of the bucket's
complete listing (the full listing, a manifest written some ticks ago, a cached listing), the loop
meets arbitrary failures, leases are lost: every record of every completed segment of the latest
bucket at or below its partition's checkpoint is in the sink. -/
theorem _root_.KafVerif.C33.checkpoint_covered_stale_listing (k : StoreKind) (ops : List SOp)
    (h : GoodSHistory [] ops) : Covered k (srun k [] init ops).1 (srun k [] init ops).2 := by
  apply srun_covered k ops [] init h
  · intro t o ho; simp [offsOf] at ho
  · intro t; left; cases k <;> simp [load, loadWith, init, noopLoad]

/-- the sql manifest lister (fixed) fits: with a manifest that names a per-partition prefix of the
bucket's completed segments, whatever it answers is a prefix of the complete listing -/
theorem _root_.KafVerif.C33.listManifest_prefix (manifest objs : List Obj) (lo : ListOracle)
    (hm : Extends ((sortObjs manifest).map (·.seg)) (fullListing objs)) :
    ∀ l, listManifest manifest objs lo = some l → Extends l (fullListing objs) := by
  intro l h
  unfold listManifest at h
  split at h
  · rw [listCompleted_some h]; exact fun tp => List.prefix_refl _
  · cases h; exact hm

example : GoodSHistory [] [.cycle [⟨0, [0, 1]⟩, ⟨0, [2]⟩] (some [⟨0, [0, 1]⟩]) ⟨false, [], []⟩,
    .cycle [⟨0, [0, 1]⟩, ⟨0, [2]⟩, ⟨0, [3]⟩] none ⟨false, [], []⟩, .leaseLost] := by
  refine ⟨fun tp => List.nil_prefix, fun tp => ?_, ?_, ?_, fun tp => ?_, ?_, trivial⟩
  · by_cases h : tp = 0
    · subst h; decide
    · have h' : (0 : Nat) ≠ tp := fun e => h e.symm
      simp [offsOf, h']
  · intro l hl tp
    cases hl
    by_cases h : tp = 0
    · subst h; exact ⟨[2], by decide⟩
    · have h' : (0 : Nat) ≠ tp := fun e => h e.symm
      simp [offsOf, h']
  · intro tp
    by_cases h : tp = 0
    · subst h; exact ⟨[3], by decide⟩
    · have h' : (0 : Nat) ≠ tp := fun e => h e.symm
      simp [offsOf, h']
  · by_cases h : tp = 0
    · subst h; decide
    · have h' : (0 : Nat) ≠ tp := fun e => h e.symm
      simp [offsOf, h']
  · intro l hl; cases hl

end KafVerif.Processor
